(* Emit.v — what the bitproto renderers EMIT, at the level of declarations (property C10).

   Input : an elaborated schema = list of files; each file has a base name, a proto name,
           imports (member name = as-name or proto name, target file), options, and its
           definitions in declaration order; messages carry their nested definitions; types
           reference definitions by resolved identity (file, enclosing messages, name) plus
           the chain of import member names through which the reference was written.
   Output: per target (C header / C source, standard and -O; Python; Go) the ordered list of
           items the renderer writes: include / import statements and declarations
           (kind, name space, generated name, the generated names it uses).

   ORDER comes from gen/GenC10.v (block lists, composite blocks, dispatch tables translated
   from /repo) and from [flat] = Scope.filter(recursive=True): children first, declaration
   order.  NAMES come from the templates of gen/GenC10.v and the hand-modelled joining
   functions of renderer/formatter.py:346-468 (pinned by skeleton digests).
   Statement bodies (the -O copy statements, accessor bodies) are not modelled. *)
From Coq Require Import String Ascii List ZArith Bool Arith.
From BP Require Import EmitBase EmitNames.
From BPGen Require Import GenC10.
Import ListNotations.
Open Scope string_scope.
Open Scope list_scope.
Open Scope nat_scope.
Local Infix "+++" := String.append (at level 60, right associativity).

(* ------------------------------------------------------------------------------------ *)
(* elaborated schema                                                                      *)
(* ------------------------------------------------------------------------------------ *)

Inductive cval := CvInt (z : Z) | CvBool (b : bool) | CvStr (s : string).
Inductive base := BBool | BByte | BUint (n : nat) | BInt (n : nat).
Inductive rk := RkEnum | RkMsg | RkAlias.

Record ref := mkRef {
  r_k : rk;
  r_via : list string;      (* import member names from the referencing file to the defining file *)
  r_file : nat;             (* defining file *)
  r_path : list string;     (* enclosing messages, outermost first *)
  r_name : string }.

(* capacities and enum values are binary numbers: they are never inspected by the model and must
   not be expanded to unary [nat] during evaluation *)
Inductive tyx := TBase (b : base) | TRef (r : ref) | TArr (e : tyx) (cap : N) (ext : bool).

Record field := mkField { fl_name : string; fl_num : nat; fl_ty : tyx }.

Inductive def :=
| DConst (n : string) (v : cval)
| DAlias (n : string) (t : tyx)
| DEnum (n : string) (w : nat) (ms : list (string * N))
| DMsg (n : string) (ext : bool) (nested : list def) (fs : list field).

Record opts := mkOpts { o_cprefix : string; o_calign : Z; o_pymod : string; o_gopkg : string }.

Record file := mkFile {
  f_base : string;                       (* source file name without ".bitproto" *)
  f_proto : string;                      (* proto name *)
  f_imports : list (string * nat);       (* member name (as-name or proto name), file index *)
  f_opts : opts;
  f_defs : list def }.

Definition schema := list file.

Definition no_opts : opts := mkOpts "" 0%Z "" "".
Definition nofile : file := mkFile "" "" [] no_opts [].
Definition getf (s : schema) (i : nat) : file := nth i s nofile.

Definition def_name (d : def) : string :=
  match d with DConst n _ | DAlias n _ | DEnum n _ _ | DMsg n _ _ _ => n end.
Definition dkind_of (d : def) : dkind :=
  match d with DConst _ _ => DkConstant | DAlias _ _ => DkAlias | DEnum _ _ _ => DkEnum | DMsg _ _ _ _ => DkMessage end.

(* ---- Scope.filter(BoundDefinition, recursive=True): children first, declaration order ---- *)
Record fdef := mkF { fd_path : list string; fd_def : def }.

Fixpoint flat (pth : list string) (d : def) : list fdef :=
  match d with
  | DMsg n _ nested _ =>
      (fix go (l : list def) : list fdef :=
         match l with [] => [] | c :: r => flat (pth ++ [n]) c ++ go r end) nested
      ++ [mkF pth d]
  | _ => [mkF pth d]
  end.

Definition flat_defs (pth : list string) (l : list def) : list fdef := flat_map (flat pth) l.
Definition flat_file (f : file) : list fdef := flat_defs [] (f_defs f).

Lemma flat_msg pth n x nested fs :
  flat pth (DMsg n x nested fs) = flat_defs (pth ++ [n]) nested ++ [mkF pth (DMsg n x nested fs)].
Proof.
  cbn [flat]. apply (f_equal (fun l => l ++ [mkF pth (DMsg n x nested fs)])).
  induction nested as [|c r IH]; [reflexivity|].
  cbn [flat_defs flat_map]. rewrite IH. reflexivity.
Qed.

(* ---- Message.sorted_fields(): stable sort by field number ---- *)
Fixpoint insert_fl (x : field) (l : list field) : list field :=
  match l with
  | [] => [x]
  | h :: r => if fl_num x <? fl_num h then x :: h :: r else h :: insert_fl x r
  end.
Fixpoint sort_fl (l : list field) : list field :=
  match l with [] => [] | h :: r => insert_fl h (sort_fl r) end.
(* Python's sorted() is stable and takes the first of equal keys first: insertion from the
   right with strict "<" keeps earlier elements first.  Field numbers are distinct anyway. *)

(* ------------------------------------------------------------------------------------ *)
(* output                                                                                 *)
(* ------------------------------------------------------------------------------------ *)

(* NsMember T: the attribute / method name space of one class or receiver type T *)
Inductive ns := NsMacro | NsTag | NsOrd | NsMod | NsMember (owner : string).
Inductive dk :=
| DkDefine | DkTypedef | DkStruct | DkProto | DkFunc            (* C *)
| DkPyAssign | DkPyClass | DkPyDef                               (* Python module level *)
| DkGoType | DkGoConst | DkGoVar | DkGoMethod.                   (* Go package level *)

Record use := mkUse { u_ns : ns; u_qual : string; u_name : string; u_eager : bool }.
Record decl := mkDecl { d_kind : dk; d_ns : ns; d_name : string; d_uses : list use; d_members : nat }.

Inductive item :=
| IDecl (d : decl)
| IImport (member : string) (target : string) (tfile : nat).
   (* include / import statement: the member name it binds ("" in C), the file or module
      name written in the statement, and the schema file the front end resolved it to *)

Inductive target := TgH | TgC | TgHO | TgCO | TgPy | TgGo.
Definition lang_of (t : target) : lang :=
  match t with TgPy => LPy | TgGo => LGo | _ => LC end.

(* ------------------------------------------------------------------------------------ *)
(* names: renderer/formatter.py:346-468                                                   *)
(* ------------------------------------------------------------------------------------ *)

Definition apply_style (st : cstyle) (x : string) : string :=
  match st with SKeep => x | SSnake => snake_case x | SUpper => upper_case x | SPascal => pascal_case x end.
Definition conv (L : lang) (c : dclass) (x : string) : string :=
  fold_left (fun acc st => apply_style st acc) (case_style L c) x.

(* _get_definition_name_prefix: bound.get_option_as_string_or_raise(option_name) when the
   formatter names an option *)
Definition opt_string (o : opts) (name : string) : string :=
  if String.eqb name "c.name_prefix" then o_cprefix o
  else if String.eqb name "py.module_name" then o_pymod o
  else if String.eqb name "go.package_path" then o_gopkg o
  else "".
Definition prefix_of (L : lang) (o : opts) : string :=
  if String.eqb (name_prefix_option L) "" then "" else opt_string o (name_prefix_option L).

(* _format_definition_name_inner_proto: prefix + "_".join(enclosing messages + [name]) *)
Definition inner_name (px : string) (pth : list string) (n : string) : string :=
  px +++ join_with delim_inner (pth ++ [n]).

Definition dname (L : lang) (c : dclass) (px : string) (pth : list string) (n : string) : string :=
  conv L c (inner_name px pth n).

Fixpoint strs_eqb (a b : list string) : bool :=
  match a, b with
  | [], [] => true
  | x :: r, y :: t => String.eqb x y && strs_eqb r t
  | _, _ => false
  end.

Definition class_of_rk (k : rk) : dclass :=
  match k with RkEnum => KEnum | RkMsg => KMessage | RkAlias => KAlias end.

Section WithSchema.
Variable s : schema.

Definition ref_px (L : lang) (r : ref) : string := prefix_of L (f_opts (getf s (r_file r))).
(* format_definition_name_inner_proto(d) with class_ = d.__class__ (alias, message) or Enum *)
Definition ref_name (L : lang) (r : ref) : string :=
  dname L (class_of_rk (r_k r)) (ref_px L r) (r_path r) (r_name r).

(* format_definition_name: qualified by the member name of the parent proto only when the
   parent IS a proto (top-level definition) and that proto is imported *)
Definition ref_qual (L : lang) (r : ref) : string :=
  if import_as_member L then
    match r_via r, r_path r with
    | [], _ => ""
    | v, [] => last v ""
    | _, _ => ""
    end
  else "".
(* format_name_related_to_definition: qualified by the last proto of the scope stack *)
Definition rel_qual (L : lang) (r : ref) : string :=
  if import_as_member L then last (r_via r) "" else "".

(* ---- look a reference up ---- *)
Definition fdef_is (k : rk) (pth : list string) (n : string) (fd : fdef) : bool :=
  strs_eqb (fd_path fd) pth && String.eqb (def_name (fd_def fd)) n &&
  match k, fd_def fd with
  | RkEnum, DEnum _ _ _ | RkMsg, DMsg _ _ _ _ | RkAlias, DAlias _ _ => true
  | _, _ => false
  end.
Definition lookup_ref (r : ref) : option fdef :=
  find (fdef_is (r_k r) (r_path r) (r_name r)) (flat_file (getf s (r_file r))).
Definition enum_members (r : ref) : option (list (string * N)) :=
  match lookup_ref r with
  | Some (mkF _ (DEnum _ _ ms)) => Some ms
  | _ => None
  end.

(* ------------------------------------------------------------------------------------ *)
(* C                                                                                      *)
(* ------------------------------------------------------------------------------------ *)

Definition cuse (n : ns) (x : string) : use := mkUse n "" x true.

Definition c_msg_proc (m : string) := c_message_processor_name m.
Definition c_msg_json (m : string) := c_message_json_formatter_name m.

(* CFormatter.format_type: the generated names a C type expression mentions *)
Fixpoint c_type_uses (t : tyx) : list use :=
  match t with
  | TBase _ => []
  | TRef r => match r_k r with
              | RkMsg => [cuse NsTag (ref_name LC r)]
              | _ => [cuse NsOrd (ref_name LC r)]
              end
  | TArr e _ _ => c_type_uses e
  end.

(* CFormatter.format_bp_type for a non-array type *)
Definition c_bp_uses (t : tyx) : list use :=
  match t with
  | TRef r =>
      let n := ref_name LC r in
      match r_k r with
      | RkEnum => [cuse NsOrd n]
      | RkAlias => [cuse NsOrd n; cuse NsOrd (c_alias_processor_name n); cuse NsOrd (c_alias_json_formatter_name n)]
      | RkMsg => [cuse NsTag n; cuse NsOrd (c_msg_proc n); cuse NsOrd (c_msg_json n)]
      end
  | _ => []
  end.

Definition is_arr (t : tyx) : bool := match t with TArr _ _ _ => true | _ => false end.
Definition arr_elem (t : tyx) : tyx := match t with TArr e _ _ => e | _ => t end.

(* format_bp_type(field.type, field) *)
Definition c_field_bp_uses (m : string) (fl : field) : list use :=
  match fl_ty fl with
  | TArr e _ _ => c_type_uses e ++
                  [cuse NsOrd (c_array_processor_name_field m (dec (fl_num fl)));
                   cuse NsOrd (c_array_json_formatter_name_field m (dec (fl_num fl)))]
  | t => c_bp_uses t
  end.
(* format_bp_type(alias.type, alias) *)
Definition c_alias_bp_uses (a : string) (t : tyx) : list use :=
  match t with
  | TArr e _ _ => c_type_uses e ++
                  [cuse NsOrd (c_array_processor_name_alias a); cuse NsOrd (c_array_json_formatter_name_alias a)]
  | t => c_bp_uses t
  end.

Definition mk (k : dk) (n : ns) (x : string) (us : list use) : decl := mkDecl k n x us 0.
Definition mkm (k : dk) (n : ns) (x : string) (us : list use) (m : nat) : decl := mkDecl k n x us m.

(* ------------------------------------------------------------------------------------ *)
(* Python                                                                                 *)
(* ------------------------------------------------------------------------------------ *)

Definition is_byte (t : tyx) : bool := match t with TBase BByte => true | _ => false end.

Fixpoint py_type_uses (eager : bool) (t : tyx) : list use :=
  match t with
  | TBase _ => []
  | TRef r => [mkUse NsMod (ref_qual LPy r) (ref_name LPy r) eager]
  | TArr e _ _ => if is_byte e then [] else py_type_uses eager e
  end.

Definition py_factory_use (eager : bool) (r : ref) : use :=
  mkUse NsMod (rel_qual LPy r) (py_default_factory_name (ref_name LPy r)) eager.

(* PyFormatter.format_default_value (None = the renderer raises: it never does since the
   fix "python output for an enum without members": a memberless enum defaults to the literal 0,
   which mentions no generated name; an enum with members to <Enum>.<first member>) *)
Fixpoint py_defval (eager : bool) (t : tyx) : option (list use) :=
  match t with
  | TBase _ => Some []
  | TArr e _ _ => if is_byte e then Some [] else py_defval eager e
  | TRef r =>
      match r_k r with
      | RkEnum => match enum_members r with
                  | Some (_ :: _) => Some [mkUse NsMod (ref_qual LPy r) (ref_name LPy r) eager]
                  | _ => Some []
                  end
      | RkMsg => Some [mkUse NsMod (ref_qual LPy r) (ref_name LPy r) eager]
      | RkAlias => Some [py_factory_use eager r]
      end
  end.
(* PyFormatter.format_field_default_value: arrays go into a lambda (evaluated at instantiation) *)
Definition py_field_default (t : tyx) : option (list use) :=
  if is_arr t then py_defval false t else py_defval true t.

(* PyFormatter.format_processor: names used inside bp_processor() *)
Fixpoint py_proc_uses (t : tyx) : list use :=
  match t with
  | TBase _ => []
  | TArr e _ _ => py_proc_uses e
  | TRef r =>
      match r_k r with
      | RkEnum => [mkUse NsMod (rel_qual LPy r) (py_processor_name_enum (ref_name LPy r)) false]
      | RkAlias => [mkUse NsMod (rel_qual LPy r) (py_processor_name_alias (ref_name LPy r)) false]
      | RkMsg => [mkUse NsMod (ref_qual LPy r) (ref_name LPy r) false]
      end
  end.

Fixpoint opt_concat {A} (l : list (option (list A))) : option (list A) :=
  match l with
  | [] => Some []
  | None :: _ => None
  | Some x :: r => match opt_concat r with Some y => Some (x ++ y) | None => None end
  end.

(* ------------------------------------------------------------------------------------ *)
(* Go                                                                                     *)
(* ------------------------------------------------------------------------------------ *)

Fixpoint go_type_uses (t : tyx) : list use :=
  match t with
  | TBase _ => []
  | TRef r => [mkUse NsMod (ref_qual LGo r) (ref_name LGo r) false]
  | TArr e _ _ => go_type_uses e
  end.

(* ------------------------------------------------------------------------------------ *)
(* the leaves: what one block class writes for one definition                            *)
(* ------------------------------------------------------------------------------------ *)

Section WithFile.
Variable i : nat.
Let f := getf s i.

Definition own_px (L : lang) : string := prefix_of L (f_opts f).

Definition py_module_of (j : nat) : string :=
  let g := getf s j in
  if String.eqb (o_pymod (f_opts g)) "" then py_default_module (f_proto g) else o_pymod (f_opts g).
Definition go_path_of (j : nat) : string :=
  let g := getf s j in
  if String.eqb (o_gopkg (f_opts g)) "" then go_default_path (f_proto g) else o_gopkg (f_opts g).

(* what one leaf block writes for one definition (a raising Python default contributes no uses:
   [py_raises] below says when the renderer raises instead) *)
Definition opt_uses (o : option (list use)) : list use := match o with Some l => l | None => [] end.

Definition leaf (b : blk) (fd : fdef) : list decl :=
  let pth := fd_path fd in
  match fd_def fd with
  | DConst n v =>
      match b with
      | H_Constant => [mk DkDefine NsMacro (dname LC KConstant (own_px LC) pth n) []]
      | P_Constant => [mk DkPyAssign NsMod (dname LPy KConstant "" pth n) []]
      | G_Constant => [mk DkGoConst NsMod (dname LGo KConstant "" pth n) []]
      | _ => []
      end
  | DAlias n t =>
      let cn := dname LC KAlias (own_px LC) pth n in
      let pn := dname LPy KAlias "" pth n in
      let gn := dname LGo KAlias "" pth n in
      match b with
      | H_AliasDef => [mk DkTypedef NsOrd cn (c_type_uses t)]
      | H_AliasProcessorDeclaration => [mk DkProto NsOrd (c_alias_processor_name cn) []]
      | H_AliasJsonFormatterDeclaration => [mk DkProto NsOrd (c_alias_json_formatter_name cn) []]
      | C_ArrayProcessorForAlias =>
          (if is_arr t then [mk DkFunc NsOrd (c_array_processor_name_alias cn) (c_bp_uses (arr_elem t))] else [])
      | C_ArrayJsonFormatterForAlias =>
          (if is_arr t then [mk DkFunc NsOrd (c_array_json_formatter_name_alias cn) (c_bp_uses (arr_elem t))] else [])
      | C_AliasProcessor => [mk DkFunc NsOrd (c_alias_processor_name cn) (c_alias_bp_uses cn t)]
      | C_AliasJsonFormatter => [mk DkFunc NsOrd (c_alias_json_formatter_name cn) (c_alias_bp_uses cn t)]
      | P_AliasDef => [mk DkPyAssign NsMod pn (py_type_uses true t)]
      | P_AliasMethodProcessor => [mk DkPyDef NsMod (py_processor_name_alias pn) (py_proc_uses t)]
      | P_AliasMethodDefaultFactory =>
          [mk DkPyDef NsMod (py_default_factory_name pn) (mkUse NsMod "" pn true :: opt_uses (py_defval false t))]
      | G_AliasDef => [mk DkGoType NsMod gn (go_type_uses t)]
      | G_AliasMethodBpProcessor => [mk DkGoMethod (NsMember gn) "BpProcessor" [mkUse NsMod "" gn false]]
      | _ => []
      end
  | DEnum n w ms =>
      let cn := dname LC KEnum (own_px LC) pth n in
      let pn := dname LPy KEnum "" pth n in
      let gn := dname LGo KEnum "" pth n in
      match b with
      | H_EnumDef => [mk DkTypedef NsOrd cn []]
      | H_EnumFieldList =>
          (map (fun m => mk DkDefine NsMacro (dname LC KEnumField (own_px LC) pth (fst m)) []) ms)
      | P_IntEnumFieldListWrapper => [mk DkPyClass NsMod pn []]
      | P_EnumFieldListWrapper =>
          (map (fun m => mk DkPyAssign NsMod (dname LPy KEnumField "" pth (fst m)) [mkUse NsMod "" pn true]) ms)
      | P_EnumValueToNameMap =>
          [mk DkPyAssign NsMod (upper_case (py_value_map_name_raw pn)) [mkUse NsMod "" pn true]]
      | P_EnumMethodProcessor => [mk DkPyDef NsMod (py_processor_name_enum pn) []]
      | G_EnumType => [mk DkGoType NsMod gn []]
      | G_EnumFieldListWrapped =>
          (map (fun m => mk DkGoConst NsMod (dname LGo KEnumField "" pth (fst m)) [mkUse NsMod "" gn false]) ms)
      | G_EnumMethodBpProcessor => [mk DkGoMethod (NsMember gn) "BpProcessor" [mkUse NsMod "" gn false]]
      | G_EnumMethodString => [mk DkGoMethod (NsMember gn) "String" [mkUse NsMod "" gn false]]
      | _ => []
      end
  | DMsg n x _ fs =>
      let cn := dname LC KMessage (own_px LC) pth n in
      let pn := dname LPy KMessage "" pth n in
      let gn := dname LGo KMessage "" pth n in
      let sf := sort_fl fs in
      let tag := cuse NsTag cn in
      let arrs := filter (fun fl => is_arr (fl_ty fl)) sf in
      let gm (suffix : string) := mk DkGoMethod (NsMember gn) suffix [mkUse NsMod "" gn false] in
      match b with
      | H_MessageLengthMacro => [mk DkDefine NsMacro (size_constant_name (upper_case (snake_case cn))) []]
      | H_MessageStruct =>
          [mkm DkStruct NsTag cn (flat_map (fun fl => c_type_uses (fl_ty fl)) sf) (length sf)]
      | H_MessageEncoderFunctionDeclaration => [mk DkProto NsOrd (c_encoder_name cn) [tag]]
      | H_MessageDecoderFunctionDeclaration => [mk DkProto NsOrd (c_decoder_name cn) [tag]]
      | H_MessageJsonFormatterFunctionDeclaration => [mk DkProto NsOrd (c_json_name cn) [tag]]
      | H_MessageProcessorDeclaration => [mk DkProto NsOrd (c_msg_proc cn) []]
      | H_MessageBpJsonFormatterDeclaration => [mk DkProto NsOrd (c_msg_json cn) []]
      | C_ArrayProcessorForMessageFieldList =>
          (map (fun fl => mk DkFunc NsOrd (c_array_processor_name_field cn (dec (fl_num fl)))
                                  (c_bp_uses (arr_elem (fl_ty fl)))) arrs)
      | C_ArrayJsonFormatterForMessageFieldList =>
          (map (fun fl => mk DkFunc NsOrd (c_array_json_formatter_name_field cn (dec (fl_num fl)))
                                  (c_bp_uses (arr_elem (fl_ty fl)))) arrs)
      | C_MessageFieldDescriptorsIniter =>
          [mk DkFunc NsOrd (c_field_descriptors_initer_name cn) (tag :: flat_map (c_field_bp_uses cn) sf)]
      | C_MessageProcessor =>
          [mk DkFunc NsOrd (c_msg_proc cn) [tag; cuse NsOrd (c_field_descriptors_initer_name cn)]]
      | C_MessageBpJsonFormatter =>
          [mk DkFunc NsOrd (c_msg_json cn) [tag; cuse NsOrd (c_field_descriptors_initer_name cn)]]
      | C_MessageEncoder => [mk DkFunc NsOrd (c_encoder_name cn) [tag; cuse NsOrd (c_msg_proc cn)]]
      | C_MessageDecoder => [mk DkFunc NsOrd (c_decoder_name cn) [tag; cuse NsOrd (c_msg_proc cn)]]
      | C_MessageJsonFormatter => [mk DkFunc NsOrd (c_json_name cn) [tag; cuse NsOrd (c_msg_json cn)]]
      | C_MessageEncoderOpMode => [mk DkFunc NsOrd (c_encoder_name cn) [tag]]
      | C_MessageDecoderOpMode => [mk DkFunc NsOrd (c_decoder_name cn) [tag]]
      | P_Message =>
          [mkm DkPyClass NsMod pn
               (flat_map (fun fl => py_type_uses true (fl_ty fl)) sf ++
                flat_map (fun fl => opt_uses (py_field_default (fl_ty fl))) sf ++
                flat_map (fun fl => py_proc_uses (fl_ty fl)) sf) (length sf)]
      | G_MessageStruct => [mkm DkGoType NsMod gn (flat_map (fun fl => go_type_uses (fl_ty fl)) sf) (length sf)]
      | G_MessageSizeConst => [mk DkGoConst NsMod (size_constant_name (upper_case (snake_case gn))) []]
      | G_MessageMethodSize => [gm "Size"]
      | G_MessageMethodString => [gm "String"]
      | G_MessageMethodEncode => [gm "Encode"]
      | G_MessageMethodDecode => [gm "Decode"]
      | G_MessageMethodBpProcessor => [gm "BpProcessor"]
      | G_MessageMethodBpGetAccessor => [gm "BpGetAccessor"]
      | G_MessageMethodBpSetByte => [gm "BpSetByte"]
      | G_MessageMethodBpGetByte => [gm "BpGetByte"]
      | G_MessageMethodBpProcessInt => [gm "BpProcessInt"]
      | _ => []
      end
  end.

(* ---- names inside one Python class / one Go struct (not module-level declarations) ---- *)
Definition is_enum_ty (t : tyx) : bool := match t with TRef r => match r_k r with RkEnum => true | _ => false end | _ => false end.
Definition py_enum_proxy_prefix : string := "_enum_field_proxy__".

(* the attributes of the dataclass of a message, in the order of impls/py/renderer.py BlockMessage:
   BYTES_LENGTH, the fields by number (an enum-typed field is followed by its integer proxy),
   __post_init__, dict_factory, a getter and a setter per enum-typed field, then the seven methods *)
Definition py_class_attrs (fd : fdef) : list string :=
  match fd_def fd with
  | DMsg _ _ _ fs =>
      let sf := sort_fl fs in
      let ef := filter (fun fl => is_enum_ty (fl_ty fl)) sf in
      "BYTES_LENGTH" ::
      flat_map (fun fl => let f := conv LPy KMessageField (fl_name fl) in
                          if is_enum_ty (fl_ty fl) then [f; py_enum_proxy_prefix +++ f] else [f]) sf ++
      ["__post_init__"; "dict_factory"] ++
      flat_map (fun fl => let f := conv LPy KMessageField (fl_name fl) in ["_get_" +++ f; "_set_" +++ f]) ef ++
      ["bp_processor"; "bp_set_byte"; "bp_get_byte"; "bp_get_accessor"; "encode"; "decode"; "bp_process_int"]
  | DEnum _ _ ms => map (fun m => dname LPy KEnumField "" (fd_path fd) (fst m)) ms
  | _ => []
  end.

(* fields of the Go struct of a message followed by the methods declared on it *)
Definition go_msg_methods : list string :=
  ["Size"; "String"; "Encode"; "Decode"; "BpProcessor"; "BpGetAccessor"; "BpSetByte"; "BpGetByte"; "BpProcessInt"].
Definition go_struct_members (fd : fdef) : list string :=
  match fd_def fd with
  | DMsg _ _ _ fs => map (fun fl => conv LGo KMessageField (fl_name fl)) (sort_fl fs) ++ go_msg_methods
  | _ => []
  end.

(* BlockComposition: members in order, composite members expanded (depth <= 3 in /repo) *)
Fixpoint expand (fuel : nat) (b : blk) : list blk :=
  match fuel with
  | O => [b]
  | S k => match blocks_of b with
           | Some l => flat_map (expand k) l
           | None => [b]
           end
  end.

Definition def_blocks (b : blk) (fd : fdef) : list decl :=
  flat_map (fun lf => leaf lf fd) (expand 4 b).

(* -F: `d.name not in filter_messages` compares the message's OWN name *)
Definition passes_filter (flt : list string) (d : def) : bool :=
  match flt with
  | [] => true
  | _ => existsb (String.eqb (def_name d)) flt
  end.

(* BlockBoundDefinitionDispatcher.blocks: what a dispatcher writes for one definition *)
Definition dispatch_one (flt : list string) (b : blk) (fd : fdef) : list decl :=
  match dispatch b (dkind_of (fd_def fd)) with
  | Some t => if dispatch_filtered b && negb (passes_filter flt (fd_def fd)) then [] else def_blocks t fd
  | None => []
  end.
Definition dispatcher (flt : list string) (b : blk) : list decl :=
  flat_map (dispatch_one flt b) (flat_file f).

Definition is_dispatcher (b : blk) : bool :=
  match b with
  | H_DataStructuresList | H_FunctionDeclarationsForUserList | H_FunctionDeclarationsForInternalList
  | H_FunctionDeclarationsForUserListOpMode | C_BoundDefinitionList | C_BoundDefinitionListOpMode
  | P_BoundDefinitionList | G_BoundDefinitionList => true
  | _ => false
  end.

(* blocks that do not depend on a definition *)
Definition top_block (flt : list string) (b : blk) : list item :=
  if is_dispatcher b then map IDecl (dispatcher flt b)
  else
    match b with
    | H_IncludeGuard => [IDecl (mk DkDefine NsMacro (h_guard_macro (upper_case (snake_case (f_proto f)))) [])]
    | H_ImportList =>
        map (fun mj => IImport "" (c_import_target (f_proto (getf s (snd mj)))) (snd mj)) (f_imports f)
    | H_DefineMacroOpMode => [IDecl (mk DkDefine NsMacro "BITPROTO_OPTIMIZATION_MODE" [])]
    | C_Include | C_IncludeOpMode => [IImport "" (out_filename (f_base f) ext_h) i]
    | P_ImportChildProtoList =>
        map (fun mj => IImport (fst mj) (py_module_of (snd mj)) (snd mj)) (f_imports f)
    | G_ImportChildProtoList =>
        map (fun mj => IImport (fst mj) (go_path_of (snd mj)) (snd mj)) (f_imports f)
    | G_AvoidGeneralImportsNotUsed =>
        [IDecl (mk DkGoVar NsMod "formatInt" []); IDecl (mk DkGoVar NsMod "jsonMarshal" [])]
    | _ => []
    end.

Definition blocklist (t : target) : list blk :=
  match t with
  | TgH => h_blocklist | TgHO => h_blocklist_opmode
  | TgC => c_blocklist | TgCO => c_blocklist_opmode
  | TgPy => p_blocklist | TgGo => g_blocklist
  end.

Definition render_items (t : target) (flt : list string) : list item :=
  flat_map (fun b => flat_map (top_block flt) (expand 4 b)) (blocklist t).

(* the Python renderer raises IndexError (fields()[0]) while formatting a default value *)
Definition py_raises (fd : fdef) : bool :=
  match fd_def fd with
  | DAlias _ t => match py_defval false t with None => true | Some _ => false end
  | DMsg _ _ _ fs => existsb (fun fl => match py_field_default (fl_ty fl) with None => true | Some _ => false end) fs
  | _ => false
  end.

Definition render (t : target) (flt : list string) : option (list item) :=
  match t with
  | TgPy => if existsb py_raises (flat_file f) then None else Some (render_items t flt)
  | _ => Some (render_items t flt)
  end.

Definition ext_of (t : target) : string :=
  match t with TgH | TgHO => ext_h | TgC | TgCO => ext_c | TgPy => ext_py | TgGo => ext_go end.
(* Formatter.format_out_filename: the SOURCE FILE's base name, not the proto name *)
Definition out_name (t : target) : string := out_filename (f_base f) (ext_of t).

End WithFile.
End WithSchema.

(* ------------------------------------------------------------------------------------ *)
(* executable checks on an output                                                         *)
(* ------------------------------------------------------------------------------------ *)

Definition ns_eqb (a b : ns) : bool :=
  match a, b with
  | NsMacro, NsMacro | NsTag, NsTag | NsOrd, NsOrd | NsMod, NsMod => true
  | NsMember x, NsMember y => String.eqb x y
  | _, _ => false
  end.
Definition key := (ns * string)%type.
Definition key_eqb (a b : key) : bool := ns_eqb (fst a) (fst b) && String.eqb (snd a) (snd b).
Definition dkey (d : decl) : key := (d_ns d, d_name d).
Definition is_proto (d : decl) : bool := match d_kind d with DkProto => true | _ => false end.
Definition mem_key (k : key) (l : list key) : bool := existsb (key_eqb k) l.

Definition decls_of (its : list item) : list decl :=
  flat_map (fun it => match it with IDecl d => [d] | _ => [] end) its.
Definition header_of (t : target) : target :=
  match t with TgC => TgH | TgCO => TgHO | x => x end.

(* names a translation unit / module sees after `#include` / `import` of file j.  C headers
   include transitively; a Python / Go import only binds the member name. *)
Fixpoint exports (fuel : nat) (s : schema) (t : target) (flt : list string) (j : nat) : list key :=
  match fuel with
  | O => []
  | S k =>
      flat_map (fun it => match it with
                          | IDecl d => [dkey d]
                          | IImport _ _ j' => match lang_of t with LC => exports k s t flt j' | _ => [] end
                          end) (render_items s j (header_of t) flt)
  end.

Definition fuel_of (s : schema) : nat := S (length s).

(* every generated name a declaration uses is declared earlier in the same output or comes
   from an earlier include/import (deferred uses: anywhere in the output) *)
Definition use_ok (s : schema) (t : target) (flt : list string) (seen all : list key)
           (imps : list (string * nat)) (u : use) : bool :=
  if String.eqb (u_qual u) "" then
    mem_key (u_ns u, u_name u) (if u_eager u then seen else all)
  else
    existsb (fun mj => String.eqb (fst mj) (u_qual u) &&
                       mem_key (u_ns u, u_name u) (exports (fuel_of s) s t flt (snd mj))) imps.

Fixpoint dbu_go (s : schema) (t : target) (flt : list string) (all seen : list key)
         (imps : list (string * nat)) (its : list item) : bool :=
  match its with
  | [] => true
  | IImport m _ j :: r =>
      match lang_of t with
      | LC => dbu_go s t flt all (seen ++ exports (fuel_of s) s t flt j) imps r
      | _ => dbu_go s t flt all seen ((m, j) :: imps) r
      end
  | IDecl d :: r =>
      forallb (use_ok s t flt seen all imps) (d_uses d) &&
      dbu_go s t flt all (seen ++ [dkey d]) imps r
  end.

Definition all_keys (s : schema) (t : target) (flt : list string) (its : list item) : list key :=
  flat_map (fun it => match it with
                      | IDecl d => [dkey d]
                      | IImport _ _ j => match lang_of t with LC => exports (fuel_of s) s t flt j | _ => [] end
                      end) its.

Definition dbu_b (s : schema) (t : target) (flt : list string) (its : list item) : bool :=
  dbu_go s t flt (all_keys s t flt its) [] [] its.

Fixpoint nodup_keys (l : list key) : bool :=
  match l with [] => true | k :: r => negb (mem_key k r) && nodup_keys r end.

(* no two defining declarations share a name (per name space); prototypes are unique among
   prototypes (a prototype and the definition of the same function legitimately coincide) *)
Definition unique_b (ds : list decl) : bool :=
  nodup_keys (map dkey (filter (fun d => negb (is_proto d)) ds)) &&
  nodup_keys (map dkey (filter is_proto ds)).

(* the include / import statement names the file the compiler generates for that schema *)
Definition import_ok_b (s : schema) (t : target) (it : item) : bool :=
  match it with
  | IDecl _ => true
  | IImport _ tgt j =>
      match t with
      | TgH | TgHO | TgC | TgCO => String.eqb tgt (out_name s j TgH)
      | TgPy => String.eqb (tgt +++ ext_py) (out_name s j TgPy)
      | TgGo => true      (* a Go import names a package path, not a file: not checkable here *)
      end
  end.
Definition imports_ok_b (s : schema) (t : target) (its : list item) : bool := forallb (import_ok_b s t) its.

(* Go: every imported package is mentioned *)
Definition go_imports_used_b (its : list item) : bool :=
  forallb (fun it => match it with
                     | IImport m _ _ => existsb (fun d => existsb (fun u => String.eqb (u_qual u) m) (d_uses d)) (decls_of its)
                     | _ => true
                     end) its.

(* C vs C++: a struct without members has size 0 in C (GNU) and 1 in C++ *)
Definition structs_nonempty_b (its : list item) : bool :=
  forallb (fun d => match d_kind d with DkStruct => negb (d_members d =? 0) | _ => true end) (decls_of its).

(* gcc: aligned(n) needs a power of two *)
Definition is_pow2 (v : Z) : bool := existsb (Z.eqb v) [1; 2; 4; 8; 16; 32; 64; 128]%Z.
Definition align_ok (v : Z) : bool := (v =? 0)%Z || is_pow2 v.
