(* GoEncProofs.v — the Go encoder model (GoRt.go_enc: hand-modelled loop skeleton of
   lib/go/bitproto.go over the TRANSLATED helpers BPGen.GenGo, with the typed accessor
   semantics of the emitted BpGetByte) REFINES the Python encoder model: whenever
   PyRt.p_enc succeeds, go_enc returns the same context.  With C01 (py_encode = Spec.wire)
   this gives go_encode = Spec.wire for every schema and every in-range value.
   Also: the single-leaf sign-extension lemma of the Go decoder. *)
From Coq Require Import ZArith List Bool Lia ZifyBool.
From BP Require Import Bits Schema Spec PyRt ByteStep PyEncStep PyEncProofs PyEncTop GoRt GoHelpers GoTables.
From BPGen Require GenPy GenGo.
Import ListNotations.
Open Scope Z_scope.

(* ---------- named versions of the anonymous inner fixpoints of go_enc ---------- *)

Definition go_enc_fields (c' : gcls) (acc' : val) :=
  fix go (l : list (Z * gproc)) (x : ctx) : res ctx :=
    match l with
    | [] => Ok x
    | kf :: r => x' <- go_enc (snd kf) c' acc' (Some (fst kf)) [] x ;; go r x'
    end.

Definition go_enc_arr (e : gproc) (c : gcls) (acc : val) (di : option Z) (stk : list nat) :=
  fix loop (m k : nat) (x : ctx) : res ctx :=
    match m with
    | O => Ok x
    | S m' => x' <- go_enc e c acc di (stk ++ [k]) x ;; loop m' (S k) x'
    end.

Lemma go_enc_msg x nb fs c' c acc fn stk x0 :
  go_enc (GPMsg x nb fs c') c acc (Some fn) stk x0 =
  (acc' <- go_get_accessor c acc fn stk ;;
   x1 <- (if x then go_enc_ahead nb x0 else Ok x0) ;;
   go_enc_fields c' acc' fs x1).
Proof. reflexivity. Qed.

Lemma go_enc_msg_top x nb fs c' c acc stk x0 :
  go_enc (GPMsg x nb fs c') c acc None stk x0 =
  (x1 <- (if x then go_enc_ahead nb x0 else Ok x0) ;;
   go_enc_fields c' acc fs x1).
Proof. reflexivity. Qed.

Lemma go_enc_array x cap e c acc fn stk x0 :
  go_enc (GPArray x cap e) c acc (Some fn) stk x0 =
  (x1 <- (if x then go_enc_ahead (Z.of_nat cap) x0 else Ok x0) ;;
   go_enc_arr e c acc (Some fn) stk cap O x1).
Proof. reflexivity. Qed.

Lemma go_proc_of_msg x fs :
  go_proc_of (TMsg x fs) = GPMsg x (nbits (TMsg x fs)) (go_proc_fields fs) (go_cls_of x fs).
Proof. reflexivity. Qed.

Definition fields_shape :=
  fix go (l : list (Z * ty)) : bool :=
    match l with
    | [] => true
    | kf :: r => shape_ok (snd kf) && go r
    end.

Lemma shape_ok_msg x fs : shape_ok (TMsg x fs) = fields_shape fs.
Proof. reflexivity. Qed.

(* ---------- table refinement ---------- *)

Definition get_ref (c : cls) (g : gcls) : Prop :=
  forall acc fn stk r z, 0 <= r ->
    get_byte c acc fn stk r = Ok z -> go_get_byte g acc fn stk r = Ok z /\ 0 <= z < 256.

Definition acc_ref (c : cls) (g : gcls) : Prop :=
  forall acc fn stk a, get_accessor c acc fn stk = Ok a -> go_get_accessor g acc fn stk = Ok a.

Lemma read_attr_raw_of c acc fn x : read_attr c acc fn = Ok x -> read_attr_raw acc fn = Ok x.
Proof.
  unfold read_attr, read_attr_raw. destruct acc as [| | |fs]; try discriminate.
  destruct (lookup fn fs) as [y|]; try discriminate.
  destruct (lookup fn (c_proxy c)) as [ms|]; [|auto].
  destruct y as [|z| |]; try discriminate. destruct (is_member z ms); [auto|discriminate].
Qed.

Lemma read_ref_raw c acc fn stk d x : read_ref c acc fn stk d = Ok x -> go_read_ref acc fn stk d = Ok x.
Proof.
  unfold read_ref, go_read_ref. destruct (stack_prefix stk d) as [idx|]; [|discriminate]. cbn [bind].
  destruct (read_attr c acc fn) as [a|] eqn:E; [|discriminate]. cbn [bind].
  rewrite (read_attr_raw_of _ _ _ _ E). cbn [bind]. auto.
Qed.

Lemma land_255 a : Z.land a 255 = a mod 256.
Proof. change 255 with (Z.ones 8). rewrite Z.land_ones by lia. reflexivity. Qed.

Lemma get_ref_intro c g :
  (forall k, option_map g_depth (lookup k (c_get c)) = option_map gg_depth (lookup k (gc_get g))) ->
  get_ref c g.
Proof.
  intros H acc fn stk r z Hr. unfold get_byte, go_get_byte. specialize (H fn).
  destruct (lookup fn (c_get c)) as [a|], (lookup fn (gc_get g)) as [b|]; cbn [option_map] in H;
    try discriminate.
  - injection H as H. rewrite <- H.
    destruct (read_ref c acc fn stk (g_depth a)) as [v|] eqn:E; [|discriminate]. cbn [bind].
    rewrite (read_ref_raw _ _ _ _ _ _ E). cbn [bind].
    destruct (int_of v) as [y|] eqn:Ey; [|discriminate]. cbn [bind].
    intros Hz. injection Hz as <-. rewrite land_255.
    assert (Hm : 0 <= Z.shiftr y r mod 256 < 256) by (apply Z.mod_pos_bound; lia).
    split; [|exact Hm].
    destruct (gg_kind b) as [|cv].
    + reflexivity.
    + destruct v as [bb|y'| |]; try discriminate.
      * cbn [int_of] in Ey. injection Ey as <-. rewrite Bool2byte_spec.
        f_equal. symmetry. apply Z.mod_small.
        rewrite Z.shiftr_div_pow2 by lia.
        assert (0 < 2 ^ r) by (apply Z.pow_pos_nonneg; lia).
        destruct bb; cbn [Z.b2z].
        -- split; [apply Z.div_pos; lia|]. apply Z.le_lt_trans with 1; [|lia].
           apply Z.div_le_upper_bound; lia.
        -- rewrite Z.div_0_l by lia. lia.
      * reflexivity.
  - intros Hz. injection Hz as <-. split; [reflexivity|lia].
Qed.

Lemma lookup_map_agree {A B C} (fa : A -> C) (fb : B -> C) (l1 : list (Z * A)) : forall (l2 : list (Z * B)),
  map (fun e => (fst e, fa (snd e))) l1 = map (fun e => (fst e, fb (snd e))) l2 ->
  forall k, option_map fa (lookup k l1) = option_map fb (lookup k l2).
Proof.
  induction l1 as [|h1 r1 IH]; intros [|h2 r2] E k; try discriminate; [reflexivity|].
  cbn [map] in E. injection E as E1 E2 E3. cbn [lookup]. rewrite E1.
  destruct (fst h2 =? k); cbn [option_map]; [now rewrite E2|]. apply IH, E3.
Qed.

Lemma fields_get_ref x fs : fields_ok fs -> get_ref (cls_of fs) (go_cls_of x fs).
Proof.
  intros Hok. apply get_ref_intro. intros k.
  pose proof (agree_get x fs Hok) as H. unfold depths_get, gdepths_get in H.
  apply (f_equal (map (fun t : Z * nat * bool => (fst (fst t), snd (fst t))))) in H.
  rewrite !map_map in H. cbn [fst snd] in H.
  exact (lookup_map_agree g_depth gg_depth _ _ H k).
Qed.

Lemma fields_acc_ref x fs : fields_ok fs -> acc_ref (cls_of fs) (go_cls_of x fs).
Proof.
  intros Hok acc fn stk a. unfold get_accessor, go_get_accessor.
  rewrite <- (agree_acc x fs Hok).
  destruct (lookup fn (c_acc (cls_of fs))); [apply read_ref_raw|discriminate].
Qed.

Lemma u16_get_ref : get_ref int_cls u16_cls.
Proof.
  apply get_ref_intro. intros k. cbn [int_cls u16_cls c_get gc_get lookup fst snd].
  destruct (1 =? k); reflexivity.
Qed.

(* ---------- the copy loop ---------- *)

Definition small_buf (x : ctx) : Prop := 0 <= ci x /\ Z.of_nat (length (cs x)) < 2 ^ 50.

Definition ref_post (x x' : ctx) (r : res ctx) : Prop :=
  r = Ok x' /\ ci x <= ci x' /\ length (cs x') = length (cs x).

Lemma pbt_enc_ref c g acc fn stk n :
  get_ref c g -> n <= 64 ->
  forall fuel j x x', 0 <= j -> small_buf x ->
    pbt_enc fuel n c acc fn stk j x = Ok x' ->
    ref_post x x' (go_pbt_enc fuel n g acc fn stk j x).
Proof.
  intros Hg Hn. induction fuel as [|f IH]; intros j x x' Hj (Hci & Hlen) Hp.
  - cbn [pbt_enc go_pbt_enc] in *. destruct (j <? n); [discriminate|].
    injection Hp as <-. repeat split; lia.
  - cbn [pbt_enc go_pbt_enc] in *. destruct (j <? n) eqn:Ej.
    2:{ injection Hp as <-. repeat split; lia. }
    assert (Hjn : 0 <= j < n) by lia.
    pose proof (nbits_to_copy_range (ci x) j n Hjn) as (Hc1 & Hc2 & Hc3 & Hc4).
    assert (P50 : 2 ^ 50 = 1125899906842624) by reflexivity.
    assert (P62 : 2 ^ 62 = 4611686018427387904) by reflexivity.
    assert (P63 : 2 ^ 63 = 9223372036854775808) by reflexivity.
    (* the single byte step *)
    unfold enc_single_byte in Hp.
    destruct (get_byte c acc fn stk (GenPy.enc_rshift j)) as [b|] eqn:Eb; [|discriminate].
    cbn [bind] in Hp.
    assert (Hr : 0 <= GenPy.enc_rshift j) by (unfold GenPy.enc_rshift; lia).
    destruct (Hg _ _ _ _ _ Hr Eb) as (Egb & Hb).
    destruct (nth_error (cs x) (Z.to_nat (GenPy.enc_index (ci x)))) as [old|] eqn:En; [|discriminate].
    assert (Hidx : (Z.to_nat (ci x / 8) < length (cs x))%nat).
    { apply nth_error_Some. unfold GenPy.enc_index in En. congruence. }
    assert (Hsm : small (ci x)) by (unfold small; lia).
    assert (Hsj : small j) by (unfold small; lia).
    assert (Hsn : small n) by (unfold small; lia).
    set (cnt := GenPy.get_nbits_to_copy (ci x) j n) in *.
    destruct ((0 <=? Z.lor old (GenPy.enc_d b (ci x) j cnt)) && (Z.lor old (GenPy.enc_d b (ci x) j cnt) <? 256)) eqn:Erange;
      [|discriminate].
    cbn [bind cs ci] in Hp.
    (* Go side *)
    rewrite (getNbitsToCopy_eq _ _ _ Hsm Hsj Hsn). fold cnt.
    unfold go_enc_single_byte.
    rewrite (proj1 (go_shift_eq j Hsj)), Egb. cbn [bind].
    rewrite (proj1 (go_index_eq (ci x) Hsm)).
    rewrite (go_enc_d_eq b (ci x) j cnt Hb Hsm Hsj ltac:(lia)).
    unfold buf_at. replace (GenPy.enc_index (ci x) <? 0) with false
      by (unfold GenPy.enc_index; lia).
    rewrite En. cbn [bind cs ci].
    rewrite (wrap_s_64_id (j + cnt)) by lia.
    rewrite (wrap_s_64_id (ci x + cnt)) by lia.
    set (X := {| cs := upd (cs x) (Z.to_nat (GenPy.enc_index (ci x))) (Z.lor old (GenPy.enc_d b (ci x) j cnt));
                 ci := ci x + cnt |}) in *.
    assert (HX : small_buf X).
    { split; cbn [X cs ci]; [lia|]. rewrite upd_length. lia. }
    destruct (IH (j + cnt) X x' ltac:(lia) HX Hp) as (E & M & L).
    cbn [X cs ci] in M, L. rewrite upd_length in L.
    split; [exact E|]. split; [lia|exact L].
Qed.

Lemma enc_ahead_ref v x x' :
  0 <= v < 65536 -> small_buf x -> enc_ahead v x = Ok x' -> ref_post x x' (go_enc_ahead v x).
Proof.
  intros Hv Hx Hp. unfold go_enc_ahead, enc_ahead in *.
  rewrite (proj2 (Z.mod_small_iff v (2 ^ 16) ltac:(lia)) ltac:(left; change (2 ^ 16) with 65536; lia)
           : GenGo.wrap_u 16 v = v).
  exact (pbt_enc_ref int_cls u16_cls _ 1 [] 16 u16_get_ref ltac:(lia) 16%nat 0 x x' ltac:(lia) Hx Hp).
Qed.

Lemma ref_post_trans x x1 x2 (r : res ctx) :
  ci x <= ci x1 -> length (cs x1) = length (cs x) -> ref_post x1 x2 r -> ref_post x x2 r.
Proof. intros H1 H2 (E & M & L). repeat split; [exact E|lia|congruence]. Qed.

Lemma small_buf_next x x' : small_buf x -> ci x <= ci x' -> length (cs x') = length (cs x) -> small_buf x'.
Proof. intros (H1 & H2) M L. split; [lia|]. rewrite L. exact H2. Qed.

(* ---------- the walker ---------- *)

Definition enc_ref (t : ty) : Prop :=
  forall c g acc fn stk x x',
    get_ref c g -> acc_ref c g -> wf t = true -> shape_ok t = true -> 0 < fn -> small_buf x ->
    p_enc (proc_of t) c acc fn stk x = Ok x' ->
    ref_post x x' (go_enc (go_proc_of t) g acc (Some fn) stk x).

Lemma wf_widths t : wf t = true -> widths_ok t = true.
Proof.
  induction t as [| | n | n | n ms | t IH | x c e IH | x fs IH] using ty_ind'; intros H;
    try reflexivity.
  - exact H.
  - apply IH. exact H.
  - cbn [wf] in H. rewrite !andb_true_iff in H. apply IH. tauto.
Qed.

Lemma fields_ok_of fs : fields_wf fs = true -> fields_shape fs = true -> fields_ok fs.
Proof.
  induction fs as [|kf r IH]; intros Hw Hs k ft Hin; [destruct Hin|].
  cbn [fields_wf fields_shape] in Hw, Hs. rewrite !andb_true_iff in Hw. rewrite !andb_true_iff in Hs.
  destruct Hin as [->|Hin].
  - cbn [snd] in *. split; [tauto|]. apply wf_widths. tauto.
  - apply (IH ltac:(tauto) ltac:(tauto) k ft Hin).
Qed.

Lemma leaf_ref (n : Z) c g acc fn stk x x' :
  get_ref c g -> n <= 64 -> small_buf x ->
  pbt_enc (fuel_of n) n c acc fn stk 0 x = Ok x' ->
  ref_post x x' (need_di (Some fn) (fun fn => go_pbt_enc (fuel_of n) n g acc fn stk 0 x)).
Proof. intros Hg Hn Hx Hp. cbn [need_di]. apply (pbt_enc_ref c g); try assumption; lia. Qed.

Theorem enc_ref_all t : enc_ref t.
Proof.
  induction t as [| | n | n | n ms | t IH | x cap e IH | x fs IH] using ty_ind';
    unfold enc_ref; intros c g acc fn stk x0 x' Hg Ha Hw Hs Hfn Hx Hp.
  - cbn [proc_of go_proc_of p_enc go_enc] in *. apply (leaf_ref 1 c); try assumption; lia.
  - cbn [proc_of go_proc_of p_enc go_enc] in *. apply (leaf_ref 8 c); try assumption; lia.
  - cbn [proc_of go_proc_of p_enc go_enc wf] in *. apply (leaf_ref n c); try assumption; lia.
  - cbn [proc_of go_proc_of p_enc go_enc wf] in *. apply (leaf_ref n c); try assumption; lia.
  - cbn [proc_of go_proc_of p_enc go_enc wf] in *. rewrite !andb_true_iff in Hw.
    apply (leaf_ref n c); try assumption; lia.
  - (* alias *)
    cbn [proc_of go_proc_of p_enc go_enc wf] in *. cbn [shape_ok] in Hs.
    assert (Hs' : shape_ok t = true) by (destruct t; try discriminate; exact Hs).
    exact (IH c g acc fn stk x0 x' Hg Ha Hw Hs' Hfn Hx Hp).
  - (* array *)
    cbn [proc_of go_proc_of] in *. rewrite p_enc_array in Hp. rewrite go_enc_array.
    cbn [wf] in Hw. rewrite !andb_true_iff in Hw. destruct Hw as ((Hc1 & Hc2) & Hwe).
    cbn [shape_ok] in Hs.
    assert (Hs' : shape_ok e = true) by (destruct e; try discriminate; exact Hs).
    (* the prefix *)
    assert (Hpre : exists x1, (if x then enc_ahead (Z.of_nat cap) x0 else Ok x0) = Ok x1 /\
                              ref_post x0 x1 (if x then go_enc_ahead (Z.of_nat cap) x0 else Ok x0) /\
                              p_enc_arr (proc_of e) c acc fn stk cap 0 x1 = Ok x').
    { destruct x.
      - destruct (enc_ahead (Z.of_nat cap) x0) as [x1|] eqn:E1; [|discriminate]. cbn [bind] in Hp.
        exists x1. split; [reflexivity|]. split; [|exact Hp].
        apply enc_ahead_ref; try assumption. lia.
      - cbn [bind] in Hp. exists x0. split; [reflexivity|]. split; [|exact Hp]. repeat split; lia. }
    destruct Hpre as (x1 & _ & (E1 & M1 & L1) & Hloop). rewrite E1. cbn [bind].
    apply (ref_post_trans x0 x1); try assumption.
    pose proof (small_buf_next _ _ Hx M1 L1) as Hx1.
    clear E1 Hp Hx M1 L1 x0 Hc1 Hc2.
    generalize dependent x1. generalize 0%nat as k.
    induction cap as [|m IHm]; intros k x1 Hloop Hx1.
    + cbn [p_enc_arr go_enc_arr] in *. injection Hloop as <-. repeat split; lia.
    + cbn [p_enc_arr go_enc_arr] in *.
      destruct (p_enc (proc_of e) c acc fn (stk ++ [k]) x1) as [x2|] eqn:E2; [|discriminate].
      cbn [bind] in Hloop.
      destruct (IH c g acc fn (stk ++ [k]) x1 x2 Hg Ha Hwe Hs' Hfn Hx1 E2) as (G2 & M2 & L2).
      rewrite G2. cbn [bind].
      apply (ref_post_trans x1 x2); try assumption.
      apply IHm; [exact Hloop|]. exact (small_buf_next _ _ Hx1 M2 L2).
  - (* message *)
    rewrite proc_of_msg in Hp. rewrite go_proc_of_msg. rewrite p_enc_msg in Hp. rewrite go_enc_msg.
    replace (GenPy.di_is_valid fn) with true in Hp by (unfold GenPy.di_is_valid; lia).
    destruct (get_accessor c acc fn stk) as [acc'|] eqn:Eacc; [|discriminate]. cbn [bind] in Hp.
    rewrite (Ha _ _ _ _ Eacc). cbn [bind].
    rewrite wf_msg in Hw. rewrite !andb_true_iff in Hw. destruct Hw as ((Hkd & Hnb) & Hfw).
    rewrite shape_ok_msg in Hs.
    pose proof (fields_ok_of fs Hfw Hs) as Hok.
    pose proof (fields_get_ref x fs Hok) as Hg'.
    pose proof (fields_acc_ref x fs Hok) as Ha'.
    assert (Hnn : 0 <= nbits (TMsg x fs)).
    { apply nbits_nonneg. rewrite wf_msg, Hkd, Hfw, Hnb. reflexivity. }
    assert (Hpre : exists x1, ref_post x0 x1 (if x then go_enc_ahead (nbits (TMsg x fs)) x0 else Ok x0) /\
                              p_enc_fields (cls_of fs) acc' (map_proc fs) x1 = Ok x').
    { destruct x.
      - destruct (enc_ahead (nbits (TMsg true fs)) x0) as [x1|] eqn:E1; [|discriminate]. cbn [bind] in Hp.
        exists x1. split; [|exact Hp]. apply enc_ahead_ref; try assumption. lia.
      - cbn [bind] in Hp. exists x0. split; [|exact Hp]. repeat split; lia. }
    destruct Hpre as (x1 & (E1 & M1 & L1) & Hloop). rewrite E1. cbn [bind].
    apply (ref_post_trans x0 x1); try assumption.
    pose proof (small_buf_next _ _ Hx M1 L1) as Hx1.
    clear E1 Hp Hx M1 L1 x0 Hkd Hnb Hok Hnn.
    set (c' := cls_of fs) in *. set (g' := go_cls_of x fs) in *. clearbody c' g'.
    generalize dependent x1.
    induction fs as [|kf r IHr]; intros x1 Hloop Hx1.
    + cbn [map_proc go_proc_fields p_enc_fields go_enc_fields] in *. injection Hloop as <-. repeat split; lia.
    + inversion IH as [|? ? Hk Hr]; subst.
      cbn [fields_wf fields_shape] in Hfw, Hs. rewrite !andb_true_iff in Hfw. rewrite !andb_true_iff in Hs.
      cbn [map_proc go_proc_fields p_enc_fields go_enc_fields fst snd] in *.
      destruct (p_enc (proc_of (snd kf)) c' acc' (fst kf) [] x1) as [x2|] eqn:E2; [|discriminate].
      cbn [bind] in Hloop.
      destruct (Hk c' g' acc' (fst kf) [] x1 x2 Hg' Ha' ltac:(tauto) ltac:(tauto) ltac:(lia) Hx1 E2)
        as (G2 & M2 & L2).
      rewrite G2. cbn [bind].
      apply (ref_post_trans x1 x2); try assumption.
      apply IHr; [exact Hr|tauto|tauto|exact Hloop|]. exact (small_buf_next _ _ Hx1 M2 L2).
Qed.

(* ---------- top level: Encode() = Spec.wire ---------- *)

Theorem go_encode_is_wire t v :
  is_msg t = true -> wf (norm t) = true -> shape_ok (norm t) = true -> has_ty (norm t) v = true ->
  go_encode t v = Ok (wire t v).
Proof.
  intros Hm Hw Hs Ht.
  pose proof (py_encode_is_wire t v Hm Hw Ht) as Hpy.
  unfold py_encode, py_encode_proc in Hpy. unfold go_encode, go_encode_proc.
  destruct (norm t) as [| | | | | | |x fs] eqn:En; try (destruct t; discriminate).
  rewrite go_proc_of_msg. cbn [go_size_of]. rewrite go_enc_msg_top.
  rewrite proc_of_msg, p_enc_msg in Hpy.
  replace (GenPy.di_is_valid (-1)) with false in Hpy by reflexivity. cbn [bind] in Hpy.
  pose proof Hw as Hw0.
  rewrite wf_msg in Hw. rewrite !andb_true_iff in Hw. destruct Hw as ((Hkd & Hnb) & Hfw).
  rewrite shape_ok_msg in Hs.
  pose proof (fields_ok_of fs Hfw Hs) as Hok.
  pose proof (fields_get_ref x fs Hok) as Hg'.
  pose proof (fields_acc_ref x fs Hok) as Ha'.
  pose proof (nbits_nonneg _ Hw0) as Hnn.
  assert (Hsz : gc_size (go_cls_of x fs) = nbytes t).
  { cbn [go_cls_of gc_size]. rewrite type_nbytes_eq by exact Hnn.
    rewrite <- nbytes_norm, En. reflexivity. }
  rewrite Hsz.
  set (x0 := {| cs := zeros (Z.to_nat (nbytes t)); ci := 0 |}) in *.
  assert (Hx0 : small_buf x0).
  { split; [cbn; lia|]. cbn [x0 cs]. rewrite zeros_length.
    assert (nbytes t <= 8193).
    { rewrite <- nbytes_norm, En. unfold nbytes. apply Z.div_le_upper_bound; lia. }
    assert (0 <= nbytes t) by (rewrite <- nbytes_norm, En; unfold nbytes; apply Z.div_pos; lia).
    change (2 ^ 50) with 1125899906842624. lia. }
  destruct ((if x then enc_ahead (nbits (TMsg x fs)) x0 else Ok x0)) as [x1|] eqn:E1; [|discriminate].
  cbn [bind] in Hpy.
  assert (Hpre : ref_post x0 x1 (if x then go_enc_ahead (nbits (TMsg x fs)) x0 else Ok x0)).
  { destruct x.
    - apply enc_ahead_ref; try assumption. lia.
    - injection E1 as <-. repeat split; lia. }
  destruct Hpre as (G1 & M1 & L1). rewrite G1. cbn [bind].
  pose proof (small_buf_next _ _ Hx0 M1 L1) as Hx1.
  destruct (p_enc_fields (cls_of fs) v (map_proc fs) x1) as [xe|] eqn:Ee; [|discriminate].
  cbn [bind] in Hpy. injection Hpy as Hpy.
  (* the field loop, via the walker theorem *)
  assert (Hloop : forall l, fields_wf l = true -> fields_shape l = true ->
            forall y y', small_buf y ->
              p_enc_fields (cls_of fs) v (map_proc l) y = Ok y' ->
              ref_post y y' (go_enc_fields (go_cls_of x fs) v (go_proc_fields l) y)).
  { induction l as [|kf r IHr]; intros Hlw Hls y y' Hy Hp.
    - cbn in Hp. injection Hp as <-. cbn. repeat split; lia.
    - cbn [fields_wf fields_shape] in Hlw, Hls. rewrite !andb_true_iff in Hlw. rewrite !andb_true_iff in Hls.
      cbn [map_proc go_proc_fields p_enc_fields go_enc_fields fst snd] in *.
      destruct (p_enc (proc_of (snd kf)) (cls_of fs) v (fst kf) [] y) as [y2|] eqn:E2; [|discriminate].
      cbn [bind] in Hp.
      destruct (enc_ref_all (snd kf) (cls_of fs) (go_cls_of x fs) v (fst kf) [] y y2 Hg' Ha'
                  ltac:(tauto) ltac:(tauto) ltac:(lia) Hy E2) as (G2 & M2 & L2).
      rewrite G2. cbn [bind]. apply (ref_post_trans y y2); try assumption.
      apply IHr; [tauto|tauto|exact (small_buf_next _ _ Hy M2 L2)|exact Hp]. }
  destruct (Hloop fs Hfw Hs x1 xe Hx1 Ee) as (Ge & _ & _).
  rewrite Ge. cbn [bind]. rewrite Hpy. reflexivity.
Qed.

(* ---------- decoder, single leaf: sign extension by  x <<= d ; x >>= d  ---------- *)

Theorem go_sign_extend w n u :
  In w [8; 16; 32; 64] -> 1 <= n <= w -> 0 <= u < 2 ^ n ->
  Z.shiftr (GenGo.wrap_s w (Z.shiftl u (w - n))) (w - n) = sext n u.
Proof.
  intros Hw Hn Hu.
  assert (Hw0 : 0 < w) by (cbn in Hw; lia).
  unfold GenGo.wrap_s, sext.
  rewrite Z.shiftl_mul_pow2, Z.shiftr_div_pow2 by lia.
  assert (E1 : 2 ^ w = 2 ^ n * 2 ^ (w - n)) by (rewrite <- Z.pow_add_r by lia; f_equal; lia).
  assert (E2 : 2 ^ n = 2 * 2 ^ (n - 1)) by (rewrite <- Z.pow_succ_r by lia; f_equal; lia).
  assert (E3 : 2 ^ (w - 1) = 2 ^ (n - 1) * 2 ^ (w - n)) by (rewrite <- Z.pow_add_r by lia; f_equal; lia).
  assert (Hd : 0 < 2 ^ (w - n)) by (apply Z.pow_pos_nonneg; lia).
  assert (Hh : 0 < 2 ^ (n - 1)) by (apply Z.pow_pos_nonneg; lia).
  destruct (Z.testbit u (n - 1)) eqn:Tb.
  - apply Z.testbit_true in Tb; [|lia].
    rewrite E1, E3, E2 in *. remember (2 ^ (w - n)) as D. remember (2 ^ (n - 1)) as H.
    assert (Hq1 : 0 <= u / H) by (apply Z.div_pos; lia).
    assert (Hq2 : u / H < 2) by (apply Z.div_lt_upper_bound; lia).
    assert (Hq : u / H = 1) by (destruct (Z.eq_dec (u / H) 0) as [E0|E0]; [rewrite E0 in Tb; discriminate|lia]).
    assert (Hge : H <= u) by (pose proof (Z.mul_div_le u H ltac:(lia)); nia).
    replace ((u * D + H * D) mod (2 * H * D)) with (u * D + H * D - 2 * H * D)
      by (apply Z.mod_unique with (q := 1); [left; nia|ring]).
    replace (u * D + H * D - 2 * H * D - H * D) with ((u - 2 * H) * D) by ring.
    apply Z.div_mul; lia.
  - apply Z.testbit_false in Tb; [|lia].
    rewrite E1, E3, E2 in *. remember (2 ^ (w - n)) as D. remember (2 ^ (n - 1)) as H.
    assert (Hq1 : 0 <= u / H) by (apply Z.div_pos; lia).
    assert (Hq2 : u / H < 2) by (apply Z.div_lt_upper_bound; lia).
    assert (Hq : u / H = 0) by (destruct (Z.eq_dec (u / H) 1) as [E0|E0]; [rewrite E0 in Tb; discriminate|lia]).
    assert (Hlt : u < H) by (apply Z.div_small_iff in Hq; lia).
    replace ((u * D + H * D) mod (2 * H * D)) with (u * D + H * D)
      by (symmetry; apply Z.mod_small; nia).
    replace (u * D + H * D - H * D) with (u * D) by ring.
    apply Z.div_mul; lia.
Qed.
