(* NamesProofs.v — lemmas about the naming model (Names.v), for ALL strings, by induction.
   Part 1: split / join.  Part 2: pascal_case.  Part 3: snake_case (the two camel passes are
   together a local three-character-window insertion; on digit-free tokens the digit
   passes do nothing).  Part 4: names of the style-guide languages. *)
From Coq Require Import List Bool NArith Ascii String Lia Arith.
From BP Require Import NamesBase Names NamesSpec NamesChars.
From BPGen Require Import GenNames.
Import ListNotations.
Open Scope list_scope.

(* ======================================================================================== *)
(* Part 1: split_on / join_with                                                             *)
(* ======================================================================================== *)

Definition no_us (w : str) : bool := forallb (fun c => negb (is_us c)) w.

Lemma is_chr_95 c : is_chr 95 c = is_us c.
Proof. reflexivity. Qed.

Lemma split_on_nonnil : forall ch s, split_on ch s <> [].
Proof.
  intros ch s. destruct s as [|c r]; cbn [split_on]; [discriminate|].
  destruct (is_chr ch c); [discriminate|]. destruct (split_on ch r); discriminate.
Qed.

Lemma split_cons_us : forall c r, is_us c = true -> words (c :: r) = [] :: words r.
Proof. intros c r H. unfold words. cbn [split_on]. rewrite is_chr_95, H. reflexivity. Qed.

Lemma split_cons_other : forall c r, is_us c = false ->
  words (c :: r) = match words r with p :: ps => (c :: p) :: ps | [] => [[c]] end.
Proof. intros c r H. unfold words. cbn [split_on]. rewrite is_chr_95, H. reflexivity. Qed.

Lemma words_nonnil : forall s, words s <> [].
Proof. intros s. apply split_on_nonnil. Qed.

Lemma join_us_cons2 : forall a b r, join_us (a :: b :: r) = a ++ us :: join_us (b :: r).
Proof. reflexivity. Qed.

Lemma join_words : forall s, join_us (words s) = s.
Proof.
  induction s as [|c r IH]; [reflexivity|].
  destruct (is_us c) eqn:E.
  - rewrite split_cons_us by exact E.
    destruct (words r) as [|p ps] eqn:W; [destruct (words_nonnil r W)|].
    rewrite join_us_cons2, IH. cbn [app]. f_equal. symmetry. apply is_us_eq, E.
  - rewrite split_cons_other by exact E.
    destruct (words r) as [|p ps] eqn:W; [destruct (words_nonnil r W)|].
    destruct ps as [|q qs].
    + cbn [join_us join_with] in *. rewrite IH. reflexivity.
    + rewrite join_us_cons2 in *. cbn [app]. rewrite IH. reflexivity.
Qed.

Lemma words_no_us : forall w, no_us w = true -> words w = [w].
Proof.
  induction w as [|c r IH]; [reflexivity|].
  cbn [no_us forallb]. intros H. apply andb_true_iff in H. destruct H as [H1 H2].
  apply negb_true_iff in H1. rewrite split_cons_other by exact H1.
  fold (no_us r) in H2. rewrite (IH H2). reflexivity.
Qed.

Lemma words_app_us : forall a b, words (a ++ us :: b) = words a ++ words b.
Proof.
  induction a as [|c r IH]; intros b.
  - cbn [app]. rewrite split_cons_us by reflexivity. reflexivity.
  - cbn [app]. destruct (is_us c) eqn:E.
    + rewrite !split_cons_us by exact E. rewrite IH. reflexivity.
    + rewrite !split_cons_other by exact E. rewrite IH.
      destruct (words r) as [|p ps] eqn:W; [destruct (words_nonnil r W)|]. reflexivity.
Qed.

Lemma words_join : forall ws, ws <> [] -> forallb no_us ws = true -> words (join_us ws) = ws.
Proof.
  induction ws as [|a r IH]; [congruence|]. intros _ H.
  cbn [forallb] in H. apply andb_true_iff in H. destruct H as [Ha Hr].
  destruct r as [|b r'].
  - cbn [join_us join_with]. apply words_no_us, Ha.
  - rewrite join_us_cons2, words_app_us, (words_no_us a Ha), IH by (congruence || exact Hr).
    reflexivity.
Qed.

Lemma join_us_app : forall a b, a <> [] -> b <> [] -> join_us (a ++ b) = join_us a ++ us :: join_us b.
Proof.
  induction a as [|x a IH]; [congruence|]. intros b _ Hb.
  destruct a as [|y a'].
  - cbn [app]. destruct b as [|z b']; [congruence|]. reflexivity.
  - change ((x :: y :: a') ++ b) with (x :: y :: (a' ++ b)).
    rewrite !join_us_cons2. change (y :: a' ++ b) with ((y :: a') ++ b).
    rewrite IH by (congruence || exact Hb). rewrite <- app_assoc. reflexivity.
Qed.

Lemma words_pieces_no_us : forall s, forallb no_us (words s) = true.
Proof.
  induction s as [|c r IH]; [reflexivity|].
  destruct (is_us c) eqn:E.
  - rewrite split_cons_us by exact E. cbn [forallb]. rewrite IH. reflexivity.
  - rewrite split_cons_other by exact E.
    destruct (words r) as [|p ps] eqn:W; [destruct (words_nonnil r W)|].
    cbn [forallb] in *. apply andb_true_iff in IH. destruct IH as [I1 I2].
    cbn [no_us forallb]. rewrite E. cbn [negb andb]. fold (no_us p). rewrite I1, I2. reflexivity.
Qed.

(* ======================================================================================== *)
(* Part 2: pascal_case                                                                      *)
(* ======================================================================================== *)

Lemma pascal_case_words : forall s, pascal_case s = List.concat (map pascal_part (words s)).
Proof. reflexivity. Qed.

Lemma pascal_case_app_us : forall a b, pascal_case (a ++ us :: b) = pascal_case a ++ pascal_case b.
Proof. intros a b. rewrite !pascal_case_words, words_app_us, map_app, concat_app. reflexivity. Qed.

Lemma pascal_case_join : forall ws, forallb no_us ws = true ->
  pascal_case (join_us ws) = List.concat (map pascal_part ws).
Proof.
  intros ws H. destruct ws as [|a r]; [reflexivity|].
  rewrite pascal_case_words, words_join by (congruence || exact H). reflexivity.
Qed.

Lemma lower_word_no_us : forall w, forallb is_lower w = true -> no_us w = true.
Proof.
  induction w as [|c r IH]; [reflexivity|]. cbn [forallb no_us]. intros H.
  apply andb_true_iff in H. destruct H as [H1 H2]. rewrite (lower_not_us c H1). cbn [negb andb].
  apply IH, H2.
Qed.
Lemma upper_word_no_us : forall w, forallb is_upper w = true -> no_us w = true.
Proof.
  induction w as [|c r IH]; [reflexivity|]. cbn [forallb no_us]. intros H.
  apply andb_true_iff in H. destruct H as [H1 H2]. rewrite (upper_not_us c H1). cbn [negb andb].
  apply IH, H2.
Qed.

Lemma all_lower_no_upper : forall w, forallb is_lower w = true -> existsb is_upper w = false.
Proof.
  induction w as [|c r IH]; [reflexivity|]. cbn [forallb existsb]. intros H.
  apply andb_true_iff in H. destruct H as [H1 H2]. rewrite (lower_not_upper c H1), (IH H2). reflexivity.
Qed.


Lemma pascal_part_cap_word : forall w, cap_word w = true -> pascal_part w = w.
Proof.
  intros [|u r]; [reflexivity|]. cbn [cap_word pascal_part]. intros H.
  apply andb_true_iff in H. destruct H as [Hu Hr].
  unfold py_isupper. rewrite (all_lower_no_upper r Hr). cbn [andb]. rewrite andb_false_r.
  rewrite (to_upper_id u (upper_not_lower u Hu)). reflexivity.
Qed.

Lemma hump_cap_word : forall h, is_hump h = true -> cap_word h = true.
Proof. intros [|u [|l r]]; cbn [is_hump cap_word]; try discriminate. auto. Qed.

Lemma pascal_part_lower_word : forall w, forallb is_lower w = true -> pascal_part w = cap w.
Proof.
  intros [|c r]; [reflexivity|]. cbn [forallb pascal_part cap]. intros H.
  apply andb_true_iff in H. destruct H as [_ Hr].
  unfold py_isupper. rewrite (all_lower_no_upper r Hr). cbn [andb]. rewrite andb_false_r. reflexivity.
Qed.

Lemma cap_lower_word_is_cap_word : forall w, lower_word w = true -> cap_word (cap w) = true.
Proof.
  intros [|c r]; [discriminate|]. unfold lower_word. cbn [nonempty andb forallb cap cap_word].
  intros H. apply andb_true_iff in H. destruct H as [H1 H2].
  rewrite (to_upper_lower_is_upper c H1), H2. reflexivity.
Qed.

(* ---- humps ------------------------------------------------------------------------------ *)

Lemma concat_humps : forall s, List.concat (humps s) = s.
Proof.
  induction s as [|c r IH]; [reflexivity|].
  cbn [humps]. destruct r as [|y r']; [reflexivity|].
  destruct (is_upper y).
  - cbn [List.concat app]. rewrite IH. reflexivity.
  - destruct (humps (y :: r')) as [|h hs] eqn:H.
    + rewrite <- IH. reflexivity.
    + cbn [List.concat app] in *. rewrite IH. reflexivity.
Qed.

Lemma is_pascal_humps : forall s, is_pascal s = true ->
  forallb is_hump (humps s) = true /\ humps s <> [] /\ List.concat (humps s) = s.
Proof.
  intros s H. unfold is_pascal in H. apply andb_true_iff in H. destruct H as [Hn Hh].
  split; [exact Hh|]. split; [|apply concat_humps].
  destruct s as [|c r]; [discriminate|]. cbn [humps]. destruct r as [|y r']; [discriminate|].
  destruct (is_upper y); [discriminate|]. destruct (humps (y :: r')); discriminate.
Qed.

Lemma cap_word_no_us : forall w, cap_word w = true -> no_us w = true.
Proof.
  intros [|u r]; [reflexivity|]. cbn [cap_word no_us forallb]. intros H.
  apply andb_true_iff in H. destruct H as [Hu Hr]. rewrite (upper_not_us u Hu). cbn [negb andb].
  apply lower_word_no_us, Hr.
Qed.

Lemma no_us_concat : forall ws, forallb no_us ws = true -> no_us (List.concat ws) = true.
Proof.
  induction ws as [|a r IH]; [reflexivity|]. cbn [forallb List.concat]. intros H.
  apply andb_true_iff in H. destruct H as [H1 H2]. unfold no_us. rewrite forallb_app.
  fold (no_us a). fold (no_us (List.concat r)). rewrite H1, (IH H2). reflexivity.
Qed.

Lemma forallb_impl : forall {A} (p q : A -> bool) l,
  (forall x, p x = true -> q x = true) -> forallb p l = true -> forallb q l = true.
Proof.
  intros A p q l Hpq. induction l as [|a r IH]; [reflexivity|]. cbn [forallb]. intros H.
  apply andb_true_iff in H. destruct H as [H1 H2]. rewrite (Hpq a H1), (IH H2). reflexivity.
Qed.

Lemma concat_map_id : forall (f : str -> str) ws,
  (forall w, In w ws -> f w = w) -> List.concat (map f ws) = List.concat ws.
Proof.
  intros f ws H. induction ws as [|a r IH]; [reflexivity|]. cbn [map List.concat].
  rewrite (H a (or_introl eq_refl)), IH; [reflexivity|]. intros w Hw. apply H. right. exact Hw.
Qed.

(* pascal_case of names joined with "_" is their concatenation, whenever each of the names
   is unchanged by pascal_case on its own and contains no "_" *)
Lemma pascal_case_concat : forall ws,
  forallb no_us ws = true -> (forall w, In w ws -> pascal_part w = w) ->
  pascal_case (join_us ws) = List.concat ws.
Proof. intros ws H1 H2. rewrite pascal_case_join by exact H1. apply concat_map_id, H2. Qed.

Lemma pascal_no_us : forall s, is_pascal s = true -> no_us s = true.
Proof.
  intros s H. destruct (is_pascal_humps s H) as [Hh [_ Hc]]. rewrite <- Hc.
  apply no_us_concat. eapply forallb_impl; [|exact Hh]. intros h Hh'. apply cap_word_no_us, hump_cap_word, Hh'.
Qed.

Lemma pascal_part_pascal : forall s, is_pascal s = true -> pascal_part s = s.
Proof.
  intros s H. destruct (is_pascal_humps s H) as [Hh [Hne Hc]].
  destruct (humps s) as [|h hs] eqn:E; [congruence|].
  cbn [forallb] in Hh. apply andb_true_iff in Hh. destruct Hh as [Hh1 Hh2].
  destruct h as [|u [|l r]]; cbn [is_hump] in Hh1; try discriminate.
  apply andb_true_iff in Hh1. destruct Hh1 as [Hu Hl]. cbn [forallb] in Hl.
  apply andb_true_iff in Hl. destruct Hl as [Hl _].
  rewrite <- Hc. cbn [List.concat app pascal_part].
  unfold py_isupper.
  assert (X : existsb is_lower ((l :: r) ++ List.concat hs) = true).
  { cbn [app existsb]. rewrite Hl. reflexivity. }
  cbn [app] in X. rewrite X. cbn [negb]. rewrite andb_false_r, andb_false_r.
  rewrite (to_upper_id u (upper_not_lower u Hu)). reflexivity.
Qed.

Lemma pascal_case_identity : forall s, is_pascal s = true -> pascal_case s = s.
Proof.
  intros s H. rewrite pascal_case_words, (words_no_us s (pascal_no_us s H)).
  cbn [map List.concat]. rewrite app_nil_r. apply pascal_part_pascal, H.
Qed.

(* ======================================================================================== *)
(* Part 3: snake_case                                                                       *)
(* ======================================================================================== *)

Definition lowdig (c : ascii) : bool := is_lower c || is_digit c.

(* where the two camel passes together put a separator: between x and y when y is a capital
   and (the character after y is a small letter, x not a newline) or (x is a small letter or
   a digit) *)
Definition sep3 (x y : ascii) (zl : bool) : bool :=
  (negb (is_nl x) && is_upper y && zl) || (lowdig x && is_upper y).

Fixpoint ins3 (s : str) : str :=
  match s with
  | [] => []
  | x :: r =>
      match r with
      | [] => [x]
      | y :: r2 => if sep3 x y (first_is is_lower r2) then x :: us :: ins3 r else x :: ins3 r
      end
  end.

Definition b2 (t : str) : str := sub_pair b2_left b2_right t.
Definition P2 (x y : ascii) : bool := lowdig x && is_upper y.

Lemma upper_not_lowdig c : is_upper c = true -> lowdig c = false.
Proof. intros H. unfold lowdig. rewrite (upper_not_lower c H), (upper_not_digit c H). reflexivity. Qed.

Lemma b2_nil : b2 [] = [].
Proof. reflexivity. Qed.
Lemma b2_single x : b2 [x] = [x].
Proof. reflexivity. Qed.

Lemma b2_local : forall x y X,
  b2 (x :: y :: X) = if P2 x y then x :: us :: b2 (y :: X) else x :: b2 (y :: X).
Proof.
  intros x y X. unfold b2 at 1. cbn [sub_pair]. rewrite b2_left_eq, b2_right_eq.
  fold (lowdig x). fold (P2 x y). destruct (P2 x y) eqn:E; [|reflexivity].
  unfold P2 in E. apply andb_true_iff in E. destruct E as [_ Hy].
  unfold b2. destruct X as [|z X']; cbn [sub_pair]; [reflexivity|].
  rewrite (b2_left_eq y). fold (lowdig y). rewrite (upper_not_lowdig y Hy). reflexivity.
Qed.

Lemma sub_b1_eq : forall run t,
  sub_b1 run t =
  match t with
  | [] => []
  | c :: r =>
      if run && is_lower c then c :: sub_b1 true r
      else
        match r with
        | u :: ((l :: _) as r') =>
            if negb (is_nl c) && is_upper u && is_lower l
            then c :: us :: u :: sub_b1 true r'
            else c :: sub_b1 false r
        | _ => c :: sub_b1 false r
        end
  end.
Proof.
  intros run [|c r]; [reflexivity|]. cbn [sub_b1]. rewrite b1_run_eq.
  destruct r as [|u [|l r3]]; try reflexivity. rewrite b1_first_eq, b1_head_eq, b1_run_eq. reflexivity.
Qed.

Lemma sub_b1_head : forall run c r, exists t, sub_b1 run (c :: r) = c :: t.
Proof.
  intros run c r. rewrite sub_b1_eq. destruct (run && is_lower c); [eexists; reflexivity|].
  destruct r as [|u [|l r3]]; try (eexists; reflexivity).
  destruct (negb (is_nl c) && is_upper u && is_lower l); eexists; reflexivity.
Qed.

Lemma us_not_lowdig : lowdig us = false. Proof. reflexivity. Qed.
Lemma us_not_upper' : is_upper us = false. Proof. reflexivity. Qed.

Lemma camel_passes_local : forall n s, (List.length s <= n)%nat -> forall run, b2 (sub_b1 run s) = ins3 s.
Proof.
  induction n as [|n IH]; intros s Hlen run.
  - destruct s; [reflexivity | cbn [List.length] in Hlen; lia].
  - destruct s as [|c r]; [reflexivity|]. cbn [List.length] in Hlen.
    assert (IHr : forall run', b2 (sub_b1 run' r) = ins3 r) by (intros; apply IH; lia).
    rewrite sub_b1_eq.
    destruct (run && is_lower c) eqn:EA.
    + (* inside a greedy run: c is consumed *)
      apply andb_true_iff in EA. destruct EA as [_ Hc].
      destruct r as [|y r2]; [reflexivity|].
      destruct (sub_b1_head true y r2) as [t Ht].
      specialize (IHr true). rewrite Ht in *. rewrite b2_local, IHr.
      cbn [ins3]. unfold sep3, P2, lowdig. rewrite Hc. cbn [orb andb].
      destruct (is_upper y), (first_is is_lower r2), (is_nl c); reflexivity.
    + destruct r as [|u r1]; [reflexivity|].
      assert (NoMatch : b2 (c :: sub_b1 false (u :: r1)) =
                        if P2 c u then c :: us :: ins3 (u :: r1) else c :: ins3 (u :: r1)).
      { destruct (sub_b1_head false u r1) as [t Ht]. specialize (IHr false).
        rewrite Ht in *. rewrite b2_local, IHr. reflexivity. }
      destruct r1 as [|l r3].
      * rewrite NoMatch. cbn [ins3 first_is]. unfold sep3. rewrite andb_false_r. reflexivity.
      * destruct (negb (is_nl c) && is_upper u && is_lower l) eqn:EM.
        -- (* a match: c _ u, then the run starting at l *)
           apply andb_true_iff in EM. destruct EM as [EM Hl]. apply andb_true_iff in EM.
           destruct EM as [Hnl Hu].
           destruct (sub_b1_head true l r3) as [t Ht].
           assert (IH2 : b2 (sub_b1 true (l :: r3)) = ins3 (l :: r3)).
           { apply IH. cbn [List.length] in *. lia. }
           rewrite Ht in *.
           rewrite b2_local. unfold P2 at 1. rewrite us_not_upper', andb_false_r.
           rewrite b2_local. unfold P2 at 1. rewrite us_not_lowdig. cbn [andb].
           rewrite b2_local. unfold P2 at 1. rewrite (lower_not_upper l Hl), andb_false_r.
           rewrite IH2.
           change (ins3 (c :: u :: l :: r3)) with
             (if sep3 c u (first_is is_lower (l :: r3)) then c :: us :: ins3 (u :: l :: r3)
              else c :: ins3 (u :: l :: r3)).
           cbn [first_is]. unfold sep3 at 1. rewrite Hnl, Hu, Hl. cbn [andb orb].
           change (ins3 (u :: l :: r3)) with
             (if sep3 u l (first_is is_lower r3) then u :: us :: ins3 (l :: r3)
              else u :: ins3 (l :: r3)).
           unfold sep3. rewrite (lower_not_upper l Hl), !andb_false_r. reflexivity.
        -- rewrite NoMatch.
           change (ins3 (c :: u :: l :: r3)) with
             (if sep3 c u (first_is is_lower (l :: r3)) then c :: us :: ins3 (u :: l :: r3)
              else c :: ins3 (u :: l :: r3)).
           cbn [first_is]. unfold sep3. fold (P2 c u).
           assert (X : negb (is_nl c) && is_upper u && is_lower l || P2 c u = P2 c u)
             by (rewrite EM; reflexivity).
           rewrite X. reflexivity.
Qed.

Lemma camel_passes : forall t, b2 (sub_b1 false t) = ins3 t.
Proof. intros t. apply (camel_passes_local (List.length t)). lia. Qed.

(* ---- the digit passes do nothing where there is no digit -------------------------------- *)

Definition no_digit (s : str) : bool := forallb (fun c => negb (is_digit c)) s.

Lemma sub_pair_no_right : forall L R t,
  forallb (fun c => negb (in_class R c)) t = true -> sub_pair L R t = t.
Proof.
  intros L R. induction t as [|x r IH]; [reflexivity|]. intros H.
  cbn [forallb] in H. apply andb_true_iff in H. destruct H as [_ Hr].
  cbn [sub_pair]. destruct r as [|y r']; [reflexivity|].
  pose proof Hr as Hr'. cbn [forallb] in Hr'. apply andb_true_iff in Hr'. destruct Hr' as [Hy _].
  apply negb_true_iff in Hy. rewrite Hy, andb_false_r. rewrite (IH Hr). reflexivity.
Qed.

Lemma sub_pair_no_left : forall L R t,
  forallb (fun c => negb (in_class L c)) t = true -> sub_pair L R t = t.
Proof.
  intros L R. induction t as [|x r IH]; [reflexivity|]. intros H.
  cbn [forallb] in H. apply andb_true_iff in H. destruct H as [Hx Hr].
  cbn [sub_pair]. destruct r as [|y r']; [reflexivity|].
  apply negb_true_iff in Hx. rewrite Hx. cbn [andb]. rewrite (IH Hr). reflexivity.
Qed.

Lemma digit_passes_id : forall t, no_digit t = true ->
  sub_pair d2a_left d2a_right (sub_pair a2d_left a2d_right t) = t.
Proof.
  intros t H.
  assert (A : sub_pair a2d_left a2d_right t = t).
  { apply sub_pair_no_right. eapply forallb_impl; [|exact H]. intros c Hc. cbn beta in *.
    rewrite a2d_right_eq. exact Hc. }
  rewrite A. apply sub_pair_no_left. eapply forallb_impl; [|exact H]. intros c Hc. cbn beta in *.
  rewrite d2a_left_eq. exact Hc.
Qed.

Lemma ins3_no_digit : forall t, no_digit t = true -> no_digit (ins3 t) = true.
Proof.
  induction t as [|x r IH]; [reflexivity|]. intros H.
  pose proof H as H'. cbn [no_digit forallb] in H'. apply andb_true_iff in H'. destruct H' as [Hx Hr].
  fold (no_digit r) in Hr. cbn [ins3]. destruct r as [|y r2]; [exact H|].
  destruct (sep3 x y (first_is is_lower r2)); cbn [no_digit forallb]; rewrite Hx; cbn [andb];
    [change (negb (is_digit us)) with true; cbn [andb]|]; apply IH, Hr.
Qed.

Lemma snake_token_no_digit : forall b t, no_digit t = true -> snake_token b t = ins3 t.
Proof.
  intros b t H. unfold snake_token. fold (b2 (sub_b1 false t)). rewrite camel_passes.
  destruct (negb b && negb (all_upper_or_digits (ins3 t))); [|reflexivity].
  apply digit_passes_id, ins3_no_digit, H.
Qed.

(* ---- separators: no leading, trailing or doubled "_" ------------------------------------ *)

Fixpoint nodbl (s : str) : bool :=
  match s with
  | a :: ((b :: _) as r) => negb (is_us a && is_us b) && nodbl r
  | _ => true
  end.
Definition first_ok (s : str) : bool := match s with c :: _ => negb (is_us c) | [] => true end.
Definition last_ok (s : str) : bool := first_ok (rev s).
Definition good (s : str) : bool := nonempty s && first_ok s && last_ok s && nodbl s.

Lemma sub_multi_nodbl : forall s, nodbl s = true -> sub_multi false s = s.
Proof.
  induction s as [|c r IH]; [reflexivity|]. intros H.
  destruct r as [|c2 r'].
  - cbn [sub_multi]. destruct (is_chr multi_char c); reflexivity.
  - cbn [nodbl] in H. apply andb_true_iff in H. destruct H as [H1 H2].
    specialize (IH H2).
    change (sub_multi false (c :: c2 :: r')) with
      (if is_chr multi_char c then
         (if is_chr multi_char c2 then sepc :: sub_multi true (c2 :: r')
          else c :: sub_multi false (c2 :: r'))
       else c :: sub_multi false (c2 :: r')).
    rewrite (multi_eq c), (multi_eq c2). destruct (is_us c) eqn:Ec.
    + cbn [andb] in H1. apply negb_true_iff in H1. rewrite H1, IH. reflexivity.
    + rewrite IH. reflexivity.
Qed.

Lemma drop_while_first_ok : forall s, first_ok s = true -> drop_while (is_chr sep_char) s = s.
Proof.
  intros [|c r]; [reflexivity|]. cbn [first_ok drop_while]. intros H. apply negb_true_iff in H.
  rewrite sep_eq, H. reflexivity.
Qed.

Lemma strip_good : forall s, first_ok s = true -> last_ok s = true -> strip_chr sep_char s = s.
Proof.
  intros s H1 H2. unfold strip_chr. rewrite (drop_while_first_ok s H1).
  rewrite (drop_while_first_ok (rev s) H2). apply rev_involutive.
Qed.

Lemma first_ok_app : forall a b, nonempty a = true -> first_ok (a ++ b) = first_ok a.
Proof. intros [|c r] b; [discriminate|]. reflexivity. Qed.

Lemma last_ok_app : forall a b, nonempty b = true -> last_ok (a ++ b) = last_ok b.
Proof.
  intros a b Hb. unfold last_ok. rewrite rev_app_distr. apply first_ok_app.
  destruct b as [|c r]; [discriminate|]. cbn [rev]. destruct (rev r); reflexivity.
Qed.

Lemma last_ok_cons : forall c r, nonempty r = true -> last_ok (c :: r) = last_ok r.
Proof. intros c r H. change (c :: r) with ([c] ++ r). apply last_ok_app, H. Qed.

Lemma nodbl_join2 : forall a b,
  nodbl a = true -> last_ok a = true -> nonempty a = true ->
  nodbl b = true -> first_ok b = true -> nonempty b = true ->
  nodbl (a ++ us :: b) = true.
Proof.
  induction a as [|x a IH]; [discriminate|]. intros b Ha La _ Hb Fb Nb.
  destruct a as [|y a'].
  - cbn [app nodbl]. unfold last_ok in La. cbn [rev app first_ok] in La. apply negb_true_iff in La.
    rewrite La. cbn [andb negb]. destruct b as [|z b']; [discriminate|].
    cbn [first_ok] in Fb. apply negb_true_iff in Fb. rewrite Fb, andb_false_r. cbn [negb andb]. exact Hb.
  - change ((x :: y :: a') ++ us :: b) with (x :: y :: (a' ++ us :: b)).
    cbn [nodbl] in Ha |- *. apply andb_true_iff in Ha. destruct Ha as [Ha1 Ha2]. rewrite Ha1. cbn [andb].
    change (y :: a' ++ us :: b) with ((y :: a') ++ us :: b).
    apply IH; try assumption; try reflexivity.
    rewrite last_ok_cons in La by reflexivity. exact La.
Qed.

Lemma good_join2 : forall a b, good a = true -> good b = true -> good (a ++ us :: b) = true.
Proof.
  intros a b Ha Hb. unfold good in *.
  repeat (apply andb_true_iff in Ha; destruct Ha as [Ha ?]).
  repeat (apply andb_true_iff in Hb; destruct Hb as [Hb ?]).
  repeat (apply andb_true_iff; split).
  - destruct a; [discriminate|reflexivity].
  - rewrite first_ok_app by assumption. assumption.
  - rewrite last_ok_app by reflexivity. rewrite last_ok_cons by assumption. assumption.
  - apply nodbl_join2; assumption.
Qed.

Lemma good_join : forall ws, ws <> [] -> forallb good ws = true -> good (join_us ws) = true.
Proof.
  induction ws as [|a r IH]; [congruence|]. intros _ H. cbn [forallb] in H.
  apply andb_true_iff in H. destruct H as [Ha Hr]. destruct r as [|b r'].
  - exact Ha.
  - rewrite join_us_cons2. apply good_join2; [exact Ha|]. apply IH; [congruence|exact Hr].
Qed.

Definition letters (t : str) : bool := nonempty t && forallb is_letter t.

Lemma letter_not_us c : is_letter c = true -> is_us c = false.
Proof.
  unfold is_letter. intros H. apply orb_true_iff in H. destruct H as [H|H];
    [apply upper_not_us|apply lower_not_us]; exact H.
Qed.
Lemma letter_not_digit c : is_letter c = true -> is_digit c = false.
Proof.
  unfold is_letter. intros H. apply orb_true_iff in H. destruct H as [H|H];
    [apply upper_not_digit|apply lower_not_digit]; exact H.
Qed.
Lemma letter_not_dash c : is_letter c = true -> is_chr dash_char c = false.
Proof.
  unfold is_letter. intros H. apply orb_true_iff in H. destruct H as [H|H];
    [apply upper_not_dash|apply lower_not_dash]; exact H.
Qed.

Lemma ins3_head : forall c r, exists t, ins3 (c :: r) = c :: t.
Proof.
  intros c r. cbn [ins3]. destruct r as [|y r2]; [eexists; reflexivity|].
  destruct (sep3 c y (first_is is_lower r2)); eexists; reflexivity.
Qed.

Lemma nodbl_cons2 : forall a b r, nodbl (a :: b :: r) = negb (is_us a && is_us b) && nodbl (b :: r).
Proof. reflexivity. Qed.

Lemma ins3_good : forall t, letters t = true -> good (ins3 t) = true.
Proof.
  assert (G : forall t, forallb is_letter t = true -> t <> [] ->
              nonempty (ins3 t) = true /\ first_ok (ins3 t) = true /\ last_ok (ins3 t) = true /\
              nodbl (ins3 t) = true).
  { induction t as [|x r IH]; [congruence|]. intros H _.
    cbn [forallb] in H. apply andb_true_iff in H. destruct H as [Hx Hr].
    pose proof (letter_not_us x Hx) as Ux.
    destruct r as [|y r2].
    - cbn [ins3]. unfold last_ok. cbn [nonempty first_ok rev app nodbl]. rewrite Ux. auto.
    - destruct (IH Hr) as [I1 [I2 [I3 I4]]]; [congruence|].
      destruct (ins3_head y r2) as [t Ht].
      pose proof Hr as Hr'. cbn [forallb] in Hr'. apply andb_true_iff in Hr'. destruct Hr' as [Hy _].
      pose proof (letter_not_us y Hy) as Uy.
      change (ins3 (x :: y :: r2)) with
        (if sep3 x y (first_is is_lower r2) then x :: us :: ins3 (y :: r2) else x :: ins3 (y :: r2)).
      rewrite Ht in *.
      destruct (sep3 x y (first_is is_lower r2)).
      + repeat split.
        * cbn [first_ok]. rewrite Ux. reflexivity.
        * rewrite last_ok_cons by reflexivity. rewrite last_ok_cons by reflexivity. exact I3.
        * rewrite !nodbl_cons2. rewrite Ux, Uy. cbn [andb negb]. rewrite andb_false_r. cbn [negb andb]. exact I4.
      + repeat split.
        * cbn [first_ok]. rewrite Ux. reflexivity.
        * rewrite last_ok_cons by reflexivity. exact I3.
        * rewrite nodbl_cons2. rewrite Ux. cbn [andb negb]. exact I4. }
  intros t H. unfold letters in H. apply andb_true_iff in H. destruct H as [Hn Hl].
  destruct (G t Hl) as [A [B [C D]]]; [destruct t; [discriminate|congruence]|].
  unfold good. rewrite A, B, C, D. reflexivity.
Qed.

Lemma ins3_no_us_words : forall t, letters t = true -> nonempty (ins3 t) = true.
Proof.
  intros t H. pose proof (ins3_good t H) as G. unfold good in G.
  repeat (apply andb_true_iff in G; destruct G as [G ?]). exact G.
Qed.

(* ---- assembling snake_case on digit-free, dash-free tokens -------------------------------- *)

Definition dash_map (c : ascii) : ascii := if is_chr dash_char c then sepc else c.

Lemma snake_case_nonempty : forall word, word <> [] ->
  snake_case word =
  let s := map dash_map word in
  let pre := leading_us s in
  let rest := skipn (List.length pre) s in
  let suf := trailing_us rest in
  let core := firstn (List.length rest - List.length suf) rest in
  let respect := existsb (is_chr sep_char) word && mixed_case word in
  let parts := map (snake_token respect) (filter nonempty (words core)) in
  let core_snake := lower (strip_chr sep_char (sub_multi false (join_us parts))) in
  pre ++ core_snake ++ suf.
Proof. intros [|c r] H; [congruence|reflexivity]. Qed.

Definition letter_or_us (c : ascii) : bool := is_letter c || is_us c.

Lemma join_chars : forall (p : ascii -> bool) ws, p us = true ->
  forallb (forallb p) ws = true -> forallb p (join_us ws) = true.
Proof.
  intros p ws Hp. induction ws as [|a r IH]; [reflexivity|]. intros H. cbn [forallb] in H.
  apply andb_true_iff in H. destruct H as [Ha Hr]. destruct r as [|b r'].
  - exact Ha.
  - rewrite join_us_cons2, forallb_app. change (forallb p (us :: join_us (b :: r'))) with (p us && forallb p (join_us (b :: r'))). rewrite Ha, Hp, (IH Hr). reflexivity.
Qed.

Lemma letters_chars : forall ts, forallb letters ts = true ->
  forallb (forallb letter_or_us) ts = true.
Proof.
  intros ts. apply forallb_impl. intros t H. unfold letters in H. apply andb_true_iff in H.
  destruct H as [_ H]. eapply forallb_impl; [|exact H]. intros c Hc. unfold letter_or_us. rewrite Hc. reflexivity.
Qed.

Lemma dash_map_id : forall s, forallb letter_or_us s = true -> map dash_map s = s.
Proof.
  induction s as [|c r IH]; [reflexivity|]. cbn [forallb map]. intros H.
  apply andb_true_iff in H. destruct H as [Hc Hr]. rewrite (IH Hr). f_equal.
  unfold dash_map. unfold letter_or_us in Hc. apply orb_true_iff in Hc. destruct Hc as [Hc|Hc].
  - rewrite (letter_not_dash c Hc). reflexivity.
  - rewrite (us_not_dash c Hc). reflexivity.
Qed.

Lemma letters_no_us : forall t, letters t = true -> no_us t = true.
Proof.
  intros t H. unfold letters in H. apply andb_true_iff in H. destruct H as [_ H].
  eapply forallb_impl; [|exact H]. intros c Hc. cbn beta. rewrite (letter_not_us c Hc). reflexivity.
Qed.
Lemma letters_no_digit : forall t, letters t = true -> no_digit t = true.
Proof.
  intros t H. unfold letters in H. apply andb_true_iff in H. destruct H as [_ H].
  eapply forallb_impl; [|exact H]. intros c Hc. cbn beta. rewrite (letter_not_digit c Hc). reflexivity.
Qed.
Lemma letters_nonempty : forall t, letters t = true -> nonempty t = true.
Proof. intros t H. unfold letters in H. apply andb_true_iff in H. tauto. Qed.

Lemma join_first_letter : forall ts, ts <> [] -> forallb letters ts = true ->
  exists c w, join_us ts = c :: w /\ is_letter c = true.
Proof.
  intros [|t r] H1 H2; [congruence|]. cbn [forallb] in H2. apply andb_true_iff in H2.
  destruct H2 as [Ht _]. unfold letters in Ht. apply andb_true_iff in Ht. destruct Ht as [Hn Hl].
  destruct t as [|c t']; [discriminate|]. cbn [forallb] in Hl. apply andb_true_iff in Hl.
  destruct Hl as [Hc _]. destruct r as [|b r'].
  - exists c, t'. split; [reflexivity|exact Hc].
  - exists c, (t' ++ us :: join_us (b :: r')). split; [reflexivity|exact Hc].
Qed.

Definition last_letter (s : str) : bool := first_is is_letter (rev s).

Lemma last_letter_app : forall a b, nonempty b = true -> last_letter (a ++ b) = last_letter b.
Proof.
  intros a b Hb. unfold last_letter. rewrite rev_app_distr.
  destruct b as [|c r]; [discriminate|]. cbn [rev]. destruct (rev r); reflexivity.
Qed.

Lemma letters_last_letter : forall t, letters t = true -> last_letter t = true.
Proof.
  intros t H. unfold letters in H. apply andb_true_iff in H. destruct H as [Hn Hl].
  unfold last_letter. assert (X : forallb is_letter (rev t) = true).
  { apply forallb_forall. intros x Hx. apply in_rev in Hx. exact (proj1 (forallb_forall _ _) Hl x Hx). }
  destruct (rev t) as [|z a] eqn:E.
  - destruct t; [discriminate|]. apply (f_equal (@List.length ascii)) in E. rewrite rev_length in E. discriminate.
  - cbn [forallb] in X. apply andb_true_iff in X. cbn [first_is]. tauto.
Qed.

Lemma join_last_letter : forall ts, ts <> [] -> forallb letters ts = true -> last_letter (join_us ts) = true.
Proof.
  induction ts as [|a r IH]; [congruence|]. intros _ H. cbn [forallb] in H.
  apply andb_true_iff in H. destruct H as [Ha Hr]. destruct r as [|b r'].
  - apply letters_last_letter, Ha.
  - rewrite join_us_cons2. rewrite last_letter_app by reflexivity.
    change (us :: join_us (b :: r')) with ([us] ++ join_us (b :: r')).
    assert (N : nonempty (join_us (b :: r')) = true).
    { destruct (join_first_letter (b :: r')) as [c [w [E _]]]; [congruence|exact Hr|]. rewrite E. reflexivity. }
    rewrite last_letter_app by exact N. apply IH; [congruence|exact Hr].
Qed.

Lemma at_end_drop : forall s z, is_us z = false -> is_nl z = false ->
  at_end (drop_while (in_class trailing_class) (s ++ [z])) = false.
Proof.
  induction s as [|c r IH]; intros z Hz Hn.
  - cbn [app drop_while]. rewrite trailing_eq, Hz. cbn [at_end]. exact Hn.
  - cbn [app drop_while]. destruct (in_class trailing_class c); [apply IH; assumption|].
    cbn [at_end]. destruct r; reflexivity.
Qed.

Lemma trailing_none : forall s z, is_us z = false -> is_nl z = false -> trailing_us (s ++ [z]) = [].
Proof.
  induction s as [|c r IH]; intros z Hz Hn.
  - cbn [app trailing_us]. rewrite trailing_eq, Hz. reflexivity.
  - change ((c :: r) ++ [z]) with (c :: (r ++ [z])).
    cbn [trailing_us].
    change (c :: r ++ [z]) with ((c :: r) ++ [z]).
    rewrite (at_end_drop (c :: r) z Hz Hn), andb_false_r. apply IH; assumption.
Qed.

Lemma letter_not_nl c : is_letter c = true -> is_nl c = false.
Proof.
  unfold is_letter. intros H. apply orb_true_iff in H. destruct H as [H|H];
    [apply upper_not_nl|apply lower_not_nl]; exact H.
Qed.

Lemma trailing_last_letter : forall s, last_letter s = true -> trailing_us s = [].
Proof.
  intros s H. unfold last_letter in H. destruct (rev s) as [|z a] eqn:E; [discriminate|].
  cbn [first_is] in H. assert (S' : s = rev a ++ [z]).
  { rewrite <- (rev_involutive s), E. reflexivity. }
  rewrite S'. apply trailing_none; [apply letter_not_us|apply letter_not_nl]; exact H.
Qed.

Lemma filter_all : forall {A} (p : A -> bool) l, forallb p l = true -> filter p l = l.
Proof.
  intros A p. induction l as [|a r IH]; [reflexivity|]. cbn [forallb filter]. intros H.
  apply andb_true_iff in H. destruct H as [H1 H2]. rewrite H1, (IH H2). reflexivity.
Qed.

Lemma map_ext_forallb : forall {A B} (f g : A -> B) (p : A -> bool) l,
  (forall x, p x = true -> f x = g x) -> forallb p l = true -> map f l = map g l.
Proof.
  intros A B f g p l H. induction l as [|a r IH]; [reflexivity|]. cbn [forallb map]. intros Hl.
  apply andb_true_iff in Hl. destruct Hl as [H1 H2]. rewrite (H a H1), (IH H2). reflexivity.
Qed.

Lemma forallb_map : forall {A B} (f : A -> B) (p : B -> bool) l,
  forallb p (map f l) = forallb (fun x => p (f x)) l.
Proof. intros A B f p. induction l as [|a r IH]; [reflexivity|]. cbn [map forallb]. rewrite IH. reflexivity. Qed.

(* snake_case of digit-free letter tokens joined with "_": every token is split by the
   three-character-window rule, the result is lower-cased; nothing else happens *)
Theorem snake_case_letters : forall ts, ts <> [] -> forallb letters ts = true ->
  snake_case (join_us ts) = lower (join_us (map ins3 ts)).
Proof.
  intros ts Hne Hl.
  destruct (join_first_letter ts Hne Hl) as [c [w [EW Hc]]].
  assert (Hchars : forallb letter_or_us (join_us ts) = true)
    by (apply join_chars; [reflexivity | apply letters_chars, Hl]).
  rewrite snake_case_nonempty by (rewrite EW; discriminate).
  cbv zeta. rewrite (dash_map_id _ Hchars).
  assert (Lead : leading_us (join_us ts) = []).
  { rewrite EW. cbn [leading_us take_while]. rewrite leading_eq, (letter_not_us c Hc). reflexivity. }
  rewrite Lead. cbn [List.length skipn].
  rewrite (trailing_last_letter _ (join_last_letter ts Hne Hl)). cbn [List.length].
  rewrite Nat.sub_0_r, firstn_all.
  rewrite words_join by (exact Hne || (eapply forallb_impl; [|exact Hl]; apply letters_no_us)).
  rewrite filter_all by (eapply forallb_impl; [|exact Hl]; apply letters_nonempty).
  rewrite (map_ext_forallb _ ins3 letters ts) by
    (exact Hl || (intros t Ht; apply snake_token_no_digit, letters_no_digit, Ht)).
  assert (G : good (join_us (map ins3 ts)) = true).
  { apply good_join; [destruct ts; [congruence|discriminate]|].
    rewrite forallb_map. eapply forallb_impl; [|exact Hl]. apply ins3_good. }
  unfold good in G. repeat (apply andb_true_iff in G; destruct G as [G ?]).
  rewrite sub_multi_nodbl by assumption. rewrite strip_good by assumption.
  cbn [app]. apply app_nil_r.
Qed.

(* ======================================================================================== *)
(* Part 4: words of the style-guide languages                                               *)
(* ======================================================================================== *)

Lemma ins3_tail_no_upper : forall ls x, existsb is_upper ls = false -> ins3 (x :: ls) = x :: ls.
Proof.
  induction ls as [|l ls IH]; intros x H; [reflexivity|].
  cbn [existsb] in H. apply orb_false_iff in H. destruct H as [Hl Hls].
  change (ins3 (x :: l :: ls)) with
    (if sep3 x l (first_is is_lower ls) then x :: us :: ins3 (l :: ls) else x :: ins3 (l :: ls)).
  unfold sep3. rewrite Hl, !andb_false_r. cbn [orb]. rewrite (IH l Hls). reflexivity.
Qed.

Lemma ins3_no_upper : forall t, existsb is_upper t = false -> ins3 t = t.
Proof.
  intros [|x ls] H; [reflexivity|]. cbn [existsb] in H. apply orb_false_iff in H.
  apply ins3_tail_no_upper. tauto.
Qed.

Lemma ins3_all_upper : forall t, forallb is_upper t = true -> ins3 t = t.
Proof.
  induction t as [|x r IH]; [reflexivity|]. intros H. cbn [forallb] in H.
  apply andb_true_iff in H. destruct H as [Hx Hr]. destruct r as [|y r2]; [reflexivity|].
  change (ins3 (x :: y :: r2)) with
    (if sep3 x y (first_is is_lower r2) then x :: us :: ins3 (y :: r2) else x :: ins3 (y :: r2)).
  rewrite (IH Hr). unfold sep3. rewrite (upper_not_lowdig x Hx). cbn [andb orb].
  assert (Z : first_is is_lower r2 = false).
  { cbn [forallb] in Hr. apply andb_true_iff in Hr. destruct Hr as [_ Hr2].
    destruct r2 as [|z r3]; [reflexivity|]. cbn [forallb] in Hr2. apply andb_true_iff in Hr2.
    cbn [first_is]. apply upper_not_lower. tauto. }
  rewrite Z, andb_false_r. reflexivity.
Qed.

Lemma ins3_lowers_then : forall ls x u2 R',
  forallb is_lower ls = true -> is_upper u2 = true ->
  (ls <> [] \/ lowdig x = true \/ (is_nl x = false /\ first_is is_lower R' = true)) ->
  ins3 (x :: ls ++ u2 :: R') = x :: ls ++ us :: ins3 (u2 :: R').
Proof.
  induction ls as [|l ls IH]; intros x u2 R' Hls Hu Hc.
  - cbn [app].
    change (ins3 (x :: u2 :: R')) with
      (if sep3 x u2 (first_is is_lower R') then x :: us :: ins3 (u2 :: R') else x :: ins3 (u2 :: R')).
    assert (S3 : sep3 x u2 (first_is is_lower R') = true).
    { unfold sep3. rewrite Hu. destruct Hc as [Hc|[Hc|[Hc1 Hc2]]]; [congruence| |].
      - rewrite Hc. cbn [andb]. apply orb_true_r.
      - rewrite Hc1, Hc2. reflexivity. }
    rewrite S3. reflexivity.
  - cbn [forallb] in Hls. apply andb_true_iff in Hls. destruct Hls as [Hl Hls].
    change (x :: (l :: ls) ++ u2 :: R') with (x :: l :: (ls ++ u2 :: R')).
    change (ins3 (x :: l :: (ls ++ u2 :: R'))) with
      (if sep3 x l (first_is is_lower (ls ++ u2 :: R'))
       then x :: us :: ins3 (l :: ls ++ u2 :: R') else x :: ins3 (l :: ls ++ u2 :: R')).
    unfold sep3 at 1. rewrite (lower_not_upper l Hl), !andb_false_r. cbn [orb].
    rewrite (IH l u2 R' Hls Hu); [reflexivity|]. right. left. unfold lowdig. rewrite Hl. reflexivity.
Qed.

Lemma cap_word_inv : forall w, cap_word w = true ->
  exists u ls, w = u :: ls /\ is_upper u = true /\ forallb is_lower ls = true.
Proof.
  intros [|u ls] H; [discriminate|]. cbn [cap_word] in H. apply andb_true_iff in H.
  exists u, ls. tauto.
Qed.

Lemma ins3_capwords : forall cws, cws <> [] ->
  forallb cap_word cws = true -> no_adjacent_singles cws = true ->
  ins3 (List.concat cws) = join_us cws.
Proof.
  induction cws as [|w rest IH]; [congruence|]. intros _ Hc Hs.
  cbn [forallb] in Hc. apply andb_true_iff in Hc. destruct Hc as [Hw Hrest].
  destruct (cap_word_inv w Hw) as [u [ls [Ew [Hu Hls]]]]. subst w.
  destruct rest as [|w2 rest'].
  - cbn [List.concat]. rewrite app_nil_r. apply ins3_tail_no_upper, all_lower_no_upper, Hls.
  - pose proof Hrest as Hrest'. cbn [forallb] in Hrest'. apply andb_true_iff in Hrest'.
    destruct Hrest' as [Hw2 _].
    destruct (cap_word_inv w2 Hw2) as [u2 [ls2 [Ew2 [Hu2 Hls2]]]]. subst w2.
    cbn [no_adjacent_singles] in Hs. apply andb_true_iff in Hs. destruct Hs as [Hs1 Hs2].
    rewrite join_us_cons2. rewrite <- (IH ltac:(congruence) Hrest Hs2).
    change (List.concat ((u :: ls) :: (u2 :: ls2) :: rest'))
      with (u :: ls ++ u2 :: (ls2 ++ List.concat rest')).
    change (List.concat ((u2 :: ls2) :: rest')) with (u2 :: (ls2 ++ List.concat rest')).
    rewrite ins3_lowers_then; [reflexivity|exact Hls|exact Hu2|].
    destruct ls as [|l ls']; [|left; congruence]. right. right.
    split; [apply upper_not_nl, Hu|].
    cbn [single andb] in Hs1. destruct ls2 as [|l2 ls2']; [discriminate|].
    cbn [forallb] in Hls2. apply andb_true_iff in Hls2. cbn [app first_is]. tauto.
Qed.

Lemma nas_cons2 : forall a b r,
  no_adjacent_singles (a :: b :: r) = negb (single a && single b) && no_adjacent_singles (b :: r).
Proof. reflexivity. Qed.

Lemma humps_no_singles : forall hs, forallb is_hump hs = true -> no_adjacent_singles hs = true.
Proof.
  induction hs as [|a r IH]; [reflexivity|]. intros H. cbn [forallb] in H.
  apply andb_true_iff in H. destruct H as [Ha Hr]. destruct r as [|b r']; [reflexivity|].
  rewrite nas_cons2, (IH Hr), andb_true_r.
  destruct a as [|u [|l t]]; try discriminate. reflexivity.
Qed.

Lemma ins3_pascal : forall s, is_pascal s = true -> ins3 s = join_us (humps s).
Proof.
  intros s H. destruct (is_pascal_humps s H) as [Hh [Hne Hc]].
  rewrite <- Hc at 1. apply ins3_capwords; [exact Hne| |apply humps_no_singles, Hh].
  eapply forallb_impl; [|exact Hh]. apply hump_cap_word.
Qed.

(* ---- upper / lower over joins --------------------------------------------------------------- *)

Lemma lower_app a b : lower (a ++ b) = lower a ++ lower b.
Proof. apply map_app. Qed.
Lemma upper_app a b : upper (a ++ b) = upper a ++ upper b.
Proof. apply map_app. Qed.

Lemma lower_join : forall ws, lower (join_us ws) = join_us (map lower ws).
Proof.
  induction ws as [|a r IH]; [reflexivity|]. destruct r as [|b r']; [reflexivity|].
  rewrite join_us_cons2. cbn [map]. rewrite join_us_cons2, lower_app. cbn [lower map].
  fold (lower (join_us (b :: r'))). rewrite IH. reflexivity.
Qed.
Lemma upper_join : forall ws, upper (join_us ws) = join_us (map upper ws).
Proof.
  induction ws as [|a r IH]; [reflexivity|]. destruct r as [|b r']; [reflexivity|].
  rewrite join_us_cons2. cbn [map]. rewrite join_us_cons2, upper_app. cbn [upper map].
  fold (upper (join_us (b :: r'))). rewrite IH. reflexivity.
Qed.

Lemma upper_lower_char : forall c, ascii_eqb (to_upper (to_lower c)) (to_upper c) = true.
Proof. all_chars. Qed.
Lemma upper_lower : forall s, upper (lower s) = upper s.
Proof.
  induction s as [|c r IH]; [reflexivity|].
  change (upper (lower (c :: r))) with (to_upper (to_lower c) :: upper (lower r)).
  change (upper (c :: r)) with (to_upper c :: upper r). rewrite IH. f_equal.
  apply ascii_eqb_eq, upper_lower_char.
Qed.

Lemma lower_all_lower : forall w, forallb is_lower w = true -> lower w = w.
Proof.
  induction w as [|c r IH]; [reflexivity|]. cbn [forallb lower map]. intros H.
  apply andb_true_iff in H. destruct H as [Hc Hr]. fold (lower r). rewrite (IH Hr).
  rewrite (to_lower_id c (lower_not_upper c Hc)). reflexivity.
Qed.
Lemma upper_all_upper : forall w, forallb is_upper w = true -> upper w = w.
Proof.
  induction w as [|c r IH]; [reflexivity|]. cbn [forallb upper map]. intros H.
  apply andb_true_iff in H. destruct H as [Hc Hr]. fold (upper r). rewrite (IH Hr).
  rewrite (to_upper_id c (upper_not_lower c Hc)). reflexivity.
Qed.

Lemma map_id_forallb : forall {A} (f : A -> A) (p : A -> bool) l,
  (forall x, p x = true -> f x = x) -> forallb p l = true -> map f l = l.
Proof.
  intros A f p l H Hl. rewrite (map_ext_forallb f (fun x => x) p l H Hl). apply map_id.
Qed.

Lemma lower_word_letters : forall w, lower_word w = true -> letters w = true.
Proof.
  intros w H. unfold lower_word in H. apply andb_true_iff in H. destruct H as [Hn Hl].
  unfold letters. rewrite Hn. cbn [andb]. eapply forallb_impl; [|exact Hl].
  intros c Hc. unfold is_letter. rewrite Hc. apply orb_true_r.
Qed.
Lemma upper_word_letters : forall w, upper_word w = true -> letters w = true.
Proof.
  intros w H. unfold upper_word in H. apply andb_true_iff in H. destruct H as [Hn Hl].
  unfold letters. rewrite Hn. cbn [andb]. eapply forallb_impl; [|exact Hl].
  intros c Hc. unfold is_letter. rewrite Hc. reflexivity.
Qed.
Lemma cap_word_letters : forall w, cap_word w = true -> letters w = true.
Proof.
  intros w H. destruct (cap_word_inv w H) as [u [ls [E [Hu Hl]]]]. subst w.
  unfold letters. cbn [nonempty andb forallb]. unfold is_letter at 1. rewrite Hu. cbn [orb andb].
  eapply forallb_impl; [|exact Hl]. intros c Hc. unfold is_letter. rewrite Hc. apply orb_true_r.
Qed.
Lemma concat_letters : forall ws, ws <> [] -> forallb letters ws = true -> letters (List.concat ws) = true.
Proof.
  induction ws as [|a r IH]; [congruence|]. intros _ H. cbn [forallb] in H.
  apply andb_true_iff in H. destruct H as [Ha Hr]. unfold letters in *.
  apply andb_true_iff in Ha. destruct Ha as [Hn Hl]. cbn [List.concat]. rewrite forallb_app, Hl.
  destruct a; [discriminate|]. cbn [app nonempty andb]. destruct r as [|b r']; [reflexivity|].
  specialize (IH ltac:(congruence) Hr). apply andb_true_iff in IH. tauto.
Qed.
Lemma pascal_letters : forall s, is_pascal s = true -> letters s = true.
Proof.
  intros s H. destruct (is_pascal_humps s H) as [Hh [Hne Hc]]. rewrite <- Hc.
  apply concat_letters; [exact Hne|]. eapply forallb_impl; [|exact Hh].
  intros h Hh'. apply cap_word_letters, hump_cap_word, Hh'.
Qed.

(* ---- the converters on the style-guide languages ------------------------------------------ *)

Theorem snake_case_identity : forall s, is_lower_snake s = true -> snake_case s = s.
Proof.
  intros s H. unfold is_lower_snake in H. rewrite <- (join_words s) at 1.
  rewrite snake_case_letters; [|apply words_nonnil|eapply forallb_impl; [|exact H]; apply lower_word_letters].
  rewrite lower_join, map_map.
  rewrite (map_id_forallb (fun w => lower (ins3 w)) lower_word); [apply join_words| |exact H].
  intros w Hw. unfold lower_word in Hw. apply andb_true_iff in Hw. destruct Hw as [_ Hw].
  rewrite (ins3_no_upper w (all_lower_no_upper w Hw)). apply lower_all_lower, Hw.
Qed.

Theorem upper_snake_identity : forall s, is_upper_snake s = true ->
  upper_case s = s /\ upper_case (snake_case s) = s.
Proof.
  intros s H. unfold is_upper_snake in H. unfold upper_case.
  assert (U : upper s = s).
  { rewrite <- (join_words s), upper_join.
    rewrite (map_id_forallb upper upper_word); [reflexivity| |exact H].
    intros w Hw. unfold upper_word in Hw. apply andb_true_iff in Hw. apply upper_all_upper. tauto. }
  split; [exact U|].
  rewrite <- (join_words s) at 1.
  rewrite snake_case_letters; [|apply words_nonnil|eapply forallb_impl; [|exact H]; apply upper_word_letters].
  rewrite upper_lower.
  rewrite (map_id_forallb ins3 upper_word); [rewrite join_words; exact U| |exact H].
  intros w Hw. unfold upper_word in Hw. apply andb_true_iff in Hw. apply ins3_all_upper. tauto.
Qed.

Theorem snake_case_of_pascal : forall s, is_pascal s = true ->
  snake_case s = join_us (map lower (humps s)).
Proof.
  intros s H. change s with (join_us [s]) at 1.
  rewrite snake_case_letters; [|congruence|cbn [forallb]; rewrite (pascal_letters s H); reflexivity].
  cbn [map join_us join_with]. rewrite (ins3_pascal s H). apply lower_join.
Qed.

(* ======================================================================================== *)
(* Part 5: definition names                                                                 *)
(* ======================================================================================== *)

Lemma delim_inner_us : forall l, Str (delim_inner l) = [us].
Proof. intros []; reflexivity. Qed.

Lemma inner_name_eq : forall l p encl n,
  inner_name l p encl n = name_prefix l p ++ join_us (encl ++ [n]).
Proof.
  intros l p [|e encl] n; [reflexivity|]. unfold inner_name. rewrite delim_inner_us. reflexivity.
Qed.

Lemma def_name_eq : forall l k p encl n,
  def_name l k p encl n = apply_styles (case_table l k) (name_prefix l p ++ join_us (encl ++ [n])).
Proof. intros. unfold def_name, format_case_style. rewrite inner_name_eq. reflexivity. Qed.

Lemma name_prefix_c p : name_prefix LC p = p. Proof. reflexivity. Qed.
Lemma name_prefix_go p : name_prefix LGo p = []. Proof. reflexivity. Qed.
Lemma name_prefix_py p : name_prefix LPy p = []. Proof. reflexivity. Qed.

(* ---- pascal-styled kinds ---------------------------------------------------------------- *)

Lemma pascal_part_no_us : forall w, no_us w = true -> no_us (pascal_part w) = true.
Proof.
  intros [|c r] H; [reflexivity|]. cbn [no_us forallb] in H. apply andb_true_iff in H.
  destruct H as [Hc Hr]. apply negb_true_iff in Hc. cbn [pascal_part].
  destruct (nonempty r && py_isupper r); cbn [no_us forallb]; rewrite to_upper_us_iff, Hc; cbn [negb andb].
  - unfold lower. rewrite forallb_map. eapply forallb_impl; [|exact Hr]. intros x Hx. cbn beta in *.
    rewrite to_lower_us_iff. exact Hx.
  - exact Hr.
Qed.

Lemma pascal_case_no_us : forall s, no_us (pascal_case s) = true.
Proof.
  intros s. rewrite pascal_case_words. apply no_us_concat. rewrite forallb_map.
  eapply forallb_impl; [|apply words_pieces_no_us]. intros w Hw. apply pascal_part_no_us, Hw.
Qed.

Lemma pascal_lint_inv : forall w, pascal_case w = w -> no_us w = true /\ pascal_part w = w.
Proof.
  intros w H. assert (N : no_us w = true) by (rewrite <- H; apply pascal_case_no_us).
  split; [exact N|]. rewrite pascal_case_words, (words_no_us w N) in H.
  cbn [map List.concat] in H. rewrite app_nil_r in H. exact H.
Qed.

(* names joined with "_" and then pascal-cased are concatenated, for all names the linter
   accepts as PascalCase (pascal_case w = w) *)
Theorem pascal_case_nested : forall ws, (forall w, In w ws -> pascal_case w = w) ->
  pascal_case (join_us ws) = List.concat ws.
Proof.
  intros ws H. apply pascal_case_concat.
  - apply forallb_forall. intros w Hw. apply (pascal_lint_inv w (H w Hw)).
  - intros w Hw. apply (pascal_lint_inv w (H w Hw)).
Qed.

(* a prefix that ends in "_" is pascal-cased on its own *)
Theorem pascal_case_prefix : forall q x,
  pascal_case ((q ++ [us]) ++ x) = pascal_case (q ++ [us]) ++ pascal_case x.
Proof.
  intros q x. rewrite <- app_assoc. cbn [app]. rewrite !pascal_case_app_us.
  change (pascal_case []) with (@nil ascii). rewrite app_nil_r. reflexivity.
Qed.

Definition pascal_kind (l : lang) (k : kind) : bool :=
  match case_table l k with [SPascal] => true | _ => false end.
Definition keep_kind (l : lang) (k : kind) : bool :=
  match case_table l k with [SKeep] => true | _ => false end.
Definition upper_kind (l : lang) (k : kind) : bool :=
  match case_table l k with [SUpper] => true | _ => false end.
Definition snake_upper_kind (l : lang) (k : kind) : bool :=
  match case_table l k with [SSnake; SUpper] => true | _ => false end.

Lemma def_name_pascal_kind : forall l k p encl n, pascal_kind l k = true ->
  def_name l k p encl n = pascal_case (name_prefix l p ++ join_us (encl ++ [n])).
Proof.
  intros l k p encl n H. rewrite def_name_eq. unfold pascal_kind in H.
  destruct (case_table l k) as [|[] [|? ?]]; try discriminate. reflexivity.
Qed.
Lemma def_name_keep_kind : forall l k p encl n, keep_kind l k = true ->
  def_name l k p encl n = name_prefix l p ++ join_us (encl ++ [n]).
Proof.
  intros l k p encl n H. rewrite def_name_eq. unfold keep_kind in H.
  destruct (case_table l k) as [|[] [|? ?]]; try discriminate. reflexivity.
Qed.
Lemma def_name_upper_kind : forall l k p encl n, upper_kind l k = true ->
  def_name l k p encl n = upper (name_prefix l p ++ join_us (encl ++ [n])).
Proof.
  intros l k p encl n H. rewrite def_name_eq. unfold upper_kind in H.
  destruct (case_table l k) as [|[] [|? ?]]; try discriminate. reflexivity.
Qed.
Lemma def_name_snake_upper_kind : forall l k p encl n, snake_upper_kind l k = true ->
  def_name l k p encl n = upper (snake_case (name_prefix l p ++ join_us (encl ++ [n]))).
Proof.
  intros l k p encl n H. rewrite def_name_eq. unfold snake_upper_kind in H.
  destruct (case_table l k) as [|[] [|[] [|? ?]]]; try discriminate. reflexivity.
Qed.

(* ---- prefixes ------------------------------------------------------------------------------ *)

Lemma prefix_ok_inv : forall ws, prefix_ok ws = true ->
  exists pw, ws = pw ++ [[]] /\ forallb pword pw = true.
Proof.
  induction ws as [|w r IH]; [discriminate|]. intros H. destruct r as [|w2 r'].
  - cbn [prefix_ok] in H. destruct w; [|discriminate]. exists []. split; reflexivity.
  - change (prefix_ok (w :: w2 :: r')) with (pword w && prefix_ok (w2 :: r')) in H.
    apply andb_true_iff in H. destruct H as [Hw Hr]. destruct (IH Hr) as [pw [E F]].
    exists (w :: pw). rewrite E. split; [reflexivity|]. cbn [forallb]. rewrite Hw, F. reflexivity.
Qed.

Lemma removelast_app1 : forall {A} (l : list A) x, removelast (l ++ [x]) = l.
Proof. intros A l x. rewrite removelast_app by discriminate. cbn [removelast]. apply app_nil_r. Qed.

Lemma nas_app_l : forall a b, no_adjacent_singles (a ++ b) = true -> no_adjacent_singles a = true.
Proof.
  induction a as [|x a IH]; intros b H; [reflexivity|]. destruct a as [|y a']; [reflexivity|].
  change ((x :: y :: a') ++ b) with (x :: y :: (a' ++ b)) in H. rewrite nas_cons2 in *.
  apply andb_true_iff in H. destruct H as [H1 H2]. rewrite H1. cbn [andb].
  apply (IH b). exact H2.
Qed.

Lemma is_prefix_inv : forall p, is_prefix p = true ->
  forallb pword (prefix_words p) = true /\ no_adjacent_singles (prefix_words p) = true /\
  (p = [] /\ prefix_words p = [] \/
   prefix_words p <> [] /\ p = join_us (prefix_words p) ++ [us]).
Proof.
  intros p H. destruct p as [|c r]; [repeat split; left; split; reflexivity|].
  unfold is_prefix in H. apply andb_true_iff in H. destruct H as [H1 H2].
  destruct (prefix_ok_inv _ H1) as [pw [E F]]. unfold prefix_words. rewrite E in *.
  rewrite removelast_app1. split; [exact F|]. split; [apply (nas_app_l pw [[]]), H2|]. right.
  assert (P : c :: r = join_us (pw ++ [[]])) by (rewrite <- E; symmetry; apply join_words).
  destruct pw as [|w pw'].
  - cbn in P. discriminate.
  - split; [congruence|]. rewrite P. rewrite join_us_app by congruence. reflexivity.
Qed.

(* prefix ++ names joined = all words joined *)
Lemma prefix_join : forall p X, is_prefix p = true -> X <> [] ->
  p ++ join_us X = join_us (prefix_words p ++ X).
Proof.
  intros p X H HX. destruct (is_prefix_inv p H) as [_ [_ [[E1 E2]|[N E]]]].
  - rewrite E2, E1. reflexivity.
  - rewrite E at 1. rewrite <- app_assoc. cbn [app]. symmetry. apply join_us_app; assumption.
Qed.

Lemma join_us_flatten_last : forall a b, b <> [] -> join_us (a ++ [join_us b]) = join_us (a ++ b).
Proof.
  intros a b Hb. destruct a as [|x a']; [reflexivity|].
  rewrite (join_us_app (x :: a') [join_us b]) by congruence.
  rewrite (join_us_app (x :: a') b) by congruence. reflexivity.
Qed.

Lemma join_us_concat : forall LL, forallb (fun l => match l with [] => false | _ => true end) LL = true ->
  join_us (map join_us LL) = join_us (List.concat LL).
Proof.
  induction LL as [|l r IH]; [reflexivity|]. intros H. cbn [forallb] in H.
  apply andb_true_iff in H. destruct H as [Hl Hr]. specialize (IH Hr).
  destruct r as [|l2 r'].
  - cbn [map List.concat]. rewrite app_nil_r. reflexivity.
  - cbn [map] in *. rewrite join_us_cons2, IH.
    change (List.concat (l :: l2 :: r')) with (l ++ List.concat (l2 :: r')).
    symmetry. apply join_us_app.
    + destruct l; [discriminate|congruence].
    + cbn [forallb] in Hr. apply andb_true_iff in Hr. destruct Hr as [Hl2 _].
      destruct l2; [discriminate|]. cbn [List.concat app]. congruence.
Qed.

Lemma humps_nonnil : forall s, s <> [] -> humps s <> [].
Proof.
  intros [|c r] H; [congruence|]. cbn [humps]. destruct r as [|y r']; [discriminate|].
  destruct (is_upper y); [discriminate|]. destruct (humps (y :: r')); discriminate.
Qed.

Lemma is_pascal_nonempty : forall s, is_pascal s = true -> s <> [].
Proof. intros [|c r] H; [discriminate|congruence]. Qed.

Lemma words_upper_snake_nonnil s : words s <> []. Proof. apply words_nonnil. Qed.

(* ---- prefix words: small letters, Capitalised or CAPITALS ------------------------------------ *)

Lemma pword_cases : forall w, pword w = true ->
  lower_word w = true \/ cap_word w = true \/ upper_word w = true.
Proof.
  intros w H. unfold pword in H. apply orb_true_iff in H. destruct H as [H|H]; [|tauto].
  apply orb_true_iff in H. tauto.
Qed.

Lemma pword_letters : forall w, pword w = true -> letters w = true.
Proof.
  intros w H. destruct (pword_cases w H) as [L|[C|U]];
    [apply lower_word_letters|apply cap_word_letters|apply upper_word_letters]; assumption.
Qed.

Lemma pword_no_us : forall w, pword w = true -> no_us w = true.
Proof. intros w H. apply letters_no_us, pword_letters, H. Qed.

Lemma ins3_pword : forall w, pword w = true -> ins3 w = w.
Proof.
  intros w H. destruct (pword_cases w H) as [L|[C|U]].
  - unfold lower_word in L. apply andb_true_iff in L. apply ins3_no_upper, all_lower_no_upper. tauto.
  - destruct (cap_word_inv w C) as [u [ls [E [_ Hl]]]]. subst w.
    apply ins3_tail_no_upper, all_lower_no_upper, Hl.
  - unfold upper_word in U. apply andb_true_iff in U. apply ins3_all_upper. tauto.
Qed.

(* the list of word lists behind a token list: prefix words and member words stand for
   themselves, a Pascal name for its humps *)
Lemma map_ins3_tokens : forall pw encl mw,
  forallb pword pw = true -> forallb is_pascal encl = true -> forallb upper_word mw = true ->
  map ins3 (pw ++ encl ++ mw) =
  map join_us (map (fun w => [w]) pw ++ map humps encl ++ map (fun w => [w]) mw).
Proof.
  intros pw encl mw H1 H2 H3. rewrite !map_app, !map_map. f_equal; [|f_equal].
  - eapply map_ext_forallb; [|exact H1]. intros w Hw. cbn [join_us join_with].
    apply ins3_pword, Hw.
  - eapply map_ext_forallb; [|exact H2]. intros w Hw. apply ins3_pascal, Hw.
  - eapply map_ext_forallb; [|exact H3]. intros w Hw. cbn [join_us join_with].
    unfold upper_word in Hw. apply andb_true_iff in Hw. apply ins3_all_upper. tauto.
Qed.

Lemma concat_singletons : forall {A} (l : list A), List.concat (map (fun w => [w]) l) = l.
Proof. induction l as [|a r IH]; [reflexivity|]. cbn [map List.concat app]. rewrite IH. reflexivity. Qed.

Lemma tokens_letters : forall pw encl mw,
  forallb pword pw = true -> forallb is_pascal encl = true -> forallb upper_word mw = true ->
  forallb letters (pw ++ encl ++ mw) = true.
Proof.
  intros pw encl mw H1 H2 H3. rewrite !forallb_app.
  rewrite (forallb_impl _ _ _ pword_letters H1), (forallb_impl _ _ _ pascal_letters H2),
    (forallb_impl _ _ _ upper_word_letters H3). reflexivity.
Qed.

(* enum members: prefix, enclosing message names and the member name, all in upper case,
   joined with "_" — humps of the message names are separate words *)
Theorem enum_member_name : forall l p encl m,
  is_prefix p = true -> forallb is_pascal encl = true -> is_upper_snake m = true ->
  def_name l KEnumField p encl m =
  upper (name_prefix l p) ++ join_us (map upper (flat_map humps encl) ++ words m).
Proof.
  intros l p encl m Hp He Hm.
  rewrite def_name_snake_upper_kind by (destruct l; reflexivity).
  set (P := name_prefix l p).
  assert (HP : is_prefix P = true) by (destruct l; [exact Hp|reflexivity|reflexivity]).
  clearbody P. clear Hp p.
  unfold is_upper_snake in Hm.
  destruct (is_prefix_inv P HP) as [Hpw [_ _]].
  set (pw := prefix_words P) in *. set (mw := words m) in *.
  assert (Hmw : mw <> []) by apply words_nonnil.
  assert (E1 : P ++ join_us (encl ++ [m]) = join_us (pw ++ encl ++ mw)).
  { rewrite prefix_join by (exact HP || (destruct encl; discriminate)).
    fold pw. rewrite <- (join_words m) at 1. fold mw.
    rewrite (app_assoc pw encl [join_us mw]), join_us_flatten_last by exact Hmw.
    rewrite <- app_assoc. reflexivity. }
  rewrite E1.
  rewrite snake_case_letters;
    [|destruct pw, encl, mw; try discriminate; congruence|apply tokens_letters; assumption].
  rewrite upper_lower, (map_ins3_tokens pw encl mw Hpw He Hm).
  rewrite join_us_concat.
  2:{ rewrite !forallb_app, !forallb_map. repeat (apply andb_true_iff; split).
      - apply forallb_forall. reflexivity.
      - apply forallb_forall. intros e Hin.
        pose proof (proj1 (forallb_forall _ _) He e Hin) as Pe.
        destruct (humps e) eqn:Eh; [|reflexivity].
        exfalso. exact (humps_nonnil e (is_pascal_nonempty e Pe) Eh).
      - apply forallb_forall. reflexivity. }
  rewrite !concat_app, !concat_singletons. rewrite <- flat_map_concat_map.
  assert (X : flat_map humps encl ++ mw <> []) by (destruct (flat_map humps encl), mw; try discriminate; congruence).
  subst pw. rewrite <- (prefix_join P _ HP X), upper_app, upper_join, map_app.
  rewrite (map_id_forallb upper upper_word mw); [reflexivity| |exact Hm].
  intros w Hw. unfold upper_word in Hw. apply andb_true_iff in Hw. apply upper_all_upper. tauto.
Qed.

(* ---- size constants -------------------------------------------------------------------------- *)

Lemma concat_flat_humps : forall X, List.concat (flat_map humps X) = List.concat X.
Proof.
  induction X as [|x r IH]; [reflexivity|]. cbn [flat_map List.concat].
  rewrite concat_app, concat_humps, IH. reflexivity.
Qed.

Lemma nas_nosingle : forall b, forallb (fun w => negb (single w)) b = true -> no_adjacent_singles b = true.
Proof.
  induction b as [|x r IH]; [reflexivity|]. intros H. cbn [forallb] in H.
  apply andb_true_iff in H. destruct H as [Hx Hr]. destruct r as [|y r']; [reflexivity|].
  rewrite nas_cons2, (IH Hr). apply negb_true_iff in Hx. rewrite Hx. reflexivity.
Qed.

Lemma nas_app_nosingle : forall a b, no_adjacent_singles a = true ->
  forallb (fun w => negb (single w)) b = true -> no_adjacent_singles (a ++ b) = true.
Proof.
  induction a as [|x a IH]; intros b Ha Hb; [apply nas_nosingle, Hb|].
  destruct a as [|y a'].
  - destruct b as [|z b']; [reflexivity|]. change ([x] ++ z :: b') with (x :: z :: b').
    rewrite nas_cons2, (nas_nosingle _ Hb). cbn [forallb] in Hb. apply andb_true_iff in Hb.
    destruct Hb as [Hz _]. apply negb_true_iff in Hz. rewrite Hz, andb_false_r. reflexivity.
  - change ((x :: y :: a') ++ b) with (x :: y :: (a' ++ b)). rewrite nas_cons2 in *.
    apply andb_true_iff in Ha. destruct Ha as [H1 H2]. rewrite H1. cbn [andb].
    apply (IH b H2 Hb).
Qed.

Lemma single_cap : forall w, single (cap w) = single w.
Proof. intros [|c [|d r]]; reflexivity. Qed.

Lemma nas_map_cap : forall ws, no_adjacent_singles (map cap ws) = no_adjacent_singles ws.
Proof.
  induction ws as [|a r IH]; [reflexivity|]. destruct r as [|b r']; [reflexivity|].
  cbn [map] in *. rewrite !nas_cons2, IH, !single_cap. reflexivity.
Qed.

Lemma hump_not_single : forall h, is_hump h = true -> negb (single h) = true.
Proof. intros [|u [|l r]] H; try discriminate. reflexivity. Qed.

Lemma flat_humps_are_humps : forall X, forallb is_pascal X = true ->
  forallb is_hump (flat_map humps X) = true.
Proof.
  induction X as [|x r IH]; [reflexivity|]. intros H. cbn [forallb] in H.
  apply andb_true_iff in H. destruct H as [Hx Hr]. cbn [flat_map]. rewrite forallb_app, (IH Hr).
  destruct (is_pascal_humps x Hx) as [Hh _]. rewrite Hh. reflexivity.
Qed.

Lemma upper_upper_char : forall c, ascii_eqb (to_upper (to_upper c)) (to_upper c) = true.
Proof. all_chars. Qed.
Lemma upper_cap : forall w, upper (cap w) = upper w.
Proof.
  intros [|c r]; [reflexivity|]. cbn [cap upper map]. f_equal. apply ascii_eqb_eq, upper_upper_char.
Qed.

Lemma flat_humps_nonnil : forall X, X <> [] -> forallb is_pascal X = true -> flat_map humps X <> [].
Proof.
  intros [|x r] H1 H2; [congruence|]. cbn [forallb] in H2. apply andb_true_iff in H2.
  destruct H2 as [Hx _]. cbn [flat_map]. pose proof (humps_nonnil x (is_pascal_nonempty x Hx)) as N.
  destruct (humps x); [congruence|discriminate].
Qed.

Lemma all_upper_isupper : forall r, nonempty r = true -> forallb is_upper r = true -> py_isupper r = true.
Proof.
  intros [|c r] Hn H; [discriminate|]. cbn [forallb] in H. apply andb_true_iff in H. destruct H as [Hc Hr].
  unfold py_isupper. cbn [existsb]. rewrite Hc. cbn [orb andb].
  apply negb_true_iff. cbn [existsb]. rewrite (upper_not_lower c Hc). cbn [orb].
  clear Hc Hn c. induction r as [|d r IH]; [reflexivity|]. cbn [forallb existsb] in *.
  apply andb_true_iff in Hr. destruct Hr as [Hd Hr]. rewrite (upper_not_lower d Hd). cbn [orb]. apply IH, Hr.
Qed.

Lemma pascal_part_pword : forall w, pword w = true -> pascal_part w = capw w.
Proof.
  intros w H. destruct (pword_cases w H) as [L|[C|U]].
  - unfold lower_word in L. apply andb_true_iff in L. destruct L as [Hn Hl].
    rewrite (pascal_part_lower_word w Hl). destruct w as [|c r]; [reflexivity|]. cbn [cap capw].
    cbn [forallb] in Hl |- *. apply andb_true_iff in Hl. destruct Hl as [Hc _].
    rewrite (lower_not_upper c Hc). cbn [andb]. rewrite andb_false_r. reflexivity.
  - rewrite (pascal_part_cap_word w C). destruct (cap_word_inv w C) as [u [ls [E [Hu Hl]]]]. subst w.
    cbn [capw]. destruct ls as [|l ls']; [cbn [nonempty andb]; rewrite (to_upper_id u (upper_not_lower u Hu)); reflexivity|].
    cbn [forallb] in Hl |- *. apply andb_true_iff in Hl. destruct Hl as [Hl _].
    rewrite (lower_not_upper l Hl), andb_false_r, andb_false_r.
    rewrite (to_upper_id u (upper_not_lower u Hu)). reflexivity.
  - unfold upper_word in U. apply andb_true_iff in U. destruct U as [Hn Hu].
    destruct w as [|c r]; [discriminate|]. cbn [pascal_part capw]. rewrite Hu, andb_true_r.
    cbn [forallb] in Hu. apply andb_true_iff in Hu. destruct Hu as [Hc Hr].
    destruct r as [|d r']; [cbn [nonempty andb]; reflexivity|].
    rewrite (all_upper_isupper (d :: r') eq_refl Hr). cbn [nonempty andb].
    rewrite (to_upper_id c (upper_not_lower c Hc)). reflexivity.
Qed.

Lemma lower_all_upper_is_lower : forall r, forallb is_upper r = true -> forallb is_lower (lower r) = true.
Proof.
  induction r as [|c r IH]; [reflexivity|]. cbn [forallb lower map]. intros H. apply andb_true_iff in H.
  destruct H as [Hc Hr]. rewrite (to_lower_upper_is_lower c Hc). apply IH, Hr.
Qed.

Lemma capw_is_cap_word : forall w, pword w = true -> cap_word (capw w) = true.
Proof.
  intros w H. rewrite <- (pascal_part_pword w H). destruct (pword_cases w H) as [L|[C|U]].
  - unfold lower_word in L. pose proof L as L'. apply andb_true_iff in L'. destruct L' as [_ Hl].
    rewrite (pascal_part_lower_word w Hl). apply cap_lower_word_is_cap_word, L.
  - rewrite (pascal_part_cap_word w C). exact C.
  - rewrite (pascal_part_pword w H). unfold upper_word in U. apply andb_true_iff in U. destruct U as [Hn Hu].
    destruct w as [|c r]; [discriminate|]. cbn [capw]. rewrite Hu, andb_true_r.
    cbn [forallb] in Hu. apply andb_true_iff in Hu. destruct Hu as [Hc Hr].
    destruct r as [|d r']; [cbn [nonempty cap_word forallb]; rewrite (to_upper_id c (upper_not_lower c Hc)), Hc; reflexivity|].
    cbn [nonempty cap_word]. rewrite Hc. apply lower_all_upper_is_lower, Hr.
Qed.

Lemma single_capw : forall w, single (capw w) = single w.
Proof.
  intros [|c [|d r]]; try reflexivity. cbn [capw]. destruct (nonempty (d :: r) && forallb is_upper (c :: d :: r)); reflexivity.
Qed.

Lemma nas_map_capw : forall ws, no_adjacent_singles (map capw ws) = no_adjacent_singles ws.
Proof.
  induction ws as [|a r IH]; [reflexivity|]. destruct r as [|b r']; [reflexivity|].
  cbn [map] in *. rewrite !nas_cons2, IH, !single_capw. reflexivity.
Qed.

Lemma upper_capw : forall w, upper (capw w) = upper w.
Proof.
  intros [|c r]; [reflexivity|]. cbn [capw]. destruct (nonempty r && forallb is_upper (c :: r)) eqn:E.
  - apply andb_true_iff in E. destruct E as [_ E]. cbn [forallb] in E. apply andb_true_iff in E.
    destruct E as [Hc _]. change (upper (c :: lower r)) with (to_upper c :: upper (lower r)).
    rewrite upper_lower. reflexivity.
  - cbn [upper map]. f_equal. apply ascii_eqb_eq, upper_upper_char.
Qed.

Lemma lower_word_no_us' : forall w, lower_word w = true -> no_us w = true.
Proof. intros w H. unfold lower_word in H. apply andb_true_iff in H. apply lower_word_no_us. tauto. Qed.

(* the formatted name of a message in the pascal-styled languages *)
Lemma message_name_capwords : forall l p encl n,
  pascal_kind l KMessage = true -> is_prefix p = true -> forallb is_pascal (encl ++ [n]) = true ->
  def_name l KMessage p encl n =
  List.concat (map capw (prefix_words (name_prefix l p)) ++ flat_map humps (encl ++ [n])).
Proof.
  intros l p encl n Hk Hp HX. rewrite def_name_pascal_kind by exact Hk.
  set (P := name_prefix l p).
  assert (HP : is_prefix P = true) by (destruct l; [exact Hp|reflexivity|reflexivity]).
  destruct (is_prefix_inv P HP) as [Hpw [_ _]].
  rewrite prefix_join by (exact HP || (destruct encl; discriminate)).
  rewrite pascal_case_join.
  2:{ rewrite forallb_app. rewrite (forallb_impl _ _ _ pword_no_us Hpw).
      rewrite (forallb_impl _ _ _ pascal_no_us HX). reflexivity. }
  rewrite map_app, !concat_app, concat_flat_humps. f_equal.
  - f_equal. eapply map_ext_forallb; [|exact Hpw]. intros w Hw. apply pascal_part_pword, Hw.
  - f_equal. eapply map_id_forallb; [|exact HX]. apply pascal_part_pascal.
Qed.

Theorem size_const_name : forall l p encl n,
  pascal_kind l KMessage = true -> lang_eqb l LPy = false ->
  is_prefix p = true -> forallb is_pascal (encl ++ [n]) = true ->
  size_const l (def_name l KMessage p encl n) =
  Str size_const_prefix ++ upper (name_prefix l p) ++
  join_us (map upper (flat_map humps (encl ++ [n]))).
Proof.
  intros l p encl n Hk Hl Hp HX. rewrite (message_name_capwords l p encl n Hk Hp HX).
  set (P := name_prefix l p).
  assert (HP : is_prefix P = true) by (destruct l; [exact Hp|reflexivity|reflexivity]).
  destruct (is_prefix_inv P HP) as [Hpw [Hnas _]].
  set (pw := prefix_words P) in *. set (Y := flat_map humps (encl ++ [n])).
  assert (HY : forallb is_hump Y = true) by (apply flat_humps_are_humps, HX).
  assert (NY : Y <> []) by (apply flat_humps_nonnil; [destruct encl; discriminate|exact HX]).
  set (C := map capw pw ++ Y).
  assert (SC : size_const l (List.concat C) = Str size_const_prefix ++ upper (snake_case (List.concat C)))
    by (destruct l; [reflexivity|reflexivity|discriminate]).
  rewrite SC. f_equal.
  assert (CW : forallb cap_word C = true).
  { unfold C. rewrite forallb_app, forallb_map.
    rewrite (forallb_impl _ _ _ capw_is_cap_word Hpw).
    rewrite (forallb_impl _ _ _ hump_cap_word HY). reflexivity. }
  assert (NC : C <> []) by (unfold C; destruct (map capw pw), Y; try discriminate; congruence).
  change (List.concat C) with (join_us [List.concat C]) at 1.
  rewrite snake_case_letters;
    [|congruence|cbn [forallb]; rewrite andb_true_r; apply concat_letters;
                 [exact NC|eapply forallb_impl; [|exact CW]; apply cap_word_letters]].
  cbn [map join_us join_with].
  rewrite ins3_capwords; [|exact NC|exact CW|].
  2:{ unfold C. apply nas_app_nosingle; [rewrite nas_map_capw; exact Hnas|].
      eapply forallb_impl; [|exact HY]. apply hump_not_single. }
  rewrite upper_lower, upper_join. unfold C. rewrite map_app, map_map.
  rewrite (map_ext _ upper upper_capw pw).
  rewrite <- map_app, <- upper_join. subst pw.
  rewrite <- (prefix_join P Y HP NY), upper_app, upper_join. reflexivity.
Qed.

(* ---- Go struct fields and their JSON tags --------------------------------------------------- *)

Lemma lower_cap_lower_word : forall w, lower_word w = true -> lower (cap w) = w.
Proof.
  intros [|c r] H; [reflexivity|]. unfold lower_word in H. cbn [nonempty andb forallb] in H.
  apply andb_true_iff in H. destruct H as [Hc Hr]. cbn [cap lower map]. fold (lower r).
  rewrite (to_lower_to_upper_eq c Hc), (lower_all_lower r Hr). reflexivity.
Qed.

Theorem go_field_and_tag : forall n, go_tag_ok n = true ->
  field_name LGo n = List.concat (map cap (words n)) /\ go_tag (field_name LGo n) = n.
Proof.
  intros n H. unfold go_tag_ok in H. apply andb_true_iff in H. destruct H as [Hs Hnas].
  unfold is_lower_snake in Hs.
  assert (F : field_name LGo n = List.concat (map cap (words n))).
  { change (field_name LGo n) with (pascal_case n). rewrite pascal_case_words. f_equal.
    eapply map_ext_forallb; [|exact Hs]. intros w Hw. apply pascal_part_lower_word.
    unfold lower_word in Hw. apply andb_true_iff in Hw. tauto. }
  split; [exact F|]. rewrite F. change (go_tag ?x) with (snake_case x).
  set (C := map cap (words n)).
  assert (CW : forallb cap_word C = true)
    by (unfold C; rewrite forallb_map; eapply forallb_impl; [|exact Hs]; apply cap_lower_word_is_cap_word).
  assert (NC : C <> []) by (unfold C; pose proof (words_nonnil n); destruct (words n); [congruence|discriminate]).
  change (List.concat C) with (join_us [List.concat C]) at 1.
  rewrite snake_case_letters;
    [|congruence|cbn [forallb]; rewrite andb_true_r; apply concat_letters;
                 [exact NC|eapply forallb_impl; [|exact CW]; apply cap_word_letters]].
  cbn [map join_us join_with].
  rewrite ins3_capwords; [|exact NC|exact CW|unfold C; rewrite nas_map_cap; exact Hnas].
  rewrite lower_join. unfold C. rewrite map_map.
  rewrite (map_id_forallb (fun w => lower (cap w)) lower_word _ lower_cap_lower_word Hs).
  apply join_words.
Qed.

(* ---- top level: the schema name itself ------------------------------------------------------ *)

Definition style_ok (k : kind) (n : str) : bool :=
  match k with
  | KConstant | KEnumField => is_upper_snake n
  | KAlias | KEnum | KMessage => is_pascal n
  | KMessageField => is_lower_snake n
  end.

Theorem top_level_identity : forall l k n, style_ok k n = true ->
  def_name l k [] [] n = match l, k with LGo, KMessageField => pascal_case n | _, _ => n end.
Proof.
  intros l k n H.
  destruct k; cbn [style_ok] in H.
  - (* constants: upper *)
    destruct l; rewrite def_name_upper_kind by reflexivity; exact (proj1 (upper_snake_identity n H)).
  - (* alias *)
    destruct l.
    + rewrite def_name_pascal_kind by reflexivity. apply pascal_case_identity, H.
    + rewrite def_name_pascal_kind by reflexivity. apply pascal_case_identity, H.
    + rewrite def_name_keep_kind by reflexivity. reflexivity.
  - (* enum *)
    destruct l.
    + rewrite def_name_pascal_kind by reflexivity. apply pascal_case_identity, H.
    + rewrite def_name_keep_kind by reflexivity. reflexivity.
    + rewrite def_name_keep_kind by reflexivity. reflexivity.
  - (* enum member *)
    rewrite (enum_member_name l [] [] n eq_refl eq_refl H).
    assert (NP : name_prefix l [] = []) by (destruct l; reflexivity). rewrite NP.
    cbn [upper map flat_map app]. rewrite join_words. destruct l; reflexivity.
  - (* message *)
    destruct l.
    + rewrite def_name_pascal_kind by reflexivity. apply pascal_case_identity, H.
    + rewrite def_name_pascal_kind by reflexivity. apply pascal_case_identity, H.
    + rewrite def_name_keep_kind by reflexivity. reflexivity.
  - (* message field *)
    destruct l.
    + rewrite def_name_keep_kind by reflexivity. reflexivity.
    + rewrite def_name_pascal_kind by reflexivity. reflexivity.
    + rewrite def_name_keep_kind by reflexivity. reflexivity.
Qed.

(* ---- nested definitions: enclosing names first, in order ------------------------------------ *)

Theorem nested_names : forall p encl n,
  (forall w, In w (encl ++ [n]) -> pascal_case w = w) ->
  (* C: struct / typedef names are the concatenation *)
  (forall k, pascal_kind LC k = true -> def_name LC k [] encl n = List.concat (encl ++ [n])) /\
  (* Go: messages and aliases concatenate, enums keep the "_" *)
  (forall k, pascal_kind LGo k = true -> def_name LGo k p encl n = List.concat (encl ++ [n])) /\
  def_name LGo KEnum p encl n = join_us (encl ++ [n]) /\
  (* Python: joined with "_" *)
  (forall k, keep_kind LPy k = true -> def_name LPy k p encl n = join_us (encl ++ [n])).
Proof.
  intros p encl n H. split; [|split; [|split]].
  - intros k Hk. rewrite def_name_pascal_kind by exact Hk. apply pascal_case_nested, H.
  - intros k Hk. rewrite def_name_pascal_kind by exact Hk. apply pascal_case_nested, H.
  - rewrite def_name_keep_kind by reflexivity. reflexivity.
  - intros k Hk. rewrite def_name_keep_kind by exact Hk. reflexivity.
Qed.

(* ---- the C name prefix ------------------------------------------------------------------------ *)

Theorem prefix_on_types : forall k q encl n, pascal_kind LC k = true ->
  def_name LC k (q ++ [us]) encl n = pascal_case (q ++ [us]) ++ def_name LC k [] encl n.
Proof.
  intros k q encl n Hk. rewrite !def_name_pascal_kind by exact Hk. rewrite !name_prefix_c.
  apply pascal_case_prefix.
Qed.

Theorem prefix_on_constants : forall p encl n,
  def_name LC KConstant p encl n = upper p ++ def_name LC KConstant [] encl n.
Proof.
  intros p encl n. rewrite !def_name_upper_kind by reflexivity. rewrite !name_prefix_c. apply upper_app.
Qed.

Theorem prefix_on_enum_members : forall p encl m,
  is_prefix p = true -> forallb is_pascal encl = true -> is_upper_snake m = true ->
  def_name LC KEnumField p encl m = upper p ++ def_name LC KEnumField [] encl m.
Proof.
  intros p encl m Hp He Hm. rewrite (enum_member_name LC p encl m Hp He Hm).
  rewrite (enum_member_name LC [] encl m eq_refl He Hm). reflexivity.
Qed.

Theorem prefix_on_size_const : forall p encl n,
  is_prefix p = true -> forallb is_pascal (encl ++ [n]) = true ->
  size_const LC (def_name LC KMessage p encl n) =
  Str size_const_prefix ++ upper p ++
  skipn (List.length (Str size_const_prefix)) (size_const LC (def_name LC KMessage [] encl n)).
Proof.
  intros p encl n Hp HX.
  rewrite (size_const_name LC p encl n eq_refl eq_refl Hp HX).
  rewrite (size_const_name LC [] encl n eq_refl eq_refl eq_refl HX).
  rewrite name_prefix_c. change (upper (name_prefix LC [])) with (@nil ascii). cbn [app].
  rewrite skipn_app, skipn_all, Nat.sub_diag. reflexivity.
Qed.

Theorem prefix_ignored_elsewhere : forall l k p encl n, lang_eqb l LC = false ->
  def_name l k p encl n = def_name l k [] encl n.
Proof. intros [] k p encl n H; try discriminate; rewrite !def_name_eq; reflexivity. Qed.

(* ---- output files ------------------------------------------------------------------------------- *)

Lemma last_dot_cut_none : forall x, existsb is_dot x = false -> last_dot_cut x = None.
Proof.
  induction x as [|c r IH]; [reflexivity|]. cbn [existsb]. intros H. apply orb_false_iff in H.
  destruct H as [Hc Hr]. cbn [last_dot_cut]. rewrite (IH Hr), Hc. reflexivity.
Qed.

Lemma last_dot_cut_app : forall b d x, is_dot d = true -> existsb is_dot x = false ->
  last_dot_cut (b ++ d :: x) = Some (b, d :: x).
Proof.
  induction b as [|c b IH]; intros d x Hd Hx.
  - cbn [app last_dot_cut]. rewrite (last_dot_cut_none x Hx), Hd. reflexivity.
  - cbn [app last_dot_cut]. rewrite (IH d x Hd Hx). reflexivity.
Qed.

Theorem out_filename_of_bitproto_file : forall base ext,
  forallb is_dot base = false ->
  out_filename (base ++ Str ".bitproto") ext = base ++ Str "_bp" ++ Str ext.
Proof.
  intros base ext H. unfold out_filename, splitext_root.
  change (Str ".bitproto") with (chr 46 :: Str "bitproto").
  rewrite last_dot_cut_app by reflexivity. rewrite H. reflexivity.
Qed.

(* ======================================================================================== *)
(* Part 6: the identifiers declared for a whole schema                                      *)
(* ======================================================================================== *)

(* Go and Python output does not depend on option c.name_prefix at all *)
Lemma decl_idents_prefix_irrelevant : forall l opt p q, lang_eqb l LC = false ->
  forall d encl, decl_idents l opt (model_namer l p) encl d = decl_idents l opt (model_namer l q) encl d.
Proof.
  intros l opt p q Hl. fix IH 1. intros [n|n t|n ms|n nested fields] encl;
    cbn [decl_idents nm_def nm_tref nm_size nm_field nm_tag model_namer].
  - rewrite (prefix_ignored_elsewhere l KConstant p encl n Hl),
            (prefix_ignored_elsewhere l KConstant q encl n Hl). reflexivity.
  - rewrite (prefix_ignored_elsewhere l KAlias p encl n Hl),
            (prefix_ignored_elsewhere l KAlias q encl n Hl). reflexivity.
  - rewrite (prefix_ignored_elsewhere l KEnum p encl n Hl),
            (prefix_ignored_elsewhere l KEnum q encl n Hl). f_equal.
    apply flat_map_ext. intros m.
    rewrite (prefix_ignored_elsewhere l KEnumField p encl m Hl),
            (prefix_ignored_elsewhere l KEnumField q encl m Hl). reflexivity.
  - rewrite (prefix_ignored_elsewhere l KMessage p encl n Hl),
            (prefix_ignored_elsewhere l KMessage q encl n Hl). f_equal.
    induction nested as [|d ds IHds]; [reflexivity|]. cbn [flat_map].
    rewrite (IH d (encl ++ [n])), IHds. reflexivity.
Qed.

Theorem proto_idents_prefix_irrelevant : forall l opt p q ds, lang_eqb l LC = false ->
  proto_idents l opt {| p_prefix := p; p_decls := ds |} =
  proto_idents l opt {| p_prefix := q; p_decls := ds |}.
Proof.
  intros l opt p q ds Hl. unfold proto_idents. cbn [p_prefix p_decls].
  induction ds as [|d r IH]; [reflexivity|]. cbn [flat_map].
  rewrite (decl_idents_prefix_irrelevant l opt p q Hl d []), IH. reflexivity.
Qed.

(* C: the member names of all structs, in order, do not depend on the prefix *)
Definition is_field_ident (i : ident) : bool := match fst i with IField _ => true | _ => false end.
Definition field_names_of (ids : list ident) : list str := map snd (filter is_field_ident ids).

Lemma field_names_of_app a b : field_names_of (a ++ b) = field_names_of a ++ field_names_of b.
Proof. unfold field_names_of. rewrite filter_app, map_app. reflexivity. Qed.

Lemma field_names_of_none : forall ids, forallb (fun i => negb (is_field_ident i)) ids = true ->
  field_names_of ids = [].
Proof.
  induction ids as [|i r IH]; [reflexivity|]. cbn [forallb]. intros H.
  apply andb_true_iff in H. destruct H as [Hi Hr]. unfold field_names_of in *. cbn [filter].
  apply negb_true_iff in Hi. rewrite Hi. apply IH, Hr.
Qed.

Lemma field_names_of_fields : forall l N owner fields,
  field_names_of (flat_map (field_idents l N owner) fields) = map (fun f => nm_field N (f_name f)) fields.
Proof.
  intros l N owner. induction fields as [|f r IH]; [reflexivity|]. cbn [flat_map map].
  rewrite field_names_of_app, IH. f_equal. unfold field_idents.
  rewrite !field_names_of_app. cbn [field_names_of filter map is_field_ident fst snd app].
  rewrite (field_names_of_none (match nm_tref N (f_type f) with Some t => _ | None => [] end))
    by (destruct (nm_tref N (f_type f)); reflexivity).
  rewrite (field_names_of_none (match l with LGo => _ | _ => [] end)) by (destruct l; reflexivity).
  reflexivity.
Qed.

Lemma no_fields_flat_map : forall {A} (g : A -> list ident) xs,
  (forall x, forallb (fun i => negb (is_field_ident i)) (g x) = true) ->
  forallb (fun i => negb (is_field_ident i)) (flat_map g xs) = true.
Proof.
  intros A g xs H. induction xs as [|x r IH]; [reflexivity|]. cbn [flat_map]. rewrite forallb_app, H, IH. reflexivity.
Qed.

Lemma field_names_message : forall l opt N n fields,
  field_names_of (message_idents l opt N n fields) = map (fun f => nm_field N (f_name f)) fields.
Proof.
  intros l opt N n fields. unfold message_idents. rewrite field_names_of_app, field_names_of_fields.
  rewrite field_names_of_none; [reflexivity|].
  destruct l; [|reflexivity|
    rewrite forallb_app, forallb_map; apply andb_true_iff; split;
    [reflexivity|apply forallb_forall; reflexivity]]. rewrite forallb_app. cbn [forallb is_field_ident fst negb andb].
  destruct opt; [reflexivity|]. rewrite forallb_app. cbn [forallb is_field_ident fst negb andb].
  apply no_fields_flat_map. intros f. destruct (is_array (f_type f)); reflexivity.
Qed.

Lemma fn_const : forall l opt N encl n, field_names_of (decl_idents l opt N encl (DConst n)) = [].
Proof. intros [] opt N encl n; reflexivity. Qed.

Lemma fn_alias : forall l opt N encl n t, field_names_of (decl_idents l opt N encl (DAlias n t)) = [].
Proof.
  intros l opt N encl n t. cbn [decl_idents]. apply field_names_of_none. rewrite forallb_app.
  apply andb_true_iff. split; [|destruct (nm_tref N t); reflexivity].
  destruct l; [|reflexivity|reflexivity]. destruct opt; [reflexivity|]. destruct (is_array t); reflexivity.
Qed.

Lemma fn_enum : forall l opt N encl n ms, field_names_of (decl_idents l opt N encl (DEnum n ms)) = [].
Proof.
  intros l opt N encl n ms. cbn [decl_idents]. apply field_names_of_none. rewrite forallb_app.
  apply andb_true_iff. split; [destruct l; reflexivity|].
  apply no_fields_flat_map. intros m. destruct l; reflexivity.
Qed.

Lemma decl_field_names_prefix_irrelevant : forall l opt p q d encl,
  field_names_of (decl_idents l opt (model_namer l p) encl d) =
  field_names_of (decl_idents l opt (model_namer l q) encl d).
Proof.
  intros l opt p q. fix IH 1. intros [n|n t|n ms|n nested fields] encl.
  - rewrite !fn_const. reflexivity.
  - rewrite !fn_alias. reflexivity.
  - rewrite !fn_enum. reflexivity.
  - cbn [decl_idents]. rewrite !field_names_of_app, !field_names_message. f_equal.
    induction nested as [|d ds IHds]; [reflexivity|]. cbn [flat_map].
    rewrite !field_names_of_app, (IH d (encl ++ [n])), IHds. reflexivity.
Qed.

Theorem proto_field_names_prefix_irrelevant : forall l opt p q ds,
  field_names_of (proto_idents l opt {| p_prefix := p; p_decls := ds |}) =
  field_names_of (proto_idents l opt {| p_prefix := q; p_decls := ds |}).
Proof.
  intros l opt p q ds. unfold proto_idents. cbn [p_prefix p_decls].
  induction ds as [|d r IH]; [reflexivity|]. cbn [flat_map]. rewrite !field_names_of_app, IH.
  rewrite (decl_field_names_prefix_irrelevant l opt p q d []). reflexivity.
Qed.

(* ---- API names ------------------------------------------------------------------------------- *)

Theorem api_names : forall n,
  (* C *)
  c_encode_fn n = Str "Encode" ++ n /\ c_decode_fn n = Str "Decode" ++ n /\
  c_json_fn n = Str "Json" ++ n /\
  size_const LC n = Str "BYTES_LENGTH_" ++ upper_case (snake_case n) /\
  (* Go *)
  size_const LGo n = Str "BYTES_LENGTH_" ++ upper_case (snake_case n) /\
  (Str go_encode_method, Str go_decode_method, Str go_size_method) = (Str "Encode", Str "Decode", Str "Size") /\
  (* Python *)
  size_const LPy n = Str "BYTES_LENGTH" /\
  (Str py_encode_method, Str py_decode_method, Str py_to_json_method, Str py_to_dict_method) =
  (Str "encode", Str "decode", Str "to_json", Str "to_dict").
Proof. intros n. repeat split. Qed.

Theorem api_names_declared : forall p n fields,
  (forall opt, In (IFunc, Str "Encode" ++ n) (message_idents LC opt (model_namer LC p) n fields) /\
               In (IFunc, Str "Decode" ++ n) (message_idents LC opt (model_namer LC p) n fields) /\
               In (IMacro, size_const LC n) (message_idents LC opt (model_namer LC p) n fields) /\
               In (IStruct, n) (message_idents LC opt (model_namer LC p) n fields)) /\
  In (IFunc, Str "Json" ++ n) (message_idents LC false (model_namer LC p) n fields) /\
  (forall opt, In (IMethod n, Str "Encode") (message_idents LGo opt (model_namer LGo p) n fields) /\
               In (IMethod n, Str "Decode") (message_idents LGo opt (model_namer LGo p) n fields) /\
               In (IMethod n, Str "Size") (message_idents LGo opt (model_namer LGo p) n fields) /\
               In (IConst, size_const LGo n) (message_idents LGo opt (model_namer LGo p) n fields) /\
               In (IType, n) (message_idents LGo opt (model_namer LGo p) n fields)) /\
  (forall opt, In (IMethod n, Str "encode") (message_idents LPy opt (model_namer LPy p) n fields) /\
               In (IMethod n, Str "decode") (message_idents LPy opt (model_namer LPy p) n fields) /\
               In (IMethod n, Str "to_json") (message_idents LPy opt (model_namer LPy p) n fields) /\
               In (IMethod n, Str "to_dict") (message_idents LPy opt (model_namer LPy p) n fields) /\
               In (IAttr n, Str "BYTES_LENGTH") (message_idents LPy opt (model_namer LPy p) n fields) /\
               In (IClass, n) (message_idents LPy opt (model_namer LPy p) n fields)).
Proof.
  intros p n fields. unfold message_idents.
  cbn [nm_size nm_encode nm_decode nm_json nm_menc nm_mdec nm_msize nm_mextra model_namer map].
  split; [|split; [|split]].
  - intros opt. repeat split; apply in_or_app; left; apply in_or_app; left; cbn [In]; tauto.
  - apply in_or_app; left; apply in_or_app; right. cbn [app In]. tauto.
  - intros opt. repeat split; apply in_or_app; left; cbn [In]; tauto.
  - intros opt. repeat split; apply in_or_app; left; cbn [In app]; tauto.
Qed.

Theorem out_file_constants :
  (out_suffix, ext_c_h, ext_c_c, ext_go, ext_py) = ("_bp", ".h", ".c", ".go", ".py")%string.
Proof. reflexivity. Qed.

(* a definition imported from another proto is qualified by the import name in Go and
   Python when it is a top-level definition of that proto, never in C *)
Theorem cross_proto_reference : forall l k p encl n alias,
  ref_name l k p encl n true (Some alias) =
  (if supports_import l then alias ++ Str "." ++ def_name l k p encl n else def_name l k p encl n) /\
  ref_name l k p encl n false (Some alias) = def_name l k p encl n /\
  (forall b, ref_name l k p encl n b None = def_name l k p encl n) /\
  (supports_import LC, supports_import LGo, supports_import LPy) = (false, true, true).
Proof.
  intros l k p encl n alias. unfold ref_name. repeat split; destruct l; reflexivity.
Qed.

(* ---- the name an imported proto is referred to by ------------------------------------------- *)

Lemma name_by_member_key : forall members k id,
  In (k, id) members -> NoDup (map snd members) -> name_by_member members id = Some k.
Proof.
  induction members as [|[k' i'] r IH]; intros k id Hin Hnd; [destruct Hin|].
  cbn [name_by_member]. cbn [map snd] in Hnd. inversion Hnd as [|x l Hni Hnd']; subst.
  destruct (i' =? id)%N eqn:E.
  - apply N.eqb_eq in E. subst i'. destruct Hin as [Hin|Hin]; [congruence|].
    exfalso. apply Hni. change id with (snd (k, id)). apply in_map, Hin.
  - destruct Hin as [Hin|Hin]; [inversion Hin; subst; rewrite N.eqb_refl in E; discriminate|].
    apply IH; assumption.
Qed.

(* a member object registered under key k is referred to as k — whatever its own name is, and
   whatever other keys the scope has (one of them may well BE that own name) *)
Theorem definition_name_is_key : forall members k id own,
  In (k, id) members -> NoDup (map snd members) -> definition_name members id own = k.
Proof.
  intros members k id own Hin Hnd. unfold definition_name.
  rewrite (name_by_member_key members k id Hin Hnd). reflexivity.
Qed.
