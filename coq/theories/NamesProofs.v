(* NamesProofs.v — lemmas about the naming model (Names.v), for ALL strings, by induction.
   Part 1: split / join.  Part 2: pascal_case.  Part 3: snake_case (the two camel passes are
   together a local three-character-window insertion; on digit-free tokens the digit
   passes do nothing).  Part 4: names of the style-guide languages. *)
From Coq Require Import List Bool NArith Ascii String Lia Arith.
From BP Require Import NamesBase Names NamesSpec NamesChars.
From BPGen Require Import GenNames.
Import ListNotations.
Open Scope list_scope.

(* ======================================================================================== *)
(* Part 1: split_on / join_with                                                             *)
(* ======================================================================================== *)

Definition no_us (w : str) : bool := forallb (fun c => negb (is_us c)) w.

Lemma is_chr_95 c : is_chr 95 c = is_us c.
Proof. reflexivity. Qed.

Lemma split_on_nonnil : forall ch s, split_on ch s <> [].
Proof.
  intros ch s. destruct s as [|c r]; cbn [split_on]; [discriminate|].
  destruct (is_chr ch c); [discriminate|]. destruct (split_on ch r); discriminate.
Qed.

Lemma split_cons_us : forall c r, is_us c = true -> words (c :: r) = [] :: words r.
Proof. intros c r H. unfold words. cbn [split_on]. rewrite is_chr_95, H. reflexivity. Qed.

Lemma split_cons_other : forall c r, is_us c = false ->
  words (c :: r) = match words r with p :: ps => (c :: p) :: ps | [] => [[c]] end.
Proof. intros c r H. unfold words. cbn [split_on]. rewrite is_chr_95, H. reflexivity. Qed.

Lemma words_nonnil : forall s, words s <> [].
Proof. intros s. apply split_on_nonnil. Qed.

Lemma join_us_cons2 : forall a b r, join_us (a :: b :: r) = a ++ us :: join_us (b :: r).
Proof. reflexivity. Qed.

Lemma join_words : forall s, join_us (words s) = s.
Proof.
  induction s as [|c r IH]; [reflexivity|].
  destruct (is_us c) eqn:E.
  - rewrite split_cons_us by exact E.
    destruct (words r) as [|p ps] eqn:W; [destruct (words_nonnil r W)|].
    rewrite join_us_cons2, IH. cbn [app]. f_equal. symmetry. apply is_us_eq, E.
  - rewrite split_cons_other by exact E.
    destruct (words r) as [|p ps] eqn:W; [destruct (words_nonnil r W)|].
    destruct ps as [|q qs].
    + cbn [join_us join_with] in *. rewrite IH. reflexivity.
    + rewrite join_us_cons2 in *. cbn [app]. rewrite IH. reflexivity.
Qed.

Lemma words_no_us : forall w, no_us w = true -> words w = [w].
Proof.
  induction w as [|c r IH]; [reflexivity|].
  cbn [no_us forallb]. intros H. apply andb_true_iff in H. destruct H as [H1 H2].
  apply negb_true_iff in H1. rewrite split_cons_other by exact H1.
  fold (no_us r) in H2. rewrite (IH H2). reflexivity.
Qed.

Lemma words_app_us : forall a b, words (a ++ us :: b) = words a ++ words b.
Proof.
  induction a as [|c r IH]; intros b.
  - cbn [app]. rewrite split_cons_us by reflexivity. reflexivity.
  - cbn [app]. destruct (is_us c) eqn:E.
    + rewrite !split_cons_us by exact E. rewrite IH. reflexivity.
    + rewrite !split_cons_other by exact E. rewrite IH.
      destruct (words r) as [|p ps] eqn:W; [destruct (words_nonnil r W)|]. reflexivity.
Qed.

Lemma words_join : forall ws, ws <> [] -> forallb no_us ws = true -> words (join_us ws) = ws.
Proof.
  induction ws as [|a r IH]; [congruence|]. intros _ H.
  cbn [forallb] in H. apply andb_true_iff in H. destruct H as [Ha Hr].
  destruct r as [|b r'].
  - cbn [join_us join_with]. apply words_no_us, Ha.
  - rewrite join_us_cons2, words_app_us, (words_no_us a Ha), IH by (congruence || exact Hr).
    reflexivity.
Qed.

Lemma join_us_app : forall a b, a <> [] -> b <> [] -> join_us (a ++ b) = join_us a ++ us :: join_us b.
Proof.
  induction a as [|x a IH]; [congruence|]. intros b _ Hb.
  destruct a as [|y a'].
  - cbn [app]. destruct b as [|z b']; [congruence|]. reflexivity.
  - change ((x :: y :: a') ++ b) with (x :: y :: (a' ++ b)).
    rewrite !join_us_cons2. change (y :: a' ++ b) with ((y :: a') ++ b).
    rewrite IH by (congruence || exact Hb). rewrite <- app_assoc. reflexivity.
Qed.

Lemma words_pieces_no_us : forall s, forallb no_us (words s) = true.
Proof.
  induction s as [|c r IH]; [reflexivity|].
  destruct (is_us c) eqn:E.
  - rewrite split_cons_us by exact E. cbn [forallb]. rewrite IH. reflexivity.
  - rewrite split_cons_other by exact E.
    destruct (words r) as [|p ps] eqn:W; [destruct (words_nonnil r W)|].
    cbn [forallb] in *. apply andb_true_iff in IH. destruct IH as [I1 I2].
    cbn [no_us forallb]. rewrite E. cbn [negb andb]. fold (no_us p). rewrite I1, I2. reflexivity.
Qed.

(* ======================================================================================== *)
(* Part 2: pascal_case                                                                      *)
(* ======================================================================================== *)

Lemma pascal_case_words : forall s, pascal_case s = List.concat (map pascal_part (words s)).
Proof. reflexivity. Qed.

Lemma pascal_case_app_us : forall a b, pascal_case (a ++ us :: b) = pascal_case a ++ pascal_case b.
Proof. intros a b. rewrite !pascal_case_words, words_app_us, map_app, concat_app. reflexivity. Qed.

Lemma pascal_case_join : forall ws, forallb no_us ws = true ->
  pascal_case (join_us ws) = List.concat (map pascal_part ws).
Proof.
  intros ws H. destruct ws as [|a r]; [reflexivity|].
  rewrite pascal_case_words, words_join by (congruence || exact H). reflexivity.
Qed.

Lemma lower_word_no_us : forall w, forallb is_lower w = true -> no_us w = true.
Proof.
  induction w as [|c r IH]; [reflexivity|]. cbn [forallb no_us]. intros H.
  apply andb_true_iff in H. destruct H as [H1 H2]. rewrite (lower_not_us c H1). cbn [negb andb].
  apply IH, H2.
Qed.
Lemma upper_word_no_us : forall w, forallb is_upper w = true -> no_us w = true.
Proof.
  induction w as [|c r IH]; [reflexivity|]. cbn [forallb no_us]. intros H.
  apply andb_true_iff in H. destruct H as [H1 H2]. rewrite (upper_not_us c H1). cbn [negb andb].
  apply IH, H2.
Qed.

Lemma all_lower_no_upper : forall w, forallb is_lower w = true -> existsb is_upper w = false.
Proof.
  induction w as [|c r IH]; [reflexivity|]. cbn [forallb existsb]. intros H.
  apply andb_true_iff in H. destruct H as [H1 H2]. rewrite (lower_not_upper c H1), (IH H2). reflexivity.
Qed.

(* a capital followed by small letters only (possibly none) *)
Definition cap_word (w : str) : bool :=
  match w with u :: r => is_upper u && forallb is_lower r | [] => false end.

Lemma pascal_part_cap_word : forall w, cap_word w = true -> pascal_part w = w.
Proof.
  intros [|u r]; [reflexivity|]. cbn [cap_word pascal_part]. intros H.
  apply andb_true_iff in H. destruct H as [Hu Hr].
  unfold py_isupper. rewrite (all_lower_no_upper r Hr). cbn [andb]. rewrite andb_false_r.
  rewrite (to_upper_id u (upper_not_lower u Hu)). reflexivity.
Qed.

Lemma hump_cap_word : forall h, is_hump h = true -> cap_word h = true.
Proof. intros [|u [|l r]]; cbn [is_hump cap_word]; try discriminate. auto. Qed.

Lemma pascal_part_lower_word : forall w, forallb is_lower w = true -> pascal_part w = cap w.
Proof.
  intros [|c r]; [reflexivity|]. cbn [forallb pascal_part cap]. intros H.
  apply andb_true_iff in H. destruct H as [_ Hr].
  unfold py_isupper. rewrite (all_lower_no_upper r Hr). cbn [andb]. rewrite andb_false_r. reflexivity.
Qed.

Lemma cap_lower_word_is_cap_word : forall w, lower_word w = true -> cap_word (cap w) = true.
Proof.
  intros [|c r]; [discriminate|]. unfold lower_word. cbn [nonempty andb forallb cap cap_word].
  intros H. apply andb_true_iff in H. destruct H as [H1 H2].
  rewrite (to_upper_lower_is_upper c H1), H2. reflexivity.
Qed.

(* ---- humps ------------------------------------------------------------------------------ *)

Lemma concat_humps : forall s, List.concat (humps s) = s.
Proof.
  induction s as [|c r IH]; [reflexivity|].
  cbn [humps]. destruct r as [|y r']; [reflexivity|].
  destruct (is_upper y).
  - cbn [List.concat app]. rewrite IH. reflexivity.
  - destruct (humps (y :: r')) as [|h hs] eqn:H.
    + rewrite <- IH. reflexivity.
    + cbn [List.concat app] in *. rewrite IH. reflexivity.
Qed.

Lemma is_pascal_humps : forall s, is_pascal s = true ->
  forallb is_hump (humps s) = true /\ humps s <> [] /\ List.concat (humps s) = s.
Proof.
  intros s H. unfold is_pascal in H. apply andb_true_iff in H. destruct H as [Hn Hh].
  split; [exact Hh|]. split; [|apply concat_humps].
  destruct s as [|c r]; [discriminate|]. cbn [humps]. destruct r as [|y r']; [discriminate|].
  destruct (is_upper y); [discriminate|]. destruct (humps (y :: r')); discriminate.
Qed.

Lemma cap_word_no_us : forall w, cap_word w = true -> no_us w = true.
Proof.
  intros [|u r]; [reflexivity|]. cbn [cap_word no_us forallb]. intros H.
  apply andb_true_iff in H. destruct H as [Hu Hr]. rewrite (upper_not_us u Hu). cbn [negb andb].
  apply lower_word_no_us, Hr.
Qed.

Lemma no_us_concat : forall ws, forallb no_us ws = true -> no_us (List.concat ws) = true.
Proof.
  induction ws as [|a r IH]; [reflexivity|]. cbn [forallb List.concat]. intros H.
  apply andb_true_iff in H. destruct H as [H1 H2]. unfold no_us. rewrite forallb_app.
  fold (no_us a). fold (no_us (List.concat r)). rewrite H1, (IH H2). reflexivity.
Qed.

Lemma forallb_impl : forall {A} (p q : A -> bool) l,
  (forall x, p x = true -> q x = true) -> forallb p l = true -> forallb q l = true.
Proof.
  intros A p q l Hpq. induction l as [|a r IH]; [reflexivity|]. cbn [forallb]. intros H.
  apply andb_true_iff in H. destruct H as [H1 H2]. rewrite (Hpq a H1), (IH H2). reflexivity.
Qed.

Lemma concat_map_id : forall (f : str -> str) ws,
  (forall w, In w ws -> f w = w) -> List.concat (map f ws) = List.concat ws.
Proof.
  intros f ws H. induction ws as [|a r IH]; [reflexivity|]. cbn [map List.concat].
  rewrite (H a (or_introl eq_refl)), IH; [reflexivity|]. intros w Hw. apply H. right. exact Hw.
Qed.

(* pascal_case of names joined with "_" is their concatenation, whenever each of the names
   is unchanged by pascal_case on its own and contains no "_" *)
Lemma pascal_case_concat : forall ws,
  forallb no_us ws = true -> (forall w, In w ws -> pascal_part w = w) ->
  pascal_case (join_us ws) = List.concat ws.
Proof. intros ws H1 H2. rewrite pascal_case_join by exact H1. apply concat_map_id, H2. Qed.

Lemma pascal_no_us : forall s, is_pascal s = true -> no_us s = true.
Proof.
  intros s H. destruct (is_pascal_humps s H) as [Hh [_ Hc]]. rewrite <- Hc.
  apply no_us_concat. eapply forallb_impl; [|exact Hh]. intros h Hh'. apply cap_word_no_us, hump_cap_word, Hh'.
Qed.

Lemma pascal_part_pascal : forall s, is_pascal s = true -> pascal_part s = s.
Proof.
  intros s H. destruct (is_pascal_humps s H) as [Hh [Hne Hc]].
  destruct (humps s) as [|h hs] eqn:E; [congruence|].
  cbn [forallb] in Hh. apply andb_true_iff in Hh. destruct Hh as [Hh1 Hh2].
  destruct h as [|u [|l r]]; cbn [is_hump] in Hh1; try discriminate.
  apply andb_true_iff in Hh1. destruct Hh1 as [Hu Hl]. cbn [forallb] in Hl.
  apply andb_true_iff in Hl. destruct Hl as [Hl _].
  rewrite <- Hc. cbn [List.concat app pascal_part].
  unfold py_isupper.
  assert (X : existsb is_lower ((l :: r) ++ List.concat hs) = true).
  { cbn [app existsb]. rewrite Hl. reflexivity. }
  cbn [app] in X. rewrite X. cbn [negb]. rewrite andb_false_r, andb_false_r.
  rewrite (to_upper_id u (upper_not_lower u Hu)). reflexivity.
Qed.

Lemma pascal_case_identity : forall s, is_pascal s = true -> pascal_case s = s.
Proof.
  intros s H. rewrite pascal_case_words, (words_no_us s (pascal_no_us s H)).
  cbn [map List.concat]. rewrite app_nil_r. apply pascal_part_pascal, H.
Qed.

(* ======================================================================================== *)
(* Part 3: snake_case                                                                       *)
(* ======================================================================================== *)

Definition lowdig (c : ascii) : bool := is_lower c || is_digit c.

(* where the two camel passes together put a separator: between x and y when y is a capital
   and (the character after y is a small letter, x not a newline) or (x is a small letter or
   a digit) *)
Definition sep3 (x y : ascii) (zl : bool) : bool :=
  (negb (is_nl x) && is_upper y && zl) || (lowdig x && is_upper y).

Fixpoint ins3 (s : str) : str :=
  match s with
  | [] => []
  | x :: r =>
      match r with
      | [] => [x]
      | y :: r2 => if sep3 x y (first_is is_lower r2) then x :: us :: ins3 r else x :: ins3 r
      end
  end.

Definition b2 (t : str) : str := sub_pair b2_left b2_right t.
Definition P2 (x y : ascii) : bool := lowdig x && is_upper y.

Lemma upper_not_lowdig c : is_upper c = true -> lowdig c = false.
Proof. intros H. unfold lowdig. rewrite (upper_not_lower c H), (upper_not_digit c H). reflexivity. Qed.

Lemma b2_nil : b2 [] = [].
Proof. reflexivity. Qed.
Lemma b2_single x : b2 [x] = [x].
Proof. reflexivity. Qed.

Lemma b2_local : forall x y X,
  b2 (x :: y :: X) = if P2 x y then x :: us :: b2 (y :: X) else x :: b2 (y :: X).
Proof.
  intros x y X. unfold b2 at 1. cbn [sub_pair]. rewrite b2_left_eq, b2_right_eq.
  fold (lowdig x). fold (P2 x y). destruct (P2 x y) eqn:E; [|reflexivity].
  unfold P2 in E. apply andb_true_iff in E. destruct E as [_ Hy].
  unfold b2. destruct X as [|z X']; cbn [sub_pair]; [reflexivity|].
  rewrite (b2_left_eq y). fold (lowdig y). rewrite (upper_not_lowdig y Hy). reflexivity.
Qed.

Lemma sub_b1_eq : forall run t,
  sub_b1 run t =
  match t with
  | [] => []
  | c :: r =>
      if run && is_lower c then c :: sub_b1 true r
      else
        match r with
        | u :: ((l :: _) as r') =>
            if negb (is_nl c) && is_upper u && is_lower l
            then c :: us :: u :: sub_b1 true r'
            else c :: sub_b1 false r
        | _ => c :: sub_b1 false r
        end
  end.
Proof.
  intros run [|c r]; [reflexivity|]. cbn [sub_b1]. rewrite b1_run_eq.
  destruct r as [|u [|l r3]]; try reflexivity. rewrite b1_first_eq, b1_head_eq, b1_run_eq. reflexivity.
Qed.

Lemma sub_b1_head : forall run c r, exists t, sub_b1 run (c :: r) = c :: t.
Proof.
  intros run c r. rewrite sub_b1_eq. destruct (run && is_lower c); [eexists; reflexivity|].
  destruct r as [|u [|l r3]]; try (eexists; reflexivity).
  destruct (negb (is_nl c) && is_upper u && is_lower l); eexists; reflexivity.
Qed.

Lemma us_not_lowdig : lowdig us = false. Proof. reflexivity. Qed.
Lemma us_not_upper' : is_upper us = false. Proof. reflexivity. Qed.

Lemma camel_passes_local : forall n s, (List.length s <= n)%nat -> forall run, b2 (sub_b1 run s) = ins3 s.
Proof.
  induction n as [|n IH]; intros s Hlen run.
  - destruct s; [reflexivity | cbn [List.length] in Hlen; lia].
  - destruct s as [|c r]; [reflexivity|]. cbn [List.length] in Hlen.
    assert (IHr : forall run', b2 (sub_b1 run' r) = ins3 r) by (intros; apply IH; lia).
    rewrite sub_b1_eq.
    destruct (run && is_lower c) eqn:EA.
    + (* inside a greedy run: c is consumed *)
      apply andb_true_iff in EA. destruct EA as [_ Hc].
      destruct r as [|y r2]; [reflexivity|].
      destruct (sub_b1_head true y r2) as [t Ht].
      specialize (IHr true). rewrite Ht in *. rewrite b2_local, IHr.
      cbn [ins3]. unfold sep3, P2, lowdig. rewrite Hc. cbn [orb andb].
      destruct (is_upper y), (first_is is_lower r2), (is_nl c); reflexivity.
    + destruct r as [|u r1]; [reflexivity|].
      assert (NoMatch : b2 (c :: sub_b1 false (u :: r1)) =
                        if P2 c u then c :: us :: ins3 (u :: r1) else c :: ins3 (u :: r1)).
      { destruct (sub_b1_head false u r1) as [t Ht]. specialize (IHr false).
        rewrite Ht in *. rewrite b2_local, IHr. reflexivity. }
      destruct r1 as [|l r3].
      * rewrite NoMatch. cbn [ins3 first_is]. unfold sep3. rewrite andb_false_r. reflexivity.
      * destruct (negb (is_nl c) && is_upper u && is_lower l) eqn:EM.
        -- (* a match: c _ u, then the run starting at l *)
           apply andb_true_iff in EM. destruct EM as [EM Hl]. apply andb_true_iff in EM.
           destruct EM as [Hnl Hu].
           destruct (sub_b1_head true l r3) as [t Ht].
           assert (IH2 : b2 (sub_b1 true (l :: r3)) = ins3 (l :: r3)).
           { apply IH. cbn [List.length] in *. lia. }
           rewrite Ht in *.
           rewrite b2_local. unfold P2 at 1. rewrite us_not_upper', andb_false_r.
           rewrite b2_local. unfold P2 at 1. rewrite us_not_lowdig. cbn [andb].
           rewrite b2_local. unfold P2 at 1. rewrite (lower_not_upper l Hl), andb_false_r.
           rewrite IH2.
           change (ins3 (c :: u :: l :: r3)) with
             (if sep3 c u (first_is is_lower (l :: r3)) then c :: us :: ins3 (u :: l :: r3)
              else c :: ins3 (u :: l :: r3)).
           cbn [first_is]. unfold sep3 at 1. rewrite Hnl, Hu, Hl. cbn [andb orb].
           change (ins3 (u :: l :: r3)) with
             (if sep3 u l (first_is is_lower r3) then u :: us :: ins3 (l :: r3)
              else u :: ins3 (l :: r3)).
           unfold sep3. rewrite (lower_not_upper l Hl), !andb_false_r. reflexivity.
        -- rewrite NoMatch.
           change (ins3 (c :: u :: l :: r3)) with
             (if sep3 c u (first_is is_lower (l :: r3)) then c :: us :: ins3 (u :: l :: r3)
              else c :: ins3 (u :: l :: r3)).
           cbn [first_is]. unfold sep3. fold (P2 c u).
           assert (X : negb (is_nl c) && is_upper u && is_lower l || P2 c u = P2 c u)
             by (rewrite EM; reflexivity).
           rewrite X. reflexivity.
Qed.

Lemma camel_passes : forall t, b2 (sub_b1 false t) = ins3 t.
Proof. intros t. apply (camel_passes_local (List.length t)). lia. Qed.

(* ---- the digit passes do nothing where there is no digit -------------------------------- *)

Definition no_digit (s : str) : bool := forallb (fun c => negb (is_digit c)) s.

Lemma sub_pair_no_right : forall L R t,
  forallb (fun c => negb (in_class R c)) t = true -> sub_pair L R t = t.
Proof.
  intros L R. induction t as [|x r IH]; [reflexivity|]. intros H.
  cbn [forallb] in H. apply andb_true_iff in H. destruct H as [_ Hr].
  cbn [sub_pair]. destruct r as [|y r']; [reflexivity|].
  pose proof Hr as Hr'. cbn [forallb] in Hr'. apply andb_true_iff in Hr'. destruct Hr' as [Hy _].
  apply negb_true_iff in Hy. rewrite Hy, andb_false_r. rewrite (IH Hr). reflexivity.
Qed.

Lemma sub_pair_no_left : forall L R t,
  forallb (fun c => negb (in_class L c)) t = true -> sub_pair L R t = t.
Proof.
  intros L R. induction t as [|x r IH]; [reflexivity|]. intros H.
  cbn [forallb] in H. apply andb_true_iff in H. destruct H as [Hx Hr].
  cbn [sub_pair]. destruct r as [|y r']; [reflexivity|].
  apply negb_true_iff in Hx. rewrite Hx. cbn [andb]. rewrite (IH Hr). reflexivity.
Qed.

Lemma digit_passes_id : forall t, no_digit t = true ->
  sub_pair d2a_left d2a_right (sub_pair a2d_left a2d_right t) = t.
Proof.
  intros t H.
  assert (A : sub_pair a2d_left a2d_right t = t).
  { apply sub_pair_no_right. eapply forallb_impl; [|exact H]. intros c Hc. cbn beta in *.
    rewrite a2d_right_eq. exact Hc. }
  rewrite A. apply sub_pair_no_left. eapply forallb_impl; [|exact H]. intros c Hc. cbn beta in *.
  rewrite d2a_left_eq. exact Hc.
Qed.

Lemma ins3_no_digit : forall t, no_digit t = true -> no_digit (ins3 t) = true.
Proof.
  induction t as [|x r IH]; [reflexivity|]. intros H.
  pose proof H as H'. cbn [no_digit forallb] in H'. apply andb_true_iff in H'. destruct H' as [Hx Hr].
  fold (no_digit r) in Hr. cbn [ins3]. destruct r as [|y r2]; [exact H|].
  destruct (sep3 x y (first_is is_lower r2)); cbn [no_digit forallb]; rewrite Hx; cbn [andb];
    [change (negb (is_digit us)) with true; cbn [andb]|]; apply IH, Hr.
Qed.

Lemma snake_token_no_digit : forall b t, no_digit t = true -> snake_token b t = ins3 t.
Proof.
  intros b t H. unfold snake_token. fold (b2 (sub_b1 false t)). rewrite camel_passes.
  destruct (negb b && negb (all_upper_or_digits (ins3 t))); [|reflexivity].
  apply digit_passes_id, ins3_no_digit, H.
Qed.

(* ---- separators: no leading, trailing or doubled "_" ------------------------------------ *)

Fixpoint nodbl (s : str) : bool :=
  match s with
  | a :: ((b :: _) as r) => negb (is_us a && is_us b) && nodbl r
  | _ => true
  end.
Definition first_ok (s : str) : bool := match s with c :: _ => negb (is_us c) | [] => true end.
Definition last_ok (s : str) : bool := first_ok (rev s).
Definition good (s : str) : bool := nonempty s && first_ok s && last_ok s && nodbl s.

Lemma sub_multi_nodbl : forall s, nodbl s = true -> sub_multi false s = s.
Proof.
  induction s as [|c r IH]; [reflexivity|]. intros H.
  destruct r as [|c2 r'].
  - cbn [sub_multi]. destruct (is_chr multi_char c); reflexivity.
  - cbn [nodbl] in H. apply andb_true_iff in H. destruct H as [H1 H2].
    specialize (IH H2).
    change (sub_multi false (c :: c2 :: r')) with
      (if is_chr multi_char c then
         (if is_chr multi_char c2 then sepc :: sub_multi true (c2 :: r')
          else c :: sub_multi false (c2 :: r'))
       else c :: sub_multi false (c2 :: r')).
    rewrite (multi_eq c), (multi_eq c2). destruct (is_us c) eqn:Ec.
    + cbn [andb] in H1. apply negb_true_iff in H1. rewrite H1, IH. reflexivity.
    + rewrite IH. reflexivity.
Qed.

Lemma drop_while_first_ok : forall s, first_ok s = true -> drop_while (is_chr sep_char) s = s.
Proof.
  intros [|c r]; [reflexivity|]. cbn [first_ok drop_while]. intros H. apply negb_true_iff in H.
  rewrite sep_eq, H. reflexivity.
Qed.

Lemma strip_good : forall s, first_ok s = true -> last_ok s = true -> strip_chr sep_char s = s.
Proof.
  intros s H1 H2. unfold strip_chr. rewrite (drop_while_first_ok s H1).
  rewrite (drop_while_first_ok (rev s) H2). apply rev_involutive.
Qed.

Lemma first_ok_app : forall a b, nonempty a = true -> first_ok (a ++ b) = first_ok a.
Proof. intros [|c r] b; [discriminate|]. reflexivity. Qed.

Lemma last_ok_app : forall a b, nonempty b = true -> last_ok (a ++ b) = last_ok b.
Proof.
  intros a b Hb. unfold last_ok. rewrite rev_app_distr. apply first_ok_app.
  destruct b as [|c r]; [discriminate|]. cbn [rev]. destruct (rev r); reflexivity.
Qed.

Lemma last_ok_cons : forall c r, nonempty r = true -> last_ok (c :: r) = last_ok r.
Proof. intros c r H. change (c :: r) with ([c] ++ r). apply last_ok_app, H. Qed.

Lemma nodbl_join2 : forall a b,
  nodbl a = true -> last_ok a = true -> nonempty a = true ->
  nodbl b = true -> first_ok b = true -> nonempty b = true ->
  nodbl (a ++ us :: b) = true.
Proof.
  induction a as [|x a IH]; [discriminate|]. intros b Ha La _ Hb Fb Nb.
  destruct a as [|y a'].
  - cbn [app nodbl]. unfold last_ok in La. cbn [rev app first_ok] in La. apply negb_true_iff in La.
    rewrite La. cbn [andb negb]. destruct b as [|z b']; [discriminate|].
    cbn [first_ok] in Fb. apply negb_true_iff in Fb. rewrite Fb, andb_false_r. cbn [negb andb]. exact Hb.
  - change ((x :: y :: a') ++ us :: b) with (x :: y :: (a' ++ us :: b)).
    cbn [nodbl] in Ha |- *. apply andb_true_iff in Ha. destruct Ha as [Ha1 Ha2]. rewrite Ha1. cbn [andb].
    change (y :: a' ++ us :: b) with ((y :: a') ++ us :: b).
    apply IH; try assumption; try reflexivity.
    rewrite last_ok_cons in La by reflexivity. exact La.
Qed.

Lemma good_join2 : forall a b, good a = true -> good b = true -> good (a ++ us :: b) = true.
Proof.
  intros a b Ha Hb. unfold good in *.
  repeat (apply andb_true_iff in Ha; destruct Ha as [Ha ?]).
  repeat (apply andb_true_iff in Hb; destruct Hb as [Hb ?]).
  repeat (apply andb_true_iff; split).
  - destruct a; [discriminate|reflexivity].
  - rewrite first_ok_app by assumption. assumption.
  - rewrite last_ok_app by reflexivity. rewrite last_ok_cons by assumption. assumption.
  - apply nodbl_join2; assumption.
Qed.

Lemma good_join : forall ws, ws <> [] -> forallb good ws = true -> good (join_us ws) = true.
Proof.
  induction ws as [|a r IH]; [congruence|]. intros _ H. cbn [forallb] in H.
  apply andb_true_iff in H. destruct H as [Ha Hr]. destruct r as [|b r'].
  - exact Ha.
  - rewrite join_us_cons2. apply good_join2; [exact Ha|]. apply IH; [congruence|exact Hr].
Qed.

Definition letters (t : str) : bool := nonempty t && forallb is_letter t.

Lemma letter_not_us c : is_letter c = true -> is_us c = false.
Proof.
  unfold is_letter. intros H. apply orb_true_iff in H. destruct H as [H|H];
    [apply upper_not_us|apply lower_not_us]; exact H.
Qed.
Lemma letter_not_digit c : is_letter c = true -> is_digit c = false.
Proof.
  unfold is_letter. intros H. apply orb_true_iff in H. destruct H as [H|H];
    [apply upper_not_digit|apply lower_not_digit]; exact H.
Qed.
Lemma letter_not_dash c : is_letter c = true -> is_chr dash_char c = false.
Proof.
  unfold is_letter. intros H. apply orb_true_iff in H. destruct H as [H|H];
    [apply upper_not_dash|apply lower_not_dash]; exact H.
Qed.

Lemma ins3_head : forall c r, exists t, ins3 (c :: r) = c :: t.
Proof.
  intros c r. cbn [ins3]. destruct r as [|y r2]; [eexists; reflexivity|].
  destruct (sep3 c y (first_is is_lower r2)); eexists; reflexivity.
Qed.

Lemma nodbl_cons2 : forall a b r, nodbl (a :: b :: r) = negb (is_us a && is_us b) && nodbl (b :: r).
Proof. reflexivity. Qed.

Lemma ins3_good : forall t, letters t = true -> good (ins3 t) = true.
Proof.
  assert (G : forall t, forallb is_letter t = true -> t <> [] ->
              nonempty (ins3 t) = true /\ first_ok (ins3 t) = true /\ last_ok (ins3 t) = true /\
              nodbl (ins3 t) = true).
  { induction t as [|x r IH]; [congruence|]. intros H _.
    cbn [forallb] in H. apply andb_true_iff in H. destruct H as [Hx Hr].
    pose proof (letter_not_us x Hx) as Ux.
    destruct r as [|y r2].
    - cbn [ins3]. unfold last_ok. cbn [nonempty first_ok rev app nodbl]. rewrite Ux. auto.
    - destruct (IH Hr) as [I1 [I2 [I3 I4]]]; [congruence|].
      destruct (ins3_head y r2) as [t Ht].
      pose proof Hr as Hr'. cbn [forallb] in Hr'. apply andb_true_iff in Hr'. destruct Hr' as [Hy _].
      pose proof (letter_not_us y Hy) as Uy.
      change (ins3 (x :: y :: r2)) with
        (if sep3 x y (first_is is_lower r2) then x :: us :: ins3 (y :: r2) else x :: ins3 (y :: r2)).
      rewrite Ht in *.
      destruct (sep3 x y (first_is is_lower r2)).
      + repeat split.
        * cbn [first_ok]. rewrite Ux. reflexivity.
        * rewrite last_ok_cons by reflexivity. rewrite last_ok_cons by reflexivity. exact I3.
        * rewrite !nodbl_cons2. rewrite Ux, Uy. cbn [andb negb]. rewrite andb_false_r. cbn [negb andb]. exact I4.
      + repeat split.
        * cbn [first_ok]. rewrite Ux. reflexivity.
        * rewrite last_ok_cons by reflexivity. exact I3.
        * rewrite nodbl_cons2. rewrite Ux. cbn [andb negb]. exact I4. }
  intros t H. unfold letters in H. apply andb_true_iff in H. destruct H as [Hn Hl].
  destruct (G t Hl) as [A [B [C D]]]; [destruct t; [discriminate|congruence]|].
  unfold good. rewrite A, B, C, D. reflexivity.
Qed.

Lemma ins3_no_us_words : forall t, letters t = true -> nonempty (ins3 t) = true.
Proof.
  intros t H. pose proof (ins3_good t H) as G. unfold good in G.
  repeat (apply andb_true_iff in G; destruct G as [G ?]). exact G.
Qed.
