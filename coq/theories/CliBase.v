(* CliBase.v — vocabulary shared by the GENERATED gen/GenCli.v (translated from
   compiler/bitproto/{_main,parser,linter,lexer,utils}.py and the renderers) and the
   hand-written models Main.v / Lint.v.  Only types and tiny helpers live here. *)
From Coq Require Import ZArith List String Bool.
Import ListNotations.
Open Scope string_scope.

(* ---- command line -------------------------------------------------------------- *)
Inductive language := LC | LGo | LPy.
Inductive byteorder := EBoth | ELittle | EBig.

(* The parameters of _main.main() that influence control flow or are passed on.
   `lang_` is Python's `lang: str` (None = "" = falsy); `filter_messages` is
   Optional[List[str]] exactly as run_bitproto() builds it. *)
Record args := mkArgs {
  lang_ : option language;
  disable_linter : bool;
  check : bool;
  enable_optimize : bool;
  filter_messages : option (list string);
  endian_ : byteorder }.

(* Python truthiness of Optional[List[str]] and Optional[language] *)
Definition truthy_list {A} (o : option (list A)) : bool :=
  match o with Some (_ :: _) => true | _ => false end.
Definition truthy_opt {A} (o : option A) : bool :=
  match o with Some _ => true | None => false end.

Inductive exn_class := ExParserError | ExIOError | ExRendererError | ExOther.
Inductive parse_outcome := POk | PRaise (e : exn_class).
Inductive render_outcome := ROk | RRaise (e : exn_class).

(* what render() is called with (the keyword plumbing of _main.main) *)
Record render_req := mkReq {
  rr_lang : option language;
  rr_opt : bool;
  rr_filter : option (list string);
  rr_endian : byteorder }.

(* what fatal() prints before os._exit(code) *)
Inductive fatal_msg :=
| MsgNone                       (* fatal()                      : nothing printed *)
| MsgErrorColored               (* fatal(error.colored())       : "error: ..." in red *)
| MsgErrorStr                   (* fatal(str(error))            : OS error text *)
| MsgNoLanguage                 (* fatal(str(NoLanguageArgument())) *)
| MsgLit (s : string).          (* fatal("literal") *)

Inductive action :=
| AFatal (m : fatal_msg) (code : Z)        (* process ends through utils.fatal *)
| AUncaught (e : exn_class)                (* exception leaves main(): traceback, exit 1 *)
| AReturn (rendered : option render_req).  (* main() returns: exit status 0 *)

Definition exit_code (a : action) : Z :=
  match a with AFatal _ c => c | AUncaught _ => 1 | AReturn _ => 0 end.
(* what the parent process observes: os._exit / sys.exit keep the low 8 bits of the code *)
Definition process_status (a : action) : Z := exit_code a mod 256.
Definition rendered_of (a : action) : option render_req :=
  match a with AReturn r => r | _ => None end.

(* ---- definitions of one proto, as the linter and the renderers see them --------- *)
Inductive defkind :=
  KAlias | KConstant | KEnum | KEnumField | KMessage | KMessageField | KOption | KProto.

Definition defkind_eqb (a b : defkind) : bool :=
  match a, b with
  | KAlias, KAlias | KConstant, KConstant | KEnum, KEnum | KEnumField, KEnumField
  | KMessage, KMessage | KMessageField, KMessageField | KOption, KOption | KProto, KProto => true
  | _, _ => false
  end.

Lemma defkind_eqb_eq a b : defkind_eqb a b = true <-> a = b.
Proof. destruct a, b; cbn; split; intro H; try reflexivity; try discriminate. Qed.

(* tests the lint rules apply (linter.py), recognised by shape by the translator *)
Inductive lint_test :=
| TIndent          (* RuleDefinitionIndent *)
| TPascalNe        (* name != pascal_case(name) *)
| TSnakeNe         (* name != snake_case(name) *)
| TNotUpper        (* not name.isupper() *)
| TNoZeroField.    (* no field with value == 0 *)
