(* LRProofs.v — generic theorems about the LR driver model, for ANY grammar / tables / hints
   accepted by the executable validator:
     lr_sound        accepted  =>  the reductions are a bottom-up derivation of the input
     lr_safe         no Python IndexError / KeyError out of the loop
     lr_terminates   fuel [lr_bound W R (length ts)] always suffices (validated ranking)
     lr_error_prefix a syntax error cites the first token after a correctly reduced prefix *)
From Coq Require Import List Arith Bool Lia.
From BP Require Import LR.
Import ListNotations.

(* ------------------------------------------------------------------------------------ *)
(* small facts                                                                            *)
(* ------------------------------------------------------------------------------------ *)

Lemma symbol_eqb_eq : forall a b, symbol_eqb a b = true -> a = b.
Proof.
  intros [x|x] [y|y] E; cbn in E; try discriminate; apply Nat.eqb_eq in E; subst; reflexivity.
Qed.

Lemma osym_eqb_eq : forall a b, osym_eqb a b = true -> a = b.
Proof.
  intros [a|] [b|] E; cbn in E; try discriminate; try reflexivity.
  apply symbol_eqb_eq in E. subst. reflexivity.
Qed.

Lemma assoc_In : forall (A : Type) k (l : list (nat * A)) v, assoc k l = Some v -> In (k, v) l.
Proof.
  induction l as [|[k' v'] r IH]; cbn; intros v E; [discriminate|].
  destruct (Nat.eqb k k') eqn:K.
  - apply Nat.eqb_eq in K. inversion E. subst. left. reflexivity.
  - right. apply IH. exact E.
Qed.

Lemma mem_In : forall x l, mem x l = true -> In x l.
Proof.
  unfold mem. intros x l E. apply existsb_exists in E. destruct E as [y [I E]].
  apply Nat.eqb_eq in E. subst. exact I.
Qed.

Lemma subset_spec : forall a b, subset a b = true -> forall x, In x a -> In x b.
Proof.
  unfold subset. intros a b E x I. rewrite forallb_forall in E. apply mem_In. apply E. exact I.
Qed.

Fixpoint claims (lv : list (list nat)) (stk : list nat) : Prop :=
  match lv with
  | [] => True
  | l :: lv' => match stk with
                | [] => False
                | q :: stk' => In q l /\ claims lv' stk'
                end
  end.

Lemma claims_weaken : forall cl av stk, levels_ok cl av = true -> claims av stk -> claims cl stk.
Proof.
  induction cl as [|c cs IH]; intros av stk E C; cbn; [exact I|].
  destruct av as [|a avs]; cbn in E; [discriminate|].
  apply andb_true_iff in E. destruct E as [E1 E2].
  cbn in C. destruct stk as [|q stk']; [exact C|]. destruct C as [C1 C2].
  split; [eapply subset_spec; eauto | eapply IH; eauto].
Qed.

(* ------------------------------------------------------------------------------------ *)
(* derivations                                                                            *)
(* ------------------------------------------------------------------------------------ *)

Lemma derives_app : forall G a w1, derives G a w1 -> forall b w2, derives G b w2 ->
  derives G (a ++ b) (w1 ++ w2).
Proof.
  induction 1; intros b wb Hb; cbn.
  - exact Hb.
  - constructor. apply IHderives. exact Hb.
  - rewrite <- app_assoc. econstructor; eauto.
Qed.

Lemma derives_split : forall G a b w, derives G (a ++ b) w ->
  exists w1 w2, w = w1 ++ w2 /\ derives G a w1 /\ derives G b w2.
Proof.
  induction a as [|X a IH]; cbn; intros b w D.
  - exists [], w. repeat split; [constructor | exact D].
  - inversion D; subst.
    + match goal with F : derives G (a ++ b) _ |- _ => destruct (IH _ _ F) as [u1 [u2 [E [D1 D2]]]] end. subst.
      exists (t :: u1), u2. repeat split; [constructor; exact D1 | exact D2].
    + match goal with F : derives G (a ++ b) _ |- _ => destruct (IH _ _ F) as [u1 [u2 [E [D1 D2]]]] end. subst.
      exists (w1 ++ u1), u2. repeat split; [apply app_assoc | econstructor; eauto | exact D2].
Qed.

Theorem sr_derives : forall G st w rs, sr G st w rs -> derives G (rev st) w.
Proof.
  induction 1; cbn.
  - constructor.
  - apply derives_app; [exact IHsr | repeat constructor].
  - rewrite rev_app_distr, rev_involutive in IHsr.
    destruct (derives_split _ _ _ _ IHsr) as [w1 [w2 [E [D1 D2]]]]. subst.
    apply derives_app; [exact D1|].
    rewrite <- (app_nil_r w2). econstructor; eauto. constructor.
Qed.

Lemma all_terms_map : forall v, all_terms (map T v) = Some v.
Proof. induction v as [|t v IH]; cbn; [reflexivity | rewrite IH; reflexivity]. Qed.

Lemma split_last_nt_terms : forall v, split_last_nt (map T v) = None.
Proof. induction v as [|t v IH]; cbn; [reflexivity | rewrite IH; reflexivity]. Qed.

Lemma split_last_nt_spec : forall pre A v, split_last_nt (pre ++ NT A :: map T v) = Some (pre, A, v).
Proof.
  induction pre as [|X pre IH]; intros A v.
  - cbn [app split_last_nt]. rewrite split_last_nt_terms, all_terms_map. reflexivity.
  - cbn [app split_last_nt]. rewrite IH. reflexivity.
Qed.

Lemma sr_rm_expand : forall G st w rs, sr G st w rs ->
  forall v, rm_expand G (rev rs) (rev st ++ map T v) = Some (map T (w ++ v)).
Proof.
  induction 1; intro v.
  - reflexivity.
  - cbn [rev]. rewrite <- !app_assoc. cbn [app]. exact (IHsr (t :: v)).
  - rewrite rev_app_distr. cbn [rev app rm_expand]. rewrite H.
    rewrite <- app_assoc. cbn [app]. rewrite split_last_nt_spec, Nat.eqb_refl.
    specialize (IHsr v). rewrite rev_app_distr, rev_involutive, <- app_assoc in IHsr. exact IHsr.
Qed.

Lemma list_nat_eqb_refl : forall l, list_nat_eqb l l = true.
Proof. induction l as [|x l IH]; cbn; [reflexivity | rewrite Nat.eqb_refl, IH; reflexivity]. Qed.

Theorem sr_rm_check : forall G start ts rs, sr G [NT start] ts rs -> rm_check G start rs ts = true.
Proof.
  intros G start ts rs D. unfold rm_check.
  pose proof (sr_rm_expand _ _ _ _ D []) as E. cbn [rev app map] in E. rewrite E.
  rewrite app_nil_r, all_terms_map. apply list_nat_eqb_refl.
Qed.

(* ------------------------------------------------------------------------------------ *)
(* "every a is immediately followed by b": a property of all words of a grammar            *)
(* ------------------------------------------------------------------------------------ *)

Fixpoint followed (a b : nat) (w : list nat) : bool :=
  match w with
  | [] => true
  | x :: r => (if Nat.eqb x a then match r with y :: _ => Nat.eqb y b | [] => false end else true)
              && followed a b r
  end.

Fixpoint followed_form (a b : nat) (f : list symbol) : bool :=
  match f with
  | [] => true
  | X :: r => (match X with
               | T x => if Nat.eqb x a then match r with T y :: _ => Nat.eqb y b | _ => false end else true
               | NT _ => true
               end) && followed_form a b r
  end.

Definition grammar_followed (a b : nat) (G : grammar) : bool :=
  forallb (fun p => followed_form a b (snd p)) G.

Lemma followed_app : forall a b w1 w2, followed a b w1 = true -> followed a b w2 = true ->
  followed a b (w1 ++ w2) = true.
Proof.
  induction w1 as [|x r IH]; intros w2 F1 F2; [exact F2|].
  cbn [followed app] in *. apply andb_true_iff in F1. destruct F1 as [F1 F1'].
  apply andb_true_iff. split; [|apply IH; assumption].
  destruct (Nat.eqb x a); [|reflexivity]. destruct r as [|y r']; [discriminate|]. exact F1.
Qed.

Lemma followed_last : forall a b w, followed a b (w ++ [a]) = false.
Proof.
  induction w as [|x r IH]; cbn [app followed].
  - rewrite Nat.eqb_refl. reflexivity.
  - rewrite IH. apply andb_false_r.
Qed.

Lemma derives_tok_inv : forall G y ss w, derives G (T y :: ss) w -> exists w', w = y :: w' /\ derives G ss w'.
Proof. intros G y ss w D. inversion D; subst. eauto. Qed.

Theorem derives_followed : forall G a b, grammar_followed a b G = true ->
  forall form w, derives G form w -> followed_form a b form = true -> followed a b w = true.
Proof.
  intros G a b GF. induction 1 as [|t ss w D IH|A p rhs ss w1 w2 Hp D1 IH1 D2 IH2]; intro F.
  - reflexivity.
  - cbn [followed_form] in F. apply andb_true_iff in F. destruct F as [F1 F2].
    cbn [followed]. apply andb_true_iff. split; [|apply IH; exact F2].
    destruct (Nat.eqb t a); [|reflexivity].
    destruct ss as [|[y|y] ss']; try discriminate.
    destruct (derives_tok_inv _ _ _ _ D) as [w' [E _]]. subst w. exact F1.
  - cbn [followed_form] in F. apply followed_app.
    + apply IH1. unfold grammar_followed in GF. rewrite forallb_forall in GF.
      exact (GF _ (nth_error_In _ _ Hp)).
    + apply IH2. exact F.
Qed.

(* ------------------------------------------------------------------------------------ *)
(* the invariant                                                                          *)
(* ------------------------------------------------------------------------------------ *)

Section Validated.

Variable G : grammar.
Variable TB : tables.
Variable H : hints.
Hypothesis Hval : validate G TB H = true.

Let n := length (t_action TB).

Lemma validate_facts : exists start,
  start_of G = Some start /\ 0 < n /\ incoming H 0 = None /\ past H 0 = [] /\
  forall s, s < n -> state_ok G TB H n start s = true.
Proof.
  pose proof Hval as V. unfold validate in V. fold n in V.
  destruct (start_of G) as [start|]; [|discriminate]. exists start.
  repeat (apply andb_true_iff in V; destruct V as [V ?]).
  repeat split.
  - apply Nat.ltb_lt. assumption.
  - apply osym_eqb_eq. assumption.
  - destruct (past H 0); [reflexivity | discriminate].
  - intros s Hs. match goal with F : forallb _ _ = true |- _ => rewrite forallb_forall in F; apply F end.
    apply in_seq. lia.
Qed.

Inductive stack_rel : list nat -> list symbol -> Prop :=
| srel_bot : stack_rel [0] []
| srel_push : forall s X stk syms, incoming H s = Some X -> s <> 0 -> s < n ->
    claims (past H s) stk -> stack_rel stk syms -> stack_rel (s :: stk) (X :: syms).

Lemma stack_rel_top : forall s stk syms, stack_rel (s :: stk) syms -> s < n /\ claims (past H s) stk.
Proof.
  intros s stk syms R. destruct validate_facts as [st [_ [Hn [_ [P0 _]]]]].
  inversion R; subst.
  - rewrite P0. split; [exact Hn | exact I].
  - split; assumption.
Qed.

Lemma push_ok : forall s stk syms X s', stack_rel (s :: stk) syms ->
  target_ok n H s X s' = true -> stack_rel (s' :: s :: stk) (X :: syms).
Proof.
  intros s stk syms X s' R E. unfold target_ok in E.
  repeat (apply andb_true_iff in E; destruct E as [E ?]).
  destruct (stack_rel_top _ _ _ R) as [Hs Hc].
  constructor.
  - apply osym_eqb_eq. assumption.
  - match goal with F : negb _ = true |- _ => apply negb_true_iff in F; apply Nat.eqb_neq in F; exact F end.
  - apply Nat.ltb_lt. assumption.
  - eapply claims_weaken; [eassumption|]. cbn. split; [left; reflexivity | exact Hc].
  - exact R.
Qed.

Lemma reduce_pop : forall A rrhs lv stk syms,
  stack_rel stk syms -> claims lv stk -> reduce_ok TB H A rrhs lv = true ->
  exists syms' q below,
    skipn (length rrhs) stk = q :: below /\ syms = rrhs ++ syms' /\
    stack_rel (q :: below) syms' /\
    (exists l, nth_error lv (length rrhs) = Some l /\ In q l) /\
    has_goto TB A q = true.
Proof.
  destruct validate_facts as [st [_ [_ [I0 _]]]].
  intros A. induction rrhs as [|X rr IH]; intros lv stk syms R C E.
  - destruct lv as [|l lv']; cbn in E; [discriminate|].
    cbn in C. destruct stk as [|q below]; [contradiction|]. destruct C as [C1 _].
    exists syms, q, below. cbn. repeat split; try assumption.
    + exists l. split; [reflexivity | exact C1].
    + rewrite forallb_forall in E. apply E. exact C1.
  - destruct lv as [|l lv']; cbn in E; [discriminate|].
    apply andb_true_iff in E. destruct E as [E1 E2].
    cbn in C. destruct stk as [|q below]; [contradiction|]. destruct C as [C1 C2].
    rewrite forallb_forall in E1. specialize (E1 _ C1). apply osym_eqb_eq in E1.
    inversion R; subst.
    + rewrite I0 in E1. discriminate.
    + match goal with F : incoming H q = Some _ |- _ => rewrite F in E1; inversion E1; subst end.
      match goal with F : stack_rel below _ |- _ => destruct (IH _ _ _ F C2 E2) as [syms' [q' [below' [S1 [S2 [S3 [[l' [S4 S5]] S6]]]]]]] end.
      exists syms', q', below'. cbn [length skipn nth_error]. subst.
      repeat split; try assumption. exists l'. split; assumption.
Qed.

Lemma do_reduce_ok : forall s stk syms t p la rest pos out,
  stack_rel (s :: stk) syms -> In (t, Reduce p) (row TB s) ->
  exists A rhs syms0 q below s',
    nth_error G p = Some (A, rhs) /\ nth_error (t_prod TB) p = Some (A, length rhs) /\
    syms = rev rhs ++ syms0 /\ skipn (length rhs) (s :: stk) = q :: below /\
    goto_of TB q A = Some s' /\
    (exists l, nth_error ([s] :: past H s) (length rhs) = Some l /\ In q l) /\
    stack_rel (s' :: q :: below) (NT A :: syms0) /\
    do_reduce TB p (s :: stk) la rest pos out = inl (mk_conf (s' :: q :: below) la rest pos (p :: out)).
Proof.
  intros s stk syms t p la rest pos out R I.
  destruct validate_facts as [st [_ [_ [_ [_ SO]]]]].
  destruct (stack_rel_top _ _ _ R) as [Hs Hc].
  pose proof (SO _ Hs) as S. unfold state_ok in S. apply andb_true_iff in S. destruct S as [S _].
  rewrite forallb_forall in S. specialize (S _ I). cbn in S.
  destruct (nth_error G p) as [[A rhs]|] eqn:EG; [|discriminate].
  destruct (nth_error (t_prod TB) p) as [[A' k]|] eqn:EP; [|discriminate].
  repeat (apply andb_true_iff in S; destruct S as [S ?]).
  apply Nat.eqb_eq in S. match goal with F : (k =? _) = true |- _ => apply Nat.eqb_eq in F; subst k end. subst A'.
  assert (C : claims ([s] :: past H s) (s :: stk)) by (cbn; split; [left; reflexivity | exact Hc]).
  match goal with F : reduce_ok _ _ _ _ _ = true |- _ =>
    destruct (reduce_pop _ _ _ _ _ R C F) as [syms0 [q [below [S1 [S2 [S3 [S4 S5]]]]]]] end.
  rewrite rev_length in S1, S4.
  unfold has_goto in S5. destruct (goto_of TB q A) as [s'|] eqn:EGo; [|discriminate].
  exists A, rhs, syms0, q, below, s'.
  assert (Rn : stack_rel (s' :: q :: below) (NT A :: syms0)).
  { destruct (stack_rel_top _ _ _ S3) as [Hq _].
    pose proof (SO _ Hq) as Sq. unfold state_ok in Sq. apply andb_true_iff in Sq. destruct Sq as [_ Sq].
    rewrite forallb_forall in Sq. specialize (Sq _ (assoc_In _ _ _ _ EGo)). cbn in Sq.
    apply push_ok; assumption. }
  repeat split; try assumption.
  unfold do_reduce. rewrite EP, S1, EGo. reflexivity.
Qed.

Lemma defaulted_In : forall s p, defaulted TB s = Some p -> exists t, row TB s = [(t, Reduce p)].
Proof.
  unfold defaulted. intros s p E. destruct (row TB s) as [|[t [s'|p'|]] [|x r]]; try discriminate.
  inversion E. subst. exists t. reflexivity.
Qed.

(* tokens not yet shifted *)
Definition pend (la : look) (rest : list nat) : list nat :=
  match la with Tok t => t :: rest | _ => rest end.

Definition fetched (la : look) : nat := match la with Tok _ => 1 | _ => 0 end.

Definition Inv (ts : list nat) (c : conf) : Prop :=
  exists syms consumed,
    stack_rel (c_stack c) syms /\ sr G syms consumed (rev (c_out c)) /\
    ts = consumed ++ pend (c_look c) (c_rest c) /\
    (c_look c = Eof -> c_rest c = []) /\
    c_pos c = length consumed + fetched (c_look c).

Lemma fetch_spec : forall la rest pos la' rest' pos',
  fetch la rest pos = (la', rest', pos') -> (la = Eof -> rest = []) ->
  pend la' rest' = pend la rest /\ la' <> NoLook /\ (la' = Eof -> rest' = []) /\
  pos' + fetched la = pos + fetched la'.
Proof.
  intros la rest pos la' rest' pos' F E. destruct la; cbn in F.
  - destruct rest as [|t r]; inversion F; subst; cbn; repeat split; try discriminate; try reflexivity; lia.
  - inversion F; subst. repeat split; try discriminate; try reflexivity.
  - inversion F; subst. repeat split; try discriminate; try reflexivity. exact E.
Qed.

Lemma init_inv : forall ts, Inv ts (init ts).
Proof.
  intro ts. exists [], []. cbn. repeat split; try discriminate; constructor.
Qed.

Lemma step_inv : forall ts c c', Inv ts c -> step TB c = inl c' -> Inv ts c'.
Proof.
  intros ts c c' [syms [consumed [R [D [E [Ee Ep]]]]]] S.
  destruct validate_facts as [st [_ [_ [_ [_ SO]]]]].
  unfold step in S. destruct (c_stack c) as [|s stk] eqn:Es; [discriminate|].
  destruct (defaulted TB s) as [p|] eqn:Ed.
  - destruct (defaulted_In _ _ Ed) as [t Er].
    assert (I : In (t, Reduce p) (row TB s)) by (rewrite Er; left; reflexivity).
    destruct (do_reduce_ok _ _ _ _ _ (c_look c) (c_rest c) (c_pos c) (c_out c) R I)
      as [A [rhs [syms0 [q [below [s' [G1 [G2 [G3 [G4 [G5 [G6 [G7 G8]]]]]]]]]]]]].
    rewrite G8 in S. inversion S; subst c'. exists (NT A :: syms0), consumed. cbn.
    repeat split; try assumption. subst syms. econstructor; eassumption.
  - destruct (fetch (c_look c) (c_rest c) (c_pos c)) as [[la rest] pos] eqn:Ef.
    destruct (fetch_spec _ _ _ _ _ _ Ef Ee) as [F1 [F2 [F3 F4]]].
    destruct (action_of TB s (look_type la)) as [[s'|p|]|] eqn:Ea; try discriminate.
    + (* shift *)
      inversion S; subst c'. clear S.
      pose proof (assoc_In _ _ _ _ Ea) as I.
      destruct (stack_rel_top _ _ _ R) as [Hs _].
      pose proof (SO _ Hs) as So. unfold state_ok in So. apply andb_true_iff in So. destruct So as [So _].
      rewrite forallb_forall in So. specialize (So _ I). cbn in So.
      apply andb_true_iff in So. destruct So as [So1 So2].
      apply negb_true_iff in So1. apply Nat.eqb_neq in So1.
      destruct la as [|t|]; [contradiction | | cbn in So1; contradiction].
      cbn [look_type] in *.
      exists (T t :: syms), (consumed ++ [t]). cbn.
      repeat split; try discriminate.
      * apply push_ok; assumption.
      * constructor. exact D.
      * rewrite <- app_assoc. cbn. rewrite E, <- F1. reflexivity.
      * rewrite app_length. cbn in *. lia.
    + (* reduce *)
      pose proof (assoc_In _ _ _ _ Ea) as I.
      destruct (do_reduce_ok _ _ _ _ _ la rest pos (c_out c) R I)
        as [A [rhs [syms0 [q [below [s' [G1 [G2 [G3 [G4 [G5 [G6 [G7 G8]]]]]]]]]]]]].
      rewrite G8 in S. inversion S; subst c'. exists (NT A :: syms0), consumed. cbn.
      repeat split; try assumption.
      * subst syms. econstructor; eassumption.
      * rewrite F1. exact E.
      * lia.
Qed.

Lemma step_no_crash : forall ts c e rs, Inv ts c -> step TB c <> inr (Crash e rs).
Proof.
  intros ts c e rs [syms [consumed [R [D [E [Ee Ep]]]]]] S.
  unfold step in S. destruct (c_stack c) as [|s stk] eqn:Es; [inversion R|].
  destruct (defaulted TB s) as [p|] eqn:Ed.
  - destruct (defaulted_In _ _ Ed) as [t Er].
    assert (I : In (t, Reduce p) (row TB s)) by (rewrite Er; left; reflexivity).
    destruct (do_reduce_ok _ _ _ _ _ (c_look c) (c_rest c) (c_pos c) (c_out c) R I)
      as [A [rhs [syms0 [q [below [s' [_ [_ [_ [_ [_ [_ [_ G8]]]]]]]]]]]]].
    rewrite G8 in S. discriminate.
  - destruct (fetch (c_look c) (c_rest c) (c_pos c)) as [[la rest] pos] eqn:Ef.
    destruct (action_of TB s (look_type la)) as [[s'|p|]|] eqn:Ea; try discriminate.
    pose proof (assoc_In _ _ _ _ Ea) as I.
    destruct (do_reduce_ok _ _ _ _ _ la rest pos (c_out c) R I)
      as [A [rhs [syms0 [q [below [s' [_ [_ [_ [_ [_ [_ [_ G8]]]]]]]]]]]]].
    rewrite G8 in S. discriminate.
Qed.

Lemma step_accept : forall ts c rs start, start_of G = Some start -> Inv ts c -> ~ In eof ts ->
  step TB c = inr (Accept rs) -> sr G [NT start] ts rs.
Proof.
  intros ts c rs start Hst [syms [consumed [R [D [E [Ee Ep]]]]]] N0 S.
  destruct validate_facts as [st [Hst' [_ [_ [_ SO]]]]].
  rewrite Hst in Hst'. inversion Hst'; subst st. clear Hst'.
  unfold step in S. destruct (c_stack c) as [|s stk] eqn:Es; [discriminate|].
  destruct (defaulted TB s) as [p|] eqn:Ed.
  - destruct (defaulted_In _ _ Ed) as [t Er].
    assert (I : In (t, Reduce p) (row TB s)) by (rewrite Er; left; reflexivity).
    destruct (do_reduce_ok _ _ _ _ _ (c_look c) (c_rest c) (c_pos c) (c_out c) R I)
      as [A [rhs [syms0 [q [below [s' [_ [_ [_ [_ [_ [_ [_ G8]]]]]]]]]]]]].
    rewrite G8 in S. discriminate.
  - destruct (fetch (c_look c) (c_rest c) (c_pos c)) as [[la rest] pos] eqn:Ef.
    destruct (fetch_spec _ _ _ _ _ _ Ef Ee) as [F1 [F2 [F3 F4]]].
    destruct (action_of TB s (look_type la)) as [[s'|p|]|] eqn:Ea; try discriminate.
    + pose proof (assoc_In _ _ _ _ Ea) as I.
      destruct (do_reduce_ok _ _ _ _ _ la rest pos (c_out c) R I)
        as [A [rhs [syms0 [q [below [s' [_ [_ [_ [_ [_ [_ [_ G8]]]]]]]]]]]]].
      rewrite G8 in S. discriminate.
    + inversion S; subst rs. clear S.
      pose proof (assoc_In _ _ _ _ Ea) as I.
      destruct (stack_rel_top _ _ _ R) as [Hs Hc].
      pose proof (SO _ Hs) as So. unfold state_ok in So. apply andb_true_iff in So. destruct So as [So _].
      rewrite forallb_forall in So. specialize (So _ I). cbn in So.
      repeat (apply andb_true_iff in So; destruct So as [So ?]).
      apply Nat.eqb_eq in So.
      match goal with F : osym_eqb _ _ = true |- _ => apply osym_eqb_eq in F; rename F into Inc end.
      destruct (past H s) as [|[|z l0] lv]; try discriminate.
      destruct z; [|discriminate]. destruct l0; [|discriminate].
      cbn in Hc. destruct stk as [|q stk']; [contradiction|]. destruct Hc as [[Hq|[]] _]. subst q.
      (* the stack is [s; 0] *)
      subst ts.
      inversion R; subst.
      match goal with F : stack_rel (0 :: stk') _ |- _ => inversion F; subst end;
        [| match goal with F : 0 <> 0 |- _ => contradiction F; reflexivity end].
      match goal with F : incoming H s = Some _ |- _ => rewrite F in Inc; inversion Inc; subst end.
      (* everything is consumed *)
      assert (P : pend la rest = []).
      { destruct la as [|t|]; [contradiction | | cbn; apply F3; reflexivity].
        cbn [look_type] in So. subst t. exfalso. apply N0. rewrite <- F1. cbn.
        apply in_or_app. right. left. reflexivity. }
      rewrite <- F1, P, app_nil_r. exact D.
Qed.

(* ------------------------------------------------------------------------------------ *)
(* theorems                                                                               *)
(* ------------------------------------------------------------------------------------ *)

Lemma run_inv_accept : forall ts start fuel c rs, start_of G = Some start -> ~ In eof ts ->
  Inv ts c -> run TB fuel c = Accept rs -> sr G [NT start] ts rs.
Proof.
  intros ts start. induction fuel as [|f IH]; intros c rs Hst N0 I Rn; cbn in Rn; [discriminate|].
  destruct (step TB c) as [c'|r] eqn:S.
  - exact (IH c' rs Hst N0 (step_inv _ _ _ I S) Rn).
  - subst r. eapply step_accept; eauto.
Qed.

Theorem lr_sound : forall start fuel ts rs, start_of G = Some start -> ~ In eof ts ->
  lr_run TB fuel ts = Accept rs -> sr G [NT start] ts rs.
Proof.
  intros start fuel ts rs Hst N0 Rn. eapply run_inv_accept; eauto. apply init_inv.
Qed.

Lemma run_no_crash : forall ts fuel c e rs, Inv ts c -> run TB fuel c <> Crash e rs.
Proof.
  intros ts. induction fuel as [|f IH]; intros c e rs I Rn; cbn in Rn; [discriminate|].
  destruct (step TB c) as [c'|r] eqn:S.
  - eapply IH; [eapply step_inv; eauto | exact Rn].
  - subst r. eapply step_no_crash; eauto.
Qed.

Theorem lr_safe : forall fuel ts e rs, lr_run TB fuel ts <> Crash e rs.
Proof. intros fuel ts e rs. eapply run_no_crash. apply init_inv. Qed.

(* a syntax error: everything before the cited token was consumed and correctly reduced *)
Lemma step_error : forall ts c idx tok rs, Inv ts c -> step TB c = inr (SyntaxError idx tok rs) ->
  (exists syms, sr G syms (firstn idx ts) rs) /\
  (nth_error ts idx = Some tok \/ (idx = length ts /\ tok = eof)).
Proof.
  intros ts c idx tok rs [syms [consumed [R [D [E [Ee Ep]]]]]] S.
  unfold step in S. destruct (c_stack c) as [|s stk] eqn:Es; [discriminate|].
  destruct (defaulted TB s) as [p|] eqn:Ed.
  - destruct (defaulted_In _ _ Ed) as [t Er].
    assert (I : In (t, Reduce p) (row TB s)) by (rewrite Er; left; reflexivity).
    destruct (do_reduce_ok _ _ _ _ _ (c_look c) (c_rest c) (c_pos c) (c_out c) R I)
      as [A [rhs [syms0 [q [below [s' [_ [_ [_ [_ [_ [_ [_ G8]]]]]]]]]]]]].
    rewrite G8 in S. discriminate.
  - destruct (fetch (c_look c) (c_rest c) (c_pos c)) as [[la rest] pos] eqn:Ef.
    destruct (fetch_spec _ _ _ _ _ _ Ef Ee) as [F1 [F2 [F3 F4]]].
    destruct (action_of TB s (look_type la)) as [[s'|p|]|] eqn:Ea; try discriminate.
    + pose proof (assoc_In _ _ _ _ Ea) as I.
      destruct (do_reduce_ok _ _ _ _ _ la rest pos (c_out c) R I)
        as [A [rhs [syms0 [q [below [s' [_ [_ [_ [_ [_ [_ [_ G8]]]]]]]]]]]]].
      rewrite G8 in S. discriminate.
    + inversion S; subst idx tok rs. clear S.
      assert (Hi : err_index la pos = length consumed).
      { destruct la; [contradiction | |]; cbn in *; lia. }
      rewrite Hi. split.
      * exists syms. rewrite E, firstn_app, Nat.sub_diag, firstn_all. cbn. rewrite app_nil_r. exact D.
      * rewrite E, <- F1. destruct la as [|t|]; [contradiction | |].
        -- left. cbn. rewrite nth_error_app2, Nat.sub_diag by lia. reflexivity.
        -- right. cbn. rewrite (F3 eq_refl), app_nil_r. split; reflexivity.
Qed.

Theorem lr_error_prefix : forall fuel ts idx tok rs, lr_run TB fuel ts = SyntaxError idx tok rs ->
  (exists syms, sr G syms (firstn idx ts) rs) /\
  (nth_error ts idx = Some tok \/ (idx = length ts /\ tok = eof)).
Proof.
  intros fuel ts idx tok rs. unfold lr_run. generalize (init_inv ts). generalize (init ts).
  induction fuel as [|f IH]; intros c I Rn; cbn in Rn; [discriminate|].
  destruct (step TB c) as [c'|r] eqn:S.
  - eapply IH; [eapply step_inv; eauto | exact Rn].
  - subst r. eapply step_error; eauto.
Qed.

(* ------------------------------------------------------------------------------------ *)
(* termination                                                                            *)
(* ------------------------------------------------------------------------------------ *)

Variable RT : list (list nat).
Variables nterm W R : nat.
Hypothesis Hrank : validate_rank TB H RT nterm W R = true.

Lemma rank_lt : forall s t, rank RT nterm s t < R.
Proof.
  pose proof Hrank as V. unfold validate_rank in V.
  repeat (apply andb_true_iff in V; destruct V as [V ?]).
  apply Nat.ltb_lt in V.
  intros s t. unfold rank.
  destruct (nth_in_or_default (Nat.min t nterm) RT []) as [I|E].
  - match goal with F : forallb _ RT = true |- _ => rewrite forallb_forall in F; specialize (F _ I); rename F into Fr end.
    destruct (nth_in_or_default s (nth (Nat.min t nterm) RT []) 0) as [I2|E2].
    + rewrite forallb_forall in Fr. specialize (Fr _ I2). apply Nat.ltb_lt in Fr. exact Fr.
    + rewrite E2. exact V.
  - rewrite E. destruct s; cbn; exact V.
Qed.

Lemma rank_min : forall s t, rank RT nterm s (Nat.min t nterm) = rank RT nterm s t.
Proof. intros. unfold rank. rewrite <- Nat.min_assoc, Nat.min_id. reflexivity. Qed.

Lemma rank_states : forall s, s < n -> state_rank_ok TB H RT nterm W s = true.
Proof.
  pose proof Hrank as V. unfold validate_rank in V.
  repeat (apply andb_true_iff in V; destruct V as [V ?]).
  intros s Hs. match goal with F : forallb _ (seq _ _) = true |- _ => rewrite forallb_forall in F; apply F end.
  apply in_seq. fold n. lia.
Qed.

Definition peek (la : look) (rest : list nat) : nat :=
  match la with
  | Tok t => t
  | Eof => eof
  | NoLook => match rest with t :: _ => t | [] => eof end
  end.

Definition measure (c : conf) : nat :=
  rank RT nterm (hd 0 (c_stack c)) (peek (c_look c) (c_rest c))
  + W * length (c_stack c) + (R + W) * length (pend (c_look c) (c_rest c)).

Lemma fetch_peek : forall la rest pos la' rest' pos',
  fetch la rest pos = (la', rest', pos') ->
  peek la' rest' = peek la rest /\ look_type la' = peek la rest.
Proof.
  intros la rest pos la' rest' pos' F. destruct la; cbn in F.
  - destruct rest as [|t r]; inversion F; subst; cbn; split; reflexivity.
  - inversion F; subst. split; reflexivity.
  - inversion F; subst. split; reflexivity.
Qed.

Lemma reduce_measure : forall s stk t p q below s' A k l,
  red_rank_ok TB H RT nterm W s t p = true ->
  nth_error (t_prod TB) p = Some (A, k) ->
  nth_error ([s] :: past H s) k = Some l -> In q l ->
  goto_of TB q A = Some s' ->
  skipn k (s :: stk) = q :: below ->
  rank RT nterm s' t + W * length (s' :: q :: below) < rank RT nterm s t + W * length (s :: stk).
Proof.
  intros s stk t p q below s' A k l E EP EL IQ EG ES.
  unfold red_rank_ok in E. rewrite EP, EL in E. rewrite forallb_forall in E. specialize (E _ IQ).
  rewrite EG in E. apply Nat.leb_le in E.
  assert (L : length (s :: stk) = k + length (q :: below)).
  { rewrite <- ES, skipn_length.
    assert (length (skipn k (s :: stk)) <> 0) by (rewrite ES; discriminate).
    rewrite skipn_length in *. lia. }
  rewrite L. cbn [length]. rewrite !Nat.mul_add_distr_l, !Nat.mul_succ_r.
  rewrite (Nat.mul_comm k W) in E. lia.
Qed.

Lemma step_measure : forall ts c c', Inv ts c -> step TB c = inl c' -> measure c' < measure c.
Proof.
  intros ts c c' [syms [consumed [Rl [D [E [Ee Ep]]]]]] S.
  destruct validate_facts as [st [_ [_ [_ [_ SO]]]]].
  unfold step in S. destruct (c_stack c) as [|s stk] eqn:Es; [discriminate|].
  destruct (stack_rel_top _ _ _ Rl) as [Hs _].
  pose proof (rank_states _ Hs) as RK. unfold state_rank_ok in RK.
  destruct (defaulted TB s) as [p|] eqn:Ed.
  - destruct (defaulted_In _ _ Ed) as [t Er].
    assert (I : In (t, Reduce p) (row TB s)) by (rewrite Er; left; reflexivity).
    destruct (do_reduce_ok _ _ _ _ _ (c_look c) (c_rest c) (c_pos c) (c_out c) Rl I)
      as [A [rhs [syms0 [q [below [s' [G1 [G2 [G3 [G4 [G5 [[l [G6 G6']] [G7 G8]]]]]]]]]]]]].
    rewrite G8 in S. inversion S; subst c'. clear S.
    rewrite forallb_forall in RK.
    set (tk := peek (c_look c) (c_rest c)).
    assert (It : In (Nat.min tk nterm) (seq 0 (S nterm))) by (apply in_seq; lia).
    pose proof (reduce_measure _ _ _ _ _ _ _ _ _ _ (RK _ It) G2 G6 G6' G5 G4) as M.
    rewrite !rank_min in M.
    unfold measure. cbn [c_stack c_look c_rest hd]. rewrite Es. cbn [hd]. fold tk. lia.
  - destruct (fetch (c_look c) (c_rest c) (c_pos c)) as [[la rest] pos] eqn:Ef.
    destruct (fetch_spec _ _ _ _ _ _ Ef Ee) as [F1 [F2 [F3 F4]]].
    destruct (fetch_peek _ _ _ _ _ _ Ef) as [P1 P2].
    destruct (action_of TB s (look_type la)) as [[s'|p|]|] eqn:Ea; try discriminate.
    + inversion S; subst c'. clear S.
      pose proof (assoc_In _ _ _ _ Ea) as I.
      pose proof (SO _ Hs) as So. unfold state_ok in So. apply andb_true_iff in So. destruct So as [So _].
      rewrite forallb_forall in So. specialize (So _ I). cbn in So.
      apply andb_true_iff in So. destruct So as [So1 _].
      apply negb_true_iff in So1. apply Nat.eqb_neq in So1.
      destruct la as [|t|]; [contradiction | | cbn in So1; contradiction].
      unfold measure. cbn [c_stack c_look c_rest hd]. rewrite Es, <- F1. cbn [hd pend length].
      pose proof (rank_lt s' (peek NoLook rest)) as B.
      rewrite !Nat.mul_succ_r. lia.
    + pose proof (assoc_In _ _ _ _ Ea) as I.
      destruct (do_reduce_ok _ _ _ _ _ la rest pos (c_out c) Rl I)
        as [A [rhs [syms0 [q [below [s' [G1 [G2 [G3 [G4 [G5 [[l [G6 G6']] [G7 G8]]]]]]]]]]]]].
      rewrite G8 in S. inversion S; subst c'. clear S.
      rewrite forallb_forall in RK. specialize (RK _ I). cbn in RK.
      pose proof (reduce_measure _ _ _ _ _ _ _ _ _ _ RK G2 G6 G6' G5 G4) as M.
      unfold measure. cbn [c_stack c_look c_rest hd]. rewrite Es. cbn [hd].
      rewrite F1, P1. rewrite P2 in M. lia.
Qed.

Lemma run_fuel : forall ts fuel c, Inv ts c -> measure c < fuel -> run TB fuel c <> OutOfFuel.
Proof.
  intros ts. induction fuel as [|f IH]; intros c I M; [lia|]. cbn.
  destruct (step TB c) as [c'|r] eqn:S.
  - apply IH; [eapply step_inv; eauto|]. pose proof (step_measure _ _ _ I S). lia.
  - intro E. subst r. unfold step in S.
    destruct (c_stack c) as [|s stk]; [discriminate|].
    unfold do_reduce in S.
    destruct (defaulted TB s).
    + destruct (nth_error (t_prod TB) n0) as [[? ?]|]; [|discriminate].
      destruct (skipn n2 (s :: stk)); [discriminate|]. destruct (goto_of TB n3 n1); discriminate.
    + destruct (fetch (c_look c) (c_rest c) (c_pos c)) as [[la rest] pos].
      destruct (action_of TB s (look_type la)) as [[s'|p|]|]; try discriminate.
      destruct (nth_error (t_prod TB) p) as [[? ?]|]; [|discriminate].
      destruct (skipn n1 (s :: stk)); [discriminate|]. destruct (goto_of TB n2 n0); discriminate.
Qed.

Theorem lr_terminates : forall ts, lr_run TB (lr_bound W R (length ts)) ts <> OutOfFuel.
Proof.
  intro ts. apply (run_fuel ts); [apply init_inv|].
  unfold measure, init, lr_bound. cbn [c_stack c_look c_rest hd pend length].
  pose proof (rank_lt 0 (peek NoLook ts)). rewrite Nat.mul_add_distr_l. lia.
Qed.

(* with enough fuel the outcome is one of the two documented ones *)
Theorem lr_total : forall ts,
  (exists rs, lr_run TB (lr_bound W R (length ts)) ts = Accept rs) \/
  (exists idx tok rs, lr_run TB (lr_bound W R (length ts)) ts = SyntaxError idx tok rs).
Proof.
  intro ts. destruct (lr_run TB (lr_bound W R (length ts)) ts) as [rs|idx tok rs|e rs|] eqn:E.
  - left. eauto.
  - right. eauto.
  - exfalso. eapply lr_safe. exact E.
  - exfalso. eapply lr_terminates. exact E.
Qed.

End Validated.
