(* CEncProofs.v — Encode<Msg> of the C model writes exactly Spec.wire of the value held in
   storage, for ARBITRARY storage contents (only the low n bits of each field reach the
   wire), for both coherent configurations (B,E) = (LE,LE) and (BE,BE). *)
From Coq Require Import ZArith List Bool Lia ZifyBool.
From BP Require Import Bits Schema Spec CMem CMemProofs CRt ByteStep PyEncStep PyEncProofs PyEncTop CCopyProofs CBaseProofs.
From BPGen Require Import GenC.
Import ListNotations.
Open Scope Z_scope.
Ltac Zify.zify_post_hook ::= Z.div_mod_to_equations.

(* ---------- named pieces of the renderer model ---------- *)

Definition render_fields :=
  fix go (l : list (Z * ty)) : list (Z * desc) :=
    match l with
    | [] => []
    | kf :: r => (fst kf, render (snd kf)) :: go r
    end.

Lemma render_msg x fs :
  render (TMsg x fs) =
  DMsg (nbits (TMsg x fs)) x (Z.of_nat (length fs)) (nbits (TMsg x fs)) (render_fields fs).
Proof. reflexivity. Qed.

Definition cwf_fields :=
  fix go (l : list (Z * ty)) : bool :=
    match l with
    | [] => true
    | kf :: r => cwf (snd kf) && go r
    end.

Lemma cwf_msg x fs : cwf (TMsg x fs) = cwf_fields fs.
Proof. reflexivity. Qed.

(* ---------- shape of the storage of a type ---------- *)

Definition bytes_shape (o : obj) (n : Z) : Prop :=
  exists bs, o = OB bs /\ bytes_ok bs /\ Z.of_nat (length bs) = n.

Fixpoint shape_ok (t : ty) (o : obj) : Prop :=
  match t with
  | TAlias u => shape_ok u o
  | TArr _ cap e =>
      if flat e then bytes_shape o (Z.of_nat cap * csize e)
      else exists l, o = OL l /\ length l = cap /\ Forall (shape_ok e) l
  | TMsg _ fs =>
      exists ofs, o = OS ofs /\
        (fix go (l : list (Z * ty)) : Prop :=
           match l with
           | [] => True
           | kf :: r => (exists fo, lookup (fst kf) ofs = Some fo /\ shape_ok (snd kf) fo) /\ go r
           end) fs
  | _ => bytes_shape o (csize t)
  end.

Definition shape_fields (ofs : list (Z * obj)) :=
  fix go (l : list (Z * ty)) : Prop :=
    match l with
    | [] => True
    | kf :: r => (exists fo, lookup (fst kf) ofs = Some fo /\ shape_ok (snd kf) fo) /\ go r
    end.

Lemma shape_msg x fs o : shape_ok (TMsg x fs) o = (exists ofs, o = OS ofs /\ shape_fields ofs fs).
Proof. reflexivity. Qed.

Lemma flat_shape t : forall o, flat t = true -> (shape_ok t o <-> bytes_shape o (csize t)).
Proof.
  induction t as [| | n | n | n ms | t IH | x c e IH | x fs IH] using ty_ind'; intros o Hf;
    try (cbn [shape_ok]; tauto).
  - cbn [shape_ok flat csize] in *. apply IH, Hf.
  - cbn [shape_ok flat csize] in *. rewrite Hf. tauto.
  - discriminate Hf.
Qed.

(* ---------- the processing of a value of type t, independent of where it occurs ---------- *)

Section Core.
  Variables (B E : endian) (enc : bool).
  Let cp := call_processor B E enc.

  Definition core (t : ty) (x : cctx) (o : obj) : cres (cctx * obj) :=
    match t with
    | TBool => on_bytes o (base_type B E enc BpBool_nbits x)
    | TByte => on_bytes o (base_type B E enc BpByte_nbits x)
    | TUint n => on_bytes o (base_type B E enc n x)
    | TEnum n _ => on_bytes o (base_type B E enc n x)
    | TInt n => on_bytes o (endecode_int B E enc (int_size n) n x)
    | TAlias u => endecode_alias B E cp enc (render u) x o
    | TArr xx cap e => endecode_array B E cp enc xx (Z.of_nat cap) (render e) x o
    | TMsg xx fs =>
        endecode_message B E cp enc xx (Z.of_nat (length fs)) (nbits (TMsg xx fs)) (render_fields fs) x o
    end.

  (* as a message field (BpEndecodeMessageField) *)
  Lemma field_step_core t x o : field_step B E cp enc (render t) x o = core t x o.
  Proof. destruct t; reflexivity. Qed.

  (* as an array element (switch in BpEndecodeArray) *)
  Lemma elem_step_core t x o : elem_ok t = true -> elem_step B E cp enc (render t) x o = core t x o.
  Proof. destruct t; intros H; try discriminate H; reflexivity. Qed.

  (* as the target of an alias (BpEndecodeAlias) *)
  Lemma alias_core u x o : alias_target_ok u = true -> endecode_alias B E cp enc (render u) x o = core u x o.
  Proof. destruct u; intros H; try discriminate H; reflexivity. Qed.

  Lemma top_core xx fs x o : cp (render (TMsg xx fs)) x o = core (TMsg xx fs) x o.
  Proof. reflexivity. Qed.
End Core.

(* ---------- the invariant ---------- *)

Definition cenc_post (x : cctx) (n : Z) (bits : list bool) (o : obj) (r : cres (cctx * obj)) : Prop :=
  exists s',
    r = COk ({| xs := s'; xi := xi x + n |}, o) /\
    length s' = length (xs x) /\ bytes_ok s' /\
    bufZ s' = bufZ (xs x) + 2 ^ xi x * Z_of_bits bits.

Lemma cenc_pre_next x n bits s' m :
  cenc_pre x (n + m) -> 0 <= n -> 0 <= m -> Z.of_nat (length bits) = n ->
  length s' = length (xs x) -> bytes_ok s' ->
  bufZ s' = bufZ (xs x) + 2 ^ xi x * Z_of_bits bits ->
  cenc_pre {| xs := s'; xi := xi x + n |} m.
Proof.
  intros (Hs & Hci & Hb & Hlen) Hn Hm Hbits Hl Hok Hbuf.
  unfold cenc_pre. cbn [xs xi].
  pose proof (Z_of_bits_range bits) as Hr. rewrite Hbits in Hr.
  pose proof (pow2_pos (xi x) Hci) as P1.
  split; [assumption|]. split; [lia|]. split; [|lia].
  rewrite Hbuf, (pow2_split (xi x) n) by lia.
  apply sum_lt; assumption.
Qed.

Lemma cenc_pre_weaken x n m : cenc_pre x (n + m) -> 0 <= m -> cenc_pre x n.
Proof. unfold cenc_pre. intuition lia. Qed.

(* sequential composition: first n1 bits b1, then n2 bits b2 *)
Lemma cenc_post_seq x n1 n2 b1 b2 o1 (r1 : cres (cctx * obj)) (k : cctx * obj -> cres (cctx * obj)) o2 :
  0 <= n1 -> 0 <= n2 -> Z.of_nat (length b1) = n1 ->
  cenc_post x n1 b1 o1 r1 ->
  (forall s1, length s1 = length (xs x) -> bytes_ok s1 ->
              bufZ s1 = bufZ (xs x) + 2 ^ xi x * Z_of_bits b1 ->
              cenc_post {| xs := s1; xi := xi x + n1 |} n2 b2 o2 (k ({| xs := s1; xi := xi x + n1 |}, o1))) ->
  0 <= xi x ->
  cenc_post x (n1 + n2) (b1 ++ b2) o2 (cbind r1 k).
Proof.
  intros Hn1 Hn2 Hl1 (s1 & E1 & L1 & O1 & B1) Hk Hxi.
  destruct (Hk s1 L1 O1 B1) as (s2 & E2 & L2 & O2 & B2).
  rewrite E1. cbn [cbind]. exists s2. rewrite E2. cbn [xs xi] in *.
  split; [f_equal; f_equal; f_equal; lia|]. split; [congruence|]. split; [assumption|].
  rewrite B2, B1, Z_of_bits_app, Hl1, (pow2_split (xi x) n1) by lia. ring.
Qed.

(* ---------- scalars ---------- *)

Section Scalars.
  Variables (B E : endian).
  Hypothesis HBE : B = E.

  Lemma enc_base n bs x bits :
    1 <= n <= 64 -> bytes_ok bs -> Z.of_nat (length bs) = int_size n ->
    cenc_pre x n -> Z_of_bits bits = native_val E bs mod 2 ^ n ->
    cenc_post x n bits (OB bs) (on_bytes (OB bs) (base_type B E true n x)).
  Proof.
    intros Hn Hbs Hl Hpre Hbits.
    destruct (width_facts n Hn) as (Hst & _ & Hle & _).
    destruct (base_enc B E n x bs HBE ltac:(lia) Hpre Hbs ltac:(lia)) as (s' & E1 & L1 & O1 & B1).
    { intros _. split; [exact Hn|]. lia. }
    unfold on_bytes. rewrite E1. cbn [cbind fst snd].
    exists s'. split; [reflexivity|]. split; [exact L1|]. split; [exact O1|]. now rewrite B1, Hbits.
  Qed.

  Lemma enc_int n bs x bits :
    1 <= n <= 64 -> bytes_ok bs -> Z.of_nat (length bs) = int_size n ->
    cenc_pre x n -> Z_of_bits bits = native_val E bs mod 2 ^ n ->
    cenc_post x n bits (OB bs) (on_bytes (OB bs) (endecode_int B E true (int_size n) n x)).
  Proof.
    intros Hn Hbs Hl Hpre Hbits.
    destruct (width_facts n Hn) as (Hst & _ & Hle & _).
    destruct (base_enc B E n x bs HBE ltac:(lia) Hpre Hbs ltac:(lia)) as (s' & E1 & L1 & O1 & B1).
    { intros _. split; [exact Hn|]. lia. }
    unfold on_bytes, endecode_int. rewrite E1. cbn [cbind fst snd sign_after].
    exists s'. split; [reflexivity|]. split; [exact L1|]. split; [exact O1|]. now rewrite B1, Hbits.
  Qed.

  Lemma native_val_single b : native_val E [b] = b.
  Proof. destruct E; cbn; lia. Qed.

  Lemma Z_of_bits_of_n n z : 0 <= n -> Z_of_bits (bits_of (Z.to_nat n) z) = z mod 2 ^ n.
  Proof. intros. rewrite Z_of_bits_of, Z2Nat.id by lia. reflexivity. Qed.

  (* the 16-bit prefix of extensible nodes *)
  Lemma enc_ahead v x :
    0 <= v < 65536 -> cenc_pre x 16 ->
    exists s',
      encode_ahead B E v x = COk {| xs := s'; xi := xi x + 16 |} /\
      length s' = length (xs x) /\ bytes_ok s' /\
      bufZ s' = bufZ (xs x) + 2 ^ xi x * Z_of_bits (bits_of 16 v).
  Proof.
    intros Hv Hpre. unfold encode_ahead.
    destruct ah_facts as (Hsz & Hnb & _). rewrite Hsz, Hnb. change (Z.to_nat 2) with 2%nat.
    pose proof (st_whole E (zeros 2) v) as Hst. cbn [length zeros] in Hst.
    change (zeros 2) with [0; 0]. rewrite Hst. cbn [cbind].
    destruct (base_enc B E 16 x (native_bytes E 2 v) HBE ltac:(lia) Hpre (native_bytes_ok _ _ _))
      as (s' & E1 & L1 & O1 & B1).
    { rewrite native_bytes_length. lia. }
    { intros _. split; [lia|]. rewrite native_bytes_length. reflexivity. }
    rewrite E1. cbn [cbind fst]. exists s'. split; [reflexivity|]. split; [exact L1|]. split; [exact O1|].
    rewrite B1, native_val_bytes. change (bits_of 16 v) with (bits_of (Z.to_nat 16) v).
    rewrite Z_of_bits_of_n by lia. change (256 ^ Z.of_nat 2) with 65536. change (2 ^ 16) with 65536.
    rewrite Z.mod_mod by lia. reflexivity.
  Qed.
End Scalars.

(* ---------- object-tree helpers ---------- *)

Lemma set_assoc_same k fo (ofs : list (Z * obj)) : lookup k ofs = Some fo -> set_assoc k fo ofs = ofs.
Proof.
  induction ofs as [|h r IH]; intros H; [reflexivity|].
  cbn [lookup set_assoc] in *. destruct (fst h =? k) eqn:Ek.
  - apply Z.eqb_eq in Ek. injection H as <-. destruct h; cbn in *; subst; reflexivity.
  - f_equal. apply IH, H.
Qed.

Lemma upd_same {A} (l : list A) k a : nth_error l k = Some a -> upd l k a = l.
Proof.
  revert k; induction l as [|h r IH]; intros [|k] H; cbn in *; try discriminate.
  - now injection H as ->.
  - f_equal. apply IH, H.
Qed.

Lemma slice_ok m off len :
  0 <= off -> 0 <= len -> off + len <= Z.of_nat (length m) ->
  slice m off len = COk (firstn (Z.to_nat len) (skipn (Z.to_nat off) m)).
Proof.
  intros. unfold slice.
  replace ((0 <=? off) && (0 <=? len) && (off + len <=? Z.of_nat (length m))) with true by lia. reflexivity.
Qed.

Lemma splice_same m (off len : nat) :
  (off + len <= length m)%nat ->
  splice m (Z.of_nat off) (firstn len (skipn off m)) = COk m.
Proof.
  intros H. unfold splice.
  assert (Hl : length (firstn len (skipn off m)) = len) by (rewrite firstn_length_le; [reflexivity|rewrite skipn_length; lia]).
  rewrite Hl.
  replace ((0 <=? Z.of_nat off) && (Z.of_nat off + Z.of_nat len <=? Z.of_nat (length m))) with true by lia.
  f_equal. rewrite Nat2Z.id.
  destruct (split3 m off len H) as (E & _ & _). symmetry. exact E.
Qed.

(* ---------- descriptor accessors of the renderer model ---------- *)

Lemma d_size_render t : d_size (render t) = csize t.
Proof. destruct t; reflexivity. Qed.

Lemma d_nbits_render t : d_nbits (render t) = nbits t.
Proof. destruct t; reflexivity. Qed.

(* ---------- messages ---------- *)

Definition abs_fields (E : endian) (o : obj) :=
  fix go (l : list (Z * ty)) : list (Z * val) :=
    match l with
    | [] => []
    | kf :: r =>
        (fst kf, abs_val E (snd kf)
                   (match o with
                    | OS ofs => match lookup (fst kf) ofs with Some x => x | None => OB [] end
                    | _ => OB []
                    end)) :: go r
    end.

Lemma abs_val_msg E x fs o : abs_val E (TMsg x fs) o = VM (abs_fields E o fs).
Proof. reflexivity. Qed.

Lemma lookup_abs_fields E ofs fs k ft fo :
  keys_distinct (map fst fs) = true -> In (k, ft) fs -> lookup k ofs = Some fo ->
  lookup k (abs_fields E (OS ofs) fs) = Some (abs_val E ft fo).
Proof.
  induction fs as [|h r IH]; intros Hd Hin Hl; [destruct Hin|].
  cbn [map keys_distinct] in Hd. apply andb_true_iff in Hd. destruct Hd as [Hh Hr].
  cbn [abs_fields lookup fst snd].
  destruct Hin as [->|Hin].
  - cbn [fst snd]. rewrite Z.eqb_refl, Hl. reflexivity.
  - destruct (fst h =? k) eqn:Ek.
    + exfalso. apply Z.eqb_eq in Ek. apply negb_true_iff in Hh.
      assert (existsb (Z.eqb (fst h)) (map fst r) = true); [|congruence].
      apply existsb_exists. exists k. split; [|now apply Z.eqb_eq].
      apply in_map_iff. exists (k, ft). split; [reflexivity|exact Hin].
    + apply IH; assumption.
Qed.

Section Fields.
  Variables (B E : endian).
  Hypothesis HBE : B = E.
  Let cp := call_processor B E true.

  Definition enc_ok (t : ty) : Prop :=
    forall o x, wf t = true -> cwf t = true -> shape_ok t o -> cenc_pre x (nbits t) ->
      Z.of_nat (length (enc_bits t (abs_val E t o))) = nbits t /\
      cenc_post x (nbits t) (enc_bits t (abs_val E t o)) o (core B E true t x o).

  Lemma enc_fields ofs v : forall l x,
    Forall (fun kf => enc_ok (snd kf)) l -> fields_wf l = true -> cwf_fields l = true ->
    shape_fields ofs l ->
    (forall kf fo, In kf l -> lookup (fst kf) ofs = Some fo -> vfield (fst kf) v = abs_val E (snd kf) fo) ->
    cenc_pre x (fields_nbits l) ->
    Z.of_nat (length (fields_bits v l)) = fields_nbits l /\
    cenc_post x (fields_nbits l) (fields_bits v l) (OS ofs)
              (fields_loop B E cp true (render_fields l) (length l) x (OS ofs)).
  Proof.
    induction l as [|kf r IHr]; intros x HIH Hw Hc Hsh Hv Hpre.
    - split; [reflexivity|]. cbn [fields_loop render_fields length fields_bits fields_nbits fold_right].
      exists (xs x). destruct Hpre as (Hs & Hi & Hz & Hl).
      split; [destruct x; cbn; f_equal; f_equal; f_equal; lia|]. split; [reflexivity|]. split; [assumption|].
      cbn [Z_of_bits]. lia.
    - inversion HIH as [|? ? Hk Hrest]; subst.
      cbn [fields_wf] in Hw. rewrite !andb_true_iff in Hw. destruct Hw as [[[_ _] Hwk] Hwr].
      cbn [cwf_fields] in Hc. apply andb_true_iff in Hc. destruct Hc as [Hck Hcr].
      cbn [shape_fields] in Hsh. destruct Hsh as [(fo & Hlk & Hsk) Hsr].
      cbn [fields_nbits fold_right] in *. fold (fields_nbits r) in *.
      pose proof (nbits_nonneg (snd kf) Hwk) as Hn1.
      assert (Hn2 : 0 <= fields_nbits r).
      { clear - Hwr. induction r as [|h r IH]; [cbn; lia|].
        cbn [fields_wf] in Hwr. rewrite !andb_true_iff in Hwr. destruct Hwr as [[[_ _] Hh] Hr].
        cbn [fields_nbits fold_right]. pose proof (nbits_nonneg _ Hh). specialize (IH Hr).
        unfold fields_nbits in IH. lia. }
      destruct (Hk fo x Hwk Hck Hsk (cenc_pre_weaken _ _ _ Hpre Hn2)) as [Hlen1 Hpost1].
      rewrite <- (Hv kf fo (or_introl eq_refl) Hlk) in Hlen1, Hpost1.
      cbn [fields_bits]. fold (fields_bits v r).
      assert (IHcall : forall x', cenc_pre x' (fields_nbits r) ->
                Z.of_nat (length (fields_bits v r)) = fields_nbits r /\
                cenc_post x' (fields_nbits r) (fields_bits v r) (OS ofs)
                          (fields_loop B E cp true (render_fields r) (length r) x' (OS ofs))).
      { intros x' Hp'. apply IHr; try assumption. intros kf' fo' Hin. apply Hv. now right. }
      split.
      { rewrite app_length, Nat2Z.inj_add, Hlen1.
        (* length of the rest does not depend on the context *)
        destruct (IHcall {| xs := zeros (Z.to_nat (fields_nbits r)); xi := 0 |}) as [Hl2 _]; [|lia].
        unfold cenc_pre. cbn [xs xi]. rewrite zeros_length, bufZ_zeros. change (2 ^ 0) with 1.
        split; [apply zeros_bytes_ok|]. lia. }
      cbn [render_fields length fields_loop fst snd].
      unfold get_fld. rewrite Hlk. cbn [cbind].
      unfold cp at 1. rewrite field_step_core. fold cp.
      destruct Hpre as (Hs & Hi & Hz & Hl).
      apply (cenc_post_seq x (nbits (snd kf)) (fields_nbits r) _ _ fo); try assumption.
      intros s1 L1 O1 B1. cbn [fst snd set_fld cbind]. rewrite (set_assoc_same _ _ _ Hlk).
      apply IHcall.
      apply (cenc_pre_next x (nbits (snd kf)) (enc_bits (snd kf) (vfield (fst kf) v)) s1 (fields_nbits r));
        try assumption. unfold cenc_pre. auto.
  Qed.
End Fields.

(* ---------- sizes ---------- *)

Lemma csize_nonneg t : wf t = true -> 0 <= csize t.
Proof.
  induction t as [| | n | n | n ms | t IH | x c e IH | x fs IH] using ty_ind'; intros H;
    cbn [csize wf] in *; try lia.
  - destruct (width_facts n ltac:(lia)) as (_ & Hc & _). lia.
  - destruct (width_facts n ltac:(lia)) as (_ & Hc & _). lia.
  - rewrite !andb_true_iff in H. destruct (width_facts n ltac:(lia)) as (_ & Hc & _). lia.
  - rewrite !andb_true_iff in H. destruct H as [_ He]. specialize (IH He). nia.
Qed.

Lemma nth_error_app_mid {A} (pre : list A) a r : nth_error (pre ++ a :: r) (length pre) = Some a.
Proof. induction pre; cbn; auto. Qed.

Lemma chunks_length cnt sz bs : length (chunks cnt sz bs) = cnt.
Proof. revert bs; induction cnt; intros; cbn [chunks length]; [reflexivity|now rewrite IHcnt]. Qed.

Section Arrays.
  Variables (B E : endian).
  Hypothesis HBE : B = E.
  Let cp := call_processor B E true.
  Variable e : ty.
  Hypothesis IHe : enc_ok B E e.
  Hypotheses (Hwe : wf e = true) (Hce : cwf e = true) (Hel : elem_ok e = true).

  Lemma enc_ok_len o : shape_ok e o -> Z.of_nat (length (enc_bits e (abs_val E e o))) = nbits e.
  Proof.
    intros Hs. pose proof (nbits_nonneg e Hwe) as Hn.
    destruct (IHe o {| xs := zeros (Z.to_nat (nbits e)); xi := 0 |} Hwe Hce Hs) as [Hl _]; [|exact Hl].
    unfold cenc_pre. cbn [xs xi]. rewrite zeros_length, bufZ_zeros. change (2 ^ 0) with 1.
    split; [apply zeros_bytes_ok|]. lia.
  Qed.

  (* arrays whose elements are structs *)
  Lemma enc_elems_OL l : forall rest pre x,
    l = pre ++ rest -> Forall (shape_ok e) rest ->
    cenc_pre x (Z.of_nat (length rest) * nbits e) ->
    cenc_post x (Z.of_nat (length rest) * nbits e)
              (flat_map (fun o => enc_bits e (abs_val E e o)) rest) (OL l)
              (elems_loop B E cp true (render e) (length rest) (length pre) x (OL l)).
  Proof.
    pose proof (nbits_nonneg e Hwe) as Hn.
    induction rest as [|a r IH]; intros pre x Hl Hsh Hpre.
    - cbn [elems_loop length flat_map]. exists (xs x). destruct Hpre as (Hs & Hi & Hz & Hlen).
      split; [destruct x; cbn; f_equal; f_equal; f_equal; lia|]. split; [reflexivity|]. split; [assumption|].
      cbn [Z_of_bits]. lia.
    - inversion_clear Hsh as [|? ? Ha Hr]. subst l.
      cbn [length elems_loop flat_map]. unfold get_elem. rewrite nth_error_app_mid. cbn [cbind].
      unfold cp at 1. rewrite (elem_step_core B E true e _ _ Hel). fold cp.
      cbn [length] in Hpre.
      replace (Z.of_nat (S (length r)) * nbits e) with (nbits e + Z.of_nat (length r) * nbits e) in * by lia.
      assert (Hrn : 0 <= Z.of_nat (length r) * nbits e) by nia.
      destruct (IHe a x Hwe Hce Ha (cenc_pre_weaken _ _ _ Hpre Hrn)) as [Hlen1 Hpost1].
      destruct Hpre as (Hs & Hi & Hz & Hlen).
      apply (cenc_post_seq x (nbits e) (Z.of_nat (length r) * nbits e) _ _ a); try assumption.
      intros s1 L1 O1 B1. cbn [fst snd set_elem cbind].
      replace (Nat.ltb (length pre) (length (pre ++ a :: r))) with true.
      2:{ symmetry. apply Nat.ltb_lt. rewrite app_length. cbn [length]. lia. }
      rewrite (upd_same _ _ _ (nth_error_app_mid pre a r)). cbn [cbind].
      replace (S (length pre)) with (length (pre ++ [a])) by (rewrite app_length; cbn; lia).
      apply IH.
      + rewrite <- app_assoc. reflexivity.
      + exact Hr.
      + apply (cenc_pre_next x (nbits e) (enc_bits e (abs_val E e a)) s1); try assumption.
        unfold cenc_pre. auto.
  Qed.

  (* arrays of scalars (or of arrays of scalars): one contiguous byte object *)
  Hypothesis Hflat : flat e = true.

  Lemma enc_elems_OB bs : forall cnt k x,
    bytes_ok bs -> (Z.of_nat k + Z.of_nat cnt) * csize e = Z.of_nat (length bs) ->
    cenc_pre x (Z.of_nat cnt * nbits e) ->
    cenc_post x (Z.of_nat cnt * nbits e)
              (flat_map (fun c => enc_bits e (abs_val E e (OB c)))
                        (chunks cnt (Z.to_nat (csize e)) (skipn (k * Z.to_nat (csize e)) bs)))
              (OB bs)
              (elems_loop B E cp true (render e) cnt k x (OB bs)).
  Proof.
    pose proof (nbits_nonneg e Hwe) as Hn. pose proof (csize_nonneg e Hwe) as Hcs.
    set (esz := Z.to_nat (csize e)).
    induction cnt as [|c IH]; intros k x Hbs Hlen Hpre.
    - cbn [elems_loop chunks flat_map]. exists (xs x). destruct Hpre as (Hs & Hi & Hz & Hl).
      split; [destruct x; cbn; f_equal; f_equal; f_equal; lia|]. split; [reflexivity|]. split; [assumption|].
      cbn [Z_of_bits]. lia.
    - cbn [elems_loop chunks flat_map]. unfold get_elem. rewrite d_size_render.
      assert (Hoff : Z.to_nat (Z.of_nat k * csize e) = (k * esz)%nat).
      { unfold esz. rewrite Z2Nat.inj_mul, Nat2Z.id by lia. reflexivity. }
      assert (Hb : (k * esz + esz <= length bs)%nat).
      { apply Nat2Z.inj_le. rewrite Nat2Z.inj_add, Nat2Z.inj_mul. unfold esz. rewrite Z2Nat.id by lia. nia. }
      rewrite slice_ok by nia. rewrite Hoff. fold esz. cbn [cbind].
      set (ch := firstn esz (skipn (k * esz) bs)).
      assert (Hch : shape_ok e (OB ch)).
      { apply (flat_shape e _ Hflat). exists ch. split; [reflexivity|]. split.
        - apply bytes_ok_firstn, bytes_ok_skipn, Hbs.
        - unfold ch. rewrite firstn_length_le by (rewrite skipn_length; lia). unfold esz. lia. }
      unfold cp at 1. rewrite (elem_step_core B E true e _ _ Hel). fold cp.
      replace (Z.of_nat (S c) * nbits e) with (nbits e + Z.of_nat c * nbits e) in * by lia.
      assert (Hrn : 0 <= Z.of_nat c * nbits e) by nia.
      destruct (IHe (OB ch) x Hwe Hce Hch (cenc_pre_weaken _ _ _ Hpre Hrn)) as [Hlen1 Hpost1].
      destruct Hpre as (Hs & Hi & Hz & Hl).
      apply (cenc_post_seq x (nbits e) (Z.of_nat c * nbits e) _ _ (OB ch)); try assumption.
      intros s1 L1 O1 B1. cbn [fst snd set_elem cbind].
      replace (Z.of_nat k * csize e) with (Z.of_nat (k * esz)).
      2:{ rewrite Nat2Z.inj_mul. unfold esz. rewrite Z2Nat.id by lia. reflexivity. }
      unfold ch. rewrite (splice_same bs (k * esz) esz Hb). cbn [cbind].
      rewrite skipn_skipn'. replace (k * esz + esz)%nat with (S k * esz)%nat by lia.
      apply IH; try assumption.
      + lia.
      + apply (cenc_pre_next x (nbits e) (enc_bits e (abs_val E e (OB (firstn esz (skipn (k * esz) bs))))) s1);
          try assumption. unfold cenc_pre. auto.
  Qed.
End Arrays.

(* ---------- the batch path of BpEndecodeArray (little-endian build only) ---------- *)

Lemma batch_sign_enc E cnt : forall k esize enbits bs,
  0 <= esize -> (Z.of_nat k + Z.of_nat cnt) * esize <= Z.of_nat (length bs) ->
  batch_sign E true cnt k esize enbits bs = COk bs.
Proof.
  induction cnt as [|c IH]; intros k esize enbits bs He Hl; [reflexivity|].
  cbn [batch_sign]. rewrite slice_ok by nia. cbn [cbind sign_after].
  assert (Hoff : Z.to_nat (Z.of_nat k * esize) = (k * Z.to_nat esize)%nat).
  { rewrite Z2Nat.inj_mul, Nat2Z.id by lia. reflexivity. }
  rewrite Hoff.
  replace (Z.of_nat k * esize) with (Z.of_nat (k * Z.to_nat esize)).
  2:{ rewrite Nat2Z.inj_mul, Z2Nat.id by lia. reflexivity. }
  rewrite splice_same.
  2:{ apply Nat2Z.inj_le. rewrite Nat2Z.inj_add, Nat2Z.inj_mul, Z2Nat.id by lia. nia. }
  cbn [cbind]. apply IH; [exact He|]. lia.
Qed.

Lemma batch_inv e : wf e = true -> cwf e = true ->
  ar_batch_le_build (nbits e) (d_flag (render e)) (d_to_flag (render e)) = true ->
  flat e = true /\ nbits e = 8 * csize e /\
  forall c, bytes_ok c -> Z.of_nat (length c) = csize e ->
            Z_of_bits (enc_bits e (abs_val LE e (OB c))) = bufZ c.
Proof.
  intros Hw Hc Hb.
  assert (Hgen : forall n, (n = 8 \/ n = 16 \/ n = 32 \/ n = 64) ->
            n = 8 * int_size n /\
            forall c, bytes_ok c -> Z.of_nat (length c) = int_size n ->
                      Z_of_bits (bits_of (Z.to_nat n) (bufZ c)) = bufZ c).
  { intros n Hn. assert (E8 : n = 8 * int_size n) by (destruct Hn as [-> | [-> | [-> | ->]]]; reflexivity).
    split; [exact E8|]. intros c Hc' Hl. rewrite Z_of_bits_of, Z2Nat.id by lia.
    apply Z.mod_small. pose proof (bufZ_range c Hc') as R. rewrite Hl, pow256_2 in R by lia.
    rewrite E8 at 1. exact R. }
  assert (Hstd : forall n, BpIsNbitsStandard n = true -> n = 8 \/ n = 16 \/ n = 32 \/ n = 64).
  { intros n H. unfold BpIsNbitsStandard in H. lia. }
  unfold ar_batch_le_build in Hb. apply andb_true_iff in Hb. destruct Hb as [Hs Hf].
  destruct e as [| | n | n | n ms | u | xx cap e' | xx fs]; cbn [render d_flag d_to_flag nbits] in *.
  - exfalso. vm_compute in Hs. discriminate.
  - split; [reflexivity|]. split; [reflexivity|]. intros c Hc' Hl.
    destruct c as [|b [|? ?]]; cbn [length] in Hl; try (cbn [csize] in Hl; lia).
    cbn [abs_val obytes hd enc_bits zof]. change (bits_of 8 b) with (bits_of (Z.to_nat 8) b).
    rewrite Z_of_bits_of. inversion Hc' as [|? ? Hb' _]; subst. unfold is_byte in Hb'.
    cbn [bufZ]. change (2 ^ Z.of_nat (Z.to_nat 8)) with 256. rewrite Z.mod_small by lia. lia.
  - destruct (Hgen n (Hstd n Hs)) as [E8 Hv]. split; [reflexivity|]. split; [exact E8|]. exact Hv.
  - destruct (Hgen n (Hstd n Hs)) as [E8 Hv]. split; [reflexivity|]. split; [exact E8|]. exact Hv.
  - destruct (Hgen n (Hstd n Hs)) as [E8 Hv]. split; [reflexivity|]. split; [exact E8|]. exact Hv.
  - cbn [cwf] in Hc. apply andb_true_iff in Hc. destruct Hc as [Hat Hcu].
    destruct u as [| | n | n | n ms | u' | xx cap e' | xx fs]; try discriminate Hat;
      cbn [bp_flag nbits flat csize abs_val enc_bits] in *.
    + exfalso. vm_compute in Hs. discriminate.
    + split; [reflexivity|]. split; [reflexivity|]. intros c Hc' Hl.
      destruct c as [|b [|? ?]]; cbn [length] in Hl; try lia.
      cbn [obytes hd zof]. change (bits_of 8 b) with (bits_of (Z.to_nat 8) b).
      rewrite Z_of_bits_of. inversion Hc' as [|? ? Hb' _]; subst. unfold is_byte in Hb'.
      cbn [bufZ]. change (2 ^ Z.of_nat (Z.to_nat 8)) with 256. rewrite Z.mod_small by lia. lia.
    + destruct (Hgen n (Hstd n Hs)) as [E8 Hv]. split; [reflexivity|]. split; [exact E8|]. exact Hv.
    + destruct (Hgen n (Hstd n Hs)) as [E8 Hv]. split; [reflexivity|]. split; [exact E8|]. exact Hv.
    + exfalso. vm_compute in Hf. discriminate.
  - exfalso. vm_compute in Hf. discriminate.
  - exfalso. vm_compute in Hf. discriminate.
Qed.

Lemma chunks_bufZ (f : list Z -> list bool) (esz : nat) :
  (forall c, bytes_ok c -> length c = esz ->
             Z_of_bits (f c) = bufZ c /\ Z.of_nat (length (f c)) = 8 * Z.of_nat esz) ->
  forall cnt bs, length bs = (cnt * esz)%nat -> bytes_ok bs ->
    Z_of_bits (flat_map f (chunks cnt esz bs)) = bufZ bs.
Proof.
  intros Hf. induction cnt as [|c IH]; intros bs Hl Hb.
  - destruct bs; [reflexivity|discriminate].
  - cbn [chunks flat_map]. rewrite Z_of_bits_app.
    assert (Hl1 : length (firstn esz bs) = esz) by (apply firstn_length_le; lia).
    destruct (Hf (firstn esz bs) (bytes_ok_firstn _ _ Hb) Hl1) as [Hv Hlen].
    rewrite Hv, Hlen, IH; [|rewrite skipn_length; lia|apply bytes_ok_skipn, Hb].
    rewrite <- (firstn_skipn esz bs) at 3. rewrite bufZ_app, Hl1, pow256_2 by lia. reflexivity.
Qed.

(* ---------- assembling: alias, array, message ---------- *)

Lemma cbind_ret {A} (r : cres A) : cbind r (fun a => COk a) = r.
Proof. destruct r; reflexivity. Qed.

Lemma ah_val_facts c : 0 <= c < 65536 -> ah_arr_val c = c /\ ah_msg_val c = c.
Proof. intros H. unfold ah_arr_val, ah_msg_val. rewrite Z.mod_small by lia. auto. Qed.

Section Main.
  Variables (B E : endian).
  Hypothesis HBE : B = E.
  Let cp := call_processor B E true.

  (* the optional 16-bit prefix followed by a body *)
  Lemma cenc_post_prefix (ext : bool) v x n bits o (k : cctx * Z -> cres (cctx * obj)) :
    0 <= v < 65536 -> 0 <= n -> cenc_pre x (ext_bits ext + n) ->
    (forall x1, cenc_pre x1 n -> cenc_post x1 n bits o (k (x1, 0))) ->
    cenc_post x (ext_bits ext + n) ((if ext then bits_of 16 v else []) ++ bits) o
              (cbind (if ext then x' <-- encode_ahead B E v x ;; COk (x', 0) else COk (x, 0)) k).
  Proof.
    intros Hv Hn Hpre Hk. destruct ext; cbn [ext_bits] in *.
    - destruct (enc_ahead B E HBE v x Hv (cenc_pre_weaken _ _ _ Hpre Hn)) as (s1 & E1 & L1 & O1 & B1).
      rewrite E1. cbn [cbind].
      assert (Hp1 : cenc_pre {| xs := s1; xi := xi x + 16 |} n).
      { apply (cenc_pre_next x 16 (bits_of 16 v) s1 n); try assumption; try lia. reflexivity. }
      destruct (Hk _ Hp1) as (s2 & E2 & L2 & O2 & B2). cbn [xs xi] in *.
      exists s2. rewrite E2. destruct Hpre as (_ & Hi & _ & _).
      split; [f_equal; f_equal; f_equal; lia|]. split; [congruence|]. split; [assumption|].
      rewrite B2, B1, Z_of_bits_app. change (Z.of_nat (length (bits_of 16 v))) with 16.
      rewrite (pow2_split (xi x) 16) by lia. ring.
    - cbn [cbind app]. replace (0 + n) with n in * by lia.
      destruct (Hk x Hpre) as (s2 & E2 & L2 & O2 & B2).
      exists s2. rewrite E2. split; [reflexivity|]. auto.
  Qed.

  Lemma enc_alias u : enc_ok B E u -> enc_ok B E (TAlias u).
  Proof.
    intros IH o x Hw Hc Hs Hpre. cbn [wf cwf shape_ok nbits abs_val enc_bits core] in *.
    apply andb_true_iff in Hc. destruct Hc as [Hat Hcu].
    rewrite (alias_core B E true u x o Hat). apply IH; assumption.
  Qed.

  Lemma enc_array ext cap e : enc_ok B E e -> enc_ok B E (TArr ext cap e).
  Proof.
    intros IH o x Hw Hc Hs Hpre.
    cbn [wf] in Hw. rewrite !andb_true_iff in Hw. destruct Hw as [[Hc1 Hc2] Hwe].
    cbn [cwf] in Hc. apply andb_true_iff in Hc. destruct Hc as [Hel Hce].
    pose proof (nbits_nonneg e Hwe) as Hn. pose proof (csize_nonneg e Hwe) as Hcs.
    assert (Hcap : 0 <= Z.of_nat cap < 65536) by lia.
    destruct (ah_val_facts _ Hcap) as [Hav _].
    cbn [nbits] in Hpre |- *. cbn [core]. unfold endecode_array.
    rewrite andb_false_r, Hav, d_nbits_render, d_size_render.
    (* the value held in storage and the shape of the storage *)
    cbn [shape_ok abs_val] in Hs |- *.
    destruct (flat e) eqn:Hfl.
    - destruct Hs as (bs & -> & Hbs & Hlen). cbn [obytes].
      set (esz := Z.to_nat (csize e)).
      assert (Hlen' : length bs = (cap * esz)%nat).
      { apply Nat2Z.inj. rewrite Nat2Z.inj_mul. unfold esz. rewrite Z2Nat.id by lia. lia. }
      set (f := fun c => enc_bits e (abs_val E e (OB c))).
      cbn [enc_bits vlist]. rewrite flat_map_concat_map, map_map, <- flat_map_concat_map. fold f.
      assert (Hchunk : forall c, In c (chunks cap esz bs) -> shape_ok e (OB c)).
      { clear - Hbs Hlen' Hfl Hcs. revert bs Hbs Hlen'. induction cap as [|c IHc]; intros bs Hbs Hl ch Hin; [destruct Hin|].
        cbn [chunks] in Hin. destruct Hin as [<-|Hin].
        - apply (flat_shape e _ Hfl). exists (firstn esz bs). split; [reflexivity|]. split; [apply bytes_ok_firstn, Hbs|].
          rewrite firstn_length_le by lia. unfold esz. lia.
        - apply (IHc (skipn esz bs)); [apply bytes_ok_skipn, Hbs|rewrite skipn_length; lia|exact Hin]. }
      assert (Hlenbits : Z.of_nat (length (flat_map f (chunks cap esz bs))) = Z.of_nat cap * nbits e).
      { rewrite (flat_map_length_const f _ (Z.to_nat (nbits e))).
        - rewrite chunks_length. lia.
        - intros c Hin. unfold f. pose proof (enc_ok_len B E e IH Hwe Hce (OB c) (Hchunk c Hin)). lia. }
      split.
      { rewrite app_length, Nat2Z.inj_add, Hlenbits. unfold ext_bits. destruct ext; cbn [length]; rewrite ?bits_of_length; lia. }
      apply cenc_post_prefix; try assumption; try nia.
      intros x1 Hp1. cbn [fst snd]. rewrite cbind_ret.
      destruct (batch_pred B (nbits e) (d_flag (render e)) (d_to_flag (render e))) eqn:Hbp.
      + (* batch copy: only without BP_BIG_ENDIAN *)
        assert (B = LE) by (destruct B; [reflexivity|discriminate Hbp]). subst B. subst E.
        cbn [batch_pred] in Hbp.
        destruct (batch_inv e Hwe Hce Hbp) as (_ & Hn8 & Hval).
        unfold on_bytes.
        assert (Hnb : ar_batch_nbits (nbits e) (Z.of_nat cap) = Z.of_nat cap * nbits e) by (unfold ar_batch_nbits; lia).
        rewrite Hnb.
        destruct (base_enc LE LE (Z.of_nat cap * nbits e) x1 bs eq_refl ltac:(nia) Hp1 Hbs ltac:(nia))
          as (s' & E1 & L1 & O1 & B1); [intros HH; discriminate HH|].
        rewrite E1. cbn [cbind fst snd].
        assert (Hres : (if ar_sign_needed (d_flag (render e)) (d_to_flag (render e))
                        then bs' <-- batch_sign LE true (Z.to_nat (Z.of_nat cap)) 0 (csize e) (nbits e) bs ;;
                             COk ({| xs := s'; xi := xi x1 + Z.of_nat cap * nbits e |}, bs')
                        else COk ({| xs := s'; xi := xi x1 + Z.of_nat cap * nbits e |}, bs))
                       = COk ({| xs := s'; xi := xi x1 + Z.of_nat cap * nbits e |}, bs)).
        { destruct (ar_sign_needed _ _); [|reflexivity].
          rewrite batch_sign_enc by (rewrite ?Nat2Z.id; lia). reflexivity. }
        rewrite Hres. cbn [cbind fst snd].
        exists s'. split; [reflexivity|]. split; [exact L1|]. split; [exact O1|].
        rewrite B1. cbn [native_val].
        assert (Hsum : Z_of_bits (flat_map f (chunks cap esz bs)) = bufZ bs).
        { apply (chunks_bufZ f esz); try assumption.
          intros c Hc' Hl'. unfold f. split.
          - apply Hval; [exact Hc'|]. unfold esz in Hl'. lia.
          - assert (Hsc : shape_ok e (OB c)).
            { apply (flat_shape e _ Hfl). exists c. split; [reflexivity|]. split; [exact Hc'|]. unfold esz in Hl'. lia. }
            rewrite (enc_ok_len LE LE e IH Hwe Hce (OB c) Hsc). unfold esz. lia. }
        rewrite Hsum. rewrite Z.mod_small; [reflexivity|].
        pose proof (bufZ_range bs Hbs) as R. rewrite pow256_2 in R by lia.
        replace (Z.of_nat cap * nbits e) with (8 * Z.of_nat (length bs)) by lia. exact R.
      + rewrite Nat2Z.id.
        pose proof (enc_elems_OB B E e IH Hwe Hce Hel Hfl bs cap 0 x1 Hbs ltac:(lia) Hp1) as Hpost.
        cbn [Nat.mul skipn] in Hpost. exact Hpost.
    - destruct Hs as (l & -> & Hll & Hfa).
      cbn [enc_bits vlist]. rewrite flat_map_concat_map, map_map, <- flat_map_concat_map.
      assert (Hlenbits : Z.of_nat (length (flat_map (fun o => enc_bits e (abs_val E e o)) l)) = Z.of_nat cap * nbits e).
      { rewrite (flat_map_length_const _ _ (Z.to_nat (nbits e))).
        - lia.
        - intros a Hin. rewrite Forall_forall in Hfa.
          pose proof (enc_ok_len B E e IH Hwe Hce a (Hfa a Hin)). lia. }
      split.
      { rewrite app_length, Nat2Z.inj_add, Hlenbits. unfold ext_bits. destruct ext; cbn [length]; rewrite ?bits_of_length; lia. }
      apply cenc_post_prefix; try assumption; try nia.
      intros x1 Hp1. cbn [fst snd]. rewrite cbind_ret.
      destruct (batch_pred B (nbits e) (d_flag (render e)) (d_to_flag (render e))) eqn:Hbp.
      + exfalso. assert (HB : B = LE) by (destruct B; [reflexivity|discriminate Hbp]). rewrite HB in Hbp.
        cbn [batch_pred] in Hbp. destruct (batch_inv e Hwe Hce Hbp) as (Hf' & _). congruence.
      + rewrite Nat2Z.id. subst cap.
        apply (enc_elems_OL B E e IH Hwe Hce Hel l l [] x1 eq_refl Hfa Hp1).
  Qed.

  Lemma enc_msg ext fs : Forall (fun kf => enc_ok B E (snd kf)) fs -> enc_ok B E (TMsg ext fs).
  Proof.
    intros IH o x Hw Hc Hs Hpre.
    rewrite wf_msg in Hw. rewrite !andb_true_iff in Hw. destruct Hw as [[Hkd Hnb] Hwf].
    rewrite cwf_msg in Hc. rewrite shape_msg in Hs. destruct Hs as (ofs & -> & Hsf).
    pose proof (nbits_nonneg (TMsg ext fs)) as Hnn. rewrite wf_msg, Hkd, Hnb, Hwf in Hnn. specialize (Hnn eq_refl).
    assert (Hcap : 0 <= nbits (TMsg ext fs) < 65536) by lia.
    destruct (ah_val_facts _ Hcap) as [_ Hav].
    rewrite abs_val_msg, enc_bits_msg. set (v := VM (abs_fields E (OS ofs) fs)).
    assert (Hv : forall kf fo, In kf fs -> lookup (fst kf) ofs = Some fo -> vfield (fst kf) v = abs_val E (snd kf) fo).
    { intros [k ft] fo Hin Hl. cbn [fst snd] in *. unfold v, vfield.
      rewrite (lookup_abs_fields E ofs fs k ft fo Hkd Hin Hl). reflexivity. }
    assert (Hfn : 0 <= fields_nbits fs).
    { rewrite nbits_msg in Hnn. clear - Hwf. induction fs as [|h r IHr]; [cbn; lia|].
      cbn [fields_wf] in Hwf. rewrite !andb_true_iff in Hwf. destruct Hwf as [[[_ _] Hh] Hr].
      cbn [fields_nbits fold_right]. pose proof (nbits_nonneg _ Hh). specialize (IHr Hr).
      unfold fields_nbits in IHr. lia. }
    rewrite nbits_msg in Hpre |- *.
    destruct (enc_fields B E ofs v fs {| xs := zeros (Z.to_nat (fields_nbits fs)); xi := 0 |} IH Hwf Hc Hsf Hv) as [Hlen _].
    { unfold cenc_pre. cbn [xs xi]. rewrite zeros_length, bufZ_zeros. change (2 ^ 0) with 1.
      split; [apply zeros_bytes_ok|]. lia. }
    split.
    { rewrite app_length, Nat2Z.inj_add, Hlen. unfold ext_bits. destruct ext; cbn [length]; rewrite ?bits_of_length; lia. }
    cbn [core]. unfold endecode_message. rewrite andb_false_r, Nat2Z.id. rewrite <- nbits_msg, Hav, nbits_msg.
    apply cenc_post_prefix; try assumption; try lia.
    intros x1 Hp1. cbn [fst snd]. rewrite cbind_ret.
    apply (enc_fields B E ofs v fs x1 IH Hwf Hc Hsf Hv Hp1).
  Qed.

  Lemma b2z_odd b : Z.b2z (Z.odd b) = b mod 2.
  Proof. rewrite Zmod_odd. destruct (Z.odd b); reflexivity. Qed.

  Theorem enc_ok_all t : enc_ok B E t.
  Proof.
    induction t as [| | n | n | n ms | t IH | x c e IH | x fs IH] using ty_ind'.
    - intros o x _ _ (bs & -> & Hbs & Hl) Hpre. cbn [csize nbits] in *.
      split; [reflexivity|]. cbn [core abs_val enc_bits obytes]. destruct ah_facts as (_ & _ & -> & _).
      destruct bs as [|b [|? ?]]; cbn [length] in Hl; try lia. cbn [hd].
      apply (enc_base B E HBE 1 [b] x); try assumption; try lia; try reflexivity.
      cbn [Z_of_bits]. rewrite (native_val_single B E HBE), b2z_odd. change (2 ^ 1) with 2. lia.
    - intros o x _ _ (bs & -> & Hbs & Hl) Hpre. cbn [csize nbits] in *.
      split; [reflexivity|]. cbn [core abs_val enc_bits obytes]. destruct ah_facts as (_ & _ & _ & ->).
      destruct bs as [|b [|? ?]]; cbn [length] in Hl; try lia. cbn [hd zof].
      apply (enc_base B E HBE 8 [b] x); try assumption; try lia; try reflexivity.
      change (bits_of 8 b) with (bits_of (Z.to_nat 8) b). rewrite Z_of_bits_of_n by lia. rewrite (native_val_single B E HBE). reflexivity.
    - intros o x Hw _ (bs & -> & Hbs & Hl) Hpre. cbn [csize nbits wf] in *.
      cbn [core abs_val enc_bits obytes zof].
      split; [rewrite bits_of_length; lia|].
      apply (enc_base B E HBE n bs x); try assumption; try lia. apply Z_of_bits_of_n. lia.
    - intros o x Hw _ (bs & -> & Hbs & Hl) Hpre. cbn [csize nbits wf] in *.
      cbn [core abs_val enc_bits obytes zof].
      split; [rewrite bits_of_length; lia|].
      apply (enc_int B E HBE n bs x); try assumption; try lia. apply Z_of_bits_of_n. lia.
    - intros o x Hw _ (bs & -> & Hbs & Hl) Hpre. cbn [csize nbits wf] in *.
      rewrite !andb_true_iff in Hw.
      cbn [core abs_val enc_bits obytes zof].
      split; [rewrite bits_of_length; lia|].
      apply (enc_base B E HBE n bs x); try assumption; try lia. apply Z_of_bits_of_n. lia.
    - apply enc_alias, IH.
    - apply enc_array, IH.
    - apply enc_msg, IH.
  Qed.
End Main.

(* ---------- Encode<Msg> = wire, for arbitrary storage contents ---------- *)

Theorem c_encode_is_wire_abs B E t o :
  B = E -> PyEncTop.is_msg t = true -> wf (norm t) = true -> cwf (norm t) = true ->
  shape_ok (norm t) o ->
  c_encode_ty B E t o = COk (wire t (abs_val E (norm t) o)).
Proof.
  intros HBE Hm Hw Hc Hs. unfold c_encode_ty, c_encode, wire.
  set (T := norm t) in *.
  assert (HT : exists xx fs, T = TMsg xx fs).
  { subst T. destruct t; try discriminate Hm. cbn [norm]. eauto. }
  destruct HT as (xx & fs & HT).
  pose proof (nbits_nonneg T Hw) as Hnn.
  assert (Hnb : nbytes t = (nbits T + 7) / 8) by (subst T; rewrite PyEncTop.nbits_norm; reflexivity).
  set (x0 := {| xs := zeros (Z.to_nat (nbytes t)); xi := 0 |}).
  assert (Hpre : cenc_pre x0 (nbits T)).
  { unfold cenc_pre, x0. cbn [xs xi]. rewrite zeros_length, bufZ_zeros. change (2 ^ 0) with 1.
    split; [apply zeros_bytes_ok|]. rewrite Z2Nat.id by (rewrite Hnb; apply Z.div_pos; lia). rewrite Hnb. lia. }
  destruct (enc_ok_all B E HBE T o x0 Hw Hc Hs Hpre) as [Hlen (s' & E1 & L1 & O1 & B1)].
  rewrite HT at 1. rewrite top_core, <- HT. rewrite E1. cbn [cbind fst xs]. f_equal.
  apply bufZ_inj; try assumption.
  - apply pack_bytes_ok.
  - unfold x0 in L1. cbn [xs] in L1. rewrite zeros_length in L1.
    apply Nat2Z.inj. rewrite pack_length, Hlen, L1.
    rewrite Z2Nat.id by (rewrite Hnb; apply Z.div_pos; lia). exact Hnb.
  - rewrite B1, bufZ_pack. unfold x0. cbn [xs xi]. rewrite bufZ_zeros. change (2 ^ 0) with 1. lia.
Qed.
