(* LexRe.v — bridge to Re.v (the declarative `matches` over bytes used by the C09 module): erasing the
   context conditions (\b) and the greedy/lazy distinction from a rule regex gives a Re.re whose
   language contains every Latin-1 lexeme the backtracking matcher can choose for that rule.  The
   erased regexes of the five rules that coq/gen/GenC09.v translates are syntactically THE SAME terms
   (checked by reflexivity), so the C09 theorems stated over `matches string_literal_re` etc. apply to
   the lexemes of the tokenizer model. *)
From Coq Require Import String Ascii NArith ZArith List Bool Lia.
From BP Require Import Re TotalBase LexBase Lex LexSpec LexCase LexProofs.
From BPGen Require Import GenLexer GenC09.
Import ListNotations.

Definition erase_item (it : N * N) : citem :=
  if N.eqb (fst it) (snd it) then CLit (N.to_nat (fst it)) else CRange (N.to_nat (fst it)) (N.to_nat (snd it)).

Fixpoint erase (r : rx) : re :=
  match r with
  | XEps | XBound => REps
  | XChar c => RChar (N.to_nat c)
  | XNotChar c => RNotChar (N.to_nat c)
  | XAny => RAny
  | XIn neg items => RIn neg (map erase_item items)
  | XSeq a b => RSeq (erase a) (erase b)
  | XAlt a b => RAlt (erase a) (erase b)
  | XStar _ a => RStar (erase a)
  end.

Lemma nat_of_ascii_of_N c : (c < 256)%N -> nat_of_ascii (ascii_of_N c) = N.to_nat c.
Proof. intro H. unfold nat_of_ascii. rewrite N_ascii_embedding by exact H. reflexivity. Qed.

Lemma nat_eqb_N a b : Nat.eqb (N.to_nat a) (N.to_nat b) = N.eqb a b.
Proof.
  destruct (N.eqb_spec a b) as [->|H]; [apply Nat.eqb_refl|].
  apply Nat.eqb_neq. intro K. apply H. apply N2Nat.inj. exact K.
Qed.

Lemma nat_leb_N a b : Nat.leb (N.to_nat a) (N.to_nat b) = N.leb a b.
Proof.
  destruct (N.leb_spec a b) as [H|H].
  - apply Nat.leb_le. lia.
  - apply Nat.leb_gt. lia.
Qed.

Lemma erase_item_has c it :
  citem_has (N.to_nat c) (erase_item it) = (N.leb (fst it) c && N.leb c (snd it)).
Proof.
  unfold erase_item. destruct it as [a b]. cbn [fst snd]. destruct (N.eqb_spec a b) as [->|H]; cbn [citem_has].
  - rewrite nat_eqb_N. destruct (N.eqb_spec c b) as [->|K].
    + rewrite N.leb_refl. reflexivity.
    + destruct (N.leb_spec b c), (N.leb_spec c b); cbn [andb]; try reflexivity. lia.
  - rewrite !nat_leb_N. reflexivity.
Qed.

Lemma erase_in_class neg items c :
  in_class neg (map erase_item items) (N.to_nat c) = xorb neg (in_ranges items c).
Proof.
  unfold in_class, in_ranges. f_equal. induction items as [|it l IH]; [reflexivity|].
  cbn [map existsb]. rewrite erase_item_has, IH. reflexivity.
Qed.

Lemma erase_atom r c :
  LexBase.is_atom r = true -> (c < 256)%N ->
  Re.is_atom (erase r) = true /\ Re.atom_ok (erase r) (ascii_of_N c) = LexBase.atom_ok r c.
Proof.
  intros Hat Hc. destruct r; try discriminate; cbn [erase Re.is_atom Re.atom_ok LexBase.atom_ok];
    (split; [reflexivity|]); rewrite (nat_of_ascii_of_N c Hc).
  - apply nat_eqb_N.
  - rewrite nat_eqb_N. reflexivity.
  - change 10%nat with (N.to_nat 10). rewrite nat_eqb_N. reflexivity.
  - apply erase_in_class.
Qed.

Theorem dm_matches uw r p w post :
  dm uw r p w post -> Forall (fun c => (c < 256)%N) w -> matches (erase r) (map ascii_of_N w).
Proof.
  induction 1 as [| r c p post Hat Hok | | a b p w1 w2 post _ IH1 _ IH2 | a b p w post _ IH | a b p w post _ IH
                  | | g a p w1 w2 post _ IH1 _ IH2]; intro HF; cbn [erase map].
  - constructor.
  - inversion HF; subst. destruct (erase_atom r c Hat H1) as [E1 E2]. constructor; [exact E1|]. rewrite E2. exact Hok.
  - constructor.
  - rewrite map_app. apply Forall_app in HF. destruct HF. constructor; auto.
  - apply MAltL. auto.
  - apply MAltR. auto.
  - constructor.
  - rewrite map_app. apply Forall_app in HF. destruct HF. apply MStarS; auto.
Qed.

(* the erased rule regexes ARE the terms tools/translate_c09.py generates from the same docstrings *)
Lemma erase_string_literal : erase rx_t_STRING_LITERAL = BPGen.GenC09.string_literal_re.
Proof. reflexivity. Qed.
Lemma erase_int_literal : erase rx_t_INT_LITERAL = BPGen.GenC09.int_literal_re.
Proof. reflexivity. Qed.
Lemma erase_hex_literal : erase rx_t_HEX_LITERAL = BPGen.GenC09.hex_literal_re.
Proof. reflexivity. Qed.

(* hence: a Latin-1 lexeme chosen by the tokenizer for t_STRING_LITERAL is in the language over which the C09
   module proves its escape loop total (TotalProofs.escape_loop_total) *)
Corollary chosen_string_matches uw fuel s s' r :
  first_rule uw fuel lex_rules s = Some (r, s') -> r_rx r = rx_t_STRING_LITERAL ->
  exists w, snd s = w ++ snd s' /\
            (Forall (fun c => (c < 256)%N) w -> matches BPGen.GenC09.string_literal_re (map ascii_of_N w)).
Proof.
  intros H Hr. apply first_rule_sound in H. destruct H as [_ (w & E & _ & D)]. exists w. split; [exact E|].
  intro HF. rewrite <- erase_string_literal, <- Hr. eapply dm_matches; eassumption.
Qed.
