(* TotalProofs.v — lemmas for C09 (see Total.v for what is and is not modelled). *)
From Coq Require Import String Ascii ZArith List Bool Lia Arith Wf_nat.
From BP Require Import Re ReLinear TotalBase Schema Total.
From BPGen Require Import GenC09.
Import ListNotations.

Open Scope Z_scope.

(* ====================================================================================== *)
(* characters: finite sweeps over the 256 byte values                                      *)
(* ====================================================================================== *)

Lemma ascii_sweep (P : ascii -> bool) :
  forallb (fun n => P (ascii_of_nat n)) (seq 0 256) = true -> forall c, P c = true.
Proof.
  intros H c. rewrite forallb_forall in H.
  rewrite <- (ascii_nat_embedding c). apply H. apply in_seq.
  pose proof (nat_ascii_bounded c). lia.
Qed.

Lemma sweep_impl (P Q : ascii -> bool) :
  forallb (fun n => implb (P (ascii_of_nat n)) (Q (ascii_of_nat n))) (seq 0 256) = true ->
  forall c, P c = true -> Q c = true.
Proof.
  intros H c HP. pose proof (ascii_sweep (fun c => implb (P c) (Q c)) H c) as Hc.
  cbv beta in Hc. rewrite HP in Hc. exact Hc.
Qed.

Definition other_class : re := RIn true [CLit 92; CLit 10].

Lemma other_not_bslash c : atom_ok other_class c = true -> Ascii.eqb c (ascii_of_nat 92) = false.
Proof.
  intro H. apply negb_true_iff. revert c H.
  apply (sweep_impl (atom_ok other_class) (fun c => negb (Ascii.eqb c (ascii_of_nat 92)))).
  vm_compute. reflexivity.
Qed.

Lemma other_not_newline c : atom_ok other_class c = true -> Ascii.eqb c NEWLINE = false.
Proof.
  intro H. apply negb_true_iff. revert c H.
  apply (sweep_impl (atom_ok other_class) (fun c => negb (Ascii.eqb c NEWLINE))).
  vm_compute. reflexivity.
Qed.

Lemma other_class_intro c :
  Ascii.eqb c BSLASH = false -> Ascii.eqb c NEWLINE = false -> atom_ok other_class c = true.
Proof.
  intros H1 H2.
  apply (sweep_impl (fun c => negb (Ascii.eqb c BSLASH) && negb (Ascii.eqb c NEWLINE))
                    (atom_ok other_class)); [vm_compute; reflexivity|].
  rewrite H1, H2. reflexivity.
Qed.

Lemma any_class_intro d : Ascii.eqb d NEWLINE = false -> atom_ok RAny d = true.
Proof.
  intros H.
  apply (sweep_impl (fun c => negb (Ascii.eqb c NEWLINE)) (atom_ok RAny)); [vm_compute; reflexivity|].
  rewrite H. reflexivity.
Qed.

Lemma char_class_eq k c : (k < 256)%nat -> atom_ok (RChar k) c = true -> c = ascii_of_nat k.
Proof.
  intros Hk H. cbn [atom_ok] in H. apply Nat.eqb_eq in H.
  rewrite <- (ascii_nat_embedding c). rewrite H. reflexivity.
Qed.

(* ====================================================================================== *)
(* indexing                                                                                *)
(* ====================================================================================== *)

Lemma zlen_app {A} (a b : list A) : zlen (a ++ b) = zlen a + zlen b.
Proof. unfold zlen. rewrite app_length. lia. Qed.

Lemma zlen_cons {A} (x : A) (l : list A) : zlen (x :: l) = 1 + zlen l.
Proof. unfold zlen. cbn [length]. lia. Qed.

Lemma zlen_nil {A} : zlen (@nil A) = 0.
Proof. reflexivity. Qed.

Lemma zlen_nonneg {A} (a : list A) : 0 <= zlen a.
Proof. unfold zlen. lia. Qed.

Lemma py_idx_app {A} (pre : list A) x rest : py_idx (pre ++ x :: rest) (zlen pre) = Ok x.
Proof.
  unfold py_idx. pose proof (zlen_nonneg pre) as Hp.
  destruct (zlen pre <? 0) eqn:E; [apply Z.ltb_lt in E; lia|]. rewrite E.
  unfold zlen. rewrite Nat2Z.id. rewrite nth_error_app2 by lia. rewrite Nat.sub_diag. reflexivity.
Qed.

Lemma py_idx_app1 {A} (pre : list A) x y rest : py_idx (pre ++ x :: y :: rest) (zlen pre + 1) = Ok y.
Proof.
  replace (pre ++ x :: y :: rest) with ((pre ++ [x]) ++ y :: rest) by (rewrite <- app_assoc; reflexivity).
  replace (zlen pre + 1) with (zlen (pre ++ [x])) by (rewrite zlen_app, zlen_cons, zlen_nil; lia).
  apply py_idx_app.
Qed.

(* ====================================================================================== *)
(* 1. the escape loop                                                                      *)
(* ====================================================================================== *)

Definition escape_pair : re := RSeq (RChar 92) RAny.
Definition body_re : re := RStar (RAlt other_class escape_pair).

Lemma string_literal_re_shape :
  string_literal_re = RSeq (RChar 34) (RSeq body_re (RChar 34)).
Proof. reflexivity. Qed.

Definition loop_good (x : outcome (list ascii)) : Prop :=
  (exists v, x = Ok v) \/ x = ParserError "InvalidEscapingChar"%string.

Lemma table_mem_get (d : list (ascii * list ascii)) c :
  table_mem d c = true -> exists v, py_dict_get d c = Ok v.
Proof.
  unfold table_mem, py_dict_get. destruct (table_get d c) as [v|]; [eauto|discriminate].
Qed.

Lemma escape_loop_body_total body :
  matches body_re body ->
  forall pre val fuel, (length body < fuel)%nat ->
    loop_good (escape_loop fuel (pre ++ body) (zlen pre) val).
Proof.
  unfold body_re. intro H.
  apply (matches_star_ind (RAlt other_class escape_pair)
           (fun body => forall pre val fuel, (length body < fuel)%nat ->
                          loop_good (escape_loop fuel (pre ++ body) (zlen pre) val))); [| |exact H].
  - (* end of the body *)
    intros pre val fuel Hf. destruct fuel as [|f]; [cbn in Hf; lia|].
    cbn [escape_loop]. rewrite app_nil_r. rewrite Z.ltb_irrefl. left. eauto.
  - (* one more unit: an ordinary character or an escape pair *)
    intros s1 s2 H1 _ IH pre val fuel Hf.
    apply matches_alt_inv in H1. destruct H1 as [H1|H1].
    + apply matches_atom_inv in H1; [|reflexivity]. destruct H1 as (c & -> & Hc).
      cbn [app] in *. destruct fuel as [|f]; [cbn in Hf; lia|].
      cbn [escape_loop].
      assert (Hlt : (zlen pre <? zlen (pre ++ c :: s2)) = true).
      { apply Z.ltb_lt. rewrite zlen_app, zlen_cons. pose proof (zlen_nonneg s2). lia. }
      rewrite Hlt. rewrite py_idx_app. cbn [bind].
      rewrite (other_not_bslash c Hc). cbn [bind]. cbv zeta.
      replace (pre ++ c :: s2) with ((pre ++ [c]) ++ s2) by (rewrite <- app_assoc; reflexivity).
      replace (zlen pre + 1) with (zlen (pre ++ [c])) by (rewrite zlen_app, zlen_cons, zlen_nil; lia).
      apply IH. cbn [length] in Hf. lia.
    + unfold escape_pair in H1. apply matches_seq_inv in H1. destruct H1 as (a & b & -> & Ha & Hb).
      apply matches_atom_inv in Ha; [|reflexivity]. destruct Ha as (x & -> & Hx).
      apply matches_atom_inv in Hb; [|reflexivity]. destruct Hb as (d & -> & Hd).
      apply char_class_eq in Hx; [|lia]. subst x.
      cbn [app] in *. destruct fuel as [|f]; [cbn in Hf; lia|].
      cbn [escape_loop].
      assert (Hlt : (zlen pre <? zlen (pre ++ ascii_of_nat 92 :: d :: s2)) = true).
      { apply Z.ltb_lt. rewrite zlen_app, zlen_cons. pose proof (zlen_nonneg (d :: s2)). lia. }
      rewrite Hlt. rewrite py_idx_app. cbn [bind].
      rewrite Ascii.eqb_refl. cbv zeta. rewrite py_idx_app1. cbn [bind].
      destruct (table_mem escaping_chars d) eqn:Hm.
      * cbn [bind].
        destruct (table_mem_get _ _ Hm) as (v & Hv). rewrite Hv. cbn [bind]. cbv zeta.
        replace (pre ++ ascii_of_nat 92 :: d :: s2) with ((pre ++ [ascii_of_nat 92; d]) ++ s2)
          by (rewrite <- app_assoc; reflexivity).
        replace (zlen pre + 1 + 1) with (zlen (pre ++ [ascii_of_nat 92; d]))
          by (rewrite zlen_app, !zlen_cons, zlen_nil; lia).
        apply IH. cbn [length] in Hf. lia.
      * right. reflexivity.
Qed.

Lemma token_body_quoted q1 q2 body : token_body (q1 :: body ++ [q2]) = body.
Proof.
  unfold token_body, py_slice. cbn [skipn length].
  rewrite app_length. cbn [length].
  replace (S (length body + 1) - 1 - 1)%nat with (length body) by lia.
  rewrite firstn_app. rewrite Nat.sub_diag. cbn [firstn]. rewrite firstn_all. apply app_nil_r.
Qed.

Lemma string_literal_inv tv :
  matches string_literal_re tv ->
  exists body, tv = QUOTE :: body ++ [QUOTE] /\ matches body_re body.
Proof.
  rewrite string_literal_re_shape. intro H.
  apply matches_seq_inv in H. destruct H as (a & r & -> & Ha & Hr).
  apply matches_seq_inv in Hr. destruct Hr as (body & b & -> & Hb & Hq).
  apply matches_atom_inv in Ha; [|reflexivity]. destruct Ha as (x & -> & Hx).
  apply matches_atom_inv in Hq; [|reflexivity]. destruct Hq as (y & -> & Hy).
  apply char_class_eq in Hx; [|lia]. apply char_class_eq in Hy; [|lia]. subst.
  exists body. split; [reflexivity|assumption].
Qed.

(* THE theorem on the translated loop: on every string of the token's regular language it
   terminates with a value or with the bitproto error — never an index error, a key error or
   fuel exhaustion.  No bound on the length. *)
Theorem escape_loop_total tv :
  matches string_literal_re tv -> loop_good (unescape_token tv).
Proof.
  intro H. apply string_literal_inv in H. destruct H as (body & -> & Hb).
  unfold unescape_token. rewrite token_body_quoted. cbv zeta.
  apply (escape_loop_body_total body Hb [] [] (S (length body))). lia.
Qed.

Corollary escape_loop_total_b tv :
  str_token_ok tv = true -> loop_good (unescape_token tv).
Proof. unfold str_token_ok. rewrite re_matchb_spec. apply escape_loop_total. Qed.

(* ---- the scan at a quote only ever produces strings of the token language ---- *)

Lemma scan_sound_aux : forall m s, length s = m -> forall n,
  scan_string_body s = Some n ->
  exists body, firstn n s = body ++ [QUOTE] /\ matches body_re body.
Proof.
  induction m as [m IH] using lt_wf_ind. intros s Hlen n Hs.
  destruct s as [|c r]; [discriminate|]. cbn [scan_string_body] in Hs.
  destruct (Ascii.eqb c QUOTE) eqn:Eq.
  - inversion Hs; subst n. apply Ascii.eqb_eq in Eq. subst c.
    exists []. split; [reflexivity|]. unfold body_re. constructor.
  - destruct (Ascii.eqb c BSLASH) eqn:Eb.
    + apply Ascii.eqb_eq in Eb. subst c. destruct r as [|d r']; [discriminate|].
      destruct (Ascii.eqb d NEWLINE) eqn:En; [discriminate|].
      destruct (scan_string_body r') as [k|] eqn:Ek; [|discriminate].
      cbn [option_map] in Hs. inversion Hs; subst n.
      destruct (IH (length r')) with (s := r') (n := k) as (body & Hf & Hm);
        [cbn [length] in Hlen; lia|reflexivity|assumption|].
      exists (BSLASH :: d :: body). split.
      * cbn [firstn]. rewrite Hf. reflexivity.
      * unfold body_re. change (BSLASH :: d :: body) with ([BSLASH; d] ++ body).
        constructor; [|exact Hm]. apply MAltR. unfold escape_pair.
        change [BSLASH; d] with ([BSLASH] ++ [d]). constructor.
        -- apply MAtom; reflexivity.
        -- apply MAtom; [reflexivity|]. apply any_class_intro. exact En.
    + destruct (Ascii.eqb c NEWLINE) eqn:En; [discriminate|].
      destruct (scan_string_body r) as [k|] eqn:Ek; [|discriminate].
      cbn [option_map] in Hs. inversion Hs; subst n.
      destruct (IH (length r)) with (s := r) (n := k) as (body & Hf & Hm);
        [cbn [length] in Hlen; lia|reflexivity|assumption|].
      exists (c :: body). split.
      * cbn [firstn]. rewrite Hf. reflexivity.
      * unfold body_re. change (c :: body) with ([c] ++ body).
        constructor; [|exact Hm]. apply MAltL. apply MAtom; [reflexivity|].
        apply other_class_intro; assumption.
Qed.

Lemma scan_sound rest n :
  scan_string_body rest = Some n ->
  matches string_literal_re (firstn (S n) (QUOTE :: rest)).
Proof.
  intro H. destruct (scan_sound_aux (length rest) rest eq_refl n H) as (body & Hf & Hm).
  cbn [firstn]. rewrite Hf. rewrite string_literal_re_shape.
  change (QUOTE :: body ++ [QUOTE]) with ([QUOTE] ++ (body ++ [QUOTE])).
  constructor; [apply MAtom; reflexivity|].
  constructor; [exact Hm|apply MAtom; reflexivity].
Qed.

(* the whole rule at a quote (regex scan + escape loop) never crashes *)
Theorem lex_string_total text : is_crash (lex_string text) = false.
Proof.
  unfold lex_string. destruct text as [|q rest]; [reflexivity|].
  destruct (Ascii.eqb q QUOTE) eqn:Eq; [|reflexivity].
  apply Ascii.eqb_eq in Eq. subst q.
  destruct (scan_string_body rest) as [n|] eqn:Es; [|reflexivity].
  cbv zeta. pose proof (escape_loop_total _ (scan_sound rest n Es)) as [[v Hv]|Hv];
    rewrite Hv; reflexivity.
Qed.

(* ====================================================================================== *)
(* 2. integer conversions                                                                  *)
(* ====================================================================================== *)

Definition dec_class : re := RIn false [CRange 48 57].
Definition hex_class : re := RIn false [CRange 48 57; CRange 97 102; CRange 65 70].

Definition is_some {A} (o : option A) : bool := match o with Some _ => true | None => false end.

Lemma dec_digit c : atom_ok dec_class c = true -> exists d, digit_of 10 c = Some d.
Proof.
  intro H. assert (is_some (digit_of 10 c) = true) as Hs.
  { revert c H. apply sweep_impl. vm_compute. reflexivity. }
  destruct (digit_of 10 c); [eauto|discriminate].
Qed.

Lemma hex_digit c : atom_ok hex_class c = true -> exists d, digit_of 16 c = Some d.
Proof.
  intro H. assert (is_some (digit_of 16 c) = true) as Hs.
  { revert c H. apply sweep_impl. vm_compute. reflexivity. }
  destruct (digit_of 16 c); [eauto|discriminate].
Qed.

Lemma star_class_forall a s :
  is_atom a = true -> matches (RStar a) s -> Forall (fun c => atom_ok a c = true) s.
Proof.
  intros Ha H.
  apply (matches_star_ind a (fun s => Forall (fun c => atom_ok a c = true) s)); [constructor| |exact H].
  intros s1 s2 H1 _ IH. apply matches_atom_inv in H1; [|exact Ha]. destruct H1 as (c & -> & Hc).
  constructor; assumption.
Qed.

Lemma plus_class_inv a s :
  is_atom a = true -> matches (RPlus a) s ->
  exists c r, s = c :: r /\ Forall (fun c => atom_ok a c = true) (c :: r).
Proof.
  intros Ha H. unfold RPlus in H. apply matches_seq_inv in H. destruct H as (s1 & s2 & -> & H1 & H2).
  apply matches_atom_inv in H1; [|exact Ha]. destruct H1 as (c & -> & Hc).
  exists c, s2. split; [reflexivity|]. constructor; [exact Hc|]. apply star_class_forall; assumption.
Qed.

Lemma digits_value_total base (cls : re) :
  (forall c, atom_ok cls c = true -> exists d, digit_of base c = Some d) ->
  forall s acc, Forall (fun c => atom_ok cls c = true) s -> exists z, digits_value base acc s = Some z.
Proof.
  intros Hd s. induction s as [|c r IH]; intros acc HF; [eexists; reflexivity|].
  inversion HF as [|? ? Hc Hr]; subst. destruct (Hd c Hc) as (d & Hdc).
  cbn [digits_value]. rewrite Hdc. apply IH. exact Hr.
Qed.

Lemma strip_0x_10 s : strip_0x 10 s = s.
Proof. destruct s as [|a [|b r]]; reflexivity. Qed.

(* int(s) on a string of decimal digits: exactly the CPython digit limit separates Ok from
   ValueError *)
Lemma py_int_dec s :
  (exists c r, s = c :: r /\ Forall (fun c => atom_ok dec_class c = true) (c :: r)) ->
  (zlen s <= py_int_max_str_digits -> exists z, py_int 10 py_int_max_str_digits s = Ok z) /\
  (py_int_max_str_digits < zlen s -> py_int 10 py_int_max_str_digits s = Crash ValueError).
Proof.
  intros (c & r & -> & HF). unfold py_int. rewrite strip_0x_10.
  change (negb (is_pow2_base 10)) with true. cbn [andb]. split; intro Hl.
  - destruct (py_int_max_str_digits <? zlen (c :: r)) eqn:E; [apply Z.ltb_lt in E; lia|].
    destruct (digits_value_total 10 dec_class dec_digit (c :: r) 0 HF) as (z & Hz).
    rewrite Hz. eauto.
  - destruct (py_int_max_str_digits <? zlen (c :: r)) eqn:E; [reflexivity|apply Z.ltb_ge in E; lia].
Qed.

Theorem int_literal_total tv :
  matches int_literal_re tv -> zlen tv <= py_int_max_str_digits -> exists z, lex_int_literal tv = Ok z.
Proof.
  intros H Hl. destruct (py_int_dec tv (plus_class_inv dec_class tv eq_refl H)) as [H1 _].
  destruct (H1 Hl) as (z & Hz). exists z. unfold lex_int_literal. rewrite Hz. reflexivity.
Qed.

Lemma skip_prefix_class (pre : list nat) (a : re) tv :
  Forall (fun k => (k < 256)%nat) pre ->
  matches (fold_right (fun k r => RSeq (RChar k) r) a pre) tv ->
  exists rest, tv = map ascii_of_nat pre ++ rest /\ matches a rest.
Proof.
  revert tv. induction pre as [|k pre IH]; intros tv Hk H; cbn [fold_right map app] in *.
  - exists tv. auto.
  - inversion Hk as [|? ? Hk0 Hk1]; subst.
    apply matches_seq_inv in H. destruct H as (s1 & s2 & -> & H1 & H2).
    apply matches_atom_inv in H1; [|reflexivity]. destruct H1 as (c & -> & Hc).
    apply char_class_eq in Hc; [|exact Hk0]. subst c.
    destruct (IH s2 Hk1 H2) as (rest & -> & Hr). exists rest. auto.
Qed.

Lemma uint_type_inv tv :
  matches uint_type_re tv ->
  exists ds, tv = map ascii_of_nat [117; 105; 110; 116]%nat ++ ds /\ matches (RPlus dec_class) ds.
Proof.
  intro H. change uint_type_re with
    (fold_right (fun k r => RSeq (RChar k) r) (RPlus dec_class) [117; 105; 110; 116]%nat) in H.
  apply skip_prefix_class in H; [exact H|repeat constructor; lia].
Qed.

Lemma int_type_inv tv :
  matches int_type_re tv ->
  exists ds, tv = map ascii_of_nat [105; 110; 116]%nat ++ ds /\ matches (RPlus dec_class) ds.
Proof.
  intro H. change int_type_re with
    (fold_right (fun k r => RSeq (RChar k) r) (RPlus dec_class) [105; 110; 116]%nat) in H.
  apply skip_prefix_class in H; [exact H|repeat constructor; lia].
Qed.

Theorem uint_type_total tv :
  matches uint_type_re tv -> zlen tv <= py_int_max_str_digits + 4 -> exists z, lex_uint_cap tv = Ok z.
Proof.
  intros H Hl. destruct (uint_type_inv tv H) as (ds & -> & Hd).
  destruct (py_int_dec ds (plus_class_inv dec_class ds eq_refl Hd)) as [H1 _].
  cbn [map app] in Hl. rewrite !zlen_cons in Hl.
  destruct H1 as (z & Hz); [lia|]. exists z.
  unfold lex_uint_cap. cbn [map app py_slice_from skipn]. rewrite Hz. reflexivity.
Qed.

Theorem int_type_total tv :
  matches int_type_re tv -> zlen tv <= py_int_max_str_digits + 3 -> exists z, lex_int_cap tv = Ok z.
Proof.
  intros H Hl. destruct (int_type_inv tv H) as (ds & -> & Hd).
  destruct (py_int_dec ds (plus_class_inv dec_class ds eq_refl Hd)) as [H1 _].
  cbn [map app] in Hl. rewrite !zlen_cons in Hl.
  destruct H1 as (z & Hz); [lia|]. exists z.
  unfold lex_int_cap. cbn [map app py_slice_from skipn]. rewrite Hz. reflexivity.
Qed.

(* int(s, 16): a power-of-two base has no digit limit — total on the token language *)
Theorem hex_literal_total tv :
  matches hex_literal_re tv -> exists z, lex_hex_literal tv = Ok z.
Proof.
  intro H. change hex_literal_re with
    (fold_right (fun k r => RSeq (RChar k) r) (RPlus hex_class) [48; 120]%nat) in H.
  apply skip_prefix_class in H; [|repeat constructor; lia]. destruct H as (ds & -> & Hd).
  apply (plus_class_inv hex_class ds eq_refl) in Hd. destruct Hd as (c & r & -> & HF).
  destruct (digits_value_total 16 hex_class hex_digit (c :: r) 0 HF) as (z & Hz). exists z.
  assert (Hp : py_int 16 py_int_max_str_digits (map ascii_of_nat [48; 120]%nat ++ c :: r) = Ok z).
  { unfold py_int. cbn [map app].
    change (strip_0x 16 (ascii_of_nat 48 :: ascii_of_nat 120 :: c :: r)) with (c :: r).
    change (negb (is_pow2_base 16)) with false. cbn [andb]. rewrite Hz. reflexivity. }
  unfold lex_hex_literal. rewrite Hp. reflexivity.
Qed.

(* str(z) *)
Lemma max_digits_nonneg : 0 <= py_int_max_str_digits.
Proof. vm_compute. discriminate. Qed.

Lemma str_int_small z : Z.abs z < 10 ^ py_int_max_str_digits -> str_int z = Ok tt.
Proof.
  intro H. unfold str_int, py_str_int. rewrite (pow10_spec _ max_digits_nonneg).
  apply Z.ltb_lt in H. rewrite H. reflexivity.
Qed.

Lemma str_int_big z : 10 ^ py_int_max_str_digits <= Z.abs z -> str_int z = Crash ValueError.
Proof.
  intro H. unfold str_int, py_str_int. rewrite (pow10_spec _ max_digits_nonneg).
  apply Z.ltb_ge in H. rewrite H. reflexivity.
Qed.

(* ====================================================================================== *)
(* 3. constant expressions                                                                 *)
(* ====================================================================================== *)

Lemma cref_no_crash env n : is_crash (cref env n) = false.
Proof. unfold cref. destruct (clookup env n) as [[z|b|s|]|]; reflexivity. Qed.

Lemma bind_no_crash {A B} (x : outcome A) (f : A -> outcome B) :
  is_crash x = false -> (forall a, x = Ok a -> is_crash (f a) = false) -> is_crash (bind x f) = false.
Proof. intros Hx Hf. destruct x; cbn [bind]; [apply Hf; reflexivity|reflexivity|discriminate]. Qed.

(* the arithmetic actions never crash (a zero divisor is a CalculationExpressionError) *)
Theorem ceval_total env e : is_crash (ceval env e) = false.
Proof.
  induction e as [z|n|a IHa b IHb|a IHa b IHb|a IHa b IHb|a IHa b IHb|a IHa]; cbn [ceval].
  - reflexivity.
  - apply cref_no_crash.
  - apply bind_no_crash; [auto|]. intros x _. apply bind_no_crash; [auto|]. intros y _. reflexivity.
  - apply bind_no_crash; [auto|]. intros x _. apply bind_no_crash; [auto|]. intros y _. reflexivity.
  - apply bind_no_crash; [auto|]. intros x _. apply bind_no_crash; [auto|]. intros y _. reflexivity.
  - apply bind_no_crash; [auto|]. intros x _. apply bind_no_crash; [auto|]. intros y _.
    unfold calc_divide, py_floordiv. destruct (y =? 0); reflexivity.
  - auto.
Qed.

(* ====================================================================================== *)
(* 4. unsupported items  5. action indices  6. hooks and diagnostics                       *)
(* ====================================================================================== *)

Definition is_parser_error {A} (x : outcome A) : bool :=
  match x with ParserError k => parse_diag k | _ => false end.

Lemma enum_items_total : forallb (fun i => is_parser_error (enum_item_outcome i)) enum_items = true.
Proof. vm_compute. reflexivity. Qed.

Lemma message_items_total_b : forallb (fun i => is_parser_error (message_item_outcome i)) message_items = true.
Proof. vm_compute. reflexivity. Qed.

Lemma actions_index_total : bad_actions = [].
Proof. vm_compute. reflexivity. Qed.

Lemma action_ok_sound a len acc :
  action_ok a = true ->
  In len (snd (fst a)) -> In acc (snd a) ->
  access_ok len acc = true.
Proof.
  destruct a as [[[nm ln] lens] accs]. cbn [action_ok fst snd]. intros H Hl Ha.
  rewrite forallb_forall in H. specialize (H len Hl). rewrite forallb_forall in H. auto.
Qed.

Lemma message_items_total :
  forall i, In i message_items -> is_parser_error (message_item_outcome i) = true.
Proof. apply forallb_forall. exact message_items_total_b. Qed.

Lemma actions_indices_in_range :
  forall a len acc, In a actions -> In len (snd (fst a)) -> In acc (snd a) ->
                    access_ok len acc = true.
Proof.
  intros a len acc Ha. apply action_ok_sound.
  pose proof actions_index_total as H. unfold bad_actions in H.
  destruct (action_ok a) eqn:E; [reflexivity|].
  assert (In a (filter (fun a => negb (action_ok a)) actions)) as Hin
      by (apply filter_In; split; [exact Ha|rewrite E; reflexivity]).
  apply (in_map (fun a => fst (fst (fst a)))) in Hin. rewrite H in Hin. destruct Hin.
Qed.

Lemma hooks_total : hooks_raise_diag = true.
Proof. vm_compute. reflexivity. Qed.

Lemma lexer_parser_raises_diag : forallb parse_diag (lexer_raises ++ parser_raises) = true.
Proof. vm_compute. reflexivity. Qed.

Lemma front_non_diag_are_internal : front_non_diag = ["InternalError"; "NotImplementedError"]%string.
Proof. vm_compute. reflexivity. Qed.

Lemma errors_are_diagnostics :
  hooks_raise_diag = true /\
  (forall c, In c (lexer_raises ++ parser_raises) -> parse_diag c = true) /\
  front_non_diag = ["InternalError"; "NotImplementedError"]%string.
Proof.
  split; [exact hooks_total|]. split; [apply forallb_forall; exact lexer_parser_raises_diag|].
  exact front_non_diag_are_internal.
Qed.

Lemma p_error_paths_total path v :
  In path p_error_paths ->
  match v with TInt z => Z.abs z < 10 ^ py_int_max_str_digits | TOther => True end ->
  exists k, p_error_path_outcome path v = ParserError k /\ parse_diag k = true.
Proof.
  intros Hin Hv. assert (Hd : parse_diag (fst (fst path)) = true).
  { pose proof hooks_total as H. unfold hooks_raise_diag in H. rewrite forallb_forall in H.
    apply H. apply in_or_app. right. exact Hin. }
  destruct path as [[cls u] ln]. cbn [fst] in Hd. unfold p_error_path_outcome.
  destruct u; destruct v as [z|]; try (eexists; split; [reflexivity|exact Hd]).
  rewrite (str_int_small z Hv). cbn [bind]. eexists; split; [reflexivity|exact Hd].
Qed.

Lemma array_type_token_total cap : Z.abs cap < 10 ^ py_int_max_str_digits -> array_type_token cap = Ok tt.
Proof. intro H. unfold array_type_token. destruct array_type_formats_cap; [apply str_int_small; exact H|reflexivity]. Qed.

(* ====================================================================================== *)
(* 7. options                                                                              *)
(* ====================================================================================== *)

Theorem option_check_total scope name v : is_crash (option_check scope name v) = false.
Proof.
  unfold option_check. destruct (find_descriptor scope name) as [[[[s n] k] f]|]; [|reflexivity].
  destruct (kind_matches k v); [|reflexivity].
  destruct f as [f|]; [|reflexivity]. destruct v; try reflexivity. destruct (f z); reflexivity.
Qed.

Theorem option_get_after_check scope name v s n k f :
  find_descriptor scope name = Some (s, n, k, f) ->
  option_check scope name v = Ok tt -> option_get_typed k v = Ok v.
Proof.
  intros Hf H. unfold option_check in H. rewrite Hf in H. unfold option_get_typed.
  destruct (kind_matches k v); [reflexivity|discriminate].
Qed.

(* ====================================================================================== *)
(* 8. renderers                                                                            *)
(* ====================================================================================== *)

Fixpoint go_defaults (l : list (Z * ty)) : outcome unit :=
  match l with
  | [] => Ok tt
  | kf :: r => bind (py_render_defaults (snd kf)) (fun _ => go_defaults r)
  end.

Lemma py_render_defaults_msg x fs : py_render_defaults (TMsg x fs) = go_defaults fs.
Proof. cbn [py_render_defaults]. induction fs as [|kf r IH]; [reflexivity|]. cbn [go_defaults]. rewrite <- IH. reflexivity. Qed.

Lemma enum_default_guarded : py_enum_default_guarded = true.
Proof. vm_compute. reflexivity. Qed.

(* the Python renderer's defaults are total: a memberless enum has the default 0 *)
Theorem py_render_defaults_total t : py_render_defaults t = Ok tt.
Proof.
  induction t as [| | n | n | n ms | t IH | x c e IH | x fs IH] using ty_ind'.
  1-4: reflexivity.
  - cbn [py_render_defaults]. unfold py_enum_default. rewrite enum_default_guarded. reflexivity.
  - cbn [py_render_defaults]. exact IH.
  - cbn [py_render_defaults]. exact IH.
  - rewrite py_render_defaults_msg.
    induction fs as [|kf r IHr]; [reflexivity|].
    cbn [go_defaults]. inversion IH as [|? ? Hk Hr]; subst. rewrite Hk. cbn [bind]. apply IHr; assumption.
Qed.

Lemma render_ints_total zs : ints_small zs = true -> render_ints zs = Ok tt.
Proof.
  induction zs as [|z r IH]; [reflexivity|]. cbn [ints_small forallb render_ints]. intro H.
  apply andb_true_iff in H. destruct H as [H1 H2]. apply Z.ltb_lt in H1.
  rewrite (pow10_spec _ max_digits_nonneg) in H1. unfold render_int. rewrite (str_int_small z H1).
  assert (Hr : (if format_int_value_guarded then py_catch_value_error (Ok tt) "RendererError"%string else Ok tt)
               = @Ok unit tt) by (destruct format_int_value_guarded; reflexivity).
  rewrite Hr. cbn [bind]. apply IH. exact H2.
Qed.

Theorem render_total l t consts :
  ints_small consts = true -> render l t consts = Ok tt.
Proof.
  intros Hc. unfold render. rewrite (render_ints_total consts Hc). cbn [bind].
  destruct l; try reflexivity. apply py_render_defaults_total.
Qed.

(* the case-style converters (utils.py) applied to accepted names by the renderers and the linter:
   no index into a possibly empty piece, no .group() on a possibly-None match *)
Lemma name_funcs_total : name_funcs_unguarded = [].
Proof. reflexivity. Qed.

(* every regex applied to user text is flat (no nested / ambiguous quantifier) *)
Lemma regexes_flat : regexes_not_flat = [].
Proof. vm_compute. reflexivity. Qed.

Lemma regex_table_polynomial :
  forall e, In e all_regexes ->
    exists alts, flatten (snd e) = Some alts /\
      forall a s, In a alts ->
        (fst (bt a s) <= (length a + 1) * (length s + 2) ^ nstars a)%nat.
Proof.
  intros e He. pose proof regexes_flat as H. unfold regexes_not_flat, non_flat in H.
  destruct (is_flat (snd e)) eqn:E.
  - unfold is_flat in E. destruct (flatten (snd e)) as [alts|]; [|discriminate].
    exists alts. split; [reflexivity|]. intros a s _. apply bt_steps_poly.
  - assert (Hin : In e (filter (fun e => negb (is_flat (snd e))) all_regexes))
      by (apply filter_In; split; [exact He|rewrite E; reflexivity]).
    apply (in_map (fun e => fst (fst e))) in Hin. rewrite H in Hin. destruct Hin.
Qed.

(* ====================================================================================== *)
(* 9. reading sources                                                                      *)
(* ====================================================================================== *)

Lemma read_source_total bytes : utf8_valid bytes = true -> read_source bytes = Ok tt.
Proof. intro H. unfold read_source. rewrite H. reflexivity. Qed.

Lemma import_path_total path :
  existsb (fun c => Ascii.eqb c (ascii_of_nat 0)) path = false -> import_path path = Ok tt.
Proof. intro H. unfold import_path. rewrite H. reflexivity. Qed.

