(* LexOrigin.v — every token of a run comes from ONE consultation of the master regex (or of the
   literals table) at the position where it starts, in the context the input gives it.  This lifts the
   per-position classification facts (LexClass, LexMunch) to whole runs:
     an IDENTIFIER token spelled bool / byte / true / false / yes / no is glued to a word character on
     one side (the guarded form of "reserved words are never IDENTIFIER"; unguarded it is refuted). *)
From Coq Require Import String NArith ZArith List Bool Lia.
From BP Require Import TotalBase LexBase Lex LexSpec LexCase LexProofs LexClass.
From BPGen Require Import GenLexer.
Import ListNotations.

Section Origin.
Variable uw : N -> bool.

Definition tok_origin (p : option N) (lx post : list N) (t : token) : Prop :=
  (exists r fuel l', In r lex_rules
      /\ first_rule uw fuel lex_rules (p, lx ++ post) = Some (r, (lastc p lx, post))
      /\ (length (lx ++ post) <= fuel)%nat
      /\ run_action (r_name r) (r_act r) lx (t_line t) = Ok (t_type t, t_val t, l'))
  \/ (exists c fuel, lx = [c] /\ first_rule uw fuel lex_rules (p, c :: post) = None
      /\ cp_mem c lex_literals = true /\ t_type t = [c] /\ t_val t = VText [c]).

Fixpoint origins (p : option N) (its : list item) (tail : list N) : Prop :=
  match its with
  | [] => True
  | IIgn c :: r => origins (Some c) r tail
  | ITok t lx :: r => tok_origin p lx (items_text r ++ tail) t /\ origins (lastc p lx) r tail
  end.

Lemma lex_items_origins : forall fuel prev rest pos line its e rem,
  lex_items uw fuel prev rest pos line = (its, e, rem) -> (length rest < fuel)%nat -> origins prev its rem.
Proof.
  induction fuel as [|f IH]; intros prev rest pos line its e rem Heq Hlen; [lia|].
  pose proof (lex_items_inv uw (S f) prev rest pos line its e rem Heq Hlen) as (Tall & _).
  cbn [lex_items] in Heq. destruct rest as [|c rest'].
  - inversion Heq; subst. exact I.
  - destruct (cp_mem c lex_ignore).
    + destruct (lex_items uw f (Some c) rest' (pos + 1)%Z line) as [[its' e'] rem'] eqn:Er.
      inversion Heq; subst. cbn [origins]. eapply IH; [exact Er|cbn [length] in Hlen; lia].
    + destruct (first_rule uw f lex_rules (prev, c :: rest')) as [[r [prev' rest'']]|] eqn:Efr.
      * pose proof Efr as Efr0. apply first_rule_sound in Efr. destruct Efr as [Hin (w & Ew & Lw & Dw)]. cbn [fst snd] in *.
        assert (Hw : w <> []).
        { eapply dm_consumes; [exact Dw|]. pose proof rules_consume as HC. rewrite forallb_forall in HC. apply HC. exact Hin. }
        rewrite Ew in Heq. rewrite firstn_app_exact in Heq.
        destruct (run_action (r_name r) (r_act r) w line) as [[[ty v] line']|k|ex] eqn:Eact.
        -- destruct (lex_items uw f prev' rest'' (pos + Z.of_nat (length (w ++ rest'') - length rest''))%Z line')
             as [[its' e'] rem'] eqn:Er.
           inversion Heq; subst.
           assert (Hl2 : (length rest'' < f)%nat).
           { assert (length (c :: rest') = length (w ++ rest'')) by (rewrite Ew; reflexivity).
             rewrite app_length in H. destruct w; [contradiction|]. cbn [length] in *. lia. }
           pose proof (lex_items_inv uw f _ _ _ _ _ _ _ Er Hl2) as (T2 & _).
           cbn [origins]. split.
           ++ left. exists r, f, line'. cbn [t_line t_type t_val]. rewrite T2. rewrite <- Ew.
              repeat split; try assumption. cbn [length] in *. lia.
           ++ eapply IH; [exact Er|exact Hl2].
        -- inversion Heq; subst. exact I.
        -- inversion Heq; subst. exact I.
      * destruct (cp_mem c lex_literals) eqn:Hlit.
        -- destruct (lex_items uw f (Some c) rest' (pos + 1)%Z line) as [[its' e'] rem'] eqn:Er.
           inversion Heq; subst.
           assert (Hl2 : (length rest' < f)%nat) by (cbn [length] in Hlen; lia).
           pose proof (lex_items_inv uw f _ _ _ _ _ _ _ Er Hl2) as (T2 & _).
           cbn [origins]. split.
           ++ right. exists c, f. cbn [t_type t_val]. rewrite T2. repeat split; assumption.
           ++ cbn [lastc]. eapply IH; [exact Er|exact Hl2].
        -- inversion Heq; subst. exact I.
Qed.

Lemma origins_split : forall a p t lx b tail,
  origins p (a ++ ITok t lx :: b) tail -> tok_origin (lastc p (items_text a)) lx (items_text b ++ tail) t.
Proof.
  unfold items_text. induction a as [|i a IH]; intros p t lx b tail H.
  - cbn [app origins flat_map lastc] in *. apply H.
  - destruct i as [c|t0 lx0]; cbn [app origins flat_map item_text] in *.
    + change ([c] ++ flat_map item_text a) with (c :: flat_map item_text a). cbn [lastc]. apply IH. exact H.
    + rewrite lastc_app. apply IH. apply H.
Qed.

(* a rule that is not t_IDENTIFIER never yields the type IDENTIFIER *)
Lemma non_identifier_rule_type r lx line ty v l :
  In r lex_rules -> cps_eqb (r_name r) T_IDENTIFIER = false ->
  run_action (r_name r) (r_act r) lx line = Ok (ty, v, l) -> cps_eqb ty T_IDENTIFIER = false.
Proof.
  intros Hin Hn. unfold lex_rules in Hin. cbn [In] in Hin.
  repeat (destruct Hin as [<-|Hin]; [cbn [r_rx r_name r_act] in *|]); try contradiction;
    try (vm_compute in Hn; discriminate Hn);
    unfold run_action; cbn [a_settype a_kw a_conv a_lineinc andb];
    try (destruct (run_conv _ lx line); cbn [bind]; intro H; inversion H; subst; vm_compute; reflexivity);
    try (intro H; inversion H; subst; vm_compute; reflexivity).
Qed.

(* C08, whole runs: an IDENTIFIER token spelled like a reserved word has a word character directly before
   or directly after it *)
Theorem reserved_identifier_is_glued s its e rem a t lx b :
  lex_run uw s = (its, e, rem) -> its = a ++ ITok t lx :: b ->
  cps_eqb (t_type t) T_IDENTIFIER = true -> In lx reserved_words ->
  word_opt uw (lastc None (items_text a)) = true \/ word_opt uw (hd_error (items_text b ++ rem)) = true.
Proof.
  intros Hrun -> Hty Hres. unfold lex_run in Hrun.
  apply lex_items_origins in Hrun; [|lia]. apply origins_split in Hrun.
  destruct (word_opt uw (lastc None (items_text a))) eqn:Hp; [left; reflexivity|].
  destruct (word_opt uw (hd_error (items_text b ++ rem))) eqn:Hq; [right; reflexivity|]. exfalso.
  destruct Hrun as [(r & fuel & l' & Hin & Hfr & _ & Hact)|(c & fuel & Hlx & _ & _ & Hty2 & _)].
  - destruct (reserved_word_typed uw fuel _ _ lx Hres Hp Hq) as (r2 & s2 & Hfr2 & Hname & _).
    rewrite Hfr in Hfr2. inversion Hfr2; subst r2.
    pose proof (non_identifier_rule_type r lx (t_line t) _ _ _ Hin Hname Hact) as K. rewrite K in Hty. discriminate.
  - rewrite Hty2 in Hty. unfold T_IDENTIFIER in Hty. cbn [cps_eqb] in Hty. rewrite andb_false_r in Hty. discriminate.
Qed.

End Origin.
