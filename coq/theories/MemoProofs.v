(* MemoProofs — the memoising machine refines the uncached reference semantics.

   Main results (re-stated in props/C18.v):
     memo_transparent   : for every history, under the parser's bottom-up discipline and a
                          sane allocator, every operation of the implementation machine
                          returns what the uncached reference machine returns;
     interleave_ref     : on the reference machine, a compilation run interleaved with
                          another one over disjoint names yields what it yields alone;
     interleaving       : the same for the implementation machine (corollary). *)
From Coq Require Import ZArith List Bool Arith Lia.
From BPGen Require Import GenMemo.
From BP Require Import Memo.
Import ListNotations.
Open Scope Z_scope.

(* ------------------------------------------------------------------------------------ *)
(* what the proofs need from the translated decision functions (GenMemo, regenerated
   from the source on every run): if the source changes so that one of these fails, the
   development no longer compiles *)
Lemma cond_true_frozen : forall e a t n f,
  cache_if_frozen_condition e a t n f = true -> f = true.
Proof. intros e a t n f; destruct e, a, t, n, f; cbv; intro H; (reflexivity || discriminate H). Qed.

Lemma cc_uses_cache_true : forall b, conditional_cache_uses_cache b = true -> b = true.
Proof. intros []; cbv; intro H; (reflexivity || discriminate H). Qed.

Lemma setattr_frozen_raises : frozen_setattr_raises true = true.
Proof. reflexivity. Qed.
Lemma push_frozen_raises : push_member_raises true = true.
Proof. reflexivity. Qed.
Lemma freeze_frozen_raises : frozen_freeze_raises true = true.
Proof. reflexivity. Qed.
Lemma key_holds_object : cache_key_holds_object = true.
Proof. reflexivity. Qed.
Lemma real_cond_frozen : forall fr, real_cond fr = true -> fr = true.
Proof.
  intros fr H. unfold real_cond in H. apply cc_uses_cache_true in H. eapply cond_true_frozen; exact H.
Qed.
Lemma real_pin_true : real_pin = true.
Proof. exact key_holds_object. Qed.
Lemma safe_hash_key_inj : forall a b, safe_hash_key a = safe_hash_key b -> a = b.
Proof. intros a b H; exact H. Qed.

Lemma not_raises_unfrozen_setattr : forall b, frozen_setattr_raises b = false -> b = false.
Proof. intros [] H; [rewrite setattr_frozen_raises in H; discriminate | reflexivity]. Qed.
Lemma not_raises_unfrozen_push : forall b, push_member_raises b = false -> b = false.
Proof. intros [] H; [rewrite push_frozen_raises in H; discriminate | reflexivity]. Qed.
Lemma not_raises_unfrozen_freeze : forall b, frozen_freeze_raises b = false -> b = false.
Proof. intros [] H; [rewrite freeze_frozen_raises in H; discriminate | reflexivity]. Qed.

Section Proofs.
  Variable F : fid -> tree -> Z -> option Z.
  Variable always : fid -> bool.
  Variable cond : bool -> bool.
  Variable pin : bool.
  Variable D : nat.
  (* only frozen nodes go through the memo table, and a memo key keeps its node alive *)
  Hypothesis cond_frozen : forall fr, cond fr = true -> fr = true.
  Hypothesis pin_true : pin = true.
  (* a method under the unconditional functools.cache reads class-level data only *)
  Hypothesis F_always : forall f, always f = true ->
    forall t t' x, root_tag t = root_tag t' -> F f t x = F f t' x.

  Notation rstep := (rstep F D).
  Notation rrun := (rrun F D).
  Notation cstep := (cstep F always cond pin D).
  Notation crun := (crun F always cond pin D).
  Notation disciplined := (disciplined F D).
  Notation env_ok := (env_ok F always cond pin D).

  Lemma uses_cache_cases : forall f fr, uses_cache always cond f fr = true -> always f = true \/ fr = true.
  Proof.
    intros f fr H. unfold uses_cache in H. apply orb_true_iff in H. destruct H as [H|H].
    - left; exact H.
    - right. apply cond_frozen; exact H.
  Qed.

  (* ---------------------------------------------------------------- invariants *)
  Definition FC (s : rheap) : Prop :=
    forall n c, s n = Some c -> r_fr c = true -> forall d, In d (r_deps c) -> r_frozen s d = true.

  Definition cell_rel (lc : name -> option addr) (rc : rcell) (cc : ccell) : Prop :=
    r_tag rc = c_tag cc /\ r_val rc = c_val cc /\ r_fr rc = c_fr cc /\
    r_dropped rc = negb (c_handle cc) /\ map lc (r_deps rc) = map Some (c_deps cc).

  Record Rel0 (s : rheap) (c : cstate) : Prop := mkRel0 {
    R_used : forall n, used c n = true <-> s n <> None;
    R_loc : forall n a, loc c n = Some a ->
            exists cc rc, heap c a = Some cc /\ c_owner cc = n /\ s n = Some rc /\ cell_rel (loc c) rc cc;
    R_heap : forall a cc, heap c a = Some cc -> loc c (c_owner cc) = Some a;
    R_dom : forall a cc, heap c a = Some cc -> In a (dom c);
    R_gone : forall n rc, s n = Some rc -> loc c n = None -> r_dropped rc = true }.

  Definition MemoOK (c : cstate) : Prop :=
    forall f a x r, In (f, a, x, r) (memo c) ->
      exists cc, heap c a = Some cc /\ (c_fr cc = true \/ always f = true) /\
                 F f (cview D (heap c) a) x = Some r.

  (* frozen cells of s are the same in s' *)
  Definition frozen_same (s s' : rheap) : Prop :=
    forall m rc, s m = Some rc -> r_fr rc = true ->
      exists rc', s' m = Some rc' /\ r_tag rc' = r_tag rc /\ r_val rc' = r_val rc /\
                  r_deps rc' = r_deps rc /\ r_fr rc' = true.

  (* ---------------------------------------------------------------- views *)
  Lemma map_rel_views : forall (lc : name -> option addr) hp s d,
    (forall n a, lc n = Some a -> cview d hp a = rview d s n) ->
    forall l l', map lc l = map Some l' -> map (cview d hp) l' = map (rview d s) l.
  Proof.
    intros lc hp s d IH l. induction l as [|x l IHl]; intros [|y l'] Hm; cbn in *; try discriminate; auto.
    injection Hm as Hx Hm. f_equal; [apply IH; exact Hx | apply IHl; exact Hm].
  Qed.

  Lemma view_eq : forall s c, Rel0 s c ->
    forall d n a, loc c n = Some a -> cview d (heap c) a = rview d s n.
  Proof.
    intros s c R d. induction d as [|d IHd]; intros n a Hl; cbn [cview rview]; [reflexivity|].
    destruct (R_loc _ _ R _ _ Hl) as (cc & rc & Hh & Ho & Hs & Ht & Hv & Hf & Hd & Hm).
    rewrite Hh, Hs, Ht, Hv, Hf. f_equal.
    eapply map_rel_views; [exact IHd | exact Hm].
  Qed.

  Lemma rview_stable : forall s s', FC s -> frozen_same s s' ->
    forall d n rc, s n = Some rc -> r_fr rc = true -> rview d s' n = rview d s n.
  Proof.
    intros s s' HFC Hsame d. induction d as [|d IHd]; intros n rc Hs Hfr; cbn [rview]; [reflexivity|].
    destruct (Hsame n rc Hs Hfr) as (rc' & Hs' & Ht & Hv & Hd & Hf).
    rewrite Hs, Hs', Ht, Hv, Hd, Hf, Hfr. f_equal.
    apply map_ext_in. intros k Hk.
    pose proof (HFC n rc Hs Hfr k Hk) as Hfk. unfold r_frozen in Hfk.
    destruct (s k) as [ck|] eqn:Hk'; [|discriminate].
    eapply IHd; eauto.
  Qed.

  Lemma root_tag_cview : forall hp hp' a cc cc',
    hp a = Some cc -> hp' a = Some cc' -> c_tag cc' = c_tag cc ->
    root_tag (cview D hp' a) = root_tag (cview D hp a).
  Proof.
    intros hp hp' a cc cc' H H' Ht. destruct D; cbn [cview]; [reflexivity|].
    rewrite H, H'. cbn. now rewrite Ht.
  Qed.

  (* ---------------------------------------------------------------- the driver's names *)
  Lemma c_get_some : forall s c n a cc, Rel0 s c -> c_get c n = Some (a, cc) ->
    exists rc, s n = Some rc /\ r_dropped rc = false /\ loc c n = Some a /\ heap c a = Some cc /\
               c_owner cc = n /\ cell_rel (loc c) rc cc /\ c_handle cc = true.
  Proof.
    intros s c n a cc R H. unfold c_get in H.
    destruct (loc c n) as [a'|] eqn:Hl; [|discriminate].
    destruct (R_loc _ _ R _ _ Hl) as (cc' & rc & Hh & Ho & Hs & Hrel).
    rewrite Hh in H. destruct (c_handle cc') eqn:Hhd; [|discriminate].
    injection H as <- <-. exists rc.
    assert (Hdr : r_dropped rc = false).
    { destruct Hrel as (_ & _ & _ & Hd & _). rewrite Hd, Hhd. reflexivity. }
    exact (conj Hs (conj Hdr (conj eq_refl (conj Hh (conj Ho (conj Hrel Hhd)))))).
  Qed.

  Lemma c_get_none : forall s c n, Rel0 s c -> c_get c n = None -> r_usable s n = false.
  Proof.
    intros s c n R H. unfold c_get in H. unfold r_usable.
    destruct (loc c n) as [a|] eqn:Hl.
    - destruct (R_loc _ _ R _ _ Hl) as (cc & rc & Hh & Ho & Hs & Hrel).
      rewrite Hh in H. rewrite Hs. destruct (c_handle cc) eqn:Hhd; [discriminate|].
      destruct Hrel as (_ & _ & _ & Hd & _). rewrite Hd, Hhd. reflexivity.
    - destruct (s n) as [rc|] eqn:Hs; [|reflexivity].
      rewrite (R_gone _ _ R _ _ Hs Hl). reflexivity.
  Qed.

  Lemma c_get_usable : forall s c n a cc, Rel0 s c -> c_get c n = Some (a, cc) -> r_usable s n = true.
  Proof.
    intros s c n a cc R H. destruct (c_get_some _ _ _ _ _ R H) as (rc & Hs & Hd & _).
    unfold r_usable. rewrite Hs, Hd. reflexivity.
  Qed.

  Lemma c_addrs_spec : forall s c, Rel0 s c -> forall ds,
    match c_addrs c ds with
    | Some das => forallb (r_usable s) ds = true /\ map (loc c) ds = map Some das
    | None => forallb (r_usable s) ds = false
    end.
  Proof.
    intros s c R ds. induction ds as [|d t IH]; cbn [c_addrs forallb map]; [split; reflexivity|].
    destruct (c_get c d) as [[a cc]|] eqn:Hg.
    - rewrite (c_get_usable _ _ _ _ _ R Hg). cbn [andb].
      destruct (c_addrs c t) as [l|].
      + destruct IH as [IH1 IH2]. split; [exact IH1|]. cbn [map].
        destruct (c_get_some _ _ _ _ _ R Hg) as (_ & _ & _ & Hl & _). rewrite Hl, IH2. reflexivity.
      + exact IH.
    - rewrite (c_get_none _ _ _ R Hg). reflexivity.
  Qed.

  (* ---------------------------------------------------------------- generic preservation *)
  Lemma FC_rupd : forall s n rc',
    FC s ->
    (r_frozen s n = true -> r_fr rc' = true) ->
    (r_fr rc' = true -> forall d, In d (r_deps rc') -> d = n \/ r_frozen s d = true) ->
    FC (rupd s n rc').
  Proof.
    intros s n rc' HFC Hmono Hdeps m c Hm Hfr d Hd.
    unfold r_frozen, rupd in *.
    destruct (Nat.eqb_spec d n) as [->|Hdn].
    - destruct (Nat.eqb_spec m n) as [->|Hmn].
      + injection Hm as <-. exact Hfr.
      + apply Hmono. exact (HFC m c Hm Hfr n Hd).
    - destruct (Nat.eqb_spec m n) as [->|Hmn].
      + injection Hm as <-. destruct (Hdeps Hfr d Hd) as [->|H]; [contradiction|exact H].
      + exact (HFC m c Hm Hfr d Hd).
  Qed.

  Lemma same_rupd : forall s n rc',
    (forall rc, s n = Some rc -> r_fr rc = true ->
       r_tag rc' = r_tag rc /\ r_val rc' = r_val rc /\ r_deps rc' = r_deps rc /\ r_fr rc' = true) ->
    frozen_same s (rupd s n rc').
  Proof.
    intros s n rc' H m rc Hm Hfr. unfold rupd.
    destruct (Nat.eqb_spec m n) as [->|Hmn].
    - exists rc'. split; [reflexivity|]. exact (H rc Hm Hfr).
    - exists rc. repeat split; auto.
  Qed.

  (* one live cell is replaced by a related one *)
  Lemma Rel0_update : forall s c n a cc rc rc' cc',
    Rel0 s c -> loc c n = Some a -> heap c a = Some cc -> s n = Some rc ->
    c_owner cc' = n -> cell_rel (loc c) rc' cc' ->
    Rel0 (rupd s n rc') (set_heap c (aupd (heap c) a (Some cc'))).
  Proof.
    intros s c n a cc rc rc' cc' R Hl Hh Hs Ho' Hrel.
    assert (Hown : c_owner cc = n).
    { destruct (R_loc _ _ R _ _ Hl) as (cc0 & rc0 & Hh0 & Ho0 & _). rewrite Hh in Hh0. injection Hh0 as <-. exact Ho0. }
    constructor; cbn [loc used heap dom memo set_heap].
    - intro m. unfold rupd. destruct (Nat.eqb_spec m n) as [->|Hmn].
      + split; [discriminate|]. intros _. apply (R_used _ _ R). rewrite Hs. discriminate.
      + apply (R_used _ _ R).
    - intros m a' Hm. unfold rupd, aupd.
      destruct (Nat.eqb_spec m n) as [->|Hmn].
      + rewrite Hl in Hm. injection Hm as <-. rewrite Z.eqb_refl.
        exists cc', rc'. repeat split; auto; apply Hrel.
      + destruct (R_loc _ _ R _ _ Hm) as (cc0 & rc0 & Hh0 & Ho0 & Hs0 & Hrel0).
        destruct (Z.eqb_spec a' a) as [->|Haa].
        * rewrite Hh in Hh0. injection Hh0 as <-. congruence.
        * exists cc0, rc0. repeat split; auto; apply Hrel0.
    - intros a' cc0 H0. unfold aupd in H0. destruct (Z.eqb_spec a' a) as [->|Haa].
      + injection H0 as <-. rewrite Ho'. exact Hl.
      + exact (R_heap _ _ R _ _ H0).
    - intros a' cc0 H0. unfold aupd in H0. destruct (Z.eqb_spec a' a) as [->|Haa].
      + exact (R_dom _ _ R _ _ Hh).
      + exact (R_dom _ _ R _ _ H0).
    - intros m rc0 H0 Hm. unfold rupd in H0. destruct (Nat.eqb_spec m n) as [->|Hmn].
      + rewrite Hl in Hm. discriminate.
      + exact (R_gone _ _ R _ _ H0 Hm).
  Qed.

  (* the memo table stays correct whenever keyed cells survive and frozen cells are untouched *)
  Lemma Memo_preserved : forall s c s' c',
    Rel0 s c -> Rel0 s' c' -> FC s -> MemoOK c -> memo c' = memo c ->
    (forall f a x r, In (f, a, x, r) (memo c) -> forall cc, heap c a = Some cc ->
       exists cc', heap c' a = Some cc' /\ c_owner cc' = c_owner cc /\ c_tag cc' = c_tag cc /\
                   (c_fr cc = true -> c_fr cc' = true)) ->
    frozen_same s s' ->
    MemoOK c'.
  Proof.
    intros s c s' c' R R' HFC HM Hmemo Hsurv Hsame f a x r Hin.
    rewrite Hmemo in Hin.
    destruct (HM _ _ _ _ Hin) as (cc & Hh & Hcase & HF).
    destruct (Hsurv _ _ _ _ Hin _ Hh) as (cc' & Hh' & Ho' & Ht' & Hfr').
    exists cc'. split; [exact Hh'|].
    destruct Hcase as [Hfr|Hal].
    - split; [left; auto|].
      pose proof (R_heap _ _ R _ _ Hh) as Hl.
      pose proof (R_heap _ _ R' _ _ Hh') as Hl'. rewrite Ho' in Hl'.
      destruct (R_loc _ _ R _ _ Hl) as (cc0 & rc & Hh0 & _ & Hs & Hrel).
      rewrite Hh in Hh0. injection Hh0 as <-.
      assert (Hrfr : r_fr rc = true) by (destruct Hrel as (_ & _ & Hf & _); congruence).
      rewrite (view_eq _ _ R' D _ _ Hl').
      rewrite (rview_stable _ _ HFC Hsame D _ _ Hs Hrfr).
      rewrite <- (view_eq _ _ R D _ _ Hl). exact HF.
    - split; [right; exact Hal|].
      rewrite <- HF. apply F_always; [exact Hal|].
      eapply root_tag_cview; eauto.
  Qed.

  (* ---------------------------------------------------------------- small facts *)
  Lemma map_bound : forall (lc : name -> option addr) l l',
    map lc l = map Some l' -> forall d, In d l -> exists a, lc d = Some a /\ In a l'.
  Proof.
    intros lc l. induction l as [|x l IH]; intros [|y l'] Hm d Hd; cbn in *; try discriminate; [contradiction|].
    injection Hm as Hx Hm. destruct Hd as [->|Hd].
    - exists y. auto.
    - destruct (IH _ Hm _ Hd) as (a & Ha & Hin). exists a. auto.
  Qed.

  Lemma lookup_In : forall m f a x r, lookup m f a x = Some r -> In (f, a, x, r) m.
  Proof.
    induction m as [|e m IH]; intros f a x r H; cbn in H; [discriminate|].
    destruct e as [[[f' a'] x'] r']. cbn [key_eqb snd] in H.
    destruct (Nat.eqb_spec f f') as [->|Hf]; cbn [andb] in H.
    - destruct (Z.eqb_spec (safe_hash_key a) (safe_hash_key a')) as [Ha|Ha]; cbn [andb] in H.
      + destruct (Z.eqb_spec x x') as [->|Hx].
        * injection H as <-. apply safe_hash_key_inj in Ha. subst a'. left; reflexivity.
        * right; apply IH; exact H.
      + right; apply IH; exact H.
    - right; apply IH; exact H.
  Qed.

  Lemma pinned_In : forall m f a x r, In (f, a, x, r) m -> pinned m a = true.
  Proof.
    intros m f a x r H. unfold pinned. apply existsb_exists.
    exists (f, a, x, r). split; [exact H|]. apply Z.eqb_refl.
  Qed.

  Lemma referenced_intro : forall c a b cb,
    In b (dom c) -> heap c b = Some cb -> In a (c_deps cb) -> referenced c a = true.
  Proof.
    intros c a b cb Hb Hh Ha. unfold referenced. apply existsb_exists.
    exists b. split; [exact Hb|]. rewrite Hh. apply existsb_exists. exists a. split; [exact Ha|apply Z.eqb_refl].
  Qed.

  Lemma Rel0_memo : forall s c m', Rel0 s c -> Rel0 s (mkS (loc c) (used c) (heap c) (dom c) m').
  Proof. intros s c m' R. destruct R. constructor; cbn; auto. Qed.

  Lemma frozen_same_refl : forall s, frozen_same s s.
  Proof. intros s m rc H Hf. exists rc. repeat split; auto. Qed.

  Lemma not_usable_bad : forall (s : rheap) n (k : rcell -> rheap * out),
    r_usable s n = false ->
    match s n with Some c => if r_dropped c then (s, OBad) else k c | None => (s, OBad) end = (s, OBad).
  Proof.
    intros s n k H. unfold r_usable in H. destruct (s n) as [c|]; [|reflexivity].
    destruct (r_dropped c); [reflexivity|discriminate].
  Qed.

  (* ---------------------------------------------------------------- one step *)
  Definition step_ok (s : rheap) (c : cstate) (o : op) : Prop :=
    fst (snd (cstep c o)) = snd (rstep s o) /\
    Rel0 (fst (rstep s o)) (fst (cstep c o)) /\ MemoOK (fst (cstep c o)) /\ FC (fst (rstep s o)).

  Lemma update_ok : forall s c n a cc rc rc' cc',
    Rel0 s c -> MemoOK c -> FC s ->
    loc c n = Some a -> heap c a = Some cc -> s n = Some rc -> cell_rel (loc c) rc cc ->
    c_owner cc' = n -> c_tag cc' = c_tag cc ->
    (r_fr rc = true ->
       r_tag rc' = r_tag rc /\ r_val rc' = r_val rc /\ r_deps rc' = r_deps rc /\ r_fr rc' = true) ->
    cell_rel (loc c) rc' cc' ->
    (r_fr rc' = true -> forall d, In d (r_deps rc') -> d = n \/ r_frozen s d = true) ->
    Rel0 (rupd s n rc') (set_heap c (aupd (heap c) a (Some cc'))) /\
    MemoOK (set_heap c (aupd (heap c) a (Some cc'))) /\ FC (rupd s n rc').
  Proof.
    intros s c n a cc rc rc' cc' R HM HFC Hl Hh Hs Hrel Ho' Ht' Hkeep Hrel' Hdeps.
    assert (Hown : c_owner cc = n).
    { destruct (R_loc _ _ R _ _ Hl) as (cc0 & rc0 & Hh0 & Ho0 & _). rewrite Hh in Hh0. injection Hh0 as <-. exact Ho0. }
    assert (R' : Rel0 (rupd s n rc') (set_heap c (aupd (heap c) a (Some cc')))).
    { eapply Rel0_update; eauto. }
    split; [exact R'|]. split.
    - eapply (Memo_preserved s c); eauto.
      + intros f a0 x r Hin cc0 Hh0. cbn [heap set_heap]. unfold aupd.
        destruct (Z.eqb_spec a0 a) as [->|Hne].
        * rewrite Hh in Hh0. injection Hh0 as <-. exists cc'. repeat split; auto; try congruence.
          intro Hfr. destruct Hrel as (_ & _ & Hf & _). destruct Hrel' as (_ & _ & Hf' & _).
          rewrite <- Hf in Hfr. destruct (Hkeep Hfr) as (_ & _ & _ & Hfr'). congruence.
        * exists cc0. repeat split; auto.
      + apply same_rupd. intros rc0 Hs0 Hfr0. rewrite Hs in Hs0. injection Hs0 as <-. auto.
    - apply FC_rupd; auto.
      intro Hf. unfold r_frozen in Hf. rewrite Hs in Hf. apply Hkeep in Hf. tauto.
  Qed.

  Ltac same_state :=
    cbn [fst snd]; split; [reflexivity | split; [assumption | split; assumption]].

  Lemma step_SetVal : forall s c n v, Rel0 s c -> MemoOK c -> FC s -> step_ok s c (SetVal n v).
  Proof.
    intros s c n v R HM HFC. unfold step_ok. cbn [Memo.cstep Memo.rstep].
    destruct (c_get c n) as [[a cc]|] eqn:Hg.
    - destruct (c_get_some _ _ _ _ _ R Hg) as (rc & Hs & Hdr & Hl & Hh & Ho & Hrel & Hhd).
      rewrite Hs, Hdr. pose proof Hrel as (Ht & Hv & Hf & Hd & Hm). rewrite Hf.
      destruct (frozen_setattr_raises (c_fr cc)) eqn:Hr; cbn [fst snd].
      + same_state.
      + apply not_raises_unfrozen_setattr in Hr.
        split; [reflexivity|].
        refine (update_ok s c n a cc rc _ _ R HM HFC Hl Hh Hs Hrel _ _ _ _ _).
        * exact Ho.
        * reflexivity.
        * intro H; congruence.
        * unfold cell_rel; cbn; repeat split; auto.
        * cbn. intro H; congruence.
    - rewrite (not_usable_bad s n _ (c_get_none _ _ _ R Hg)). same_state.
  Qed.

  Lemma step_Push : forall s c n d, Rel0 s c -> MemoOK c -> FC s -> step_ok s c (Push n d).
  Proof.
    intros s c n d R HM HFC. unfold step_ok. cbn [Memo.cstep Memo.rstep].
    destruct (c_get c n) as [[a cc]|] eqn:Hg.
    - destruct (c_get_some _ _ _ _ _ R Hg) as (rc & Hs & Hdr & Hl & Hh & Ho & Hrel & Hhd).
      rewrite Hs, Hdr. pose proof Hrel as (Ht & Hv & Hf & Hd & Hm). rewrite Hf.
      destruct (c_get c d) as [[ad cd]|] eqn:Hgd.
      + rewrite (c_get_usable _ _ _ _ _ R Hgd). cbn [negb].
        destruct (c_get_some _ _ _ _ _ R Hgd) as (_ & _ & _ & Hld & _).
        destruct (push_member_raises (c_fr cc)) eqn:Hr; cbn [fst snd].
        * same_state.
        * apply not_raises_unfrozen_push in Hr.
          split; [reflexivity|].
          refine (update_ok s c n a cc rc _ _ R HM HFC Hl Hh Hs Hrel _ _ _ _ _).
          -- exact Ho.
          -- reflexivity.
          -- intro H; congruence.
          -- unfold cell_rel; cbn; repeat split; auto. rewrite !map_app, Hm. cbn. rewrite Hld. reflexivity.
          -- cbn. intro H; congruence.
      + rewrite (c_get_none _ _ _ R Hgd). same_state.
    - rewrite (not_usable_bad s n _ (c_get_none _ _ _ R Hg)). same_state.
  Qed.

  Lemma step_Freeze : forall s c n, Rel0 s c -> MemoOK c -> FC s ->
    freeze_ok s (Freeze n) = true -> step_ok s c (Freeze n).
  Proof.
    intros s c n R HM HFC Hok. unfold step_ok. cbn [Memo.cstep Memo.rstep].
    destruct (c_get c n) as [[a cc]|] eqn:Hg.
    - destruct (c_get_some _ _ _ _ _ R Hg) as (rc & Hs & Hdr & Hl & Hh & Ho & Hrel & Hhd).
      cbn [freeze_ok] in Hok. rewrite Hs in Hok.
      rewrite Hs, Hdr. pose proof Hrel as (Ht & Hv & Hf & Hd & Hm). rewrite Hf.
      destruct (frozen_freeze_raises (c_fr cc)) eqn:Hr; cbn [fst snd].
      + same_state.
      + apply not_raises_unfrozen_freeze in Hr.
        split; [reflexivity|].
        refine (update_ok s c n a cc rc _ _ R HM HFC Hl Hh Hs Hrel _ _ _ _ _).
        * exact Ho.
        * reflexivity.
        * intro H; congruence.
        * unfold cell_rel; cbn; repeat split; auto.
        * cbn. intros _ k Hk. right. rewrite forallb_forall in Hok. auto.
    - rewrite (not_usable_bad s n _ (c_get_none _ _ _ R Hg)). same_state.
  Qed.

  Lemma step_Drop : forall s c n, Rel0 s c -> MemoOK c -> FC s -> step_ok s c (Drop n).
  Proof.
    intros s c n R HM HFC. unfold step_ok. cbn [Memo.cstep Memo.rstep].
    destruct (c_get c n) as [[a cc]|] eqn:Hg.
    - destruct (c_get_some _ _ _ _ _ R Hg) as (rc & Hs & Hdr & Hl & Hh & Ho & Hrel & Hhd).
      rewrite Hs, Hdr. pose proof Hrel as (Ht & Hv & Hf & Hd & Hm). cbn [fst snd].
      split; [reflexivity|].
      refine (update_ok s c n a cc rc _ _ R HM HFC Hl Hh Hs Hrel _ _ _ _ _).
      + exact Ho.
      + reflexivity.
      + cbn. auto.
      + unfold cell_rel; cbn; repeat split; auto.
      + cbn. intros Hfr k Hk. right. exact (HFC _ _ Hs Hfr k Hk).
    - rewrite (not_usable_bad s n _ (c_get_none _ _ _ R Hg)). same_state.
  Qed.

  Lemma step_Call : forall s c f n x, Rel0 s c -> MemoOK c -> FC s -> step_ok s c (Call f n x).
  Proof.
    intros s c f n x R HM HFC. unfold step_ok. cbn [Memo.cstep Memo.rstep].
    destruct (c_get c n) as [[a cc]|] eqn:Hg.
    - destruct (c_get_some _ _ _ _ _ R Hg) as (rc & Hs & Hdr & Hl & Hh & Ho & Hrel & Hhd).
      rewrite Hs, Hdr. rewrite <- (view_eq _ _ R D _ _ Hl).
      destruct (uses_cache always cond f (c_fr cc)) eqn:Hu.
      + destruct (lookup (memo c) f a x) as [r|] eqn:Hlk; cbn [fst snd].
        * apply lookup_In in Hlk. destruct (HM _ _ _ _ Hlk) as (cc0 & _ & _ & HF).
          rewrite HF. same_state.
        * destruct (F f (cview D (heap c) a) x) as [r|] eqn:HF; cbn [fst snd].
          -- split; [reflexivity|]. split; [apply Rel0_memo; exact R|]. split; [|exact HFC].
             intros f0 a0 x0 r0 Hin. cbn [memo heap] in *. destruct Hin as [Heq|Hin].
             ++ injection Heq as <- <- <- <-. exists cc. split; [exact Hh|]. split; [|exact HF].
                destruct (uses_cache_cases _ _ Hu); auto.
             ++ exact (HM _ _ _ _ Hin).
          -- same_state.
      + same_state.
    - rewrite (not_usable_bad s n _ (c_get_none _ _ _ R Hg)). same_state.
  Qed.

  Lemma step_Reclaim : forall s c a, Rel0 s c -> MemoOK c -> FC s -> step_ok s c (Reclaim a).
  Proof.
    intros s c a R HM HFC. unfold step_ok. cbn [Memo.cstep Memo.rstep].
    destruct (heap c a) as [cc|] eqn:Hh; [|same_state].
    destruct (c_handle cc || (pin && pinned (memo c) a) || referenced c a) eqn:Hguard;
      cbn [fst snd]; [same_state|].
    apply orb_false_iff in Hguard. destruct Hguard as [Hguard Href].
    apply orb_false_iff in Hguard. destruct Hguard as [Hhd Hpin].
    rewrite pin_true in Hpin. cbn [andb] in Hpin.
    set (n0 := c_owner cc).
    pose proof (R_heap _ _ R _ _ Hh) as Hl0. fold n0 in Hl0.
    split; [reflexivity|].
    assert (R' : Rel0 s (mkS (nupd (loc c) n0 None) (used c) (aupd (heap c) a None) (dom c) (memo c))).
    { constructor; cbn [loc used heap dom memo].
      - apply (R_used _ _ R).
      - intros m a' Hm. unfold nupd in Hm. destruct (Nat.eqb_spec m n0) as [->|Hmn]; [discriminate|].
        destruct (R_loc _ _ R _ _ Hm) as (cc0 & rc0 & Hh0 & Ho0 & Hs0 & Hrel0).
        assert (Hne : a' <> a).
        { intros ->. rewrite Hh in Hh0. injection Hh0 as <-. apply Hmn. symmetry. exact Ho0. }
        exists cc0, rc0. unfold aupd. destruct (Z.eqb_spec a' a); [contradiction|].
        repeat split; auto; try apply Hrel0.
        destruct Hrel0 as (_ & _ & _ & _ & Hm0). rewrite <- Hm0.
        apply map_ext_in. intros k Hk. unfold nupd. destruct (Nat.eqb_spec k n0) as [->|]; [|reflexivity].
        exfalso. destruct (map_bound _ _ _ Hm0 _ Hk) as (ak & Hak & Hin).
        rewrite Hl0 in Hak. injection Hak as <-.
        rewrite (referenced_intro c a a' cc0 (R_dom _ _ R _ _ Hh0) Hh0 Hin) in Href. discriminate.
      - intros a' cc0 H0. unfold aupd in H0. destruct (Z.eqb_spec a' a) as [->|Hne]; [discriminate|].
        pose proof (R_heap _ _ R _ _ H0) as Hl1. unfold nupd.
        destruct (Nat.eqb_spec (c_owner cc0) n0) as [Heq|]; [|exact Hl1].
        rewrite Heq in Hl1. rewrite Hl0 in Hl1. injection Hl1 as ->. contradiction.
      - intros a' cc0 H0. unfold aupd in H0. destruct (Z.eqb_spec a' a) as [->|Hne]; [discriminate|].
        exact (R_dom _ _ R _ _ H0).
      - intros m rc0 Hs0 Hm. unfold nupd in Hm. destruct (Nat.eqb_spec m n0) as [->|Hmn].
        + destruct (R_loc _ _ R _ _ Hl0) as (cc1 & rc1 & Hh1 & _ & Hs1 & Hrel1).
          rewrite Hh in Hh1. injection Hh1 as <-. rewrite Hs0 in Hs1. injection Hs1 as <-.
          destruct Hrel1 as (_ & _ & _ & Hd & _). rewrite Hd, Hhd. reflexivity.
        + exact (R_gone _ _ R _ _ Hs0 Hm). }
    split; [exact R'|]. split; [|exact HFC].
    eapply (Memo_preserved s c s); eauto.
    - intros f a0 x r Hin cc0 Hh0. cbn [heap]. unfold aupd.
      destruct (Z.eqb_spec a0 a) as [->|Hne].
      + rewrite (pinned_In _ _ _ _ _ Hin) in Hpin. discriminate.
      + exists cc0. repeat split; auto.
    - apply frozen_same_refl.
  Qed.

  Lemma step_Alloc : forall s c n a tg v ds, Rel0 s c -> MemoOK c -> FC s ->
    aux_is_clash (snd (snd (cstep c (Alloc n a tg v ds)))) = false ->
    step_ok s c (Alloc n a tg v ds).
  Proof.
    intros s c n a tg v ds R HM HFC Hnc. unfold step_ok. cbn [Memo.cstep Memo.rstep] in *.
    destruct (used c n) eqn:Hu.
    - apply (R_used _ _ R) in Hu. destruct (s n); [|contradiction]. same_state.
    - assert (Hs : s n = None).
      { destruct (s n) eqn:E; [|reflexivity]. assert (used c n = true) by (apply (R_used _ _ R); congruence). congruence. }
      assert (Hl : loc c n = None).
      { destruct (loc c n) as [a'|] eqn:E; [|reflexivity].
        destruct (R_loc _ _ R _ _ E) as (_ & rc & _ & _ & Hs' & _). congruence. }
      rewrite Hs. pose proof (c_addrs_spec _ _ R ds) as Hsp.
      destruct (c_addrs c ds) as [das|].
      + destruct Hsp as [Hall Hmap]. rewrite Hall.
        destruct (heap c a) as [cx|] eqn:Hh; [cbn in Hnc; discriminate|].
        cbn [fst snd]. split; [reflexivity|].
        set (rc' := mkR tg v ds false false). set (cc' := mkC n tg v das false true).
        assert (Hbound : forall l l', map (loc c) l = map Some l' ->
                  map (nupd (loc c) n (Some a)) l = map (loc c) l).
        { intros l l' Hm. apply map_ext_in. intros k Hk. unfold nupd.
          destruct (Nat.eqb_spec k n) as [->|]; [|reflexivity].
          destruct (map_bound _ _ _ Hm _ Hk) as (ak & Hak & _). congruence. }
        assert (R' : Rel0 (rupd s n rc')
                  (mkS (nupd (loc c) n (Some a)) (nupd (used c) n true) (aupd (heap c) a (Some cc'))
                       (a :: dom c) (memo c))).
        { constructor; cbn [loc used heap dom memo].
          - intro m. unfold nupd, rupd. destruct (Nat.eqb_spec m n) as [->|].
            + split; [discriminate|reflexivity].
            + apply (R_used _ _ R).
          - intros m a' Hm. unfold nupd in Hm. unfold rupd, aupd.
            destruct (Nat.eqb_spec m n) as [->|Hmn].
            + injection Hm as <-. rewrite Z.eqb_refl. exists cc', rc'.
              repeat split; auto. cbn. rewrite (Hbound _ _ Hmap). exact Hmap.
            + destruct (R_loc _ _ R _ _ Hm) as (cc0 & rc0 & Hh0 & Ho0 & Hs0 & Hrel0).
              destruct (Z.eqb_spec a' a) as [->|]; [congruence|].
              exists cc0, rc0. repeat split; auto; try apply Hrel0.
              destruct Hrel0 as (_ & _ & _ & _ & Hm0). rewrite (Hbound _ _ Hm0). exact Hm0.
          - intros a' cc0 H0. unfold aupd in H0. unfold nupd.
            destruct (Z.eqb_spec a' a) as [->|Hne].
            + injection H0 as <-. cbn. rewrite Nat.eqb_refl. reflexivity.
            + pose proof (R_heap _ _ R _ _ H0) as Hl1.
              destruct (Nat.eqb_spec (c_owner cc0) n) as [Heq|]; [|exact Hl1]. congruence.
          - intros a' cc0 H0. unfold aupd in H0. destruct (Z.eqb_spec a' a) as [->|Hne].
            + left; reflexivity.
            + right. exact (R_dom _ _ R _ _ H0).
          - intros m rc0 H0 Hm. unfold rupd in H0. unfold nupd in Hm.
            destruct (Nat.eqb_spec m n) as [->|]; [discriminate|].
            exact (R_gone _ _ R _ _ H0 Hm). }
        split; [exact R'|]. split.
        * eapply (Memo_preserved s c); eauto.
          -- intros f a0 x r Hin cc0 Hh0. cbn [heap]. unfold aupd.
             destruct (Z.eqb_spec a0 a) as [->|]; [congruence|].
             exists cc0. repeat split; auto.
          -- apply same_rupd. intros rc0 Hs0. congruence.
        * apply FC_rupd; auto.
          -- unfold r_frozen. rewrite Hs. discriminate.
          -- cbn. discriminate.
      + rewrite Hsp. same_state.
  Qed.

  Lemma step_sim : forall s c o, Rel0 s c -> MemoOK c -> FC s ->
    freeze_ok s o = true -> aux_is_clash (snd (snd (cstep c o))) = false -> step_ok s c o.
  Proof.
    intros s c o R HM HFC Hok Hnc. destruct o.
    - apply step_Alloc; auto.
    - apply step_SetVal; auto.
    - apply step_Push; auto.
    - apply step_Freeze; auto.
    - apply step_Call; auto.
    - apply step_Drop; auto.
    - apply step_Reclaim; auto.
  Qed.

  Lemma Rel0_init : Rel0 r0 c0.
  Proof.
    constructor; cbn; try discriminate.
    intro n. split; [discriminate|]. intro H. exfalso. apply H. reflexivity.
  Qed.
  Lemma MemoOK_init : MemoOK c0.
  Proof. intros f a x r H. destruct H. Qed.
  Lemma FC_init : FC r0.
  Proof. intros n c H. discriminate. Qed.

  Theorem memo_transparent_gen : forall h s c, Rel0 s c -> MemoOK c -> FC s ->
    disciplined s h = true -> env_ok c h = true -> map fst (crun c h) = rrun s h.
  Proof.
    induction h as [|o t IH]; intros s c R HM HFC Hd He; [reflexivity|].
    cbn [Memo.disciplined] in Hd. apply andb_true_iff in Hd. destruct Hd as [Hok Hd].
    unfold Memo.env_ok in He. cbn [Memo.crun Memo.rrun] in *.
    destruct (Memo.cstep F always cond pin D c o) as [c' [y au]] eqn:Hc.
    destruct (Memo.rstep F D s o) as [s' x] eqn:Hr.
    cbn [forallb snd map fst] in He. apply andb_true_iff in He. destruct He as [Hnc He].
    apply negb_true_iff in Hnc.
    assert (Hstep : step_ok s c o).
    { apply step_sim; auto. rewrite Hc. exact Hnc. }
    unfold step_ok in Hstep. rewrite Hc, Hr in Hstep. cbn [fst snd] in Hstep.
    destruct Hstep as (Hout & R' & HM' & HFC').
    cbn [map fst]. f_equal; [exact Hout|].
    apply IH; auto.
  Qed.

  (* the invariants hold after every history: in particular every memo entry belongs to a live
     node that is frozen (or the method is class-level) and holds the method's value on the
     node's CURRENT view *)
  Theorem memo_invariant_gen : forall h s c, Rel0 s c -> MemoOK c -> FC s ->
    disciplined s h = true -> env_ok c h = true ->
    Rel0 (rfinal F D s h) (cfinal F always cond pin D c h) /\
    MemoOK (cfinal F always cond pin D c h) /\ FC (rfinal F D s h).
  Proof.
    induction h as [|o t IH]; intros s c R HM HFC Hd He; [cbn; auto|].
    cbn [Memo.disciplined] in Hd. apply andb_true_iff in Hd. destruct Hd as [Hok Hd].
    unfold Memo.env_ok in He. cbn [Memo.crun Memo.rfinal Memo.cfinal] in *.
    destruct (Memo.cstep F always cond pin D c o) as [c' [y au]] eqn:Hc.
    cbn [forallb snd map fst] in He. apply andb_true_iff in He. destruct He as [Hnc He].
    apply negb_true_iff in Hnc.
    assert (Hstep : step_ok s c o).
    { apply step_sim; auto. rewrite Hc. exact Hnc. }
    unfold step_ok in Hstep. rewrite Hc in Hstep. cbn [fst snd] in Hstep.
    destruct Hstep as (_ & R' & HM' & HFC').
    apply IH; auto.
  Qed.

  Theorem memo_table_sound : forall h,
    disciplined r0 h = true -> env_ok c0 h = true ->
    forall f a x r, In (f, a, x, r) (memo (cfinal F always cond pin D c0 h)) ->
      exists cc, heap (cfinal F always cond pin D c0 h) a = Some cc /\
                 (c_fr cc = true \/ always f = true) /\
                 F f (cview D (heap (cfinal F always cond pin D c0 h)) a) x = Some r.
  Proof.
    intros h Hd He.
    destruct (memo_invariant_gen h r0 c0 Rel0_init MemoOK_init FC_init Hd He) as (_ & HM & _).
    exact HM.
  Qed.

  (* the parser's discipline keeps every frozen node's children frozen *)
  Theorem discipline_keeps_frozen_closed : forall h,
    disciplined r0 h = true -> env_ok c0 h = true ->
    forall n c, rfinal F D r0 h n = Some c -> r_fr c = true ->
      forall d, In d (r_deps c) -> r_frozen (rfinal F D r0 h) d = true.
  Proof.
    intros h Hd He.
    destruct (memo_invariant_gen h r0 c0 Rel0_init MemoOK_init FC_init Hd He) as (_ & _ & HFC).
    exact HFC.
  Qed.

  Theorem memo_transparent : forall h,
    disciplined r0 h = true -> env_ok c0 h = true -> map fst (crun c0 h) = rrun r0 h.
  Proof.
    intros h. apply memo_transparent_gen; [apply Rel0_init | apply MemoOK_init | apply FC_init].
  Qed.
End Proofs.

(* ------------------------------------------------------------------------------------ *)
(* Interleaving: on the reference machine a compilation does not see another compilation
   that works on other names. *)
Section Interleave.
  Variable F : fid -> tree -> Z -> option Z.
  Variable D : nat.
  Variable Q : name -> bool.               (* the names of the compilation under consideration *)

  Notation rstep := (rstep F D).
  Notation rrun := (rrun F D).

  Definition agree (s s1 : rheap) : Prop := forall n, Q n = true -> s n = s1 n.
  Definition closedQ (s : rheap) : Prop :=
    forall n rc, Q n = true -> s n = Some rc -> forall d, In d (r_deps rc) -> Q d = true.
  Definition names_are (b : bool) (o : op) : bool := forallb (fun n => Bool.eqb (Q n) b) (op_names o).

  Lemma rview_agree : forall s s1, agree s s1 -> closedQ s ->
    forall d n, Q n = true -> rview d s n = rview d s1 n.
  Proof.
    intros s s1 Ha Hc d. induction d as [|d IH]; intros n Hn; cbn [rview]; [reflexivity|].
    rewrite <- (Ha n Hn). destruct (s n) as [rc|] eqn:Hs; [|reflexivity].
    f_equal. apply map_ext_in. intros k Hk. apply IH. exact (Hc n rc Hn Hs k Hk).
  Qed.

  Lemma usable_agree : forall s s1, agree s s1 -> forall d, Q d = true -> r_usable s d = r_usable s1 d.
  Proof. intros s s1 Ha d Hd. unfold r_usable. rewrite (Ha d Hd). reflexivity. Qed.

  Lemma frozen_agree : forall s s1, agree s s1 -> forall d, Q d = true -> r_frozen s d = r_frozen s1 d.
  Proof. intros s s1 Ha d Hd. unfold r_frozen. rewrite (Ha d Hd). reflexivity. Qed.

  Lemma forallb_agree : forall (f g : name -> bool) l,
    (forall d, In d l -> f d = g d) -> forallb f l = forallb g l.
  Proof.
    intros f g l H. induction l as [|x l IH]; cbn; [reflexivity|].
    rewrite (H x (or_introl eq_refl)), IH; [reflexivity|]. intros d Hd. apply H. right; exact Hd.
  Qed.

  Lemma agree_rupd_own : forall s s1 n c, agree s s1 -> agree (rupd s n c) (rupd s1 n c).
  Proof. intros s s1 n c Ha m Hm. unfold rupd. destruct (Nat.eqb m n); [reflexivity|exact (Ha m Hm)]. Qed.

  Lemma agree_rupd_other : forall s s1 n c, agree s s1 -> Q n = false -> agree (rupd s n c) s1.
  Proof.
    intros s s1 n c Ha Hn m Hm. unfold rupd. destruct (Nat.eqb_spec m n) as [->|]; [congruence|exact (Ha m Hm)].
  Qed.

  Lemma closed_rupd : forall s n c, closedQ s ->
    (Q n = true -> forall d, In d (r_deps c) -> Q d = true) -> closedQ (rupd s n c).
  Proof.
    intros s n c Hc H m rc Hm Hs d Hd. unfold rupd in Hs. destruct (Nat.eqb_spec m n) as [->|].
    - injection Hs as <-. exact (H Hm d Hd).
    - exact (Hc m rc Hm Hs d Hd).
  Qed.

  Lemma forallb_names : forall b l, forallb (fun n => Bool.eqb (Q n) b) l = true ->
    forall d, In d l -> Q d = b.
  Proof.
    intros b l H d Hd. rewrite forallb_forall in H. apply eqb_prop. exact (H d Hd).
  Qed.

  (* an operation of the compilation itself *)
  Lemma own_step : forall s s1 o, agree s s1 -> closedQ s -> names_are true o = true ->
    snd (rstep s o) = snd (rstep s1 o) /\
    agree (fst (rstep s o)) (fst (rstep s1 o)) /\ closedQ (fst (rstep s o)) /\
    freeze_ok s o = freeze_ok s1 o.
  Proof.
    intros s s1 o Ha Hc Hn. unfold names_are in Hn.
    pose proof (forallb_names _ _ Hn) as HQ. clear Hn.
    destruct o as [n a tg v ds|n v|n d|n|f n x|n|a]; cbn [op_names] in HQ; cbn [Memo.rstep freeze_ok].
    - (* Alloc *)
      assert (Hqn : Q n = true) by (apply HQ; left; reflexivity).
      assert (Hds : forall d, In d ds -> Q d = true) by (intros d Hd; apply HQ; right; exact Hd).
      rewrite <- (Ha n Hqn).
      rewrite <- (forallb_agree (r_usable s) (r_usable s1) ds)
        by (intros d Hd; apply usable_agree; auto).
      destruct (s n); [cbn; auto|].
      destruct (forallb (r_usable s) ds); cbn [fst snd]; [|auto].
      split; [reflexivity|]. split; [apply agree_rupd_own; exact Ha|]. split; [|reflexivity].
      apply closed_rupd; [exact Hc|]. cbn. intros _ d Hd. auto.
    - (* SetVal *)
      assert (Hqn : Q n = true) by (apply HQ; left; reflexivity).
      rewrite <- (Ha n Hqn). destruct (s n) as [c|] eqn:Hs; [|cbn; auto].
      destruct (r_dropped c); [cbn; auto|].
      destruct (frozen_setattr_raises (r_fr c)); cbn [fst snd]; [auto|].
      split; [reflexivity|]. split; [apply agree_rupd_own; exact Ha|]. split; [|reflexivity].
      apply closed_rupd; [exact Hc|]. cbn. intros _ d Hd. exact (Hc n c Hqn Hs d Hd).
    - (* Push *)
      assert (Hqn : Q n = true) by (apply HQ; left; reflexivity).
      assert (Hqd : Q d = true) by (apply HQ; right; left; reflexivity).
      rewrite <- (Ha n Hqn). rewrite <- (usable_agree _ _ Ha d Hqd).
      destruct (s n) as [c|] eqn:Hs; [|cbn; auto].
      destruct (r_dropped c); [cbn; auto|].
      destruct (negb (r_usable s d)); [cbn; auto|].
      destruct (push_member_raises (r_fr c)); cbn [fst snd]; [auto|].
      split; [reflexivity|]. split; [apply agree_rupd_own; exact Ha|]. split; [|reflexivity].
      apply closed_rupd; [exact Hc|]. cbn. intros _ k Hk. apply in_app_or in Hk.
      destruct Hk as [Hk|[<-|[]]]; [exact (Hc n c Hqn Hs k Hk)|exact Hqd].
    - (* Freeze *)
      assert (Hqn : Q n = true) by (apply HQ; left; reflexivity).
      rewrite <- (Ha n Hqn). destruct (s n) as [c|] eqn:Hs; [|cbn; auto].
      assert (Hfz : forallb (r_frozen s) (r_deps c) = forallb (r_frozen s1) (r_deps c)).
      { apply forallb_agree. intros d Hd. apply frozen_agree; [exact Ha|]. exact (Hc n c Hqn Hs d Hd). }
      destruct (r_dropped c); [cbn; auto|].
      destruct (frozen_freeze_raises (r_fr c)); cbn [fst snd]; [auto|].
      split; [reflexivity|]. split; [apply agree_rupd_own; exact Ha|]. split; [|exact Hfz].
      apply closed_rupd; [exact Hc|]. cbn. intros _ d Hd. exact (Hc n c Hqn Hs d Hd).
    - (* Call *)
      assert (Hqn : Q n = true) by (apply HQ; left; reflexivity).
      rewrite <- (Ha n Hqn). rewrite <- (rview_agree _ _ Ha Hc D n Hqn).
      destruct (s n) as [c|]; [|cbn; auto]. destruct (r_dropped c); cbn; auto.
    - (* Drop *)
      assert (Hqn : Q n = true) by (apply HQ; left; reflexivity).
      rewrite <- (Ha n Hqn). destruct (s n) as [c|] eqn:Hs; [|cbn; auto].
      destruct (r_dropped c); cbn [fst snd]; [auto|].
      split; [reflexivity|]. split; [apply agree_rupd_own; exact Ha|]. split; [|reflexivity].
      apply closed_rupd; [exact Hc|]. cbn. intros _ d Hd. exact (Hc n c Hqn Hs d Hd).
    - cbn. auto.
  Qed.

  (* an operation of the other compilation *)
  Lemma other_step : forall s s1 o, agree s s1 -> closedQ s -> names_are false o = true ->
    agree (fst (rstep s o)) s1 /\ closedQ (fst (rstep s o)).
  Proof.
    intros s s1 o Ha Hc Hn. unfold names_are in Hn.
    pose proof (forallb_names _ _ Hn) as HQ. clear Hn.
    assert (Hupd : forall n c, Q n = false -> agree (rupd s n c) s1 /\ closedQ (rupd s n c)).
    { intros n c Hq. split; [apply agree_rupd_other; auto|]. apply closed_rupd; [exact Hc|]. congruence. }
    destruct o as [n a tg v ds|n v|n d|n|f n x|n|a]; cbn [op_names] in HQ; cbn [Memo.rstep];
      try (assert (Hqn : Q n = false) by (apply HQ; left; reflexivity)).
    - destruct (s n); [cbn; auto|]. destruct (forallb (r_usable s) ds); cbn [fst]; auto.
    - destruct (s n) as [c|]; [|cbn; auto]. destruct (r_dropped c); [cbn; auto|].
      destruct (frozen_setattr_raises (r_fr c)); cbn [fst]; auto.
    - destruct (s n) as [c|]; [|cbn; auto]. destruct (r_dropped c); [cbn; auto|].
      destruct (negb (r_usable s d)); [cbn; auto|].
      destruct (push_member_raises (r_fr c)); cbn [fst]; auto.
    - destruct (s n) as [c|]; [|cbn; auto]. destruct (r_dropped c); [cbn; auto|].
      destruct (frozen_freeze_raises (r_fr c)); cbn [fst]; auto.
    - destruct (s n) as [c|]; [|cbn; auto]. destruct (r_dropped c); cbn; auto.
    - destruct (s n) as [c|]; [|cbn; auto]. destruct (r_dropped c); cbn [fst]; auto.
    - cbn. auto.
  Qed.

  (* tags: [own p] tells whether the operation belongs to the compilation *)
  Definition sepQ (th : list (bool * op)) : bool :=
    forallb (fun p => names_are (fst p) (snd p)) th.

  Lemma interleave_ref_gen : forall th s s1, agree s s1 -> closedQ s -> sepQ th = true ->
    sel_out true th (rrun s (map snd th)) = rrun s1 (sel true th) /\
    (Memo.disciplined F D s (map snd th) = true -> Memo.disciplined F D s1 (sel true th) = true).
  Proof.
    induction th as [|[b o] t IH]; intros s s1 Ha Hc Hsep; [split; auto|].
    cbn [sepQ forallb fst snd] in Hsep. apply andb_true_iff in Hsep. destruct Hsep as [Hn Hsep].
    cbn [map snd Memo.rrun Memo.disciplined].
    destruct b.
    - destruct (own_step s s1 o Ha Hc Hn) as (Hout & Ha' & Hc' & Hfz).
      unfold sel. cbn [filter fst Bool.eqb map snd]. fold (sel true t).
      cbn [Memo.rrun Memo.disciplined].
      destruct (Memo.rstep F D s o) as [s' x]. destruct (Memo.rstep F D s1 o) as [s1' x1].
      cbn [fst snd] in *. cbn [sel_out Bool.eqb].
      destruct (IH s' s1' Ha' Hc' Hsep) as [IH1 IH2].
      split.
      + rewrite Hout, IH1. reflexivity.
      + intro Hd. apply andb_true_iff in Hd. destruct Hd as [Hd1 Hd2].
        rewrite <- Hfz, Hd1. cbn [andb]. apply IH2. exact Hd2.
    - destruct (other_step s s1 o Ha Hc Hn) as (Ha' & Hc').
      unfold sel. cbn [filter fst Bool.eqb]. fold (sel true t).
      destruct (Memo.rstep F D s o) as [s' x]. cbn [fst snd] in *. cbn [sel_out Bool.eqb].
      destruct (IH s' s1 Ha' Hc' Hsep) as [IH1 IH2].
      split; [exact IH1|].
      intro Hd. apply andb_true_iff in Hd. destruct Hd as [_ Hd2]. apply IH2. exact Hd2.
  Qed.
End Interleave.

Section InterleaveTop.
  Variable F : fid -> tree -> Z -> option Z.
  Variable always : fid -> bool.
  Variable cond : bool -> bool.
  Variable pin : bool.
  Variable D : nat.
  Hypothesis cond_frozen : forall fr, cond fr = true -> fr = true.
  Hypothesis pin_true : pin = true.
  Hypothesis F_always : forall f, always f = true ->
    forall t t' x, root_tag t = root_tag t' -> F f t x = F f t' x.

  Definition retag (b : bool) (th : list (bool * op)) : list (bool * op) :=
    map (fun p => (Bool.eqb (fst p) b, snd p)) th.

  Lemma retag_ops : forall b th, map snd (retag b th) = map snd th.
  Proof. intros b th. unfold retag. rewrite map_map. reflexivity. Qed.

  Lemma retag_sel : forall b th, sel true (retag b th) = sel b th.
  Proof.
    intros b th. unfold sel, retag. induction th as [|[t o] th IH]; cbn; [reflexivity|].
    destruct (Bool.eqb t b) eqn:E; cbn.
    - f_equal. exact IH.
    - exact IH.
  Qed.

  Lemma retag_sel_out : forall {B} b th (l : list B), sel_out true (retag b th) l = sel_out b th l.
  Proof.
    intros B b th. unfold retag. induction th as [|[t o] th IH]; intros l; cbn; [reflexivity|].
    destruct l as [|x l]; [reflexivity|].
    destruct (Bool.eqb t b) eqn:E; cbn; rewrite IH; reflexivity.
  Qed.

  Lemma retag_sep : forall P b th, separated P th = true ->
    sepQ (fun n => Bool.eqb (P n) b) (retag b th) = true.
  Proof.
    intros P b th H. unfold separated in H. unfold sepQ, retag. rewrite forallb_forall in *.
    intros p Hp. apply in_map_iff in Hp. destruct Hp as ([t o] & <- & Hin).
    specialize (H _ Hin). cbn [fst snd] in *. unfold names_are. rewrite forallb_forall in *.
    intros n Hn. specialize (H n Hn). apply eqb_prop in H. rewrite H. apply eqb_reflx.
  Qed.

  (* on the reference machine *)
  Theorem interleave_ref : forall P th b, separated P th = true ->
    sel_out b th (rrun F D r0 (map snd th)) = rrun F D r0 (sel b th) /\
    (disciplined F D r0 (map snd th) = true -> disciplined F D r0 (sel b th) = true).
  Proof.
    intros P th b Hsep.
    pose proof (interleave_ref_gen F D (fun n => Bool.eqb (P n) b) (retag b th) r0 r0) as H.
    rewrite retag_ops, retag_sel, retag_sel_out in H. apply H.
    - intros n _. reflexivity.
    - intros n rc _ Hs. discriminate.
    - apply retag_sep. exact Hsep.
  Qed.

  (* on the memoising machine *)
  Theorem interleaving : forall P th b, separated P th = true ->
    disciplined F D r0 (map snd th) = true ->
    env_ok F always cond pin D c0 (map snd th) = true ->
    env_ok F always cond pin D c0 (sel b th) = true ->
    sel_out b th (map fst (crun F always cond pin D c0 (map snd th))) =
    map fst (crun F always cond pin D c0 (sel b th)).
  Proof.
    intros P th b Hsep Hd He He1.
    destruct (interleave_ref P th b Hsep) as [H1 H2].
    rewrite (memo_transparent F always cond pin D cond_frozen pin_true F_always _ Hd He).
    rewrite (memo_transparent F always cond pin D cond_frozen pin_true F_always _ (H2 Hd) He1).
    exact H1.
  Qed.
End InterleaveTop.
