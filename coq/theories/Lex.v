(* Lex.v — executable model of the tokenizer: what `bitproto.lexer.Lexer` +
   `ply.lex.Lexer.token()` (ply 3.11, pinned by digest) do on an input string.

   * [mres r st]: Python's BACKTRACKING regex semantics for the fragment the token rules use
     (literals, classes, `.`, sequence, ordered alternation, greedy `*`/`+`, lazy `*?`, `\b`):
     all ways of matching r at the state st, in the order in which sre's backtracking search
     visits them.  `pattern.match(s, pos)` returns the FIRST one — not the longest.
     A state is (the character before the position, the rest of the input): `\b` looks behind
     the starting position, also when matching starts in the middle of the string
     (`lexre.match(lexdata, lexpos)`).
   * [first_rule]: the master regex `(?P<t_a>..)|(?P<t_b>..)|..` is an ordered alternation: the
     first rule that matches at all wins, with its own first match (m.lastindex = that group).
   * [lex_items]: the loop of ply.lex.Lexer.token() unrolled over the whole input: skip
     t_ignore characters; try the master regex; then `literals`; else t_error.  A rule function
     gets tok.lineno = lexer.lineno BEFORE it runs.
   * [run_action]: the rule bodies, from the descriptors the translator generates.

   Everything that comes from lexer.py (rules, order, regexes, tables, actions, escape loop) is
   in coq/gen/GenLexer.v.  [uw] is the non-ASCII part of `\w` (see LexBase.v). *)
From Coq Require Import String NArith ZArith List Bool Lia.
From BP Require Import TotalBase LexBase.
From BPGen Require Import GenLexer.
Import ListNotations.

(* ---------- matcher -------------------------------------------------------------------- *)
Definition mstate : Type := (option N * list N)%type.

Section Matcher.
Variable uw : N -> bool.

Definition is_word (c : N) : bool := if N.ltb c 128 then ascii_word c else uw c.
Definition word_opt (o : option N) : bool := match o with Some c => is_word c | None => false end.

(* sre AT_UNI_BOUNDARY: thatp = word(ptr[-1]) (0 at the beginning), thisp = word(ptr[0]) (0 at
   the end); succeeds iff thisp != thatp *)
Definition boundary (s : mstate) : bool := xorb (word_opt (fst s)) (word_opt (hd_error (snd s))).

Definition step1 (ok : N -> bool) (s : mstate) : list mstate :=
  match snd s with
  | c :: t => if ok c then [(Some c, t)] else []
  | [] => []
  end.

(* iterate [body]: greedy = try one more iteration first; lazy = try to stop first.  [fuel]
   bounds the number of iterations; any fuel >= the length of the rest of the input is exact
   because the bodies of the token rules cannot match the empty string ([rx_wf], checked by
   computation on the generated rules; the translator refuses a repeat whose body may be
   empty, for which sre has special rules that are not modelled). *)
Fixpoint star_loop (body : mstate -> list mstate) (greedy : bool) (fuel : nat) (s : mstate) : list mstate :=
  match fuel with
  | O => [s]
  | S f =>
      let more := flat_map (star_loop body greedy f) (body s) in
      if greedy then more ++ [s] else s :: more
  end.

Fixpoint mres (fuel : nat) (r : rx) (s : mstate) {struct r} : list mstate :=
  match r with
  | XEps => [s]
  | XChar _ | XNotChar _ | XAny | XIn _ _ => step1 (atom_ok r) s
  | XBound => if boundary s then [s] else []
  | XSeq a b => flat_map (mres fuel b) (mres fuel a s)
  | XAlt a b => mres fuel a s ++ mres fuel b s
  | XStar g a => star_loop (mres fuel a) g fuel s
  end.

(* pattern.match: the first success *)
Definition rmatch (fuel : nat) (r : rx) (s : mstate) : option mstate := hd_error (mres fuel r s).

(* the master regex: first rule (in order) that matches *)
Fixpoint first_rule (fuel : nat) (rules : list rule) (s : mstate) : option (rule * mstate) :=
  match rules with
  | [] => None
  | r :: t => match rmatch fuel (r_rx r) s with
              | Some s' => Some (r, s')
              | None => first_rule fuel t s
              end
  end.

(* ---------- rule actions --------------------------------------------------------------- *)
Definition run_conv (c : conv) (lx : list N) (line : Z) : outcome tvalue :=
  match c with
  | CvKeep => Ok (VText lx)
  | CvNode cls => Ok (VNode cls None lx line)
  | CvCapNode cls k =>
      bind (npy_int 10 py_int_max_str_digits (py_slice_from k lx)) (fun cap =>
      bind (node_cap_check cls cap) (fun cap => Ok (VNode cls (Some cap) lx line)))
  | CvInt base => bind (npy_int base py_int_max_str_digits lx) (fun z => Ok (VInt z))
  | CvBoolIn l => Ok (VBool (cps_mem lx l))
  | CvUnescape => bind (unescape_token lx) (fun v => Ok (VText v))
  end.

(* -> (token type, token value, lexer.lineno afterwards) *)
Definition run_action (name : list N) (a : option action) (lx : list N) (line : Z)
  : outcome (list N * tvalue * Z) :=
  match a with
  | None => Ok (name, VText lx, line)
  | Some a =>
      let ty := match a_settype a with Some t => t | None => name end in
      let ty := if a_kw a && cps_mem lx lex_keywords then map cp_upper lx else ty in
      bind (run_conv (a_conv a) lx line) (fun v => Ok (ty, v, (line + a_lineinc a)%Z))
  end.

(* ---------- the token loop --------------------------------------------------------------- *)
Record token : Type := mkTok {
  t_type : list N;
  t_val : tvalue;
  t_line : Z;       (* tok.lineno *)
  t_pos : Z;        (* tok.lexpos *)
  t_end : Z }.      (* lexer.lexpos after the token: lexeme = lexdata[t_pos:t_end] *)

(* what the loop does with each stretch of the input, in order *)
Inductive item : Type :=
| IIgn (c : N)                          (* a character of t_ignore, skipped *)
| ITok (t : token) (lexeme : list N).   (* a token (rule or literal) *)

Inductive lexend : Type :=
| LDone                                             (* token() returned None: end of input *)
| LError (cls : string) (c : N) (line : Z)          (* t_error: cls(token=c, lineno=line) *)
| LActErr (kind : string) (line : Z)                (* a rule body raised a ParserError subclass *)
| LCrash (e : pyexn)                                (* a rule body raised something else *)
| LFuel.                                            (* artefact of fuel recursion: never produced *)

Definition item_text (i : item) : list N :=
  match i with IIgn c => [c] | ITok _ lx => lx end.

Fixpoint lex_items (fuel : nat) (prev : option N) (rest : list N) (pos : Z) (line : Z)
  : list item * lexend * list N :=
  match fuel with
  | O => ([], LFuel, rest)
  | S f =>
      match rest with
      | [] => ([], LDone, [])
      | c :: rest' =>
          if cp_mem c lex_ignore then
            let '(its, e, rem) := lex_items f (Some c) rest' (pos + 1)%Z line in (IIgn c :: its, e, rem)
          else
            match first_rule f lex_rules (prev, rest) with
            | Some (r, (prev', rest'')) =>
                let n := (length rest - length rest'')%nat in
                let lx := firstn n rest in
                match run_action (r_name r) (r_act r) lx line with
                | Ok (ty, v, line') =>
                    let pos' := (pos + Z.of_nat n)%Z in
                    let '(its, e, rem) := lex_items f prev' rest'' pos' line' in
                    (ITok (mkTok ty v line pos pos') lx :: its, e, rem)
                | ParserError k => ([], LActErr k line, rest)
                | Crash e => ([], LCrash e, rest)
                end
            | None =>
                if cp_mem c lex_literals then
                  let '(its, e, rem) := lex_items f (Some c) rest' (pos + 1)%Z line in
                  (ITok (mkTok [c] (VText [c]) line pos (pos + 1)%Z) [c] :: its, e, rem)
                else ([], LError t_error_class c line, rest)
            end
      end
  end.

Definition tokens_of (its : list item) : list token :=
  flat_map (fun i => match i with ITok t _ => [t] | IIgn _ => [] end) its.

Definition lex_run (s : list N) : list item * lexend * list N :=
  lex_items (S (length s)) None s 0%Z lexer_initial_lineno.

(* what the caller of token() observes: the tokens, then None or one exception *)
Definition lex (s : list N) : list token * lexend :=
  let '(its, e, _) := lex_run s in (tokens_of its, e).

End Matcher.

(* ---------- syntactic side conditions of the rules (checked by computation) -------------- *)
(* r cannot match without consuming a character *)
Fixpoint consumes (r : rx) : bool :=
  match r with
  | XEps | XBound | XStar _ _ => false
  | XChar _ | XNotChar _ | XAny | XIn _ _ => true
  | XSeq a b => consumes a || consumes b
  | XAlt a b => consumes a && consumes b
  end.

(* every repeated body consumes *)
Fixpoint rx_wf (r : rx) : bool :=
  match r with
  | XSeq a b | XAlt a b => rx_wf a && rx_wf b
  | XStar _ a => consumes a && rx_wf a
  | _ => true
  end.

(* no atom of r accepts the newline *)
Fixpoint no_nl (r : rx) : bool :=
  match r with
  | XEps | XBound => true
  | XChar _ | XNotChar _ | XAny | XIn _ _ => negb (atom_ok r NL)
  | XSeq a b | XAlt a b => no_nl a && no_nl b
  | XStar _ a => no_nl a
  end.

(* ---------- equality tests for the case files ------------------------------------------- *)
Definition opt_eqb {A} (eq : A -> A -> bool) (a b : option A) : bool :=
  match a, b with Some x, Some y => eq x y | None, None => true | _, _ => false end.

Definition tvalue_eqb (a b : tvalue) : bool :=
  match a, b with
  | VText x, VText y => cps_eqb x y
  | VInt x, VInt y => Z.eqb x y
  | VBool x, VBool y => Bool.eqb x y
  | VNode c k t l, VNode c' k' t' l' => String.eqb c c' && opt_eqb Z.eqb k k' && cps_eqb t t' && Z.eqb l l'
  | _, _ => false
  end.

Definition token_eqb (a b : token) : bool :=
  cps_eqb (t_type a) (t_type b) && tvalue_eqb (t_val a) (t_val b) && Z.eqb (t_line a) (t_line b)
  && Z.eqb (t_pos a) (t_pos b) && Z.eqb (t_end a) (t_end b).

Fixpoint list_eqb {A} (eq : A -> A -> bool) (a b : list A) : bool :=
  match a, b with
  | [], [] => true
  | x :: r, y :: s => eq x y && list_eqb eq r s
  | _, _ => false
  end.

Definition lexend_eqb (a b : lexend) : bool :=
  match a, b with
  | LDone, LDone => true
  | LError k c l, LError k' c' l' => String.eqb k k' && N.eqb c c' && Z.eqb l l'
  | LActErr k l, LActErr k' l' => String.eqb k k' && Z.eqb l l'
  | LCrash e, LCrash e' => pyexn_eqb e e'
  | _, _ => false
  end.
