(* LexClass.v — classification facts about the master regex at one position (what
   ply's `lexre.match(lexdata, lexpos)` decides there), for every context:
     * a reserved word (bool, byte, true, false, yes, no) standing at word boundaries on both sides
       is matched by its own rule, never by t_IDENTIFIER;
     * "//" is matched by t_COMMENT whatever follows; a "/" not followed by "/" by t_DIVIDE;
     * t_IDENTIFIER re-types a keyword: a keyword never comes out with type IDENTIFIER;
   and the unguarded statement is FALSE: after a digit the word boundary is missing, so "1bool"
   is INT_LITERAL 1 followed by IDENTIFIER "bool" ([reserved_word_identifier_witness]). *)
From Coq Require Import String NArith ZArith List Bool Lia.
From BP Require Import TotalBase LexBase Lex LexSpec LexCase LexProofs.
From BPGen Require Import GenLexer.
Import ListNotations.

Section Class.
Variable uw : N -> bool.

Lemma star_loop_nonempty body g fuel s : star_loop body g fuel s <> [].
Proof.
  destruct fuel as [|f]; cbn [star_loop]; [discriminate|]. destruct g.
  - intro H. apply app_eq_nil in H. destruct H as [_ H]. discriminate.
  - discriminate.
Qed.

Definition reserved_words : list (list N) := [W_bool; W_byte; W_true; W_false; W_yes; W_no].

Ltac bcase :=
  repeat match goal with
  | |- context [boundary uw ?s] => let B := fresh "B" in destruct (boundary uw s) eqn:B
  end.

Lemma reserved_word_typed fuel p post W :
  In W reserved_words -> word_opt uw p = false -> word_opt uw (hd_error post) = false ->
  exists r s', first_rule uw fuel lex_rules (p, W ++ post) = Some (r, s')
               /\ cps_eqb (r_name r) T_IDENTIFIER = false /\ snd s' = post.
Proof.
  intros HW Hp Hq. unfold reserved_words in HW. cbn [In] in HW.
  assert (Hb1 : forall c r, is_word uw c = true -> boundary uw (p, c :: r) = true).
  { intros c r Hc. unfold boundary. cbn [fst snd hd_error word_opt]. rewrite Hp, Hc. reflexivity. }
  assert (Hb2 : forall c, is_word uw c = true -> boundary uw (Some c, post) = true).
  { intros c Hc. unfold boundary. cbn [fst snd word_opt]. rewrite Hq, Hc. reflexivity. }
  repeat (destruct HW as [<-|HW]; [|]); try contradiction;
    unfold lex_rules, W_bool, W_byte, W_true, W_false, W_yes, W_no;
    cbn [first_rule r_rx app]; unfold rmatch;
    unfold rx_t_newline, rx_t_COMMENT, rx_t_BOOL_TYPE, rx_t_UINT_TYPE, rx_t_INT_TYPE, rx_t_BYTE_TYPE,
           rx_t_HEX_LITERAL, rx_t_INT_LITERAL, rx_t_BOOL_LITERAL, XPlus;
    cbn [mres step1 atom_ok snd fst flat_map app hd_error N.eqb Pos.eqb in_ranges existsb N.leb N.compare Pos.compare Pos.compare_cont andb orb xorb negb];
    rewrite ?Hb1 by reflexivity;
    cbn [mres step1 atom_ok snd fst flat_map app hd_error N.eqb Pos.eqb in_ranges existsb N.leb N.compare Pos.compare Pos.compare_cont andb orb xorb negb];
    rewrite ?Hb2 by reflexivity;
    cbn [flat_map app hd_error];
    eexists _, _; (split; [reflexivity|split; [vm_compute; reflexivity|reflexivity]]).
Qed.

(* "//" starts a comment, whatever precedes and follows *)
Lemma slashes_comment fuel p post :
  exists r s', first_rule uw fuel lex_rules (p, 47%N :: 47%N :: post) = Some (r, s') /\ r_name r = T_COMMENT.
Proof.
  unfold lex_rules. cbn [first_rule r_rx]. unfold rmatch, rx_t_newline, rx_t_COMMENT.
  cbn [mres step1 atom_ok snd fst flat_map app hd_error N.eqb Pos.eqb].
  rewrite !app_nil_r.
  match goal with |- context [hd_error (star_loop ?b true fuel ?s)] => destruct (star_loop b true fuel s) as [|s1 l] eqn:E end.
  - exfalso. eapply star_loop_nonempty. exact E.
  - cbn [app hd_error]. eexists _, _. split; reflexivity.
Qed.

(* a "/" that is not followed by "/" is DIVIDE *)
Lemma lone_slash_divide fuel p post :
  match post with c :: _ => N.eqb c 47 = false | [] => True end ->
  first_rule uw fuel lex_rules (p, 47%N :: post)
  = Some (mkRule T_DIVIDE rx_t_DIVIDE None, (Some 47%N, post)).
Proof.
  intro Hn. unfold lex_rules. cbn [first_rule r_rx]. unfold rmatch.
  unfold rx_t_newline, rx_t_COMMENT, rx_t_BOOL_TYPE, rx_t_UINT_TYPE, rx_t_INT_TYPE, rx_t_BYTE_TYPE,
         rx_t_HEX_LITERAL, rx_t_INT_LITERAL, rx_t_BOOL_LITERAL, rx_t_IDENTIFIER, rx_t_STRING_LITERAL,
         rx_t_PLUS, rx_t_TIMES, rx_t_DIVIDE, XPlus.
  assert (Hc : mres uw fuel (XChar 47) (Some 47%N, post) = []).
  { cbn [mres step1 snd]. destruct post as [|c r]; [reflexivity|]. cbv beta iota in Hn. unfold step1. cbn [snd atom_ok]. rewrite Hn. reflexivity. }
  cbn [mres step1 atom_ok snd fst flat_map app hd_error N.eqb Pos.eqb in_ranges existsb N.leb N.compare Pos.compare Pos.compare_cont andb orb xorb negb] in *.
  rewrite Hc. cbn [flat_map app hd_error].
  destruct (boundary uw (p, 47%N :: post));
    cbn [mres step1 atom_ok snd fst flat_map app hd_error N.eqb Pos.eqb in_ranges existsb N.leb N.compare Pos.compare Pos.compare_cont andb orb xorb negb];
    reflexivity.
Qed.

(* t_IDENTIFIER never returns a keyword with type IDENTIFIER *)
Lemma keyword_retyped name a lx line ty v l :
  a_kw a = true -> cps_mem lx lex_keywords = true ->
  run_action name (Some a) lx line = Ok (ty, v, l) -> ty = map cp_upper lx /\ cps_eqb ty T_IDENTIFIER = false.
Proof.
  intros Hk Hm. unfold run_action. rewrite Hk, Hm. cbn [andb].
  destruct (run_conv (a_conv a) lx line); cbn [bind]; intro H; inversion H; subst. split; [reflexivity|].
  unfold cps_mem in Hm. apply existsb_exists in Hm. destruct Hm as (k & Hin & He).
  apply cps_eqb_eq in He. subst k. unfold lex_keywords in Hin. cbn [In] in Hin.
  repeat (destruct Hin as [<-|Hin]; [vm_compute; reflexivity|]). contradiction.
Qed.

End Class.

(* the statement "bool, byte, uintN, intN, true/false/yes/no are never IDENTIFIER" is FALSE without the
   word-boundary guard: *)
Lemma reserved_word_identifier_witness uw :
  map (fun t => (t_type t, t_val t)) (fst (lex uw [49; 98; 111; 111; 108]%N))
  = [(T_INT_LITERAL, VInt 1); (T_IDENTIFIER, VText W_bool)].
Proof. vm_compute. reflexivity. Qed.
