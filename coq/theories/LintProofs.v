(* LintProofs.v — lemmas about Lint.v: naming recognisers, rule soundness, positions. *)
From Coq Require Import ZArith List String Ascii Bool Lia.
From BP Require Import CliBase Lint LintSpec.
From BPGen Require Import GenCli.
Import ListNotations.
Open Scope string_scope.

(* ------------------------------------------------------------------------------------ *)
(* facts about single characters: exhaustive over the 256 values of `ascii`              *)
(* ------------------------------------------------------------------------------------ *)

Lemma ascii_all : forall P : ascii -> bool,
  (forall b0 b1 b2 b3 b4 b5 b6 b7, P (Ascii b0 b1 b2 b3 b4 b5 b6 b7) = true) -> forall c, P c = true.
Proof. intros P H [b0 b1 b2 b3 b4 b5 b6 b7]. apply H. Qed.

Ltac ascii_sweep := apply ascii_all; intros [] [] [] [] [] [] [] []; vm_compute; reflexivity.

Definition char_facts (c : ascii) : bool :=
  implb (is_upper c) (negb (is_lower c) && negb (is_digit c) && negb (is_us c)) &&
  implb (is_lower c) (negb (is_digit c) && negb (is_us c) && is_upper (to_upper c)) &&
  implb (is_digit c) (negb (is_us c)) &&
  negb (is_upper (to_lower c)) &&
  implb (negb (is_us c)) (negb (is_us (to_upper c)) && negb (is_us (to_lower c))) &&
  implb (is_lower c || is_digit c || is_us c) (negb (Ascii.eqb c "-"%char)) &&
  implb (is_us c) (negb (is_nl c)).

Lemma char_facts_all : forall c, char_facts c = true.
Proof. ascii_sweep. Qed.

Ltac cf c := let H := fresh "CF" in pose proof (char_facts_all c) as H; unfold char_facts in H;
  repeat (apply andb_true_iff in H; destruct H as [H ?]).

Lemma upper_not_lower c : is_upper c = true -> is_lower c = false.
Proof. cf c. destruct (is_upper c), (is_lower c); cbn in *; congruence. Qed.
Lemma upper_not_us c : is_upper c = true -> is_us c = false.
Proof. cf c. destruct (is_upper c), (is_lower c), (is_digit c), (is_us c); cbn in *; congruence. Qed.
Lemma lower_not_us c : is_lower c = true -> is_us c = false.
Proof. cf c. destruct (is_lower c), (is_digit c), (is_us c); cbn in *; congruence. Qed.
Lemma lower_not_upper c : is_lower c = true -> is_upper c = false.
Proof. intro H. destruct (is_upper c) eqn:E; [|reflexivity]. rewrite (upper_not_lower c E) in H. discriminate. Qed.
Lemma digit_not_us c : is_digit c = true -> is_us c = false.
Proof. cf c. destruct (is_digit c), (is_us c); cbn in *; congruence. Qed.
Lemma digit_not_upper c : is_digit c = true -> is_upper c = false.
Proof. cf c. destruct (is_upper c), (is_lower c), (is_digit c); cbn in *; congruence. Qed.
Lemma digit_not_lower c : is_digit c = true -> is_lower c = false.
Proof. cf c. destruct (is_lower c), (is_digit c); cbn in *; congruence. Qed.
Lemma us_not_upper c : is_us c = true -> is_upper c = false.
Proof. intro H. destruct (is_upper c) eqn:E; [|reflexivity]. rewrite (upper_not_us c E) in H. discriminate. Qed.
Lemma us_not_lower c : is_us c = true -> is_lower c = false.
Proof. intro H. destruct (is_lower c) eqn:E; [|reflexivity]. rewrite (lower_not_us c E) in H. discriminate. Qed.
Lemma lower_to_upper c : is_lower c = true -> is_upper (to_upper c) = true.
Proof. cf c. destruct (is_lower c), (is_digit c), (is_us c), (is_upper (to_upper c)); cbn in *; congruence. Qed.
Lemma to_lower_not_upper c : is_upper (to_lower c) = false.
Proof. cf c. destruct (is_upper (to_lower c)); cbn in *; congruence. Qed.
Lemma to_upper_keeps_non_us c : is_us c = false -> is_us (to_upper c) = false.
Proof. cf c. destruct (is_us c), (is_us (to_upper c)); cbn in *; congruence. Qed.
Lemma to_lower_keeps_non_us c : is_us c = false -> is_us (to_lower c) = false.
Proof. cf c. destruct (is_us c), (is_us (to_upper c)), (is_us (to_lower c)); cbn in *; congruence. Qed.
Lemma us_is c : is_us c = true -> c = "_"%char.
Proof. unfold is_us. apply Ascii.eqb_eq. Qed.
Lemma to_upper_id c : is_lower c = false -> to_upper c = c.
Proof. unfold to_upper. intros ->. reflexivity. Qed.
Lemma to_lower_id c : is_upper c = false -> to_lower c = c.
Proof. unfold to_lower. intros ->. reflexivity. Qed.
Lemma snake_char_not_dash c : is_lower c || is_digit c || is_us c = true -> Ascii.eqb c "-"%char = false.
Proof. cf c. intro X. rewrite X in *. cbn in *. destruct (Ascii.eqb c "-"); cbn in *; congruence. Qed.

(* ------------------------------------------------------------------------------------ *)
(* strings                                                                               *)
(* ------------------------------------------------------------------------------------ *)

Lemma append_nil_r : forall s, s ++ "" = s.
Proof. induction s as [|c r IH]; [reflexivity|]. cbn. rewrite IH. reflexivity. Qed.

Lemma sany_app : forall p a b, sany p (a ++ b) = sany p a || sany p b.
Proof. intros p a b. induction a as [|c r IH]; [reflexivity|]. cbn. rewrite IH, orb_assoc. reflexivity. Qed.

Lemma sany_false_sall : forall p s, sany p s = false <-> sall (fun c => negb (p c)) s = true.
Proof.
  intros p s. induction s as [|c r IH]; [cbn; tauto|]. cbn.
  rewrite orb_false_iff, andb_true_iff, negb_true_iff, IH. tauto.
Qed.

Lemma sall_impl : forall (p q : ascii -> bool) s, (forall c, p c = true -> q c = true) -> sall p s = true -> sall q s = true.
Proof.
  intros p q s H. induction s as [|c r IH]; [reflexivity|]. cbn. rewrite !andb_true_iff.
  intros [H1 H2]. split; [apply H, H1|apply IH, H2].
Qed.

Lemma smap_id : forall f s, sall (fun c => Ascii.eqb (f c) c) s = true -> smap f s = s.
Proof.
  intros f s. induction s as [|c r IH]; [reflexivity|]. cbn. rewrite andb_true_iff. intros [H1 H2].
  apply Ascii.eqb_eq in H1. rewrite H1, (IH H2). reflexivity.
Qed.

Lemma split_nonnil : forall s, split_us s <> [].
Proof.
  destruct s as [|c r]; [discriminate|]. cbn. destruct (is_us c); [discriminate|].
  destruct (split_us r); discriminate.
Qed.

Lemma split_no_us : forall s, sany is_us s = false -> split_us s = [s].
Proof.
  induction s as [|c r IH]; [reflexivity|]. cbn. rewrite orb_false_iff. intros [H1 H2].
  rewrite H1, (IH H2). reflexivity.
Qed.

Lemma join_cons : forall p q qs, join_us (p :: q :: qs) = p ++ String "_"%char (join_us (q :: qs)).
Proof. reflexivity. Qed.

Lemma join_split : forall s, join_us (split_us s) = s.
Proof.
  induction s as [|c r IH]; [reflexivity|]. cbn [split_us].
  destruct (is_us c) eqn:E.
  - apply us_is in E. subst c. destruct (split_us r) as [|p ps] eqn:S; [exfalso; exact (split_nonnil r S)|].
    rewrite join_cons, IH. reflexivity.
  - destruct (split_us r) as [|p ps] eqn:S; [exfalso; exact (split_nonnil r S)|].
    destruct ps as [|q qs].
    + cbn [join_us] in *. rewrite IH. reflexivity.
    + rewrite join_cons in *. cbn [append]. rewrite IH. reflexivity.
Qed.

Lemma split_head : forall r y p ps, split_us r = String y p :: ps -> exists r', r = String y r'.
Proof.
  intros [|c r0] y p ps; cbn [split_us]; [discriminate|].
  destruct (is_us c); [discriminate|].
  destruct (split_us r0); intro H; injection H as -> _ _; eexists; reflexivity.
Qed.

Lemma split_parts_sall : forall p s, sall p s = true -> Forall (fun q => sall p q = true) (split_us s).
Proof.
  intros p s. induction s as [|c r IH]; [intros _; repeat constructor|].
  cbn [sall split_us]. rewrite andb_true_iff. intros [H1 H2]. specialize (IH H2).
  destruct (is_us c).
  - constructor; [reflexivity|exact IH].
  - destruct (split_us r) as [|q qs]; [repeat constructor; cbn; rewrite H1; reflexivity|].
    inversion IH as [|? ? Hq Hqs]; subst. constructor; [cbn; rewrite H1, Hq; reflexivity|exact Hqs].
Qed.

Lemma split_parts_no_us : forall s, Forall (fun q => sany is_us q = false) (split_us s).
Proof.
  induction s as [|c r IH]; [repeat constructor|]. cbn [split_us].
  destruct (is_us c) eqn:E.
  - constructor; [reflexivity|exact IH].
  - destruct (split_us r) as [|q qs]; [repeat constructor; cbn; rewrite E; reflexivity|].
    inversion IH as [|? ? Hq Hqs]; subst. constructor; [cbn; rewrite E, Hq; reflexivity|exact Hqs].
Qed.


Lemma adj_all_tail : forall R c r, adj_all R (String c r) = true -> adj_all R r = true.
Proof. intros R c [|y r]; [reflexivity|]. cbn [adj_all]. rewrite andb_true_iff. tauto. Qed.

Lemma split_parts_adj : forall R s, adj_all R s = true -> Forall (fun q => adj_all R q = true) (split_us s).
Proof.
  intros R s. induction s as [|c r IH]; [intros _; repeat constructor|].
  intro H. pose proof (adj_all_tail R c r H) as Hr. specialize (IH Hr). cbn [split_us].
  destruct (is_us c).
  - constructor; [reflexivity|exact IH].
  - destruct (split_us r) as [|q qs] eqn:S; [repeat constructor|].
    inversion IH as [|? ? Hq Hqs]; subst. constructor; [|exact Hqs].
    destruct q as [|y q']; [reflexivity|].
    destruct (split_head r y q' qs S) as [r' ->].
    cbn [adj_all] in H |- *. apply andb_true_iff in H as [H1 _]. rewrite H1. exact Hq.
Qed.


Lemma no_empty_parts_gen : forall s,
  ends_us s = false -> adj_all no_double_us s = true ->
  Forall (fun q => nonempty q = true) (tl (split_us s)) /\
  (starts_us s = false -> s <> "" -> nonempty (hd "" (split_us s)) = true).
Proof.
  induction s as [|c r IH]; [intros _ _; split; [constructor|congruence]|].
  intros He Ha. pose proof (adj_all_tail _ c r Ha) as Har.
  assert (Her : r <> "" -> ends_us r = false) by (destruct r; [congruence|intros _; exact He]).
  cbn [split_us]. destruct (is_us c) eqn:E.
  - cbn [tl hd starts_us]. split; [|rewrite E; discriminate].
    destruct r as [|y r'].
    + cbn [ends_us] in He. rewrite E in He. discriminate.
    + assert (Hy : is_us y = false).
      { cbn [adj_all] in Ha. apply andb_true_iff in Ha as [H1 _]. unfold no_double_us in H1. rewrite E in H1.
        cbn in H1. apply negb_true_iff in H1. exact H1. }
      destruct (IH (Her ltac:(discriminate)) Har) as [IH1 IH2].
      specialize (IH2 Hy ltac:(discriminate)).
      destruct (split_us (String y r')) as [|q qs] eqn:S; [exfalso; exact (split_nonnil _ S)|].
      cbn [tl hd] in *. constructor; assumption.
  - destruct r as [|y r'].
    + cbn. split; [constructor|reflexivity].
    + destruct (IH (Her ltac:(discriminate)) Har) as [IH1 _].
      destruct (split_us (String y r')) as [|q qs] eqn:S; [exfalso; exact (split_nonnil _ S)|].
      cbn [tl hd] in *. split; [exact IH1|reflexivity].
Qed.

Lemma no_empty_parts : forall s,
  s <> "" -> starts_us s = false -> ends_us s = false -> adj_all no_double_us s = true ->
  Forall (fun q => nonempty q = true) (split_us s).
Proof.
  intros s Hn Hs He Ha. destruct (no_empty_parts_gen s He Ha) as [H1 H2]. specialize (H2 Hs Hn).
  destruct (split_us s) as [|q qs] eqn:S; [constructor|]. cbn [tl hd] in *. constructor; assumption.
Qed.

Lemma filter_all : forall A (p : A -> bool) l, Forall (fun x => p x = true) l -> filter p l = l.
Proof. intros A p l H. induction H as [|x r Hx _ IH]; [reflexivity|]. cbn. rewrite Hx, IH. reflexivity. Qed.

Lemma map_id_forall : forall A (f : A -> A) l, Forall (fun x => f x = x) l -> map f l = l.
Proof. intros A f l H. induction H as [|x r Hx _ IH]; [reflexivity|]. cbn. rewrite Hx, IH. reflexivity. Qed.

(* ------------------------------------------------------------------------------------ *)
(* PascalCase                                                                            *)
(* ------------------------------------------------------------------------------------ *)


(* conforming: [A-Z][A-Za-z0-9]*, and the rest is not entirely upper case (pascal_case
   treats a part like "HTTP" as an UPPERCASE word and rewrites it to "Http") *)

Lemma alnum_not_us c : alnum c = true -> is_us c = false.
Proof.
  unfold alnum, is_alpha. rewrite !orb_true_iff. intros [[H|H]|H];
    [apply upper_not_us|apply lower_not_us|apply digit_not_us]; exact H.
Qed.

Lemma pascal_ok_fixed : forall s, pascal_ok s = true -> pascal_case s = s.
Proof.
  intros [|c rest]; [discriminate|]. cbn [pascal_ok]. rewrite !andb_true_iff. intros [[Hc Hr] Hu].
  unfold pascal_case.
  assert (Hus : sany is_us (String c rest) = false).
  { cbn. rewrite (upper_not_us c Hc). cbn. apply sany_false_sall.
    apply (sall_impl alnum); [|exact Hr]. intros x Hx. rewrite (alnum_not_us x Hx). reflexivity. }
  rewrite (split_no_us _ Hus). cbn [filter nonempty map sconcat pascal_part].
  apply negb_true_iff in Hu. rewrite Hu, append_nil_r, (to_upper_id c (upper_not_lower c Hc)). reflexivity.
Qed.


Lemma pascal_part_no_us : forall q, sany is_us q = false -> sany is_us (pascal_part q) = false.
Proof.
  intros [|c r]; [reflexivity|]. cbn [sany pascal_part]. rewrite orb_false_iff. intros [H1 H2].
  destruct (nonempty r && py_isupper r); cbn [sany]; rewrite (to_upper_keeps_non_us c H1); cbn; [|exact H2].
  unfold py_lower. clear H1. induction r as [|x r IH]; [reflexivity|]. cbn in *. apply orb_false_iff in H2 as [Hx Hr].
  rewrite (to_lower_keeps_non_us x Hx), (IH Hr). reflexivity.
Qed.

Lemma pascal_case_no_us : forall s, sany is_us (pascal_case s) = false.
Proof.
  intro s. unfold pascal_case. pose proof (split_parts_no_us s) as H.
  induction H as [|q qs Hq _ IH]; [reflexivity|]. cbn [filter].
  destruct (nonempty q); [|exact IH]. cbn [map sconcat]. rewrite sany_app, (pascal_part_no_us q Hq), IH. reflexivity.
Qed.

Lemma bad_pascal_differs : forall s, bad_pascal s = true -> pascal_case s <> s.
Proof.
  intros s H E. unfold bad_pascal in H. apply orb_true_iff in H as [H|H].
  - pose proof (pascal_case_no_us s) as N. rewrite E in N. congruence.
  - destruct s as [|c r]; [discriminate|]. cbn [starts_lower] in H.
    unfold pascal_case in E. cbn [split_us] in E. rewrite (lower_not_us c H) in E.
    destruct (split_us r) as [|p ps]; cbn [filter nonempty map sconcat pascal_part] in E.
    + destruct (nonempty "" && py_isupper ""); cbn in E; injection E as E _;
        pose proof (lower_to_upper c H) as U; rewrite E in U; rewrite (lower_not_upper c H) in U; discriminate.
    + destruct (nonempty p && py_isupper p); cbn in E; injection E as E _;
        pose proof (lower_to_upper c H) as U; rewrite E in U; rewrite (lower_not_upper c H) in U; discriminate.
Qed.

(* ------------------------------------------------------------------------------------ *)
(* UPPER_CASE                                                                            *)
(* ------------------------------------------------------------------------------------ *)


Lemma upper_char_not_lower c : upper_char c = true -> is_lower c = false.
Proof.
  unfold upper_char. rewrite !orb_true_iff. intros [[H|H]|H];
    [apply upper_not_lower|apply digit_not_lower|apply us_not_lower]; exact H.
Qed.

Lemma upper_ok_isupper : forall s, upper_ok s = true -> py_isupper s = true.
Proof.
  intros [|c r]; [discriminate|]. cbn [upper_ok]. rewrite andb_true_iff. intros [Hc Hr].
  unfold py_isupper. cbn [sany]. rewrite Hc, (upper_not_lower c Hc). cbn.
  apply negb_true_iff, sany_false_sall. apply (sall_impl upper_char); [|exact Hr].
  intros x Hx. rewrite (upper_char_not_lower x Hx). reflexivity.
Qed.

Lemma has_lower_not_isupper : forall s, sany is_lower s = true -> py_isupper s = false.
Proof. intros s H. unfold py_isupper. rewrite H. apply andb_false_r. Qed.

(* ------------------------------------------------------------------------------------ *)
(* snake_case                                                                            *)
(* ------------------------------------------------------------------------------------ *)


(* conforming: starts with a lower-case letter, only [a-z0-9_], no trailing or doubled
   underscore, letters and digits separated by an underscore (snake_case("a1") is "a_1") *)

Lemma snake_char_not_upper c : snake_char c = true -> is_upper c = false.
Proof.
  unfold snake_char. rewrite !orb_true_iff. intros [[H|H]|H];
    [apply lower_not_upper|apply digit_not_upper|apply us_not_upper]; exact H.
Qed.

Lemma sub_b1_id : forall s b, sany is_upper s = false -> sub_b1 b s = s.
Proof.
  induction s as [|x r IH]; intros b H; [reflexivity|]. cbn [sany] in H. apply orb_false_iff in H as [_ Hr].
  cbn [sub_b1]. destruct (b && is_lower x); [rewrite (IH true Hr); reflexivity|].
  destruct r as [|u [|l r']]; try (rewrite (IH false Hr); reflexivity).
  cbn [sany] in Hr. apply orb_false_iff in Hr as [Hu Hr']. rewrite Hu, andb_false_r. cbn [andb].
  rewrite (IH false); [reflexivity|]. cbn [sany]. rewrite Hu. exact Hr'.
Qed.

Lemma sub2_id_p2 : forall p1 p2 s, sany p2 s = false -> sub2 p1 p2 s = s.
Proof.
  intros p1 p2. induction s as [|x r IH]; intro H; [reflexivity|].
  cbn [sany] in H. apply orb_false_iff in H as [_ Hr]. cbn [sub2].
  destruct r as [|y r']; [reflexivity|]. pose proof Hr as Hr0. cbn [sany] in Hr. apply orb_false_iff in Hr as [Hy _].
  rewrite Hy, andb_false_r, (IH Hr0). reflexivity.
Qed.

Lemma sub2_id_adj : forall p1 p2 s, adj_all (fun x y => negb (p1 x && p2 y)) s = true -> sub2 p1 p2 s = s.
Proof.
  intros p1 p2. induction s as [|x r IH]; intro H; [reflexivity|].
  pose proof (adj_all_tail _ x r H) as Hr. cbn [sub2]. destruct r as [|y r']; [reflexivity|].
  cbn [adj_all] in H. apply andb_true_iff in H as [H1 _]. apply negb_true_iff in H1. rewrite H1, (IH Hr). reflexivity.
Qed.

Definition good_part (q : string) : Prop :=
  sany is_upper q = false /\ adj_all no_alpha_digit q = true /\ adj_all no_digit_alpha q = true.

Lemma snake_part_id : forall b q, good_part q -> snake_part b q = q.
Proof.
  intros b q (H1 & H2 & H3). unfold snake_part.
  rewrite (sub_b1_id q false H1), (sub2_id_p2 lower_or_digit is_upper q H1).
  rewrite (sub2_id_adj is_alpha is_digit q H2), (sub2_id_adj is_digit is_alpha q H3).
  destruct (negb b && negb (nonempty q && sall upper_or_digit q)); reflexivity.
Qed.

Lemma strip_trailing_id : forall s, ends_us s = false -> strip_trailing_us s = s.
Proof.
  induction s as [|c r IH]; [reflexivity|]. cbn [ends_us strip_trailing_us]. destruct r as [|y r'].
  - intros ->. reflexivity.
  - intro H. rewrite (IH H). reflexivity.
Qed.

Lemma collapse_id : forall s b, adj_all no_double_us s = true -> (b = true -> starts_us s = false) ->
  collapse_us b s = s.
Proof.
  induction s as [|c r IH]; intros b Ha Hb; [reflexivity|].
  pose proof (adj_all_tail _ c r Ha) as Hr. cbn [collapse_us]. destruct (is_us c) eqn:E.
  - destruct b; [specialize (Hb eq_refl); cbn in Hb; congruence|].
    rewrite (IH true Hr); [reflexivity|]. intros _. destruct r as [|y r']; [reflexivity|].
    cbn [adj_all] in Ha. apply andb_true_iff in Ha as [H1 _]. unfold no_double_us in H1. rewrite E in H1. cbn in H1.
    apply negb_true_iff in H1. exact H1.
  - rewrite (IH false Hr); [reflexivity|discriminate].
Qed.

Lemma drop_us_id : forall s, starts_us s = false -> drop_us s = s.
Proof. intros [|c r]; [reflexivity|]. cbn. intros ->. reflexivity. Qed.
Lemma take_us_nil : forall s, starts_us s = false -> take_us s = "".
Proof. intros [|c r]; [reflexivity|]. cbn. intros ->. reflexivity. Qed.

Lemma snake_ok_fixed : forall s, snake_ok s = true -> snake_case s = s.
Proof.
  intros s H. unfold snake_ok in H. rewrite !andb_true_iff in H.
  destruct H as [[[[[Hst Hch] Hend] Hdd] Had] Hda]. apply negb_true_iff in Hend.
  assert (Hne : s <> "") by (destruct s; [discriminate|discriminate]).
  assert (Hsu : starts_us s = false) by (destruct s as [|c r]; [reflexivity|]; cbn in *; apply lower_not_us, Hst).
  assert (Hup : sany is_upper s = false).
  { apply sany_false_sall. apply (sall_impl snake_char); [|exact Hch]. intros c Hc. rewrite (snake_char_not_upper c Hc). reflexivity. }
  unfold snake_case. destruct s as [|c0 r0] eqn:Es; [congruence|]. rewrite <- Es in *.
  rewrite (smap_id _ s).
  2:{ apply (sall_impl snake_char); [|exact Hch]. intros c Hc. unfold snake_char in Hc. rewrite (snake_char_not_dash c Hc). apply Ascii.eqb_refl. }
  rewrite (take_us_nil s Hsu), (drop_us_id s Hsu), (strip_trailing_id s Hend), Nat.sub_diag.
  rewrite Hup. cbn [andb us_run]. rewrite andb_false_r.
  rewrite (filter_all _ nonempty (split_us s) (no_empty_parts s Hne Hsu Hend Hdd)).
  rewrite (map_id_forall _ (snake_part false) (split_us s)).
  2:{ pose proof (split_parts_sall _ s (proj1 (sany_false_sall is_upper s) Hup)) as F1.
      pose proof (split_parts_adj _ s Had) as F2. pose proof (split_parts_adj _ s Hda) as F3.
      clear - F1 F2 F3. induction F1 as [|q qs Hq _ IH]; [constructor|].
      inversion F2; subst. inversion F3; subst. constructor; [|apply IH; assumption].
      apply snake_part_id. split; [apply sany_false_sall, Hq|split; assumption]. }
  rewrite join_split, (collapse_id s false Hdd ltac:(discriminate)).
  unfold strip_us. rewrite (drop_us_id s Hsu), (strip_trailing_id s Hend).
  unfold py_lower. rewrite (smap_id to_lower s).
  2:{ apply (sall_impl snake_char); [|exact Hch]. intros c Hc. rewrite (to_lower_id c (snake_char_not_upper c Hc)). apply Ascii.eqb_refl. }
  cbn [append]. apply append_nil_r.
Qed.

(* clear violation: an upper-case letter anywhere (the result is always lower case) *)
Lemma take_us_no_upper : forall s, sany is_upper (take_us s) = false.
Proof. induction s as [|c r IH]; [reflexivity|]. cbn. destruct (is_us c) eqn:E; [|reflexivity]. cbn. rewrite (us_not_upper c E), IH. reflexivity. Qed.
Lemma us_run_no_upper : forall n, sany is_upper (us_run n) = false.
Proof. induction n as [|n IH]; [reflexivity|]. cbn [us_run sany]. rewrite IH. reflexivity. Qed.
Lemma py_lower_no_upper : forall s, sany is_upper (py_lower s) = false.
Proof. unfold py_lower. induction s as [|c r IH]; [reflexivity|]. cbn [smap sany]. rewrite (to_lower_not_upper c), IH. reflexivity. Qed.

Lemma snake_case_no_upper : forall s, sany is_upper (snake_case s) = false.
Proof.
  intros [|c r]; [reflexivity|]. unfold snake_case.
  rewrite !sany_app, take_us_no_upper, py_lower_no_upper, us_run_no_upper. reflexivity.
Qed.

Lemma has_upper_snake_differs : forall s, sany is_upper s = true -> snake_case s <> s.
Proof. intros s H E. pose proof (snake_case_no_upper s) as N. rewrite E in N. congruence. Qed.

(* ------------------------------------------------------------------------------------ *)
(* the rule table                                                                        *)
(* ------------------------------------------------------------------------------------ *)
Open Scope Z_scope.



Lemma indent_conforming : forall depth, 1 <= depth -> indent_warns (4 * (depth - 1)) depth = false.
Proof.
  intros depth H. unfold indent_warns, indent_expect.
  replace ((depth - 1) * 4) with (4 * (depth - 1)) by lia. rewrite Z.eqb_refl. cbn. apply andb_false_r.
Qed.

Lemma conforming_no_rule_fires : forall d r,
  conforming d -> In r lint_rules -> kind_matches (r_target r) (l_kind d) = true ->
  test_fires (r_test r) d = false.
Proof.
  intros d r (Hn & Hd & Hi & He) Hin Hk. unfold lint_rules in Hin. cbn [In] in Hin.
  repeat (destruct Hin as [<-|Hin]); try contradiction;
    cbn [r_target r_test fst snd] in *; unfold kind_matches in Hk; cbn in Hk;
    destruct (l_kind d) eqn:K; try discriminate Hk; cbn [name_ok] in Hn; cbn [test_fires].
  all: try (rewrite Hi; apply indent_conforming; exact Hd).
  all: try (rewrite (pascal_ok_fixed _ Hn), String.eqb_refl; reflexivity).
  all: try (rewrite (upper_ok_isupper _ Hn); reflexivity).
  all: try (rewrite (snake_ok_fixed _ Hn), String.eqb_refl; reflexivity).
  all: try (rewrite (He eq_refl); reflexivity).
Qed.

Lemma flat_map_nil : forall A B (f : A -> list B) l, (forall x, In x l -> f x = []) -> flat_map f l = [].
Proof.
  intros A B f l H. induction l as [|x r IH]; [reflexivity|]. cbn. rewrite (H x (or_introl eq_refl)), IH; [reflexivity|].
  intros y Hy. apply H. right. exact Hy.
Qed.

Lemma style_clean : forall defs, Forall conforming defs -> lint defs = [].
Proof.
  intros defs HF. unfold lint. apply flat_map_nil. intros ty _. apply flat_map_nil. intros d Hd.
  apply filter_In in Hd as [Hd Hk]. rewrite Forall_forall in HF. specialize (HF d Hd).
  unfold lint1. apply flat_map_nil. intros r Hr.
  destruct (String.eqb (r_target r) ty) eqn:E; [|reflexivity]. apply String.eqb_eq in E. subst ty.
  rewrite (conforming_no_rule_fires d r HF Hr Hk). reflexivity.
Qed.


Lemma in_lint : forall defs d ty r,
  In d defs -> In ty lint_supported_types -> kind_matches ty (l_kind d) = true ->
  In r lint_rules -> r_target r = ty -> test_fires (r_test r) d = true ->
  In (r_warning r, l_line d) (lint defs).
Proof.
  intros defs d ty r Hd Hty Hk Hr Ht Hf. unfold lint. apply in_flat_map. exists ty. split; [exact Hty|].
  apply in_flat_map. exists d. split; [apply filter_In; split; assumption|].
  unfold lint1. apply in_flat_map. exists r. split; [exact Hr|].
  rewrite Ht, String.eqb_refl, Hf. left. reflexivity.
Qed.

Lemma neq_eqb_false : forall a b : string, a <> b -> String.eqb a b = false.
Proof. intros a b H. destruct (String.eqb a b) eqn:E; [apply String.eqb_eq in E; contradiction|reflexivity]. Qed.

Ltac pick_rule n :=
  match goal with
  | |- In (?w, ?l) (lint ?defs) =>
      let r := eval vm_compute in (nth n lint_rules ("", "", TIndent, "")%string) in
      apply (in_lint defs _ (r_target r) r);
      [assumption | vm_compute; tauto | try (vm_compute; reflexivity) | vm_compute; tauto | reflexivity | ]
  end.

Lemma violation_warns : forall defs d w,
  In d defs -> In w (clear_violations d) -> In (w, l_line d) (lint defs).
Proof.
  intros defs d w Hd Hw. unfold clear_violations in Hw. destruct (l_kind d) eqn:K.
  - destruct (bad_pascal (l_name d)) eqn:B; [|contradiction]. destruct Hw as [<-|[]].
    pick_rule 1%nat. { unfold kind_matches. rewrite K. reflexivity. }
    cbn [test_fires r_test fst snd]. rewrite (neq_eqb_false _ _ (fun E => bad_pascal_differs _ B (eq_sym E))). reflexivity.
  - destruct (sany is_lower (l_name d)) eqn:B; [|contradiction]. destruct Hw as [<-|[]].
    pick_rule 2%nat. { unfold kind_matches. rewrite K. reflexivity. }
    cbn [test_fires r_test fst snd]. rewrite (has_lower_not_isupper _ B). reflexivity.
  - apply in_app_or in Hw as [Hw|Hw].
    + destruct (bad_pascal (l_name d)) eqn:B; [|contradiction]. destruct Hw as [<-|[]].
      pick_rule 3%nat. { unfold kind_matches. rewrite K. reflexivity. }
      cbn [test_fires r_test fst snd]. rewrite (neq_eqb_false _ _ (fun E => bad_pascal_differs _ B (eq_sym E))). reflexivity.
    + destruct (existsb (Z.eqb 0) (l_values d)) eqn:B; [contradiction|]. destruct Hw as [<-|[]].
      pick_rule 4%nat. { unfold kind_matches. rewrite K. reflexivity. }
      cbn [test_fires r_test fst snd]. rewrite B. reflexivity.
  - destruct (sany is_lower (l_name d)) eqn:B; [|contradiction]. destruct Hw as [<-|[]].
    pick_rule 5%nat. { unfold kind_matches. rewrite K. reflexivity. }
    cbn [test_fires r_test fst snd]. rewrite (has_lower_not_isupper _ B). reflexivity.
  - destruct (bad_pascal (l_name d)) eqn:B; [|contradiction]. destruct Hw as [<-|[]].
    pick_rule 6%nat. { unfold kind_matches. rewrite K. reflexivity. }
    cbn [test_fires r_test fst snd]. rewrite (neq_eqb_false _ _ (fun E => bad_pascal_differs _ B (eq_sym E))). reflexivity.
  - destruct (sany is_upper (l_name d)) eqn:B; [|contradiction]. destruct Hw as [<-|[]].
    pick_rule 7%nat. { unfold kind_matches. rewrite K. reflexivity. }
    cbn [test_fires r_test fst snd]. rewrite (neq_eqb_false _ _ (has_upper_snake_differs _ B)). reflexivity.
  - contradiction.
  - contradiction.
Qed.

(* every warning cites the line recorded for the definition it is about *)
Lemma warning_cites_definition : forall defs w l,
  In (w, l) (lint defs) -> exists d, In d defs /\ l = l_line d.
Proof.
  intros defs w l H. unfold lint in H. apply in_flat_map in H as [ty [_ H]].
  apply in_flat_map in H as [d [Hd H]]. apply filter_In in Hd as [Hd _].
  unfold lint1 in H. apply in_flat_map in H as [r [_ H]].
  destruct (String.eqb (r_target r) ty && test_fires (r_test r) d); [|contradiction].
  destruct H as [H|[]]. injection H as _ <-. exists d. split; [exact Hd|reflexivity].
Qed.

(* ------------------------------------------------------------------------------------ *)
(* positions                                                                             *)
(* ------------------------------------------------------------------------------------ *)

Lemma col_invariant : forall pos s i acc line col,
  (pos <= String.length s)%nat -> col = i - acc ->
  snd (linecol_from s pos line col) = i + Z.of_nat pos - rfind_from s i pos acc.
Proof.
  induction pos as [|p IH]; intros s i acc line col Hl Hc.
  - cbn. destruct s; cbn; lia.
  - destruct s as [|c r]; [cbn in Hl; lia|]. cbn [String.length] in Hl.
    cbn [linecol_from rfind_from]. destruct (is_nl c).
    + rewrite (IH r (i + 1) i (line + 1) 1); [lia|lia|lia].
    + rewrite (IH r (i + 1) acc line (col + 1)); [lia|lia|lia].
Qed.

Lemma line_invariant : forall pos s i acc line col,
  (acc = -1 /\ line = 1) \/ (0 <= acc < i /\ 2 <= line) -> 0 <= i ->
  let r := rfind_from s i pos acc in
  let l := fst (linecol_from s pos line col) in
  (r = -1 /\ l = 1) \/ (0 <= r < i + Z.of_nat pos /\ 2 <= l) \/ (0 <= r /\ r = acc /\ 2 <= l).
Proof.
  induction pos as [|p IH]; intros s i acc line col H Hi; cbn zeta.
  - assert (E1 : rfind_from s i 0 acc = acc) by (destruct s; reflexivity).
    assert (E2 : linecol_from s 0 line col = (line, col)) by (destruct s; reflexivity).
    rewrite E1, E2. cbn [fst]. lia.
  - destruct s as [|c r]; [cbn; lia|]. cbn [linecol_from rfind_from]. destruct (is_nl c).
    + specialize (IH r (i + 1) i (line + 1) 1). cbn zeta in IH. lia.
    + specialize (IH r (i + 1) acc line (col + 1)). cbn zeta in IH. lia.
Qed.

Lemma line_rfind : forall text pos,
  (rfind_nl text pos = -1 /\ fst (linecol text pos) = 1) \/
  (0 <= rfind_nl text pos < Z.of_nat pos /\ 2 <= fst (linecol text pos)).
Proof.
  intros text pos. unfold rfind_nl, linecol.
  pose proof (line_invariant pos text 0 (-1) 1 1 (or_introl (conj eq_refl eq_refl)) (Z.le_refl 0)) as H.
  cbn zeta in H. lia.
Qed.

Lemma get_col_spec : forall lexpos r, get_col lexpos r = lexpos - r.
Proof. reflexivity. Qed.

Lemma current_indent_spec : forall lexpos l,
  current_indent lexpos l = if lexpos - l - 1 <? 0 then -1 else lexpos - l - 1.
Proof. reflexivity. Qed.

(* the recorded column is the 1-based column, on every line (the first included: rfind's -1
   is the position "before the file") *)
Lemma col_correct : forall text pos,
  (pos <= String.length text)%nat -> col_of text pos = snd (linecol text pos).
Proof.
  intros text pos Hl. unfold col_of, linecol, rfind_nl. rewrite get_col_spec.
  rewrite (col_invariant pos text 0 (-1) 1 1 Hl eq_refl). lia.
Qed.

(* the indent attribute: 0-based offset of the token in its line, on every line (the parser
   starts with last_newline_pos = -1) *)
Lemma indent_correct : forall text pos,
  (pos <= String.length text)%nat -> indent_of text pos = snd (linecol text pos) - 1.
Proof.
  intros text pos Hl. unfold indent_of, last_newline_pos, linecol. rewrite current_indent_spec.
  rewrite (col_invariant pos text 0 (-1) 1 1 Hl eq_refl).
  destruct (line_rfind text pos) as [[H _]|[H _]]; unfold rfind_nl in *.
  - rewrite H. cbn [Z.ltb Z.compare]. unfold last_newline_pos_init.
    destruct (Z.of_nat pos - -1 - 1 <? 0) eqn:E; [apply Z.ltb_lt in E; lia|lia].
  - destruct (rfind_from text 0 pos (-1) <? 0) eqn:E; [apply Z.ltb_lt in E; lia|].
    destruct (Z.of_nat pos - rfind_from text 0 pos (-1) - 1 <? 0) eqn:E2; [apply Z.ltb_lt in E2; lia|lia].
Qed.

(* lineno *)
Lemma count_nl_app : forall a b, count_nl (a ++ b) = count_nl a + count_nl b.
Proof. induction a as [|c r IH]; intro b; [reflexivity|]. cbn [append count_nl]. rewrite IH. lia. Qed.

Lemma lineno_counts_newlines : forall ps k L,
  forallb piece_ok ps = true -> (k < List.length ps)%nat ->
  nth k (lex_linenos ps L) 0 = L + count_nl (sconcat (map p_text (firstn k ps))).
Proof.
  induction ps as [|p r IH]; intros k L Hok Hk; [cbn in Hk; lia|].
  cbn [forallb] in Hok. apply andb_true_iff in Hok as [Hp Hr].
  destruct k as [|k]; [cbn; lia|].
  cbn [lex_linenos nth firstn map sconcat]. rewrite count_nl_app.
  cbn [List.length] in Hk. rewrite (IH k _ Hr ltac:(lia)).
  unfold piece_ok in Hp. unfold lexer_newline_increment. destruct (writes_lineno (p_rule p)).
  - apply String.eqb_eq in Hp. rewrite Hp.
    replace (count_nl (String "010"%char EmptyString)) with 1 by (vm_compute; reflexivity). lia.
  - apply Z.eqb_eq in Hp. lia.
Qed.

(* first line of linecol = 1 + newlines before pos *)
Fixpoint prefix (n : nat) (s : string) : string :=
  match n, s with S k, String c r => String c (prefix k r) | _, _ => EmptyString end.

Lemma linecol_line : forall pos s line col,
  fst (linecol_from s pos line col) = line + count_nl (prefix pos s).
Proof.
  induction pos as [|p IH]; intros s line col; [destruct s; cbn; lia|].
  destruct s as [|c r]; [cbn; lia|]. cbn [linecol_from prefix count_nl]. destruct (is_nl c); rewrite IH; lia.
Qed.

(* structural facts of lexer.py established by the translator, in the form used by
   lineno_counts_newlines: only t_newline writes lineno, it matches exactly one "\n", and no
   other rule, ignored character or literal can contain a newline *)
Definition lexer_structure_ok : bool :=
  forallb (fun row => negb (snd row) || writes_lineno (fst (fst row))) lexer_rules &&
  negb lexer_ignore_or_literals_contain_newline &&
  forallb (fun w => existsb (fun row => String.eqb (fst (fst row)) w && String.eqb (snd (fst row)) "\n") lexer_rules)
          lexer_lineno_writers &&
  Nat.eqb (List.length lexer_lineno_writers) 1 && Z.eqb lexer_newline_increment 1.

Lemma lexer_structure : lexer_structure_ok = true.
Proof. vm_compute. reflexivity. Qed.

(* the rule table has no rule aimed at the Proto itself or at the generic Definition class
   (the model's item list holds the bound definitions only) *)
Lemma rules_target_bound_definitions :
  forallb (fun r => negb (String.eqb (r_target r) "Proto") && negb (String.eqb (r_target r) "Definition")) lint_rules = true.
Proof. vm_compute. reflexivity. Qed.

(* the regular expressions of utils.snake_case that Lint.sub_b1 / sub2 / take_us / ... model *)
Lemma naming_regexes_pinned :
  re_camel_b1 = "(.)([A-Z][a-z]+)"%string /\ re_camel_b2 = "([a-z0-9])([A-Z])"%string /\
  re_alpha_to_digit = "([A-Za-z])([0-9])"%string /\ re_digit_to_alpha = "([0-9])([A-Za-z])"%string /\
  re_multi_us = "__+"%string /\ re_upper_or_digits = "^[A-Z0-9]+$"%string /\
  re_mixed_case = "[A-Z].*[a-z]|[a-z].*[A-Z]"%string /\ re_leading_us = "^_+"%string /\
  re_trailing_us = "_+$"%string /\
  snakecase_regex_names = ["re_alpha_to_digit"; "re_camel_b1"; "re_camel_b2"; "re_digit_to_alpha"; "re_leading_us";
                           "re_mixed_case"; "re_multi_us"; "re_trailing_us"; "re_upper_or_digits"]%string.
Proof. repeat split; reflexivity. Qed.
