(* PyDecProofs.v — the Python decoder model (PyRt.p_dec over proc_of), run on a buffer
   whose bits at the cursor are Spec.enc_bits t v, into an accessor holding defaults,
   leaves exactly [canon t v] at the addressed position and advances the cursor by nbits t.
   Induction over [ty]; no bound on nesting, widths, capacities. *)
From Coq Require Import ZArith List Bool Lia ZifyBool.
From BP Require Import Bits Schema Spec PyRt ByteStep PyEncStep PyEncProofs PyDecStep PyDecLeaf.
From BPGen Require Import GenPy.
Import ListNotations.
Open Scope Z_scope.

(* ---------- the decoded value: v with fields in schema order, leaves normalised ---------- *)

Fixpoint canon (t : ty) (v : val) : val :=
  match t with
  | TBool => VB (match v with VB b => b | _ => false end)
  | TByte => VZ (zof v)
  | TUint _ => VZ (zof v)
  | TInt _ => VZ (zof v)
  | TEnum _ _ => VZ (zof v)
  | TAlias t' => canon t' v
  | TArr _ _ e => VL (map (canon e) (vlist v))
  | TMsg _ fs =>
      VM ((fix go (l : list (Z * ty)) : list (Z * val) :=
             match l with
             | [] => []
             | kf :: r => (fst kf, canon (snd kf) (vfield (fst kf) v)) :: go r
             end) fs)
  end.

Definition canon_fields (v : val) :=
  fix go (l : list (Z * ty)) : list (Z * val) :=
    match l with
    | [] => []
    | kf :: r => (fst kf, canon (snd kf) (vfield (fst kf) v)) :: go r
    end.

Definition default_fields :=
  fix go (l : list (Z * ty)) : list (Z * val) :=
    match l with
    | [] => []
    | kf :: r => (fst kf, py_default (snd kf)) :: go r
    end.

Lemma canon_msg x fs v : canon (TMsg x fs) v = VM (canon_fields v fs).
Proof. reflexivity. Qed.
Lemma py_default_msg x fs : py_default (TMsg x fs) = VM (default_fields fs).
Proof. reflexivity. Qed.

(* enums whose first declared member is 0 (the exact complement of finding enum-default) *)
Fixpoint dec_guard (t : ty) : bool :=
  match t with
  | TEnum _ ms => hd 0 ms =? 0
  | TAlias t' => dec_guard t'
  | TArr _ _ e => dec_guard e
  | TMsg _ fs =>
      (fix go (l : list (Z * ty)) : bool :=
         match l with
         | [] => true
         | kf :: r => dec_guard (snd kf) && go r
         end) fs
  | _ => true
  end.

Definition fields_guard :=
  fix go (l : list (Z * ty)) : bool :=
    match l with
    | [] => true
    | kf :: r => dec_guard (snd kf) && go r
    end.
Lemma dec_guard_msg x fs : dec_guard (TMsg x fs) = fields_guard fs.
Proof. reflexivity. Qed.

(* ---------- named inner fixpoints of p_dec ---------- *)

Definition p_dec_fields (c' : cls) :=
  fix go (l : list (Z * proc)) (a : val) (x : ctx) : res (val * ctx) :=
    match l with
    | [] => Ok (a, x)
    | kf :: r => r1 <- p_dec (snd kf) c' a (fst kf) [] x ;; go r (fst r1) (snd r1)
    end.

Definition p_dec_arr (e : proc) (c : cls) (fn : Z) (stk : list nat) :=
  fix loop (m k : nat) (acc : val) (x : ctx) : res (val * ctx) :=
    match m with
    | O => Ok (acc, x)
    | S m' => r <- p_dec e c acc fn (stk ++ [k]) x ;; loop m' (S k) (fst r) (snd r)
    end.

Lemma p_dec_msg x nb fs c' c acc fn stk x0 :
  p_dec (PMsg x nb fs c') c acc fn stk x0 =
  (child <- (if di_is_valid fn then get_accessor c acc fn stk else Ok acc) ;;
   let i0 := ci x0 in
   r0 <- (if x then dec_ahead x0 else Ok (0, x0)) ;;
   r <- p_dec_fields c' fs child (snd r0) ;;
   acc' <- (if di_is_valid fn then put_accessor c acc fn stk (fst r) else Ok (fst r)) ;;
   Ok (acc', if x then skip_to (message_ito i0 (fst r0)) (snd r) else snd r)).
Proof. reflexivity. Qed.

Lemma p_dec_array x cap e c acc fn stk x0 :
  p_dec (PArray x cap e) c acc fn stk x0 =
  (let i0 := ci x0 in
   r0 <- (if x then dec_ahead x0 else Ok (0, x0)) ;;
   r <- p_dec_arr e c fn stk cap O acc (snd r0) ;;
   Ok (fst r, if x then skip_to (array_ito i0 (fst r0) (Z.of_nat cap) (ci (snd r))) (snd r) else snd r)).
Proof. reflexivity. Qed.

(* ---------- the tables at a position ---------- *)

Definition kind_of (lt : ty) (d : nat) : skind :=
  match lt with
  | TBool => SKBool
  | TInt n => SKCast (int_storage_bits n)
  | TEnum _ _ => match d with O => SKProxy | _ => SKInt end
  | _ => SKInt
  end.

Definition int_ent (lt : ty) (d : nat) : option ient :=
  match lt with
  | TInt n => if is_std_width n then None
              else Some {| i_depth := d; i_shift := n - 1; i_mask := Z.lnot (Z.shiftl 1 n - 1) |}
  | _ => None
  end.

Definition leaf_tab (lt : ty) (c : cls) (fn : Z) (d : nat) : Prop :=
  lookup fn (c_set c) = Some {| s_depth := d; s_kind := kind_of lt d |} /\
  lookup fn (c_int c) = int_ent lt d /\
  match lt, d with
  | TEnum _ _, O => True
  | _, _ => lookup fn (c_proxy c) = None
  end.

Fixpoint dreach (t : ty) (c : cls) (fn : Z) (d : nat) {struct t} : Prop :=
  match t with
  | TAlias t' => dreach t' c fn d
  | TArr _ _ e => dreach e c fn (S d)
  | TMsg _ _ => lookup fn (c_acc c) = Some d /\ lookup fn (c_proxy c) = None
  | TBool => leaf_tab TBool c fn d
  | TByte => leaf_tab TByte c fn d
  | TUint n => leaf_tab (TUint n) c fn d
  | TInt n => leaf_tab (TInt n) c fn d
  | TEnum n ms => leaf_tab (TEnum n ms) c fn d
  end.

Lemma dreach_leaf t c fn d : is_leaf t = true -> dreach t c fn d = leaf_tab t c fn d.
Proof. destruct t; cbn; intros; try discriminate; reflexivity. Qed.

Lemma proxy_lookup fs k ft :
  keys_distinct (map fst fs) = true -> In (k, ft) fs ->
  lookup k (c_proxy (cls_of fs)) = match ft with TEnum _ ms => Some ms | _ => None end.
Proof.
  intros Hd Hin. cbn [cls_of c_proxy].
  rewrite (lookup_filter_map _ fs k ft); try assumption.
  2:{ intros kf b. destruct (snd kf); intros E; inversion E; reflexivity. }
  cbn [snd fst]. destruct ft; reflexivity.
Qed.

Lemma dreach_sub fs k ft :
  keys_distinct (map fst fs) = true -> In (k, ft) fs ->
  forall t' d,
    leaf_of t' d = leaf_of ft 0%nat -> msg_depth_of t' d = msg_depth_of ft 0%nat ->
    dreach t' (cls_of fs) k d.
Proof.
  intros Hd Hin.
  assert (Leaf : forall t' d, is_leaf t' = true -> leaf_of t' d = leaf_of ft 0%nat ->
                              leaf_tab t' (cls_of fs) k d).
  { intros t' d Hleaf Hlo. rewrite (leaf_of_leaf t' d Hleaf) in Hlo. unfold leaf_tab.
    repeat split.
    - cbn [cls_of c_set]. rewrite (lookup_filter_map _ fs k ft); try assumption.
      2:{ intros kf b. destruct (leaf_of (snd kf) 0) as [[d' lt]|]; intros E; inversion E; reflexivity. }
      cbn [snd fst]. rewrite <- Hlo. cbn [option_map snd].
      destruct t'; try discriminate; reflexivity.
    - cbn [cls_of c_int]. rewrite (lookup_filter_map _ fs k ft); try assumption.
      2:{ intros kf b. destruct (leaf_of (snd kf) 0) as [[d' lt]|]; [|discriminate].
          destruct lt; try discriminate. destruct (is_std_width n); intros E; inversion E; reflexivity. }
      cbn [snd fst]. rewrite <- Hlo.
      destruct t'; try discriminate; try reflexivity.
      cbn [int_ent]. destruct (is_std_width n); reflexivity.
    - rewrite (proxy_lookup fs k ft Hd Hin).
      destruct ft; destruct t'; try discriminate; try (destruct d; first [reflexivity | exact I]).
      cbn [leaf_of] in Hlo. inversion Hlo. exact I. }
  induction t' as [| | n | n | n ms | t IH | x c e IH | x fs' IH] using ty_ind';
    intros d Hlo Hmd; try (rewrite dreach_leaf by reflexivity; apply Leaf; [reflexivity|assumption]).
  - cbn [dreach]. apply IH; assumption.
  - cbn [dreach]. apply IH; assumption.
  - cbn [dreach]. split.
    + cbn [cls_of c_acc]. rewrite (lookup_filter_map _ fs k ft); try assumption.
      2:{ intros kf b. destruct (msg_depth_of (snd kf) 0); intros E; inversion E; reflexivity. }
      cbn [snd fst]. rewrite <- Hmd. reflexivity.
    + rewrite (proxy_lookup fs k ft Hd Hin). destruct ft; try reflexivity.
      cbn [msg_depth_of] in Hmd. discriminate.
Qed.

Lemma dreach_field fs k ft :
  keys_distinct (map fst fs) = true -> In (k, ft) fs -> dreach ft (cls_of fs) k 0%nat.
Proof. intros. apply (dreach_sub fs k ft); auto. Qed.

(* ---------- list helpers ---------- *)

Lemma lookup_app_skip {A} k (l1 l2 : list (Z * A)) :
  (forall x, In x l1 -> fst x <> k) -> lookup k (l1 ++ l2) = lookup k l2.
Proof.
  induction l1 as [|h r IH]; intros H; [reflexivity|].
  cbn [app lookup]. destruct (fst h =? k) eqn:E.
  - exfalso. apply (H h); [now left|lia].
  - apply IH. intros x Hx. apply H. now right.
Qed.

Lemma set_field_app_skip k nv (l1 l2 : list (Z * val)) :
  (forall x, In x l1 -> fst x <> k) -> set_field k nv (l1 ++ l2) = l1 ++ set_field k nv l2.
Proof.
  induction l1 as [|h r IH]; intros H; [reflexivity|].
  cbn [app set_field]. destruct (fst h =? k) eqn:E.
  - exfalso. apply (H h); [now left|lia].
  - f_equal. apply IH. intros x Hx. apply H. now right.
Qed.

Lemma canon_fields_keys v l x : In x (canon_fields v l) -> In (fst x) (map fst l).
Proof.
  induction l as [|h r IH]; cbn [canon_fields map]; intros H; [destruct H|].
  destruct H as [<-|H]; [now left|right; now apply IH].
Qed.

Lemma canon_fields_app v l1 l2 : canon_fields v (l1 ++ l2) = canon_fields v l1 ++ canon_fields v l2.
Proof. induction l1 as [|h r IH]; [reflexivity|]. cbn [app canon_fields]. now rewrite IH. Qed.

Lemma keys_distinct_app_notin (l1 : list Z) k l2 :
  keys_distinct (l1 ++ k :: l2) = true -> ~ In k l1.
Proof.
  induction l1 as [|h r IH]; intros Hd Hin; [destruct Hin|].
  cbn [app keys_distinct] in Hd. rewrite andb_true_iff in Hd. destruct Hd as [Hn Hd].
  destruct Hin as [->|Hin]; [|now apply (IH Hd)].
  rewrite negb_true_iff in Hn.
  assert (existsb (Z.eqb k) (r ++ k :: l2) = true).
  { apply existsb_exists. exists k. split; [apply in_or_app; right; now left|apply Z.eqb_refl]. }
  congruence.
Qed.

Lemma slice_app_split s i n m b1 b2 :
  0 <= i -> 0 <= m -> Z.of_nat (length b1) = n ->
  slice s i (n + m) = Z_of_bits (b1 ++ b2) ->
  slice s i n = Z_of_bits b1 /\ slice s (i + n) m = Z_of_bits b2.
Proof.
  intros Hi Hm Hlen H.
  assert (Hn : 0 <= n) by lia.
  rewrite slice_split, Z_of_bits_app, Hlen in H by lia.
  pose proof (slice_range s i n Hn) as H1.
  pose proof (Z_of_bits_range b1) as H2. rewrite Hlen in H2.
  pose proof (pow2_pos n Hn) as Hp.
  remember (2 ^ n) as P. remember (slice s i n) as A. remember (Z_of_bits b1) as C.
  remember (slice s (i + n) m) as B. remember (Z_of_bits b2) as D.
  assert (A = C).
  { assert (A = (A + P * B) mod P) by (apply Z.mod_unique with (q := B); lia).
    assert (C = (C + P * D) mod P) by (apply Z.mod_unique with (q := D); lia).
    congruence. }
  split; [assumption|]. nia.
Qed.

Lemma index_val_snoc v stk k :
  index_val v (stk ++ [k]) = (w <- index_val v stk ;; index_val w [k]).
Proof. apply index_val_app. Qed.

Lemma set_idx_snoc a stk L k x cur :
  index_val a stk = Ok cur -> (k < length L)%nat ->
  set_idx (set_idx a stk (VL L)) (stk ++ [k]) x = set_idx a stk (VL (upd L k x)).
Proof.
  revert a; induction stk as [|j r IH]; intros a Hi Hk.
  - cbn [app set_idx]. reflexivity.
  - cbn [app set_idx index_val] in *. destruct a as [?|?|l|?]; try discriminate.
    destruct (nth_error l j) as [e|] eqn:E; [|discriminate].
    pose proof (nth_error_some_lt _ _ _ E) as Hj.
    rewrite upd_twice, nth_upd_same by assumption.
    rewrite (nth_error_nth _ _ (VZ 0) E). now rewrite (IH e Hi Hk).
Qed.

Lemma upd_app_repeat (done : list val) d x m :
  upd (done ++ repeat d (S m)) (length done) x = (done ++ [x]) ++ repeat d m.
Proof.
  induction done as [|h r IH]; [reflexivity|].
  cbn [app length upd]. now rewrite IH.
Qed.

Lemma nth_error_app_repeat (done : list val) d m :
  nth_error (done ++ repeat d (S m)) (length done) = Some d.
Proof. induction done as [|h r IH]; [reflexivity|]. exact IH. Qed.

(* ---------- has_ty consequences for leaves ---------- *)

Lemma leaf_bits_value t v :
  is_leaf t = true -> wf t = true -> has_ty t v = true ->
  match t with
  | TBool => True
  | TByte => 0 <= zof v < 2 ^ 8
  | TUint n => 0 <= zof v < 2 ^ n
  | TInt n => - 2 ^ (n - 1) <= zof v < 2 ^ (n - 1)
  | TEnum n _ => 0 <= zof v < 2 ^ n
  | _ => True
  end.
Proof.
  destruct t; cbn [is_leaf wf has_ty]; intros Hl Hw Ht; try discriminate; auto;
    destruct v as [b|z|l|vs]; try discriminate; cbn [zof].
  - change (2 ^ 8) with 256. lia.
  - lia.
  - lia.
  - rewrite !andb_true_iff in Hw. destruct Hw as [_ Hall]. rewrite forallb_forall in Hall.
    apply existsb_exists in Ht. destruct Ht as (m & Hin & E). apply Z.eqb_eq in E. subst m.
    specialize (Hall z Hin). lia.
Qed.

(* ---------- the main invariant ---------- *)

Definition dec_ok (t : ty) : Prop :=
  forall c vs fn stk a v s i0,
    wf t = true -> dec_guard t = true -> has_ty t v = true ->
    dreach t c fn (length stk) -> 1 <= fn ->
    lookup fn vs = Some a -> index_val a stk = Ok (py_default t) ->
    bytes_ok s -> 0 <= i0 -> i0 + nbits t <= 8 * Z.of_nat (length s) ->
    slice s i0 (nbits t) = Z_of_bits (enc_bits t v) ->
    p_dec (proc_of t) c (VM vs) fn stk {| cs := s; ci := i0 |} =
    Ok (VM (set_field fn (set_idx a stk (canon t v)) vs), {| cs := s; ci := i0 + nbits t |}).

Lemma set_byte_int c vs fn stk a cur0 :
  lookup fn vs = Some a -> index_val a stk = Ok cur0 ->
  lookup fn (c_proxy c) = None ->
  lookup fn (c_set c) = Some {| s_depth := length stk; s_kind := SKInt |} ->
  forall z lshift d,
    set_byte c (at_leaf vs fn stk a (VZ z)) fn stk lshift d =
    Ok (at_leaf vs fn stk a (VZ (Z.lor z (Z.shiftl d lshift)))).
Proof.
  intros Hl Hi Hnp Hs z lshift d. unfold set_byte. rewrite Hs. cbn [s_kind s_depth].
  rewrite (read_ref_at c vs fn stk a Hl cur0 Hi Hnp). cbn [bind int_of].
  apply (write_ref_at c vs fn stk a Hl cur0 Hi Hnp).
Qed.

Lemma set_byte_cast c vs fn stk a cur0 w :
  lookup fn vs = Some a -> index_val a stk = Ok cur0 ->
  lookup fn (c_proxy c) = None ->
  lookup fn (c_set c) = Some {| s_depth := length stk; s_kind := SKCast w |} ->
  forall z lshift d,
    set_byte c (at_leaf vs fn stk a (VZ z)) fn stk lshift d =
    Ok (at_leaf vs fn stk a (VZ (Z.lor z (cast_w w (Z.shiftl d lshift))))).
Proof.
  intros Hl Hi Hnp Hs z lshift d. unfold set_byte. rewrite Hs. cbn [s_kind s_depth].
  rewrite (read_ref_at c vs fn stk a Hl cur0 Hi Hnp). cbn [bind int_of].
  apply (write_ref_at c vs fn stk a Hl cur0 Hi Hnp).
Qed.

Lemma set_byte_proxy c vs fn a cur0 :
  lookup fn vs = Some a -> index_val a [] = Ok cur0 ->
  lookup fn (c_set c) = Some {| s_depth := 0; s_kind := SKProxy |} ->
  forall z lshift d,
    set_byte c (at_leaf vs fn [] a (VZ z)) fn [] lshift d =
    Ok (at_leaf vs fn [] a (VZ (Z.lor z (Z.shiftl d lshift)))).
Proof.
  intros Hl Hi Hs z lshift d. unfold set_byte. rewrite Hs. cbn [s_kind s_depth].
  rewrite (read_attr_raw_at vs fn [] a Hl _ eq_refl). cbn [bind int_of].
  apply (write_attr_at vs fn [] a _ _ eq_refl).
Qed.

(* an unsigned leaf (byte, uint, enum) *)
Lemma dec_leaf_unsigned t n c vs fn stk a v s i0 :
  is_leaf t = true -> (match t with TBool | TInt _ => False | _ => True end) ->
  nbits t = n -> 1 <= n -> py_default t = VZ 0 ->
  0 <= zof v < 2 ^ n -> enc_bits t v = bits_of (Z.to_nat n) (zof v) ->
  leaf_tab t c fn (length stk) ->
  lookup fn vs = Some a -> index_val a stk = Ok (VZ 0) ->
  bytes_ok s -> 0 <= i0 -> i0 + n <= 8 * Z.of_nat (length s) ->
  slice s i0 n = Z_of_bits (enc_bits t v) ->
  pbt_dec (fuel_of n) n c (VM vs) fn stk 0 {| cs := s; ci := i0 |} =
  Ok (VM (set_field fn (set_idx a stk (VZ (zof v))) vs), {| cs := s; ci := i0 + n |}).
Proof.
  intros Hleaf Hkind Hnb Hn Hdef Hz Henc (Hset & Hint & Hprox) Hl Hi Hs Hi0 Hlen Hslice.
  rewrite <- (at_leaf_id vs fn stk a Hl (VZ 0) Hi).
  assert (Hu : slice s i0 n = zof v).
  { rewrite Hslice, Henc, Z_of_bits_of, Z2Nat.id by lia. apply Z.mod_small. exact Hz. }
  rewrite <- Hu.
  destruct t; try discriminate; try contradiction; cbn [kind_of] in Hset.
  - apply (dec_unsigned c vs fn stk a s i0 n Hs Hi0 Hn Hlen).
    apply (set_byte_int c vs fn stk a (VZ 0)); assumption.
  - apply (dec_unsigned c vs fn stk a s i0 n Hs Hi0 Hn Hlen).
    apply (set_byte_int c vs fn stk a (VZ 0)); assumption.
  - destruct stk as [|k0 r0].
    + cbn [length] in Hset.
      apply (dec_unsigned c vs fn [] a s i0 n Hs Hi0 Hn Hlen).
      apply (set_byte_proxy c vs fn a (VZ 0)); assumption.
    + cbn [length] in Hset, Hprox.
      apply (dec_unsigned c vs fn (k0 :: r0) a s i0 n Hs Hi0 Hn Hlen).
      apply (set_byte_int c vs fn (k0 :: r0) a (VZ 0)); assumption.
Qed.

Lemma dec_ahead_spec s i0 :
  bytes_ok s -> 0 <= i0 -> i0 + 16 <= 8 * Z.of_nat (length s) ->
  dec_ahead {| cs := s; ci := i0 |} = Ok (slice s i0 16, {| cs := s; ci := i0 + 16 |}).
Proof.
  intros Hs Hi0 Hlen. unfold dec_ahead.
  pose proof (dec_unsigned int_cls [(1, VZ 0)] 1 [] (VZ 0) s i0 16 Hs Hi0 ltac:(lia) Hlen) as H.
  change (fuel_of 16) with 16%nat in H.
  change (at_leaf [(1, VZ 0)] 1 [] (VZ 0) (VZ 0)) with (VM [(1, VZ 0)]) in H.
  rewrite H; [reflexivity|].
  intros z lshift d. reflexivity.
Qed.

Theorem dec_ok_all t : dec_ok t.
Proof.
  induction t as [| | n | n | n ms | t IH | x cap e IH | x fs IH] using ty_ind';
    unfold dec_ok; intros c vs fn stk a v s i0 Hw Hg Ht Hr Hfn Hl Hi Hs Hi0 Hlen Hslice.
  - (* bool *)
    cbn [proc_of p_dec nbits canon] in *. destruct Hr as (Hset & _ & Hprox).
    destruct v as [b|?|?|?]; try discriminate. cbn [enc_bits Z_of_bits] in Hslice.
    rewrite (dec_bool c vs fn stk a _ s i0 Hl Hi Hprox Hset Hs Hi0 Hlen).
    unfold at_leaf. rewrite Hslice. destruct b; reflexivity.
  - (* byte *)
    cbn [proc_of p_dec nbits canon] in *.
    pose proof (leaf_bits_value TByte v eq_refl Hw Ht) as Hz. cbn beta iota in Hz.
    apply (dec_leaf_unsigned TByte 8 c vs fn stk a v s i0); auto; try lia.
  - (* uint *)
    cbn [proc_of p_dec nbits canon] in *. cbn [wf] in Hw.
    pose proof (leaf_bits_value (TUint n) v eq_refl Hw Ht) as Hz. cbn beta iota in Hz.
    apply (dec_leaf_unsigned (TUint n) n c vs fn stk a v s i0); auto; try lia.
  - (* int *)
    cbn [proc_of p_dec nbits canon] in *.
    pose proof (leaf_bits_value (TInt n) v eq_refl Hw Ht) as Hz. cbn beta iota in Hz.
    cbn [wf] in Hw. assert (Hn : 1 <= n <= 64) by lia.
    destruct Hr as (Hset & Hint & Hprox). cbn [kind_of int_ent] in *.
    destruct (int_storage_bits_std n Hn) as (Hwstd & Hnw & Hstd & Hnstd).
    set (w := int_storage_bits n) in *.
    cbn [py_default] in Hi.
    assert (Hu : slice s i0 n = zof v mod 2 ^ n).
    { rewrite Hslice. cbn [enc_bits]. rewrite Z_of_bits_of, Z2Nat.id by lia. reflexivity. }
    rewrite <- (at_leaf_id vs fn stk a Hl (VZ 0) Hi).
    rewrite (dec_cast c vs fn stk a s i0 n Hs Hi0 ltac:(lia) Hlen w Hwstd Hnw
                      (set_byte_cast c vs fn stk a (VZ 0) w Hl Hi Hprox Hset)).
    cbn [bind fst snd].
    destruct (is_std_width n) eqn:Estd.
    + rewrite (Hstd eq_refl), Z.eqb_refl in *.
      rewrite (process_int_none c vs fn stk a _ Hint). cbn [bind].
      unfold at_leaf. rewrite Hu, sext'_mod by lia. reflexivity.
    + specialize (Hnstd eq_refl). replace (n =? w) with false by (symmetry; lia).
      rewrite (process_int_sign c vs fn stk a Hl (VZ 0) Hi s i0 n ltac:(lia) _ Hprox Hint eq_refl).
      cbn [bind]. unfold at_leaf. rewrite Hu, sext'_mod by lia. reflexivity.
  - (* enum *)
    cbn [proc_of p_dec nbits canon] in *.
    pose proof (leaf_bits_value (TEnum n ms) v eq_refl Hw Ht) as Hz. cbn beta iota in Hz.
    cbn [wf] in Hw. rewrite !andb_true_iff in Hw.
    cbn [dec_guard] in Hg. cbn [py_default] in Hi. replace (hd 0 ms) with 0 in Hi by lia.
    apply (dec_leaf_unsigned (TEnum n ms) n c vs fn stk a v s i0); auto; try lia.
    cbn [py_default]. f_equal. lia.
  - (* alias *)
    cbn [proc_of p_dec nbits canon enc_bits wf dec_guard has_ty dreach py_default] in *.
    apply IH; assumption.
  - (* array *)
    cbn [proc_of]. rewrite p_dec_array. cbn zeta. cbn [ci cs].
    cbn [wf] in Hw. rewrite !andb_true_iff in Hw. destruct Hw as [[Hc1 Hc2] Hwe].
    cbn [dec_guard] in Hg. cbn [has_ty] in Ht. destruct v as [?|?|l|?]; try discriminate.
    rewrite andb_true_iff in Ht. destruct Ht as [Hlenl Hall]. apply Nat.eqb_eq in Hlenl.
    rewrite forallb_forall in Hall. cbn [dreach] in Hr. cbn [py_default] in Hi.
    cbn [nbits enc_bits vlist canon] in *.
    pose proof (nbits_nonneg e Hwe) as Hne.
    (* the element loop *)
    assert (Loop : forall m k i,
               (k + m = cap)%nat -> 0 <= i ->
               i + Z.of_nat m * nbits e <= 8 * Z.of_nat (length s) ->
               slice s i (Z.of_nat m * nbits e) = Z_of_bits (flat_map (enc_bits e) (skipn k l)) ->
               p_dec_arr (proc_of e) c fn stk m k
                 (VM (set_field fn (set_idx a stk
                        (VL (map (canon e) (firstn k l) ++ repeat (py_default e) m))) vs))
                 {| cs := s; ci := i |} =
               Ok (VM (set_field fn (set_idx a stk (VL (map (canon e) l))) vs),
                   {| cs := s; ci := i + Z.of_nat m * nbits e |})).
    { induction m as [|m IHm]; intros k i Hkm Hi' Hlen' Hsl.
      - cbn [p_dec_arr repeat]. rewrite firstn_all2 by lia. rewrite app_nil_r.
        do 3 f_equal. lia.
      - cbn [p_dec_arr].
        assert (Hk : (k < length l)%nat) by lia.
        assert (Hnth : nth_error l k = Some (nth k l (VZ 0))) by (apply nth_error_nth'; lia).
        assert (Hin : In (nth k l (VZ 0)) l) by (eapply nth_error_In; eassumption).
        assert (Hsk : skipn k l = nth k l (VZ 0) :: skipn (S k) l).
        { clear - Hk. revert k Hk; induction l as [|a0 r IHl]; intros k Hk; [cbn in Hk; lia|].
          destruct k; [reflexivity|]. cbn [skipn nth]. apply IHl. cbn in Hk. lia. }
        rewrite Hsk in Hsl. cbn [flat_map] in Hsl.
        replace (Z.of_nat (S m) * nbits e) with (nbits e + Z.of_nat m * nbits e) in * by lia.
        destruct (slice_app_split s i (nbits e) (Z.of_nat m * nbits e) _ _ Hi' ltac:(nia)
                    (enc_bits_length e _ Hwe (Hall _ Hin)) Hsl) as [Hs1 Hs2].
        set (done := map (canon e) (firstn k l)).
        assert (Hdl : length done = k) by (unfold done; rewrite map_length, firstn_length; lia).
        set (ak := set_idx a stk (VL (done ++ repeat (py_default e) (S m)))).
        assert (Hlk : lookup fn (set_field fn ak vs) = Some ak) by (eapply lookup_set_field_same; eassumption).
        assert (Hik : index_val ak (stk ++ [k]) = Ok (py_default e)).
        { rewrite index_val_snoc. unfold ak. rewrite (index_set_idx _ _ _ _ Hi). cbn [bind index_val].
          rewrite <- Hdl. now rewrite nth_error_app_repeat. }
        rewrite (IH c (set_field fn ak vs) fn (stk ++ [k]) ak (nth k l (VZ 0)) s i Hwe Hg (Hall _ Hin)).
        + cbn [bind fst snd]. rewrite set_field_twice. unfold ak.
          rewrite (set_idx_snoc a stk _ k _ _ Hi) by (rewrite app_length, repeat_length; lia).
          pose proof (upd_app_repeat done (py_default e) (canon e (nth k l (VZ 0))) m) as Hupd.
          rewrite Hdl in Hupd. rewrite Hupd.
          replace (done ++ [canon e (nth k l (VZ 0))]) with (map (canon e) (firstn (S k) l)).
          2:{ unfold done. clear - Hk. revert k Hk. induction l as [|a0 r IHl]; intros k Hk; [cbn in Hk; lia|].
              destruct k; [reflexivity|]. cbn [firstn map nth app]. f_equal. apply IHl. cbn in Hk. lia. }
          rewrite (IHm (S k) (i + nbits e)); try lia; try assumption.
          do 3 f_equal. lia.
        + rewrite app_length, Nat.add_1_r. exact Hr.
        + assumption.
        + exact Hlk.
        + exact Hik.
        + assumption.
        + assumption.
        + nia.
        + exact Hs1. }
    assert (Hstart : VM vs = VM (set_field fn (set_idx a stk
                        (VL (map (canon e) (firstn 0 l) ++ repeat (py_default e) cap))) vs)).
    { cbn [firstn map app]. rewrite (set_idx_id _ _ _ Hi). now rewrite (set_field_id _ _ _ Hl). }
    unfold ext_bits in *. destruct x; cbv iota in *.
    + (* extensible: 16-bit capacity prefix, then skip (a no-op for the same schema) *)
      assert (Hb16 : Z.of_nat (length (bits_of 16 (Z.of_nat cap))) = 16)
        by (rewrite bits_of_length; reflexivity).
      destruct (slice_app_split s i0 16 (Z.of_nat cap * nbits e) _ _ Hi0 ltac:(nia) Hb16 Hslice)
        as [Hp1 Hp2].
      assert (Hahead : dec_ahead {| cs := s; ci := i0 |} = Ok (Z.of_nat cap, {| cs := s; ci := i0 + 16 |})).
      { rewrite dec_ahead_spec by (try assumption; nia). rewrite Hp1, Z_of_bits_of. do 2 f_equal.
        apply Z.mod_small. change (2 ^ Z.of_nat 16) with 65536. lia. }
      rewrite Hahead. cbn [bind fst snd].
      rewrite Hstart at 1.
      rewrite (Loop cap 0%nat (i0 + 16)); try lia; try nia; try assumption.
      cbn [bind fst snd ci cs]. do 2 f_equal.
      unfold skip_to, array_ito, ito_taken. cbn [ci cs].
      replace (i0 + 16 + Z.of_nat cap * nbits e - i0 - 16) with (nbits e * Z.of_nat cap) by lia.
      rewrite Z.div_mul by lia.
      replace (i0 + 16 + Z.of_nat cap * nbits e >=? i0 + 16 + Z.of_nat cap * nbits e) with true
        by (symmetry; lia).
      f_equal. lia.
    + cbn [bind fst snd]. rewrite Z.add_0_l in *. rewrite Hstart at 1.
      cbn [app] in Hslice.
      rewrite (Loop cap 0%nat i0); try lia; try assumption. reflexivity.
  - (* message *)
    rewrite proc_of_msg, p_dec_msg, canon_msg, nbits_msg. cbn zeta. cbn [ci cs].
    replace (di_is_valid fn) with true by (unfold di_is_valid; symmetry; lia).
    cbn [dreach] in Hr. destruct Hr as [Hacc Hprox].
    rewrite py_default_msg in Hi.
    rewrite wf_msg in Hw. rewrite !andb_true_iff in Hw. destruct Hw as [[Hd Hsz] Hfw].
    rewrite dec_guard_msg in Hg.
    destruct v as [?|?|?|vvs]; try discriminate. rewrite has_ty_msg in Ht.
    rewrite enc_bits_msg, nbits_msg in Hslice. rewrite nbits_msg in Hlen, Hsz.
    (* child accessor *)
    assert (Hget : get_accessor c (VM vs) fn stk = Ok (VM (default_fields fs))).
    { unfold get_accessor. rewrite Hacc.
      rewrite <- (at_leaf_id vs fn stk a Hl _ Hi).
      apply (read_ref_at c vs fn stk a Hl _ Hi Hprox). }
    rewrite Hget. cbn [bind].
    (* the fields loop *)
    assert (Fields : forall rest done i,
               fs = done ++ rest -> 0 <= i ->
               i + fields_nbits rest <= 8 * Z.of_nat (length s) ->
               slice s i (fields_nbits rest) = Z_of_bits (fields_bits (VM vvs) rest) ->
               p_dec_fields (cls_of fs) (map_proc rest)
                            (VM (canon_fields (VM vvs) done ++ default_fields rest))
                            {| cs := s; ci := i |} =
               Ok (VM (canon_fields (VM vvs) fs), {| cs := s; ci := i + fields_nbits rest |})).
    { induction rest as [|kf rest' IHr]; intros done i Hfs Hi' Hlen' Hsl.
      - cbn [map_proc p_dec_fields default_fields fields_nbits fold_right].
        rewrite app_nil_r in *. subst done. do 3 f_equal. lia.
      - cbn [map_proc p_dec_fields fst snd].
        assert (Hin : In kf fs) by (rewrite Hfs; apply in_or_app; right; now left).
        pose proof (proj1 (Forall_forall _ _) IH kf Hin) as Hk.
        (* facts about this field from the whole-message hypotheses *)
        assert (Hfacts : 1 <= fst kf <= 255 /\ wf (snd kf) = true /\ dec_guard (snd kf) = true /\
                         exists fv, lookup (fst kf) vvs = Some fv /\ has_ty (snd kf) fv = true).
        { clear - Hin Hfw Hg Ht. induction fs as [|h r IHf]; [destruct Hin|].
          cbn [fields_wf fields_guard fields_has_ty] in *.
          rewrite !andb_true_iff in Hfw. rewrite !andb_true_iff in Hg. rewrite !andb_true_iff in Ht.
          destruct Hfw as [[[H1 H2] H3] H4]. destruct Hg as [H5 H6]. destruct Ht as [H7 H8].
          destruct Hin as [->|Hin].
          - repeat split; try lia; try assumption.
            destruct (lookup (fst kf) vvs) as [fv|]; [|discriminate]. exists fv. auto.
          - apply IHf; assumption. }
        destruct Hfacts as (Hk12 & Hwk & Hgk & fv & Hlk & Htk).
        assert (Hnotin : forall y, In y (canon_fields (VM vvs) done) -> fst y <> fst kf).
        { intros y Hy Heq. apply canon_fields_keys in Hy. rewrite Heq in Hy.
          rewrite Hfs, map_app in Hd. cbn [map] in Hd.
          exact (keys_distinct_app_notin _ _ _ Hd Hy). }
        cbn [default_fields fields_nbits fold_right fields_bits] in *.
        change (fold_right (fun kf0 acc0 => nbits (snd kf0) + acc0) 0 rest') with (fields_nbits rest') in *.
        assert (Hnr : 0 <= fields_nbits rest').
        { assert (Hwr : fields_wf rest' = true).
          { clear - Hfs Hfw. subst fs. induction done as [|h r IHd]; cbn [app fields_wf] in Hfw.
            - rewrite !andb_true_iff in Hfw. tauto.
            - rewrite !andb_true_iff in Hfw. apply IHd. tauto. }
          clear - Hwr. induction rest' as [|h r IHr']; [cbn; lia|].
          cbn [fields_wf] in Hwr. rewrite !andb_true_iff in Hwr. destruct Hwr as [[[_ _] Ha] Hr].
          cbn [fields_nbits fold_right]. pose proof (nbits_nonneg _ Ha). specialize (IHr' Hr).
          unfold fields_nbits in IHr'. lia. }
        pose proof (nbits_nonneg _ Hwk) as Hnk.
        assert (Hvf : vfield (fst kf) (VM vvs) = fv) by (unfold vfield; now rewrite Hlk).
        rewrite Hvf in Hsl.
        destruct (slice_app_split s i (nbits (snd kf)) (fields_nbits rest') _ _ Hi' Hnr
                    (enc_bits_length _ _ Hwk Htk) Hsl) as [Hs1 Hs2].
        set (cur := canon_fields (VM vvs) done ++ (fst kf, py_default (snd kf)) :: default_fields rest').
        assert (Hlc : lookup (fst kf) cur = Some (py_default (snd kf))).
        { unfold cur. rewrite lookup_app_skip by exact Hnotin. cbn [lookup fst snd].
          now rewrite Z.eqb_refl. }
        rewrite (Hk (cls_of fs) cur (fst kf) [] (py_default (snd kf)) fv s i); try assumption; try lia.
        + cbn [bind fst snd set_idx]. unfold cur.
          rewrite set_field_app_skip by exact Hnotin. cbn [set_field fst]. rewrite Z.eqb_refl.
          replace (canon_fields (VM vvs) done ++ (fst kf, canon (snd kf) fv) :: default_fields rest')
            with (canon_fields (VM vvs) (done ++ [kf]) ++ default_fields rest').
          2:{ rewrite canon_fields_app. cbn [canon_fields]. rewrite Hvf, <- app_assoc. reflexivity. }
          rewrite (IHr (done ++ [kf]) (i + nbits (snd kf))); try lia; try assumption.
          * do 3 f_equal. lia.
          * rewrite <- app_assoc. exact Hfs.
        + cbn [length]. destruct kf as [k ft]. apply dreach_field; assumption.
        + reflexivity. }
    assert (Hnf : 0 <= fields_nbits fs).
    { clear - Hfw. induction fs as [|h r IHf]; [cbn; lia|].
      cbn [fields_wf] in Hfw. rewrite !andb_true_iff in Hfw. destruct Hfw as [[[_ _] Ha] Hr].
      cbn [fields_nbits fold_right]. pose proof (nbits_nonneg _ Ha). specialize (IHf Hr).
      unfold fields_nbits in IHf. lia. }
    assert (Hput : forall child, put_accessor c (VM vs) fn stk child =
                                 Ok (VM (set_field fn (set_idx a stk child) vs))).
    { intros child. unfold put_accessor. rewrite Hacc.
      rewrite <- (at_leaf_id vs fn stk a Hl _ Hi) at 1.
      apply (write_ref_at c vs fn stk a Hl _ Hi Hprox). }
    unfold ext_bits in *. destruct x; cbv iota in *.
    + assert (Hb16 : Z.of_nat (length (bits_of 16 (nbits (TMsg true fs)))) = 16)
        by (rewrite bits_of_length; reflexivity).
      destruct (slice_app_split s i0 16 (fields_nbits fs) _ _ Hi0 Hnf Hb16 Hslice) as [Hp1 Hp2].
      assert (Hahead : dec_ahead {| cs := s; ci := i0 |} =
                       Ok (16 + fields_nbits fs, {| cs := s; ci := i0 + 16 |})).
      { rewrite dec_ahead_spec by (try assumption; lia). rewrite Hp1, Z_of_bits_of. do 2 f_equal.
        rewrite nbits_msg. unfold ext_bits.
        apply Z.mod_small. change (2 ^ Z.of_nat 16) with 65536. lia. }
      rewrite Hahead. cbn [bind fst snd].
      pose proof (Fields fs [] (i0 + 16) eq_refl ltac:(lia) ltac:(lia) Hp2) as HF.
      cbn [canon_fields app] in HF. rewrite HF.
      cbn [bind fst snd]. rewrite Hput. cbn [bind]. do 2 f_equal.
      unfold skip_to, message_ito, ito_taken. cbn [ci cs].
      replace (i0 + (16 + fields_nbits fs) >=? i0 + 16 + fields_nbits fs) with true by (symmetry; lia).
      try (f_equal; lia).
    + cbn [bind fst snd]. rewrite Z.add_0_l in *. cbn [app] in Hslice.
      pose proof (Fields fs [] i0 eq_refl ltac:(lia) ltac:(lia) Hslice) as HF.
      cbn [canon_fields app] in HF. rewrite HF.
      cbn [bind fst snd]. rewrite Hput. reflexivity.
Qed.
