(* LexSpec.v — the token language of bitproto stated DIRECTLY (no regular expressions, no
   backtracking, no rule order): a deterministic scanner that says, for every position, which
   lexeme starts there and what token it is.  This is the reference the model of the real
   tokenizer (Lex.v: ply's ordered, backtracking master regex + rule bodies) is compared with,
   by proof (LexProofs*.v) and per generated input (T2: implementation vs this scanner).

   At a position with previous character [prev]:
     space, tab, CR            skipped
     "\n"                      NEWLINE (the only lexeme containing a newline; line += 1)
     "//" ...                  COMMENT: up to, not including, the next "\n" (or end of input)
     digit                     "0x" + at least one hex digit: HEX_LITERAL, maximal hex run;
                               otherwise INT_LITERAL, maximal digit run
     letter or "_"             w = the maximal run of [A-Za-z0-9_].  If w stands at word boundaries
                               on both sides ([prev] is not a word character and the character
                               after w is not one — Unicode-aware) it is typed by its text:
                               bool, byte, uint<digits>, int<digits>, true/false/yes/no;
                               otherwise (and in any case for the 8 keywords) it is an
                               IDENTIFIER, re-typed to the upper-cased keyword if it is one
     double quote              STRING_LITERAL up to the first double quote that is not part of a
                               backslash pair; no "\n" inside, no backslash directly before "\n"
                               or the end of input; otherwise the QUOTE is an invalid token
     + - * /                   PLUS MINUS TIMES DIVIDE
     : ; { } [ ] ( ) = \ ' .   literal tokens (type = the character)
     anything else             LexerError(that character, current line)
   Guards written out: a decimal literal / a uintN,intN width of more than 4300 digits makes
   int() raise ValueError (known finding huge-literal); widths outside 1..64 and unknown escapes
   are the ParserErrors the rule bodies raise. *)
From Coq Require Import String NArith ZArith List Bool Lia.
From BP Require Import TotalBase LexBase Lex.
Import ListNotations.
Open Scope N_scope.

Definition is_digit (c : N) : bool := N.leb 48 c && N.leb c 57.
Definition is_hexdigit (c : N) : bool :=
  is_digit c || (N.leb 97 c && N.leb c 102) || (N.leb 65 c && N.leb c 70).
Definition is_id_start (c : N) : bool :=
  (N.leb 97 c && N.leb c 122) || (N.leb 65 c && N.leb c 90) || N.eqb c 95.
Definition is_id_char (c : N) : bool := is_id_start c || is_digit c.

Fixpoint span (p : N -> bool) (s : list N) : list N * list N :=
  match s with
  | c :: r => if p c then let '(a, b) := span p r in (c :: a, b) else ([], s)
  | [] => ([], [])
  end.

Definition last_or (p : option N) (w : list N) : option N :=
  match rev w with c :: _ => Some c | [] => p end.

(* documented vocabulary *)
Definition S_ignore : list N := [32; 9; 13].
Definition S_literals : list N := [58; 59; 123; 125; 91; 93; 40; 41; 47; 61; 92; 39; 46].
Definition W_bool : list N := [98; 111; 111; 108].
Definition W_byte : list N := [98; 121; 116; 101].
Definition W_uint : list N := [117; 105; 110; 116].
Definition W_int : list N := [105; 110; 116].
Definition W_true : list N := [116; 114; 117; 101].
Definition W_false : list N := [102; 97; 108; 115; 101].
Definition W_yes : list N := [121; 101; 115].
Definition W_no : list N := [110; 111].
Definition S_keywords : list (list N) :=
  [[112; 114; 111; 116; 111]; [105; 109; 112; 111; 114; 116]; [111; 112; 116; 105; 111; 110];
   [116; 121; 112; 101]; [99; 111; 110; 115; 116]; [101; 110; 117; 109];
   [109; 101; 115; 115; 97; 103; 101]; [116; 121; 112; 101; 100; 101; 102]].
Definition S_escapes : list (N * N) := [(116, 9); (114, 13); (110, 10); (92, 92); (39, 39); (34, 34)].
Definition S_max_digits : Z := 4300%Z.

Definition tn (s : string) : list N := cps_of_string s.

(* value of a run of digits (Horner) *)
Definition digit_val (c : N) : Z :=
  if is_digit c then (Z.of_N c - 48)%Z else if N.leb 97 c then (Z.of_N c - 87)%Z else (Z.of_N c - 55)%Z.
Definition digits_val (base : Z) (ds : list N) : Z :=
  fold_left (fun a c => (a * base + digit_val c)%Z) ds 0%Z.

(* w = pre ++ ds with ds a non-empty run of digits *)
Definition digits_after (pre w : list N) : option (list N) :=
  let n := length pre in
  if cps_eqb (firstn n w) pre then
    let ds := skipn n w in
    match ds with [] => None | _ => if forallb is_digit ds then Some ds else None end
  else None.

(* the closing quote: -> (body, rest after the quote) *)
Fixpoint str_close (s : list N) : option (list N * list N) :=
  match s with
  | [] => None
  | c :: r =>
      if N.eqb c 34 then Some ([], r)
      else if N.eqb c 10 then None
      else if N.eqb c 92 then
        match r with
        | d :: r' => if N.eqb d 10 then None
                     else match str_close r' with Some (b, t) => Some (c :: d :: b, t) | None => None end
        | [] => None
        end
      else match str_close r with Some (b, t) => Some (c :: b, t) | None => None end
  end.

(* the value of a string body; None = an unsupported escape *)
Fixpoint unescape (b : list N) : option (list N) :=
  match b with
  | [] => Some []
  | c :: r =>
      if N.eqb c 92 then
        match r with
        | d :: r' => match ntable_get S_escapes d, unescape r' with
                     | Some v, Some t => Some (v :: t)
                     | _, _ => None
                     end
        | [] => None
        end
      else match unescape r with Some t => Some (c :: t) | None => None end
  end.

Inductive sres : Type :=
| SSkip (c : N) (rest : list N)                                  (* ignored character *)
| STok (ty : list N) (v : tvalue) (lx : list N) (rest : list N) (dline : Z)
| SEnd (e : lexend).

Section Spec.
Variable uw : N -> bool.

Definition typed_word (w : list N) (line : Z) : option (outcome (list N * tvalue)) :=
  if cps_eqb w W_bool then Some (Ok (tn "BOOL_TYPE", VNode "Bool" None w line))
  else if cps_eqb w W_byte then Some (Ok (tn "BYTE_TYPE", VNode "Byte" None w line))
  else if cps_mem w [W_true; W_yes] then Some (Ok (tn "BOOL_LITERAL", VBool true))
  else if cps_mem w [W_false; W_no] then Some (Ok (tn "BOOL_LITERAL", VBool false))
  else match digits_after W_uint w with
  | Some ds =>
      Some (if (S_max_digits <? zlen ds)%Z then Crash ValueError
            else let cap := digits_val 10 ds in
                 if (0 <? cap)%Z && (cap <=? 64)%Z then Ok (tn "UINT_TYPE", VNode "Uint" (Some cap) w line)
                 else ParserError "InvalidUintCap")
  | None =>
  match digits_after W_int w with
  | Some ds =>
      Some (if (S_max_digits <? zlen ds)%Z then Crash ValueError
            else let cap := digits_val 10 ds in
                 if (0 <? cap)%Z && (cap <=? 64)%Z then Ok (tn "INT_TYPE", VNode "Int" (Some cap) w line)
                 else ParserError "InvalidIntCap")
  | None => None
  end end.

Definition of_outcome (o : outcome (list N * tvalue)) (lx rest whole : list N) (line : Z) : sres :=
  match o with
  | Ok (ty, v) => STok ty v lx rest 0%Z
  | ParserError k => SEnd (LActErr k line)
  | Crash e => SEnd (LCrash e)
  end.

(* one step at (prev, s), s non-empty *)
Definition spec_step (prev : option N) (s : list N) (line : Z) : sres :=
  match s with
  | [] => SEnd LDone
  | c :: r =>
      if cp_mem c S_ignore then SSkip c r
      else if N.eqb c 10 then STok (tn "NEWLINE") (VText [c]) [c] r 1%Z
      else if N.eqb c 47 && (match r with d :: _ => N.eqb d 47 | [] => false end) then
        let '(w, rest) := span (fun x => negb (N.eqb x 10)) s in
        STok (tn "COMMENT") (VNode "Comment" None w line) w rest 0%Z
      else if is_digit c then
        match s with
        | z :: x :: h :: _ =>
            if N.eqb z 48 && N.eqb x 120 && is_hexdigit h then
              let '(ds, rest) := span is_hexdigit (skipn 2 s) in
              STok (tn "HEX_LITERAL") (VInt (digits_val 16 ds)) (z :: x :: ds) rest 0%Z
            else
              let '(ds, rest) := span is_digit s in
              if (S_max_digits <? zlen ds)%Z then SEnd (LCrash ValueError)
              else STok (tn "INT_LITERAL") (VInt (digits_val 10 ds)) ds rest 0%Z
        | _ =>
            let '(ds, rest) := span is_digit s in
            if (S_max_digits <? zlen ds)%Z then SEnd (LCrash ValueError)
            else STok (tn "INT_LITERAL") (VInt (digits_val 10 ds)) ds rest 0%Z
        end
      else if is_id_start c then
        let '(w, rest) := span is_id_char s in
        let bounded := negb (word_opt uw prev) && negb (word_opt uw (hd_error rest)) in
        match (if bounded then typed_word w line else None) with
        | Some o => of_outcome o w rest s line
        | None =>
            if cps_mem w S_keywords then STok (map cp_upper w) (VText w) w rest 0%Z
            else STok (tn "IDENTIFIER") (VText w) w rest 0%Z
        end
      else if N.eqb c 34 then
        match str_close r with
        | Some (body, rest) =>
            match unescape body with
            | Some v => STok (tn "STRING_LITERAL") (VText v) (c :: body ++ [34]) rest 0%Z
            | None => SEnd (LActErr "InvalidEscapingChar" line)
            end
        | None => SEnd (LError "LexerError" c line)
        end
      else if N.eqb c 43 then STok (tn "PLUS") (VText [c]) [c] r 0%Z
      else if N.eqb c 45 then STok (tn "MINUS") (VText [c]) [c] r 0%Z
      else if N.eqb c 42 then STok (tn "TIMES") (VText [c]) [c] r 0%Z
      else if N.eqb c 47 then STok (tn "DIVIDE") (VText [c]) [c] r 0%Z
      else if cp_mem c S_literals then STok [c] (VText [c]) [c] r 0%Z
      else SEnd (LError "LexerError" c line)
  end.

Fixpoint spec_items (fuel : nat) (prev : option N) (s : list N) (pos line : Z) : list item * lexend * list N :=
  match fuel with
  | O => ([], LFuel, s)
  | S f =>
      match spec_step prev s line with
      | SSkip c rest => let '(its, e, rem) := spec_items f (Some c) rest (pos + 1)%Z line in (IIgn c :: its, e, rem)
      | STok ty v lx rest dl =>
          let pos' := (pos + zlen lx)%Z in
          let '(its, e, rem) := spec_items f (last_or prev lx) rest pos' (line + dl)%Z in
          (ITok (mkTok ty v line pos pos') lx :: its, e, rem)
      | SEnd e => ([], e, s)
      end
  end.

Definition spec_run (s : list N) : list item * lexend * list N := spec_items (S (length s)) None s 0%Z 1%Z.
Definition spec_lex (s : list N) : list token * lexend :=
  let '(its, e, _) := spec_run s in (tokens_of its, e).

End Spec.
