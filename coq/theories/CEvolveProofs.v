(* CEvolveProofs.v — forward compatibility of the C decoder model (C05): Decode<Msg> generated
   from an OLDER schema t1, applied to a buffer encoded with an EVOLVED schema t2 (fields
   appended to extensible messages, capacities of extensible arrays raised, at any depth),
   fills a zero-initialised struct with exactly [store E t1 (proj t1 v)] and leaves the
   cursor after the whole t2 node.  Same structure as PyEvolve.v; the skip formulas are the
   TRANSLATED ones of bitproto.c (GenC.ms_ito, GenC.ar_ito and their tests).
   Both coherent configurations (B,E) = (LE,LE) and (BE,BE). *)
From Coq Require Import ZArith List Bool Lia ZifyBool.
From BP Require Import Bits Schema Spec Eqb ByteStep PyEncStep PyEncProofs PyEncTop Evolve PyEvolve PyEvolveTop.
From BP Require Import CMem CMemProofs CRt CCopyProofs CBaseProofs CEncProofs CStoreProofs CDecProofs.
From BPGen Require Import GenC.
Import ListNotations.
Open Scope Z_scope.
Ltac Zify.zify_post_hook ::= Z.div_mod_to_equations.

(* ---------- projection facts ---------- *)

Lemma firstn_In {A} (l : list A) k a : In a (firstn k l) -> In a l.
Proof. intros H. rewrite <- (firstn_skipn k l). apply in_or_app. now left. Qed.

Lemma skipn_In {A} (l : list A) k a : In a (skipn k l) -> In a l.
Proof. intros H. rewrite <- (firstn_skipn k l). apply in_or_app. now right. Qed.

Lemma lookup_proj_fields v fs k ft :
  keys_distinct (map fst fs) = true -> In (k, ft) fs ->
  lookup k (proj_fields v fs) = Some (proj ft (vfield k v)).
Proof.
  induction fs as [|h r IH]; intros Hd Hin; [destruct Hin|].
  cbn [map keys_distinct] in Hd. apply andb_true_iff in Hd. destruct Hd as [Hh Hr].
  cbn [proj_fields lookup fst snd]. destruct Hin as [->|Hin].
  - cbn [fst snd]. now rewrite Z.eqb_refl.
  - destruct (fst h =? k) eqn:Ek.
    + exfalso. apply Z.eqb_eq in Ek. apply negb_true_iff in Hh.
      assert (existsb (Z.eqb (fst h)) (map fst r) = true); [|congruence].
      apply existsb_exists. exists k. split; [|now apply Z.eqb_eq].
      apply in_map_iff. exists (k, ft). split; [reflexivity|exact Hin].
    + apply IH; assumption.
Qed.

Lemma store_proj_leaf E t v : is_leaf t = true -> store E t (proj t v) = store E t v.
Proof. destruct t; intros H; try discriminate H; reflexivity. Qed.

(* the projection of a value of the evolved schema is a value of the old schema *)
Lemma proj_has_ty t1 : forall t2 v,
  evolvesb t1 t2 = true -> wf t1 = true -> has_ty t2 v = true -> has_ty t1 (proj t1 v) = true.
Proof.
  induction t1 as [| | n | n | n ms | t IH | x cap e IH | x fs IH] using ty_ind'; intros t2 v He Hw Ht.
  - destruct t2; try discriminate He. destruct v; try discriminate Ht. reflexivity.
  - destruct t2; try discriminate He. destruct v; try discriminate Ht. exact Ht.
  - destruct t2; try discriminate He. cbn [evolvesb] in He. apply Z.eqb_eq in He. subst.
    destruct v; try discriminate Ht. exact Ht.
  - destruct t2; try discriminate He. cbn [evolvesb] in He. apply Z.eqb_eq in He. subst.
    destruct v; try discriminate Ht. exact Ht.
  - destruct t2; try discriminate He. cbn [evolvesb] in He. apply andb_true_iff in He. destruct He as [E1 E2].
    apply Z.eqb_eq in E1. apply zlist_eqb_eq in E2. subst.
    destruct v; try discriminate Ht. exact Ht.
  - destruct t2; try discriminate He. cbn [evolvesb wf has_ty proj] in *. eapply IH; eassumption.
  - destruct t2 as [| | | | |?|y cap2 e2|]; try discriminate He.
    cbn [evolvesb] in He. rewrite !andb_true_iff in He. destruct He as [[Exy Hee] Hcap].
    cbn [wf] in Hw. rewrite !andb_true_iff in Hw. destruct Hw as [_ Hwe].
    cbn [has_ty] in Ht. destruct v as [| |l|]; try discriminate Ht.
    apply andb_true_iff in Ht. destruct Ht as [Hlen Hall]. apply Nat.eqb_eq in Hlen.
    rewrite forallb_forall in Hall.
    assert (Hcle : (cap <= cap2)%nat) by (destruct x; [apply Nat.leb_le in Hcap|apply Nat.eqb_eq in Hcap]; lia).
    cbn [proj vlist has_ty]. apply andb_true_iff. split.
    + apply Nat.eqb_eq. rewrite map_length, firstn_length. lia.
    + apply forallb_forall. intros a Ha. apply in_map_iff in Ha. destruct Ha as (b & <- & Hb).
      apply (IH e2); try assumption. apply Hall. eapply firstn_In. exact Hb.
  - destruct t2 as [| | | | |?|? ? ?|y gs]; try discriminate He.
    rewrite evolvesb_msg in He. apply andb_true_iff in He. destruct He as [_ Hef].
    rewrite wf_msg in Hw. rewrite !andb_true_iff in Hw. destruct Hw as [[Hkd _] Hwf].
    destruct v as [| | |vs]; try discriminate Ht. rewrite has_ty_msg in Ht.
    rewrite proj_msg, has_ty_msg.
    assert (Hsub : forall l l2, (forall kf, In kf l -> In kf fs) -> evolves_fields x l l2 = true ->
                     Forall (fun kf => forall t2 v, evolvesb (snd kf) t2 = true -> wf (snd kf) = true ->
                                                    has_ty t2 v = true -> has_ty (snd kf) (proj (snd kf) v) = true) l ->
                     fields_wf l = true -> fields_has_ty vs l2 = true ->
                     fields_has_ty (proj_fields (VM vs) fs) l = true).
    { induction l as [|[k ft] r IHl]; intros l2 Hin Hev HIH Hwl Htl; [reflexivity|].
      destruct l2 as [|kg r2]; [discriminate Hev|].
      cbn [evolves_fields fst snd] in Hev. rewrite !andb_true_iff in Hev. destruct Hev as [[Ek Hek] Hev'].
      apply Z.eqb_eq in Ek.
      inversion_clear HIH as [|? ? Hk Hrest].
      cbn [fields_wf fst snd] in Hwl. rewrite !andb_true_iff in Hwl. destruct Hwl as [[[_ _] Hwk] Hwr].
      cbn [fields_has_ty] in Htl. apply andb_true_iff in Htl. destruct Htl as [Htk Htr].
      cbn [fields_has_ty fst snd].
      rewrite (lookup_proj_fields (VM vs) fs k ft Hkd (Hin _ (or_introl eq_refl))).
      apply andb_true_iff. split.
      - destruct (lookup (fst kg) vs) as [fv|] eqn:El; [|discriminate Htk].
        cbn [snd] in Hk. apply (Hk (snd kg)); try assumption.
        unfold vfield. rewrite Ek, El. exact Htk.
      - apply (IHl r2); try assumption. intros kf Hk'. apply Hin. now right. }
    apply (Hsub fs gs); auto.
Qed.

(* ---------- the invariant ---------- *)

Definition pstore_fields (E : endian) (v : val) :=
  fix go (l : list (Z * ty)) : list (Z * obj) :=
    match l with
    | [] => []
    | kf :: r => (fst kf, store E (snd kf) (proj (snd kf) (vfield (fst kf) v))) :: go r
    end.

Lemma pstore_fields_keys E v l : map fst (pstore_fields E v l) = map fst l.
Proof. induction l as [|h r IH]; [reflexivity|]. cbn [pstore_fields map fst]. now rewrite IH. Qed.

Lemma pstore_fields_app E v l1 l2 : pstore_fields E v (l1 ++ l2) = pstore_fields E v l1 ++ pstore_fields E v l2.
Proof. induction l1 as [|h r IH]; [reflexivity|]. cbn [app pstore_fields]. now rewrite IH. Qed.

Lemma pstore_is_store E v fs x :
  keys_distinct (map fst fs) = true ->
  OS (pstore_fields E v fs) = store E (TMsg x fs) (proj (TMsg x fs) v).
Proof.
  intros Hkd. rewrite proj_msg, store_msg. f_equal.
  assert (Hsub : forall l, (forall kf, In kf l -> In kf fs) ->
            pstore_fields E v l = store_fields E (VM (proj_fields v fs)) l).
  { induction l as [|[k ft] r IHl]; intros Hin; [reflexivity|].
    cbn [pstore_fields store_fields fst snd]. f_equal.
    - f_equal. f_equal. unfold vfield at 2.
      rewrite (lookup_proj_fields v fs k ft Hkd (Hin _ (or_introl eq_refl))). reflexivity.
    - apply IHl. intros kf Hk. apply Hin. now right. }
  apply Hsub. auto.
Qed.

Section Evolve.
  Variables (B E : endian).
  Hypothesis HBE : B = E.
  Let cp := call_processor B E false.

  Definition cev_ok (t1 : ty) : Prop :=
    forall t2 v x,
      evolvesb t1 t2 = true -> wf t1 = true -> wf t2 = true -> cwf t1 = true -> has_ty t2 v = true ->
      dec_pre x (nbits t2) ->
      seg (xs x) (xi x) (nbits t2) = Z_of_bits (enc_bits t2 v) ->
      core B E false t1 x (zero_obj t1)
      = COk ({| xs := xs x; xi := xi x + nbits t2 |}, store E t1 (proj t1 v)).

  Lemma cev_leaf t1 : is_leaf t1 = true -> cev_ok t1.
  Proof.
    intros Hleaf t2 v x He Hw1 Hw2 Hc Ht Hpre Hseg.
    rewrite (evolvesb_leaf t1 t2 Hleaf He) in *. rewrite (store_proj_leaf E t1 v Hleaf).
    apply (CDecProofs.dec_ok_all B E HBE t1); assumption.
  Qed.

  (* ---- messages: the matched prefix of the evolved field list ---- *)
  Lemma cev_fields xflag vs : forall todo todo2 done x,
    keys_distinct (map fst (done ++ todo)) = true ->
    Forall (fun kf => cev_ok (snd kf)) todo ->
    evolves_fields xflag todo todo2 = true ->
    fields_wf todo = true -> cwf_fields todo = true ->
    fields_wf todo2 = true -> fields_has_ty vs todo2 = true ->
    dec_pre x (fields_nbits todo2) ->
    seg (xs x) (xi x) (fields_nbits todo2) = Z_of_bits (fields_bits (VM vs) todo2) ->
    fields_loop B E cp false (render_fields todo) (length todo) x
                (OS (pstore_fields E (VM vs) done ++ zero_fields todo))
    = COk ({| xs := xs x; xi := xi x + matched_nbits todo todo2 |},
           OS (pstore_fields E (VM vs) (done ++ todo))).
  Proof.
    induction todo as [|kf r IHr]; intros todo2 done x Hkd HIH Hev Hw Hc Hw2 Ht2 Hpre Hseg.
    - cbn [fields_loop render_fields length zero_fields].
      replace (matched_nbits [] todo2) with 0 by (destruct todo2; reflexivity).
      rewrite !app_nil_r. destruct x as [s0 i0]; cbn [xs xi]. f_equal. f_equal. f_equal. lia.
    - destruct todo2 as [|kg r2]; [discriminate Hev|].
      cbn [evolves_fields] in Hev. rewrite !andb_true_iff in Hev. destruct Hev as [[Ek Hek] Hev'].
      apply Z.eqb_eq in Ek.
      inversion_clear HIH as [|? ? Hk Hrest].
      cbn [fields_wf] in Hw, Hw2. rewrite !andb_true_iff in Hw. rewrite !andb_true_iff in Hw2.
      destruct Hw as [[[_ _] Hwk] Hwr]. destruct Hw2 as [[[_ _] Hwg] Hwr2].
      cbn [cwf_fields] in Hc. apply andb_true_iff in Hc. destruct Hc as [Hck Hcr].
      cbn [fields_has_ty] in Ht2. rewrite andb_true_iff in Ht2. destruct Ht2 as [Htg Htr2].
      destruct kf as [k ft]. cbn [fst snd] in *.
      destruct (lookup (fst kg) vs) as [fv|] eqn:Elk; [|discriminate].
      assert (Hvf : vfield (fst kg) (VM vs) = fv) by (unfold vfield; now rewrite Elk).
      pose proof (nbits_nonneg _ Hwg) as Hn1. pose proof (CDecProofs.fields_nbits_nonneg r2 Hwr2) as Hn2.
      cbn [fields_nbits fold_right fields_bits matched_nbits fst snd] in Hpre, Hseg |- *.
      fold (fields_nbits r2) in *. fold (fields_bits (VM vs) r2) in *. rewrite Hvf in Hseg.
      pose proof (enc_bits_length (snd kg) fv Hwg Htg) as Hl1.
      pose proof (fields_bits_length vs r2 Hwr2 Htr2) as Hl2.
      rewrite <- Hl2 in Hseg. rewrite <- Hl1 in Hseg at 1. destruct Hpre as (Hs & Hi & Hl).
      destruct (seg_app (xs x) (xi x) _ _ Hi Hseg) as [Hseg1 Hseg2]. rewrite Hl1 in Hseg1, Hseg2. rewrite Hl2 in Hseg2.
      assert (Hnot : ~ In k (map fst (pstore_fields E (VM vs) done))).
      { rewrite pstore_fields_keys. rewrite map_app in Hkd. cbn [map fst] in Hkd. exact (keys_distinct_mid _ _ _ Hkd). }
      cbn [render_fields length fields_loop zero_fields fst snd].
      unfold get_fld. rewrite (lookup_app_notin k _ _ Hnot). cbn [lookup fst snd]. rewrite Z.eqb_refl. cbn [cbind].
      unfold cp at 1. rewrite field_step_core. fold cp.
      rewrite (Hk (snd kg) fv x Hek Hwk Hwg Hck Htg); [|unfold dec_pre; repeat split; try assumption; lia|exact Hseg1].
      cbn [cbind fst snd set_fld]. rewrite (set_assoc_app_notin k _ _ _ Hnot).
      cbn [set_assoc fst]. rewrite Z.eqb_refl.
      replace (pstore_fields E (VM vs) done ++ (k, store E ft (proj ft fv)) :: zero_fields r)
        with (pstore_fields E (VM vs) (done ++ [(k, ft)]) ++ zero_fields r).
      2:{ rewrite pstore_fields_app. cbn [pstore_fields fst snd]. rewrite Ek, Hvf, <- app_assoc. reflexivity. }
      rewrite (IHr r2 (done ++ [(k, ft)]) {| xs := xs x; xi := xi x + nbits (snd kg) |}); try assumption.
      + cbn [xs xi]. rewrite <- app_assoc. cbn [app]. f_equal. f_equal. f_equal. lia.
      + rewrite <- app_assoc. exact Hkd.
      + unfold dec_pre. cbn [xs xi]. repeat split; try assumption; lia.
  Qed.

  Lemma cev_msg ext fs : Forall (fun kf => cev_ok (snd kf)) fs -> cev_ok (TMsg ext fs).
  Proof.
    intros IH t2 v x He Hw1 Hw2 Hc Ht Hpre Hseg.
    destruct t2 as [| | | | |?|? ? ?|y gs]; try discriminate He.
    rewrite evolvesb_msg in He. apply andb_true_iff in He. destruct He as [Exy Hef].
    apply eqb_prop in Exy. subst y.
    pose proof (nbits_nonneg _ Hw2) as Hnn.
    rewrite wf_msg in Hw1, Hw2. rewrite !andb_true_iff in Hw1. rewrite !andb_true_iff in Hw2.
    destruct Hw1 as [[Hkd _] Hwf]. destruct Hw2 as [[_ Hnb2] Hwf2].
    rewrite cwf_msg in Hc. destruct v as [| | |vs]; try discriminate. rewrite has_ty_msg in Ht.
    pose proof (fields_bits_length vs gs Hwf2 Ht) as Hl2.
    pose proof (CDecProofs.fields_nbits_nonneg gs Hwf2) as Hfn.
    pose proof (matched_le fs gs Hwf2) as Hmle.
    rewrite enc_bits_msg in Hseg. rewrite nbits_msg in Hpre, Hseg, Hnn, Hnb2 |- *.
    rewrite zero_obj_msg, <- (pstore_is_store E (VM vs) fs ext Hkd). cbn [core]. unfold endecode_message.
    rewrite Nat2Z.id. cbn [negb]. rewrite andb_true_r. fold cp.
    destruct Hpre as (Hs & Hi & Hl).
    destruct ext; cbn [ext_bits] in *.
    - set (P := bits_of 16 (16 + fields_nbits gs)) in *.
      assert (HlP : Z.of_nat (length P) = 16) by reflexivity.
      replace (16 + fields_nbits gs) with (Z.of_nat (length P) + Z.of_nat (length (fields_bits (VM vs) gs))) in Hseg
        by (rewrite Hl2, HlP; reflexivity).
      destruct (seg_app _ _ _ _ Hi Hseg) as [Hseg1 Hseg2].
      rewrite HlP in Hseg1, Hseg2. rewrite Hl2 in Hseg2.
      unfold P in Hseg1. rewrite bits16 in Hseg1 by lia.
      rewrite (dec_ahead B E HBE x (16 + fields_nbits gs)); [|unfold dec_pre; repeat split; try assumption; lia|exact Hseg1].
      cbn [cbind fst snd].
      pose proof (cev_fields true vs fs gs [] {| xs := xs x; xi := xi x + 16 |}) as Hf.
      cbn [app pstore_fields] in Hf. rewrite Hf; try assumption.
      2:{ unfold dec_pre. cbn [xs xi]. repeat split; try assumption; lia. }
      cbn [cbind fst snd xs xi]. unfold ms_ito, ms_ito_taken.
      replace (xi x + (16 + fields_nbits gs) >=? xi x + 16 + matched_nbits fs gs) with true by lia.
      reflexivity.
    - rewrite Z.add_0_l in *. cbn [cbind fst snd].
      pose proof (cev_fields false vs fs gs [] x) as Hf. cbn [app pstore_fields] in Hf.
      rewrite Hf; try assumption; [|unfold dec_pre; repeat split; assumption].
      rewrite (matched_all fs gs Hef). reflexivity.
  Qed.

  Lemma cev_alias u : cev_ok u -> cev_ok (TAlias u).
  Proof.
    intros IH t2 v x He Hw1 Hw2 Hc Ht Hpre Hseg.
    destruct t2; try discriminate He.
    cbn [evolvesb wf cwf has_ty nbits enc_bits zero_obj store proj core] in *.
    apply andb_true_iff in Hc. destruct Hc as [Hat Hcu].
    rewrite (alias_core B E false u x _ Hat). apply IH; assumption.
  Qed.

  (* ---- arrays ---- *)
  Section Elems.
    Variables (e e2 : ty).
    Hypothesis IHe : cev_ok e.
    Hypotheses (Hee : evolvesb e e2 = true) (Hwe : wf e = true) (Hwe2 : wf e2 = true)
               (Hce : cwf e = true) (Hel : elem_ok e = true).

    Let g := fun a => store E e (proj e a).
    Let f := fun a => obytes (store E e (proj e a)).

    Lemma cev_elems_OL : forall vrest vpre x,
      (forall a, In a vrest -> has_ty e2 a = true) ->
      dec_pre x (Z.of_nat (length vrest) * nbits e2) ->
      seg (xs x) (xi x) (Z.of_nat (length vrest) * nbits e2) = Z_of_bits (flat_map (enc_bits e2) vrest) ->
      elems_loop B E cp false (render e) (length vrest) (length vpre) x
                 (OL (map g vpre ++ repeat (zero_obj e) (length vrest)))
      = COk ({| xs := xs x; xi := xi x + Z.of_nat (length vrest) * nbits e2 |}, OL (map g (vpre ++ vrest))).
    Proof.
      pose proof (nbits_nonneg e2 Hwe2) as Hn.
      induction vrest as [|a r IH]; intros vpre x Hty Hpre Hseg.
      - cbn [length elems_loop repeat]. rewrite !app_nil_r. destruct x as [s0 i0]; cbn [xs xi]. f_equal. f_equal. f_equal. lia.
      - cbn [length elems_loop repeat flat_map] in *.
        replace (Z.of_nat (S (length r)) * nbits e2) with (nbits e2 + Z.of_nat (length r) * nbits e2) in * by lia.
        assert (Ha : has_ty e2 a = true) by (apply Hty; now left).
        pose proof (enc_bits_length e2 a Hwe2 Ha) as Hl1.
        assert (Hl2 : Z.of_nat (length (flat_map (enc_bits e2) r)) = Z.of_nat (length r) * nbits e2).
        { rewrite (flat_map_length_const _ _ (Z.to_nat (nbits e2))); [lia|].
          intros b Hb. pose proof (enc_bits_length e2 b Hwe2 (Hty b (or_intror Hb))). lia. }
        destruct Hpre as (Hs & Hi & Hl).
        rewrite <- Hl2 in Hseg. rewrite <- Hl1 in Hseg at 1. destruct (seg_app _ _ _ _ Hi Hseg) as [Hseg1 Hseg2].
        rewrite Hl1 in Hseg1, Hseg2. rewrite Hl2 in Hseg2.
        unfold get_elem.
        replace (length vpre) with (length (map g vpre)) by apply map_length.
        rewrite nth_error_app_mid. cbn [cbind].
        unfold cp at 1. rewrite (elem_step_core B E false e _ _ Hel). fold cp.
        rewrite (IHe e2 a x Hee Hwe Hwe2 Hce Ha); [|unfold dec_pre; repeat split; try assumption; nia|exact Hseg1].
        cbn [cbind fst snd set_elem].
        replace (Nat.ltb (length (map g vpre)) (length (map g vpre ++ zero_obj e :: repeat (zero_obj e) (length r)))) with true.
        2:{ symmetry. apply Nat.ltb_lt. rewrite app_length. cbn [length]. lia. }
        rewrite upd_app_mid. cbn [cbind]. fold (g a).
        replace (map g vpre ++ g a :: repeat (zero_obj e) (length r))
          with (map g (vpre ++ [a]) ++ repeat (zero_obj e) (length r))
          by (rewrite map_app, <- app_assoc; reflexivity).
        replace (S (length (map g vpre))) with (length (vpre ++ [a])) by (rewrite app_length, map_length; cbn; lia).
        rewrite (IH (vpre ++ [a]) {| xs := xs x; xi := xi x + nbits e2 |}).
        + cbn [xs xi]. rewrite <- app_assoc. cbn [app]. f_equal. f_equal. f_equal. lia.
        + intros b Hb. apply Hty. now right.
        + unfold dec_pre. cbn [xs xi]. repeat split; try assumption; nia.
        + cbn [xs xi]. exact Hseg2.
    Qed.

    Hypothesis Hflat : flat e = true.

    Lemma pf_len a : has_ty e2 a = true ->
      length (f a) = Z.to_nat (csize e) /\ bytes_ok (f a) /\ store E e (proj e a) = OB (f a).
    Proof.
      intros Ha. apply (f_len E e Hwe Hflat (proj e a)). apply (proj_has_ty e e2); assumption.
    Qed.

    Lemma cev_elems_OB : forall vrest vpre x,
      (forall a, In a vpre -> has_ty e2 a = true) ->
      (forall a, In a vrest -> has_ty e2 a = true) ->
      dec_pre x (Z.of_nat (length vrest) * nbits e2) ->
      seg (xs x) (xi x) (Z.of_nat (length vrest) * nbits e2) = Z_of_bits (flat_map (enc_bits e2) vrest) ->
      elems_loop B E cp false (render e) (length vrest) (length vpre) x
                 (OB (flat_map f vpre ++ zeros (length vrest * Z.to_nat (csize e))))
      = COk ({| xs := xs x; xi := xi x + Z.of_nat (length vrest) * nbits e2 |}, OB (flat_map f (vpre ++ vrest))).
    Proof.
      pose proof (nbits_nonneg e2 Hwe2) as Hn. pose proof (csize_nonneg e Hwe) as Hcs.
      set (esz := Z.to_nat (csize e)).
      induction vrest as [|a r IH]; intros vpre x Htp Hty Hpre Hseg.
      - cbn [length elems_loop Nat.mul zeros]. rewrite !app_nil_r. destruct x as [s0 i0]; cbn [xs xi]. f_equal. f_equal. f_equal. lia.
      - cbn [length elems_loop flat_map] in *.
        replace (Z.of_nat (S (length r)) * nbits e2) with (nbits e2 + Z.of_nat (length r) * nbits e2) in * by lia.
        assert (Ha : has_ty e2 a = true) by (apply Hty; now left).
        pose proof (enc_bits_length e2 a Hwe2 Ha) as Hl1.
        assert (Hl2 : Z.of_nat (length (flat_map (enc_bits e2) r)) = Z.of_nat (length r) * nbits e2).
        { rewrite (flat_map_length_const _ _ (Z.to_nat (nbits e2))); [lia|].
          intros b Hb. pose proof (enc_bits_length e2 b Hwe2 (Hty b (or_intror Hb))). lia. }
        destruct Hpre as (Hs & Hi & Hl).
        rewrite <- Hl2 in Hseg. rewrite <- Hl1 in Hseg at 1. destruct (seg_app _ _ _ _ Hi Hseg) as [Hseg1 Hseg2].
        rewrite Hl1 in Hseg1, Hseg2. rewrite Hl2 in Hseg2.
        assert (Hpl : length (flat_map f vpre) = (length vpre * esz)%nat).
        { apply flat_map_length_const. intros b Hb. apply pf_len, Htp, Hb. }
        unfold get_elem. rewrite d_size_render.
        replace (S (length r) * esz)%nat with (esz + length r * esz)%nat by lia. rewrite zeros_app.
        replace (Z.of_nat (length vpre) * csize e) with (Z.of_nat (length (flat_map f vpre))).
        2:{ rewrite Hpl, Nat2Z.inj_mul. unfold esz. rewrite Z2Nat.id by lia. reflexivity. }
        replace (csize e) with (Z.of_nat (length (zeros esz))) at 1 by (rewrite zeros_length; unfold esz; lia).
        rewrite slice_app. cbn [cbind].
        unfold cp at 1. rewrite (elem_step_core B E false e _ _ Hel). fold cp.
        replace (OB (zeros esz)) with (zero_obj e) by (unfold esz; apply zero_flat; assumption).
        rewrite (IHe e2 a x Hee Hwe Hwe2 Hce Ha); [|unfold dec_pre; repeat split; try assumption; nia|exact Hseg1].
        cbn [cbind fst snd]. destruct (pf_len a Ha) as (Hfa & Hfo & Hfs). rewrite Hfs. cbn [set_elem].
        replace (Z.of_nat (length vpre) * csize e) with (Z.of_nat (length (flat_map f vpre)))
          by (rewrite Hpl, Nat2Z.inj_mul; unfold esz; rewrite Z2Nat.id by lia; reflexivity).
        rewrite splice_app by (rewrite zeros_length; exact Hfa). cbn [cbind].
        replace (flat_map f vpre ++ f a ++ zeros (length r * esz))
          with (flat_map f (vpre ++ [a]) ++ zeros (length r * esz))
          by (rewrite flat_map_app; cbn [flat_map]; rewrite app_nil_r, <- app_assoc; reflexivity).
        replace (S (length vpre)) with (length (vpre ++ [a])) by (rewrite app_length; cbn; lia).
        rewrite (IH (vpre ++ [a]) {| xs := xs x; xi := xi x + nbits e2 |}).
        + cbn [xs xi]. rewrite <- app_assoc. cbn [app]. f_equal. f_equal. f_equal. lia.
        + intros b Hb. apply in_app_or in Hb. destruct Hb as [Hb|[<-|[]]]; [apply Htp, Hb|exact Ha].
        + intros b Hb. apply Hty. now right.
        + unfold dec_pre. cbn [xs xi]. repeat split; try assumption; nia.
        + cbn [xs xi]. exact Hseg2.
    Qed.
  End Elems.

  (* an element type for which the batch copy is taken is an integer leaf (or an alias of one):
     it cannot evolve, and projecting changes nothing *)
  Lemma batch_no_evolution e e2 :
    wf e = true -> cwf e = true ->
    ar_batch_le_build (nbits e) (d_flag (render e)) (d_to_flag (render e)) = true ->
    evolvesb e e2 = true ->
    e2 = e /\ forall a, store E e (proj e a) = store E e a.
  Proof.
    intros Hw Hc Hb He.
    unfold ar_batch_le_build in Hb. apply andb_true_iff in Hb. destruct Hb as [_ Hf].
    destruct e as [| | n | n | n ms | u | xx cap e' | xx fs]; cbn [render d_flag d_to_flag] in Hf.
    - split; [exact (evolvesb_leaf TBool e2 eq_refl He)|reflexivity].
    - split; [exact (evolvesb_leaf TByte e2 eq_refl He)|reflexivity].
    - split; [exact (evolvesb_leaf (TUint n) e2 eq_refl He)|reflexivity].
    - split; [exact (evolvesb_leaf (TInt n) e2 eq_refl He)|reflexivity].
    - split; [exact (evolvesb_leaf (TEnum n ms) e2 eq_refl He)|reflexivity].
    - cbn [cwf] in Hc. apply andb_true_iff in Hc. destruct Hc as [Hat _].
      destruct e2 as [| | | | |u2| |]; try discriminate He. cbn [evolvesb] in He.
      destruct u as [| | n | n | n ms | u' | xx cap e' | xx fs]; try discriminate Hat; cbn [bp_flag] in Hf.
      + split; [f_equal; exact (evolvesb_leaf TBool u2 eq_refl He)|reflexivity].
      + split; [f_equal; exact (evolvesb_leaf TByte u2 eq_refl He)|reflexivity].
      + split; [f_equal; exact (evolvesb_leaf (TUint n) u2 eq_refl He)|reflexivity].
      + split; [f_equal; exact (evolvesb_leaf (TInt n) u2 eq_refl He)|reflexivity].
      + exfalso. vm_compute in Hf. discriminate.
    - exfalso. vm_compute in Hf. discriminate.
    - exfalso. vm_compute in Hf. discriminate.
  Qed.

  Lemma cev_array_body ext e e2 l x1 :
    cev_ok e -> evolvesb e e2 = true -> wf e = true -> wf e2 = true -> cwf e = true -> elem_ok e = true ->
    (forall a, In a l -> has_ty e2 a = true) ->
    dec_pre x1 (Z.of_nat (length l) * nbits e2) ->
    seg (xs x1) (xi x1) (Z.of_nat (length l) * nbits e2) = Z_of_bits (flat_map (enc_bits e2) l) ->
    (if batch_pred B (nbits e) (d_flag (render e)) (d_to_flag (render e))
     then on_bytes (zero_obj (TArr ext (length l) e))
            (fun bs =>
               r0 <-- base_type B E false (ar_batch_nbits (nbits e) (Z.of_nat (length l))) x1 bs ;;
               if ar_sign_needed (d_flag (render e)) (d_to_flag (render e))
               then bs' <-- batch_sign E false (Z.to_nat (Z.of_nat (length l))) 0 (csize e) (nbits e) (snd r0) ;;
                    COk (fst r0, bs')
               else COk r0)
     else elems_loop B E cp false (render e) (Z.to_nat (Z.of_nat (length l))) 0 x1 (zero_obj (TArr ext (length l) e)))
    = COk ({| xs := xs x1; xi := xi x1 + Z.of_nat (length l) * nbits e2 |},
           store E (TArr ext (length l) e) (VL (map (proj e) l))).
  Proof.
    intros IH Hee Hwe Hwe2 Hce Hel Hty Hpre Hseg.
    destruct (batch_pred B (nbits e) (d_flag (render e)) (d_to_flag (render e))) eqn:Hbp.
    - assert (HB : B = LE) by (destruct B; [reflexivity|discriminate Hbp]).
      pose proof Hbp as Hbp'. rewrite HB in Hbp'. cbn [batch_pred] in Hbp'.
      destruct (batch_no_evolution e e2 Hwe Hce Hbp' Hee) as [-> Hsp].
      pose proof (dec_array_body B E HBE ext e l x1 (CDecProofs.dec_ok_all B E HBE e) Hwe Hce Hel Hty Hpre Hseg) as H.
      rewrite Hbp in H. fold cp in H. rewrite H. f_equal. f_equal.
      cbn [store vlist]. rewrite map_map.
      destruct (flat e).
      + f_equal. rewrite !flat_map_concat_map, map_map. f_equal. apply map_ext. intros a. now rewrite Hsp.
      + f_equal. apply map_ext. intros a. now rewrite Hsp.
    - rewrite Nat2Z.id. cbn [zero_obj store vlist]. destruct (flat e) eqn:Hfl.
      + pose proof (cev_elems_OB e e2 IH Hee Hwe Hwe2 Hce Hel Hfl l [] x1 ltac:(intros a []) Hty Hpre Hseg) as H.
        cbn [length flat_map app] in H. rewrite H. f_equal. f_equal. f_equal.
        rewrite !flat_map_concat_map, map_map. reflexivity.
      + pose proof (cev_elems_OL e e2 IH Hee Hwe Hwe2 Hce Hel l [] x1 Hty Hpre Hseg) as H.
        cbn [length map app] in H. rewrite H. f_equal. f_equal. f_equal. now rewrite map_map.
  Qed.

  Lemma flat_map_firstn_skipn {A C} (h : A -> list C) (l : list A) k :
    flat_map h l = flat_map h (firstn k l) ++ flat_map h (skipn k l).
  Proof. rewrite <- flat_map_app, firstn_skipn. reflexivity. Qed.

  Lemma cev_array ext cap e : cev_ok e -> cev_ok (TArr ext cap e).
  Proof.
    intros IH t2 v x He Hw1 Hw2 Hc Ht Hpre Hseg.
    destruct t2 as [| | | | |?|y cap2 e2|]; try discriminate He.
    cbn [evolvesb] in He. rewrite !andb_true_iff in He. destruct He as [[Exy Hee] Hcap].
    apply eqb_prop in Exy. subst y.
    cbn [wf] in Hw1, Hw2. rewrite !andb_true_iff in Hw1. rewrite !andb_true_iff in Hw2.
    destruct Hw1 as [[Hc1 Hc2] Hwe]. destruct Hw2 as [[Hd1 Hd2] Hwe2].
    cbn [cwf] in Hc. apply andb_true_iff in Hc. destruct Hc as [Hel Hce].
    cbn [has_ty] in Ht. destruct v as [| |l|]; try discriminate.
    apply andb_true_iff in Ht. destruct Ht as [Hlen Hall]. apply Nat.eqb_eq in Hlen.
    rewrite forallb_forall in Hall.
    assert (Hcle : (cap <= cap2)%nat) by (destruct ext; [apply Nat.leb_le in Hcap|apply Nat.eqb_eq in Hcap]; lia).
    pose proof (nbits_nonneg e2 Hwe2) as Hn.
    set (l1 := firstn cap l). set (l2 := skipn cap l).
    assert (Hl1 : length l1 = cap) by (unfold l1; rewrite firstn_length; lia).
    assert (Hall1 : forall a, In a l1 -> has_ty e2 a = true) by (intros a Ha; apply Hall; eapply firstn_In; exact Ha).
    assert (Hall2 : forall a, In a l2 -> has_ty e2 a = true) by (intros a Ha; apply Hall; eapply skipn_In; exact Ha).
    assert (Hb1 : Z.of_nat (length (flat_map (enc_bits e2) l1)) = Z.of_nat cap * nbits e2).
    { rewrite (flat_map_length_const _ _ (Z.to_nat (nbits e2))); [lia|].
      intros b Hb. pose proof (enc_bits_length e2 b Hwe2 (Hall1 b Hb)). lia. }
    assert (Hb2 : Z.of_nat (length (flat_map (enc_bits e2) l2)) = Z.of_nat (cap2 - cap) * nbits e2).
    { rewrite (flat_map_length_const _ _ (Z.to_nat (nbits e2))).
      - unfold l2. rewrite skipn_length. lia.
      - intros b Hb. pose proof (enc_bits_length e2 b Hwe2 (Hall2 b Hb)). lia. }
    cbn [nbits enc_bits vlist proj] in Hpre, Hseg |- *. fold l1.
    rewrite (flat_map_firstn_skipn (enc_bits e2) l cap) in Hseg. fold l1 l2 in Hseg.
    cbn [core]. unfold endecode_array. rewrite d_nbits_render, d_size_render. cbn [negb]. rewrite andb_true_r.
    destruct Hpre as (Hs & Hi & Hl).
    assert (Hsplit : Z.of_nat cap2 * nbits e2 = Z.of_nat cap * nbits e2 + Z.of_nat (cap2 - cap) * nbits e2) by nia.
    rewrite <- Hl1. fold cp.
    destruct ext; cbn [ext_bits] in *.
    - set (P := bits_of 16 (Z.of_nat cap2)) in *.
      assert (HlP : Z.of_nat (length P) = 16) by reflexivity.
      replace (16 + Z.of_nat cap2 * nbits e2)
        with (Z.of_nat (length P) + Z.of_nat (length (flat_map (enc_bits e2) l1 ++ flat_map (enc_bits e2) l2))) in Hseg
        by (rewrite app_length, Nat2Z.inj_add, Hb1, Hb2, HlP; lia).
      destruct (seg_app _ _ _ _ Hi Hseg) as [Hseg1 Hseg2].
      rewrite HlP in Hseg1, Hseg2. unfold P in Hseg1. rewrite bits16 in Hseg1 by lia.
      rewrite app_length, Nat2Z.inj_add in Hseg2.
      assert (Hi16 : 0 <= xi x + 16) by lia.
      destruct (seg_app _ _ _ _ Hi16 Hseg2) as [Hseg3 _]. rewrite Hb1 in Hseg3.
      rewrite (dec_ahead B E HBE x (Z.of_nat cap2)); [|unfold dec_pre; repeat split; try assumption; nia|exact Hseg1].
      cbn [cbind fst snd].
      rewrite (cev_array_body true e e2 l1 {| xs := xs x; xi := xi x + 16 |} IH Hee Hwe Hwe2 Hce Hel Hall1);
        [|unfold dec_pre; cbn [xs xi]; rewrite Hl1; repeat split; try assumption; nia|cbn [xs xi]; rewrite Hl1; exact Hseg3].
      cbn [cbind fst snd xs xi]. rewrite Hl1.
      assert (Hito : ar_ito (xi x) (Z.of_nat cap2) (xi x + 16 + Z.of_nat cap * nbits e2) (Z.of_nat cap)
                     = xi x + 16 + Z.of_nat cap2 * nbits e2).
      { unfold ar_ito. replace (xi x + 16 + Z.of_nat cap * nbits e2 - xi x - 16) with (nbits e2 * Z.of_nat cap) by lia.
        rewrite Z.quot_mul by lia. lia. }
      rewrite Hito. unfold ar_ito_taken.
      replace (xi x + 16 + Z.of_nat cap2 * nbits e2 >=? xi x + 16 + Z.of_nat cap * nbits e2) with true by nia.
      f_equal. f_equal. f_equal. lia.
    - apply Nat.eqb_eq in Hcap. subst cap2.
      rewrite Z.add_0_l in *. cbn [cbind fst snd].
      replace (Z.of_nat cap * nbits e2)
        with (Z.of_nat (length (flat_map (enc_bits e2) l1)) + Z.of_nat (length (flat_map (enc_bits e2) l2))) in Hseg
        by (rewrite Hb1, Hb2; nia).
      destruct (seg_app _ _ _ _ Hi Hseg) as [Hseg3 _]. rewrite Hb1 in Hseg3.
      rewrite (cev_array_body false e e2 l1 x IH Hee Hwe Hwe2 Hce Hel Hall1);
        [|unfold dec_pre; rewrite Hl1; repeat split; try assumption; nia|rewrite Hl1; exact Hseg3].
      cbn [cbind]. rewrite Hl1. reflexivity.
  Qed.

  Theorem cev_ok_all t1 : cev_ok t1.
  Proof.
    induction t1 as [| | n | n | n ms | t IH | x c e IH | x fs IH] using ty_ind';
      try (apply cev_leaf; reflexivity).
    - apply cev_alias, IH.
    - apply cev_array, IH.
    - apply cev_msg, IH.
  Qed.
End Evolve.

(* ---------- Decode<Msg1>(wire t2 v2) = store (proj v2) ---------- *)

Theorem c_forward_compat_gen B E t1 t2 v2 :
  B = E -> is_msg t1 = true ->
  wf (norm t1) = true -> cwf (norm t1) = true -> wf (norm t2) = true ->
  evolvesb (norm t1) (norm t2) = true -> has_ty (norm t2) v2 = true ->
  c_decode_ty B E t1 (wire t2 v2) = COk (store E (norm t1) (proj (norm t1) v2)).
Proof.
  intros HBE Hm Hw1 Hc1 Hw2 Hev Ht. unfold c_decode_ty, c_decode.
  set (T1 := norm t1) in *. set (T2 := norm t2) in *.
  assert (HT : exists xx fs, T1 = TMsg xx fs).
  { subst T1. destruct t1; try discriminate Hm. cbn [norm]. eauto. }
  destruct HT as (xx & fs & HT).
  pose proof (nbits_nonneg T2 Hw2) as Hnn.
  pose proof (enc_bits_length T2 v2 Hw2 Ht) as Hlen.
  set (x0 := {| xs := wire t2 v2; xi := 0 |}).
  assert (Hpre : dec_pre x0 (nbits T2)).
  { unfold dec_pre, x0. cbn [xs xi]. split; [apply pack_bytes_ok|]. split; [lia|].
    unfold wire. fold T2. rewrite pack_length, Hlen. lia. }
  assert (Hseg : seg (xs x0) (xi x0) (nbits T2) = Z_of_bits (enc_bits T2 v2)).
  { unfold seg, x0, wire. cbn [xs xi]. fold T2. rewrite bufZ_pack. change (2 ^ 0) with 1. rewrite Z.div_1_r.
    apply Z.mod_small. rewrite <- Hlen. apply Z_of_bits_range. }
  pose proof (cev_ok_all B E HBE T1 T2 v2 x0 Hev Hw1 Hw2 Hc1 Ht Hpre Hseg) as H.
  rewrite HT at 1 2. rewrite top_core, <- HT. rewrite H. reflexivity.
Qed.
