(* GoHelpers.v — the translated Go runtime helpers (BPGen.GenGo, regenerated from
   lib/go/bitproto.go every run) equal the translated Python helpers (BPGen.GenPy) on their
   whole domain, Go's typed semantics (byte shifts truncate, int is 64-bit, / and % truncate
   toward zero) notwithstanding; and the compiler's integer-type choice is the smallest cover.
   Finite domains by exhaustive sweep (domain stated in each lemma), unbounded ones by lia. *)
From Coq Require Import ZArith List Bool Lia ZifyBool.
From BP Require Import ByteStep.
From BPGen Require GenPy GenGo.
Import ListNotations.
Open Scope Z_scope.

Ltac Zify.zify_post_hook ::= Z.div_mod_to_equations.

(* ---------- wrap-around is the identity in range ---------- *)

Lemma wrap_s_64_id x : - 2 ^ 63 <= x < 2 ^ 63 -> GenGo.wrap_s 64 x = x.
Proof.
  intros H. unfold GenGo.wrap_s. change (64 - 1) with 63.
  change (2 ^ 64) with (2 * 2 ^ 63). remember (2 ^ 63) as P eqn:EP.
  assert (0 < P) by (subst P; lia). rewrite Z.mod_small by lia. lia.
Qed.

Lemma wrap_u_8_id x : 0 <= x < 256 -> GenGo.wrap_u 8 x = x.
Proof. intros H. unfold GenGo.wrap_u. change (2 ^ 8) with 256. now rewrite Z.mod_small. Qed.

Lemma rem_nonneg a : 0 <= a -> Z.rem a 8 = a mod 8.
Proof. intros H. apply Z.rem_mod_nonneg; lia. Qed.

Lemma quot_nonneg a : 0 <= a -> Z.quot a 8 = a / 8.
Proof. intros H. apply Z.quot_div_nonneg; lia. Qed.

Definition small (x : Z) : Prop := 0 <= x < 2 ^ 62.

(* ---------- min, getNbitsToCopy: unbounded ---------- *)

Lemma go_min_eq a b : GenGo.go_min a b = Z.min a b.
Proof. unfold GenGo.go_min. destruct (a <? b) eqn:E; lia. Qed.

Lemma getNbitsToCopy_eq i j n :
  small i -> small j -> small n ->
  GenGo.getNbitsToCopy i j n = GenPy.get_nbits_to_copy i j n.
Proof.
  unfold small. intros Hi Hj Hn. unfold GenGo.getNbitsToCopy, GenPy.get_nbits_to_copy.
  rewrite !go_min_eq, !rem_nonneg by lia.
  assert (P62 : 2 ^ 62 * 2 = 2 ^ 63) by reflexivity.
  remember (2 ^ 62) as A. remember (2 ^ 63) as B.
  rewrite !wrap_s_64_id; subst; try lia.
Qed.

(* ---------- getMask: k in 0..7, c in 0..8 ---------- *)

Definition sweep_mask : bool :=
  forallb (fun k => forallb (fun c => GenGo.getMask k c =? GenPy.get_mask k c) (zrange 9)) (zrange 8).

Lemma sweep_mask_ok : sweep_mask = true.
Proof. vm_compute. reflexivity. Qed.

Lemma getMask_eq k c : 0 <= k < 8 -> 0 <= c < 9 -> GenGo.getMask k c = GenPy.get_mask k c.
Proof.
  intros Hk Hc. pose proof sweep_mask_ok as H. unfold sweep_mask in H.
  rewrite forallb_forall in H. specialize (H k (in_zrange _ _ Hk)).
  rewrite forallb_forall in H. specialize (H c (in_zrange _ _ Hc)).
  now apply Z.eqb_eq.
Qed.

(* ---------- smartShift: equal AFTER the mask.
   Go's `n << k` on a byte drops the bits above bit 7, Python's does not; a mask
   get_mask k c with k + c <= 8 is < 256 and hides the difference.
   Domain: byte 0..255, shift -7..7, k 0..7, c 0..8-k. ---------- *)

Lemma implb_elim a b : a = true -> implb a b = true -> b = true.
Proof. intros -> H. exact H. Qed.

Definition shift_row (mg mp : Z) : bool :=
  forallb (fun s => forallb (fun b =>
     Z.land (GenGo.smartShift b (s - 7)) mg =? Z.land (GenPy.smart_shift b (s - 7)) mp)
   (zrange 256)) (zrange 15).

(* stated in unfolded form: the kernel must never be asked to convert a folded sweep *)
Lemma sweep_shift_ok :
  forallb (fun k => forallb (fun c =>
    implb (c <=? 8 - k) (shift_row (GenGo.wrap_u 8 (GenGo.getMask k c)) (GenPy.get_mask k c)))
    (zrange 9)) (zrange 8) = true.
Proof. vm_compute. reflexivity. Qed.

Lemma shift_row_ok k c :
  0 <= k < 8 -> 0 <= c <= 8 - k ->
  shift_row (GenGo.wrap_u 8 (GenGo.getMask k c)) (GenPy.get_mask k c) = true.
Proof.
  intros Hk Hc. pose proof sweep_shift_ok as H.
  rewrite forallb_forall in H. specialize (H k (in_zrange _ _ Hk)).
  rewrite forallb_forall in H. specialize (H c (in_zrange 9 c ltac:(lia))).
  apply (implb_elim (c <=? 8 - k)); [apply Z.leb_le; lia|exact H].
Qed.

Lemma shift_row_elim mg mp b s :
  shift_row mg mp = true -> 0 <= b < 256 -> -7 <= s <= 7 ->
  Z.land (GenGo.smartShift b s) mg = Z.land (GenPy.smart_shift b s) mp.
Proof.
  intros H Hb Hs. unfold shift_row in H.
  rewrite forallb_forall in H. specialize (H (s + 7) (in_zrange 15 (s + 7) ltac:(lia))).
  rewrite forallb_forall in H. specialize (H b (in_zrange _ _ Hb)).
  replace (s + 7 - 7) with s in H by lia. now apply Z.eqb_eq.
Qed.

Lemma smartShift_masked_eq b s k c :
  0 <= b < 256 -> -7 <= s <= 7 -> 0 <= k < 8 -> 0 <= c <= 8 - k ->
  Z.land (GenGo.smartShift b s) (GenGo.wrap_u 8 (GenGo.getMask k c)) =
  Z.land (GenPy.smart_shift b s) (GenPy.get_mask k c).
Proof.
  intros Hb Hs Hk Hc. apply shift_row_elim; [apply shift_row_ok|..]; assumption.
Qed.

(* the unmasked results DO differ: the guard above is needed *)
Lemma smartShift_unmasked_differs :
  GenGo.smartShift 255 (-1) <> GenPy.smart_shift 255 (-1).
Proof. vm_compute. discriminate. Qed.

(* ---------- the expressions of encodeSingleByte / decodeSingleByte ---------- *)

Lemma go_enc_d_eq b ci j c :
  0 <= b < 256 -> small ci -> small j -> 0 <= c <= 8 - ci mod 8 ->
  GenGo.enc_d b ci j c = GenPy.enc_d b ci j c.
Proof.
  unfold small. intros Hb Hi Hj Hc. unfold GenGo.enc_d, GenPy.enc_d.
  rewrite !rem_nonneg by lia.
  assert (Hs : -7 <= j mod 8 - ci mod 8 <= 7) by lia.
  rewrite wrap_s_64_id by (change (2 ^ 63) with 9223372036854775808; lia).
  apply smartShift_masked_eq; lia.
Qed.

Lemma go_dec_d_eq b ci j c :
  0 <= b < 256 -> small ci -> small j -> 0 <= c <= 8 - j mod 8 ->
  GenGo.dec_d b ci j c = GenPy.dec_d b ci j c.
Proof.
  unfold small. intros Hb Hi Hj Hc. unfold GenGo.dec_d, GenPy.dec_d.
  rewrite !rem_nonneg by lia.
  assert (Hs : -7 <= ci mod 8 - j mod 8 <= 7) by lia.
  rewrite wrap_s_64_id by (change (2 ^ 63) with 9223372036854775808; lia).
  apply smartShift_masked_eq; lia.
Qed.

Lemma go_index_eq ci : small ci -> GenGo.enc_index ci = GenPy.enc_index ci /\ GenGo.dec_index ci = GenPy.dec_index ci.
Proof.
  unfold small. intros H. unfold GenGo.enc_index, GenPy.enc_index, GenGo.dec_index, GenPy.dec_index.
  rewrite !quot_nonneg by lia.
  assert (P : 2 ^ 62 * 2 = 2 ^ 63) by reflexivity. remember (2 ^ 62) as A. remember (2 ^ 63) as B.
  rewrite !wrap_s_64_id by lia. auto.
Qed.

Lemma go_shift_eq j : small j -> GenGo.enc_rshift j = GenPy.enc_rshift j /\ GenGo.dec_lshift j = GenPy.dec_lshift j.
Proof.
  unfold small. intros H. unfold GenGo.enc_rshift, GenPy.enc_rshift, GenGo.dec_lshift, GenPy.dec_lshift.
  rewrite !quot_nonneg by lia.
  assert (P : 2 ^ 62 * 2 = 2 ^ 63) by reflexivity. remember (2 ^ 62) as A. remember (2 ^ 63) as B.
  assert (E1 : GenGo.wrap_s 64 (j / 8) = j / 8) by (apply wrap_s_64_id; subst B; rewrite <- P; lia).
  rewrite !E1.
  assert (E2 : GenGo.wrap_s 64 (j / 8 * 8) = j / 8 * 8) by (apply wrap_s_64_id; subst B; rewrite <- P; lia).
  rewrite !E2. auto.
Qed.

(* ---------- the skip formulas (used by C05 for the Go runtime) ---------- *)

Lemma go_message_ito_eq i ahead :
  small i -> 0 <= ahead < 65536 -> GenGo.message_ito i ahead = GenPy.message_ito i ahead.
Proof.
  unfold small. intros Hi Ha. unfold GenGo.message_ito, GenPy.message_ito.
  assert (P : 2 ^ 62 * 2 = 2 ^ 63) by reflexivity. remember (2 ^ 62) as A. remember (2 ^ 63) as B.
  rewrite wrap_s_64_id by lia. reflexivity.
Qed.

(* domain: the decoder has consumed at least the 16 prefix bits (ci >= i + 16), capacities and the
   16-bit ahead value are < 2^16, cursors below 2^40 *)
Lemma go_array_ito_eq i ahead cap ci :
  0 <= i < 2 ^ 40 -> 0 <= ahead < 65536 -> 0 < cap < 65536 -> i + 16 <= ci < 2 ^ 40 ->
  GenGo.array_ito i ahead cap ci = GenPy.array_ito i ahead cap ci.
Proof.
  intros Hi Ha Hc Hci. unfold GenGo.array_ito, GenPy.array_ito.
  change (2 ^ 40) with 1099511627776 in *.
  assert (B63 : 2 ^ 63 = 9223372036854775808) by reflexivity.
  rewrite (wrap_s_64_id (i + 16)) by lia.
  rewrite (wrap_s_64_id (ci - i)) by lia.
  rewrite (wrap_s_64_id (ci - i - 16)) by lia.
  rewrite Z.quot_div_nonneg by lia.
  assert (Hq : 0 <= (ci - i - 16) / cap <= ci - i - 16).
  { split; [apply Z.div_pos; lia|]. apply Z.div_le_upper_bound; nia. }
  rewrite (wrap_s_64_id ((ci - i - 16) / cap)) by lia.
  assert (Hm : 0 <= ahead * ((ci - i - 16) / cap) <= 65536 * 1099511627776) by nia.
  rewrite (wrap_s_64_id (ahead * _)) by lia.
  rewrite wrap_s_64_id by lia. reflexivity.
Qed.

Lemma go_ito_taken_eq ito ci : GenGo.ito_taken ito ci = GenPy.ito_taken ito ci.
Proof. reflexivity. Qed.

(* ---------- Byte2bool / Bool2byte ---------- *)

Lemma Byte2bool_spec b : 0 <= b -> GenGo.Byte2bool b = negb (b =? 0).
Proof. intros H. unfold GenGo.Byte2bool. destruct (b >? 0) eqn:E, (b =? 0) eqn:F; cbn; lia. Qed.

Lemma Bool2byte_spec b : GenGo.Bool2byte b = Z.b2z b.
Proof. destruct b; reflexivity. Qed.

(* ---------- integer storage types: the smallest of 8/16/32/64 that holds n bits ---------- *)

Definition smallest_cover (n : Z) : Z :=
  if n <=? 8 then 8 else if n <=? 16 then 16 else if n <=? 32 then 32 else 64.

Lemma smallest_cover_spec n :
  1 <= n <= 64 ->
  In (smallest_cover n) [8; 16; 32; 64] /\ n <= smallest_cover n /\
  (forall w, In w [8; 16; 32; 64] -> n <= w -> smallest_cover n <= w).
Proof.
  intros H. unfold smallest_cover.
  destruct (n <=? 8) eqn:E8; [|destruct (n <=? 16) eqn:E16; [|destruct (n <=? 32) eqn:E32]];
    (split; [cbn; tauto|]); (split; [lia|]); intros w Hw Hn; cbn in Hw;
    destruct Hw as [<-|[<-|[<-|[<-|[]]]]]; lia.
Qed.

Definition sweep_storage : bool :=
  forallb (fun n => implb (1 <=? n) (GenGo.get_nbits_of_integer n =? smallest_cover n)) (zrange 65).

Lemma sweep_storage_ok : sweep_storage = true.
Proof. vm_compute. reflexivity. Qed.

Lemma get_nbits_of_integer_eq n : 1 <= n <= 64 -> GenGo.get_nbits_of_integer n = smallest_cover n.
Proof.
  intros H. pose proof sweep_storage_ok as S. unfold sweep_storage in S.
  rewrite forallb_forall in S. specialize (S n (in_zrange 65 n ltac:(lia))).
  replace (1 <=? n) with true in S by (symmetry; apply Z.leb_le; lia).
  cbn [implb] in S. now apply Z.eqb_eq.
Qed.

Lemma type_nbytes_eq n : 0 <= n -> GenGo.type_nbytes n = (n + 7) / 8.
Proof. intros H. unfold GenGo.type_nbytes. destruct (n mod 8 =? 0) eqn:E; lia. Qed.
