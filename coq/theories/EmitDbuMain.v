(* EmitDbuMain.v — C10_declared_before_use, target by target. *)
From Coq Require Import String Ascii List ZArith Bool Arith Lia.
From BP Require Import EmitBase EmitNames Emit EmitSpec EmitCheck EmitProofs EmitDbu.
From BPGen Require Import GenC10.
Import ListNotations.
Open Scope string_scope.
Open Scope list_scope.
Open Scope nat_scope.

Section Main.
Variables (s : schema) (i : nat) (flt : list string).
Hypothesis Hwf : wf s = true.
Hypothesis Hi : i < length s.

Let fl := flat_file (getf s i).

Lemma refs_here fl1 fd fl2 r :
  fl = fl1 ++ fd :: fl2 -> In r (def_refs (fd_def fd)) -> ref_wf s i fl1 r = true.
Proof.
  intros E Hr. pose proof (wf_file s i Hwf Hi) as Hf. unfold file_wf in Hf.
  apply andb_true_iff in Hf. destruct Hf as [_ Hf].
  pose proof (refs_wf_split s i fl [] fl1 fd fl2 Hf E) as H. cbn [app] in H.
  rewrite forallb_forall in H. apply H. exact Hr.
Qed.

Lemma ref_in_file_refs fl1 fd fl2 r :
  fl = fl1 ++ fd :: fl2 -> In r (def_refs (fd_def fd)) -> In r (file_refs s i).
Proof.
  intros E Hr. unfold file_refs. apply in_flat_map. exists fd. split; [|exact Hr].
  fold fl. rewrite E. apply in_or_app. right. left. reflexivity.
Qed.

(* ---- C: a referenced definition is visible after the includes and the earlier blocks ---- *)

Definition inc_keys (t : target) : list key :=
  flat_map (fun mj => exports (fuel_of s) s t flt (snd mj)) (f_imports (getf s i)).

Lemma keys_of_h_includes t : lang_of t = LC -> keys_of s t flt (h_includes s i) = inc_keys t.
Proof.
  intros HL. unfold keys_of, all_keys, h_includes, inc_keys. rewrite flat_map_concat_map, map_map.
  rewrite <- flat_map_concat_map. apply flat_map_ext. intros mj. rewrite HL. reflexivity.
Qed.

Lemma header_has_base t j fd k :
  (header_of t = TgH \/ header_of t = TgHO) ->
  In fd (flat_file (getf s j)) -> In k (map dkey (dispatch_one s j flt H_DataStructuresList fd)) ->
  In k (exports (fuel_of s) s t flt j).
Proof.
  intros Ht Hfd Hk. pose proof (in_dispatcher s j flt _ fd k Hfd Hk) as H.
  apply in_map_iff in H. destruct H as [d [<- Hd]]. apply exports_direct.
  destruct Ht as [-> | ->]; [rewrite items_TgH | rewrite items_TgHO]; unfold disp.
  - right. apply in_or_app. right. apply in_or_app. left. apply in_map. exact Hd.
  - right. apply in_or_app. right. right. apply in_or_app. left. apply in_map. exact Hd.
Qed.

Lemma ref_visible_C t fl1 fd fl2 r seen :
  lang_of t = LC -> (header_of t = TgH \/ header_of t = TgHO) ->
  fl = fl1 ++ fd :: fl2 -> In r (def_refs (fd_def fd)) -> single_hop r = true ->
  incl (inc_keys t) seen ->
  incl (dkeys (flat_map (dispatch_one s i flt H_DataStructuresList) fl1)) seen ->
  In (ns_of_rk LC (r_k r), ref_name s LC r) seen.
Proof.
  intros HL Hh E Hr Hs Hinc Hpre.
  destruct (ref_wf_cases s i fl1 r (refs_here fl1 fd fl2 r E Hr)) as [[Hv [Hf [fd' [Hin Ht]]]] | [Hv [Hfo [Hne [fd' [Hin Ht]]]]]].
  - apply Hpre. unfold dkeys. rewrite flat_map_concat_map, concat_map, map_map. apply in_concat.
    exists (map dkey (dispatch_one s i flt H_DataStructuresList fd')). split.
    + apply in_map_iff. exists fd'. split; [reflexivity | exact Hin].
    + pose proof (target_declares s flt t r fd' Ht) as H. rewrite HL, Hf in H.
      destruct t; try discriminate; exact H.
  - unfold single_hop in Hs. destruct (r_via r) as [|m [|m2 via]] eqn:Ev; try contradiction; [|cbn in Hs; discriminate].
    apply follow_one in Hfo. apply Hinc. unfold inc_keys. apply in_flat_map. exists (m, r_file r).
    split; [exact Hfo|]. cbn [snd]. apply (header_has_base t (r_file r) fd' _ Hh Hin).
    pose proof (target_declares s flt t r fd' Ht) as H. rewrite HL in H. destruct t; try discriminate; exact H.
Qed.

(* ---- the C header ---- *)

Lemma sec1_H t all imps fl1 fd fl2 seen :
  lang_of t = LC -> (header_of t = TgH \/ header_of t = TgHO) ->
  g_qualify LC s i = true ->
  fl = fl1 ++ fd :: fl2 ->
  incl (inc_keys t) seen ->
  dbu_go s t flt all (seen ++ dkeys (flat_map (dispatch_one s i flt H_DataStructuresList) fl1)) imps
         (map IDecl (dispatch_one s i flt H_DataStructuresList fd)) = true.
Proof.
  intros HL Hh Hq E Hinc.
  assert (Hvis : forall r, In r (def_refs (fd_def fd)) ->
                 In (ns_of_rk LC (r_k r), ref_name s LC r)
                    (seen ++ dkeys (flat_map (dispatch_one s i flt H_DataStructuresList) fl1))).
  { intros r Hr. apply (ref_visible_C t fl1 fd fl2 r _ HL Hh E Hr).
    - unfold g_qualify in Hq. rewrite forallb_forall in Hq. apply Hq. apply (ref_in_file_refs fl1 fd fl2 r E Hr).
    - apply incl_appl. exact Hinc.
    - apply incl_appr. apply incl_refl. }
  destruct fd as [pth d]. cbn [fd_def] in Hvis.
  destruct d as [n v | n ty | n w ms | n x nested fs]; unfold dispatch_one;
    cbn [fd_def dkind_of dispatch dispatch_filtered andb def_blocks expand blocks_of flat_map app leaf fd_path].
  - reflexivity.
  - cbn [map dbu_go mk d_uses]. rewrite c_type_uses_ok; [reflexivity|]. intros r Hr. apply Hvis. exact Hr.
  - rewrite app_nil_r. apply dbu_go_no_uses. intros d [<- | Hd]; [reflexivity|].
    apply in_map_iff in Hd. destruct Hd as [m [<- _]]. reflexivity.
  - cbn [map dbu_go mk mkm d_uses forallb andb dkey d_ns d_name].
    rewrite andb_true_r. apply forallb_flat_map_intro. intros fld Hfld. apply in_sort_fl in Hfld.
    apply c_type_uses_ok. intros r Hr.
    assert (Hin : In (ns_of_rk LC (r_k r), ref_name s LC r)
                     (seen ++ dkeys (flat_map (dispatch_one s i flt H_DataStructuresList) fl1))).
    { apply Hvis. cbn [def_refs]. apply in_flat_map. exists fld. split; assumption. }
    apply in_or_app. left. exact Hin.
Qed.

Lemma own_tag_declared pth n x nested fs :
  In (mkF pth (DMsg n x nested fs)) fl ->
  In (NsTag, dname LC KMessage (own_px s i LC) pth n) (dkeys (dispatcher s i flt H_DataStructuresList)).
Proof.
  intros Hin. apply (in_dispatcher s i flt _ _ _ Hin). unfold dispatch_one.
  cbn [fd_def dkind_of dispatch dispatch_filtered andb def_blocks expand blocks_of flat_map app leaf fd_path map dkey d_ns d_name mk mkm].
  right. left. reflexivity.
Qed.

(* prototypes: the only generated name they use is the message's own struct tag *)
Lemma protos_ok t all imps seen b :
  (b = H_FunctionDeclarationsForUserList \/ b = H_FunctionDeclarationsForInternalList \/
   b = H_FunctionDeclarationsForUserListOpMode) ->
  incl (dkeys (dispatcher s i flt H_DataStructuresList)) seen ->
  dbu_go s t flt all seen imps (map IDecl (dispatcher s i flt b)) = true.
Proof.
  intros Hb Hseen. unfold dispatcher. apply dbu_go_flat_map. intros fl1 fd fl2 E.
  assert (Hfd : In fd fl). { unfold fl. rewrite E. apply in_or_app. right. left. reflexivity. }
  destruct fd as [pth d].
  assert (Htag : forall n x nested fs, d = DMsg n x nested fs -> forall S, incl seen S ->
            use_ok s t flt S all imps (mkUse NsTag "" (dname LC KMessage (own_px s i LC) pth n) true) = true).
  { intros n x nested fs -> S HS. apply use_ok_eager. apply HS. apply Hseen.
    apply (own_tag_declared pth n x nested fs). exact Hfd. }
  set (pre := dkeys (flat_map (dispatch_one s i flt b) fl1)). clearbody pre.
  destruct d as [n v | n ty | n w ms | n x nested fs]; destruct Hb as [-> | [-> | ->]]; unfold dispatch_one;
    cbn [fd_def dkind_of dispatch dispatch_filtered andb def_blocks expand blocks_of flat_map app leaf fd_path];
    try reflexivity.
  - cbn [map dbu_go mk d_uses forallb andb cuse].
    repeat (apply andb_true_iff; split); try reflexivity;
      apply (Htag n x nested fs eq_refl); repeat (apply incl_appl); apply incl_refl.
  - destruct (negb (passes_filter flt (DMsg n x nested fs))); [reflexivity|].
    cbn [flat_map app leaf fd_path fd_def map dbu_go mk d_uses forallb andb cuse].
    repeat (apply andb_true_iff; split); try reflexivity;
      apply (Htag n x nested fs eq_refl); repeat (apply incl_appl); apply incl_refl.
Qed.

Ltac split_and := apply andb_true_iff; split.

Lemma h_includes_dbu t all seen imps : dbu_go s t flt all seen imps (h_includes s i) = true.
Proof.
  apply dbu_go_imports_only. intros it Hit. unfold h_includes in Hit. apply in_map_iff in Hit.
  destruct Hit as [mj [<- _]]. eauto.
Qed.

Theorem dbu_TgH : g_qualify LC s i = true -> dbu_b s TgH flt (render_items s i TgH flt) = true.
Proof.
  intros Hq. unfold dbu_b. rewrite items_TgH. set (all := all_keys s TgH flt _).
  change (h_guard s i :: ?l) with ([h_guard s i] ++ l). unfold disp. rewrite !dbu_go_app.
  split_and; [reflexivity|]. split_and; [apply h_includes_dbu|]. split_and; [|split_and].
  - unfold dispatcher. apply dbu_go_flat_map. intros fl1 fd fl2 E.
    apply (sec1_H TgH all _ fl1 fd fl2 _ eq_refl (or_introl eq_refl) Hq E).
    rewrite (keys_of_h_includes TgH eq_refl). apply incl_appr. apply incl_refl.
  - apply protos_ok; [auto|]. rewrite keys_of_decls. apply incl_appr. apply incl_refl.
  - apply protos_ok; [auto|]. rewrite !keys_of_decls. apply incl_appl. apply incl_appr. apply incl_refl.
Qed.

Theorem dbu_TgHO : g_qualify LC s i = true -> dbu_b s TgHO flt (render_items s i TgHO flt) = true.
Proof.
  intros Hq. unfold dbu_b. rewrite items_TgHO. set (all := all_keys s TgHO flt _).
  change (h_guard s i :: ?l) with ([h_guard s i] ++ l).
  change (IDecl ?d :: disp s i flt H_DataStructuresList ++ ?l) with ([IDecl d] ++ disp s i flt H_DataStructuresList ++ l).
  unfold disp. rewrite !dbu_go_app.
  split_and; [reflexivity|]. split_and; [apply h_includes_dbu|]. split_and; [reflexivity|]. split_and.
  - unfold dispatcher. apply dbu_go_flat_map. intros fl1 fd fl2 E.
    apply (sec1_H TgHO all _ fl1 fd fl2 _ eq_refl (or_intror eq_refl) Hq E).
    rewrite (keys_of_h_includes TgHO eq_refl). apply incl_appl. apply incl_appr. apply incl_refl.
  - apply protos_ok; [auto|]. rewrite keys_of_decls. apply incl_appr. apply incl_refl.
Qed.


(* ---- the C source: everything its own header declares (and, through it, the included
   headers) is visible; helper functions are defined earlier in the same block ---- *)

Lemma dbu_go_all t all imps ds : forall seen,
  (forall d, In d ds -> forall S, incl seen S -> forallb (use_ok s t flt S all imps) (d_uses d) = true) ->
  dbu_go s t flt all seen imps (map IDecl ds) = true.
Proof.
  induction ds as [|d r IH]; intros seen H; [reflexivity|].
  rewrite dbu_go_decls_cons. split_and.
  - apply (H d (or_introl eq_refl)). apply incl_refl.
  - apply IH. intros d' Hd' S HS. apply (H d' (or_intror Hd')). intros k Hk. apply HS. apply in_or_app. left. exact Hk.
Qed.

Definition own_header (t : target) : list key := exports (fuel_of s) s t flt i.

Lemma header_exports_disp t j b k n :
  (header_of t = TgH /\ (b = H_DataStructuresList \/ b = H_FunctionDeclarationsForUserList \/
                         b = H_FunctionDeclarationsForInternalList)) \/
  (header_of t = TgHO /\ (b = H_DataStructuresList \/ b = H_FunctionDeclarationsForUserListOpMode)) ->
  In k (dkeys (dispatcher s j flt b)) -> In k (exports (S n) s t flt j).
Proof.
  intros Hb Hk. unfold dkeys in Hk. apply in_map_iff in Hk. destruct Hk as [d [<- Hd]]. apply exports_direct.
  destruct Hb as [[-> Hb] | [-> Hb]]; [rewrite items_TgH | rewrite items_TgHO]; unfold disp.
  - right. apply in_or_app. right. destruct Hb as [-> | [-> | ->]].
    + apply in_or_app. left. apply in_map. exact Hd.
    + apply in_or_app. right. apply in_or_app. left. apply in_map. exact Hd.
    + apply in_or_app. right. apply in_or_app. right. apply in_map. exact Hd.
  - right. apply in_or_app. right. right. destruct Hb as [-> | ->].
    + apply in_or_app. left. apply in_map. exact Hd.
    + apply in_or_app. right. apply in_map. exact Hd.
Qed.

(* a key declared by a dispatcher of the header of the file a reference points to is visible
   in the C source of file i *)
Lemma visible_in_source t r b k :
  lang_of t = LC ->
  (header_of t = TgH /\ (b = H_DataStructuresList \/ b = H_FunctionDeclarationsForUserList \/
                         b = H_FunctionDeclarationsForInternalList)) \/
  (header_of t = TgHO /\ (b = H_DataStructuresList \/ b = H_FunctionDeclarationsForUserListOpMode)) ->
  (r_via r = [] /\ r_file r = i) \/ (exists m, r_via r = [m] /\ In (m, r_file r) (f_imports (getf s i))) ->
  In k (dkeys (dispatcher s (r_file r) flt b)) -> In k (own_header t).
Proof.
  intros HL Hb Hr Hk. unfold own_header, fuel_of. destruct Hr as [[_ Hf] | [m [_ Him]]].
  - rewrite <- Hf. apply (header_exports_disp t (r_file r) b k _ Hb Hk).
  - destruct (length s) as [|n] eqn:El; [lia|].
    apply (exports_include s t flt i (S n) "" (c_import_target (f_proto (getf s (r_file r)))) (r_file r) k HL).
    + assert (Hinc : In (IImport "" (c_import_target (f_proto (getf s (r_file r)))) (r_file r)) (h_includes s i)).
      { unfold h_includes. apply in_map_iff. exists (m, r_file r). split; [reflexivity | exact Him]. }
      destruct Hb as [[-> _] | [-> _]]; [rewrite items_TgH | rewrite items_TgHO]; right; apply in_or_app; left; exact Hinc.
    + apply (header_exports_disp t (r_file r) b k n Hb Hk).
Qed.

Lemma ref_route fd r :
  In fd fl -> In r (def_refs (fd_def fd)) -> single_hop r = true ->
  ((r_via r = [] /\ r_file r = i) \/ (exists m, r_via r = [m] /\ In (m, r_file r) (f_imports (getf s i)))) /\
  exists fd', In fd' (flat_file (getf s (r_file r))) /\ targets r fd' = true.
Proof.
  intros Hfd Hr Hs. destruct (in_split _ _ Hfd) as [fl1 [fl2 E]].
  destruct (ref_wf_cases s i fl1 r (refs_here fl1 fd fl2 r E Hr)) as [[Hv [Hf [fd' [Hin Ht]]]] | [Hv [Hfo [Hne [fd' [Hin Ht]]]]]].
  - split; [left; auto|]. exists fd'. split; [|exact Ht]. rewrite Hf. fold fl. rewrite E. apply in_or_app. left. exact Hin.
  - unfold single_hop in Hs. destruct (r_via r) as [|m [|m2 via]] eqn:Ev; try contradiction; [|cbn in Hs; discriminate].
    apply follow_one in Hfo. split; [right; exists m; auto|]. exists fd'. auto.
Qed.

Lemma target_declares_internal r fd :
  targets r fd = true ->
  match r_k r with
  | RkEnum => True
  | RkAlias =>
      In (NsOrd, c_alias_processor_name (ref_name s LC r))
         (map dkey (dispatch_one s (r_file r) flt H_FunctionDeclarationsForInternalList fd)) /\
      In (NsOrd, c_alias_json_formatter_name (ref_name s LC r))
         (map dkey (dispatch_one s (r_file r) flt H_FunctionDeclarationsForInternalList fd))
  | RkMsg =>
      In (NsOrd, c_msg_proc (ref_name s LC r))
         (map dkey (dispatch_one s (r_file r) flt H_FunctionDeclarationsForInternalList fd)) /\
      In (NsOrd, c_msg_json (ref_name s LC r))
         (map dkey (dispatch_one s (r_file r) flt H_FunctionDeclarationsForInternalList fd))
  end.
Proof.
  destruct fd as [pth d]. unfold targets, fdef_is. cbn [fd_path fd_def]. intros H.
  apply andb_true_iff in H. destruct H as [H Hk]. apply andb_true_iff in H. destruct H as [Hp Hn].
  apply strs_eqb_eq in Hp. apply String.eqb_eq in Hn. unfold ref_name, ref_px.
  destruct (r_k r) eqn:Ek, d as [n v | n ty | n w ms | n x nested fs]; try discriminate; try exact I;
    cbn [def_name] in Hn; subst pth n; cbn [class_of_rk];
    unfold dispatch_one; cbn [fd_def dkind_of dispatch dispatch_filtered andb def_blocks expand blocks_of flat_map app];
    unfold own_px; cbn [leaf fd_path fd_def map dkey d_ns d_name mk mkm app]; auto 8 with datatypes.
Qed.

(* every name format_type / format_bp_type mention for a reference is visible in the source *)
Lemma c_ref_uses_visible t fd r u :
  lang_of t = LC -> header_of t = TgH ->
  In fd fl -> In r (def_refs (fd_def fd)) -> single_hop r = true ->
  In u (c_type_uses s (TRef r)) \/ In u (c_bp_uses s (TRef r)) ->
  u_qual u = "" /\ u_eager u = true /\ In (u_ns u, u_name u) (own_header t).
Proof.
  intros HL Hh Hfd Hr Hs Hu. destruct (ref_route fd r Hfd Hr Hs) as [Hroute [fd' [Hin Ht]]].
  pose proof (target_declares s flt t r fd' Ht) as Hbase. rewrite HL in Hbase.
  assert (Hb : base_disp t = H_DataStructuresList) by (destruct t; try discriminate; reflexivity).
  rewrite Hb in Hbase.
  pose proof (in_dispatcher s (r_file r) flt _ fd' _ Hin Hbase) as Hbase'.
  pose proof (visible_in_source t r H_DataStructuresList _ HL (or_introl (conj Hh (or_introl eq_refl))) Hroute Hbase') as Vbase.
  pose proof (target_declares_internal r fd' Ht) as Hint.
  assert (Vint : forall k, In k (map dkey (dispatch_one s (r_file r) flt H_FunctionDeclarationsForInternalList fd')) ->
                 In k (own_header t)).
  { intros k Hk. apply (visible_in_source t r H_FunctionDeclarationsForInternalList k HL); auto 6.
    apply (in_dispatcher s (r_file r) flt _ fd' _ Hin Hk). }
  cbn [c_type_uses c_bp_uses] in Hu. cbn [ns_of_rk] in Vbase.
  destruct (r_k r); cbn [In] in Hu; unfold cuse in Hu;
    repeat match goal with H : _ \/ _ |- _ => destruct H end; try contradiction; subst u;
      cbn [u_qual u_eager u_ns u_name]; repeat split; auto; try (apply Vint; apply Hint).
Qed.

Lemma uses_visible_ok t S all imps us :
  (forall u, In u us -> u_qual u = "" /\ u_eager u = true /\ In (u_ns u, u_name u) S) ->
  forallb (use_ok s t flt S all imps) us = true.
Proof.
  intros H. apply forallb_forall. intros u Hu. destruct (H u Hu) as [Hq [He Hin]].
  destruct u as [n q x e]. cbn [u_qual u_eager u_ns u_name] in *. subst. apply use_ok_eager. exact Hin.
Qed.

Lemma c_type_uses_refs ty u : In u (c_type_uses s ty) -> exists r, In r (ty_refs ty) /\ In u (c_type_uses s (TRef r)).
Proof.
  induction ty as [b | r | e IH cap x]; cbn [c_type_uses ty_refs]; intros H; [contradiction | | apply IH; exact H].
  exists r. split; [left; reflexivity | exact H].
Qed.

Lemma c_bp_uses_refs ty u : In u (c_bp_uses s ty) -> exists r, In r (ty_refs ty) /\ In u (c_bp_uses s (TRef r)).
Proof.
  destruct ty as [b | r | e cap x]; cbn [c_bp_uses ty_refs]; intros H; try contradiction.
  exists r. split; [left; reflexivity | exact H].
Qed.

Ltac in_tail :=
  repeat first [ apply in_or_app; right; left; reflexivity | apply in_or_app; left ].

Section SourceBlocks.
Variable t : target.
Hypothesis HL : lang_of t = LC.
Hypothesis Hh : header_of t = TgH.
Hypothesis Hq : g_qualify LC s i = true.

Lemma ty_uses_visible fd ty S :
  In fd fl -> incl (ty_refs ty) (def_refs (fd_def fd)) -> incl (own_header t) S ->
  forall u, In u (c_type_uses s ty) \/ In u (c_bp_uses s ty) ->
  u_qual u = "" /\ u_eager u = true /\ In (u_ns u, u_name u) S.
Proof.
  intros Hfd Hsub HS u Hu.
  assert (Hex : exists r, In r (ty_refs ty) /\ (In u (c_type_uses s (TRef r)) \/ In u (c_bp_uses s (TRef r)))).
  { destruct Hu as [Hu | Hu]; [destruct (c_type_uses_refs ty u Hu) as [r [Hr H]] | destruct (c_bp_uses_refs ty u Hu) as [r [Hr H]]];
      exists r; auto. }
  destruct Hex as [r [Hr Hu']].
  assert (Hs : single_hop r = true).
  { unfold g_qualify in Hq. rewrite forallb_forall in Hq. apply Hq. unfold file_refs. apply in_flat_map.
    exists fd. split; [exact Hfd | apply Hsub; exact Hr]. }
  destruct (c_ref_uses_visible t fd r u HL Hh Hfd (Hsub r Hr) Hs Hu') as [H1 [H2 H3]]. auto.
Qed.

Lemma own_tag_visible pth n x nested fs :
  In (mkF pth (DMsg n x nested fs)) fl -> In (NsTag, dname LC KMessage (own_px s i LC) pth n) (own_header t).
Proof.
  intros Hin. unfold own_header, fuel_of.
  apply (header_exports_disp t i H_DataStructuresList); [left; auto|].
  apply (own_tag_declared pth n x nested fs Hin).
Qed.

Lemma source_block all imps fl1 fd fl2 seen :
  fl = fl1 ++ fd :: fl2 -> incl (own_header t) seen ->
  dbu_go s t flt all (seen ++ dkeys (flat_map (dispatch_one s i flt C_BoundDefinitionList) fl1)) imps
         (map IDecl (dispatch_one s i flt C_BoundDefinitionList fd)) = true.
Proof.
  intros E Hown.
  assert (Hfd : In fd fl). { rewrite E. apply in_or_app. right. left. reflexivity. }
  set (seen0 := seen ++ dkeys (flat_map (dispatch_one s i flt C_BoundDefinitionList) fl1)).
  assert (Hown0 : incl (own_header t) seen0). { apply incl_appl. exact Hown. }
  clearbody seen0.
  destruct fd as [pth d]. destruct d as [n v | n ty | n w ms | n x nested fs]; unfold dispatch_one;
    cbn [fd_def dkind_of dispatch dispatch_filtered andb def_blocks expand blocks_of flat_map app leaf fd_path];
    try reflexivity.
  - (* alias *)
    set (cn := dname LC KAlias (own_px s i LC) pth n).
    destruct ty as [b | r | e cap x]; cbn [is_arr arr_elem app map dbu_go mk d_uses c_alias_bp_uses].
    + reflexivity.
    + repeat split_and; try reflexivity; apply uses_visible_ok; intros u Hu;
        apply (ty_uses_visible _ (TRef r) _ Hfd); auto;
        try (cbn [fd_def def_refs]; apply incl_refl);
        repeat (apply incl_appl); exact Hown0.
    + repeat split_and; try reflexivity.
      * apply uses_visible_ok. intros u Hu. apply (ty_uses_visible _ e _ Hfd); auto. cbn [fd_def def_refs ty_refs]. apply incl_refl.
      * apply uses_visible_ok. intros u Hu. apply (ty_uses_visible _ e _ Hfd); auto.
        { cbn [fd_def def_refs ty_refs]. apply incl_refl. } { repeat (apply incl_appl). exact Hown0. }
      * apply forallb_use_app.
        { apply uses_visible_ok. intros u Hu. apply (ty_uses_visible _ e _ Hfd); auto.
          { cbn [fd_def def_refs ty_refs]. apply incl_refl. } { repeat (apply incl_appl). exact Hown0. } }
        { cbn [forallb]. unfold cuse. rewrite !use_ok_eager; [reflexivity | in_tail | in_tail]. }
      * apply forallb_use_app.
        { apply uses_visible_ok. intros u Hu. apply (ty_uses_visible _ e _ Hfd); auto.
          { cbn [fd_def def_refs ty_refs]. apply incl_refl. } { repeat (apply incl_appl). exact Hown0. } }
        { cbn [forallb]. unfold cuse. rewrite !use_ok_eager; [reflexivity | in_tail | in_tail]. }
  - (* message *)
    set (cn := dname LC KMessage (own_px s i LC) pth n).
    set (sf := sort_fl fs). set (arrs := filter (fun fld => is_arr (fl_ty fld)) sf).
    assert (Hsf : forall fld, In fld sf -> incl (ty_refs (fl_ty fld)) (def_refs (DMsg n x nested fs))).
    { intros fld Hfld r Hr. cbn [def_refs]. apply in_flat_map. exists fld. split; [apply in_sort_fl; exact Hfld | exact Hr]. }
    assert (Htag : forall S, incl seen0 S -> In (NsTag, cn) S).
    { intros S HS. apply HS. apply Hown0. apply (own_tag_visible pth n x nested fs Hfd). }
    rewrite !map_app, !dbu_go_app. rewrite ?imps_acc_decls.
    split_and; [|split_and].
    + apply dbu_go_all. intros d Hd S HS. apply in_map_iff in Hd. destruct Hd as [fld [<- Hfld]].
      cbn [mk d_uses]. apply filter_In in Hfld. destruct Hfld as [Hfld Harr].
      apply uses_visible_ok. intros u Hu. destruct (fl_ty fld) as [b | r | e cap x0] eqn:Ety; try discriminate.
      cbn [arr_elem] in Hu. apply (ty_uses_visible _ e _ Hfd); auto.
      * intros r Hr. apply (Hsf fld Hfld). rewrite Ety. exact Hr.
      * intros k Hk. apply HS. apply Hown0. exact Hk.
    + apply dbu_go_all. intros d Hd S HS. apply in_map_iff in Hd. destruct Hd as [fld [<- Hfld]].
      cbn [mk d_uses]. apply filter_In in Hfld. destruct Hfld as [Hfld Harr].
      apply uses_visible_ok. intros u Hu. destruct (fl_ty fld) as [b | r | e cap x0] eqn:Ety; try discriminate.
      cbn [arr_elem] in Hu. apply (ty_uses_visible _ e _ Hfd); auto.
      * intros r Hr. apply (Hsf fld Hfld). rewrite Ety. exact Hr.
      * intros k Hk. apply HS. apply in_or_app. left. apply Hown0. exact Hk.
    + rewrite !keys_of_decls. cbn [map dbu_go mk d_uses forallb cuse].
      set (S0 := (seen0 ++ _) ++ _).
      assert (HS0 : incl seen0 S0). { unfold S0. apply incl_appl. apply incl_appl. apply incl_refl. }
      repeat split_and; try reflexivity;
        try (apply use_ok_eager; apply Htag; repeat first [exact HS0 | apply incl_appl]; fail);
        try (apply use_ok_eager; in_tail; fail).
      apply forallb_flat_map_intro. intros fld Hfld. unfold c_field_bp_uses.
      destruct (fl_ty fld) as [b | r | e cap x0] eqn:Ety.
      * reflexivity.
      * apply uses_visible_ok. intros u Hu. apply (ty_uses_visible _ (TRef r) _ Hfd); auto.
        { intros r' Hr'. apply (Hsf fld Hfld). rewrite Ety. exact Hr'. }
        { intros k Hk. apply HS0. apply Hown0. exact Hk. }
      * apply forallb_use_app.
        { apply uses_visible_ok. intros u Hu. apply (ty_uses_visible _ e _ Hfd); auto.
          { intros r' Hr'. apply (Hsf fld Hfld). rewrite Ety. exact Hr'. }
          { intros k Hk. apply HS0. apply Hown0. exact Hk. } }
        { assert (Harr : In fld arrs). { unfold arrs. apply filter_In. split; [exact Hfld | rewrite Ety; reflexivity]. }
          cbn [forallb]. unfold cuse. rewrite !use_ok_eager; [reflexivity | |].
          - unfold S0. apply in_or_app. right. unfold dkeys. rewrite map_map. apply in_map_iff. exists fld. split; [reflexivity | exact Harr].
          - unfold S0. apply in_or_app. left. apply in_or_app. right. unfold dkeys. rewrite map_map. apply in_map_iff. exists fld. split; [reflexivity | exact Harr]. }
Qed.

End SourceBlocks.

Theorem dbu_TgC : g_qualify LC s i = true -> dbu_b s TgC flt (render_items s i TgC flt) = true.
Proof.
  intros Hq. unfold dbu_b. rewrite items_TgC. set (all := all_keys s TgC flt _).
  change (c_self_include s i :: ?l) with ([c_self_include s i] ++ l). rewrite dbu_go_app.
  split_and; [reflexivity|]. unfold disp, dispatcher. apply dbu_go_flat_map. intros fl1 fd fl2 E.
  apply (source_block TgC eq_refl eq_refl Hq all _ fl1 fd fl2 _ E).
  unfold keys_of, all_keys, c_self_include. cbn [flat_map lang_of]. rewrite app_nil_r. apply incl_refl.
Qed.

Theorem dbu_TgCO : dbu_b s TgCO flt (render_items s i TgCO flt) = true.
Proof.
  unfold dbu_b. rewrite items_TgCO. set (all := all_keys s TgCO flt _).
  change (c_self_include s i :: ?l) with ([c_self_include s i] ++ l). rewrite dbu_go_app.
  split_and; [reflexivity|]. unfold disp, dispatcher. apply dbu_go_flat_map. intros fl1 fd fl2 E.
  assert (Hfd : In fd fl). { unfold fl. rewrite E. apply in_or_app. right. left. reflexivity. }
  assert (Hown : incl (own_header TgCO) ([] ++ keys_of s TgCO flt [c_self_include s i])).
  { unfold keys_of, all_keys, c_self_include. cbn [flat_map lang_of app]. rewrite app_nil_r. apply incl_refl. }
  set (seen0 := ([] ++ keys_of s TgCO flt [c_self_include s i]) ++ _).
  assert (Hown0 : incl (own_header TgCO) seen0). { apply incl_appl. exact Hown. }
  clearbody seen0.
  destruct fd as [pth d]. destruct d as [n v | n ty | n w ms | n x nested fs]; unfold dispatch_one;
    cbn [fd_def dkind_of dispatch dispatch_filtered andb def_blocks expand blocks_of flat_map app leaf fd_path];
    try reflexivity.
  destruct (negb (passes_filter flt (DMsg n x nested fs))); [reflexivity|].
  assert (Htag : In (NsTag, dname LC KMessage (own_px s i LC) pth n) (own_header TgCO)).
  { unfold own_header, fuel_of. apply (header_exports_disp TgCO i H_DataStructuresList); [right; auto|].
    apply (own_tag_declared pth n x nested fs Hfd). }
  cbn [flat_map app leaf fd_path fd_def map dbu_go mk d_uses forallb cuse].
  assert (Hin : forall S, incl seen0 S -> In (NsTag, dname LC KMessage (own_px s i LC) pth n) S).
  { intros S HS. apply HS. apply Hown0. exact Htag. }
  split_and; [split_and; [|reflexivity]|split_and; [split_and; [|reflexivity]|reflexivity]];
    apply use_ok_eager; apply Hin; repeat first [apply incl_refl | apply incl_appl].
Qed.

End Main.
