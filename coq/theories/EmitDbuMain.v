(* EmitDbuMain.v — C10_declared_before_use, target by target. *)
From Coq Require Import String Ascii List ZArith Bool Arith Lia.
From BP Require Import EmitBase EmitNames Emit EmitSpec EmitCheck EmitProofs EmitDbu.
From BPGen Require Import GenC10.
Import ListNotations.
Open Scope string_scope.
Open Scope list_scope.
Open Scope nat_scope.

Section Main.
Variables (s : schema) (i : nat) (flt : list string).
Hypothesis Hwf : wf s = true.
Hypothesis Hi : i < length s.

Let fl := flat_file (getf s i).

Lemma refs_here fl1 fd fl2 r :
  fl = fl1 ++ fd :: fl2 -> In r (def_refs (fd_def fd)) -> ref_wf s i fl1 r = true.
Proof.
  intros E Hr. pose proof (wf_file s i Hwf Hi) as Hf. unfold file_wf in Hf.
  apply andb_true_iff in Hf. destruct Hf as [_ Hf].
  pose proof (refs_wf_split s i fl [] fl1 fd fl2 Hf E) as H. cbn [app] in H.
  rewrite forallb_forall in H. apply H. exact Hr.
Qed.

Lemma ref_in_file_refs fl1 fd fl2 r :
  fl = fl1 ++ fd :: fl2 -> In r (def_refs (fd_def fd)) -> In r (file_refs s i).
Proof.
  intros E Hr. unfold file_refs. apply in_flat_map. exists fd. split; [|exact Hr].
  fold fl. rewrite E. apply in_or_app. right. left. reflexivity.
Qed.

(* ---- C: a referenced definition is visible after the includes and the earlier blocks ---- *)

Definition inc_keys (t : target) : list key :=
  flat_map (fun mj => exports (fuel_of s) s t flt (snd mj)) (f_imports (getf s i)).

Lemma keys_of_h_includes t : lang_of t = LC -> keys_of s t flt (h_includes s i) = inc_keys t.
Proof.
  intros HL. unfold keys_of, all_keys, h_includes, inc_keys. rewrite flat_map_concat_map, map_map.
  rewrite <- flat_map_concat_map. apply flat_map_ext. intros mj. rewrite HL. reflexivity.
Qed.

Lemma header_has_base t j fd k :
  (header_of t = TgH \/ header_of t = TgHO) ->
  In fd (flat_file (getf s j)) -> In k (map dkey (dispatch_one s j flt H_DataStructuresList fd)) ->
  In k (exports (fuel_of s) s t flt j).
Proof.
  intros Ht Hfd Hk. pose proof (in_dispatcher s j flt _ fd k Hfd Hk) as H.
  apply in_map_iff in H. destruct H as [d [<- Hd]]. apply exports_direct.
  destruct Ht as [-> | ->]; [rewrite items_TgH | rewrite items_TgHO]; unfold disp.
  - right. apply in_or_app. right. apply in_or_app. left. apply in_map. exact Hd.
  - right. apply in_or_app. right. right. apply in_or_app. left. apply in_map. exact Hd.
Qed.

Lemma ref_visible_C t fl1 fd fl2 r seen :
  lang_of t = LC -> (header_of t = TgH \/ header_of t = TgHO) ->
  fl = fl1 ++ fd :: fl2 -> In r (def_refs (fd_def fd)) -> single_hop r = true ->
  incl (inc_keys t) seen ->
  incl (dkeys (flat_map (dispatch_one s i flt H_DataStructuresList) fl1)) seen ->
  In (ns_of_rk LC (r_k r), ref_name s LC r) seen.
Proof.
  intros HL Hh E Hr Hs Hinc Hpre.
  destruct (ref_wf_cases s i fl1 r (refs_here fl1 fd fl2 r E Hr)) as [[Hv [Hf [fd' [Hin Ht]]]] | [Hv [Hfo [Hne [fd' [Hin Ht]]]]]].
  - apply Hpre. unfold dkeys. rewrite flat_map_concat_map, concat_map, map_map. apply in_concat.
    exists (map dkey (dispatch_one s i flt H_DataStructuresList fd')). split.
    + apply in_map_iff. exists fd'. split; [reflexivity | exact Hin].
    + pose proof (target_declares s flt t r fd' Ht) as H. rewrite HL, Hf in H.
      destruct t; try discriminate; exact H.
  - unfold single_hop in Hs. destruct (r_via r) as [|m [|m2 via]] eqn:Ev; try contradiction; [|cbn in Hs; discriminate].
    apply follow_one in Hfo. apply Hinc. unfold inc_keys. apply in_flat_map. exists (m, r_file r).
    split; [exact Hfo|]. cbn [snd]. apply (header_has_base t (r_file r) fd' _ Hh Hin).
    pose proof (target_declares s flt t r fd' Ht) as H. rewrite HL in H. destruct t; try discriminate; exact H.
Qed.

(* ---- the C header ---- *)

Lemma sec1_H t all imps fl1 fd fl2 seen :
  lang_of t = LC -> (header_of t = TgH \/ header_of t = TgHO) ->
  g_qualify LC s i = true ->
  fl = fl1 ++ fd :: fl2 ->
  incl (inc_keys t) seen ->
  dbu_go s t flt all (seen ++ dkeys (flat_map (dispatch_one s i flt H_DataStructuresList) fl1)) imps
         (map IDecl (dispatch_one s i flt H_DataStructuresList fd)) = true.
Proof.
  intros HL Hh Hq E Hinc.
  assert (Hvis : forall r, In r (def_refs (fd_def fd)) ->
                 In (ns_of_rk LC (r_k r), ref_name s LC r)
                    (seen ++ dkeys (flat_map (dispatch_one s i flt H_DataStructuresList) fl1))).
  { intros r Hr. apply (ref_visible_C t fl1 fd fl2 r _ HL Hh E Hr).
    - unfold g_qualify in Hq. rewrite forallb_forall in Hq. apply Hq. apply (ref_in_file_refs fl1 fd fl2 r E Hr).
    - apply incl_appl. exact Hinc.
    - apply incl_appr. apply incl_refl. }
  destruct fd as [pth d]. cbn [fd_def] in Hvis.
  destruct d as [n v | n ty | n w ms | n x nested fs]; unfold dispatch_one;
    cbn [fd_def dkind_of dispatch dispatch_filtered andb def_blocks expand blocks_of flat_map app leaf fd_path].
  - reflexivity.
  - cbn [map dbu_go mk d_uses]. rewrite c_type_uses_ok; [reflexivity|]. intros r Hr. apply Hvis. exact Hr.
  - rewrite app_nil_r. apply dbu_go_no_uses. intros d [<- | Hd]; [reflexivity|].
    apply in_map_iff in Hd. destruct Hd as [m [<- _]]. reflexivity.
  - cbn [map dbu_go mk mkm d_uses forallb andb dkey d_ns d_name].
    rewrite andb_true_r. apply forallb_flat_map_intro. intros fld Hfld. apply in_sort_fl in Hfld.
    apply c_type_uses_ok. intros r Hr.
    assert (Hin : In (ns_of_rk LC (r_k r), ref_name s LC r)
                     (seen ++ dkeys (flat_map (dispatch_one s i flt H_DataStructuresList) fl1))).
    { apply Hvis. cbn [def_refs]. apply in_flat_map. exists fld. split; assumption. }
    apply in_or_app. left. exact Hin.
Qed.

Lemma own_tag_declared pth n x nested fs :
  In (mkF pth (DMsg n x nested fs)) fl ->
  In (NsTag, dname LC KMessage (own_px s i LC) pth n) (dkeys (dispatcher s i flt H_DataStructuresList)).
Proof.
  intros Hin. apply (in_dispatcher s i flt _ _ _ Hin). unfold dispatch_one.
  cbn [fd_def dkind_of dispatch dispatch_filtered andb def_blocks expand blocks_of flat_map app leaf fd_path map dkey d_ns d_name mk mkm].
  right. left. reflexivity.
Qed.

(* prototypes: the only generated name they use is the message's own struct tag *)
Lemma protos_ok t all imps seen b :
  (b = H_FunctionDeclarationsForUserList \/ b = H_FunctionDeclarationsForInternalList \/
   b = H_FunctionDeclarationsForUserListOpMode) ->
  incl (dkeys (dispatcher s i flt H_DataStructuresList)) seen ->
  dbu_go s t flt all seen imps (map IDecl (dispatcher s i flt b)) = true.
Proof.
  intros Hb Hseen. unfold dispatcher. apply dbu_go_flat_map. intros fl1 fd fl2 E.
  assert (Hfd : In fd fl). { unfold fl. rewrite E. apply in_or_app. right. left. reflexivity. }
  destruct fd as [pth d].
  assert (Htag : forall n x nested fs, d = DMsg n x nested fs -> forall S, incl seen S ->
            use_ok s t flt S all imps (mkUse NsTag "" (dname LC KMessage (own_px s i LC) pth n) true) = true).
  { intros n x nested fs -> S HS. apply use_ok_eager. apply HS. apply Hseen.
    apply (own_tag_declared pth n x nested fs). exact Hfd. }
  set (pre := dkeys (flat_map (dispatch_one s i flt b) fl1)). clearbody pre.
  destruct d as [n v | n ty | n w ms | n x nested fs]; destruct Hb as [-> | [-> | ->]]; unfold dispatch_one;
    cbn [fd_def dkind_of dispatch dispatch_filtered andb def_blocks expand blocks_of flat_map app leaf fd_path];
    try reflexivity.
  - cbn [map dbu_go mk d_uses forallb andb cuse].
    repeat (apply andb_true_iff; split); try reflexivity;
      apply (Htag n x nested fs eq_refl); repeat (apply incl_appl); apply incl_refl.
  - destruct (negb (passes_filter flt (DMsg n x nested fs))); [reflexivity|].
    cbn [flat_map app leaf fd_path fd_def map dbu_go mk d_uses forallb andb cuse].
    repeat (apply andb_true_iff; split); try reflexivity;
      apply (Htag n x nested fs eq_refl); repeat (apply incl_appl); apply incl_refl.
Qed.

Ltac split_and := apply andb_true_iff; split.

Lemma h_includes_dbu t all seen imps : dbu_go s t flt all seen imps (h_includes s i) = true.
Proof.
  apply dbu_go_imports_only. intros it Hit. unfold h_includes in Hit. apply in_map_iff in Hit.
  destruct Hit as [mj [<- _]]. eauto.
Qed.

Theorem dbu_TgH : g_qualify LC s i = true -> dbu_b s TgH flt (render_items s i TgH flt) = true.
Proof.
  intros Hq. unfold dbu_b. rewrite items_TgH. set (all := all_keys s TgH flt _).
  change (h_guard s i :: ?l) with ([h_guard s i] ++ l). unfold disp. rewrite !dbu_go_app.
  split_and; [reflexivity|]. split_and; [apply h_includes_dbu|]. split_and; [|split_and].
  - unfold dispatcher. apply dbu_go_flat_map. intros fl1 fd fl2 E.
    apply (sec1_H TgH all _ fl1 fd fl2 _ eq_refl (or_introl eq_refl) Hq E).
    rewrite (keys_of_h_includes TgH eq_refl). apply incl_appr. apply incl_refl.
  - apply protos_ok; [auto|]. rewrite keys_of_decls. apply incl_appr. apply incl_refl.
  - apply protos_ok; [auto|]. rewrite !keys_of_decls. apply incl_appl. apply incl_appr. apply incl_refl.
Qed.

Theorem dbu_TgHO : g_qualify LC s i = true -> dbu_b s TgHO flt (render_items s i TgHO flt) = true.
Proof.
  intros Hq. unfold dbu_b. rewrite items_TgHO. set (all := all_keys s TgHO flt _).
  change (h_guard s i :: ?l) with ([h_guard s i] ++ l).
  change (IDecl ?d :: disp s i flt H_DataStructuresList ++ ?l) with ([IDecl d] ++ disp s i flt H_DataStructuresList ++ l).
  unfold disp. rewrite !dbu_go_app.
  split_and; [reflexivity|]. split_and; [apply h_includes_dbu|]. split_and; [reflexivity|]. split_and.
  - unfold dispatcher. apply dbu_go_flat_map. intros fl1 fd fl2 E.
    apply (sec1_H TgHO all _ fl1 fd fl2 _ eq_refl (or_intror eq_refl) Hq E).
    rewrite (keys_of_h_includes TgHO eq_refl). apply incl_appl. apply incl_appr. apply incl_refl.
  - apply protos_ok; [auto|]. rewrite keys_of_decls. apply incl_appr. apply incl_refl.
Qed.

End Main.
