(* CBeExact.v — why the BP_BIG_ENDIAN build can be OBSERVED on a little-endian host.

   In the model of the BE build the host byte order E enters only through native multi-byte
   accesses: the word fast paths (compiled out), the uint16_t object of the extensible prefix,
   and the sign fix-up on a multi-byte object.  For descriptors without extensible nodes whose
   signed fields are 8/16/32/64 bits wide (fix-up skipped) or stored in one byte, NONE of these
   is executed: the run does not depend on E at all.  So running the -DBP_BIG_ENDIAN build on
   x86 with big-endian storage IS the (B,E) = (BE,BE) behaviour for this class (class
   cboundary.be_exact of the harness), and C06's check compares it with the specification. *)
From Coq Require Import ZArith List Bool Lia.
From BP Require Import Bits Schema CMem CRt.
From BPGen Require Import GenC.
Import ListNotations.
Open Scope Z_scope.

Section desc_ind'.
  Variable P : desc -> Prop.
  Hypothesis HBase : forall f n s, P (DBase f n s).
  Hypothesis HAlias : forall n s tf t, P t -> P (DAlias n s tf t).
  Hypothesis HArr : forall n s x c e, P e -> P (DArray n s x c e).
  Hypothesis HMsg : forall n x nf dn fds, Forall (fun kf => P (snd kf)) fds -> P (DMsg n x nf dn fds).

  Fixpoint desc_ind' (d : desc) : P d :=
    match d with
    | DBase f n s => HBase f n s
    | DAlias n s tf t => HAlias n s tf t (desc_ind' t)
    | DArray n s x c e => HArr n s x c e (desc_ind' e)
    | DMsg n x nf dn fds =>
        HMsg n x nf dn fds
          ((fix go (l : list (Z * desc)) : Forall (fun kf => P (snd kf)) l :=
              match l with
              | [] => Forall_nil _
              | kf :: r => Forall_cons kf (desc_ind' (snd kf)) (go r)
              end) fds)
    end.
End desc_ind'.

(* the sign fix-up touches at most one byte, or is skipped *)
Definition int_exact (size nbits : Z) : bool :=
  sg_skip nbits || match lookup (sg_n size) sg_cases with Some w => w =? 1 | None => true end.

Definition dexact_fields (dexact : desc -> bool) :=
  fix go (l : list (Z * desc)) : bool :=
    match l with
    | [] => true
    | kf :: r => dexact (snd kf) && go r
    end.

Fixpoint dexact (d : desc) : bool :=
  match d with
  | DBase f n s => if f =? BP_TYPE_INT then int_exact s n else true
  | DAlias _ _ _ to => dexact to
  | DArray _ _ ext _ e => negb ext && dexact e
  | DMsg _ ext _ _ fds =>
      negb ext && (fix go (l : list (Z * desc)) : bool :=
                     match l with
                     | [] => true
                     | kf :: r => dexact (snd kf) && go r
                     end) fds
  end.

Section Indep.
  Variables (E1 E2 : endian).

  Lemma copy_step_be n dm dp sm sp di si :
    copy_step BE E1 n dm dp sm sp di si = copy_step BE E2 n dm dp sm sp di si.
  Proof. unfold copy_step. change (fast_paths BE) with false. cbn [andb]. reflexivity. Qed.

  Lemma copy_bits_be : forall fuel n dm dp sm sp di si,
    copy_bits BE E1 fuel n dm dp sm sp di si = copy_bits BE E2 fuel n dm dp sm sp di si.
  Proof.
    induction fuel as [|f IH]; intros; cbn [copy_bits]; [reflexivity|].
    destruct (n =? 0); [reflexivity|]. rewrite copy_step_be.
    destruct (copy_step BE E2 n dm (dp + cp_dst_bump di) sm (sp + cp_src_bump si) (cp_di_low di) (cp_si_low si));
      cbn [cbind]; try reflexivity; try apply IH.
  Qed.

  Lemma base_type_be enc nbits x data : base_type BE E1 enc nbits x data = base_type BE E2 enc nbits x data.
  Proof. unfold base_type. now rewrite !copy_bits_be. Qed.

  Lemma ld_one m p : ld E1 1 m p = ld E2 1 m p.
  Proof.
    assert (H : forall E, ld E 1 m p = (b <-- rd m p ;; COk b)).
    { intros []; cbn [ld ld_le ld_be]; destruct (rd m p); cbn [cbind]; try reflexivity; f_equal; lia. }
    now rewrite !H.
  Qed.

  Lemma st_one m p v : st E1 1 m p v = st E2 1 m p v.
  Proof.
    assert (H : forall E, st E 1 m p v = wr m p v).
    { intros []; cbn [st st_le st_be].
      - destruct (wr m p v); reflexivity.
      - change (256 ^ Z.of_nat 0) with 1. rewrite Z.div_1_r. destruct (wr m p v); reflexivity. }
    now rewrite !H.
  Qed.

  Lemma sign_after_be enc size nbits data :
    int_exact size nbits = true -> sign_after E1 enc size nbits data = sign_after E2 enc size nbits data.
  Proof.
    unfold int_exact, sign_after. intros H. destruct enc; [reflexivity|].
    destruct (sg_skip nbits); [reflexivity|]. cbn [orb] in H.
    destruct (lookup (sg_n size) sg_cases) as [w|]; [|reflexivity].
    apply Z.eqb_eq in H. subst w. change (Z.to_nat 1) with 1%nat.
    rewrite ld_one. destruct (ld E2 1 data 0); cbn [cbind]; try reflexivity.
    destruct (negb _); [apply st_one|reflexivity].
  Qed.

  Lemma endecode_int_be enc size nbits x data :
    int_exact size nbits = true ->
    endecode_int BE E1 enc size nbits x data = endecode_int BE E2 enc size nbits x data.
  Proof.
    intros H. unfold endecode_int. rewrite base_type_be.
    destruct (base_type BE E2 enc nbits x data); cbn [cbind]; try reflexivity. now rewrite (sign_after_be _ _ _ _ H).
  Qed.

  Lemma on_bytes_ext o (f g : list Z -> cres (cctx * list Z)) :
    (forall bs, f bs = g bs) -> on_bytes o f = on_bytes o g.
  Proof. intros H. destruct o; cbn [on_bytes]; try reflexivity. now rewrite H. Qed.

  Lemma int_flag_exact d : d_flag d = BP_TYPE_INT -> dexact d = true -> int_exact (d_size d) (d_nbits d) = true.
  Proof.
    destruct d; cbn [d_flag d_size d_nbits dexact]; intros Hf H; try discriminate Hf.
    rewrite Hf in H. rewrite Z.eqb_refl in H. exact H.
  Qed.

  Section Walk.
    Variables (cp1 cp2 : desc -> cctx -> obj -> cres (cctx * obj)) (enc : bool).

    Lemma field_step_be fd x fo :
      dexact fd = true -> (forall x o, cp1 fd x o = cp2 fd x o) ->
      field_step BE E1 cp1 enc fd x fo = field_step BE E2 cp2 enc fd x fo.
    Proof.
      intros Hd Hcp. unfold field_step.
      destruct (flag_in (d_flag fd) base_flags_field); [apply on_bytes_ext; intros; apply base_type_be|].
      destruct (d_flag fd =? BP_TYPE_INT) eqn:Ei.
      - apply Z.eqb_eq in Ei. apply on_bytes_ext. intros. apply endecode_int_be. now apply int_flag_exact.
      - destruct (flag_in (d_flag fd) proc_flags_field); [apply Hcp|reflexivity].
    Qed.

    Lemma elem_step_be elem x e :
      dexact elem = true -> (forall x o, cp1 elem x o = cp2 elem x o) ->
      elem_step BE E1 cp1 enc elem x e = elem_step BE E2 cp2 enc elem x e.
    Proof.
      intros Hd Hcp. unfold elem_step.
      destruct (flag_in (d_flag elem) base_flags_field); [apply on_bytes_ext; intros; apply base_type_be|].
      destruct (d_flag elem =? BP_TYPE_INT) eqn:Ei.
      - apply Z.eqb_eq in Ei. apply on_bytes_ext. intros. apply endecode_int_be. now apply int_flag_exact.
      - destruct (flag_in (d_flag elem) proc_flags_elem); [apply Hcp|reflexivity].
    Qed.

    Lemma elems_loop_be elem :
      dexact elem = true -> (forall x o, cp1 elem x o = cp2 elem x o) ->
      forall cnt k x o, elems_loop BE E1 cp1 enc elem cnt k x o = elems_loop BE E2 cp2 enc elem cnt k x o.
    Proof.
      intros Hd Hcp. induction cnt as [|c IH]; intros k x o; cbn [elems_loop]; [reflexivity|].
      destruct (get_elem o k (d_size elem)); cbn [cbind]; try reflexivity.
      rewrite (elem_step_be elem x a Hd Hcp).
      destruct (elem_step BE E2 cp2 enc elem x a); cbn [cbind]; try reflexivity.
      destruct (set_elem o k (d_size elem) (snd a0)); cbn [cbind]; try reflexivity. apply IH.
    Qed.

    Lemma fields_loop_be : forall l cnt x o,
      Forall (fun kf => dexact (snd kf) = true /\ forall x o, cp1 (snd kf) x o = cp2 (snd kf) x o) l ->
      fields_loop BE E1 cp1 enc l cnt x o = fields_loop BE E2 cp2 enc l cnt x o.
    Proof.
      induction l as [|[fn fd] r IH]; intros cnt x o HF; destruct cnt; cbn [fields_loop]; try reflexivity.
      inversion_clear HF as [|? ? [Hd Hcp] Hr]. cbn [snd] in *.
      destruct (get_fld o fn); cbn [cbind]; try reflexivity.
      rewrite (field_step_be fd x a Hd Hcp).
      destruct (field_step BE E2 cp2 enc fd x a); cbn [cbind]; try reflexivity.
      destruct (set_fld o fn (snd a0)); cbn [cbind]; try reflexivity. now apply IH.
    Qed.
  End Walk.

  (* the whole decoder / encoder of the BE build does not depend on the host byte order on this class *)
  Theorem call_processor_be enc d : dexact d = true ->
    forall x o, call_processor BE E1 enc d x o = call_processor BE E2 enc d x o.
  Proof.
    induction d as [f n s | n s tf t IH | n s ext c e IH | n ext nf dn fds IH] using desc_ind'; intros Hd x o.
    - reflexivity.
    - cbn [call_processor dexact] in *. unfold endecode_alias.
      destruct (flag_in (d_flag t) base_flags_alias); [apply on_bytes_ext; intros; apply base_type_be|].
      destruct (d_flag t =? BP_TYPE_INT) eqn:Ei.
      + apply Z.eqb_eq in Ei. apply on_bytes_ext. intros. apply endecode_int_be. now apply int_flag_exact.
      + destruct (d_flag t =? BP_TYPE_ARRAY); [now apply IH|reflexivity].
    - cbn [call_processor dexact] in *. apply andb_true_iff in Hd. destruct Hd as [Hx He].
      apply negb_true_iff in Hx. subst ext. unfold endecode_array. cbn [cbind fst snd andb].
      change (batch_pred BE (d_nbits e) (d_flag e) (d_to_flag e)) with false. cbv iota.
      rewrite (elems_loop_be (call_processor BE E1 enc) (call_processor BE E2 enc) enc e He (IH He)).
      reflexivity.
    - cbn [call_processor dexact] in *. apply andb_true_iff in Hd. destruct Hd as [Hx Hf].
      apply negb_true_iff in Hx. subst ext. unfold endecode_message. cbn [cbind fst snd andb].
      rewrite (fields_loop_be (call_processor BE E1 enc) (call_processor BE E2 enc) enc fds); [reflexivity|].
      clear - IH Hf. induction fds as [|kf r IHr]; [constructor|].
      inversion_clear IH as [|? ? Hk Hr]. apply andb_true_iff in Hf. destruct Hf as [H1 H2].
      constructor; [split; [exact H1|exact (Hk H1)]|now apply IHr].
  Qed.

  Corollary c_encode_be_host_indep t o :
    dexact (render (norm t)) = true -> c_encode_ty BE E1 t o = c_encode_ty BE E2 t o.
  Proof. intros H. unfold c_encode_ty, c_encode. now rewrite (call_processor_be true _ H). Qed.

  Corollary c_decode_be_host_indep t s :
    dexact (render (norm t)) = true -> c_decode_ty BE E1 t s = c_decode_ty BE E2 t s.
  Proof. intros H. unfold c_decode_ty, c_decode. now rewrite (call_processor_be false _ H). Qed.
End Indep.
