(* Main.v — model of the command line driver and of the -O / -F machinery.

   GENERATED (gen/GenCli.v, re-translated from /repo on every run):
     decide                       _main.main() as a decision tree
     root_traditional_mode        parser.parse(): flag handed to the root Parser
     child_traditional_mode       Parser.parse_child(): flag handed to the Parser of an import
     ext_flag_raises              action of `optional_extensible_flag`
     opt_check_raises             Renderer.check_proto_for_optimization_mode
     renderers_of / renderer_supports_opt   registry and support_optimization()
     *_blocks_op, *_dispatch_*, go_message_blocks_op, *_message_function_blocks
                                  optimization-mode block lists and dispatchers
   HAND-WRITTEN here (tied by T2): the traversal order of the parser over a file set,
   render() iterating over the renderer classes, BlockBoundDefinitionDispatcher.blocks
   iterating over the bound definitions. *)
From Coq Require Import ZArith List String Ascii Bool.
From BP Require Import CliBase.
From BPGen Require Import GenCli.
Import ListNotations.
Open Scope string_scope.
Open Scope Z_scope.

(* ------------------------------------------------------------------------------------ *)
(* render(): one renderer object per class of the language, constructed (which runs      *)
(* check_proto_for_optimization_mode) and rendered in registry order                     *)
(* ------------------------------------------------------------------------------------ *)

Fixpoint render_classes (opt : bool) (rs : list string) : render_outcome :=
  match rs with
  | [] => ROk
  | r :: rest => if opt_check_raises opt (renderer_supports_opt r)
                 then RRaise ExRendererError else render_classes opt rest
  end.

Definition lang_supports_opt (l : language) : bool :=
  forallb renderer_supports_opt (renderers_of l).

(* io_ok = the output directory is writable (otherwise open() raises IOError) *)
Definition render_model (io_ok : bool) (r : render_req) : render_outcome :=
  match rr_lang r with
  | None => RRaise ExRendererError                     (* UnsupportedLanguageToRender *)
  | Some l => match render_classes (rr_opt r) (renderers_of l) with
              | ROk => if io_ok then ROk else RRaise ExIOError
              | e => e
              end
  end.

(* ------------------------------------------------------------------------------------ *)
(* the parser over a file set, as far as the extensible marker is concerned              *)
(* ------------------------------------------------------------------------------------ *)

(* What the parser meets, in textual order: a place where `optional_extensible_flag` is
   reduced (message header or array type; marker present or not), an import statement
   (the imported file is parsed by a child Parser on the spot), or some other error. *)
Inductive ftree :=
| FFlag (marker : bool) (line : Z)
| FImport (file : Z) (items : list ftree)
| FBad (line : Z).

Inductive perr_kind := PEExtensible | PEOther.
Definition perr := (perr_kind * Z * Z)%type.       (* kind, file, line *)

(* ply: len(p) = 1 + number of right-hand-side symbols of the reduced production *)
Definition len_p_of_marker (m : bool) : Z := if m then 2 else 1.

Fixpoint first_err (trad : bool) (file : Z) (t : ftree) : option perr :=
  match t with
  | FFlag m line => if ext_flag_raises (len_p_of_marker m) trad
                    then Some (PEExtensible, file, line) else None
  | FBad line => Some (PEOther, file, line)
  | FImport f items =>
      (fix go (l : list ftree) : option perr :=
         match l with
         | [] => None
         | x :: r => match first_err (child_traditional_mode trad) f x with
                     | Some e => Some e
                     | None => go r
                     end
         end) items
  end.

Fixpoint first_err_list (trad : bool) (file : Z) (l : list ftree) : option perr :=
  match l with
  | [] => None
  | x :: r => match first_err trad file x with Some e => Some e | None => first_err_list trad file r end
  end.

(* parse(filepath, traditional_mode): the root file is file 0 *)
Definition parse_files (traditional_mode : bool) (root : list ftree) : option perr :=
  first_err_list (root_traditional_mode traditional_mode) 0 root.

Definition parse_of (root : list ftree) : bool -> parse_outcome :=
  fun trad => match parse_files trad root with None => POk | Some _ => PRaise ExParserError end.

Fixpoint has_marker (t : ftree) : bool :=
  match t with
  | FFlag m _ => m
  | FBad _ => false
  | FImport _ items => (fix go (l : list ftree) := match l with [] => false | x :: r => has_marker x || go r end) items
  end.
Fixpoint any_marker (l : list ftree) : bool :=
  match l with [] => false | x :: r => has_marker x || any_marker r end.

Fixpoint has_bad (t : ftree) : bool :=
  match t with
  | FFlag _ _ => false
  | FBad _ => true
  | FImport _ items => (fix go (l : list ftree) := match l with [] => false | x :: r => has_bad x || go r end) items
  end.
Fixpoint any_bad (l : list ftree) : bool :=
  match l with [] => false | x :: r => has_bad x || any_bad r end.

(* ------------------------------------------------------------------------------------ *)
(* what the optimization-mode renderers emit, block by block                             *)
(* ------------------------------------------------------------------------------------ *)

(* a definition bound to the rendered proto, in the order of
   proto.filter(BoundDefinition, recursive=True, bound=proto) (children first) *)
Record bdef := mkDef { d_kind : defkind; d_name : string; d_uid : Z }.

Definition names_of (f : option (list string)) : list string :=
  match f with Some l => l | None => [] end.
(* `d.name in filter_messages`: d.name is the UNQUALIFIED name of the definition *)
Definition name_in (f : option (list string)) (n : string) : bool :=
  existsb (String.eqb n) (names_of f).

Fixpoint assoc {A} (k : string) (l : list (string * A)) : option A :=
  match l with
  | [] => None
  | (k', v) :: r => if String.eqb k k' then Some v else assoc k r
  end.

Definition dispatcher := defkind -> bool -> bool -> option string.
(* composite blocks that are expanded in the model: block name -> its sub-blocks *)
Definition expander := string -> bool -> bool -> list string.

Definition items_of (disp : dispatcher) (ex : expander) (ft ni : bool) (k : defkind) : list string :=
  match disp k ft ni with Some b => ex b ft ni | None => [] end.

Definition emitted := (string * option bdef)%type.

Definition emit_disp (disp : dispatcher) (ex : expander) (f : option (list string)) (defs : list bdef)
  : list emitted :=
  flat_map (fun d => map (fun s => (s, Some d))
                         (items_of disp ex (truthy_list f) (name_in f (d_name d)) (d_kind d))) defs.

Definition emit_file (blocks : list string) (ds : list (string * dispatcher)) (ex : expander)
           (f : option (list string)) (defs : list bdef) : list emitted :=
  flat_map (fun b => match assoc b ds with
                     | Some disp => emit_disp disp ex f defs
                     | None => [(b, None)]
                     end) blocks.

Definition ex_c_src : expander := fun b _ _ =>
  if String.eqb b "BlockMessageFunctionsOpMode" then c_src_message_function_blocks else [b].
Definition ex_c_hdr : expander := fun b _ _ =>
  if String.eqb b "BlockMessageFunctionDeclarationsForUserOpMode" then c_hdr_message_function_blocks else [b].
Definition ex_go : expander := fun b ft ni =>
  if String.eqb b "BlockMessageOpMode" then go_message_blocks_op ft ni else [b].

Inductive target := TCSrc | TCHdr | TGo.

Definition emit (t : target) (f : option (list string)) (defs : list bdef) : list emitted :=
  match t with
  | TCSrc => emit_file c_src_blocks_op c_src_dispatchers ex_c_src f defs
  | TCHdr => emit_file c_hdr_blocks_op c_hdr_dispatchers ex_c_hdr f defs
  | TGo => emit_file go_blocks_op go_dispatchers ex_go f defs
  end.

(* the blocks that ARE the encoder / decoder functions (resp. their prototypes) *)
Definition func_blocks : list string :=
  [ "BlockMessageEncoderOpMode"; "BlockMessageDecoderOpMode";
    "BlockMessageEncoderFunctionDeclaration"; "BlockMessageDecoderFunctionDeclaration";
    "BlockMessageMethodEncodeOpMode"; "BlockMessageMethodDecodeOpMode" ].
Definition is_func_name (b : string) : bool := existsb (String.eqb b) func_blocks.
Definition is_func (e : emitted) : bool := is_func_name (fst e).
Definition is_decl (e : emitted) : bool := negb (is_func e).

Definition funcs (l : list emitted) : list emitted := filter is_func l.
Definition decls (l : list emitted) : list emitted := filter is_decl l.

(* a message is selected by -F when no filter is in force or its simple name is listed *)
Definition selected_name (f : option (list string)) (n : string) : bool :=
  negb (truthy_list f) || name_in f n.
Definition selected (f : option (list string)) (e : emitted) : bool :=
  match snd e with Some d => selected_name f (d_name d) | None => true end.

Definition owner_uid (e : emitted) : Z := match snd e with Some d => d_uid d | None => -1 end.

(* which files a language produces in optimization mode *)
Definition targets_of (l : language) : list target :=
  match l with LC => [TCSrc; TCHdr] | LGo => [TGo] | LPy => [] end.

(* ------------------------------------------------------------------------------------ *)
(* run_bitproto(): -F argument -> Optional[List[str]]                                    *)
(* ------------------------------------------------------------------------------------ *)

Definition is_py_space (c : Ascii.ascii) : bool :=
  let n := Ascii.nat_of_ascii c in
  (Nat.eqb n 32 || (Nat.leb 9 n && Nat.leb n 13) || (Nat.leb 28 n && Nat.leb n 31))%nat.

Fixpoint lstrip (s : string) : string :=
  match s with
  | String c r => if is_py_space c then lstrip r else s
  | EmptyString => EmptyString
  end.
Fixpoint rstrip (s : string) : string :=
  match s with
  | EmptyString => EmptyString
  | String c r => match rstrip r with
                  | EmptyString => if is_py_space c then EmptyString else String c EmptyString
                  | r' => String c r'
                  end
  end.
Definition strip (s : string) : string := rstrip (lstrip s).

Fixpoint split_comma (s : string) : list string :=
  match s with
  | EmptyString => [EmptyString]
  | String c r => if Ascii.eqb c ","%char then EmptyString :: split_comma r
                  else match split_comma r with
                       | p :: ps => String c p :: ps
                       | [] => [String c EmptyString]
                       end
  end.

(* args.filter_messages: None when -F is absent or empty *)
Definition parse_F (arg : option string) : option (list string) :=
  match arg with
  | None => None
  | Some EmptyString => None
  | Some s => Some (map strip (split_comma s))
  end.
