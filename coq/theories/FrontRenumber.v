(* FrontRenumber.v — C12, front end + wire: renumbering the fields of one or more messages
   order-preservingly (anywhere in the schema: any file, any nesting depth) keeps the schema
   accepted, and every message elaborates to a type with the same wire format (value mapped
   through the rewrite).  Instance of the simulation FrontSim with R := rsim. *)
From Coq Require Import ZArith List Bool String Lia Permutation.
From BP Require Import Bits Schema Spec FrontBase Front FrontProofs FrontValid FrontValidProofs FrontWf WireEq FrontSim.
Import ListNotations.
Open Scope Z_scope.

(* several fields at once (numbers kept) *)
Lemma weq_msg_fields x : forall fs2 fs2' fs1,
  Forall2 (fun a b : Z * ty => fst a = fst b /\ exists m, weq (snd a) (snd b) m) fs2 fs2' ->
  NoDup (map fst (fs1 ++ fs2)) ->
  exists M, weq (TMsg x (fs1 ++ fs2)) (TMsg x (fs1 ++ fs2')) M.
Proof.
  intros fs2 fs2' fs1 H. revert fs1. induction H as [|a b r r' [Ek [m Hm]] _ IH]; intros fs1 ND.
  - eexists. apply weq_refl.
  - destruct a as [k t], b as [k' t']. cbn [fst snd] in *. subst k'.
    assert (Hnk : ~ In k (map fst (fs1 ++ r))).
    { rewrite map_app in *. cbn [map fst] in ND. apply NoDup_remove_2 in ND. now rewrite in_app_iff in *. }
    pose proof (weq_msg_field_cong x fs1 r k t t' m Hnk Hm) as H1.
    destruct (IH (fs1 ++ [(k, t')])) as [M2 H2].
    { rewrite <- app_assoc. cbn [app]. rewrite map_app in *. cbn [map fst] in *. exact ND. }
    rewrite <- !app_assoc in H2. cbn [app] in H2.
    eexists. eapply weq_trans; [exact H1|exact H2].
Qed.

Section Renum.
  Variable g0 : Z -> Z.

  Fixpoint rsim (t t' : ty) {struct t} : Prop :=
    match t, t' with
    | TAlias a, TAlias b => rsim a b
    | TArr x c e, TArr x' c' e' => x = x' /\ c = c' /\ rsim e e'
    | TMsg x fs, TMsg x' fs' =>
        x = x' /\ exists gb, gcond g0 gb (map fst fs) /\
          (fix go (l l' : list (Z * ty)) : Prop :=
             match l, l' with
             | [], [] => True
             | a :: r, b :: r' => fst b = gb (fst a) /\ rsim (snd a) (snd b) /\ go r r'
             | _, _ => False
             end) fs fs'
    | _, _ => t = t'
    end.

  Lemma rsim_fields gb fs : forall fs',
    (fix go (l l' : list (Z * ty)) : Prop :=
       match l, l' with
       | [], [] => True
       | a :: r, b :: r' => fst b = gb (fst a) /\ rsim (snd a) (snd b) /\ go r r'
       | _, _ => False
       end) fs fs' <-> Forall2 (nrel gb rsim) fs fs'.
  Proof.
    induction fs as [|a r IH]; intros [|b r'].
    - split; intros _; [constructor|exact I].
    - split; [intros []|intros H; inversion H].
    - split; [intros []|intros H; inversion H].
    - split.
      + intros [H1 [H2 H3]]. constructor; [split; assumption|now apply IH].
      + intros H. inversion H as [|? ? ? ? [H1 H2] H3]; subst. split; [exact H1|]. split; [exact H2|now apply IH].
  Qed.

  Lemma rsim_msg x fs x' fs' :
    rsim (TMsg x fs) (TMsg x' fs') <-> x = x' /\ exists gb, gcond g0 gb (map fst fs) /\ Forall2 (nrel gb rsim) fs fs'.
  Proof.
    cbn [rsim]. split; intros [E [gb [Hg H]]]; (split; [exact E|]); exists gb; (split; [exact Hg|]); now apply rsim_fields.
  Qed.

  Lemma rsim_refl t : rsim t t.
  Proof.
    induction t as [| | n | n | n ms | t IH | x c e IH | x fs IH] using ty_ind'; try reflexivity.
    - exact IH.
    - cbn [rsim]. now repeat split.
    - apply rsim_msg. split; [reflexivity|]. exists idz. split; [now left|].
      induction fs as [|a r IHr]; [constructor|]. inversion IH; subst. constructor; [split; [reflexivity|assumption]|now apply IHr].
  Qed.

  Lemma rsim_nbits t : forall t', rsim t t' -> nbits t = nbits t'.
  Proof.
    induction t as [| | n | n | n ms | t IH | x c e IH | x fs IH] using ty_ind'; intros t' H;
      try (destruct t'; cbn [rsim] in H; congruence).
    - destruct t'; cbn [rsim] in H; try discriminate. cbn [nbits]. now apply IH.
    - destruct t'; cbn [rsim] in H; try discriminate. destruct H as [-> [-> H]]. cbn [nbits]. now rewrite (IH _ H).
    - destruct t'; try (cbn [rsim] in H; discriminate). apply rsim_msg in H. destruct H as [-> [gb [_ H]]].
      rewrite !nbits_msg. f_equal. unfold fields_nbits.
      induction H as [|a b r r' [_ Hab] _ IHr]; [reflexivity|]. inversion IH; subst.
      cbn [fold_right]. rewrite (H1 _ Hab), IHr; auto.
  Qed.

  Lemma rsim_alias t t' : rsim t t' -> rsim (TAlias t) (TAlias t').
  Proof. exact (fun H => H). Qed.
  Lemma rsim_arr x c t t' : rsim t t' -> rsim (TArr x c t) (TArr x c t').
  Proof. intros H. cbn [rsim]. now repeat split. Qed.
  Lemma rsim_msg_intro gb x fs fs' :
    gcond g0 gb (map fst fs) -> Forall2 (nrel gb rsim) fs fs' -> rsim (TMsg x fs) (TMsg x fs').
  Proof. intros Hg H. apply rsim_msg. split; [reflexivity|]. now exists gb. Qed.

  Lemma mono_on_idz keys : mono_on idz keys.
  Proof. intros a b _ _ H. exact H. Qed.

  (* related types have the same wire format, the value mapped through the rewrite *)
  Theorem rsim_weq t : forall t', wf t = true -> rsim t t' -> exists m, weq t t' m.
  Proof.
    induction t as [| | n | n | n ms | t IH | x c e IH | x fs IH] using ty_ind'; intros t' Hw H;
      try (destruct t'; cbn [rsim] in H; try discriminate; inversion H; subst; eexists; apply weq_refl).
    - destruct t'; cbn [rsim] in H; try discriminate. destruct (IH _ Hw H) as [m Hm]. exists m. now apply weq_alias_cong.
    - destruct t'; cbn [rsim] in H; try discriminate. destruct H as [-> [-> H]].
      cbn [wf] in Hw. rewrite !andb_true_iff in Hw. destruct Hw as [_ Hw].
      destruct (IH _ Hw H) as [m Hm]. eexists. apply weq_arr_cong. exact Hm.
    - destruct t' as [| | | | | |? ? ?|x' fs0]; try (cbn [rsim] in H; discriminate). apply rsim_msg in H. destruct H as [Ex [gb [Hg H]]]. subst x'.
      rewrite wf_msg, !andb_true_iff in Hw. destruct Hw as [[Hkd _] Hfw].
      apply keys_distinct_NoDup in Hkd. rewrite fields_wf_forall in Hfw.
      (* step A: children, numbers kept *)
      set (fsm := map (fun ab : (Z * ty) * (Z * ty) => (fst (fst ab), snd (snd ab))) (combine fs fs0)).
      assert (HA : Forall2 (fun a b : Z * ty => fst a = fst b /\ exists m, weq (snd a) (snd b) m) fs fsm /\
                   fs0 = renumber_fields gb fsm /\ map fst fsm = map fst fs).
      { subst fsm. clear Hkd Hg. induction H as [|a b r r' [E Hab] _ IHr]; [repeat split; constructor|].
        inversion IH as [|? ? Ha Hr]; subst.
        destruct IHr as [I1 [I2 I3]]; [exact Hr|intros kf0 Hin; apply Hfw; now right|].
        cbn [combine map fst snd]. repeat split.
        - constructor; [|exact I1]. cbn [fst snd]. split; [reflexivity|].
          apply Ha; [|exact Hab]. apply (Hfw a). now left.
        - unfold renumber_fields in *. cbn [map fst snd]. rewrite <- I2. f_equal. destruct b; cbn [fst snd] in *. now rewrite E.
        - cbn [map fst]. now rewrite I3. }
      destruct HA as [HA1 [HA2 HA3]].
      destruct (weq_msg_fields x fs fsm [] HA1 Hkd) as [M1 H1]. cbn [app] in H1.
      assert (Hm : mono_on gb (map fst fsm)).
      { rewrite HA3. destruct Hg as [->|[-> Hm]]; [apply mono_on_idz|exact Hm]. }
      pose proof (weq_msg_renumber x fsm gb Hm) as H2. rewrite <- HA2 in H2.
      eexists. eapply weq_trans; [exact H1|exact H2].
  Qed.

  Hypothesis g0_inj : forall a b, g0 a = g0 b -> a = b.
  Hypothesis g0_range : forall k, number_ok k -> number_ok (g0 k).

  (* [renumbered fs fs']: fs' is fs with the fields of some messages renumbered by g0, which is
     monotone on the numbers of each such message *)
  Definition renumbered : files -> files -> Prop := frelT g0.

  Theorem renumber_check fs fs' root trad e :
    renumbered fs fs' -> check fs root trad = Ok e ->
    exists e', check fs' root trad = Ok e' /\
      forall p t, msg_ty_at (Ok e) p = Some t ->
        exists t' m, msg_ty_at (Ok e') p = Some t' /\ nbits t = nbits t' /\ forall v, wire t v = wire t' (m v).
  Proof.
    intros Hr H.
    destruct (check_sim rsim g0 g0_inj g0_range rsim_refl rsim_nbits rsim_alias rsim_arr
                (fun gb x fs1 fs2 Hg HF => rsim_msg_intro gb x fs1 fs2 Hg HF) fs fs' root trad e Hr H) as [e' [H' Hd]].
    exists e'. split; [exact H'|]. intros p t Hp.
    destruct (msg_ty_at_sim rsim e e' p t Hd Hp) as [t' [Hp' HR]].
    destruct (accepted_types_wf fs root trad e p t H Hp) as [Hw _].
    destruct (rsim_weq t t' Hw HR) as [m Hm].
    exists t', m. split; [exact Hp'|]. split; [now apply rsim_nbits|]. now apply weq_wire.
  Qed.
End Renum.
