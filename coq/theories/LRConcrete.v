(* LRConcrete.v — the per-run obligations over the tables ply builds from /repo's CURRENT grammar
   (gen/GenLR.v, regenerated on every check) and the generic theorems instantiated with them. *)
From Coq Require Import List Arith Bool.
From BP Require Import LR LRProofs.
From BPGen Require Import GenLR.
Import ListNotations.

Lemma tables_valid : validate grammar tables hints = true.
Proof. vm_cast_no_check (eq_refl true). Qed.

Lemma ranking_valid : validate_rank tables hints rank_tab n_terms rank_weight rank_bound = true.
Proof. vm_cast_no_check (eq_refl true). Qed.

Lemma start_is : start_of grammar = Some start_symbol.
Proof. reflexivity. Qed.

(* fuel that always suffices for an input of n tokens *)
Definition fuel_for (n : nat) : nat := lr_bound rank_weight rank_bound n.

(* the parser as the other modules use it *)
Definition parse (ts : list nat) : result := lr_run tables (fuel_for (length ts)) ts.

Theorem accepted_documented : forall fuel ts rs, ~ In eof ts ->
  lr_run tables fuel ts = Accept rs ->
  sr grammar [NT start_symbol] ts rs /\
  derives grammar [NT start_symbol] ts /\
  rm_check grammar start_symbol rs ts = true.
Proof.
  intros fuel ts rs N0 R.
  pose proof (lr_sound _ _ _ tables_valid _ _ _ _ start_is N0 R) as D.
  split; [exact D|]. split.
  - exact (sr_derives _ _ _ _ D).
  - apply sr_rm_check. exact D.
Qed.

Theorem error_prefix : forall fuel ts idx tok rs, lr_run tables fuel ts = SyntaxError idx tok rs ->
  (exists syms, sr grammar syms (firstn idx ts) rs) /\
  (nth_error ts idx = Some tok \/ (idx = length ts /\ tok = eof)).
Proof. exact (lr_error_prefix _ _ _ tables_valid). Qed.

Theorem no_crash : forall fuel ts e rs, lr_run tables fuel ts <> Crash e rs.
Proof. exact (lr_safe _ _ _ tables_valid). Qed.

Theorem terminates : forall ts, parse ts <> OutOfFuel.
Proof. exact (lr_terminates _ _ _ tables_valid _ _ _ _ ranking_valid). Qed.

Theorem total : forall ts,
  (exists rs, parse ts = Accept rs) \/ (exists idx tok rs, parse ts = SyntaxError idx tok rs).
Proof. exact (lr_total _ _ _ tables_valid _ _ _ _ ranking_valid). Qed.

(* fuel monotonicity: any larger fuel gives the same answer *)
Lemma run_more_fuel : forall TB f c r, run TB f c = r -> r <> OutOfFuel -> forall f', f <= f' -> run TB f' c = r.
Proof.
  induction f as [|f IH]; intros c r E N f' L; cbn in E; [subst; contradiction N; reflexivity|].
  destruct f' as [|f']; [inversion L|]. cbn.
  destruct (step TB c) as [c'|r'] eqn:S; [|exact E].
  apply (IH _ _ E N). apply le_S_n. exact L.
Qed.

Theorem parse_any_fuel : forall ts fuel, fuel_for (length ts) <= fuel -> lr_run tables fuel ts = parse ts.
Proof.
  intros ts fuel L. unfold lr_run. eapply run_more_fuel; [reflexivity | apply terminates | exact L].
Qed.

(* terminal numbers by name (None when the name is not a terminal) *)
Fixpoint index_of (s : String.string) (l : list String.string) (i : nat) : option nat :=
  match l with
  | [] => None
  | x :: r => if String.eqb x s then Some i else index_of s r (S i)
  end.
Definition term_id (s : String.string) : nat :=
  match index_of s term_names 0 with Some i => i | None => n_terms end.

(* productions by content (lhs name, rhs symbol names): 999 when the grammar has no such rule *)
Definition nt_id (s : String.string) : nat :=
  match index_of s nonterm_names 0 with Some i => i | None => 999 end.

Definition sym_of (s : String.string) : symbol :=
  match index_of s term_names 0 with
  | Some i => T i
  | None => NT (nt_id s)
  end.

Fixpoint syms_eqb (a b : list symbol) : bool :=
  match a, b with
  | [], [] => true
  | x :: a', y :: b' => symbol_eqb x y && syms_eqb a' b'
  | _, _ => false
  end.

Fixpoint find_prod_in (lhs : nat) (rhs : list symbol) (g : LR.grammar) (i : nat) : nat :=
  match g with
  | [] => 999
  | (l, r) :: g' => if Nat.eqb l lhs && syms_eqb r rhs then i else find_prod_in lhs rhs g' (S i)
  end.

Definition P (lhs : String.string) (rhs : list String.string) : nat :=
  find_prod_in (nt_id lhs) (map sym_of rhs) grammar 0.

(* the text path: Parser.parse_string terminates the last line before parsing (when the translated
   flag GenLR.appends_final_newline says so).  At the token level: a text that does not end in a
   newline character gets one NEWLINE token appended (the lexer itself is not modelled; T2
   compares this with the tokens ply really fetched on every text case). *)
From Coq Require Import String.
Definition t_newline : nat := term_id "NEWLINE"%string.

Definition text_tokens (raw : list nat) (ends_nl : bool) : list nat :=
  if appends_final_newline && negb ends_nl then raw ++ [t_newline] else raw.

Definition parse_text (raw : list nat) (ends_nl : bool) : result := parse (text_tokens raw ends_nl).

(* in every accepted token sequence each COMMENT is immediately followed by NEWLINE (the only rule
   with COMMENT is `comment : COMMENT NEWLINE`, checked on the CURRENT grammar by vm_compute) *)
Definition t_comment : nat := term_id "COMMENT"%string.

Lemma comment_rule : grammar_followed t_comment t_newline grammar = true.
Proof. vm_cast_no_check (eq_refl true). Qed.

Theorem accepted_comment_newline : forall fuel ts rs, ~ In eof ts ->
  lr_run tables fuel ts = Accept rs -> followed t_comment t_newline ts = true.
Proof.
  intros fuel ts rs N0 R. destruct (accepted_documented _ _ _ N0 R) as [_ [D _]].
  exact (derives_followed _ _ _ comment_rule _ _ D eq_refl).
Qed.

Theorem trailing_comment_rejected : forall fuel ts rs, ~ In eof ts ->
  lr_run tables fuel (ts ++ [t_comment]) <> Accept rs.
Proof.
  intros fuel ts rs N0 R.
  assert (N1 : ~ In eof (ts ++ [t_comment])).
  { intro I. apply in_app_or in I. destruct I as [I|[I|[]]]; [exact (N0 I)|]. vm_compute in I. discriminate. }
  pose proof (accepted_comment_newline _ _ _ N1 R) as F. rewrite followed_last in F. discriminate.
Qed.

(* a text without a final newline character: what the driver sees ends in NEWLINE *)
Theorem text_tokens_end_newline : appends_final_newline = true ->
  forall raw, last (text_tokens raw false) eof = t_newline.
Proof.
  intros A raw. unfold text_tokens. rewrite A. cbn [negb andb]. apply last_last.
Qed.
