(* NamesT2.v — what the correspondence case files of C15 evaluate (by vm_compute):
   * the SPECIFICATION side: names as the documentation describes them, written with
     concatenation / "_"-joining / upper-casing of words only (no case converter, no
     template translated from the source);
   * comparison of the converters' observed outputs with model and specification on blocks
     of an exhaustive enumeration;
   * comparison of the identifiers found in generated code with model and specification. *)
From Coq Require Import List Bool NArith Ascii String.
From BP Require Import NamesBase Names NamesSpec.
Import ListNotations.
Open Scope list_scope.

(* ---- specification of names -------------------------------------------------------------- *)

Definition spec_prefix (l : lang) (popt : str) : str := match l with LC => popt | _ => [] end.

(* the words of a prefix ("my_lib_" and "my_lib" both give [my; lib]) *)
Definition spec_prefix_words (P : str) : list str := filter nonempty (words P).

Definition spec_def (l : lang) (popt : str) (k : kind) (encl : list str) (n : str) : str :=
  let P := spec_prefix l popt in
  match k with
  | KConstant => upper P ++ n
  | KAlias | KMessage =>
      match l with
      | LC => List.concat (map capw (spec_prefix_words P) ++ encl ++ [n])
      | LGo => List.concat (encl ++ [n])
      | LPy => join_us (encl ++ [n])
      end
  | KEnum =>
      match l with
      | LC => List.concat (map capw (spec_prefix_words P) ++ encl ++ [n])
      | _ => join_us (encl ++ [n])
      end
  | KEnumField =>
      join_us (map upper (spec_prefix_words P) ++ map upper (flat_map humps encl) ++ words n)
  | KMessageField => match l with LGo => List.concat (map cap (words n)) | _ => n end
  end.

(* prefixes for which the documented rule is unambiguous: those of the theorems (every word
   followed by "_") and the open ones of NamesSpec.is_prefix_open *)
Definition spec_prefix_ok (P : str) : bool :=
  is_prefix P || is_prefix_open P || has_digit P   (* digits: left to the known-finding class *).

Definition spec_tref (l : lang) (t : tref) : option str :=
  match tref_named t with
  | Some (TNamed k popt encl name imp) =>
      let n := spec_def l popt k encl name in
      let q := match imp, encl, l with
               | Some alias, [], LGo | Some alias, [], LPy => alias ++ Str "." ++ n
               | _, _, _ => n
               end in
      Some (match l, k with LC, KMessage => Str "struct " ++ q | _, _ => q end)
  | _ => None
  end.

Definition spec_namer (l : lang) (popt : str) : namer :=
  {| nm_def := fun k encl n => spec_def l popt k encl n;
     nm_field := fun n => spec_def l popt KMessageField [] n;
     nm_tag := fun fname => join_us (map lower (humps fname));
     nm_size := fun n => match l with
                         | LPy => Str "BYTES_LENGTH"
                         | _ => Str "BYTES_LENGTH_" ++ join_us (map upper (humps n))
                         end;
     nm_tref := spec_tref l;
     nm_encode := fun n => Str "Encode" ++ n;
     nm_decode := fun n => Str "Decode" ++ n;
     nm_json := fun n => Str "Json" ++ n;
     nm_menc := match l with LPy => Str "encode" | _ => Str "Encode" end;
     nm_mdec := match l with LPy => Str "decode" | _ => Str "Decode" end;
     nm_msize := Str "Size";
     nm_mextra := match l with LPy => [Str "to_json"; Str "to_dict"] | _ => [] end |}.

Definition spec_idents (l : lang) (opt : bool) (p : proton) : list ident :=
  flat_map (decl_idents l opt (spec_namer l (p_prefix p)) []) (p_decls p).

Definition spec_out_filename (stem : str) (ext : string) : str := stem ++ Str "_bp" ++ Str ext.

(* which identifier kinds belong to the documented API (internal helper functions such as
   BpXXXProcess... are compared with the model only) *)
Definition api_ident (i : ident) : bool :=
  match fst i with
  | IFunc =>
      let s := snd i in
      negb (str_eqb (firstn 2 s) (Str "Bp"))
  | _ => true
  end.

(* is every name of the schema inside the languages of the theorems? *)
Fixpoint tref_ok (t : tref) : bool :=
  match t with
  | TBase => true
  | TNamed k popt encl n imp =>
      is_prefix popt && forallb is_pascal (encl ++ [n]) &&
      match imp with Some a => is_lower_snake a | None => true end
  | TArray e => tref_ok e
  end.
Fixpoint decl_ok (d : decl) : bool :=
  match d with
  | DConst n => is_upper_snake n
  | DAlias n t => is_pascal n && tref_ok t
  | DEnum n ms => is_pascal n && forallb is_upper_snake ms
  | DMessage n nested fields =>
      is_pascal n && forallb decl_ok nested &&
      forallb (fun f => go_tag_ok (f_name f) && tref_ok (f_type f)) fields
  end.
Definition proton_ok (p : proton) : bool := is_prefix (p_prefix p) && forallb decl_ok (p_decls p).

(* ---- identifiers of generated code: implementation vs model, implementation vs specification *)

Fixpoint tref_in_known_class (t : tref) : bool :=
  match t with
  | TBase => false
  | TNamed _ popt encl n imp => has_digit popt || existsb has_digit (encl ++ [n])
  | TArray e => tref_in_known_class e
  end.

Section SpecPerDefinition.
  Variable l : lang.
  Variable opt : bool.
  Variable popt : str.
  Variable observed : list ident.

  Definition spec_ok_ids (ids : list ident) : bool := subset (filter api_ident ids) observed.

  (* (schema name of a definition or field whose documented identifiers are not all declared,
      is that failure inside the class of the known finding digit-names?) *)
  Fixpoint spec_bad (encl : list str) (d : decl) : list (str * bool) :=
    let N := spec_namer l popt in
    let ctx_known := has_digit popt || existsb has_digit encl in
    match d with
    | DMessage name nested fields =>
        flat_map (spec_bad (encl ++ [name])) nested ++
        (if spec_ok_ids (message_idents l opt N (nm_def N KMessage encl name) [])
         then [] else [(name, ctx_known || has_digit name)]) ++
        flat_map (fun f =>
                    if spec_ok_ids (field_idents l N (nm_def N KMessage encl name) f) then []
                    else [(f_name f, ctx_known || has_digit name || digit_names_class (f_name f) ||
                                     tref_in_known_class (f_type f))]) fields
    | DEnum name members =>
        (if spec_ok_ids (decl_idents l opt N encl (DEnum name [])) then []
         else [(name, ctx_known || has_digit name)]) ++
        flat_map (fun m => if spec_ok_ids (decl_idents l opt N encl (DEnum name [m])) then []
                           else [(m, ctx_known || has_digit name || has_digit m)]) members
    | DAlias name t =>
        if spec_ok_ids (decl_idents l opt N encl d) then []
        else [(name, ctx_known || has_digit name || tref_in_known_class t)]
    | DConst name =>
        if spec_ok_ids (decl_idents l opt N encl d) then []
        else [(name, ctx_known || has_digit name)]
    end.
End SpecPerDefinition.

Fixpoint tref_prefix_ok (t : tref) : bool :=
  match t with
  | TBase => true
  | TNamed _ popt _ _ _ => spec_prefix_ok popt
  | TArray e => tref_prefix_ok e
  end.
Fixpoint decl_prefixes_ok (d : decl) : bool :=
  match d with
  | DConst _ | DEnum _ _ => true
  | DAlias _ t => tref_prefix_ok t
  | DMessage _ nested fields =>
      forallb decl_prefixes_ok nested && forallb (fun f => tref_prefix_ok (f_type f)) fields
  end.

Record ident_result := {
  ir_model_missing : list N;      (* indices (in proto_idents) the output does not declare *)
  ir_extra : list N;              (* indices (in the observed list) the model does not predict *)
  ir_file_model : bool;           (* output file name = model's *)
  ir_file_spec : bool;            (* output file name = <stem>_bp<ext> *)
  ir_spec_bad : list string;      (* definitions whose documented names are missing, NOT explained *)
  ir_spec_known : list string;    (* ... explained by the known finding digit-names *)
  ir_in_class : bool;             (* all names of the schema are in the theorems' languages *)
  ir_prefix_spec : bool           (* the prefixes involved are ones the documented rule covers *)
}.

Definition check_idents (l : lang) (opt : bool) (p : proton) (observed : list ident)
           (basename : str) (stem : str) (ext : string) (files : list str) : ident_result :=
  let m := proto_idents l opt p in
  let bad := flat_map (spec_bad l opt (p_prefix p) observed []) (p_decls p) in
  {| ir_model_missing := missing_from 0 m observed;
     ir_extra := missing_from 0 observed m;
     ir_file_model := existsb (str_eqb (out_filename basename ext)) files;
     ir_file_spec := existsb (str_eqb (spec_out_filename stem ext)) files;
     ir_spec_bad := map (fun x => string_of_list_ascii (fst x)) (filter (fun x => negb (snd x)) bad);
     ir_spec_known := map (fun x => string_of_list_ascii (fst x)) (filter (fun x => snd x) bad);
     ir_in_class := proton_ok p;
     ir_prefix_spec := spec_prefix_ok (p_prefix p) && forallb decl_prefixes_ok (p_decls p) |}.

(* observed identifiers arrive as text, one per line: <kind letter>|<owner>|<name> *)
Definition decode_ident (line : str) : ident :=
  match split_on 124 line with
  | [[k]; owner; name] =>
      match code k with
      | 77 => (IMacro, name)            (* M *)
      | 84 => (ITypedef, name)          (* T *)
      | 83 => (IStruct, name)           (* S *)
      | 70 => (IFunc, name)             (* F *)
      | 102 => (IField owner, name)     (* f *)
      | 116 => (IFieldType owner, name) (* t *)
      | 89 => (IType, name)             (* Y *)
      | 67 => (IConst, name)            (* C *)
      | 109 => (IMethod owner, name)    (* m *)
      | 103 => (ITag owner, name)       (* g *)
      | 75 => (IClass, name)            (* K *)
      | 65 => (IAttr owner, name)       (* A *)
      | 86 => (IVar, name)              (* V *)
      | _ => (IVar, Str "?undecodable " ++ line)
      end%N
  | _ => (IVar, Str "?undecodable " ++ line)
  end.

Definition decode_idents (text : string) : list ident :=
  match text with
  | EmptyString => []
  | _ => map decode_ident (split_on 10 (Str text))
  end.

(* ---- exhaustive blocks of the case converters ---------------------------------------------- *)

Definition alphabet : str := Str "abAB1_".

Fixpoint enum (n : nat) : list str :=
  match n with
  | O => [[]]
  | S m => flat_map (fun c => map (cons c) (enum m)) alphabet
  end.

Definition sp : ascii := chr 32.

(* split at spaces *)
Definition fields_of (s : str) : list str := split_on 32 s.

(* the five observed outputs for an input s, as one line "sn pa up tg su":
     sn = snake_case s, pa = pascal_case s, up = upper_case s,
     tg = snake_case (pascal_case s), su = upper_case (snake_case s) *)
Definition model_line (s : str) : list str :=
  [snake_case s; pascal_case s; upper_case s; snake_case (pascal_case s); upper_case (snake_case s)].

Fixpoint strs_eqb (a b : list str) : bool :=
  match a, b with
  | [], [] => true
  | x :: r, y :: q => str_eqb x y && strs_eqb r q
  | _, _ => false
  end.

Definition impl_eq (a b : str) : bool := str_eqb a b.

(* property claims on ONE name, evaluated on the implementation's outputs.
   Returns (violated, known): [violated] = a claim of a THEOREM's language fails, or a claim
   fails on a style-guide name the linter accepts outside the class of the known finding;
   [known] = a claim fails inside that class (digit-names). *)
Definition spec_one (s : str) (o : list str) : bool * bool :=
  match o with
  | [sn; pa; up; tg; su] =>
      let t1 := implb (is_pascal s)
                  (str_eqb pa s && str_eqb sn (join_us (map lower (humps s))) &&
                   str_eqb (upper tg) (upper_snake_of_pascal s)) in
      let t2 := implb (is_lower_snake s) (str_eqb sn s) in
      let t3 := implb (go_tag_ok s) (str_eqb tg s) in
      let t4 := implb (is_upper_snake s) (str_eqb up s && str_eqb su s) in
      (* style-guide names, digits included, that the linter accepts *)
      let f_member := sg_upper s && lint_upper s && negb (str_eqb su s) in
      let f_const := sg_upper s && lint_upper s && negb (str_eqb up s) in
      let f_tag := sg_lower s && str_eqb sn s && negb (str_eqb tg s) in
      let f_size := sg_pascal_noacr s && str_eqb pa s &&
                    negb (str_eqb (upper tg) (upper_snake_of_pascal s)) in
      let failing := f_member || f_const || f_tag || f_size in
      let inclass := digit_names_class s in
      (negb (t1 && t2 && t3 && t4) || (failing && negb inclass), failing && inclass)
  | _ => (true, false)
  end.

(* one input: code bit0 = implementation differs from the model, bit1 = property violated,
   bit2 = known finding *)
Definition code_one (s : str) (line : string) : N :=
  let o := fields_of (Str line) in
  let (v, k) := spec_one s o in
  (if strs_eqb (model_line s) o then 0 else 1) + (if v then 2 else 0) + (if k then 4 else 0).

Fixpoint codes (i : N) (ins : list str) (outs : list string) : list (N * N) :=
  match ins, outs with
  | [], [] => []
  | s :: r, o :: q =>
      let c := code_one s o in
      (if (c =? 0)%N then [] else [(i, c)]) ++ codes (i + 1) r q
  | _, _ => [(i, 255%N)]
  end.

Definition count (p : str -> bool) (l : list str) : N := N.of_nat (List.length (filter p l)).

Record block_result := {
  br_bad : list (N * N);        (* (index, code) with bit0 or bit1 *)
  br_known : N;                 (* number of inputs with bit2 only *)
  br_known_first : list N;      (* the first few of them *)
  br_counts : list N            (* inputs in: is_pascal, is_lower_snake, is_upper_snake, go_tag_ok,
                                   sg_upper, sg_lower, sg_pascal_noacr, any of these *)
}.

Definition nontrivial (s : str) : bool :=
  is_pascal s || is_lower_snake s || is_upper_snake s || sg_upper s || sg_lower s || sg_pascal_noacr s.

Definition check_block (pre : string) (n : nat) (outs : list string) : block_result :=
  let ins := map (app (Str pre)) (enum n) in
  let cs := codes 0 ins outs in
  let bad := filter (fun ic => negb (N.land (snd ic) 3 =? 0)%N) cs in
  let known := filter (fun ic => (N.land (snd ic) 3 =? 0)%N) cs in
  {| br_bad := bad;
     br_known := N.of_nat (List.length known);
     br_known_first := map fst (firstn 3 known);
     br_counts := [count is_pascal ins; count is_lower_snake ins; count is_upper_snake ins;
                   count go_tag_ok ins; count sg_upper ins; count sg_lower ins;
                   count sg_pascal_noacr ins; count nontrivial ins] |}.

(* explicit cases (random identifiers): (input, line); returns the non-zero (index, code)
   pairs and the number of inputs in one of the recognised languages *)
Definition check_cases (cases : list (string * string)) : list (N * N) * N :=
  ((fix go (i : N) (l : list (string * string)) : list (N * N) :=
      match l with
      | [] => []
      | (s, o) :: r =>
          let c := code_one (Str s) o in
          (if (c =? 0)%N then [] else [(i, c)]) ++ go (i + 1)%N r
      end) 0%N cases,
   count nontrivial (map (fun c => Str (fst c)) cases)).
