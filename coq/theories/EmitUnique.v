(* EmitUnique.v — C10_names_unique for the C translation unit in standard mode: under the
   property's precondition and outside the refuted regions [helper-collision] and
   [derived-name-collision], no two defining declarations of header + source share a name
   (per C name space), and no two prototypes do. *)
From Coq Require Import String Ascii List Bool Arith Lia Permutation.
From BP Require Import EmitBase EmitNames Emit EmitSpec EmitCheck EmitProofs EmitDbu EmitStr.
From BPGen Require Import GenC10.
Import ListNotations.
Open Scope string_scope.
Open Scope list_scope.
Open Scope nat_scope.

(* ---------- NoDup toolbox ---------- *)

Lemma nodup_keys_NoDup l : NoDup l -> nodup_keys l = true.
Proof.
  induction 1 as [|k l Hn _ IH]; [reflexivity|]. cbn [nodup_keys]. rewrite IH, andb_true_r.
  apply negb_true_iff. destruct (mem_key k l) eqn:E; [|reflexivity]. apply mem_key_in in E. contradiction.
Qed.

Lemma nodup_str_NoDup l : nodup_str l = true -> NoDup l.
Proof.
  induction l as [|x r IH]; intros H; [constructor|]. cbn [nodup_str] in H. apply andb_true_iff in H.
  destruct H as [H1 H2]. constructor; [|apply IH; exact H2]. intros Hin. apply negb_true_iff in H1.
  assert (E : existsb (String.eqb x) r = true) by (apply existsb_exists; exists x; split; [exact Hin | apply String.eqb_refl]).
  rewrite E in H1. discriminate.
Qed.

Lemma nodup_keys_NoDup_rev l : nodup_keys l = true -> NoDup l.
Proof.
  induction l as [|x r IH]; intros H; [constructor|]. cbn [nodup_keys] in H. apply andb_true_iff in H.
  destruct H as [H1 H2]. constructor; [|apply IH; exact H2]. intros Hin. apply negb_true_iff in H1.
  apply mem_key_in in Hin. rewrite Hin in H1. discriminate.
Qed.

Lemma NoDup_app_intro {A} (a b : list A) :
  NoDup a -> NoDup b -> (forall x, In x a -> In x b -> False) -> NoDup (a ++ b).
Proof.
  induction a as [|x r IH]; intros Ha Hb H; [exact Hb|]. inversion Ha as [|? ? Hx Hr]; subst. cbn [app].
  constructor.
  - intros Hin. apply in_app_or in Hin. destruct Hin as [Hin | Hin]; [contradiction|]. apply (H x); [left; reflexivity | exact Hin].
  - apply IH; [exact Hr | exact Hb|]. intros y Hy Hy'. apply (H y); [right; exact Hy | exact Hy'].
Qed.

Lemma NoDup_map_inj_on {A B} (g : A -> B) l :
  NoDup l -> (forall x y, In x l -> In y l -> g x = g y -> x = y) -> NoDup (map g l).
Proof.
  induction 1 as [|x r Hx _ IH]; intros Hinj; [constructor|]. cbn [map]. constructor.
  - intros Hin. apply in_map_iff in Hin. destruct Hin as [y [E Hy]].
    assert (y = x) by (apply Hinj; [right; exact Hy | left; reflexivity | exact E]). subst. contradiction.
  - apply IH. intros a b Ha Hb. apply Hinj; right; assumption.
Qed.

Lemma NoDup_flat_map {A B} (g : A -> list B) l :
  (forall x, In x l -> NoDup (g x)) ->
  (forall l1 x l2 y l3, l = l1 ++ x :: l2 ++ y :: l3 -> forall b, In b (g x) -> In b (g y) -> False) ->
  NoDup (flat_map g l).
Proof.
  induction l as [|x r IH]; intros H1 H2; [constructor|]. cbn [flat_map].
  apply NoDup_app_intro.
  - apply H1. left. reflexivity.
  - apply IH.
    + intros y Hy. apply H1. right. exact Hy.
    + intros l1 a l2 c l3 E d Hd Hd'. apply (H2 (x :: l1) a l2 c l3) with (b := d); [rewrite E; reflexivity | exact Hd | exact Hd'].
  - intros b Hb Hb'. apply in_flat_map in Hb'. destruct Hb' as [y [Hy Hby]].
    destruct (in_split _ _ Hy) as [l2 [l3 E]]. apply (H2 [] x l2 y l3) with (b := b); [rewrite E; reflexivity | exact Hb | exact Hby].
Qed.

(* ---------- the defining declarations of the C translation unit, as tokens ---------- *)

Inductive tok :=
| KMacro (x : string)                      (* constant or enum member *)
| KSize (stem : string)                    (* BYTES_LENGTH_<stem> *)
| KTag (m : string)
| KTypedef (x : string)                    (* alias or enum *)
| KP (x : string) | KJ (x : string)        (* processor / json formatter of an alias or message *)
| KPA (a : string) | KJA (a : string)      (* array helpers of an alias *)
| KPF (m : string) (n : nat) | KJF (m : string) (n : nat)   (* array helpers of a message field *)
| KI (m : string) | KEnc (m : string) | KDec (m : string) | KJsn (m : string).

Definition key_of_tok (t : tok) : key :=
  match t with
  | KMacro x => (NsMacro, x)
  | KSize st => (NsMacro, size_constant_name st)
  | KTag m => (NsTag, m)
  | KTypedef x => (NsOrd, x)
  | KP x => (NsOrd, c_message_processor_name x)
  | KJ x => (NsOrd, c_message_json_formatter_name x)
  | KPA a => (NsOrd, c_array_processor_name_alias a)
  | KJA a => (NsOrd, c_array_json_formatter_name_alias a)
  | KPF m n => (NsOrd, c_array_processor_name_field m (dec n))
  | KJF m n => (NsOrd, c_array_json_formatter_name_field m (dec n))
  | KI m => (NsOrd, c_field_descriptors_initer_name m)
  | KEnc m => (NsOrd, c_encoder_name m)
  | KDec m => (NsOrd, c_decoder_name m)
  | KJsn m => (NsOrd, c_json_name m)
  end.

Definition macro_prefixes : list string := ["BYTES_LENGTH_"; "__BITPROTO__"; "BITPROTO_"].

(* what the guards [g_helper] and [g_derived] give about the payloads *)
Definition adm (t : tok) : Prop :=
  match t with
  | KMacro x => starts_any macro_prefixes x = false
  | KTypedef x => starts_any c_ord_prefixes x = false
  | KP x | KJ x => starts_with "Array" x = false
  | KPA a | KJA a => digit_tail a = false
  | KPF m _ | KJF m _ => digit_tail m = false
  | _ => True
  end.

Ltac strip_eq H :=
  match type of H with
  | (?p1 ++ ?a)%string = (?p2 ++ ?b)%string => apply (strip_spec p1 p2 a b) in H
  | ?x = (?p2 ++ ?b)%string => apply (strip_spec "" p2 x b) in H
  | (?p1 ++ ?a)%string = ?y => apply (strip_spec p1 "" a y) in H
  end; cbn [strip Ascii.eqb Bool.eqb andb] in H.

Ltac unfold_names H :=
  unfold c_message_processor_name, c_message_json_formatter_name, c_array_processor_name_alias,
    c_array_json_formatter_name_alias, c_array_processor_name_field, c_array_json_formatter_name_field,
    c_field_descriptors_initer_name, c_encoder_name, c_decoder_name, c_json_name, size_constant_name,
    c_processor_prefix, c_json_prefix in H.

Lemma starts_any_lit ps p r : existsb (fun q => starts_with q p) ps = true -> starts_any ps (p ++ r) = true.
Proof.
  unfold starts_any. intros H. apply existsb_exists in H. destruct H as [q [Hq Hs]].
  apply existsb_exists. exists q. split; [exact Hq|]. clear Hq. revert p Hs.
  induction q as [|c q IH]; intros p Hs; [destruct (p ++ r)%string; reflexivity|].
  destruct p as [|d p]; [discriminate|]. cbn in *. apply andb_true_iff in Hs. destruct Hs as [H1 H2].
  rewrite H1. apply IH. exact H2.
Qed.

Lemma key_of_tok_inj t1 t2 : adm t1 -> adm t2 -> key_of_tok t1 = key_of_tok t2 -> t1 = t2.
Proof.
  destruct t1, t2; cbn [key_of_tok adm]; intros A1 A2 H; try discriminate H;
    pose proof (f_equal snd H) as Hs; cbn [snd] in Hs; clear H; unfold_names Hs;
    try (strip_eq Hs; try contradiction);
    try (subst; reflexivity);
    (* a bare user name equal to a generated name: excluded by the reserved prefixes *)
    try (exfalso; subst;
         match goal with
         | A : starts_any _ (_ ++ _)%string = false |- _ => rewrite starts_any_lit in A; [discriminate | reflexivity]
         | A : starts_with "Array" ("Array" ++ _)%string = false |- _ => rewrite starts_with_app in A; discriminate
         end).
  all: try (apply sapp_inj_l in Hs).
  all: try (subst; reflexivity).
  all: try (exfalso; subst;
            match goal with
            | A : digit_tail (_ ++ dec _)%string = false |- _ => rewrite digit_tail_app_dec in A; discriminate
            end).
  all: try (destruct (split_digit_suffix _ _ _ _ A1 A2 (dec_digits _) (dec_digits _) Hs) as [-> Hd];
            apply dec_inj in Hd; subst; reflexivity).
Qed.

(* ---------- more list facts ---------- *)

Lemma NoDup_app_elim {A} (a b : list A) :
  NoDup (a ++ b) -> NoDup a /\ NoDup b /\ (forall x, In x a -> In x b -> False).
Proof.
  induction a as [|x r IH]; intros H.
  - split; [constructor | split; [exact H | intros x []]].
  - cbn [app] in H. inversion H as [|? ? Hx Hr]; subst. destruct (IH Hr) as [H1 [H2 H3]]. split; [|split].
    + constructor; [|exact H1]. intros Hin. apply Hx. apply in_or_app. left. exact Hin.
    + exact H2.
    + intros y [<- | Hy] Hy'; [apply Hx; apply in_or_app; right; exact Hy' | apply (H3 y Hy Hy')].
Qed.

Lemma NoDup_flat_map_elim {A B} (g : A -> list B) l :
  NoDup (flat_map g l) ->
  (forall x, In x l -> NoDup (g x)) /\
  (forall l1 x l2 y l3, l = l1 ++ x :: l2 ++ y :: l3 -> forall b, In b (g x) -> In b (g y) -> False).
Proof.
  induction l as [|a r IH]; intros H.
  - split; [intros x []|]. intros l1 x l2 y l3 E. destruct l1; discriminate.
  - cbn [flat_map] in H. destruct (NoDup_app_elim _ _ H) as [Ha [Hr Hd]].
    destruct (IH Hr) as [IH1 IH2]. split.
    + intros x [<- | Hx]; [exact Ha | apply IH1; exact Hx].
    + intros l1 x l2 y l3 E b Hb Hb'. destruct l1 as [|c l1]; cbn [app] in E; inversion E; subst.
      * apply (Hd b Hb). apply in_flat_map. exists y. split; [apply in_or_app; right; left; reflexivity | exact Hb'].
      * apply (IH2 l1 x l2 y l3 eq_refl b Hb Hb').
Qed.

Lemma NoDup_map_filter {A B} (g : A -> B) (p : A -> bool) l : NoDup (map g l) -> NoDup (map g (filter p l)).
Proof.
  induction l as [|x r IH]; intros H; [constructor|]. cbn [map] in H. inversion H; subst. cbn [filter].
  destruct (p x); [|apply IH; assumption]. cbn [map]. constructor; [|apply IH; assumption].
  intros Hin. apply H2. apply in_map_iff in Hin. destruct Hin as [y [E Hy]]. apply filter_In in Hy.
  apply in_map_iff. exists y. split; [exact E | apply Hy].
Qed.

Lemma in_insert_fl_rev x l y : y = x \/ In y l -> In y (insert_fl x l).
Proof.
  induction l as [|h r IH]; cbn [insert_fl]; intros H.
  - destruct H as [-> | []]. left. reflexivity.
  - destruct (fl_num x <? fl_num h).
    + destruct H as [-> | H]; [left; reflexivity | right; exact H].
    + destruct H as [-> | [-> | H]]; [right; apply IH; left; reflexivity | left; reflexivity | right; apply IH; right; exact H].
Qed.

Lemma NoDup_map_insert_fl {B} (g : field -> B) x l : NoDup (map g (x :: l)) -> NoDup (map g (insert_fl x l)).
Proof.
  induction l as [|h r IH]; intros H; [exact H|]. cbn [insert_fl]. destruct (fl_num x <? fl_num h); [exact H|].
  cbn [map] in *. inversion H as [|? ? Hx Hr]; subst. inversion Hr as [|? ? Hh Hr']; subst. constructor.
  - intros Hin. apply in_map_iff in Hin. destruct Hin as [y [E Hy]]. apply in_insert_fl in Hy.
    destruct Hy as [-> | Hy]; [apply Hx; left; symmetry; exact E | apply Hh; apply in_map_iff; exists y; auto].
  - apply IH. cbn [map]. constructor; [|exact Hr']. intros Hin. apply Hx. right. exact Hin.
Qed.

Lemma NoDup_map_sort_fl {B} (g : field -> B) l : NoDup (map g l) -> NoDup (map g (sort_fl l)).
Proof.
  induction l as [|h r IH]; intros H; [constructor|]. cbn [sort_fl]. apply NoDup_map_insert_fl. cbn [map] in *.
  inversion H; subst. constructor; [|apply IH; assumption]. intros Hin. apply H2.
  apply in_map_iff in Hin. destruct Hin as [y [E Hy]]. apply in_sort_fl in Hy. apply in_map_iff. exists y. auto.
Qed.

Lemma flat_map_app_perm {A B} (g h : A -> list B) l :
  Permutation (flat_map g l ++ flat_map h l) (flat_map (fun x => g x ++ h x) l).
Proof.
  induction l as [|x r IH]; [constructor|]. cbn [flat_map].
  rewrite <- app_assoc. rewrite <- app_assoc. apply Permutation_app_head.
  rewrite app_assoc. rewrite (Permutation_app_comm (flat_map g r) (h x)). rewrite <- app_assoc.
  apply Permutation_app_head. exact IH.
Qed.

Lemma NoDup_map_transfer {A B C} (g : A -> B) (h : A -> C) l :
  (forall x y, h x = h y -> g x = g y) -> NoDup (map g l) -> NoDup (map h l).
Proof.
  intros Hgh. induction l as [|x r IH]; intros H; [constructor|]. cbn [map] in *. inversion H; subst.
  constructor; [|apply IH; assumption]. intros Hin. apply H2. apply in_map_iff in Hin. destruct Hin as [y [E Hy]].
  apply in_map_iff. exists y. split; [apply Hgh; exact E | exact Hy].
Qed.

Lemma map_flat_map {A B C} (g : B -> C) (h : A -> list B) l : map g (flat_map h l) = flat_map (fun x => map g (h x)) l.
Proof. induction l as [|x r IH]; [reflexivity|]. cbn [flat_map]. rewrite map_app, IH. reflexivity. Qed.

Lemma decls_of_app a b : decls_of (a ++ b) = decls_of a ++ decls_of b.
Proof. unfold decls_of. apply flat_map_app. Qed.
Lemma decls_of_decls ds : decls_of (map IDecl ds) = ds.
Proof. unfold decls_of. induction ds as [|d r IH]; [reflexivity|]. cbn [map flat_map app]. rewrite IH. reflexivity. Qed.
Lemma decls_of_imports {A} (g : A -> item) l : (forall x, exists m t j, g x = IImport m t j) -> decls_of (map g l) = [].
Proof.
  intros H. unfold decls_of. induction l as [|x r IH]; [reflexivity|]. cbn [map flat_map].
  destruct (H x) as [m [t [j ->]]]. exact IH.
Qed.

Lemma filter_all {A} (p : A -> bool) l : forallb p l = true -> filter p l = l.
Proof.
  induction l as [|x r IH]; intros H; [reflexivity|]. cbn [forallb] in H. apply andb_true_iff in H. destruct H as [H1 H2].
  cbn [filter]. rewrite H1, IH by exact H2. reflexivity.
Qed.
Lemma filter_none {A} (p : A -> bool) l : forallb (fun x => negb (p x)) l = true -> filter p l = [].
Proof.
  induction l as [|x r IH]; intros H; [reflexivity|]. cbn [forallb] in H. apply andb_true_iff in H. destruct H as [H1 H2].
  cbn [filter]. apply negb_true_iff in H1. rewrite H1. apply IH. exact H2.
Qed.

(* ---------- the theorem ---------- *)

Section Unique.
Variables (s : schema) (i : nat) (flt : list string).
Hypothesis Hwf : wf s = true.
Hypothesis Hi : i < length s.
Hypothesis Hpre : pre LC s i = true.
Hypothesis Hgh : g_helper s i = true.
Hypothesis Hgd : g_derived LC s i = true.

Let fl := flat_file (getf s i).
Let px := own_px s i LC.

Definition toks (fd : fdef) : list tok :=
  let pth := fd_path fd in
  match fd_def fd with
  | DConst n _ => [KMacro (dname LC KConstant px pth n)]
  | DAlias n t =>
      let a := dname LC KAlias px pth n in
      KTypedef a :: (if is_arr t then [KPA a; KJA a] else []) ++ [KP a; KJ a]
  | DEnum n _ ms =>
      KTypedef (dname LC KEnum px pth n) :: map (fun m => KMacro (dname LC KEnumField px pth (fst m))) ms
  | DMsg n _ _ fs =>
      let m := dname LC KMessage px pth n in
      let arrs := filter (fun fld => is_arr (fl_ty fld)) (sort_fl fs) in
      [KSize (upper_case (snake_case m)); KTag m] ++ map (fun fld => KPF m (fl_num fld)) arrs
        ++ map (fun fld => KJF m (fl_num fld)) arrs ++ [KI m; KP m; KJ m; KEnc m; KDec m; KJsn m]
  end.

Lemma toks_keys fd :
  map dkey (dispatch_one s i flt H_DataStructuresList fd) ++ map dkey (dispatch_one s i flt C_BoundDefinitionList fd)
  = map key_of_tok (toks fd).
Proof.
  destruct fd as [pth d]. unfold toks, dispatch_one. cbn [fd_def fd_path].
  destruct d as [n v | n t | n w ms | n x nested fs];
    cbn [dkind_of dispatch dispatch_filtered andb def_blocks expand blocks_of flat_map app leaf fd_path fd_def].
  - reflexivity.
  - destruct t; reflexivity.
  - rewrite !app_nil_r. cbn [map dkey mk d_ns d_name key_of_tok]. f_equal. rewrite !map_map. reflexivity.
  - cbn [map app]. rewrite !map_app, !map_map. cbn [map app dkey mk mkm d_ns d_name key_of_tok]. reflexivity.
Qed.

(* ---- the precondition, unpacked ---- *)
Lemma pre_parts :
  NoDup (flat_map (base_keys LC px) fl) /\ NoDup (derived_stems LC s i) /\ NoDup (fn_stems LC s i).
Proof.
  pose proof Hpre as H. unfold pre in H.
  apply andb_true_iff in H. destruct H as [H _]. apply andb_true_iff in H. destruct H as [H _].
  apply andb_true_iff in H. destruct H as [H Hfn]. apply andb_true_iff in H. destruct H as [Hb Hst].
  repeat split; [apply nodup_keys_NoDup_rev; exact Hb | apply nodup_str_NoDup; exact Hst | apply nodup_str_NoDup; exact Hfn].
Qed.

Definition stems_of (fd : fdef) : list string :=
  match fd_def fd with DMsg n _ _ _ => [upper_case (snake_case (dname LC KMessage px (fd_path fd) n))] | _ => [] end.
Definition fns_of (fd : fdef) : list string :=
  match fd_def fd with
  | DAlias n _ => [dname LC KAlias px (fd_path fd) n]
  | DMsg n _ _ _ => [dname LC KMessage px (fd_path fd) n]
  | _ => [] end.

Lemma stems_flat : derived_stems LC s i = flat_map stems_of fl.
Proof.
  unfold derived_stems, msg_names. rewrite map_flat_map. apply flat_map_ext. intros fd. unfold stems_of.
  destruct (fd_def fd); reflexivity.
Qed.
Lemma fns_flat : fn_stems LC s i = flat_map fns_of fl.
Proof. unfold fn_stems. apply flat_map_ext. intros fd. unfold fns_of. destruct (fd_def fd); reflexivity. Qed.

(* which identifier of its definition a token is built from *)
Definition tok_id_in (fd : fdef) (t : tok) : Prop :=
  match t with
  | KMacro x => In (NsMacro, x) (base_keys LC px fd)
  | KTag m => In (NsTag, m) (base_keys LC px fd)
  | KTypedef x => In (NsOrd, x) (base_keys LC px fd)
  | KSize st => In st (stems_of fd)
  | KP x | KJ x | KPA x | KJA x | KPF x _ | KJF x _ | KI x | KEnc x | KDec x | KJsn x => In x (fns_of fd)
  end.

Ltac in_cases H :=
  repeat match type of H with
         | In _ (_ :: _) => destruct H as [H | H]
         | In _ (_ ++ _) => apply in_app_or in H; destruct H as [H | H]
         | In _ [] => contradiction
         | In _ (if ?c then _ else _) => destruct c
         end.

Lemma tok_ids fd t : In t (toks fd) -> tok_id_in fd t.
Proof.
  destruct fd as [pth d]. unfold toks, tok_id_in, base_keys, stems_of, fns_of, ns_macro, ns_ord, ns_tag. cbn [fd_def fd_path].
  destruct d as [n v | n ty | n w ms | n x nested fs]; intros H.
  - destruct H as [<- | []]. left. reflexivity.
  - cbn [In] in H. destruct H as [<- | H]; [left; reflexivity|]. apply in_app_or in H. destruct H as [H | H].
    + destruct (is_arr ty); [|contradiction]. destruct H as [<- | [<- | []]]; left; reflexivity.
    + destruct H as [<- | [<- | []]]; left; reflexivity.
  - destruct H as [<- | H]; [left; reflexivity|]. apply in_map_iff in H. destruct H as [m [<- Hm]].
    right. apply in_map_iff. exists m. split; [reflexivity | exact Hm].
  - apply in_app_or in H. destruct H as [H | H].
    + destruct H as [<- | [<- | []]]; left; reflexivity.
    + apply in_app_or in H. destruct H as [H | H]; [apply in_map_iff in H; destruct H as [fld [<- _]]; left; reflexivity|].
      apply in_app_or in H. destruct H as [H | H]; [apply in_map_iff in H; destruct H as [fld [<- _]]; left; reflexivity|].
      repeat (destruct H as [<- | H]; [left; reflexivity|]). contradiction.
Qed.

Lemma toks_disjoint l1 x l2 y l3 t : fl = l1 ++ x :: l2 ++ y :: l3 -> In t (toks x) -> In t (toks y) -> False.
Proof.
  intros E Hx Hy. apply tok_ids in Hx. apply tok_ids in Hy.
  destruct pre_parts as [Hb [Hst Hfn]]. rewrite stems_flat in Hst. rewrite fns_flat in Hfn.
  destruct (NoDup_flat_map_elim _ _ Hb) as [_ Db]. destruct (NoDup_flat_map_elim _ _ Hst) as [_ Ds].
  destruct (NoDup_flat_map_elim _ _ Hfn) as [_ Df].
  destruct t; cbn [tok_id_in] in Hx, Hy;
    first [ apply (Db l1 x l2 y l3 E _ Hx Hy) | apply (Ds l1 x l2 y l3 E _ Hx Hy) | apply (Df l1 x l2 y l3 E _ Hx Hy) ].
Qed.

(* ---- the guards, unpacked: every token is admissible ---- *)
Lemma in_names_of (g : fdef -> list string) fd x : In fd fl -> In x (g fd) -> In x (flat_map g fl).
Proof. intros H1 H2. apply in_flat_map. exists fd. split; assumption. Qed.

Lemma toks_adm fd t : In fd fl -> In t (toks fd) -> adm t.
Proof.
  intros Hfd Ht.
  pose proof Hgh as G1. unfold g_helper in G1. rewrite forallb_app in G1. apply andb_true_iff in G1. destruct G1 as [Gm Ga].
  pose proof Hgd as G2. cbn [g_derived] in G2. apply andb_true_iff in G2. destruct G2 as [G2 Gmac].
  apply andb_true_iff in G2. destruct G2 as [Gord Garr].
  rewrite forallb_app in Gord. apply andb_true_iff in Gord. destruct Gord as [Gord_a Gord_e].
  rewrite forallb_app in Garr. apply andb_true_iff in Garr. destruct Garr as [Garr_m Garr_a].
  rewrite forallb_forall in Gm, Ga, Gord_a, Gord_e, Garr_m, Garr_a, Gmac.
  assert (Hmsg : forall n x nested fs, fd_def fd = DMsg n x nested fs ->
            In (dname LC KMessage px (fd_path fd) n) (msg_names LC s i)).
  { intros n x nested fs E. unfold msg_names. apply in_flat_map. exists fd. split; [exact Hfd|]. rewrite E. left. reflexivity. }
  assert (Hali : forall n ty, fd_def fd = DAlias n ty -> In (dname LC KAlias px (fd_path fd) n) (alias_names LC s i)).
  { intros n ty E. unfold alias_names. apply in_flat_map. exists fd. split; [exact Hfd|]. rewrite E. left. reflexivity. }
  assert (Harr : forall n ty, fd_def fd = DAlias n ty -> is_arr ty = true ->
            In (dname LC KAlias px (fd_path fd) n) (array_alias_names LC s i)).
  { intros n ty E Ha. unfold array_alias_names. apply in_flat_map. exists fd. split; [exact Hfd|]. rewrite E, Ha. left. reflexivity. }
  assert (Henu : forall n w ms, fd_def fd = DEnum n w ms -> In (dname LC KEnum px (fd_path fd) n) (enum_names LC s i)).
  { intros n w ms E. unfold enum_names. apply in_flat_map. exists fd. split; [exact Hfd|]. rewrite E. left. reflexivity. }
  assert (Hmac : forall x, In (NsMacro, x) (base_keys LC px fd) -> starts_any macro_prefixes x = false).
  { intros x Hx. assert (Hin : In (NsMacro, x) (file_base_keys LC s i)).
    { unfold file_base_keys. apply in_flat_map. exists fd. split; [exact Hfd | exact Hx]. }
    specialize (Gmac _ Hin). cbn [fst snd] in Gmac. apply negb_true_iff in Gmac. exact Gmac. }
  unfold toks in Ht. destruct (fd_def fd) as [n v | n ty | n w ms | n x nested fs] eqn:Ed.
  - destruct Ht as [<- | []]. cbn [adm]. apply Hmac. unfold base_keys. rewrite Ed. left. reflexivity.
  - specialize (Hali n ty eq_refl). pose proof (Harr n ty eq_refl) as Harr'.
    cbn [In] in Ht. destruct Ht as [<- | Ht].
    + cbn [adm]. apply negb_true_iff. apply Gord_a. exact Hali.
    + apply in_app_or in Ht. destruct Ht as [Ht | Ht].
      * destruct (is_arr ty); [|contradiction].
        destruct Ht as [<- | [<- | []]]; cbn [adm]; apply negb_true_iff; apply Ga; apply Harr'; reflexivity.
      * destruct Ht as [<- | [<- | []]]; cbn [adm]; apply negb_true_iff; apply Garr_a; exact Hali.
  - destruct Ht as [<- | Ht].
    + cbn [adm]. apply negb_true_iff. apply Gord_e. apply (Henu n w ms eq_refl).
    + apply in_map_iff in Ht. destruct Ht as [m [<- Hm]]. cbn [adm]. apply Hmac. unfold base_keys. rewrite Ed.
      right. apply in_map_iff. exists m. split; [reflexivity | exact Hm].
  - specialize (Hmsg n x nested fs eq_refl).
    apply in_app_or in Ht. destruct Ht as [Ht | Ht]; [destruct Ht as [<- | [<- | []]]; exact I|].
    apply in_app_or in Ht. destruct Ht as [Ht | Ht].
    { apply in_map_iff in Ht. destruct Ht as [fld [<- _]]. cbn [adm]. apply negb_true_iff. apply Gm. exact Hmsg. }
    apply in_app_or in Ht. destruct Ht as [Ht | Ht].
    { apply in_map_iff in Ht. destruct Ht as [fld [<- _]]. cbn [adm]. apply negb_true_iff. apply Gm. exact Hmsg. }
    destruct Ht as [<- | [<- | [<- | [<- | [<- | [<- | []]]]]]]; cbn [adm]; try exact I;
      apply negb_true_iff; apply Garr_m; exact Hmsg.
Qed.

(* ---- the tokens of one definition are distinct ---- *)
Lemma toks_nodup fd : In fd fl -> NoDup (toks fd).
Proof.
  intros Hfd. destruct pre_parts as [Hb _]. destruct (NoDup_flat_map_elim _ _ Hb) as [Hb1 _]. specialize (Hb1 fd Hfd).
  pose proof (wf_fields s i Hwf Hi) as Hfw. unfold fields_wf in Hfw. rewrite forallb_forall in Hfw. specialize (Hfw fd Hfd).
  unfold toks. unfold base_keys in Hb1. destruct (fd_def fd) as [n v | n ty | n w ms | n x nested fs].
  - constructor; [intros [] | constructor].
  - destruct (is_arr ty); cbn [app]; repeat constructor; cbn [In]; intuition discriminate.
  - cbn [ns_ord ns_macro] in Hb1. inversion Hb1 as [|? ? _ Hms]; subst. constructor.
    + intros Hin. apply in_map_iff in Hin. destruct Hin as [m [E _]]. discriminate.
    + apply (NoDup_map_transfer (fun m => (NsMacro, dname LC KEnumField px (fd_path fd) (fst m)))); [|exact Hms].
      intros a b E. injection E as E. rewrite E. reflexivity.
  - apply nodup_str_NoDup in Hfw.
    set (m := dname LC KMessage px (fd_path fd) n). set (arrs := filter (fun fld => is_arr (fl_ty fld)) (sort_fl fs)).
    assert (Hn : NoDup (map (fun fld => dec (fl_num fld)) arrs)).
    { unfold arrs. apply NoDup_map_filter. apply NoDup_map_sort_fl. exact Hfw. }
    apply NoDup_app_intro; [repeat constructor; cbn [In]; intuition discriminate | |].
    + apply NoDup_app_intro; [|apply NoDup_app_intro|].
      * apply (NoDup_map_transfer (fun fld => dec (fl_num fld))); [|exact Hn]. intros a b E. injection E as E. rewrite E. reflexivity.
      * apply (NoDup_map_transfer (fun fld => dec (fl_num fld))); [|exact Hn]. intros a b E. injection E as E. rewrite E. reflexivity.
      * repeat constructor; cbn [In]; intuition discriminate.
      * intros t Ht Ht'. apply in_map_iff in Ht. destruct Ht as [a [<- _]]. cbn [In] in Ht'. intuition discriminate.
      * intros t Ht Ht'. apply in_map_iff in Ht. destruct Ht as [a [<- _]]. apply in_app_or in Ht'. destruct Ht' as [Ht' | Ht'].
        { apply in_map_iff in Ht'. destruct Ht' as [b [E _]]. discriminate. }
        { cbn [In] in Ht'. intuition discriminate. }
    + intros t Ht Ht'. cbn [In] in Ht. destruct Ht as [<- | [<- | []]];
        (apply in_app_or in Ht'; destruct Ht' as [Ht' | Ht'];
         [apply in_map_iff in Ht'; destruct Ht' as [b [E _]]; discriminate|];
         apply in_app_or in Ht'; destruct Ht' as [Ht' | Ht'];
         [apply in_map_iff in Ht'; destruct Ht' as [b [E _]]; discriminate | cbn [In] in Ht'; intuition discriminate]).
Qed.

Lemma all_toks_nodup : NoDup (flat_map toks fl).
Proof.
  apply NoDup_flat_map; [exact toks_nodup|]. intros l1 x l2 y l3 E t Hx Hy. exact (toks_disjoint l1 x l2 y l3 t E Hx Hy).
Qed.

Lemma all_keys_nodup : NoDup (map key_of_tok (flat_map toks fl)).
Proof.
  apply NoDup_map_inj_on; [exact all_toks_nodup|]. intros a b Ha Hb E.
  apply in_flat_map in Ha. destruct Ha as [fa [Hfa Ha]]. apply in_flat_map in Hb. destruct Hb as [fb [Hfb Hb]].
  apply key_of_tok_inj; [apply (toks_adm fa a Hfa Ha) | apply (toks_adm fb b Hfb Hb) | exact E].
Qed.

(* ---- prototypes ---- *)
Definition utoks (fd : fdef) : list tok :=
  match fd_def fd with
  | DMsg n _ _ _ => let m := dname LC KMessage px (fd_path fd) n in [KEnc m; KDec m; KJsn m]
  | _ => [] end.
Definition vtoks (fd : fdef) : list tok :=
  match fd_def fd with
  | DAlias n _ => let a := dname LC KAlias px (fd_path fd) n in [KP a; KJ a]
  | DMsg n _ _ _ => let m := dname LC KMessage px (fd_path fd) n in [KP m; KJ m]
  | _ => [] end.

Lemma utoks_keys fd : map dkey (dispatch_one s i flt H_FunctionDeclarationsForUserList fd) = map key_of_tok (utoks fd).
Proof.
  destruct fd as [pth d]. unfold utoks, dispatch_one. cbn [fd_def fd_path].
  destruct d; cbn [dkind_of dispatch dispatch_filtered andb def_blocks expand blocks_of flat_map app leaf fd_path fd_def]; reflexivity.
Qed.
Lemma vtoks_keys fd : map dkey (dispatch_one s i flt H_FunctionDeclarationsForInternalList fd) = map key_of_tok (vtoks fd).
Proof.
  destruct fd as [pth d]. unfold vtoks, dispatch_one. cbn [fd_def fd_path].
  destruct d; cbn [dkind_of dispatch dispatch_filtered andb def_blocks expand blocks_of flat_map app leaf fd_path fd_def]; reflexivity.
Qed.

Lemma ptoks_incl fd : incl (utoks fd ++ vtoks fd) (toks fd).
Proof.
  unfold utoks, vtoks, toks. destruct (fd_def fd) as [n v | n ty | n w ms | n x nested fs]; intros t Ht; cbn [app In] in Ht.
  - contradiction.
  - right. apply in_or_app. right. exact Ht.
  - contradiction.
  - apply in_or_app. right. apply in_or_app. right. apply in_or_app. right. cbn [In]. intuition.
Qed.

Lemma ptoks_nodup fd : NoDup (utoks fd ++ vtoks fd).
Proof.
  unfold utoks, vtoks. destruct (fd_def fd); cbn [app]; repeat constructor; cbn [In]; intuition discriminate.
Qed.

Lemma proto_keys_nodup : NoDup (map key_of_tok (flat_map utoks fl ++ flat_map vtoks fl)).
Proof.
  apply (Permutation_NoDup (l := map key_of_tok (flat_map (fun fd => utoks fd ++ vtoks fd) fl))).
  - apply Permutation_map. apply Permutation_sym. apply flat_map_app_perm.
  - apply NoDup_map_inj_on.
    + apply NoDup_flat_map; [intros fd _; apply ptoks_nodup|].
      intros l1 x l2 y l3 E t Hx Hy. apply (toks_disjoint l1 x l2 y l3 t E); apply ptoks_incl; assumption.
    + intros a b Ha Hb E.
      apply in_flat_map in Ha. destruct Ha as [fa [Hfa Ha]]. apply in_flat_map in Hb. destruct Hb as [fb [Hfb Hb]].
      apply key_of_tok_inj; [apply (toks_adm fa a Hfa); apply ptoks_incl; exact Ha
                            | apply (toks_adm fb b Hfb); apply ptoks_incl; exact Hb | exact E].
Qed.

(* ---- kinds of the declarations of each dispatcher ---- *)
Lemma disp_kinds b (p : decl -> bool) :
  (forall fd, forallb p (dispatch_one s i flt b fd) = true) -> forallb p (dispatcher s i flt b) = true.
Proof. intros H. unfold dispatcher. rewrite forallb_flat_map. apply forallb_forall. intros fd _. apply H. Qed.

Lemma ds_nonproto : forallb (fun d => negb (is_proto d)) (dispatcher s i flt H_DataStructuresList) = true.
Proof.
  apply disp_kinds. intros [pth d]. unfold dispatch_one. cbn [fd_def].
  destruct d; cbn [dkind_of dispatch dispatch_filtered andb def_blocks expand blocks_of flat_map app leaf fd_path fd_def forallb];
    try reflexivity. rewrite app_nil_r. cbn [forallb]. rewrite forallb_map. apply forallb_true.
Qed.
Lemma cb_nonproto : forallb (fun d => negb (is_proto d)) (dispatcher s i flt C_BoundDefinitionList) = true.
Proof.
  apply disp_kinds. intros [pth d]. unfold dispatch_one. cbn [fd_def].
  destruct d as [n v | n ty | n w ms | n x nested fs];
    cbn [dkind_of dispatch dispatch_filtered andb def_blocks expand blocks_of flat_map app leaf fd_path fd_def forallb];
    try reflexivity.
  - destruct (is_arr ty); reflexivity.
  - rewrite !forallb_app, !forallb_map, !forallb_true. reflexivity.
Qed.
Lemma user_proto : forallb is_proto (dispatcher s i flt H_FunctionDeclarationsForUserList) = true.
Proof.
  apply disp_kinds. intros [pth d]. unfold dispatch_one. cbn [fd_def].
  destruct d; cbn [dkind_of dispatch dispatch_filtered andb def_blocks expand blocks_of flat_map app leaf fd_path fd_def forallb]; reflexivity.
Qed.
Lemma internal_proto : forallb is_proto (dispatcher s i flt H_FunctionDeclarationsForInternalList) = true.
Proof.
  apply disp_kinds. intros [pth d]. unfold dispatch_one. cbn [fd_def].
  destruct d; cbn [dkind_of dispatch dispatch_filtered andb def_blocks expand blocks_of flat_map app leaf fd_path fd_def forallb]; reflexivity.
Qed.

Lemma negb_negb_fun (l : list decl) : forallb is_proto l = true -> forallb (fun d => negb (negb (is_proto d))) l = true.
Proof. apply forallb_impl. intros d _ H. rewrite H. reflexivity. Qed.

Definition guard_decl : decl := mk DkDefine NsMacro (h_guard_macro (upper_case (snake_case (f_proto (getf s i))))) [].

Lemma tu_decls_eq :
  decls_of (render_items s i TgH flt ++ render_items s i TgC flt) =
  guard_decl :: dispatcher s i flt H_DataStructuresList ++ dispatcher s i flt H_FunctionDeclarationsForUserList
             ++ dispatcher s i flt H_FunctionDeclarationsForInternalList ++ dispatcher s i flt C_BoundDefinitionList.
Proof.
  rewrite items_TgH, items_TgC. unfold disp.
  change (h_guard s i :: ?l) with ([h_guard s i] ++ l). change (c_self_include s i :: ?l) with ([c_self_include s i] ++ l).
  rewrite !decls_of_app, !decls_of_decls. unfold h_includes. rewrite decls_of_imports by (intros x; eauto).
  cbn [decls_of flat_map h_guard c_self_include app]. rewrite <- !app_assoc. reflexivity.
Qed.

Lemma guard_fresh t : In t (flat_map toks fl) -> key_of_tok t <> dkey guard_decl.
Proof.
  intros Ht E. apply in_flat_map in Ht. destruct Ht as [fd [Hfd Ht]]. pose proof (toks_adm fd t Hfd Ht) as A.
  change (dkey guard_decl) with (NsMacro, h_guard_macro (upper_case (snake_case (f_proto (getf s i))))) in E.
  destruct t; cbn [key_of_tok adm] in *; try discriminate E; pose proof (f_equal snd E) as Hs; cbn [snd] in Hs; clear E.
  subst x. unfold h_guard_macro in A. rewrite starts_any_lit in A; [discriminate | reflexivity].
Qed.

Theorem names_unique_C : unique_b (decls_of (render_items s i TgH flt ++ render_items s i TgC flt)) = true.
Proof.
  rewrite tu_decls_eq. unfold unique_b. apply andb_true_iff. split.
  - (* defining declarations *)
    change (guard_decl :: ?l) with ([guard_decl] ++ l). rewrite !filter_app.
    rewrite (filter_all _ _ ds_nonproto), (filter_all _ _ cb_nonproto).
    rewrite (filter_none _ _ (negb_negb_fun _ user_proto)), (filter_none _ _ (negb_negb_fun _ internal_proto)).
    cbn [filter guard_decl mk is_proto d_kind negb app]. apply nodup_keys_NoDup.
    cbn [map]. rewrite map_app.
    assert (P : Permutation (map dkey (dispatcher s i flt H_DataStructuresList) ++ map dkey (dispatcher s i flt C_BoundDefinitionList))
                            (map key_of_tok (flat_map toks fl))).
    { unfold dispatcher. rewrite !map_flat_map. rewrite flat_map_app_perm.
      rewrite (flat_map_ext _ (fun fd => map key_of_tok (toks fd))) by (intros fd; apply toks_keys). reflexivity. }
    constructor.
    + intros Hin. apply (Permutation_in _ P) in Hin. apply in_map_iff in Hin. destruct Hin as [t [E Ht]].
      apply (guard_fresh t Ht). exact E.
    + apply (Permutation_NoDup (Permutation_sym P)). exact all_keys_nodup.
  - (* prototypes *)
    change (guard_decl :: ?l) with ([guard_decl] ++ l). rewrite !filter_app.
    rewrite (filter_none _ _ ds_nonproto), (filter_none _ _ cb_nonproto).
    rewrite (filter_all _ _ user_proto), (filter_all _ _ internal_proto).
    cbn [filter guard_decl mk is_proto d_kind app]. rewrite app_nil_r. apply nodup_keys_NoDup.
    rewrite map_app. unfold dispatcher. rewrite !map_flat_map.
    rewrite (flat_map_ext _ (fun fd => map key_of_tok (utoks fd))) by (intros fd; apply utoks_keys).
    rewrite (flat_map_ext (fun fd => map dkey (dispatch_one s i flt H_FunctionDeclarationsForInternalList fd))
                          (fun fd => map key_of_tok (vtoks fd))) by (intros fd; apply vtoks_keys).
    rewrite <- !map_flat_map, <- map_app. exact proto_keys_nodup.
Qed.

(* ---------- the -O translation unit (header + source of optimization mode, with any -F list) ---------- *)

Definition otoks (fd : fdef) : list tok :=
  let pth := fd_path fd in
  match fd_def fd with
  | DConst n _ => [KMacro (dname LC KConstant px pth n)]
  | DAlias n t => [KTypedef (dname LC KAlias px pth n)]
  | DEnum n _ ms =>
      KTypedef (dname LC KEnum px pth n) :: map (fun m => KMacro (dname LC KEnumField px pth (fst m))) ms
  | DMsg n x nested fs =>
      let m := dname LC KMessage px pth n in
      [KSize (upper_case (snake_case m)); KTag m] ++
      (if negb (passes_filter flt (DMsg n x nested fs)) then [] else [KEnc m; KDec m])
  end.
Definition uotoks (fd : fdef) : list tok :=
  match fd_def fd with
  | DMsg n x nested fs =>
      let m := dname LC KMessage px (fd_path fd) n in
      if negb (passes_filter flt (DMsg n x nested fs)) then [] else [KEnc m; KDec m]
  | _ => [] end.

Lemma otoks_keys fd :
  map dkey (dispatch_one s i flt H_DataStructuresList fd) ++ map dkey (dispatch_one s i flt C_BoundDefinitionListOpMode fd)
  = map key_of_tok (otoks fd).
Proof.
  destruct fd as [pth d]. unfold otoks, dispatch_one. cbn [fd_def fd_path].
  destruct d as [n v | n t | n w ms | n x nested fs];
    cbn [dkind_of dispatch dispatch_filtered andb def_blocks expand blocks_of flat_map app leaf fd_path fd_def].
  - reflexivity.
  - reflexivity.
  - rewrite !app_nil_r. cbn [map dkey mk d_ns d_name key_of_tok]. f_equal. rewrite !map_map. reflexivity.
  - destruct (negb (passes_filter flt (DMsg n x nested fs))); reflexivity.
Qed.
Lemma uotoks_keys fd :
  map dkey (dispatch_one s i flt H_FunctionDeclarationsForUserListOpMode fd) = map key_of_tok (uotoks fd).
Proof.
  destruct fd as [pth d]. unfold uotoks, dispatch_one. cbn [fd_def fd_path].
  destruct d as [n v | n t | n w ms | n x nested fs];
    cbn [dkind_of dispatch dispatch_filtered andb def_blocks expand blocks_of flat_map app leaf fd_path fd_def]; try reflexivity.
  destruct (negb (passes_filter flt (DMsg n x nested fs))); reflexivity.
Qed.

Lemma otoks_incl fd : incl (otoks fd) (toks fd) /\ incl (uotoks fd) (toks fd).
Proof.
  unfold otoks, uotoks, toks. destruct (fd_def fd) as [n v | n ty | n w ms | n x nested fs]; split; intros t Ht;
    try (cbn [In] in Ht; contradiction); try exact Ht.
  - destruct Ht as [<- | []]. left. reflexivity.
  - apply in_app_or in Ht. destruct Ht as [Ht | Ht]; [apply in_or_app; left; exact Ht|].
    destruct (negb (passes_filter flt (DMsg n x nested fs))); [contradiction|].
    apply in_or_app. right. apply in_or_app. right. apply in_or_app. right. cbn [In] in *. intuition.
  - destruct (negb (passes_filter flt (DMsg n x nested fs))); [contradiction|].
    apply in_or_app. right. apply in_or_app. right. apply in_or_app. right. cbn [In] in *. intuition.
Qed.

Lemma otoks_nodup fd : In fd fl -> NoDup (otoks fd) /\ NoDup (uotoks fd).
Proof.
  intros Hfd. pose proof (toks_nodup fd Hfd) as Ht. unfold otoks, uotoks, toks in *.
  destruct (fd_def fd) as [n v | n ty | n w ms | n x nested fs].
  - split; [exact Ht | constructor].
  - split; [repeat constructor; intros [] | constructor].
  - split; [exact Ht | constructor].
  - split; destruct (negb (passes_filter flt (DMsg n x nested fs))); cbn [app]; repeat constructor; cbn [In]; intuition discriminate.
Qed.

Lemma sub_keys_nodup (g : fdef -> list tok) :
  (forall fd, In fd fl -> NoDup (g fd)) -> (forall fd, incl (g fd) (toks fd)) ->
  NoDup (map key_of_tok (flat_map g fl)).
Proof.
  intros Hn Hi'. apply NoDup_map_inj_on.
  - apply NoDup_flat_map; [exact Hn|]. intros l1 x l2 y l3 E t Hx Hy.
    apply (toks_disjoint l1 x l2 y l3 t E); [apply (Hi' x) | apply (Hi' y)]; assumption.
  - intros a b Ha Hb E.
    apply in_flat_map in Ha. destruct Ha as [fa [Hfa Ha]]. apply in_flat_map in Hb. destruct Hb as [fb [Hfb Hb]].
    apply key_of_tok_inj; [apply (toks_adm fa a Hfa); apply Hi'; exact Ha | apply (toks_adm fb b Hfb); apply Hi'; exact Hb | exact E].
Qed.

Lemma cbo_nonproto : forallb (fun d => negb (is_proto d)) (dispatcher s i flt C_BoundDefinitionListOpMode) = true.
Proof.
  apply disp_kinds. intros [pth d]. unfold dispatch_one. cbn [fd_def].
  destruct d as [n v | n ty | n w ms | n x nested fs];
    cbn [dkind_of dispatch dispatch_filtered andb def_blocks expand blocks_of flat_map app leaf fd_path fd_def forallb];
    try reflexivity.
  destruct (negb (passes_filter flt (DMsg n x nested fs))); reflexivity.
Qed.
Lemma userop_proto : forallb is_proto (dispatcher s i flt H_FunctionDeclarationsForUserListOpMode) = true.
Proof.
  apply disp_kinds. intros [pth d]. unfold dispatch_one. cbn [fd_def].
  destruct d as [n v | n ty | n w ms | n x nested fs];
    cbn [dkind_of dispatch dispatch_filtered andb def_blocks expand blocks_of flat_map app leaf fd_path fd_def forallb];
    try reflexivity.
  destruct (negb (passes_filter flt (DMsg n x nested fs))); reflexivity.
Qed.

Definition opt_decl : decl := mk DkDefine NsMacro "BITPROTO_OPTIMIZATION_MODE" [].

Lemma tuo_decls_eq :
  decls_of (render_items s i TgHO flt ++ render_items s i TgCO flt) =
  guard_decl :: opt_decl :: dispatcher s i flt H_DataStructuresList
             ++ dispatcher s i flt H_FunctionDeclarationsForUserListOpMode ++ dispatcher s i flt C_BoundDefinitionListOpMode.
Proof.
  rewrite items_TgHO, items_TgCO. unfold disp.
  change (h_guard s i :: ?l) with ([h_guard s i] ++ l). change (c_self_include s i :: ?l) with ([c_self_include s i] ++ l).
  change (h_includes s i ++ IDecl ?d :: ?l) with (h_includes s i ++ [IDecl d] ++ l).
  rewrite !decls_of_app, !decls_of_decls. unfold h_includes. rewrite decls_of_imports by (intros x; eauto).
  cbn [decls_of flat_map h_guard c_self_include app]. rewrite <- !app_assoc. reflexivity.
Qed.

Lemma opt_fresh t : In t (flat_map toks fl) -> key_of_tok t <> dkey opt_decl.
Proof.
  intros Ht E. apply in_flat_map in Ht. destruct Ht as [fd [Hfd Ht]]. pose proof (toks_adm fd t Hfd Ht) as A.
  change (dkey opt_decl) with (NsMacro, "BITPROTO_OPTIMIZATION_MODE") in E.
  destruct t; cbn [key_of_tok adm] in *; try discriminate E; pose proof (f_equal snd E) as Hs; cbn [snd] in Hs; clear E.
  subst x. vm_compute in A. discriminate.
Qed.

Theorem names_unique_CO : unique_b (decls_of (render_items s i TgHO flt ++ render_items s i TgCO flt)) = true.
Proof.
  rewrite tuo_decls_eq. unfold unique_b. apply andb_true_iff. split.
  - change (guard_decl :: opt_decl :: ?l) with ([guard_decl; opt_decl] ++ l). rewrite !filter_app.
    rewrite (filter_all _ _ ds_nonproto), (filter_all _ _ cbo_nonproto).
    rewrite (filter_none _ _ (negb_negb_fun _ userop_proto)).
    cbn [filter guard_decl opt_decl mk is_proto d_kind negb app]. apply nodup_keys_NoDup.
    cbn [map]. rewrite map_app.
    assert (P : Permutation (map dkey (dispatcher s i flt H_DataStructuresList) ++ map dkey (dispatcher s i flt C_BoundDefinitionListOpMode))
                            (map key_of_tok (flat_map otoks fl))).
    { unfold dispatcher. rewrite !map_flat_map. rewrite flat_map_app_perm.
      rewrite (flat_map_ext _ (fun fd => map key_of_tok (otoks fd))) by (intros fd; apply otoks_keys). reflexivity. }
    assert (Hsub : forall t, In t (flat_map otoks fl) -> In t (flat_map toks fl)).
    { intros t Ht. apply in_flat_map in Ht. destruct Ht as [fd [Hfd Ht]]. apply in_flat_map. exists fd.
      split; [exact Hfd | apply (proj1 (otoks_incl fd)); exact Ht]. }
    constructor; [|constructor].
    + intros [Hin | Hin]; [discriminate Hin|]. apply (Permutation_in _ P) in Hin. apply in_map_iff in Hin.
      destruct Hin as [t [E Ht]]. apply (guard_fresh t (Hsub t Ht)). exact E.
    + intros Hin. apply (Permutation_in _ P) in Hin. apply in_map_iff in Hin. destruct Hin as [t [E Ht]].
      apply (opt_fresh t (Hsub t Ht)). exact E.
    + apply (Permutation_NoDup (Permutation_sym P)). apply sub_keys_nodup.
      * intros fd Hfd. apply (proj1 (otoks_nodup fd Hfd)).
      * intros fd. apply (proj1 (otoks_incl fd)).
  - change (guard_decl :: opt_decl :: ?l) with ([guard_decl; opt_decl] ++ l). rewrite !filter_app.
    rewrite (filter_none _ _ ds_nonproto), (filter_none _ _ cbo_nonproto). rewrite (filter_all _ _ userop_proto).
    cbn [filter guard_decl opt_decl mk is_proto d_kind app]. rewrite app_nil_r. apply nodup_keys_NoDup.
    unfold dispatcher. rewrite map_flat_map.
    rewrite (flat_map_ext _ (fun fd => map key_of_tok (uotoks fd))) by (intros fd; apply uotoks_keys).
    rewrite <- map_flat_map. apply sub_keys_nodup.
    + intros fd Hfd. apply (proj2 (otoks_nodup fd Hfd)).
    + intros fd. apply (proj2 (otoks_incl fd)).
Qed.

End Unique.
