(* WireEq.v — wire-level invariances behind C12, in full generality.
   Only Schema.v / Spec.v / Bits.v are needed: the wire format of a resolved type [ty] does
   not see names, declaration order of fields, aliases, or the absolute field numbers (only
   their order).

   [weq t t' m]: t and t' have the same size and, for EVERY value v, the normalised encoding
   of v at t is the normalised encoding of (m v) at t'.  It is closed under composition and
   under every type context (alias, array element, message field), so sequences of rewrites
   at any depth are covered by induction ([rw_star_weq]). *)
From Coq Require Import ZArith List Bool Lia Permutation.
From BP Require Import Bits Schema Spec.
Import ListNotations.
Open Scope Z_scope.

(* ---------- named copies of the anonymous inner fixes (equal by reflexivity) ---------- *)

Definition norm_fields :=
  fix go (l : list (Z * ty)) : list (Z * ty) :=
    match l with
    | [] => []
    | kf :: r => (fst kf, norm (snd kf)) :: go r
    end.

Lemma norm_msg x fs : norm (TMsg x fs) = TMsg x (sort_fields (norm_fields fs)).
Proof. reflexivity. Qed.

Lemma norm_fields_map fs : norm_fields fs = map (fun kf => (fst kf, norm (snd kf))) fs.
Proof. induction fs as [|kf r IH]; [reflexivity|]. cbn [norm_fields map]. now rewrite IH. Qed.

Definition fields_bits (v : val) :=
  fix go (l : list (Z * ty)) : list bool :=
    match l with
    | [] => []
    | kf :: r => enc_bits (snd kf) (vfield (fst kf) v) ++ go r
    end.

Lemma enc_bits_msg x fs v :
  enc_bits (TMsg x fs) v =
  (if x then bits_of 16 (nbits (TMsg x fs)) else []) ++ fields_bits v fs.
Proof. reflexivity. Qed.

Lemma fields_bits_app v l1 l2 : fields_bits v (l1 ++ l2) = fields_bits v l1 ++ fields_bits v l2.
Proof.
  induction l1 as [|kf r IH]; [reflexivity|].
  cbn [app fields_bits]. fold (fields_bits v). rewrite IH. now rewrite app_assoc.
Qed.

(* ---------- sizes are invariant under norm ---------- *)

Lemma fields_nbits_insert kf l :
  fields_nbits (insert_field kf l) = nbits (snd kf) + fields_nbits l.
Proof.
  induction l as [|h r IH]; [reflexivity|].
  cbn [insert_field]. unfold fields_nbits in *. destruct (fst kf <? fst h); cbn [fold_right] in *; lia.
Qed.

Lemma fields_nbits_sort l : fields_nbits (sort_fields l) = fields_nbits l.
Proof.
  induction l as [|h r IH]; [reflexivity|].
  cbn [sort_fields]. rewrite fields_nbits_insert. unfold fields_nbits in *. cbn [fold_right]. lia.
Qed.

Lemma fields_nbits_app l1 l2 : fields_nbits (l1 ++ l2) = fields_nbits l1 + fields_nbits l2.
Proof. unfold fields_nbits. induction l1 as [|h r IH]; cbn [app fold_right]; lia. Qed.

Lemma nbits_norm t : nbits (norm t) = nbits t.
Proof.
  induction t as [| | n | n | n ms | t IH | x c e IH | x fs IH] using ty_ind'; try reflexivity.
  - cbn [norm nbits]. exact IH.
  - cbn [norm nbits]. now rewrite IH.
  - rewrite norm_msg, !nbits_msg, fields_nbits_sort. f_equal.
    induction fs as [|kf r IHr]; [reflexivity|].
    inversion IH as [|? ? Hk Hr]; subst.
    cbn [norm_fields fields_nbits fold_right snd]. rewrite Hk. f_equal. apply IHr, Hr.
Qed.

Lemma fields_nbits_norm fs : fields_nbits (norm_fields fs) = fields_nbits fs.
Proof.
  induction fs as [|kf r IH]; [reflexivity|].
  cbn [norm_fields]. unfold fields_nbits in *. cbn [fold_right snd]. rewrite nbits_norm, IH. reflexivity.
Qed.

(* ---------- insertion sort looks at keys only ---------- *)

Lemma insert_field_comm {A} (a b : Z * A) l :
  fst a <> fst b ->
  insert_field a (insert_field b l) = insert_field b (insert_field a l).
Proof.
  intros Hab. induction l as [|h r IH].
  - cbn [insert_field]. destruct (fst a <? fst b) eqn:E1, (fst b <? fst a) eqn:E2; try reflexivity; lia.
  - cbn [insert_field].
    destruct (fst b <? fst h) eqn:Eb, (fst a <? fst h) eqn:Ea; cbn [insert_field];
      rewrite ?Ea, ?Eb;
      destruct (fst a <? fst b) eqn:E1, (fst b <? fst a) eqn:E2; try reflexivity; try lia;
      rewrite ?IH; reflexivity.
Qed.

(* sorting a permutation of fields with distinct numbers gives the same list *)
Lemma sort_fields_perm {A} (l l' : list (Z * A)) :
  Permutation l l' -> NoDup (map fst l) -> sort_fields l = sort_fields l'.
Proof.
  induction 1 as [| x l l' HP IH | x y l | l l' l'' HP1 IH1 HP2 IH2]; intros ND.
  - reflexivity.
  - cbn [sort_fields]. rewrite IH; [reflexivity|]. cbn [map] in ND. now inversion ND.
  - cbn [sort_fields]. apply insert_field_comm.
    cbn [map] in ND. inversion ND as [|? ? Hn _]; subst. intros E. apply Hn. left. now symmetry.
  - rewrite IH1 by assumption. apply IH2.
    eapply Permutation_NoDup; [|exact ND]. now apply Permutation_map.
Qed.

(* sorting commutes with any change of payload that may depend on the key *)
Lemma insert_field_map {A B} (g : Z -> A -> B) kf (l : list (Z * A)) :
  insert_field (fst kf, g (fst kf) (snd kf)) (map (fun h => (fst h, g (fst h) (snd h))) l) =
  map (fun h => (fst h, g (fst h) (snd h))) (insert_field kf l).
Proof.
  induction l as [|h r IH]; [reflexivity|].
  cbn [map insert_field fst]. destruct (fst kf <? fst h); cbn [map fst snd]; [reflexivity|].
  now rewrite <- IH.
Qed.

Lemma sort_fields_map {A B} (g : Z -> A -> B) (l : list (Z * A)) :
  sort_fields (map (fun h => (fst h, g (fst h) (snd h))) l) =
  map (fun h => (fst h, g (fst h) (snd h))) (sort_fields l).
Proof.
  induction l as [|h r IH]; [reflexivity|].
  cbn [map sort_fields]. rewrite IH. apply (insert_field_map g h).
Qed.

Lemma insert_field_in {A} (kf : Z * A) l x : In x (insert_field kf l) <-> x = kf \/ In x l.
Proof.
  induction l as [|h r IH]; cbn [insert_field].
  - cbn [In]. intuition congruence.
  - destruct (fst kf <? fst h); cbn [In]; [intuition congruence|]. rewrite IH. intuition congruence.
Qed.

Lemma sort_fields_in {A} (l : list (Z * A)) x : In x (sort_fields l) <-> In x l.
Proof.
  induction l as [|h r IH]; [reflexivity|].
  cbn [sort_fields In]. rewrite insert_field_in, IH. intuition congruence.
Qed.

(* order-preserving renumbering keeps the sorted order *)
Lemma insert_field_renumber {A} (f : Z -> Z) kf (l : list (Z * A)) :
  (forall h, In h l -> (fst kf <? fst h) = (f (fst kf) <? f (fst h))) ->
  insert_field (f (fst kf), snd kf) (map (fun h => (f (fst h), snd h)) l) =
  map (fun h => (f (fst h), snd h)) (insert_field kf l).
Proof.
  induction l as [|h r IH]; intros Hm; [reflexivity|].
  cbn [map insert_field fst]. rewrite <- (Hm h (or_introl eq_refl)).
  destruct (fst kf <? fst h); cbn [map fst snd]; [reflexivity|].
  rewrite <- IH; [reflexivity|]. intros h' Hh'. apply Hm. now right.
Qed.

Definition mono_on (f : Z -> Z) (keys : list Z) : Prop :=
  forall a b, In a keys -> In b keys -> a < b -> f a < f b.

Lemma mono_on_ltb f keys a b : mono_on f keys -> In a keys -> In b keys -> (a <? b) = (f a <? f b).
Proof.
  intros Hm Ha Hb. destruct (Z.ltb_spec a b) as [L|G].
  - symmetry. apply Z.ltb_lt. now apply Hm.
  - symmetry. apply Z.ltb_ge. destruct (Z.eq_dec a b) as [->|N]; [lia|].
    assert (b < a) by lia. specialize (Hm b a Hb Ha H). lia.
Qed.

Lemma sort_fields_renumber {A} (f : Z -> Z) (l : list (Z * A)) :
  mono_on f (map fst l) ->
  sort_fields (map (fun h => (f (fst h), snd h)) l) =
  map (fun h => (f (fst h), snd h)) (sort_fields l).
Proof.
  induction l as [|h r IH]; intros Hm; [reflexivity|].
  cbn [map sort_fields]. rewrite IH.
  - apply (insert_field_renumber f h). intros h' Hh'.
    apply (mono_on_ltb f (map fst (h :: r))); [exact Hm|now left|].
    right. apply in_map. apply (proj1 (sort_fields_in r h')). exact Hh'.
  - intros a b Ha Hb. apply Hm; now right.
Qed.

(* pointwise-related lists with equal keys stay pointwise related after sorting *)
Lemma insert_field_rel {A B} (R : Z * A -> Z * B -> Prop) a b l l' :
  (forall x y, R x y -> fst x = fst y) ->
  R a b -> Forall2 R l l' -> Forall2 R (insert_field a l) (insert_field b l').
Proof.
  intros Hk Hab H. induction H as [|x y l l' Hxy Hl IH]; cbn [insert_field].
  - constructor; [exact Hab|constructor].
  - rewrite <- (Hk _ _ Hab), <- (Hk _ _ Hxy). destruct (fst a <? fst x).
    + constructor; [exact Hab|]. constructor; assumption.
    + constructor; assumption.
Qed.

Lemma sort_fields_rel {A B} (R : Z * A -> Z * B -> Prop) l l' :
  (forall x y, R x y -> fst x = fst y) ->
  Forall2 R l l' -> Forall2 R (sort_fields l) (sort_fields l').
Proof.
  intros Hk H. induction H as [|x y l l' Hxy Hl IH]; [constructor|].
  cbn [sort_fields]. now apply insert_field_rel.
Qed.

(* ---------- the equivalence ---------- *)

Definition weq (t t' : ty) (m : val -> val) : Prop :=
  nbits t = nbits t' /\ forall v, enc_bits (norm t) v = enc_bits (norm t') (m v).

Theorem weq_wire t t' m : weq t t' m -> forall v, wire t v = wire t' (m v).
Proof. intros [_ H] v. unfold wire. now rewrite H. Qed.

Lemma weq_refl t : weq t t (fun v => v).
Proof. split; reflexivity. Qed.

Lemma weq_trans t1 t2 t3 m1 m2 :
  weq t1 t2 m1 -> weq t2 t3 m2 -> weq t1 t3 (fun v => m2 (m1 v)).
Proof. intros [N1 H1] [N2 H2]. split; [congruence|]. intros v. now rewrite H1, H2. Qed.

Lemma weq_ext t t' m m' : (forall v, m v = m' v) -> weq t t' m -> weq t t' m'.
Proof. intros E [N H]. split; [exact N|]. intros v. now rewrite <- E. Qed.

(* an alias is transparent *)
Lemma weq_alias_intro t : weq t (TAlias t) (fun v => v).
Proof. split; reflexivity. Qed.

Lemma weq_alias_elim t : weq (TAlias t) t (fun v => v).
Proof. split; reflexivity. Qed.

Lemma weq_alias_cong t t' m : weq t t' m -> weq (TAlias t) (TAlias t') m.
Proof. intros [N H]. split; [exact N|]. intros v. cbn [norm enc_bits]. apply H. Qed.

Definition map_list (m : val -> val) (v : val) : val := VL (map m (vlist v)).

Lemma weq_arr_cong x c e e' m : weq e e' m -> weq (TArr x c e) (TArr x c e') (map_list m).
Proof.
  intros [N H]. split; [cbn [nbits]; now rewrite N|].
  intros v. cbn [norm enc_bits]. f_equal. unfold map_list. cbn [vlist].
  induction (vlist v) as [|a r IH]; [reflexivity|].
  cbn [map flat_map]. now rewrite H, IH.
Qed.

(* reordering the field declarations of a message *)
Lemma fields_nbits_perm l l' : Permutation l l' -> fields_nbits l = fields_nbits l'.
Proof.
  unfold fields_nbits. induction 1; cbn [fold_right]; try lia.
Qed.

Lemma weq_msg_perm x fs fs' :
  Permutation fs fs' -> NoDup (map fst fs) -> weq (TMsg x fs) (TMsg x fs') (fun v => v).
Proof.
  intros HP ND. split.
  - rewrite !nbits_msg. f_equal. now apply fields_nbits_perm.
  - intros v. rewrite !norm_msg.
    assert (E : sort_fields (norm_fields fs) = sort_fields (norm_fields fs')).
    { apply sort_fields_perm.
      - rewrite !norm_fields_map. now apply Permutation_map.
      - rewrite norm_fields_map, map_map. cbn [fst]. exact ND. }
    now rewrite E.
Qed.

(* replacing the type of one field (number k occurs once) *)
Definition upd_field (k : Z) (m : val -> val) (v : val) : val :=
  VM ((k, m (vfield k v)) :: match v with VM vs => vs | _ => [] end).

Lemma vfield_upd_same k m v : vfield k (upd_field k m v) = m (vfield k v).
Proof. unfold upd_field, vfield at 1. cbn [lookup fst snd]. now rewrite Z.eqb_refl. Qed.

Lemma vfield_upd_other k j m v : j <> k -> vfield j (upd_field k m v) = vfield j v.
Proof.
  intros N. unfold upd_field, vfield. cbn [lookup fst snd].
  destruct (Z.eqb_spec k j) as [->|_]; [congruence|]. destruct v; reflexivity.
Qed.

Lemma fields_bits_rel v v' l l' :
  Forall2 (fun a b : Z * ty =>
             fst a = fst b /\ enc_bits (snd a) (vfield (fst a) v) = enc_bits (snd b) (vfield (fst b) v')) l l' ->
  fields_bits v l = fields_bits v' l'.
Proof.
  induction 1 as [|a b l l' [_ Hab] _ IH]; [reflexivity|].
  cbn [fields_bits]. fold (fields_bits v) (fields_bits v'). now rewrite Hab, IH.
Qed.

Lemma fields_rel_other k m v (l : list (Z * ty)) :
  ~ In k (map fst l) ->
  Forall2 (fun a b : Z * ty =>
             fst a = fst b /\
             enc_bits (snd a) (vfield (fst a) v) = enc_bits (snd b) (vfield (fst b) (upd_field k m v)))
          (map (fun kf => (fst kf, norm (snd kf))) l) (map (fun kf => (fst kf, norm (snd kf))) l).
Proof.
  induction l as [|h r IH]; intros Hk; [constructor|].
  cbn [map]. constructor.
  - cbn [fst snd]. split; [reflexivity|]. rewrite vfield_upd_other; [reflexivity|].
    intros E. apply Hk. left. now symmetry.
  - apply IH. intros Hin. apply Hk. now right.
Qed.

Lemma weq_msg_field_cong x fs1 fs2 k t t' m :
  ~ In k (map fst (fs1 ++ fs2)) ->
  weq t t' m ->
  weq (TMsg x (fs1 ++ (k, t) :: fs2)) (TMsg x (fs1 ++ (k, t') :: fs2)) (upd_field k m).
Proof.
  intros Hk [N H].
  assert (NB : nbits (TMsg x (fs1 ++ (k, t) :: fs2)) = nbits (TMsg x (fs1 ++ (k, t') :: fs2))).
  { rewrite !nbits_msg, !fields_nbits_app. unfold fields_nbits at 2 4. cbn [fold_right snd]. now rewrite N. }
  split; [exact NB|].
  intros v. rewrite !norm_msg, !enc_bits_msg.
  assert (NB' : nbits (TMsg x (sort_fields (norm_fields (fs1 ++ (k, t) :: fs2)))) =
                nbits (TMsg x (sort_fields (norm_fields (fs1 ++ (k, t') :: fs2))))).
  { rewrite <- !norm_msg, !nbits_norm. exact NB. }
  rewrite NB'. f_equal.
  apply fields_bits_rel. apply sort_fields_rel; [now intros ? ? [E _]|].
  rewrite (norm_fields_map (fs1 ++ (k, t) :: fs2)), (norm_fields_map (fs1 ++ (k, t') :: fs2)), !map_app.
  cbn [map fst snd].
  rewrite map_app, in_app_iff in Hk.
  apply Forall2_app; [apply fields_rel_other; tauto|].
  constructor; [|apply fields_rel_other; tauto].
  cbn [fst snd]. split; [reflexivity|]. rewrite vfield_upd_same. apply H.
Qed.

(* order-preserving renumbering of the fields of a message; the value is mapped through
   the rewrite (rebuilt under the new numbers) *)
Definition renumber_fields (f : Z -> Z) (fs : list (Z * ty)) : list (Z * ty) :=
  map (fun h => (f (fst h), snd h)) fs.

Definition renumber_val (f : Z -> Z) (fs : list (Z * ty)) (v : val) : val :=
  VM (map (fun h => (f (fst h), vfield (fst h) v)) fs).

Lemma lookup_renumbered f (fs : list (Z * ty)) v k :
  In k (map fst fs) ->
  (forall a b, In a (map fst fs) -> In b (map fst fs) -> f a = f b -> a = b) ->
  lookup (f k) (map (fun h => (f (fst h), vfield (fst h) v)) fs) = Some (vfield k v).
Proof.
  intros Hin Hinj. induction fs as [|h r IH]; [destruct Hin|].
  cbn [map lookup fst snd]. destruct (Z.eqb_spec (f (fst h)) (f k)) as [E|NE].
  - f_equal. f_equal. apply Hinj; [now left|exact Hin|exact E].
  - apply IH.
    + destruct Hin as [E|Hin]; [subst k; congruence|exact Hin].
    + intros a b Ha Hb. apply Hinj; now right.
Qed.

Lemma mono_on_inj f keys : mono_on f keys ->
  forall a b, In a keys -> In b keys -> f a = f b -> a = b.
Proof.
  intros Hm a b Ha Hb E. destruct (Z.lt_trichotomy a b) as [L|[->|G]]; [|reflexivity|].
  - specialize (Hm a b Ha Hb L). lia.
  - specialize (Hm b a Hb Ha G). lia.
Qed.

Lemma weq_msg_renumber x fs f :
  mono_on f (map fst fs) ->
  weq (TMsg x fs) (TMsg x (renumber_fields f fs)) (renumber_val f fs).
Proof.
  intros Hm.
  assert (FN : fields_nbits (renumber_fields f fs) = fields_nbits fs).
  { unfold renumber_fields, fields_nbits. induction fs as [|h r IH]; [reflexivity|].
    cbn [map fold_right snd]. rewrite IH; [reflexivity|]. intros a b Ha Hb. apply Hm; now right. }
  assert (NB : nbits (TMsg x fs) = nbits (TMsg x (renumber_fields f fs))).
  { rewrite !nbits_msg. now rewrite FN. }
  split; [exact NB|].
  intros v. rewrite !norm_msg, !enc_bits_msg.
  assert (NB' : nbits (TMsg x (sort_fields (norm_fields fs))) =
                nbits (TMsg x (sort_fields (norm_fields (renumber_fields f fs))))).
  { rewrite <- !norm_msg, !nbits_norm. exact NB. }
  rewrite NB'. f_equal.
  assert (E : norm_fields (renumber_fields f fs) = renumber_fields f (norm_fields fs)).
  { unfold renumber_fields. rewrite (norm_fields_map fs), (norm_fields_map (map (fun h => (f (fst h), snd h)) fs)), !map_map. reflexivity. }
  rewrite E. unfold renumber_fields at 1.
  assert (Hm' : mono_on f (map fst (norm_fields fs))).
  { rewrite norm_fields_map, map_map. exact Hm. }
  rewrite (sort_fields_renumber f _ Hm').
  assert (Hsub : forall h, In h (sort_fields (norm_fields fs)) -> In (fst h) (map fst fs)).
  { intros h Hh. apply (proj1 (sort_fields_in _ _)) in Hh. rewrite norm_fields_map in Hh.
    apply in_map_iff in Hh. destruct Hh as [h0 [<- Hh0]]. cbn [fst]. now apply in_map. }
  set (s := sort_fields (norm_fields fs)) in *. clearbody s. clear NB' E Hm'.
  revert Hsub. induction s as [|h r IH]; intros Hsub; [reflexivity|].
  cbn [map fields_bits fst snd]. fold (fields_bits v) (fields_bits (renumber_val f fs v)).
  rewrite IH by (intros h' Hh'; apply Hsub; now right). f_equal.
  f_equal. unfold renumber_val, vfield at 2.
  rewrite lookup_renumbered; [reflexivity| |].
  - apply Hsub. now left.
  - now apply mono_on_inj.
Qed.

(* ---------- rewrite steps on resolved types, closed under contexts and sequences ---------- *)

Inductive rw_step : ty -> ty -> (val -> val) -> Prop :=
| RwAliasIntro t : rw_step t (TAlias t) (fun v => v)
| RwAliasInline t : rw_step (TAlias t) t (fun v => v)
| RwReorder x fs fs' :
    Permutation fs fs' -> NoDup (map fst fs) -> rw_step (TMsg x fs) (TMsg x fs') (fun v => v)
| RwRenumber x fs f :
    mono_on f (map fst fs) -> rw_step (TMsg x fs) (TMsg x (renumber_fields f fs)) (renumber_val f fs)
| RwInAlias t t' m : rw_step t t' m -> rw_step (TAlias t) (TAlias t') m
| RwInArr x c e e' m : rw_step e e' m -> rw_step (TArr x c e) (TArr x c e') (map_list m)
| RwInField x fs1 fs2 k t t' m :
    ~ In k (map fst (fs1 ++ fs2)) -> rw_step t t' m ->
    rw_step (TMsg x (fs1 ++ (k, t) :: fs2)) (TMsg x (fs1 ++ (k, t') :: fs2)) (upd_field k m).

Inductive rw_star : ty -> ty -> (val -> val) -> Prop :=
| RwNil t : rw_star t t (fun v => v)
| RwCons t1 t2 t3 m1 m2 : rw_step t1 t2 m1 -> rw_star t2 t3 m2 -> rw_star t1 t3 (fun v => m2 (m1 v)).

Theorem rw_step_weq t t' m : rw_step t t' m -> weq t t' m.
Proof.
  induction 1.
  - apply weq_alias_intro.
  - apply weq_alias_elim.
  - now apply weq_msg_perm.
  - now apply weq_msg_renumber.
  - now apply weq_alias_cong.
  - now apply weq_arr_cong.
  - now apply weq_msg_field_cong.
Qed.

Theorem rw_star_weq t t' m : rw_star t t' m -> weq t t' m.
Proof.
  induction 1 as [t|t1 t2 t3 m1 m2 H1 _ IH].
  - apply weq_refl.
  - eapply weq_trans; [apply rw_step_weq; exact H1|exact IH].
Qed.

Theorem rw_star_wire t t' m : rw_star t t' m -> forall v, wire t v = wire t' (m v).
Proof. intros H. apply weq_wire. now apply rw_star_weq. Qed.

(* aliases can be erased everywhere *)
Fixpoint strip (t : ty) : ty :=
  match t with
  | TAlias t => strip t
  | TArr x c e => TArr x c (strip e)
  | TMsg x fs =>
      TMsg x ((fix go (l : list (Z * ty)) : list (Z * ty) :=
                 match l with
                 | [] => []
                 | kf :: r => (fst kf, strip (snd kf)) :: go r
                 end) fs)
  | _ => t
  end.

Definition strip_fields :=
  fix go (l : list (Z * ty)) : list (Z * ty) :=
    match l with
    | [] => []
    | kf :: r => (fst kf, strip (snd kf)) :: go r
    end.

Lemma strip_msg x fs : strip (TMsg x fs) = TMsg x (strip_fields fs).
Proof. reflexivity. Qed.

Lemma strip_fields_map fs : strip_fields fs = map (fun kf => (fst kf, strip (snd kf))) fs.
Proof. induction fs as [|kf r IH]; [reflexivity|]. cbn [strip_fields map]. now rewrite IH. Qed.

Lemma nbits_strip t : nbits (strip t) = nbits t.
Proof.
  induction t as [| | n | n | n ms | t IH | x c e IH | x fs IH] using ty_ind'; try reflexivity.
  - cbn [strip nbits]. exact IH.
  - cbn [strip nbits]. now rewrite IH.
  - rewrite strip_msg, !nbits_msg. f_equal.
    induction fs as [|kf r IHr]; [reflexivity|].
    inversion IH as [|? ? Hk Hr]; subst.
    cbn [strip_fields]. unfold fields_nbits in *. cbn [fold_right snd]. rewrite Hk. f_equal. apply IHr, Hr.
Qed.

Theorem enc_bits_strip t : forall v, enc_bits (norm (strip t)) v = enc_bits (norm t) v.
Proof.
  induction t as [| | n | n | n ms | t IH | x c e IH | x fs IH] using ty_ind'; intros v; try reflexivity.
  - cbn [strip norm enc_bits]. apply IH.
  - cbn [strip norm enc_bits]. f_equal.
    induction (vlist v) as [|a r IHr]; [reflexivity|]. cbn [flat_map]. now rewrite IH, IHr.
  - rewrite strip_msg, !norm_msg, !enc_bits_msg.
    assert (NB : nbits (TMsg x (sort_fields (norm_fields (strip_fields fs)))) =
                 nbits (TMsg x (sort_fields (norm_fields fs)))).
    { rewrite <- !norm_msg, !nbits_norm, <- strip_msg. apply nbits_strip. }
    rewrite NB. f_equal. clear NB.
    apply fields_bits_rel. apply sort_fields_rel; [now intros ? ? [E _]|].
    induction fs as [|kf r IHr]; [constructor|].
    inversion IH as [|? ? Hk Hr]; subst.
    cbn [strip_fields norm_fields]. constructor.
    + cbn [fst snd]. split; [reflexivity|]. apply Hk.
    + apply IHr, Hr.
Qed.

Theorem wire_strip t v : wire (strip t) v = wire t v.
Proof. unfold wire. now rewrite enc_bits_strip. Qed.

(* two types that differ only in aliases have the same wire format *)
Corollary wire_alias_insensitive t t' : strip t = strip t' -> forall v, wire t v = wire t' v.
Proof. intros E v. rewrite <- (wire_strip t), <- (wire_strip t'), E. reflexivity. Qed.
