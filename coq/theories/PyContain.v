(* PyContain.v — C07, Python half: the bits a field contributes depend only on its low n
   bits.  Integer fields may hold ARBITRARY integers (shape_ty): the encoder model still
   returns Spec.wire, and wire only looks at each leaf modulo 2^n, so an out-of-range value
   changes no bit of another field or of the padding. *)
From Coq Require Import ZArith List Bool Lia ZifyBool.
From BP Require Import Bits Schema Spec PyRt PyEncShape PyEncShapeTop.
Import ListNotations.
Open Scope Z_scope.

Lemma bits_of_congr n z1 z2 :
  z1 mod 2 ^ Z.of_nat n = z2 mod 2 ^ Z.of_nat n -> bits_of n z1 = bits_of n z2.
Proof.
  intros H. apply nth_ext with (d := false) (d' := false).
  - now rewrite !bits_of_length.
  - intros k Hk. rewrite bits_of_length in Hk. rewrite !bits_of_testbit by assumption.
    rewrite <- (Z.mod_pow2_bits_low z1 (Z.of_nat n)), <- (Z.mod_pow2_bits_low z2 (Z.of_nat n)) by lia.
    now rewrite H.
Qed.

(* same structure, integer leaves congruent modulo 2^width *)
Fixpoint val_cong (t : ty) (a b : val) : bool :=
  match t with
  | TBool => match a, b with VB x, VB y => Bool.eqb x y | _, _ => false end
  | TByte => match a, b with VZ x, VZ y => x mod 2 ^ 8 =? y mod 2 ^ 8 | _, _ => false end
  | TUint n => match a, b with VZ x, VZ y => x mod 2 ^ n =? y mod 2 ^ n | _, _ => false end
  | TInt n => match a, b with VZ x, VZ y => x mod 2 ^ n =? y mod 2 ^ n | _, _ => false end
  | TEnum _ _ => match a, b with VZ x, VZ y => x =? y | _, _ => false end
  | TAlias t' => val_cong t' a b
  | TArr _ _ e =>
      match a, b with
      | VL l1, VL l2 =>
          (fix go (l1 l2 : list val) : bool :=
             match l1, l2 with
             | [], [] => true
             | x :: r1, y :: r2 => val_cong e x y && go r1 r2
             | _, _ => false
             end) l1 l2
      | _, _ => false
      end
  | TMsg _ fs =>
      (fix go (l : list (Z * ty)) : bool :=
         match l with
         | [] => true
         | kf :: r => val_cong (snd kf) (vfield (fst kf) a) (vfield (fst kf) b) && go r
         end) fs
  end.

Definition fields_cong (a b : val) :=
  fix go (l : list (Z * ty)) : bool :=
    match l with
    | [] => true
    | kf :: r => val_cong (snd kf) (vfield (fst kf) a) (vfield (fst kf) b) && go r
    end.

Definition list_cong (e : ty) :=
  fix go (l1 l2 : list val) : bool :=
    match l1, l2 with
    | [], [] => true
    | x :: r1, y :: r2 => val_cong e x y && go r1 r2
    | _, _ => false
    end.

Theorem enc_bits_cong t : forall a b,
  wf t = true -> val_cong t a b = true -> enc_bits t a = enc_bits t b.
Proof.
  induction t as [| | n | n | n ms | t IH | x c e IH | x fs IH] using ty_ind'; intros a b Hw Hc.
  - destruct a, b; cbn in *; try discriminate. f_equal. now apply eqb_prop.
  - destruct a, b; cbn [val_cong enc_bits zof] in *; try discriminate.
    apply (bits_of_congr 8). change (Z.of_nat 8) with 8. lia.
  - destruct a, b; cbn [val_cong enc_bits zof wf] in *; try discriminate.
    apply bits_of_congr. rewrite Z2Nat.id by lia. lia.
  - destruct a, b; cbn [val_cong enc_bits zof wf] in *; try discriminate.
    apply bits_of_congr. rewrite Z2Nat.id by lia. lia.
  - destruct a, b; cbn [val_cong enc_bits zof] in *; try discriminate.
    f_equal. lia.
  - cbn [val_cong enc_bits wf] in *. now apply IH.
  - cbn [wf] in Hw. rewrite !andb_true_iff in Hw. destruct Hw as [_ He].
    destruct a as [?|?|l1|?], b as [?|?|l2|?]; cbn [val_cong] in Hc; try discriminate.
    change (list_cong e l1 l2 = true) in Hc.
    cbn [enc_bits vlist]. f_equal.
    revert l2 Hc; induction l1 as [|h1 r1 IHl]; intros [|h2 r2] Hc; cbn [list_cong] in Hc;
      try discriminate; [reflexivity|].
    rewrite andb_true_iff in Hc. destruct Hc as [H1 H2]. cbn [flat_map].
    rewrite (IH h1 h2 He H1). f_equal. now apply IHl.
  - rewrite !enc_bits_msg. f_equal.
    rewrite wf_msg in Hw. rewrite !andb_true_iff in Hw. destruct Hw as [[_ _] Hfw].
    change (fields_cong a b fs = true) in Hc.
    induction fs as [|kf r IHr]; [reflexivity|].
    inversion IH as [|? ? Hk Hr]; subst.
    cbn [fields_cong] in Hc. rewrite andb_true_iff in Hc. destruct Hc as [H1 H2].
    cbn [fields_wf] in Hfw. rewrite !andb_true_iff in Hfw. destruct Hfw as [[[_ _] Hwk] Hwr].
    cbn [fields_bits]. rewrite (Hk _ _ Hwk H1). f_equal. apply IHr; assumption.
Qed.

(* out-of-range integers: the encoder still returns wire, which reads each leaf mod 2^n *)
Theorem py_encode_any_ints t v :
  is_msg t = true -> wf (norm t) = true -> shape_ty (norm t) v = true ->
  py_encode t v = Ok (wire t v).
Proof. exact (py_encode_is_wire t v). Qed.

Theorem py_contained t v1 v2 :
  is_msg t = true -> wf (norm t) = true ->
  shape_ty (norm t) v1 = true -> shape_ty (norm t) v2 = true ->
  val_cong (norm t) v1 v2 = true ->
  py_encode t v1 = py_encode t v2.
Proof.
  intros Hm Hw H1 H2 Hc.
  rewrite (py_encode_is_wire t v1 Hm Hw H1), (py_encode_is_wire t v2 Hm Hw H2).
  unfold wire. now rewrite (enc_bits_cong _ v1 v2 Hw Hc).
Qed.
