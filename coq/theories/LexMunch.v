(* LexMunch.v — WHICH prefix Python's backtracking search returns for the rules whose answer is not
   just "some element of L(r)":
     * greedy class rules (t_INT_LITERAL, t_IDENTIFIER, t_HEX_LITERAL, t_COMMENT): the MAXIMAL run —
       the first result of a greedy star over a single-character class is the longest one;
     * t_STRING_LITERAL (lazy star): the lexeme ends at the FIRST double quote that is not the second
       half of a backslash pair — exactly LexSpec.str_close — and there is no match at all when the
       line ends (or a backslash meets the newline / the end of input) before such a quote. *)
From Coq Require Import String NArith ZArith List Bool Lia.
From BP Require Import TotalBase LexBase Lex LexSpec LexCase LexProofs.
From BPGen Require Import GenLexer.
Import ListNotations.

Section Munch.
Variable uw : N -> bool.

Lemma mres_atom fuel a s : is_atom a = true -> mres uw fuel a s = step1 (atom_ok a) s.
Proof. destruct a; try discriminate; reflexivity. Qed.

Lemma lastc_cons p c w : lastc p (c :: w) = lastc (Some c) w.
Proof. reflexivity. Qed.

(* first result of a greedy star over a one-character class: after the maximal run *)
Lemma greedy_atom_first (ok : N -> bool) : forall fuel p s, (length s <= fuel)%nat ->
  hd_error (star_loop (step1 ok) true fuel (p, s))
  = Some (lastc p (fst (span ok s)), snd (span ok s)).
Proof.
  induction fuel as [|f IH]; intros p s Hl.
  - destruct s; [reflexivity|cbn [length] in Hl; lia].
  - cbn [star_loop]. destruct s as [|c r]; [reflexivity|].
    unfold step1 at 2. cbn [snd]. cbn [span]. destruct (ok c) eqn:Hc.
    + cbn [flat_map]. rewrite app_nil_r.
      assert (Hr : (length r <= f)%nat) by (cbn [length] in Hl; lia).
      specialize (IH (Some c) r Hr).
      destruct (star_loop (step1 ok) true f (Some c, r)) as [|x l]; [discriminate|].
      cbn [app hd_error] in *. rewrite IH. destruct (span ok r) as [a b]. reflexivity.
    + reflexivity.
Qed.

Lemma star_loop_ext (b1 b2 : mstate -> list mstate) g :
  (forall s, b1 s = b2 s) -> forall fuel s, star_loop b1 g fuel s = star_loop b2 g fuel s.
Proof.
  intro H. induction fuel as [|f IH]; intro s; [reflexivity|]. cbn [star_loop]. rewrite H.
  replace (flat_map (star_loop b1 g f) (b2 s)) with (flat_map (star_loop b2 g f) (b2 s)); [reflexivity|].
  apply flat_map_ext. intro x. symmetry. apply IH.
Qed.

(* a rule of the shape  <one-character class> <greedy star of a one-character class> *)
Lemma class_then_greedy fuel a b p s :
  is_atom a = true -> is_atom b = true -> (length s <= S fuel)%nat ->
  rmatch uw fuel (XSeq a (XStar true b)) (p, s)
  = match s with
    | c :: r => if atom_ok a c then Some (lastc (Some c) (fst (span (atom_ok b) r)), snd (span (atom_ok b) r)) else None
    | [] => None
    end.
Proof.
  intros Ha Hb Hl. unfold rmatch. cbn [mres]. rewrite (mres_atom fuel a _ Ha).
  unfold step1 at 1. cbn [snd]. destruct s as [|c r]; [reflexivity|].
  destruct (atom_ok a c); [|reflexivity]. cbn [flat_map]. rewrite app_nil_r.
  rewrite (star_loop_ext (mres uw fuel b) (step1 (atom_ok b))) by (intro; apply mres_atom; exact Hb).
  apply greedy_atom_first. cbn [length] in Hl. lia.
Qed.

Definition ok_digit : N -> bool := atom_ok (XIn false [(48, 57)]%N).
Definition ok_idstart : N -> bool := atom_ok (XIn false [(97, 122); (65, 90); (95, 95)]%N).
Definition ok_idchar : N -> bool := atom_ok (XIn false [(97, 122); (65, 90); (48, 57); (95, 95)]%N).
Definition ok_hex : N -> bool := atom_ok (XIn false [(48, 57); (97, 102); (65, 70)]%N).
Definition ok_notnl : N -> bool := atom_ok (XNotChar 10).

(* t_INT_LITERAL takes the whole run of digits *)
Theorem int_literal_maximal fuel p s : (length s <= S fuel)%nat ->
  rmatch uw fuel rx_t_INT_LITERAL (p, s)
  = match s with
    | c :: r => if ok_digit c then Some (lastc (Some c) (fst (span ok_digit r)), snd (span ok_digit r)) else None
    | [] => None
    end.
Proof. intro H. unfold rx_t_INT_LITERAL, XPlus. apply class_then_greedy; [reflexivity|reflexivity|exact H]. Qed.

(* t_IDENTIFIER takes the whole run of [A-Za-z0-9_] *)
Theorem identifier_maximal fuel p s : (length s <= S fuel)%nat ->
  rmatch uw fuel rx_t_IDENTIFIER (p, s)
  = match s with
    | c :: r => if ok_idstart c then Some (lastc (Some c) (fst (span ok_idchar r)), snd (span ok_idchar r)) else None
    | [] => None
    end.
Proof. intro H. unfold rx_t_IDENTIFIER. apply class_then_greedy; [reflexivity|reflexivity|exact H]. Qed.

Lemma seq_char fuel k R p s :
  rmatch uw fuel (XSeq (XChar k) R) (p, k :: s) = rmatch uw fuel R (Some k, s).
Proof.
  unfold rmatch. cbn [mres]. unfold step1 at 1. cbn [snd atom_ok]. rewrite N.eqb_refl. cbn [flat_map].
  rewrite app_nil_r. reflexivity.
Qed.

(* t_HEX_LITERAL: "0x", one hex digit, then the whole run of hex digits *)
Theorem hex_literal_maximal fuel p c r : (length r <= fuel)%nat ->
  rmatch uw fuel rx_t_HEX_LITERAL (p, 48%N :: 120%N :: c :: r)
  = if ok_hex c then Some (lastc (Some c) (fst (span ok_hex r)), snd (span ok_hex r)) else None.
Proof.
  intro H. unfold rx_t_HEX_LITERAL, XPlus. rewrite !seq_char.
  rewrite class_then_greedy; [reflexivity|reflexivity|reflexivity|cbn [length]; lia].
Qed.

(* t_COMMENT: "//" and everything up to, not including, the next newline *)
Theorem comment_maximal fuel p r : (length r <= fuel)%nat ->
  rmatch uw fuel rx_t_COMMENT (p, 47%N :: 47%N :: r)
  = Some (lastc (Some 47%N) (fst (span ok_notnl r)), snd (span ok_notnl r)).
Proof.
  intro H. unfold rx_t_COMMENT. rewrite !seq_char. unfold rmatch. cbn [mres].
  rewrite (star_loop_ext (mres uw fuel (XNotChar 10)) (step1 ok_notnl)) by (intro; reflexivity).
  apply greedy_atom_first. exact H.
Qed.

(* ---------- t_STRING_LITERAL: the lazy star ------------------------------------------------- *)
Definition str_unit : rx := XAlt (XIn true [(92, 92); (10, 10)]%N) (XSeq (XChar 92) XAny).

Lemma range1 a c : (N.leb a c && N.leb c a) = N.eqb c a.
Proof.
  destruct (N.eqb_spec c a) as [->|Hne].
  - rewrite N.leb_refl. reflexivity.
  - destruct (N.leb_spec a c), (N.leb_spec c a); cbn [andb]; try reflexivity. lia.
Qed.

Lemma unit_step fuel q c r1 :
  mres uw fuel str_unit (q, c :: r1)
  = if N.eqb c 92 then match r1 with
                       | d :: r2 => if N.eqb d 10 then [] else [(Some d, r2)]
                       | [] => []
                       end
    else if N.eqb c 10 then [] else [(Some c, r1)].
Proof.
  unfold str_unit. cbn [mres]. unfold step1 at 1 3. cbn [snd atom_ok in_ranges existsb fst].
  rewrite !range1. rewrite orb_false_r.
  destruct (N.eqb_spec c 92) as [->|H92].
  - cbn [N.eqb Pos.eqb orb xorb app flat_map]. unfold step1. cbn [snd atom_ok].
    destruct r1 as [|d r2]; [reflexivity|]. unfold NL. destruct (N.eqb d 10); reflexivity.
  - cbn [orb]. destruct (N.eqb c 10); cbn [xorb app flat_map]; reflexivity.
Qed.

Lemma unit_step_nil fuel q : mres uw fuel str_unit (q, []) = [].
Proof. reflexivity. Qed.

Definition close_result (r : list N) : option mstate :=
  match str_close r with Some (_, rest) => Some (Some 34%N, rest) | None => None end.

Lemma lazy_scan (K U : mstate -> list mstate) :
  (forall q c r, K (q, c :: r) = if N.eqb c 34 then [(Some c, r)] else []) -> (forall q, K (q, []) = []) ->
  (forall q c r1, U (q, c :: r1) = if N.eqb c 92 then match r1 with
                                                      | d :: r2 => if N.eqb d 10 then [] else [(Some d, r2)]
                                                      | [] => []
                                                      end
                                   else if N.eqb c 10 then [] else [(Some c, r1)]) ->
  (forall q, U (q, []) = []) ->
  forall fuel q r, (length r <= fuel)%nat ->
  hd_error (flat_map K (star_loop U false fuel (q, r))) = close_result r.
Proof.
  intros HK HK0 HU HU0. induction fuel as [|f IH]; intros q r Hl.
  - destruct r; [cbn [star_loop flat_map]; rewrite HK0; reflexivity|cbn [length] in Hl; lia].
  - cbn [star_loop flat_map]. destruct r as [|c r1].
    + rewrite HK0, HU0. reflexivity.
    + rewrite HK, HU. unfold close_result. cbn [str_close].
      destruct (N.eqb c 34) eqn:E34.
      * apply N.eqb_eq in E34. subst c. reflexivity.
      * cbn [app].
        destruct (N.eqb c 10) eqn:E10.
        -- apply N.eqb_eq in E10. subst c. reflexivity.
        -- destruct (N.eqb c 92) eqn:E92.
           ++ destruct r1 as [|d r2]; [reflexivity|]. destruct (N.eqb d 10); [reflexivity|].
              cbn [flat_map]. rewrite app_nil_r.
              assert (Hr : (length r2 <= f)%nat) by (cbn [length] in Hl; lia).
              rewrite (IH (Some d) r2 Hr). unfold close_result. destruct (str_close r2) as [[b t]|]; reflexivity.
           ++ cbn [flat_map]. rewrite app_nil_r.
              assert (Hr : (length r1 <= f)%nat) by (cbn [length] in Hl; lia).
              rewrite (IH (Some c) r1 Hr). unfold close_result. destruct (str_close r1) as [[b t]|]; reflexivity.
Qed.

(* the STRING_LITERAL rule at a double quote: closes at the first quote that is not escaped; no match
   if the line (or the input) ends first *)
Theorem string_literal_first_close fuel p r : (length r <= fuel)%nat ->
  rmatch uw fuel rx_t_STRING_LITERAL (p, 34%N :: r) = close_result r.
Proof.
  intro H. unfold rx_t_STRING_LITERAL. rewrite seq_char. unfold rmatch.
  change (mres uw fuel (XSeq (XStar false (XAlt (XIn true [(92, 92); (10, 10)]%N) (XSeq (XChar 92) XAny))) (XChar 34)) (Some 34%N, r))
    with (flat_map (mres uw fuel (XChar 34)) (star_loop (mres uw fuel str_unit) false fuel (Some 34%N, r))).
  apply lazy_scan; try exact H.
  - intros q c r0. reflexivity.
  - intro q. reflexivity.
  - intros q c r1. apply unit_step.
  - intro q. reflexivity.
Qed.

(* what str_close returns IS a split of the text at a quote, with a body free of newlines *)
Lemma str_close_split : forall r body rest, str_close r = Some (body, rest) -> r = body ++ 34%N :: rest /\ ~ In NL body.
Proof.
  induction r as [r IH] using (well_founded_induction (Wf_nat.well_founded_ltof _ (@length N))).
  intros body rest H. destruct r as [|c r1]; [discriminate|]. cbn [str_close] in H.
  destruct (N.eqb_spec c 34) as [->|H34].
  - inversion H; subst. split; [reflexivity|intros []].
  - destruct (N.eqb_spec c 10) as [->|H10]; [discriminate|].
    destruct (N.eqb_spec c 92) as [->|H92].
    + destruct r1 as [|d r2]; [discriminate|]. destruct (N.eqb_spec d 10) as [->|Hd]; [discriminate|].
      destruct (str_close r2) as [[b t]|] eqn:E; [|discriminate]. inversion H; subst.
      apply IH in E; [|unfold ltof; cbn [length]; lia]. destruct E as [-> Hn]. split; [reflexivity|].
      intros [K|[K|K]]; [discriminate K|apply Hd; exact K|apply Hn; exact K].
    + destruct (str_close r1) as [[b t]|] eqn:E; [|discriminate]. inversion H; subst.
      apply IH in E; [|unfold ltof; cbn [length]; lia]. destruct E as [-> Hn]. split; [reflexivity|].
      intros [K|K]; [apply H10; exact K|apply Hn; exact K].
Qed.

End Munch.
