(* EmitDbu.v — lemmas behind C10_declared_before_use: every generated name a declaration uses
   is declared earlier in the same output or comes from an earlier include / import.
   Compositional: dbu_go over a concatenation / over a dispatcher (flat_map over the
   definitions in Scope.filter order), then one obligation per kind of definition. *)
From Coq Require Import String Ascii List ZArith Bool Arith Lia.
From BP Require Import EmitBase EmitNames Emit EmitSpec EmitCheck EmitProofs.
From BPGen Require Import GenC10.
Import ListNotations.
Open Scope string_scope.
Open Scope list_scope.
Open Scope nat_scope.

(* ---------- keys ---------- *)

Lemma ns_eqb_eq a b : ns_eqb a b = true <-> a = b.
Proof.
  destruct a as [| | | |x], b as [| | | |y]; cbn; split; intros H; try reflexivity; try discriminate.
  - apply String.eqb_eq in H. subst. reflexivity.
  - inversion H. apply String.eqb_refl.
Qed.

Lemma key_eqb_eq (a b : key) : key_eqb a b = true <-> a = b.
Proof.
  destruct a as [n x], b as [m y]. unfold key_eqb. cbn [fst snd]. rewrite andb_true_iff, ns_eqb_eq, String.eqb_eq.
  split; [intros [-> ->]; reflexivity | intros H; inversion H; auto].
Qed.

Lemma mem_key_in k l : mem_key k l = true <-> In k l.
Proof.
  unfold mem_key. rewrite existsb_exists. split.
  - intros [x [Hx He]]. apply key_eqb_eq in He. subst. exact Hx.
  - intros H. exists k. split; [exact H | apply key_eqb_eq; reflexivity].
Qed.

Section Dbu.
Variables (s : schema) (t : target) (flt : list string).

Definition keys_of (its : list item) : list key := all_keys s t flt its.
Definition dkeys (ds : list decl) : list key := map dkey ds.

Lemma keys_of_app a b : keys_of (a ++ b) = keys_of a ++ keys_of b.
Proof. unfold keys_of, all_keys. apply flat_map_app. Qed.

Lemma keys_of_decls ds : keys_of (map IDecl ds) = dkeys ds.
Proof.
  unfold keys_of, all_keys, dkeys. induction ds as [|d r IH]; [reflexivity|].
  cbn [map flat_map app]. rewrite IH. reflexivity.
Qed.

(* imports accumulated by dbu_go *)
Fixpoint imps_acc (pre : list item) (imps : list (string * nat)) : list (string * nat) :=
  match pre with
  | [] => imps
  | IImport m _ j :: r => match lang_of t with LC => imps_acc r imps | _ => imps_acc r ((m, j) :: imps) end
  | IDecl _ :: r => imps_acc r imps
  end.

Lemma imps_acc_app a b imps : imps_acc (a ++ b) imps = imps_acc b (imps_acc a imps).
Proof.
  revert imps. induction a as [|x r IH]; intros imps; [reflexivity|].
  destruct x as [d | m tg j]; cbn [app imps_acc]; [apply IH|]. destruct (lang_of t); apply IH.
Qed.

Lemma imps_acc_decls ds imps : imps_acc (map IDecl ds) imps = imps.
Proof. induction ds as [|d r IH]; [reflexivity|]. exact IH. Qed.

Lemma imps_acc_keeps pre imps x : In x imps -> In x (imps_acc pre imps).
Proof.
  revert imps. induction pre as [|y r IH]; intros imps H; [exact H|].
  destruct y as [d | m tg j]; cbn [imps_acc]; [apply IH; exact H|].
  destruct (lang_of t); apply IH; try exact H; right; exact H.
Qed.

Lemma keys_of_cons_decl d r : keys_of (IDecl d :: r) = dkey d :: keys_of r.
Proof. reflexivity. Qed.
Lemma keys_of_cons_import m tg j r :
  keys_of (IImport m tg j :: r) =
  match lang_of t with LC => exports (fuel_of s) s t flt j | _ => [] end ++ keys_of r.
Proof. reflexivity. Qed.

Lemma dbu_go_app all seen imps a b :
  dbu_go s t flt all seen imps (a ++ b) =
  dbu_go s t flt all seen imps a && dbu_go s t flt all (seen ++ keys_of a) (imps_acc a imps) b.
Proof.
  revert seen imps. induction a as [|x r IH]; intros seen imps.
  - cbn [app dbu_go imps_acc andb]. change (keys_of []) with (@nil key). rewrite app_nil_r. reflexivity.
  - destruct x as [d | m tg j].
    + cbn [app dbu_go imps_acc]. rewrite IH, keys_of_cons_decl. rewrite <- andb_assoc. f_equal. f_equal.
      rewrite <- app_assoc. reflexivity.
    + cbn [app dbu_go imps_acc]. rewrite keys_of_cons_import.
      destruct (lang_of t); rewrite IH; rewrite ?app_nil_l, <- ?app_assoc; reflexivity.
Qed.

(* a dispatcher: blocks of the definitions in order *)
Lemma dbu_go_flat_map (blkf : fdef -> list decl) all imps fl : forall seen,
  (forall fl1 fd fl2, fl = fl1 ++ fd :: fl2 ->
     dbu_go s t flt all (seen ++ dkeys (flat_map blkf fl1)) imps (map IDecl (blkf fd)) = true) ->
  dbu_go s t flt all seen imps (map IDecl (flat_map blkf fl)) = true.
Proof.
  induction fl as [|fd r IH]; intros seen H; [reflexivity|].
  cbn [flat_map]. rewrite map_app, dbu_go_app. apply andb_true_iff. split.
  - specialize (H [] fd r eq_refl). cbn [flat_map dkeys map] in H. rewrite app_nil_r in H. exact H.
  - rewrite imps_acc_decls, keys_of_decls. apply IH. intros fl1 fd' fl2 E.
    specialize (H (fd :: fl1) fd' fl2). rewrite E in H. specialize (H eq_refl).
    cbn [flat_map] in H. unfold dkeys in *. rewrite map_app, app_assoc in H. exact H.
Qed.

(* a short explicit block *)
Lemma dbu_go_decls_cons all seen imps d r :
  dbu_go s t flt all seen imps (map IDecl (d :: r)) =
  forallb (use_ok s t flt seen all imps) (d_uses d) && dbu_go s t flt all (seen ++ [dkey d]) imps (map IDecl r).
Proof. reflexivity. Qed.

Lemma dbu_go_nil all seen imps : dbu_go s t flt all seen imps [] = true.
Proof. reflexivity. Qed.

(* ---------- how one use is resolved ---------- *)

Lemma use_ok_eager seen all imps n x :
  In (n, x) seen -> use_ok s t flt seen all imps (mkUse n "" x true) = true.
Proof. intros H. unfold use_ok. cbn [u_qual u_eager u_ns u_name String.eqb]. apply mem_key_in. exact H. Qed.

Lemma use_ok_deferred seen all imps n x :
  In (n, x) all -> use_ok s t flt seen all imps (mkUse n "" x false) = true.
Proof. intros H. unfold use_ok. cbn [u_qual u_eager u_ns u_name String.eqb]. apply mem_key_in. exact H. Qed.

Lemma use_ok_unq seen all imps n x e :
  In (n, x) seen -> incl seen all -> use_ok s t flt seen all imps (mkUse n "" x e) = true.
Proof. intros H Hi. destruct e; [apply use_ok_eager; exact H | apply use_ok_deferred; apply Hi; exact H]. Qed.

Lemma use_ok_qual seen all imps n q x e j :
  q <> "" -> In (q, j) imps -> In (n, x) (exports (fuel_of s) s t flt j) ->
  use_ok s t flt seen all imps (mkUse n q x e) = true.
Proof.
  intros Hq Hi Hx. unfold use_ok. cbn [u_qual u_eager u_ns u_name].
  destruct (String.eqb q "") eqn:E; [apply String.eqb_eq in E; contradiction|].
  apply existsb_exists. exists (q, j). split; [exact Hi|]. cbn [fst snd].
  rewrite String.eqb_refl. apply mem_key_in. exact Hx.
Qed.

End Dbu.

(* ---------- what an include / import makes visible ---------- *)

Lemma exports_direct s t flt j k d :
  In (IDecl d) (render_items s j (header_of t) flt) -> In (dkey d) (exports (S k) s t flt j).
Proof.
  intros H. cbn [exports]. apply in_flat_map. exists (IDecl d). split; [exact H | left; reflexivity].
Qed.

Lemma exports_include s t flt j k m tg j' x :
  lang_of t = LC -> In (IImport m tg j') (render_items s j (header_of t) flt) ->
  In x (exports k s t flt j') -> In x (exports (S k) s t flt j).
Proof.
  intros HL H Hx. cbn [exports]. apply in_flat_map. exists (IImport m tg j'). split; [exact H|]. rewrite HL. exact Hx.
Qed.

(* ---------- well-formed references ---------- *)

Lemma refs_wf_split s i fl : forall seen fl1 fd fl2,
  refs_wf s i seen fl = true -> fl = fl1 ++ fd :: fl2 ->
  forallb (ref_wf s i (seen ++ fl1)) (def_refs (fd_def fd)) = true.
Proof.
  induction fl as [|x r IH]; intros seen fl1 fd fl2 H E.
  - destruct fl1; discriminate.
  - cbn [refs_wf] in H. apply andb_true_iff in H. destruct H as [H1 H2]. destruct fl1 as [|y fl1].
    + cbn [app] in E. inversion E; subst. rewrite app_nil_r. exact H1.
    + cbn [app] in E. inversion E; subst.
      specialize (IH (seen ++ [y]) fl1 fd fl2 H2 eq_refl). rewrite <- app_assoc in IH. exact IH.
Qed.

Lemma wf_file s i : wf s = true -> i < length s -> file_wf s i = true.
Proof.
  intros H Hi. unfold wf in H. rewrite forallb_forall in H.
  assert (Hin : In i (seq 0 (length s))) by (apply in_seq; lia).
  specialize (H i Hin). apply andb_true_iff in H. destruct H as [H _]. apply andb_true_iff in H. destruct H as [H _]. exact H.
Qed.

Lemma wf_opts s i : wf s = true -> i < length s -> opts_wf s i = true.
Proof.
  intros H Hi. unfold wf in H. rewrite forallb_forall in H.
  assert (Hin : In i (seq 0 (length s))) by (apply in_seq; lia).
  specialize (H i Hin). apply andb_true_iff in H. destruct H as [_ H]. exact H.
Qed.

Lemma wf_fields s i : wf s = true -> i < length s -> fields_wf s i = true.
Proof.
  intros H Hi. unfold wf in H. rewrite forallb_forall in H.
  assert (Hin : In i (seq 0 (length s))) by (apply in_seq; lia).
  specialize (H i Hin). apply andb_true_iff in H. destruct H as [H _]. apply andb_true_iff in H. destruct H as [_ H]. exact H.
Qed.

(* the translated validator of c.struct_packing_alignment admits only 0 and powers of two, for
   EVERY integer: the alignment gcc is given in `aligned(n)` is always acceptable *)
Lemma align_valid_pow2 v : align_valid v = true -> align_ok v = true.
Proof.
  unfold align_valid. intros H.
  repeat (apply orb_true_iff in H; destruct H as [H | H]); apply Z.eqb_eq in H; subst v; reflexivity.
Qed.

Lemma align_of_wf s i : wf s = true -> i < length s -> g_align s i = true.
Proof. intros H Hi. unfold g_align. apply align_valid_pow2. exact (wf_opts s i H Hi). Qed.

Lemma strs_eqb_eq a : forall b, strs_eqb a b = true -> a = b.
Proof.
  induction a as [|x r IH]; intros [|y t] H; try discriminate; [reflexivity|].
  cbn [strs_eqb] in H. apply andb_true_iff in H. destruct H as [H1 H2].
  apply String.eqb_eq in H1. subst. f_equal. apply IH. exact H2.
Qed.

(* a reference either names an earlier definition of the same file, or a definition of a file
   reached through the import chain *)
Lemma ref_wf_cases s i seen r :
  ref_wf s i seen r = true ->
  (r_via r = [] /\ r_file r = i /\ exists fd, In fd seen /\ targets r fd = true) \/
  (r_via r <> [] /\ follow s i (r_via r) = Some (r_file r) /\ r_file r <> i /\
   exists fd, In fd (flat_file (getf s (r_file r))) /\ targets r fd = true).
Proof.
  unfold ref_wf. destruct (r_via r) as [|m via] eqn:Ev.
  - intros H. apply andb_true_iff in H. destruct H as [H1 H2]. apply Nat.eqb_eq in H1.
    apply existsb_exists in H2. left. repeat split; auto.
  - intros H. destruct (follow s i (m :: via)) as [j|] eqn:Ef; [|discriminate].
    apply andb_true_iff in H. destruct H as [H H3]. apply andb_true_iff in H. destruct H as [H1 H2].
    apply Nat.eqb_eq in H1. apply negb_true_iff, Nat.eqb_neq in H2. apply existsb_exists in H3.
    right. subst j. repeat split; auto. discriminate.
Qed.

Lemma follow_one s i m j : follow s i [m] = Some j -> In (m, j) (f_imports (getf s i)).
Proof.
  cbn [follow]. destruct (find _ (f_imports (getf s i))) as [[m' j']|] eqn:E; [|discriminate].
  intros H. cbn [snd follow] in H. inversion H; subst. apply find_some in E. destruct E as [E1 E2].
  cbn [fst] in E2. apply String.eqb_eq in E2. subst. exact E1.
Qed.

(* ---------- the block that holds the primary declaration of a referenced definition ---------- *)

Definition ns_of_rk (L : lang) (k : rk) : ns :=
  match L with
  | LC => match k with RkMsg => NsTag | _ => NsOrd end
  | _ => NsMod
  end.

Definition base_disp (t : target) : blk :=
  match t with
  | TgH | TgC | TgHO | TgCO => H_DataStructuresList
  | TgPy => P_BoundDefinitionList
  | TgGo => G_BoundDefinitionList
  end.

Lemma target_declares s flt t r fd :
  targets r fd = true ->
  In (ns_of_rk (lang_of t) (r_k r), ref_name s (lang_of t) r)
     (map dkey (dispatch_one s (r_file r) flt (base_disp t) fd)).
Proof.
  destruct fd as [pth d]. unfold targets, fdef_is. cbn [fd_path fd_def]. intros H.
  apply andb_true_iff in H. destruct H as [H Hk]. apply andb_true_iff in H. destruct H as [Hp Hn].
  apply strs_eqb_eq in Hp. apply String.eqb_eq in Hn. unfold ref_name, ref_px.
  destruct (r_k r) eqn:Ek, d as [n v | n ty | n w ms | n x nested fs]; try discriminate;
    cbn [def_name] in Hn; subst pth n;
    destruct t; cbn [lang_of base_disp ns_of_rk class_of_rk];
    unfold dispatch_one; cbn [fd_def dkind_of dispatch dispatch_filtered andb def_blocks expand blocks_of flat_map app];
    unfold own_px; cbn [leaf fd_path fd_def map dkey d_ns d_name mk mkm app]; auto 8 with datatypes.
Qed.

Lemma in_dispatcher s j flt b fd k :
  In fd (flat_file (getf s j)) -> In k (map dkey (dispatch_one s j flt b fd)) ->
  In k (map dkey (dispatcher s j flt b)).
Proof.
  intros Hfd Hk. unfold dispatcher. rewrite flat_map_concat_map, concat_map, map_map.
  apply in_concat. exists (map dkey (dispatch_one s j flt b fd)). split; [|exact Hk].
  apply in_map_iff. exists fd. split; [reflexivity | exact Hfd].
Qed.

(* ---------- generic facts about blocks ---------- *)

Lemma dbu_go_imports_only s t flt all its : forall seen imps,
  (forall it, In it its -> exists m tg j, it = IImport m tg j) -> dbu_go s t flt all seen imps its = true.
Proof.
  induction its as [|x r IH]; intros seen imps H; [reflexivity|].
  destruct (H x (or_introl eq_refl)) as [m [tg [j ->]]]. cbn [dbu_go].
  destruct (lang_of t); apply IH; intros it Hit; apply H; right; exact Hit.
Qed.

Lemma dbu_go_no_uses s t flt all ds : forall seen imps,
  (forall d, In d ds -> d_uses d = []) -> dbu_go s t flt all seen imps (map IDecl ds) = true.
Proof.
  induction ds as [|d r IH]; intros seen imps H; [reflexivity|].
  rewrite dbu_go_decls_cons. rewrite (H d (or_introl eq_refl)). cbn [forallb andb].
  apply IH. intros d' Hd'. apply H. right. exact Hd'.
Qed.

Lemma in_insert_fl x y l : In y (insert_fl x l) -> y = x \/ In y l.
Proof.
  induction l as [|h r IH]; cbn [insert_fl]; intros H.
  - destruct H as [H | []]; auto.
  - destruct (fl_num x <? fl_num h).
    + destruct H as [H | H]; auto.
    + destruct H as [H | H]; [right; left; exact H|]. destruct (IH H); auto. right. right. assumption.
Qed.

Lemma in_sort_fl y l : In y (sort_fl l) -> In y l.
Proof.
  induction l as [|h r IH]; cbn [sort_fl]; intros H; [exact H|].
  apply in_insert_fl in H. destruct H as [-> | H]; [left; reflexivity | right; apply IH; exact H].
Qed.

Lemma length_insert_fl x l : length (insert_fl x l) = S (length l).
Proof.
  induction l as [|h r IH]; [reflexivity|]. cbn [insert_fl]. destruct (fl_num x <? fl_num h); cbn [length]; [reflexivity|].
  rewrite IH. reflexivity.
Qed.
Lemma length_sort_fl l : length (sort_fl l) = length l.
Proof. induction l as [|h r IH]; [reflexivity|]. cbn [sort_fl]. rewrite length_insert_fl, IH. reflexivity. Qed.

(* uses that come from the references of a type *)
Lemma c_type_uses_ok s t flt seen all imps ty :
  (forall r, In r (ty_refs ty) -> In (ns_of_rk LC (r_k r), ref_name s LC r) seen) ->
  forallb (use_ok s t flt seen all imps) (c_type_uses s ty) = true.
Proof.
  induction ty as [b | r | e IH cap x]; intros H; [reflexivity | | apply IH; exact H].
  specialize (H r (or_introl eq_refl)). cbn [c_type_uses]. cbn [ns_of_rk] in H.
  destruct (r_k r); cbn [forallb andb]; unfold cuse; rewrite use_ok_eager; auto.
Qed.

Lemma forallb_use_app {A} (p : A -> bool) a b : forallb p a = true -> forallb p b = true -> forallb p (a ++ b) = true.
Proof. intros Ha Hb. rewrite forallb_app, Ha, Hb. reflexivity. Qed.

Lemma forallb_flat_map_intro {A B} (f : A -> list B) (p : B -> bool) l :
  (forall x, In x l -> forallb p (f x) = true) -> forallb p (flat_map f l) = true.
Proof. intros H. rewrite forallb_flat_map. apply forallb_forall. exact H. Qed.
