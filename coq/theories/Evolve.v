(* Evolve.v — model-level definitions for C05: the schema-evolution relation and the
   projection of a value of the evolved schema onto the old one (no proofs here, so the
   correspondence case files can use them even when a proof is broken). *)
From Coq Require Import ZArith List Bool.
From BP Require Import Bits Schema Eqb.
Import ListNotations.
Open Scope Z_scope.

(* ---------- schema evolution (on normalised trees) ---------- *)

Fixpoint evolvesb (t1 t2 : ty) {struct t1} : bool :=
  match t1, t2 with
  | TBool, TBool => true
  | TByte, TByte => true
  | TUint n, TUint m => n =? m
  | TInt n, TInt m => n =? m
  | TEnum n ms, TEnum m ms' => (n =? m) && zlist_eqb ms ms'
  | TAlias a, TAlias b => evolvesb a b
  | TArr x c e, TArr y d f =>
      Bool.eqb x y && evolvesb e f && (if x then (c <=? d)%nat else Nat.eqb c d)
  | TMsg x fs, TMsg y gs =>
      Bool.eqb x y &&
      (fix go (fs gs : list (Z * ty)) : bool :=
         match fs, gs with
         | [], [] => true
         | [], _ :: _ => x                     (* fields appended: only to an extensible message *)
         | _ :: _, [] => false
         | a :: r, b :: s => (fst a =? fst b) && evolvesb (snd a) (snd b) && go r s
         end) fs gs
  | _, _ => false
  end.

Definition evolves_fields (x : bool) :=
  fix go (fs gs : list (Z * ty)) : bool :=
    match fs, gs with
    | [], [] => true
    | [], _ :: _ => x
    | _ :: _, [] => false
    | a :: r, b :: s => (fst a =? fst b) && evolvesb (snd a) (snd b) && go r s
    end.

Lemma evolvesb_msg x fs y gs :
  evolvesb (TMsg x fs) (TMsg y gs) = Bool.eqb x y && evolves_fields x fs gs.
Proof. reflexivity. Qed.

(* value of the old schema extracted from a value of the evolved one *)
Fixpoint proj (t : ty) (v : val) : val :=
  match t with
  | TBool => VB (match v with VB b => b | _ => false end)
  | TByte => VZ (zof v)
  | TUint _ => VZ (zof v)
  | TInt _ => VZ (zof v)
  | TEnum _ _ => VZ (zof v)
  | TAlias t' => proj t' v
  | TArr _ cap e => VL (map (proj e) (firstn cap (vlist v)))
  | TMsg _ fs =>
      VM ((fix go (l : list (Z * ty)) : list (Z * val) :=
             match l with
             | [] => []
             | kf :: r => (fst kf, proj (snd kf) (vfield (fst kf) v)) :: go r
             end) fs)
  end.

Definition proj_fields (v : val) :=
  fix go (l : list (Z * ty)) : list (Z * val) :=
    match l with
    | [] => []
    | kf :: r => (fst kf, proj (snd kf) (vfield (fst kf) v)) :: go r
    end.

Lemma proj_msg x fs v : proj (TMsg x fs) v = VM (proj_fields v fs).
Proof. reflexivity. Qed.

