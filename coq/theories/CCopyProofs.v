(* CCopyProofs.v — BpCopyBufferBits (model CRt.copy_bits) copies exactly n bits.

   Byte-local facts about the TRANSLATED expressions (BPGen.GenC, regenerated from
   lib/c/bitproto.c on every run) are proved by exhaustive sweeps of their finite domains;
   the unbounded statement is an induction on the loop fuel in the bit-vector view
   (a byte list is one little-endian number). *)
From Coq Require Import ZArith List Bool Lia ZifyBool.
From BP Require Import Bits CMem CMemProofs CRt ByteStep PyEncStep.
From BPGen Require Import GenC.
Import ListNotations.
Open Scope Z_scope.
Ltac Zify.zify_post_hook ::= Z.div_mod_to_equations.

(* ---------- arithmetic ---------- *)

Lemma pow2_split a b : 0 <= a -> 0 <= b -> 2 ^ (a + b) = 2 ^ a * 2 ^ b.
Proof. intros. apply Z.pow_add_r; lia. Qed.

Lemma mod_split X c n : 0 <= c -> 0 <= n ->
  X mod 2 ^ (c + n) = X mod 2 ^ c + 2 ^ c * ((X / 2 ^ c) mod 2 ^ n).
Proof.
  intros. rewrite pow2_split by lia. apply Z.rem_mul_r; apply Z.pow_nonzero || apply pow2_pos; lia.
Qed.

Lemma mod_div_pow2 Y a b : 0 <= b <= a -> (Y mod 2 ^ a) / 2 ^ b = (Y / 2 ^ b) mod 2 ^ (a - b).
Proof.
  intros H. replace a with (b + (a - b)) at 1 by lia. rewrite mod_split by lia.
  pose proof (pow2_pos b ltac:(lia)) as Pb.
  pose proof (Z.mod_pos_bound Y (2 ^ b) Pb) as R.
  rewrite Z.mul_comm, Z.div_add by lia. rewrite Z.div_small by lia. lia.
Qed.

Lemma mod_mod_pow2 Y a c : 0 <= c <= a -> (Y mod 2 ^ a) mod 2 ^ c = Y mod 2 ^ c.
Proof.
  intros H. replace a with (c + (a - c)) by lia. rewrite mod_split by lia.
  pose proof (pow2_pos c ltac:(lia)) as Pc.
  rewrite Z.mul_comm, Z.mod_add by lia. apply Z.mod_mod. lia.
Qed.

Lemma div_div_pow2 Y a b : 0 <= a -> 0 <= b -> Y / 2 ^ a / 2 ^ b = Y / 2 ^ (a + b).
Proof.
  intros. pose proof (pow2_pos a ltac:(lia)). pose proof (pow2_pos b ltac:(lia)).
  rewrite Z.div_div by lia. now rewrite pow2_split by lia.
Qed.

Lemma lt_scale x a b : 0 <= x < b -> 1 <= a -> x < a * b.
Proof. nia. Qed.
Lemma sum_lt a m p c : 0 <= a < p -> 0 <= m < c -> 0 <= a + p * m < p * c.
Proof. nia. Qed.
Lemma old_m_lt old m d c : 0 <= old < d -> 0 <= m < c -> c * d <= 256 -> 0 <= old + m * d < 256.
Proof. nia. Qed.

(* bits [si, si+c) of source byte sp, read from the whole number *)
Lemma buf_byte_slice sm sp si c :
  bytes_ok sm -> 0 <= sp -> 0 <= si -> 0 <= c -> si + c <= 8 ->
  (bufZ sm / 2 ^ (8 * sp + si)) mod 2 ^ c = (nth (Z.to_nat sp) sm 0 / 2 ^ si) mod 2 ^ c.
Proof.
  intros Hok Hsp Hsi Hc Hle.
  rewrite (bufZ_nth sm (Z.to_nat sp) Hok), Z2Nat.id, pow256_2 by lia.
  change 256 with (2 ^ 8). rewrite mod_div_pow2 by lia.
  rewrite mod_mod_pow2 by lia. rewrite div_div_pow2 by lia. reflexivity.
Qed.

Lemma testbit_add_shift a p y k :
  0 <= a < 2 ^ p -> 0 <= p -> 0 <= k ->
  Z.testbit (a + 2 ^ p * y) k = if k <? p then Z.testbit a k else Z.testbit y (k - p).
Proof.
  intros Ha Hp Hk. pose proof (pow2_pos p Hp) as Pp.
  destruct (k <? p) eqn:E.
  - apply Z.ltb_lt in E.
    rewrite <- (Z.mod_pow2_bits_low (a + 2 ^ p * y) p k) by lia.
    rewrite Z.mul_comm, Z.mod_add by lia. rewrite Z.mod_small by lia. reflexivity.
  - apply Z.ltb_ge in E.
    replace k with ((k - p) + p) at 1 by lia. rewrite <- Z.div_pow2_bits by lia.
    rewrite Z.mul_comm, Z.div_add by lia. rewrite Z.div_small by lia. reflexivity.
Qed.

(* ---------- sweeps over the translated expressions (finite domains, stated) ---------- *)

(* cp_v8 b si = b >> si  for every byte b, si in 0..7;  cp_c8/16/32 si = 8/16/32 - si *)
Definition sweep_v8 : bool :=
  forallb (fun b => forallb (fun si => (cp_v8 b si =? b / 2 ^ si)) (zrange 8)) (zrange 256) &&
  forallb (fun si => (cp_c8 si =? 8 - si) && (cp_c16 si =? 16 - si) && (cp_c32 si =? 32 - si)) (zrange 8) &&
  forallb (fun di => Bool.eqb (cp_aligned di) (di =? 0)) (zrange 8) &&
  forallb (fun ch => Bool.eqb (cp_nonzero ch) (negb (ch =? 0))) (zrange 256) &&
  (cp_w32 =? 4) && (cp_w16 =? 2).
Lemma sweep_v8_ok : sweep_v8 = true.
Proof. vm_compute. reflexivity. Qed.

(* partial aligned branch: 256 x 8 x 9 *)
Definition sweep_part : bool :=
  forallb (fun b => forallb (fun si => forallb (fun c =>
    implb (c <=? 8 - si) (cp_v_part 0 b si c =? (b / 2 ^ si) mod 2 ^ c))
    (zrange 9)) (zrange 8)) (zrange 256) &&
  forallb (fun si => forallb (fun n =>
    implb ((1 <=? n) && (n + si <? 8)) (cp_c_part si n =? n)) (zrange 8)) (zrange 8).
Lemma sweep_part_ok : sweep_part = true.
Proof. vm_compute. reflexivity. Qed.

(* unaligned branch: di in 1..7, old < 2^di, ch < 256, si < 8, 1 <= c <= min(8-di, 8-si) *)
Lemma sweep_un_ok :
  forallb (fun di => forallb (fun old => forallb (fun ch => forallb (fun si => forallb (fun c =>
    implb ((1 <=? di) && (1 <=? c) && (c <=? 8 - di) && (c <=? 8 - si))
          (cp_v_un old ch si di c =? old + ((ch / 2 ^ si) mod 2 ^ c) * 2 ^ di))
    (zrange 8)) (zrange 8)) (zrange 256)) (zrange (2 ^ di))) (zrange 8) = true.
Proof. vm_compute. reflexivity. Qed.

Ltac use_sweep H :=
  repeat (rewrite ?andb_true_iff in H; match type of H with _ /\ _ => destruct H as [H ?] end).

Lemma v8_facts :
  (forall b si, 0 <= b < 256 -> 0 <= si < 8 -> cp_v8 b si = b / 2 ^ si) /\
  (forall si, 0 <= si < 8 -> cp_c8 si = 8 - si /\ cp_c16 si = 16 - si /\ cp_c32 si = 32 - si) /\
  (forall di, 0 <= di < 8 -> cp_aligned di = (di =? 0)) /\
  (forall ch, 0 <= ch < 256 -> cp_nonzero ch = negb (ch =? 0)) /\
  cp_w32 = 4 /\ cp_w16 = 2.
Proof.
  pose proof sweep_v8_ok as H. unfold sweep_v8 in H.
  rewrite !andb_true_iff in H. destruct H as (((((H1 & H2) & H3) & H4) & H5) & H6).
  split; [|split; [|split; [|split; [|split]]]].
  - intros b si Hb Hs. rewrite forallb_forall in H1. specialize (H1 b (in_zrange _ _ Hb)).
    rewrite forallb_forall in H1. specialize (H1 si (in_zrange _ _ Hs)). now apply Z.eqb_eq.
  - intros si Hs. rewrite forallb_forall in H2. specialize (H2 si (in_zrange _ _ Hs)).
    rewrite !andb_true_iff in H2. destruct H2 as ((A1 & A2) & A3).
    repeat split; now apply Z.eqb_eq.
  - intros di Hd. rewrite forallb_forall in H3. specialize (H3 di (in_zrange _ _ Hd)). now apply eqb_prop.
  - intros ch Hc. rewrite forallb_forall in H4. specialize (H4 ch (in_zrange _ _ Hc)). now apply eqb_prop.
  - now apply Z.eqb_eq.
  - now apply Z.eqb_eq.
Qed.

Lemma part_facts :
  (forall b si c, 0 <= b < 256 -> 0 <= si < 8 -> 0 <= c -> c <= 8 - si ->
     cp_v_part 0 b si c = (b / 2 ^ si) mod 2 ^ c) /\
  (forall si n, 0 <= si < 8 -> 1 <= n -> n + si < 8 -> cp_c_part si n = n).
Proof.
  pose proof sweep_part_ok as H. unfold sweep_part in H. rewrite andb_true_iff in H. destruct H as [H1 H2].
  split.
  - intros b si c Hb Hs Hc Hle. rewrite forallb_forall in H1. specialize (H1 b (in_zrange _ _ Hb)).
    rewrite forallb_forall in H1. specialize (H1 si (in_zrange _ _ Hs)).
    rewrite forallb_forall in H1. specialize (H1 c (in_zrange 9 c ltac:(lia))).
    replace (c <=? 8 - si) with true in H1 by (symmetry; apply Z.leb_le; lia).
    now apply Z.eqb_eq.
  - intros si n Hs Hn Hlt. rewrite forallb_forall in H2. specialize (H2 si (in_zrange _ _ Hs)).
    rewrite forallb_forall in H2. specialize (H2 n (in_zrange 8 n ltac:(lia))).
    replace ((1 <=? n) && (n + si <? 8)) with true in H2.
    2:{ symmetry. apply andb_true_iff. split; [apply Z.leb_le|apply Z.ltb_lt]; lia. }
    now apply Z.eqb_eq.
Qed.

Lemma un_fact old ch si di c :
  1 <= di < 8 -> 0 <= old < 2 ^ di -> 0 <= ch < 256 -> 0 <= si < 8 -> 1 <= c -> c <= 8 - di -> c <= 8 - si ->
  cp_v_un old ch si di c = old + ((ch / 2 ^ si) mod 2 ^ c) * 2 ^ di.
Proof.
  intros Hd Ho Hc Hs Hc1 Hc2 Hc3.
  pose proof sweep_un_ok as H.
  rewrite forallb_forall in H. specialize (H di (in_zrange 8 di ltac:(lia))).
  rewrite forallb_forall in H. specialize (H old (in_zrange _ _ Ho)).
  rewrite forallb_forall in H. specialize (H ch (in_zrange _ _ Hc)).
  rewrite forallb_forall in H. specialize (H si (in_zrange _ _ Hs)).
  rewrite forallb_forall in H. specialize (H c (in_zrange 8 c ltac:(lia))).
  replace ((1 <=? di) && (1 <=? c) && (c <=? 8 - di) && (c <=? 8 - si)) with true in H.
  2:{ symmetry. rewrite !andb_true_iff. repeat split; apply Z.leb_le; lia. }
  now apply Z.eqb_eq.
Qed.

(* unbounded arguments: by unfolding the translated definitions *)
Lemma bump_facts di : 0 <= di ->
  cp_dst_bump di = di / 8 /\ cp_src_bump di = di / 8 /\ cp_di_low di = di mod 8 /\ cp_si_low di = di mod 8.
Proof.
  intros H. unfold cp_dst_bump, cp_src_bump, cp_di_low, cp_si_low.
  rewrite Z.shiftr_div_pow2 by lia. change 7 with (Z.ones 3). rewrite Z.land_ones by lia.
  change (2 ^ 3) with 8. auto.
Qed.

(* only what the proof needs (so that a behaviour-preserving change of a threshold, e.g.
   `bits > 32`, which merely sends bits = 32 down the 16-bit path, still verifies) *)
Lemma thr_facts bits :
  (cp_thr32 bits = true -> 32 <= bits) /\ (cp_thr16 bits = true -> 16 <= bits) /\
  (cp_thr8 bits = true -> 8 <= bits) /\ (cp_thr8 bits = false -> bits < 8).
Proof. unfold cp_thr32, cp_thr16, cp_thr8. lia. Qed.

Lemma bits_fact n si : cp_bits n si = n + si.
Proof. reflexivity. Qed.

Lemma c_un_fact di si n :
  cp_c_un di si n = Z.min (8 - di) (Z.min (8 - si) n).
Proof.
  unfold cp_c_un, BpMinTriple.
  destruct (8 - di <? 8 - si) eqn:E1; destruct (8 - di <? n) eqn:E2; destruct (8 - si <? n) eqn:E3; lia.
Qed.

Lemma v32_fact w si : 0 <= w < 2 ^ 32 -> 0 <= si -> cp_v32 w si = w / 2 ^ si.
Proof.
  intros Hw Hs. unfold cp_v32. rewrite Z.shiftr_div_pow2 by lia.
  apply Z.mod_small. pose proof (pow2_pos si Hs).
  split; [apply Z.div_pos; lia|]. apply Z.div_lt_upper_bound; [lia|].
  apply lt_scale; lia.
Qed.

Lemma v16_fact w si : 0 <= w < 2 ^ 16 -> 0 <= si -> cp_v16 w si = w / 2 ^ si.
Proof.
  intros Hw Hs. unfold cp_v16. rewrite Z.shiftr_div_pow2 by lia.
  apply Z.mod_small. pose proof (pow2_pos si Hs).
  split; [apply Z.div_pos; lia|]. apply Z.div_lt_upper_bound; [lia|].
  apply lt_scale; lia.
Qed.

(* ---------- one iteration ---------- *)

Section Step.
  Variables (B E : endian).
  Hypothesis HBE : fast_paths B = true -> E = LE.

  (* a word-sized step, w bytes = 8w bits *)
  Lemma word_step (w : nat) dm dp sm sp si (vfun : Z -> Z -> Z) :
    bytes_ok dm -> bytes_ok sm -> 0 <= dp -> 0 <= sp -> 0 <= si < 8 -> (1 <= w)%nat ->
    0 <= bufZ dm < 2 ^ (8 * dp) ->
    dp + Z.of_nat w <= Z.of_nat (length dm) -> sp + Z.of_nat w <= Z.of_nat (length sm) ->
    (forall x, 0 <= x < 2 ^ (8 * Z.of_nat w) -> vfun x si = x / 2 ^ si) ->
    exists dm',
      (x <-- ld LE w sm sp ;; dm' <-- st LE w dm dp (vfun x si) ;; COk (dm', 8 * Z.of_nat w - si))
        = COk (dm', 8 * Z.of_nat w - si) /\
      length dm' = length dm /\ bytes_ok dm' /\
      bufZ dm' = bufZ dm + 2 ^ (8 * dp) * ((bufZ sm / 2 ^ (8 * sp + si)) mod 2 ^ (8 * Z.of_nat w - si)).
  Proof.
    intros Hdm Hsm Hdp Hsp Hsi Hw Hz Hld Hls Hv.
    cbn [ld st].
    rewrite (ld_le_number w sm sp Hsm Hsp Hls). cbn [cbind].
    set (x := (bufZ sm / 256 ^ sp) mod 256 ^ Z.of_nat w).
    assert (Hx : 0 <= x < 2 ^ (8 * Z.of_nat w)).
    { unfold x. rewrite <- pow256_2 by lia. apply Z.mod_pos_bound. apply pow256_pos. lia. }
    rewrite (Hv x Hx).
    destruct (st_le_number w dm dp (x / 2 ^ si) Hdm Hdp Hld) as (dm' & Es & Ls & Os & Bs).
    exists dm'. rewrite Es. cbn [cbind]. repeat split; try assumption.
    rewrite Bs.
    pose proof (pow2_pos si ltac:(lia)) as Psi.
    assert (Hxs : 0 <= x / 2 ^ si < 256 ^ Z.of_nat w).
    { rewrite pow256_2 by lia. split; [apply Z.div_pos; lia|].
      apply Z.div_lt_upper_bound; [lia|]. apply lt_scale; lia. }
    rewrite (Z.mod_small (x / 2 ^ si)) by exact Hxs.
    replace ((bufZ dm / 256 ^ dp) mod 256 ^ Z.of_nat w) with 0.
    2:{ rewrite Z.div_small; [now rewrite Z.mod_0_l by (apply Z.pow_nonzero; lia)|].
        rewrite pow256_2 by lia. exact Hz. }
    unfold x. rewrite !pow256_2 by (clear - Hdp Hsp Hw; lia).
    rewrite mod_div_pow2 by (clear - Hsi Hw; lia). rewrite div_div_pow2 by (clear - Hsi Hsp; lia). ring.
  Qed.

  Lemma copy_step_spec n dm dp sm sp di si :
    bytes_ok dm -> bytes_ok sm -> 0 <= dp -> 0 <= sp -> 0 <= di < 8 -> 0 <= si < 8 -> 1 <= n ->
    0 <= bufZ dm < 2 ^ (8 * dp + di) ->
    8 * dp + di + n <= 8 * Z.of_nat (length dm) -> 8 * sp + si + n <= 8 * Z.of_nat (length sm) ->
    exists dm' c,
      copy_step B E n dm dp sm sp di si = COk (dm', c) /\ 1 <= c <= n /\
      length dm' = length dm /\ bytes_ok dm' /\
      bufZ dm' = bufZ dm + 2 ^ (8 * dp + di) * ((bufZ sm / 2 ^ (8 * sp + si)) mod 2 ^ c).
  Proof.
    intros Hdm Hsm Hdp Hsp Hdi Hsi Hn Hz Hld Hls.
    destruct v8_facts as (Fv8 & Fc & Fal & Fnz & Fw32 & Fw16).
    destruct part_facts as (Fvp & Fcp).
    destruct (thr_facts (n + si)) as (T32 & T16 & T8 & T8f).
    destruct (Fc si Hsi) as (C8 & C16 & C32).
    unfold copy_step. rewrite (Fal di Hdi), bits_fact.
    assert (Hsl : 0 <= sp < Z.of_nat (length sm)) by lia.
    assert (Hdl : 0 <= dp < Z.of_nat (length dm)) by lia.
    pose proof (nth_bytes_ok sm (Z.to_nat sp) Hsm) as Hb. unfold is_byte in Hb.
    set (b := nth (Z.to_nat sp) sm 0) in *.
    (* the destination byte under the cursor holds nothing at or above bit di *)
    pose proof (cursor_byte_small dm (8 * dp + di) Hdm ltac:(lia) Hz) as Hold.
    replace ((8 * dp + di) / 8) with dp in Hold by lia.
    replace ((8 * dp + di) mod 8) with di in Hold by lia.
    set (old := nth (Z.to_nat dp) dm 0) in *.
    destruct (di =? 0) eqn:Edi.
    - apply Z.eqb_eq in Edi. subst di. rewrite Z.add_0_r in *. change (2 ^ 0) with 1 in Hold.
      assert (Hold0 : old = 0) by lia.
      destruct (fast_paths B && cp_thr32 (n + si)) eqn:F32.
      { apply andb_true_iff in F32. destruct F32 as [Ff F32]. rewrite (HBE Ff). apply T32 in F32.
        rewrite Fw32, C32. change (Z.to_nat 4) with 4%nat.
        destruct (word_step 4 dm dp sm sp si cp_v32 Hdm Hsm Hdp Hsp Hsi ltac:(lia) Hz ltac:(lia) ltac:(lia))
          as (dm' & Ew & Lw & Ow & Bw).
        { intros x Hx. apply v32_fact; [exact Hx|lia]. }
        exists dm', (32 - si). change (8 * Z.of_nat 4) with 32 in *. rewrite Ew.
        repeat split; try assumption; lia. }
      destruct (fast_paths B && cp_thr16 (n + si)) eqn:F16.
      { apply andb_true_iff in F16. destruct F16 as [Ff F16]. rewrite (HBE Ff). apply T16 in F16.
        rewrite Fw16, C16. change (Z.to_nat 2) with 2%nat.
        destruct (word_step 2 dm dp sm sp si cp_v16 Hdm Hsm Hdp Hsp Hsi ltac:(lia) Hz ltac:(lia) ltac:(lia))
          as (dm' & Ew & Lw & Ow & Bw).
        { intros x Hx. apply v16_fact; [exact Hx|lia]. }
        exists dm', (16 - si). change (8 * Z.of_nat 2) with 16 in *. rewrite Ew.
        repeat split; try assumption; lia. }
      destruct (cp_thr8 (n + si)) eqn:F8.
      { pose proof (T8 eq_refl) as F8'. rewrite (rd_ok sm sp Hsl). cbn [cbind]. fold b.
        rewrite (Fv8 b si Hb Hsi), C8.
        destruct (wr_number dm dp (b / 2 ^ si) Hdm Hdl) as (dm' & Ew & Lw & Ow & Bw).
        rewrite Ew. cbn [cbind]. exists dm', (8 - si). split; [reflexivity|]. split; [clear - Hsi Hn F8'; lia|]. split; [assumption|]. split; [assumption|].
        rewrite Bw. fold old. rewrite Hold0.
        pose proof (pow2_pos si ltac:(lia)) as Psi.
        assert (Hbs : 0 <= b / 2 ^ si < 2 ^ (8 - si)).
        { split; [apply Z.div_pos; lia|]. apply Z.div_lt_upper_bound; [lia|].
          rewrite <- pow2_split by lia. replace (si + (8 - si)) with 8 by lia. change (2 ^ 8) with 256. apply Hb. }
        assert (H256 : 2 ^ (8 - si) <= 256).
        { change 256 with (2 ^ 8). apply Z.pow_le_mono_r; lia. }
        rewrite (Z.mod_small (b / 2 ^ si) 256) by lia.
        rewrite (buf_byte_slice sm sp si (8 - si) Hsm Hsp) by lia. fold b.
        rewrite (Z.mod_small (b / 2 ^ si)) by lia. rewrite pow256_2 by lia. ring. }
      (* partial bits inside one byte *)
      assert (F8' : n + si < 8).
      { apply T8f. reflexivity. }
      rewrite (Fcp si n Hsi Hn F8').
      rewrite (rd_ok sm sp Hsl). cbn [cbind]. fold b.
      rewrite (rd_ok dm dp Hdl). cbn [cbind]. fold old. rewrite Hold0.
      rewrite (Fvp b si n Hb Hsi ltac:(lia) ltac:(lia)).
      destruct (wr_number dm dp ((b / 2 ^ si) mod 2 ^ n) Hdm Hdl) as (dm' & Ew & Lw & Ow & Bw).
      rewrite Ew. cbn [cbind]. exists dm', n. split; [reflexivity|]. split; [clear - Hn; lia|]. split; [assumption|]. split; [assumption|].
      rewrite Bw. fold old. rewrite Hold0.
      pose proof (pow2_pos n ltac:(lia)) as Pn.
      assert (Hm : 0 <= (b / 2 ^ si) mod 2 ^ n < 2 ^ n) by (apply Z.mod_pos_bound; lia).
      assert (H256 : 2 ^ n <= 256).
      { change 256 with (2 ^ 8). apply Z.pow_le_mono_r; lia. }
      rewrite (Z.mod_small ((b / 2 ^ si) mod 2 ^ n) 256) by lia.
      rewrite (buf_byte_slice sm sp si n Hsm Hsp) by lia. fold b. rewrite pow256_2 by lia. ring.
    - (* unaligned destination *)
      apply Z.eqb_neq in Edi.
      rewrite c_un_fact.
      remember (Z.min (8 - di) (Z.min (8 - si) n)) as c eqn:Ec.
      assert (Hc : 1 <= c /\ c <= n /\ c <= 8 - di /\ c <= 8 - si) by (clear - Ec Hdi Hsi Hn Edi; lia).
      clear Ec.
      rewrite (rd_ok sm sp Hsl). cbn [cbind]. fold b.
      rewrite (Fnz b Hb).
      pose proof (pow2_pos c ltac:(clear - Hc; lia)) as Pc.
      pose proof (pow2_pos di ltac:(clear - Hdi; lia)) as Pd.
      pose proof (pow2_pos si ltac:(clear - Hsi; lia)) as Psi.
      assert (Hslice : (bufZ sm / 2 ^ (8 * sp + si)) mod 2 ^ c = (b / 2 ^ si) mod 2 ^ c).
      { rewrite (buf_byte_slice sm sp si c Hsm Hsp) by (clear - Hsi Hc; lia). reflexivity. }
      remember ((b / 2 ^ si) mod 2 ^ c) as m eqn:Em.
      assert (Hm : 0 <= m < 2 ^ c) by (rewrite Em; apply Z.mod_pos_bound; exact Pc).
      destruct (b =? 0) eqn:Eb; cbn [negb].
      + apply Z.eqb_eq in Eb. exists dm, c. split; [reflexivity|]. split; [clear - Hc; lia|].
        split; [reflexivity|]. split; [assumption|].
        rewrite Hslice. rewrite Em, Eb. rewrite Z.div_0_l by (clear - Psi; lia).
        rewrite Z.mod_0_l by (clear - Pc; lia). ring.
      + rewrite (rd_ok dm dp Hdl). cbn [cbind]. fold old.
        rewrite (un_fact old b si di c) by (clear - Hdi Edi Hold Hb Hsi Hc; lia). rewrite <- Em.
        destruct (wr_number dm dp (old + m * 2 ^ di) Hdm Hdl) as (dm' & Ew & Lw & Ow & Bw).
        rewrite Ew. cbn [cbind]. exists dm', c. split; [reflexivity|]. split; [clear - Hc; lia|].
        split; [assumption|]. split; [assumption|].
        rewrite Bw. fold old. rewrite Hslice.
        assert (Hlt : 0 <= old + m * 2 ^ di < 256).
        { apply (old_m_lt old m (2 ^ di) (2 ^ c)); [exact Hold|exact Hm|].
          rewrite <- pow2_split by (clear - Hc Hdi; lia). change 256 with (2 ^ 8).
          apply Z.pow_le_mono_r; clear - Hc Hdi; lia. }
        rewrite (Z.mod_small (old + m * 2 ^ di) 256) by exact Hlt.
        rewrite pow256_2 by (clear - Hdp; lia). rewrite (pow2_split (8 * dp) di) by (clear - Hdp Hdi; lia). ring.
  Qed.

  (* ---------- the loop ---------- *)

  Lemma copy_bits_spec :
    forall fuel n dm dp sm sp di si,
      (Z.to_nat n <= fuel)%nat -> 0 <= n -> bytes_ok dm -> bytes_ok sm ->
      0 <= dp -> 0 <= sp -> 0 <= di -> 0 <= si ->
      0 <= bufZ dm < 2 ^ (8 * dp + di) ->
      8 * dp + di + n <= 8 * Z.of_nat (length dm) -> 8 * sp + si + n <= 8 * Z.of_nat (length sm) ->
      exists dm',
        copy_bits B E fuel n dm dp sm sp di si = COk dm' /\ length dm' = length dm /\ bytes_ok dm' /\
        bufZ dm' = bufZ dm + 2 ^ (8 * dp + di) * ((bufZ sm / 2 ^ (8 * sp + si)) mod 2 ^ n).
  Proof.
    induction fuel as [|f IH]; intros n dm dp sm sp di si Hf Hn Hdm Hsm Hdp Hsp Hdi Hsi Hz Hld Hls.
    - assert (n = 0) by lia. subst n. cbn [copy_bits Z.eqb]. exists dm. repeat split; try assumption.
      change (2 ^ 0) with 1. rewrite Z.mod_1_r. lia.
    - cbn [copy_bits]. destruct (n =? 0) eqn:En.
      { apply Z.eqb_eq in En. subst n. exists dm. repeat split; try assumption.
        change (2 ^ 0) with 1. rewrite Z.mod_1_r. lia. }
      apply Z.eqb_neq in En.
      destruct (bump_facts di Hdi) as (Bd & _ & Ld & _).
      destruct (bump_facts si Hsi) as (_ & Bs & _ & Ls).
      rewrite Bd, Bs, Ld, Ls.
      remember (dp + di / 8) as dp' eqn:Edp. remember (sp + si / 8) as sp' eqn:Esp.
      remember (di mod 8) as di' eqn:Edi'. remember (si mod 8) as si' eqn:Esi'.
      assert (Ed : 8 * dp' + di' = 8 * dp + di) by (clear - Edp Edi' Hdi; lia).
      assert (Es : 8 * sp' + si' = 8 * sp + si) by (clear - Esp Esi' Hsi; lia).
      assert (Hdp' : 0 <= dp') by (clear - Edp Hdp Hdi; lia).
      assert (Hsp' : 0 <= sp') by (clear - Esp Hsp Hsi; lia).
      assert (Hdi' : 0 <= di' < 8) by (clear - Edi'; lia).
      assert (Hsi' : 0 <= si' < 8) by (clear - Esi'; lia).
      assert (Hn1 : 1 <= n) by (clear - Hn En; lia).
      assert (Hz' : 0 <= bufZ dm < 2 ^ (8 * dp' + di')) by (rewrite Ed; exact Hz).
      assert (Hld' : 8 * dp' + di' + n <= 8 * Z.of_nat (length dm)) by (rewrite Ed; exact Hld).
      assert (Hls' : 8 * sp' + si' + n <= 8 * Z.of_nat (length sm)) by (rewrite Es; exact Hls).
      destruct (copy_step_spec n dm dp' sm sp' di' si' Hdm Hsm Hdp' Hsp' Hdi' Hsi' Hn1 Hz' Hld' Hls')
        as (dm1 & c & E1 & Hc & L1 & O1 & B1).
      rewrite E1. cbn [cbind fst snd].
      pose proof (pow2_pos (8 * dp + di) ltac:(clear - Hdp Hdi; lia)) as P1.
      pose proof (pow2_pos c ltac:(clear - Hc; lia)) as P2.
      pose proof (Z.mod_pos_bound (bufZ sm / 2 ^ (8 * sp + si)) (2 ^ c) P2) as Hmm.
      assert (Hz1 : 0 <= bufZ dm1 < 2 ^ (8 * dp' + (di' + c))).
      { rewrite B1, Ed, Es.
        replace (8 * dp' + (di' + c)) with ((8 * dp + di) + c) by (clear - Ed; lia).
        rewrite (pow2_split (8 * dp + di) c) by (clear - Hdp Hdi Hc; lia).
        apply sum_lt; [exact Hz|exact Hmm]. }
      destruct (IH (n - c) dm1 dp' sm sp' (di' + c) (si' + c)) as (dm2 & E2 & L2 & O2 & B2);
        try assumption.
      { clear - Hf Hc. lia. }
      { clear - Hc. lia. }
      { clear - Hdi' Hc. lia. }
      { clear - Hsi' Hc. lia. }
      { rewrite L1. clear - Hld' Hc. lia. }
      { clear - Hls' Hc. lia. }
      exists dm2. rewrite E2. split; [reflexivity|]. split; [congruence|]. split; [assumption|].
      rewrite B2, B1, Ed, Es.
      replace (8 * dp' + (di' + c)) with ((8 * dp + di) + c) by (clear - Ed; lia).
      replace (8 * sp' + (si' + c)) with ((8 * sp + si) + c) by (clear - Es; lia).
      assert (Hsplit : (bufZ sm / 2 ^ (8 * sp + si)) mod 2 ^ n =
                       (bufZ sm / 2 ^ (8 * sp + si)) mod 2 ^ c +
                       2 ^ c * ((bufZ sm / 2 ^ (8 * sp + si) / 2 ^ c) mod 2 ^ (n - c))).
      { rewrite <- mod_split by (clear - Hc; lia). f_equal. f_equal. clear. lia. }
      rewrite Hsplit.
      rewrite (div_div_pow2 _ (8 * sp + si) c) by (clear - Hc Hsp Hsi; lia).
      rewrite (pow2_split (8 * dp + di) c) by (clear - Hc Hdp Hdi; lia). ring.
  Qed.
End Step.

(* ---------- bit-level reading of the result: C03_copy_bits ---------- *)

Definition cfg_ok (B E : endian) : Prop := fast_paths B = true -> E = LE.

Theorem copy_bits_bits B E n dm dp sm sp di si :
  cfg_ok B E ->
  0 <= n -> bytes_ok dm -> bytes_ok sm -> 0 <= dp -> 0 <= sp -> 0 <= di -> 0 <= si ->
  0 <= bufZ dm < 2 ^ (8 * dp + di) ->                              (* destination bits at/after the cursor are zero *)
  8 * dp + di + n <= 8 * Z.of_nat (length dm) ->                   (* exact-size buffers suffice *)
  8 * sp + si + n <= 8 * Z.of_nat (length sm) ->
  exists dm',
    copy_bits B E (copy_fuel n) n dm dp sm sp di si = COk dm' /\    (* terminates with fuel n, no access out of bounds *)
    length dm' = length dm /\ bytes_ok dm' /\
    forall k, 0 <= k ->
      Z.testbit (bufZ dm') k =
      if (8 * dp + di <=? k) && (k <? 8 * dp + di + n)
      then Z.testbit (bufZ sm) (8 * sp + si + (k - (8 * dp + di)))
      else Z.testbit (bufZ dm) k.
Proof.
  intros Hcfg Hn Hdm Hsm Hdp Hsp Hdi Hsi Hz Hld Hls.
  destruct (copy_bits_spec B E Hcfg (copy_fuel n) n dm dp sm sp di si) as (dm' & E1 & L1 & O1 & B1);
    try assumption; try (unfold copy_fuel; lia).
  exists dm'. repeat split; try assumption.
  intros k Hk. rewrite B1.
  set (P := 8 * dp + di) in *. set (Q := 8 * sp + si) in *.
  rewrite testbit_add_shift by lia.
  destruct (k <? P) eqn:E2.
  - apply Z.ltb_lt in E2. replace (P <=? k) with false by (symmetry; apply Z.leb_gt; lia). reflexivity.
  - apply Z.ltb_ge in E2. replace (P <=? k) with true by (symmetry; apply Z.leb_le; lia). cbn [andb].
    destruct (k <? P + n) eqn:E3.
    + apply Z.ltb_lt in E3. rewrite Z.mod_pow2_bits_low by lia.
      rewrite Z.div_pow2_bits by lia. f_equal. lia.
    + apply Z.ltb_ge in E3. rewrite Z.mod_pow2_bits_high by lia.
      symmetry. rewrite <- (Z.mod_small (bufZ dm) (2 ^ P)) by exact Hz.
      apply Z.mod_pow2_bits_high. clear - E2 Hdp Hdi. subst P. lia.
Qed.
