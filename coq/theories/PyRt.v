(* PyRt.v — executable model of the Python runtime (lib/py/bitprotolib/bp.py) together
   with the semantics of the accessor methods the compiler generates for each message
   class (bp_get_byte / bp_set_byte / bp_process_int / bp_get_accessor).

   Every partial Python operation that the modelled code performs has its failing branch
   written out as [Raise exn].  All byte-local arithmetic comes from BPGen.GenPy, which is
   regenerated from /repo on every run; only the loop skeletons are written by hand. *)
From Coq Require Import ZArith List Bool.
From BP Require Import Bits Schema.
From BPGen Require Import GenPy.
Import ListNotations.
Open Scope Z_scope.

Inductive exn := IndexError | ValueError | TypeError | AttributeError | AssertionError
               | NilAccessorReached | OutOfFuel.

Inductive res (A : Type) : Type := Ok (a : A) | Raise (e : exn).
Arguments Ok {A} a.
Arguments Raise {A} e.

Definition bind {A B} (r : res A) (f : A -> res B) : res B :=
  match r with Ok a => f a | Raise e => Raise e end.
Notation "x <- e ;; k" := (bind e (fun x => k)) (at level 61, e at next level, right associativity).

(* ---------- generated accessor tables (what T1 parses out of the emitted module) ---------- *)

Record gent := { g_depth : nat; g_bool : bool }.          (* return (int?(self.f[..]) >> rshift) & 255 *)
Inductive skind :=
| SKBool                       (* self.f = bool(b) *)
| SKInt                        (* self.f |= (int(b) << lshift) *)
| SKCast (w : Z)               (* self.f |= bp.intW((int(b) << lshift)) *)
| SKProxy.                     (* self._enum_field_proxy__f |= (int(b) << lshift): raw attribute *)
Record sent := { s_depth : nat; s_kind : skind }.
Record ient := { i_depth : nat; i_shift : Z; i_mask : Z }. (* if (x >> shift) & 1: x |= mask *)

Record cls := {
  c_get : list (Z * gent);
  c_set : list (Z * sent);
  c_int : list (Z * ient);
  c_acc : list (Z * nat);             (* bp_get_accessor: return self.f[..] *)
  c_proxy : list (Z * list Z)         (* enum fields read through IntEnum property: members *)
}.

Inductive proc :=
| PBool | PInt (n : Z) | PUint (n : Z) | PByte
| PArray (ext : bool) (cap : nat) (e : proc)
| PEnum (u : proc)
| PAlias (p : proc)
| PMsg (ext : bool) (nb : Z) (fs : list (Z * proc)) (c : cls).

Record ctx := { cs : list Z; ci : Z }.

(* ---------- data references: self.<field>[di.i(0)]...[di.i(d-1)] ---------- *)

Definition is_member (z : Z) (ms : list Z) : bool := existsb (Z.eqb z) ms.

(* attribute read; an enum field goes through the property getter EnumT(proxy) *)
Definition read_attr (c : cls) (acc : val) (fn : Z) : res val :=
  match acc with
  | VM fs =>
      match lookup fn fs with
      | None => Raise AttributeError
      | Some x =>
          match lookup fn (c_proxy c) with
          | None => Ok x
          | Some ms => match x with
                       | VZ z => if is_member z ms then Ok x else Raise ValueError
                       | _ => Raise ValueError
                       end
          end
      end
  | _ => Raise AttributeError
  end.

(* the integer proxy attribute of an enum field: no IntEnum conversion *)
Definition read_attr_raw (acc : val) (fn : Z) : res val :=
  match acc with
  | VM fs => match lookup fn fs with Some x => Ok x | None => Raise AttributeError end
  | _ => Raise AttributeError
  end.

Fixpoint stack_prefix (stk : list nat) (d : nat) : res (list nat) :=
  match d with
  | O => Ok []
  | S d' => match stk with
            | [] => Raise IndexError                 (* di.i(n): self.aistack[n] *)
            | k :: r => r' <- stack_prefix r d' ;; Ok (k :: r')
            end
  end.

Fixpoint index_val (v : val) (idx : list nat) : res val :=
  match idx with
  | [] => Ok v
  | k :: r => match v with
              | VL l => match nth_error l k with
                        | Some x => index_val x r
                        | None => Raise IndexError
                        end
              | _ => Raise TypeError
              end
  end.

Fixpoint update_val (v : val) (idx : list nat) (nv : val) : res val :=
  match idx with
  | [] => Ok nv
  | k :: r => match v with
              | VL l => match nth_error l k with
                        | Some x => x' <- update_val x r nv ;; Ok (VL (upd l k x'))
                        | None => Raise IndexError
                        end
              | _ => Raise TypeError
              end
  end.

Fixpoint set_field (k : Z) (nv : val) (fs : list (Z * val)) : list (Z * val) :=
  match fs with
  | [] => []
  | h :: r => if fst h =? k then (k, nv) :: r else h :: set_field k nv r
  end.

Definition write_attr (acc : val) (fn : Z) (nv : val) : res val :=
  match acc with
  | VM fs => Ok (VM (set_field fn nv fs))
  | _ => Raise AttributeError
  end.

Definition read_ref (c : cls) (acc : val) (fn : Z) (stk : list nat) (d : nat) : res val :=
  idx <- stack_prefix stk d ;;
  a <- read_attr c acc fn ;;
  index_val a idx.

(* store nv at self.<fn>[idx...]; depth 0 assigns the attribute (the property setter just
   stores), depth > 0 reads the attribute (through the getter) and stores into the list *)
Definition write_ref (c : cls) (acc : val) (fn : Z) (stk : list nat) (d : nat) (nv : val) : res val :=
  idx <- stack_prefix stk d ;;
  match idx with
  | [] => write_attr acc fn nv
  | _ => a <- read_attr c acc fn ;;
         a' <- update_val a idx nv ;;
         write_attr acc fn a'
  end.

Definition int_of (v : val) : res Z :=
  match v with VZ z => Ok z | VB b => Ok (Z.b2z b) | _ => Raise TypeError end.

(* ---------- generated methods ---------- *)

Definition get_byte (c : cls) (acc : val) (fn : Z) (stk : list nat) (rshift : Z) : res Z :=
  match lookup fn (c_get c) with
  | None => Ok 0
  | Some g =>
      x <- read_ref c acc fn stk (g_depth g) ;;
      z <- int_of x ;;
      Ok (Z.land (Z.shiftr z rshift) 255)
  end.

Definition cast_w (w x : Z) : Z :=
  if w =? 8 then int8 x else if w =? 16 then int16 x else if w =? 32 then int32 x else int64 x.

Definition set_byte (c : cls) (acc : val) (fn : Z) (stk : list nat) (lshift b : Z) : res val :=
  match lookup fn (c_set c) with
  | None => Ok acc
  | Some s =>
      match s_kind s with
      | SKBool => write_ref c acc fn stk (s_depth s) (VB (negb (b =? 0)))
      | SKInt =>
          x <- read_ref c acc fn stk (s_depth s) ;;
          z <- int_of x ;;
          write_ref c acc fn stk (s_depth s) (VZ (Z.lor z (Z.shiftl b lshift)))
      | SKCast w =>
          x <- read_ref c acc fn stk (s_depth s) ;;
          z <- int_of x ;;
          write_ref c acc fn stk (s_depth s) (VZ (Z.lor z (cast_w w (Z.shiftl b lshift))))
      | SKProxy =>
          x <- read_attr_raw acc fn ;;
          z <- int_of x ;;
          write_attr acc fn (VZ (Z.lor z (Z.shiftl b lshift)))
      end
  end.

Definition process_int (c : cls) (acc : val) (fn : Z) (stk : list nat) : res val :=
  match lookup fn (c_int c) with
  | None => Ok acc
  | Some e =>
      x <- read_ref c acc fn stk (i_depth e) ;;
      z <- int_of x ;;
      if Z.land (Z.shiftr z (i_shift e)) 1 =? 0 then Ok acc
      else write_ref c acc fn stk (i_depth e) (VZ (Z.lor z (i_mask e)))
  end.

Definition get_accessor (c : cls) (acc : val) (fn : Z) (stk : list nat) : res val :=
  match lookup fn (c_acc c) with
  | None => Raise NilAccessorReached
  | Some d => read_ref c acc fn stk d
  end.

Definition put_accessor (c : cls) (acc : val) (fn : Z) (stk : list nat) (child : val) : res val :=
  match lookup fn (c_acc c) with
  | None => Raise NilAccessorReached
  | Some d => write_ref c acc fn stk d child
  end.

(* ---------- bp.py: single byte steps and process_base_type ---------- *)

Definition enc_single_byte (c : cls) (acc : val) (fn : Z) (stk : list nat) (j cnt : Z) (x : ctx)
  : res ctx :=
  b <- get_byte c acc fn stk (enc_rshift j) ;;
  let d := enc_d b (ci x) j cnt in
  let k := Z.to_nat (enc_index (ci x)) in
  match nth_error (cs x) k with
  | None => Raise IndexError
  | Some old =>
      let nv := Z.lor old d in
      if (0 <=? nv) && (nv <? 256) then Ok {| cs := upd (cs x) k nv; ci := ci x |}
      else Raise ValueError                       (* bytearray element store *)
  end.

Fixpoint pbt_enc (fuel : nat) (n : Z) (c : cls) (acc : val) (fn : Z) (stk : list nat)
         (j : Z) (x : ctx) : res ctx :=
  if j <? n then
    match fuel with
    | O => Raise OutOfFuel
    | S f =>
        let cnt := get_nbits_to_copy (ci x) j n in
        x' <- enc_single_byte c acc fn stk j cnt x ;;
        pbt_enc f n c acc fn stk (j + cnt) {| cs := cs x'; ci := ci x' + cnt |}
    end
  else Ok x.

Definition dec_single_byte (c : cls) (acc : val) (fn : Z) (stk : list nat) (j cnt : Z) (x : ctx)
  : res val :=
  match nth_error (cs x) (Z.to_nat (dec_index (ci x))) with
  | None => Raise IndexError
  | Some b => set_byte c acc fn stk (dec_lshift j) (dec_d b (ci x) j cnt)
  end.

Fixpoint pbt_dec (fuel : nat) (n : Z) (c : cls) (acc : val) (fn : Z) (stk : list nat)
         (j : Z) (x : ctx) : res (val * ctx) :=
  if j <? n then
    match fuel with
    | O => Raise OutOfFuel
    | S f =>
        let cnt := get_nbits_to_copy (ci x) j n in
        acc' <- dec_single_byte c acc fn stk j cnt x ;;
        pbt_dec f n c acc' fn stk (j + cnt) {| cs := cs x; ci := ci x + cnt |}
    end
  else Ok (acc, x).

Definition fuel_of (n : Z) : nat := Z.to_nat n.

(* IntAccessor used for the 16-bit "ahead" prefixes *)
Definition int_cls : cls :=
  {| c_get := [(1, {| g_depth := 0; g_bool := false |})];
     c_set := [(1, {| s_depth := 0; s_kind := SKInt |})];
     c_int := []; c_acc := []; c_proxy := [] |}.

Definition enc_ahead (v : Z) (x : ctx) : res ctx :=
  pbt_enc 16 16 int_cls (VM [(1, VZ v)]) 1 [] 0 x.

Definition dec_ahead (x : ctx) : res (Z * ctx) :=
  r <- pbt_dec 16 16 int_cls (VM [(1, VZ 0)]) 1 [] 0 x ;;
  z <- int_of (vfield 1 (fst r)) ;;
  Ok (z, snd r).

(* ---------- processors: encode ---------- *)

Fixpoint p_enc (p : proc) (c : cls) (acc : val) (fn : Z) (stk : list nat) (x : ctx) : res ctx :=
  match p with
  | PBool => pbt_enc (fuel_of 1) 1 c acc fn stk 0 x
  | PInt n => pbt_enc (fuel_of n) n c acc fn stk 0 x
  | PUint n => pbt_enc (fuel_of n) n c acc fn stk 0 x
  | PByte => pbt_enc (fuel_of 8) 8 c acc fn stk 0 x
  | PEnum u => p_enc u c acc fn stk x
  | PAlias q => p_enc q c acc fn stk x
  | PArray ext cap e =>
      x1 <- (if ext then enc_ahead (Z.of_nat cap) x else Ok x) ;;
      (fix loop (m k : nat) (x : ctx) : res ctx :=
         match m with
         | O => Ok x
         | S m' => x' <- p_enc e c acc fn (stk ++ [k]) x ;; loop m' (S k) x'
         end) cap O x1
  | PMsg ext nb fs c' =>
      acc' <- (if di_is_valid fn then get_accessor c acc fn stk else Ok acc) ;;
      x1 <- (if ext then enc_ahead nb x else Ok x) ;;
      (fix go (l : list (Z * proc)) (x : ctx) : res ctx :=
         match l with
         | [] => Ok x
         | kf :: r => x' <- p_enc (snd kf) c' acc' (fst kf) [] x ;; go r x'
         end) fs x1
  end.

(* ---------- processors: decode ---------- *)

Definition skip_to (ito : Z) (x : ctx) : ctx :=
  if ito_taken ito (ci x) then {| cs := cs x; ci := ito |} else x.

Fixpoint p_dec (p : proc) (c : cls) (acc : val) (fn : Z) (stk : list nat) (x : ctx)
  : res (val * ctx) :=
  match p with
  | PBool => pbt_dec (fuel_of 1) 1 c acc fn stk 0 x
  | PInt n =>
      r <- pbt_dec (fuel_of n) n c acc fn stk 0 x ;;
      acc' <- process_int c (fst r) fn stk ;;
      Ok (acc', snd r)
  | PUint n => pbt_dec (fuel_of n) n c acc fn stk 0 x
  | PByte => pbt_dec (fuel_of 8) 8 c acc fn stk 0 x
  | PEnum u => p_dec u c acc fn stk x
  | PAlias q => p_dec q c acc fn stk x
  | PArray ext cap e =>
      let i0 := ci x in
      r0 <- (if ext then dec_ahead x else Ok (0, x)) ;;
      r <- (fix loop (m k : nat) (acc : val) (x : ctx) : res (val * ctx) :=
              match m with
              | O => Ok (acc, x)
              | S m' => r <- p_dec e c acc fn (stk ++ [k]) x ;; loop m' (S k) (fst r) (snd r)
              end) cap O acc (snd r0) ;;
      Ok (fst r, if ext then skip_to (array_ito i0 (fst r0) (Z.of_nat cap) (ci (snd r))) (snd r) else snd r)
  | PMsg ext nb fs c' =>
      child <- (if di_is_valid fn then get_accessor c acc fn stk else Ok acc) ;;
      let i0 := ci x in
      r0 <- (if ext then dec_ahead x else Ok (0, x)) ;;
      r <- (fix go (l : list (Z * proc)) (a : val) (x : ctx) : res (val * ctx) :=
              match l with
              | [] => Ok (a, x)
              | kf :: r => r1 <- p_dec (snd kf) c' a (fst kf) [] x ;; go r (fst r1) (snd r1)
              end) fs child (snd r0) ;;
      acc' <- (if di_is_valid fn then put_accessor c acc fn stk (fst r) else Ok (fst r)) ;;
      Ok (acc', if ext then skip_to (message_ito i0 (fst r0)) (snd r) else snd r)
  end.

Definition nil_cls : cls := {| c_get := []; c_set := []; c_int := []; c_acc := []; c_proxy := [] |}.

(* Msg.encode(): s = bytearray(BYTES_LENGTH); process(ctx, NIL_DATA_INDEXER, self) *)
Definition py_encode_proc (p : proc) (bytes_length : Z) (v : val) : res (list Z) :=
  x <- p_enc p nil_cls v (-1) [] {| cs := zeros (Z.to_nat bytes_length); ci := 0 |} ;;
  Ok (cs x).

(* Msg.decode(s): assert len(s) >= BYTES_LENGTH; process *)
Definition py_decode_proc (p : proc) (bytes_length : Z) (fresh : val) (s : list Z) : res val :=
  if Z.of_nat (length s) <? bytes_length then Raise AssertionError
  else r <- p_dec p nil_cls fresh (-1) [] {| cs := s; ci := 0 |} ;; Ok (fst r).

(* ---------- model of the Python renderer: processor tree and accessor tables ---------- *)

(* follow arrays and aliases down to a single type, counting array layers *)
Fixpoint leaf_of (t : ty) (d : nat) : option (nat * ty) :=
  match t with
  | TAlias t' => leaf_of t' d
  | TArr _ _ e => leaf_of e (S d)
  | TMsg _ _ => None
  | _ => Some (d, t)
  end.

Fixpoint msg_depth_of (t : ty) (d : nat) : option nat :=
  match t with
  | TAlias t' => msg_depth_of t' d
  | TArr _ _ e => msg_depth_of e (S d)
  | TMsg _ _ => Some d
  | _ => None
  end.

(* formatter.get_nbits_of_integer: smallest of 8/16/32/64 holding n bits *)
Definition int_storage_bits (n : Z) : Z :=
  if n <=? 8 then 8 else if n <=? 16 then 16 else if n <=? 32 then 32 else 64.

Definition is_std_width (n : Z) : bool := (n =? 8) || (n =? 16) || (n =? 32) || (n =? 64).

Fixpoint filter_map {A B} (f : A -> option B) (l : list A) : list B :=
  match l with
  | [] => []
  | a :: r => match f a with Some b => b :: filter_map f r | None => filter_map f r end
  end.

Definition cls_of (fs : list (Z * ty)) : cls :=
  {| c_get := filter_map (fun kf =>
        match leaf_of (snd kf) 0 with
        | Some (d, lt) => Some (fst kf, {| g_depth := d;
                                          g_bool := match lt with TBool => true | _ => false end |})
        | None => None end) fs;
     c_set := filter_map (fun kf =>
        match leaf_of (snd kf) 0 with
        | Some (d, lt) =>
            Some (fst kf, {| s_depth := d;
                             s_kind := match lt with
                                       | TBool => SKBool
                                       | TInt n => SKCast (int_storage_bits n)
                                       | TEnum _ _ => match d with O => SKProxy | _ => SKInt end
                                       | _ => SKInt
                                       end |})
        | None => None end) fs;
     c_int := filter_map (fun kf =>
        match leaf_of (snd kf) 0 with
        | Some (d, TInt n) =>
            if is_std_width n then None
            else Some (fst kf, {| i_depth := d; i_shift := n - 1;
                                  i_mask := Z.lnot (Z.shiftl 1 n - 1) |})
        | _ => None end) fs;
     c_acc := filter_map (fun kf =>
        match msg_depth_of (snd kf) 0 with
        | Some d => Some (fst kf, d)
        | None => None end) fs;
     c_proxy := filter_map (fun kf =>
        match snd kf with
        | TEnum _ ms => Some (fst kf, ms)
        | _ => None end) fs |}.

Fixpoint proc_of (t : ty) : proc :=
  match t with
  | TBool => PBool
  | TByte => PByte
  | TUint n => PUint n
  | TInt n => PInt n
  | TEnum n _ => PEnum (PUint n)
  | TAlias t' => PAlias (proc_of t')
  | TArr x c e => PArray x c (proc_of e)
  | TMsg x fs =>
      PMsg x (nbits (TMsg x fs))
           ((fix go (l : list (Z * ty)) : list (Z * proc) :=
               match l with
               | [] => []
               | kf :: r => (fst kf, proc_of (snd kf)) :: go r
               end) fs)
           (cls_of fs)
  end.

(* fresh message: dataclass defaults *)
Fixpoint py_default (t : ty) : val :=
  match t with
  | TBool => VB false
  | TByte => VZ 0
  | TUint _ => VZ 0
  | TInt _ => VZ 0
  | TEnum _ ms => VZ (hd 0 ms)                 (* first DECLARED member *)
  | TAlias t' => py_default t'
  | TArr _ cap e => VL (repeat (py_default e) cap)
  | TMsg _ fs =>
      VM ((fix go (l : list (Z * ty)) : list (Z * val) :=
             match l with
             | [] => []
             | kf :: r => (fst kf, py_default (snd kf)) :: go r
             end) fs)
  end.

Definition py_encode (t : ty) (v : val) : res (list Z) :=
  py_encode_proc (proc_of (norm t)) (nbytes t) v.

Definition py_decode (t : ty) (s : list Z) : res val :=
  py_decode_proc (proc_of (norm t)) (nbytes t) (py_default (norm t)) s.
