(* Schema.v — resolved schema trees and value trees.
   A [ty] is what the compiler's front end resolves a message type to: no names, no
   comments, no imports; fields carry their numbers and are kept in DECLARATION order
   ([norm] sorts them).  Aliases are kept (they are transparent on the wire but visible
   in generated code). *)
From Coq Require Import ZArith List Bool Lia.
Import ListNotations.
Open Scope Z_scope.

Inductive ty : Type :=
| TBool
| TByte
| TUint (n : Z)
| TInt (n : Z)
| TEnum (n : Z) (members : list Z)
| TAlias (t : ty)
| TArr (ext : bool) (cap : nat) (e : ty)
| TMsg (ext : bool) (fs : list (Z * ty)).

Inductive val : Type :=
| VB (b : bool)
| VZ (z : Z)
| VL (l : list val)
| VM (fs : list (Z * val)).       (* keyed by field number *)

(* ---------- induction principle for the nested type ---------- *)

Section ty_ind'.
  Variable P : ty -> Prop.
  Hypothesis HBool : P TBool.
  Hypothesis HByte : P TByte.
  Hypothesis HUint : forall n, P (TUint n).
  Hypothesis HInt : forall n, P (TInt n).
  Hypothesis HEnum : forall n ms, P (TEnum n ms).
  Hypothesis HAlias : forall t, P t -> P (TAlias t).
  Hypothesis HArr : forall x c e, P e -> P (TArr x c e).
  Hypothesis HMsg : forall x fs, Forall (fun kf => P (snd kf)) fs -> P (TMsg x fs).

  Fixpoint ty_ind' (t : ty) : P t :=
    match t with
    | TBool => HBool
    | TByte => HByte
    | TUint n => HUint n
    | TInt n => HInt n
    | TEnum n ms => HEnum n ms
    | TAlias t => HAlias t (ty_ind' t)
    | TArr x c e => HArr x c e (ty_ind' e)
    | TMsg x fs =>
        HMsg x fs
          ((fix go (l : list (Z * ty)) : Forall (fun kf => P (snd kf)) l :=
              match l with
              | [] => Forall_nil _
              | kf :: r => Forall_cons kf (ty_ind' (snd kf)) (go r)
              end) fs)
    end.
End ty_ind'.

(* ---------- sizes ---------- *)

Definition ext_bits (x : bool) : Z := if x then 16 else 0.

Fixpoint nbits (t : ty) : Z :=
  match t with
  | TBool => 1
  | TByte => 8
  | TUint n => n
  | TInt n => n
  | TEnum n _ => n
  | TAlias t => nbits t
  | TArr x cap e => ext_bits x + Z.of_nat cap * nbits e
  | TMsg x fs =>
      ext_bits x +
      (fix go (l : list (Z * ty)) : Z :=
         match l with
         | [] => 0
         | kf :: r => nbits (snd kf) + go r
         end) fs
  end.

Definition fields_nbits (fs : list (Z * ty)) : Z :=
  fold_right (fun kf acc => nbits (snd kf) + acc) 0 fs.

Lemma nbits_msg x fs : nbits (TMsg x fs) = ext_bits x + fields_nbits fs.
Proof.
  cbn [nbits]. apply f_equal. induction fs as [|kf r IH]; [reflexivity|].
  cbn [fields_nbits fold_right]. rewrite IH. reflexivity.
Qed.

Definition nbytes (t : ty) : Z := (nbits t + 7) / 8.

(* ---------- sorting fields by number (stable insertion sort) ---------- *)

Fixpoint insert_field {A} (kf : Z * A) (l : list (Z * A)) : list (Z * A) :=
  match l with
  | [] => [kf]
  | h :: r => if fst kf <? fst h then kf :: h :: r else h :: insert_field kf r
  end.

Fixpoint sort_fields {A} (l : list (Z * A)) : list (Z * A) :=
  match l with
  | [] => []
  | h :: r => insert_field h (sort_fields r)
  end.

Fixpoint norm (t : ty) : ty :=
  match t with
  | TAlias t => TAlias (norm t)
  | TArr x c e => TArr x c (norm e)
  | TMsg x fs =>
      TMsg x (sort_fields
                ((fix go (l : list (Z * ty)) : list (Z * ty) :=
                    match l with
                    | [] => []
                    | kf :: r => (fst kf, norm (snd kf)) :: go r
                    end) fs))
  | _ => t
  end.

(* ---------- values ---------- *)

Fixpoint lookup {A} (k : Z) (l : list (Z * A)) : option A :=
  match l with
  | [] => None
  | h :: r => if fst h =? k then Some (snd h) else lookup k r
  end.

Definition zof (v : val) : Z := match v with VZ z => z | VB b => Z.b2z b | _ => 0 end.
Definition vfield (k : Z) (v : val) : val :=
  match v with
  | VM fs => match lookup k fs with Some x => x | None => VZ 0 end
  | _ => VZ 0
  end.
Definition vlist (v : val) : list val := match v with VL l => l | _ => [] end.

(* well-formed schema: what the compiler accepts, as far as the wire is concerned *)
Fixpoint keys_distinct (l : list Z) : bool :=
  match l with
  | [] => true
  | k :: r => negb (existsb (Z.eqb k) r) && keys_distinct r
  end.

Fixpoint wf (t : ty) : bool :=
  match t with
  | TBool | TByte => true
  | TUint n | TInt n => (1 <=? n) && (n <=? 64)
  | TEnum n ms => (1 <=? n) && (n <=? 64) && forallb (fun m => (0 <=? m) && (m <? 2 ^ n)) ms
  | TAlias t => wf t
  | TArr _ cap e => (1 <=? Z.of_nat cap) && (Z.of_nat cap <=? 65535) && wf e
  | TMsg x fs =>
      keys_distinct (map fst fs) &&
      (nbits (TMsg x fs) <=? 65535) &&
      (fix go (l : list (Z * ty)) : bool :=
         match l with
         | [] => true
         | kf :: r => (1 <=? fst kf) && (fst kf <=? 255) && wf (snd kf) && go r
         end) fs
  end.

(* value v inhabits type t, every leaf in range *)
Fixpoint has_ty (t : ty) (v : val) : bool :=
  match t with
  | TBool => match v with VB _ => true | _ => false end
  | TByte => match v with VZ z => (0 <=? z) && (z <? 256) | _ => false end
  | TUint n => match v with VZ z => (0 <=? z) && (z <? 2 ^ n) | _ => false end
  | TInt n => match v with VZ z => (- 2 ^ (n - 1) <=? z) && (z <? 2 ^ (n - 1)) | _ => false end
  | TEnum n ms => match v with VZ z => existsb (Z.eqb z) ms | _ => false end
  | TAlias t => has_ty t v
  | TArr _ cap e =>
      match v with
      | VL l => Nat.eqb (length l) cap && forallb (has_ty e) l
      | _ => false
      end
  | TMsg _ fs =>
      match v with
      | VM vs =>
          (fix go (l : list (Z * ty)) : bool :=
             match l with
             | [] => true
             | kf :: r =>
                 match lookup (fst kf) vs with
                 | Some fv => has_ty (snd kf) fv
                 | None => false
                 end && go r
             end) fs
      | _ => false
      end
  end.

(* shape_ty: like has_ty but integer leaves may hold ANY integer (C07: out-of-range values) *)
Fixpoint shape_ty (t : ty) (v : val) : bool :=
  match t with
  | TBool => match v with VB _ => true | _ => false end
  | TByte => match v with VZ _ => true | _ => false end
  | TUint _ => match v with VZ _ => true | _ => false end
  | TInt _ => match v with VZ _ => true | _ => false end
  | TEnum n ms => match v with VZ z => existsb (Z.eqb z) ms | _ => false end
  | TAlias t => shape_ty t v
  | TArr _ cap e =>
      match v with
      | VL l => Nat.eqb (length l) cap && forallb (shape_ty e) l
      | _ => false
      end
  | TMsg _ fs =>
      match v with
      | VM vs =>
          (fix go (l : list (Z * ty)) : bool :=
             match l with
             | [] => true
             | kf :: r =>
                 match lookup (fst kf) vs with
                 | Some fv => shape_ty (snd kf) fv
                 | None => false
                 end && go r
             end) fs
      | _ => false
      end
  end.
