(* CDecProofs.v — Decode<Msg> of the C model, applied to the specified wire bytes and a
   zero-initialised struct, reconstructs exactly [store E t v] (every integer two's
   complement in its storage width, i.e. sign-extended), for (B,E) = (LE,LE) and (BE,BE). *)
From Coq Require Import ZArith List Bool Lia ZifyBool.
From BP Require Import Bits Schema Spec CMem CMemProofs CRt ByteStep PyEncStep PyEncProofs PyEncTop CCopyProofs CBaseProofs CEncProofs CStoreProofs.
From BPGen Require Import GenC.
Import ListNotations.
Open Scope Z_scope.
Ltac Zify.zify_post_hook ::= Z.div_mod_to_equations.

(* ---------- stream segments ---------- *)

Definition seg (s : list Z) (i n : Z) : Z := (bufZ s / 2 ^ i) mod 2 ^ n.

Lemma seg_range s i n : 0 <= n -> 0 <= seg s i n < 2 ^ n.
Proof. intros. unfold seg. apply Z.mod_pos_bound, pow2_pos. lia. Qed.

Lemma seg_split s i a b : 0 <= i -> 0 <= a -> 0 <= b ->
  seg s i (a + b) = seg s i a + 2 ^ a * seg s (i + a) b.
Proof. intros. unfold seg. rewrite mod_split, div_div_pow2 by lia. reflexivity. Qed.

Lemma seg_app s i b1 b2 : 0 <= i ->
  seg s i (Z.of_nat (length b1) + Z.of_nat (length b2)) = Z_of_bits (b1 ++ b2) ->
  seg s i (Z.of_nat (length b1)) = Z_of_bits b1 /\
  seg s (i + Z.of_nat (length b1)) (Z.of_nat (length b2)) = Z_of_bits b2.
Proof.
  intros Hi H. rewrite seg_split, Z_of_bits_app in H by lia.
  pose proof (seg_range s i (Z.of_nat (length b1)) ltac:(lia)) as R1.
  pose proof (Z_of_bits_range b1) as R2.
  pose proof (pow2_pos (Z.of_nat (length b1)) ltac:(lia)) as P.
  destruct (Z.div_mod_unique (2 ^ Z.of_nat (length b1))
              (seg s (i + Z.of_nat (length b1)) (Z.of_nat (length b2))) (Z_of_bits b2)
              (seg s i (Z.of_nat (length b1))) (Z_of_bits b1)) as [Hq Hr]; try lia.
Qed.

Definition dec_pre (x : cctx) (n : Z) : Prop :=
  bytes_ok (xs x) /\ 0 <= xi x /\ xi x + n <= 8 * Z.of_nat (length (xs x)).

Lemma dec_pre_weaken x n m : dec_pre x (n + m) -> 0 <= m -> dec_pre x n.
Proof. unfold dec_pre. intuition lia. Qed.

Lemma dec_pre_next x n m : dec_pre x (n + m) -> 0 <= n ->
  dec_pre {| xs := xs x; xi := xi x + n |} m.
Proof. unfold dec_pre. cbn [xs xi]. intuition lia. Qed.

(* ---------- sign extension ---------- *)

Lemma sext_alt n u : 1 <= n -> 0 <= u < 2 ^ n -> Z.testbit u (n - 1) = (2 ^ (n - 1) <=? u).
Proof.
  intros Hn Hu.
  pose proof (pow2_pos (n - 1) ltac:(lia)) as P.
  assert (H2 : 2 ^ n = 2 * 2 ^ (n - 1)) by (rewrite <- Z.pow_succ_r by lia; f_equal; lia).
  rewrite Z.testbit_eqb by lia.
  destruct (2 ^ (n - 1) <=? u) eqn:E.
  - apply Z.leb_le in E. apply Z.eqb_eq.
    assert (u / 2 ^ (n - 1) = 1); [|lia].
    symmetry. apply (Z.div_unique u (2 ^ (n - 1)) 1 (u - 2 ^ (n - 1))); lia.
  - apply Z.leb_gt in E. apply Z.eqb_neq. rewrite Z.div_small by lia. cbn. lia.
Qed.

Lemma sext_mod n z : 1 <= n -> - 2 ^ (n - 1) <= z < 2 ^ (n - 1) -> sext n (z mod 2 ^ n) = z.
Proof.
  intros Hn Hz.
  pose proof (pow2_pos (n - 1) ltac:(lia)) as P.
  assert (H2 : 2 ^ n = 2 * 2 ^ (n - 1)) by (rewrite <- Z.pow_succ_r by lia; f_equal; lia).
  pose proof (Z.mod_pos_bound z (2 ^ n) ltac:(lia)) as Hu.
  unfold sext. rewrite sext_alt by lia.
  destruct (Z_lt_le_dec z 0) as [Hneg|Hpos].
  - assert (Hm : z mod 2 ^ n = z + 2 ^ n).
    { symmetry. apply (Z.mod_unique z (2 ^ n) (-1)); lia. }
    rewrite Hm. replace (2 ^ (n - 1) <=? z + 2 ^ n) with true by lia. lia.
  - rewrite Z.mod_small by lia. replace (2 ^ (n - 1) <=? z) with false by lia. reflexivity.
Qed.

(* ---------- scalars ---------- *)

Section DecScalars.
  Variables (B E : endian).
  Hypothesis HBE : B = E.

  Lemma dec_base n x z :
    1 <= n <= 64 -> dec_pre x n -> seg (xs x) (xi x) n = z ->
    on_bytes (OB (zeros (Z.to_nat (int_size n)))) (base_type B E false n x)
    = COk ({| xs := xs x; xi := xi x + n |}, store_int E n z).
  Proof.
    intros Hn (Hs & Hi & Hl) Hseg.
    destruct (width_facts n Hn) as (Hst & Hc & Hle & _).
    destruct (base_dec B E n x (Z.to_nat (int_size n)) HBE ltac:(lia) Hs Hi Hl ltac:(lia))
      as (d' & E1 & L1 & O1 & V1).
    { intros _. split; [exact Hn|]. lia. }
    unfold on_bytes. rewrite E1. cbn [cbind fst snd]. f_equal. f_equal. unfold store_int. f_equal.
    rewrite <- (native_bytes_val E d' O1), L1, V1. fold (seg (xs x) (xi x) n). now rewrite Hseg.
  Qed.

  Lemma dec_int n x z :
    1 <= n <= 64 -> dec_pre x n -> - 2 ^ (n - 1) <= z < 2 ^ (n - 1) ->
    seg (xs x) (xi x) n = z mod 2 ^ n ->
    on_bytes (OB (zeros (Z.to_nat (int_size n)))) (endecode_int B E false (int_size n) n x)
    = COk ({| xs := xs x; xi := xi x + n |}, store_int E n z).
  Proof.
    intros Hn (Hs & Hi & Hl) Hz Hseg.
    destruct (width_facts n Hn) as (Hst & Hc & Hle & _).
    destruct (base_dec B E n x (Z.to_nat (int_size n)) HBE ltac:(lia) Hs Hi Hl ltac:(lia))
      as (d' & E1 & L1 & O1 & V1).
    { intros _. split; [exact Hn|]. lia. }
    unfold on_bytes, endecode_int. rewrite E1. cbn [cbind fst snd].
    fold (seg (xs x) (xi x) n) in V1. rewrite Hseg in V1.
    rewrite (sign_spec E n d' Hn O1).
    - cbn [cbind]. f_equal. f_equal. unfold store_int. f_equal. rewrite L1, V1, sext_mod by lia. reflexivity.
    - rewrite L1. lia.
    - rewrite V1. apply Z.mod_pos_bound, pow2_pos. lia.
  Qed.

  (* the 16-bit prefix *)
  Lemma dec_ahead x v :
    dec_pre x 16 -> seg (xs x) (xi x) 16 = v ->
    decode_ahead B E x = COk ({| xs := xs x; xi := xi x + 16 |}, v).
  Proof.
    intros (Hs & Hi & Hl) Hseg. unfold decode_ahead.
    destruct ah_facts as (Hsz & Hnb & _). rewrite Hsz, Hnb. change (Z.to_nat 2) with 2%nat.
    destruct (base_dec B E 16 x 2 HBE ltac:(lia) Hs Hi Hl ltac:(lia)) as (d' & E1 & L1 & O1 & V1).
    { intros _. split; [lia|reflexivity]. }
    rewrite E1. cbn [cbind fst snd]. rewrite <- L1 at 1. rewrite (ld_whole E d' O1). cbn [cbind].
    rewrite V1. fold (seg (xs x) (xi x) 16). now rewrite Hseg.
  Qed.
End DecScalars.

(* ---------- messages ---------- *)

Definition zero_fields :=
  fix go (l : list (Z * ty)) : list (Z * obj) :=
    match l with
    | [] => []
    | kf :: r => (fst kf, zero_obj (snd kf)) :: go r
    end.

Lemma zero_obj_msg x fs : zero_obj (TMsg x fs) = OS (zero_fields fs).
Proof. reflexivity. Qed.

Lemma lookup_app_notin {A} k (l1 l2 : list (Z * A)) :
  ~ In k (map fst l1) -> lookup k (l1 ++ l2) = lookup k l2.
Proof.
  induction l1 as [|h r IH]; intros H; [reflexivity|].
  cbn [app lookup]. cbn [map In] in H.
  destruct (fst h =? k) eqn:Ek; [apply Z.eqb_eq in Ek; tauto|]. apply IH. tauto.
Qed.

Lemma set_assoc_app_notin k nv (l1 l2 : list (Z * obj)) :
  ~ In k (map fst l1) -> set_assoc k nv (l1 ++ l2) = l1 ++ set_assoc k nv l2.
Proof.
  induction l1 as [|h r IH]; intros H; [reflexivity|].
  cbn [app set_assoc]. cbn [map In] in H.
  destruct (fst h =? k) eqn:Ek; [apply Z.eqb_eq in Ek; tauto|]. f_equal. apply IH. tauto.
Qed.

Lemma store_fields_keys E v l : map fst (store_fields E v l) = map fst l.
Proof. induction l as [|h r IH]; [reflexivity|]. cbn [store_fields map fst]. now rewrite IH. Qed.

Lemma store_fields_app E v l1 l2 : store_fields E v (l1 ++ l2) = store_fields E v l1 ++ store_fields E v l2.
Proof. induction l1 as [|h r IH]; [reflexivity|]. cbn [app store_fields]. now rewrite IH. Qed.

Lemma keys_distinct_mid (l1 : list Z) k l2 :
  keys_distinct (l1 ++ k :: l2) = true -> ~ In k l1.
Proof.
  induction l1 as [|h r IH]; intros H Hin; [destruct Hin|].
  cbn [app keys_distinct] in H. apply andb_true_iff in H. destruct H as [Hh Hr].
  destruct Hin as [->|Hin]; [|exact (IH Hr Hin)].
  apply negb_true_iff in Hh. assert (existsb (Z.eqb k) (r ++ k :: l2) = true); [|congruence].
  apply existsb_exists. exists k. split; [apply in_or_app; right; now left|apply Z.eqb_refl].
Qed.

Lemma fields_bits_length vs : forall l,
  fields_wf l = true -> fields_has_ty vs l = true ->
  Z.of_nat (length (fields_bits (VM vs) l)) = fields_nbits l.
Proof.
  induction l as [|kf r IH]; intros Hw Ht; [reflexivity|].
  cbn [fields_wf fields_has_ty] in Hw, Ht. rewrite !andb_true_iff in Hw. rewrite !andb_true_iff in Ht.
  destruct Hw as [[[_ _] Hwk] Hwr]. destruct Ht as [Htk Htr].
  cbn [fields_bits fields_nbits fold_right]. rewrite app_length, Nat2Z.inj_add, (IH Hwr Htr).
  f_equal. unfold vfield. destruct (lookup (fst kf) vs) as [fv|]; [|discriminate].
  apply enc_bits_length; assumption.
Qed.

Lemma fields_nbits_nonneg l : fields_wf l = true -> 0 <= fields_nbits l.
Proof.
  induction l as [|h r IH]; intros Hw; [cbn; lia|].
  cbn [fields_wf] in Hw. rewrite !andb_true_iff in Hw. destruct Hw as [[[_ _] Hh] Hr].
  cbn [fields_nbits fold_right]. pose proof (nbits_nonneg _ Hh). specialize (IH Hr).
  unfold fields_nbits in IH. lia.
Qed.

Section DecFields.
  Variables (B E : endian).
  Hypothesis HBE : B = E.
  Let cp := call_processor B E false.

  Definition dec_ok (t : ty) : Prop :=
    forall v x, wf t = true -> cwf t = true -> has_ty t v = true -> dec_pre x (nbits t) ->
      seg (xs x) (xi x) (nbits t) = Z_of_bits (enc_bits t v) ->
      core B E false t x (zero_obj t) = COk ({| xs := xs x; xi := xi x + nbits t |}, store E t v).

  Lemma dec_fields vs : forall todo done x,
    keys_distinct (map fst (done ++ todo)) = true ->
    Forall (fun kf => dec_ok (snd kf)) todo ->
    fields_wf todo = true -> cwf_fields todo = true -> fields_has_ty vs todo = true ->
    dec_pre x (fields_nbits todo) ->
    seg (xs x) (xi x) (fields_nbits todo) = Z_of_bits (fields_bits (VM vs) todo) ->
    fields_loop B E cp false (render_fields todo) (length todo) x
                (OS (store_fields E (VM vs) done ++ zero_fields todo))
    = COk ({| xs := xs x; xi := xi x + fields_nbits todo |}, OS (store_fields E (VM vs) (done ++ todo))).
  Proof.
    induction todo as [|kf r IHr]; intros done x Hkd HIH Hw Hc Ht Hpre Hseg.
    - cbn [fields_loop render_fields length zero_fields fields_nbits fold_right].
      rewrite !app_nil_r. destruct x as [s0 i0]; cbn [xs xi]. f_equal. f_equal. f_equal. lia.
    - inversion_clear HIH as [|? ? Hk Hrest].
      pose proof Hw as Hw0. pose proof Ht as Ht0.
      cbn [fields_wf] in Hw. rewrite !andb_true_iff in Hw. destruct Hw as [[[_ _] Hwk] Hwr].
      cbn [cwf_fields] in Hc. apply andb_true_iff in Hc. destruct Hc as [Hck Hcr].
      cbn [fields_has_ty] in Ht. rewrite andb_true_iff in Ht. destruct Ht as [Htk Htr].
      destruct kf as [k ft]. cbn [fst snd] in *.
      destruct (lookup k vs) as [fv|] eqn:Elk; [|discriminate].
      assert (Hvf : vfield k (VM vs) = fv) by (unfold vfield; now rewrite Elk).
      pose proof (nbits_nonneg ft Hwk) as Hn1. pose proof (fields_nbits_nonneg r Hwr) as Hn2.
      cbn [fields_nbits fold_right fields_bits fst snd] in Hpre, Hseg |- *. fold (fields_nbits r) in *.
      fold (fields_bits (VM vs) r) in *. rewrite Hvf in Hseg.
      pose proof (enc_bits_length ft fv Hwk Htk) as Hl1.
      pose proof (fields_bits_length vs r Hwr Htr) as Hl2.
      rewrite <- Hl1, <- Hl2 in Hseg. destruct Hpre as (Hs & Hi & Hl).
      destruct (seg_app (xs x) (xi x) _ _ Hi Hseg) as [Hseg1 Hseg2]. rewrite Hl1 in Hseg1, Hseg2. rewrite Hl2 in Hseg2.
      assert (Hnot : ~ In k (map fst (store_fields E (VM vs) done))).
      { rewrite store_fields_keys. rewrite map_app in Hkd. cbn [map fst] in Hkd. exact (keys_distinct_mid _ _ _ Hkd). }
      cbn [render_fields length fields_loop zero_fields fst snd].
      unfold get_fld. rewrite (lookup_app_notin k _ _ Hnot). cbn [lookup fst snd]. rewrite Z.eqb_refl. cbn [cbind].
      unfold cp at 1. rewrite field_step_core. fold cp.
      rewrite (Hk fv x Hwk Hck Htk); [|unfold dec_pre; repeat split; try assumption; lia|exact Hseg1].
      cbn [cbind fst snd set_fld]. rewrite (set_assoc_app_notin k _ _ _ Hnot).
      cbn [set_assoc fst]. rewrite Z.eqb_refl.
      replace (store_fields E (VM vs) done ++ (k, store E ft fv) :: zero_fields r)
        with (store_fields E (VM vs) (done ++ [(k, ft)]) ++ zero_fields r).
      2:{ rewrite store_fields_app. cbn [store_fields fst snd]. rewrite Hvf, <- app_assoc. reflexivity. }
      rewrite (IHr (done ++ [(k, ft)]) {| xs := xs x; xi := xi x + nbits ft |}); try assumption.
      + cbn [xs xi]. rewrite <- app_assoc. cbn [app]. f_equal. f_equal. f_equal. lia.
      + rewrite <- app_assoc. exact Hkd.
      + unfold dec_pre. cbn [xs xi]. repeat split; try assumption; lia.
  Qed.
End DecFields.

(* ---------- arrays ---------- *)

Lemma zeros_app a b : zeros (a + b) = zeros a ++ zeros b.
Proof. induction a; cbn [zeros plus app]; [reflexivity|now rewrite IHa]. Qed.

Lemma zero_flat e : flat e = true -> wf e = true -> zero_obj e = OB (zeros (Z.to_nat (csize e))).
Proof.
  induction e as [| | n | n | n ms | t IH | x c e IH | x fs IH] using ty_ind'; intros Hf Hw; try reflexivity.
  - cbn [zero_obj flat wf csize] in *. apply IH; assumption.
  - cbn [zero_obj flat wf csize] in *. rewrite Hf. rewrite !andb_true_iff in Hw. destruct Hw as [_ Hwe].
    pose proof (csize_nonneg e Hwe). f_equal. f_equal. rewrite Z2Nat.inj_mul, Nat2Z.id by lia. reflexivity.
  - discriminate.
Qed.

Lemma slice_app pre mid post :
  slice (pre ++ mid ++ post) (Z.of_nat (length pre)) (Z.of_nat (length mid)) = COk mid.
Proof.
  rewrite slice_ok by (rewrite ?app_length; lia). rewrite !Nat2Z.id. f_equal.
  rewrite skipn_app, Nat.sub_diag, skipn_all, skipn_O. cbn [app].
  rewrite firstn_app, Nat.sub_diag, firstn_all, firstn_O, app_nil_r. reflexivity.
Qed.

Lemma splice_app pre mid post new : length new = length mid ->
  splice (pre ++ mid ++ post) (Z.of_nat (length pre)) new = COk (pre ++ new ++ post).
Proof.
  intros Hl. unfold splice.
  replace ((0 <=? Z.of_nat (length pre)) && (Z.of_nat (length pre) + Z.of_nat (length new) <=? Z.of_nat (length (pre ++ mid ++ post))))
    with true by (rewrite !app_length; lia).
  f_equal. rewrite Nat2Z.id. rewrite firstn_app, Nat.sub_diag, firstn_all, firstn_O, app_nil_r.
  f_equal. f_equal. rewrite Hl. rewrite skipn_app.
  replace (length pre + length mid - length pre)%nat with (length mid) by lia.
  rewrite (skipn_all2 pre) by lia. cbn [app].
  rewrite skipn_app, Nat.sub_diag, skipn_all, skipn_O. reflexivity.
Qed.

Lemma std_skip n : BpIsNbitsStandard n = true -> sg_skip n = true.
Proof. unfold BpIsNbitsStandard, sg_skip. lia. Qed.

Lemma batch_sign_dec_std E cnt : forall k esize enbits bs,
  sg_skip enbits = true -> 0 <= esize -> (Z.of_nat k + Z.of_nat cnt) * esize <= Z.of_nat (length bs) ->
  batch_sign E false cnt k esize enbits bs = COk bs.
Proof.
  induction cnt as [|c IH]; intros k esize enbits bs Hsk He Hl; [reflexivity|].
  cbn [batch_sign]. rewrite slice_ok by nia. cbn [cbind]. unfold sign_after. rewrite Hsk. cbn [cbind].
  assert (Hoff : Z.to_nat (Z.of_nat k * esize) = (k * Z.to_nat esize)%nat).
  { rewrite Z2Nat.inj_mul, Nat2Z.id by lia. reflexivity. }
  rewrite Hoff.
  replace (Z.of_nat k * esize) with (Z.of_nat (k * Z.to_nat esize)).
  2:{ rewrite Nat2Z.inj_mul, Z2Nat.id by lia. reflexivity. }
  rewrite splice_same.
  2:{ apply Nat2Z.inj_le. rewrite Nat2Z.inj_add, Nat2Z.inj_mul, Z2Nat.id by lia. nia. }
  cbn [cbind]. apply IH; [exact Hsk|exact He|]. lia.
Qed.

Lemma flat_map_bufZ {A} (g : A -> list bool) (f : A -> list Z) (esz : nat) (l : list A) :
  (forall a, In a l -> Z_of_bits (g a) = bufZ (f a) /\ Z.of_nat (length (g a)) = 8 * Z.of_nat esz /\ length (f a) = esz) ->
  Z_of_bits (flat_map g l) = bufZ (flat_map f l).
Proof.
  induction l as [|a r IH]; intros H; [reflexivity|].
  cbn [flat_map]. destruct (H a (or_introl eq_refl)) as (Hv & Hlg & Hlf).
  rewrite Z_of_bits_app, bufZ_app, Hv, Hlg, Hlf, pow256_2 by lia.
  rewrite IH by (intros b Hb; apply H; now right). reflexivity.
Qed.

Section DecArrays.
  Variables (B E : endian).
  Hypothesis HBE : B = E.
  Let cp := call_processor B E false.
  Variable e : ty.
  Hypothesis IHe : dec_ok B E e.
  Hypotheses (Hwe : wf e = true) (Hce : cwf e = true) (Hel : elem_ok e = true).

  Let f := fun a => obytes (store E e a).

  Lemma dec_elems_OL : forall vrest vpre x,
    (forall a, In a vrest -> has_ty e a = true) ->
    dec_pre x (Z.of_nat (length vrest) * nbits e) ->
    seg (xs x) (xi x) (Z.of_nat (length vrest) * nbits e) = Z_of_bits (flat_map (enc_bits e) vrest) ->
    elems_loop B E cp false (render e) (length vrest) (length vpre) x
               (OL (map (store E e) vpre ++ repeat (zero_obj e) (length vrest)))
    = COk ({| xs := xs x; xi := xi x + Z.of_nat (length vrest) * nbits e |}, OL (map (store E e) (vpre ++ vrest))).
  Proof.
    pose proof (nbits_nonneg e Hwe) as Hn.
    induction vrest as [|a r IH]; intros vpre x Hty Hpre Hseg.
    - cbn [length elems_loop repeat]. rewrite !app_nil_r. destruct x as [s0 i0]; cbn [xs xi]. f_equal. f_equal. f_equal. lia.
    - cbn [length elems_loop repeat flat_map] in *.
      replace (Z.of_nat (S (length r)) * nbits e) with (nbits e + Z.of_nat (length r) * nbits e) in * by lia.
      assert (Ha : has_ty e a = true) by (apply Hty; now left).
      pose proof (enc_bits_length e a Hwe Ha) as Hl1.
      assert (Hl2 : Z.of_nat (length (flat_map (enc_bits e) r)) = Z.of_nat (length r) * nbits e).
      { rewrite (flat_map_length_const _ _ (Z.to_nat (nbits e))); [lia|].
        intros b Hb. pose proof (enc_bits_length e b Hwe (Hty b (or_intror Hb))). lia. }
      destruct Hpre as (Hs & Hi & Hl).
      rewrite <- Hl2 in Hseg. rewrite <- Hl1 in Hseg at 1. destruct (seg_app _ _ _ _ Hi Hseg) as [Hseg1 Hseg2].
      rewrite Hl1 in Hseg1, Hseg2. rewrite Hl2 in Hseg2.
      unfold get_elem.
      replace (length vpre) with (length (map (store E e) vpre)) by apply map_length.
      rewrite nth_error_app_mid. cbn [cbind].
      unfold cp at 1. rewrite (elem_step_core B E false e _ _ Hel). fold cp.
      rewrite (IHe a x Hwe Hce Ha); [|unfold dec_pre; repeat split; try assumption; nia|exact Hseg1].
      cbn [cbind fst snd set_elem].
      replace (Nat.ltb (length (map (store E e) vpre)) (length (map (store E e) vpre ++ zero_obj e :: repeat (zero_obj e) (length r)))) with true.
      2:{ symmetry. apply Nat.ltb_lt. rewrite app_length. cbn [length]. lia. }
      rewrite upd_app_mid. cbn [cbind].
      replace (map (store E e) vpre ++ store E e a :: repeat (zero_obj e) (length r))
        with (map (store E e) (vpre ++ [a]) ++ repeat (zero_obj e) (length r))
        by (rewrite map_app, <- app_assoc; reflexivity).
      replace (S (length (map (store E e) vpre))) with (length (vpre ++ [a])) by (rewrite app_length, map_length; cbn; lia).
      rewrite (IH (vpre ++ [a]) {| xs := xs x; xi := xi x + nbits e |}).
      + cbn [xs xi]. rewrite <- app_assoc. cbn [app]. f_equal. f_equal. f_equal. lia.
      + intros b Hb. apply Hty. now right.
      + unfold dec_pre. cbn [xs xi]. repeat split; try assumption; nia.
      + cbn [xs xi]. exact Hseg2.
  Qed.

  Hypothesis Hflat : flat e = true.

  Lemma f_len a : has_ty e a = true -> length (f a) = Z.to_nat (csize e) /\ bytes_ok (f a) /\ store E e a = OB (f a).
  Proof.
    intros Ha. destruct (store_ok_all E e a Hwe Ha) as [Hs _].
    apply (flat_shape e _ Hflat) in Hs. destruct Hs as (bs & Eb & Hb & Hl).
    unfold f. rewrite Eb. cbn [obytes]. repeat split; try assumption. lia.
  Qed.

  Lemma dec_elems_OB : forall vrest vpre x,
    (forall a, In a vpre -> has_ty e a = true) ->
    (forall a, In a vrest -> has_ty e a = true) ->
    dec_pre x (Z.of_nat (length vrest) * nbits e) ->
    seg (xs x) (xi x) (Z.of_nat (length vrest) * nbits e) = Z_of_bits (flat_map (enc_bits e) vrest) ->
    elems_loop B E cp false (render e) (length vrest) (length vpre) x
               (OB (flat_map f vpre ++ zeros (length vrest * Z.to_nat (csize e))))
    = COk ({| xs := xs x; xi := xi x + Z.of_nat (length vrest) * nbits e |}, OB (flat_map f (vpre ++ vrest))).
  Proof.
    pose proof (nbits_nonneg e Hwe) as Hn. pose proof (csize_nonneg e Hwe) as Hcs.
    set (esz := Z.to_nat (csize e)).
    induction vrest as [|a r IH]; intros vpre x Htp Hty Hpre Hseg.
    - cbn [length elems_loop Nat.mul zeros]. rewrite !app_nil_r. destruct x as [s0 i0]; cbn [xs xi]. f_equal. f_equal. f_equal. lia.
    - cbn [length elems_loop flat_map] in *.
      replace (Z.of_nat (S (length r)) * nbits e) with (nbits e + Z.of_nat (length r) * nbits e) in * by lia.
      assert (Ha : has_ty e a = true) by (apply Hty; now left).
      pose proof (enc_bits_length e a Hwe Ha) as Hl1.
      assert (Hl2 : Z.of_nat (length (flat_map (enc_bits e) r)) = Z.of_nat (length r) * nbits e).
      { rewrite (flat_map_length_const _ _ (Z.to_nat (nbits e))); [lia|].
        intros b Hb. pose proof (enc_bits_length e b Hwe (Hty b (or_intror Hb))). lia. }
      destruct Hpre as (Hs & Hi & Hl).
      rewrite <- Hl2 in Hseg. rewrite <- Hl1 in Hseg at 1. destruct (seg_app _ _ _ _ Hi Hseg) as [Hseg1 Hseg2].
      rewrite Hl1 in Hseg1, Hseg2. rewrite Hl2 in Hseg2.
      assert (Hpl : length (flat_map f vpre) = (length vpre * esz)%nat).
      { apply flat_map_length_const. intros b Hb. apply f_len, Htp, Hb. }
      unfold get_elem. rewrite d_size_render.
      replace (S (length r) * esz)%nat with (esz + length r * esz)%nat by lia. rewrite zeros_app.
      replace (Z.of_nat (length vpre) * csize e) with (Z.of_nat (length (flat_map f vpre))).
      2:{ rewrite Hpl, Nat2Z.inj_mul. unfold esz. rewrite Z2Nat.id by lia. reflexivity. }
      replace (csize e) with (Z.of_nat (length (zeros esz))) at 1 by (rewrite zeros_length; unfold esz; lia).
      rewrite slice_app. cbn [cbind].
      unfold cp at 1. rewrite (elem_step_core B E false e _ _ Hel). fold cp.
      replace (OB (zeros esz)) with (zero_obj e) by (unfold esz; apply zero_flat; assumption).
      rewrite (IHe a x Hwe Hce Ha); [|unfold dec_pre; repeat split; try assumption; nia|exact Hseg1].
      cbn [cbind fst snd]. destruct (f_len a Ha) as (Hfa & Hfo & Hfs). rewrite Hfs. cbn [set_elem].
      replace (Z.of_nat (length vpre) * csize e) with (Z.of_nat (length (flat_map f vpre)))
        by (rewrite Hpl, Nat2Z.inj_mul; unfold esz; rewrite Z2Nat.id by lia; reflexivity).
      rewrite splice_app by (rewrite zeros_length; exact Hfa). cbn [cbind].
      replace (flat_map f vpre ++ f a ++ zeros (length r * esz))
        with (flat_map f (vpre ++ [a]) ++ zeros (length r * esz))
        by (rewrite flat_map_app; cbn [flat_map]; rewrite app_nil_r, <- app_assoc; reflexivity).
      replace (S (length vpre)) with (length (vpre ++ [a])) by (rewrite app_length; cbn; lia).
      rewrite (IH (vpre ++ [a]) {| xs := xs x; xi := xi x + nbits e |}).
      + cbn [xs xi]. rewrite <- app_assoc. cbn [app]. f_equal. f_equal. f_equal. lia.
      + intros b Hb. apply in_app_or in Hb. destruct Hb as [Hb|[<-|[]]]; [apply Htp, Hb|exact Ha].
      + intros b Hb. apply Hty. now right.
      + unfold dec_pre. cbn [xs xi]. repeat split; try assumption; nia.
      + cbn [xs xi]. exact Hseg2.
  Qed.
End DecArrays.

(* ---------- assembling ---------- *)

Section DecMain.
  Variables (B E : endian).
  Hypothesis HBE : B = E.
  Let cp := call_processor B E false.

  Lemma dec_alias u : dec_ok B E u -> dec_ok B E (TAlias u).
  Proof.
    intros IH v x Hw Hc Ht Hpre Hseg. cbn [wf cwf has_ty nbits enc_bits zero_obj store core] in *.
    apply andb_true_iff in Hc. destruct Hc as [Hat Hcu].
    rewrite (alias_core B E false u x _ Hat). apply IH; assumption.
  Qed.

  (* the body of BpEndecodeArray after the prefix: batch copy or per-element loop *)
  Lemma dec_array_body ext e l x1 :
    dec_ok B E e -> wf e = true -> cwf e = true -> elem_ok e = true ->
    (forall a, In a l -> has_ty e a = true) ->
    dec_pre x1 (Z.of_nat (length l) * nbits e) ->
    seg (xs x1) (xi x1) (Z.of_nat (length l) * nbits e) = Z_of_bits (flat_map (enc_bits e) l) ->
    (if batch_pred B (nbits e) (d_flag (render e)) (d_to_flag (render e))
     then on_bytes (zero_obj (TArr ext (length l) e))
            (fun bs =>
               r0 <-- base_type B E false (ar_batch_nbits (nbits e) (Z.of_nat (length l))) x1 bs ;;
               if ar_sign_needed (d_flag (render e)) (d_to_flag (render e))
               then bs' <-- batch_sign E false (Z.to_nat (Z.of_nat (length l))) 0 (csize e) (nbits e) (snd r0) ;;
                    COk (fst r0, bs')
               else COk r0)
     else elems_loop B E cp false (render e) (Z.to_nat (Z.of_nat (length l))) 0 x1 (zero_obj (TArr ext (length l) e)))
    = COk ({| xs := xs x1; xi := xi x1 + Z.of_nat (length l) * nbits e |}, store E (TArr ext (length l) e) (VL l)).
  Proof.
    intros IH Hwe Hce Hel Hty Hpre Hseg.
    pose proof (nbits_nonneg e Hwe) as Hn. pose proof (csize_nonneg e Hwe) as Hcs.
    rewrite Nat2Z.id. cbn [zero_obj store vlist].
    destruct (batch_pred B (nbits e) (d_flag (render e)) (d_to_flag (render e))) eqn:Hbp.
    - destruct B; [|discriminate Hbp]. destruct E; [|discriminate HBE].
      cbn [batch_pred] in Hbp.
      destruct (batch_inv e Hwe Hce Hbp) as (Hfl & Hn8 & Hval).
      pose proof Hbp as Hbp'. unfold ar_batch_le_build in Hbp'. apply andb_true_iff in Hbp'. destruct Hbp' as [Hstd _].
      rewrite Hfl. unfold on_bytes.
      assert (Hnb : ar_batch_nbits (nbits e) (Z.of_nat (length l)) = Z.of_nat (length l) * nbits e) by (unfold ar_batch_nbits; lia).
      rewrite Hnb. destruct Hpre as (Hs & Hi & Hl).
      destruct (base_dec LE LE (Z.of_nat (length l) * nbits e) x1 (length l * Z.to_nat (csize e)) eq_refl ltac:(nia) Hs Hi Hl)
        as (d' & E1 & L1 & O1 & V1); [nia|intros HH; discriminate HH|].
      rewrite E1. cbn [cbind fst snd].
      set (f := fun a => obytes (store LE e a)).
      assert (Hf : forall a, In a l -> length (f a) = Z.to_nat (csize e) /\ bytes_ok (f a) /\ store LE e a = OB (f a)).
      { intros a Ha. apply (f_len LE e Hwe Hfl a (Hty a Ha)). }
      assert (Hd : d' = flat_map f l).
      { apply bufZ_inj.
        - exact O1.
        - unfold bytes_ok. apply Forall_forall. intros b Hb. apply in_flat_map in Hb. destruct Hb as (a & Ha & Hb).
          destruct (Hf a Ha) as (_ & Ho & _). unfold bytes_ok in Ho. rewrite Forall_forall in Ho. now apply Ho.
        - rewrite L1. symmetry. apply flat_map_length_const. intros a Ha. apply Hf, Ha.
        - cbn [native_val] in V1. rewrite V1. fold (seg (xs x1) (xi x1) (Z.of_nat (length l) * nbits e)). rewrite Hseg.
          apply (flat_map_bufZ _ f (Z.to_nat (csize e))). intros a Ha. destruct (Hf a Ha) as (Hla & Hoa & Hsa).
          split; [|split; [|exact Hla]].
          + rewrite <- (Hval (f a) Hoa ltac:(lia)). rewrite <- Hsa.
            destruct (store_ok_all LE e a Hwe (Hty a Ha)) as [_ Hb]. now rewrite Hb.
          + rewrite (enc_bits_length e a Hwe (Hty a Ha)). lia. }
      assert (Hres : (if ar_sign_needed (d_flag (render e)) (d_to_flag (render e))
                      then bs' <-- batch_sign LE false (length l) 0 (csize e) (nbits e) d' ;;
                           COk ({| xs := xs x1; xi := xi x1 + Z.of_nat (length l) * nbits e |}, bs')
                      else COk ({| xs := xs x1; xi := xi x1 + Z.of_nat (length l) * nbits e |}, d'))
                     = COk ({| xs := xs x1; xi := xi x1 + Z.of_nat (length l) * nbits e |}, d')).
      { destruct (ar_sign_needed _ _); [|reflexivity].
        rewrite batch_sign_dec_std; [reflexivity|apply std_skip, Hstd|exact Hcs|]. rewrite L1. nia. }
      rewrite Hres. cbn [cbind fst snd]. rewrite Hd. reflexivity.
    - destruct (flat e) eqn:Hfl.
      + pose proof (dec_elems_OB B E e IH Hwe Hce Hel Hfl l [] x1 ltac:(intros a []) Hty Hpre Hseg) as H.
        cbn [length flat_map app] in H. exact H.
      + pose proof (dec_elems_OL B E e IH Hwe Hce Hel l [] x1 Hty Hpre Hseg) as H.
        cbn [length map app] in H. exact H.
  Qed.

  Lemma bits16 v : 0 <= v < 65536 -> Z_of_bits (bits_of 16 v) = v.
  Proof.
    intros H. change (bits_of 16 v) with (bits_of (Z.to_nat 16) v).
    rewrite Z_of_bits_of. change (2 ^ Z.of_nat (Z.to_nat 16)) with 65536. apply Z.mod_small. exact H.
  Qed.

  Lemma dec_array ext cap e : dec_ok B E e -> dec_ok B E (TArr ext cap e).
  Proof.
    intros IH v x Hw Hc Ht Hpre Hseg.
    cbn [wf] in Hw. rewrite !andb_true_iff in Hw. destruct Hw as [[Hc1 Hc2] Hwe].
    cbn [cwf] in Hc. apply andb_true_iff in Hc. destruct Hc as [Hel Hce].
    cbn [has_ty] in Ht. destruct v as [| |l|]; try discriminate.
    apply andb_true_iff in Ht. destruct Ht as [Hlen Hall]. apply Nat.eqb_eq in Hlen. subst cap.
    rewrite forallb_forall in Hall.
    pose proof (nbits_nonneg e Hwe) as Hn.
    assert (Hl2 : Z.of_nat (length (flat_map (enc_bits e) l)) = Z.of_nat (length l) * nbits e).
    { rewrite (flat_map_length_const _ _ (Z.to_nat (nbits e))); [lia|].
      intros b Hb. pose proof (enc_bits_length e b Hwe (Hall b Hb)). lia. }
    cbn [nbits enc_bits vlist] in Hpre, Hseg |- *. cbn [core]. unfold endecode_array.
    rewrite d_nbits_render, d_size_render. cbn [negb]. rewrite andb_true_r.
    destruct Hpre as (Hs & Hi & Hl).
    destruct ext; cbn [ext_bits] in *.
    - (* extensible: 16-bit prefix = capacity, then the skip lands exactly on the cursor *)
      replace (16 + Z.of_nat (length l) * nbits e) with (Z.of_nat (length (bits_of 16 (Z.of_nat (length l)))) + Z.of_nat (length (flat_map (enc_bits e) l))) in Hseg
        by (rewrite Hl2; reflexivity).
      destruct (seg_app _ _ _ _ Hi Hseg) as [Hseg1 Hseg2].
      change (Z.of_nat (length (bits_of 16 (Z.of_nat (length l))))) with 16 in Hseg1, Hseg2. rewrite Hl2 in Hseg2.
      rewrite bits16 in Hseg1 by lia.
      rewrite (dec_ahead B E HBE x (Z.of_nat (length l))); [|unfold dec_pre; repeat split; try assumption; nia|exact Hseg1].
      cbn [cbind fst snd].
      fold cp.
      rewrite (dec_array_body true e l {| xs := xs x; xi := xi x + 16 |} IH Hwe Hce Hel Hall);
        [|unfold dec_pre; cbn [xs xi]; repeat split; try assumption; nia|cbn [xs xi]; exact Hseg2].
      cbn [cbind fst snd xs xi].
      assert (Hito : ar_ito (xi x) (Z.of_nat (length l)) (xi x + 16 + Z.of_nat (length l) * nbits e) (Z.of_nat (length l))
                     = xi x + 16 + Z.of_nat (length l) * nbits e).
      { unfold ar_ito. replace (xi x + 16 + Z.of_nat (length l) * nbits e - xi x - 16) with (nbits e * Z.of_nat (length l)) by lia.
        rewrite Z.quot_mul by lia. lia. }
      rewrite Hito. unfold ar_ito_taken. rewrite Z.geb_leb, Z.leb_refl.
      f_equal. f_equal. f_equal. lia.
    - rewrite Z.add_0_l in *. cbn [cbind fst snd].
      fold cp.
      rewrite (dec_array_body false e l x IH Hwe Hce Hel Hall); [|unfold dec_pre; repeat split; assumption|exact Hseg].
      cbn [cbind]. reflexivity.
  Qed.

  Lemma dec_msg ext fs : Forall (fun kf => dec_ok B E (snd kf)) fs -> dec_ok B E (TMsg ext fs).
  Proof.
    intros IH v x Hw Hc Ht Hpre Hseg.
    pose proof (nbits_nonneg _ Hw) as Hnn. pose proof (enc_bits_length _ v Hw Ht) as Hlen.
    rewrite wf_msg in Hw. rewrite !andb_true_iff in Hw. destruct Hw as [[Hkd Hnb] Hwf].
    rewrite cwf_msg in Hc. destruct v as [| | |vs]; try discriminate. rewrite has_ty_msg in Ht.
    pose proof (fields_bits_length vs fs Hwf Ht) as Hl2. pose proof (fields_nbits_nonneg fs Hwf) as Hfn.
    rewrite enc_bits_msg in Hseg. rewrite nbits_msg in Hpre, Hseg, Hnn, Hnb |- *.
    rewrite zero_obj_msg, store_msg. cbn [core]. unfold endecode_message. rewrite Nat2Z.id. cbn [negb]. rewrite andb_true_r.
    destruct Hpre as (Hs & Hi & Hl).
    destruct ext; cbn [ext_bits] in *.
    - set (P := bits_of 16 (16 + fields_nbits fs)) in *.
      assert (HlP : Z.of_nat (length P) = 16) by reflexivity.
      replace (16 + fields_nbits fs) with (Z.of_nat (length P) + Z.of_nat (length (fields_bits (VM vs) fs))) in Hseg
        by (rewrite Hl2, HlP; reflexivity).
      destruct (seg_app _ _ _ _ Hi Hseg) as [Hseg1 Hseg2].
      rewrite HlP in Hseg1, Hseg2. rewrite Hl2 in Hseg2.
      unfold P in Hseg1. rewrite bits16 in Hseg1 by lia.
      rewrite (dec_ahead B E HBE x (16 + fields_nbits fs)); [|unfold dec_pre; repeat split; try assumption; lia|exact Hseg1].
      cbn [cbind fst snd].
      pose proof (dec_fields B E vs fs [] {| xs := xs x; xi := xi x + 16 |}) as Hf.
      cbn [app store_fields] in Hf. rewrite Hf; try assumption.
      2:{ unfold dec_pre. cbn [xs xi]. repeat split; try assumption; lia. }
      cbn [cbind fst snd xs xi]. unfold ms_ito, ms_ito_taken.
      replace (xi x + (16 + fields_nbits fs) >=? xi x + 16 + fields_nbits fs) with true by lia.
      reflexivity.
    - rewrite Z.add_0_l in *. cbn [cbind fst snd].
      pose proof (dec_fields B E vs fs [] x) as Hf. cbn [app store_fields] in Hf.
      rewrite Hf; try assumption; [reflexivity|]. unfold dec_pre. repeat split; assumption.
  Qed.

  Theorem dec_ok_all t : dec_ok B E t.
  Proof.
    induction t as [| | n | n | n ms | t IH | x c e IH | x fs IH] using ty_ind'.
    - intros v x _ _ Ht Hpre Hseg. cbn [has_ty] in Ht. destruct v as [b| | |]; try discriminate.
      cbn [nbits enc_bits zero_obj store core] in *. destruct ah_facts as (_ & _ & -> & _).
      change (OB [0]) with (OB (zeros (Z.to_nat (int_size 1)))).
      rewrite (dec_base B E HBE 1 x (Z.b2z b)); try assumption; try lia.
      + f_equal. f_equal. unfold store_int. f_equal. change (Z.to_nat (int_size 1)) with 1%nat.
        destruct E, b; reflexivity.
      + rewrite Hseg. cbn [Z_of_bits]. lia.
    - intros v x _ _ Ht Hpre Hseg. cbn [has_ty] in Ht. destruct v as [|z| |]; try discriminate.
      cbn [nbits enc_bits zero_obj store core zof] in *. destruct ah_facts as (_ & _ & _ & ->).
      change (OB [0]) with (OB (zeros (Z.to_nat (int_size 8)))).
      rewrite (dec_base B E HBE 8 x z); try assumption; try lia.
      + f_equal. f_equal. unfold store_int. f_equal. change (Z.to_nat (int_size 8)) with 1%nat.
        assert (0 <= z < 256) by lia. destruct E; cbn; rewrite ?Z.mod_small by lia; reflexivity.
      + rewrite Hseg. change (bits_of 8 z) with (bits_of (Z.to_nat 8) z). rewrite Z_of_bits_of.
        change (2 ^ Z.of_nat (Z.to_nat 8)) with 256. apply Z.mod_small. lia.
    - intros v x Hw _ Ht Hpre Hseg. cbn [wf has_ty] in *. destruct v as [|z| |]; try discriminate.
      cbn [nbits enc_bits zero_obj store core zof] in *.
      apply (dec_base B E HBE n x z); try assumption; try lia.
      rewrite Hseg, Z_of_bits_of, Z2Nat.id by lia. apply Z.mod_small. lia.
    - intros v x Hw _ Ht Hpre Hseg. cbn [wf has_ty] in *. destruct v as [|z| |]; try discriminate.
      cbn [nbits enc_bits zero_obj store core zof] in *.
      apply (dec_int B E HBE n x z); try assumption; try lia.
      rewrite Hseg, Z_of_bits_of, Z2Nat.id by lia. reflexivity.
    - intros v x Hw _ Ht Hpre Hseg. cbn [wf has_ty] in *. rewrite !andb_true_iff in Hw. destruct Hw as [[Hn1 Hn2] Hms].
      destruct v as [|z| |]; try discriminate.
      cbn [nbits enc_bits zero_obj store core zof] in *.
      apply existsb_exists in Ht. destruct Ht as (m & Hin & Hm). apply Z.eqb_eq in Hm. subst m.
      rewrite forallb_forall in Hms. specialize (Hms z Hin).
      apply (dec_base B E HBE n x z); try assumption; try lia.
      rewrite Hseg, Z_of_bits_of, Z2Nat.id by lia. apply Z.mod_small. lia.
    - apply dec_alias, IH.
    - apply dec_array, IH.
    - apply dec_msg, IH.
  Qed.
End DecMain.

(* ---------- Decode<Msg>(wire v) into a zero-initialised struct = store v ---------- *)

Theorem c_decode_wire B E t v :
  B = E -> is_msg t = true -> wf (norm t) = true -> cwf (norm t) = true -> has_ty (norm t) v = true ->
  c_decode_ty B E t (wire t v) = COk (store E (norm t) v).
Proof.
  intros HBE Hm Hw Hc Ht. unfold c_decode_ty, c_decode.
  set (T := norm t) in *.
  assert (HT : exists xx fs, T = TMsg xx fs).
  { subst T. destruct t; try discriminate Hm. cbn [norm]. eauto. }
  destruct HT as (xx & fs & HT).
  pose proof (nbits_nonneg T Hw) as Hnn.
  pose proof (enc_bits_length T v Hw Ht) as Hlen.
  set (x0 := {| xs := wire t v; xi := 0 |}).
  assert (Hpre : dec_pre x0 (nbits T)).
  { unfold dec_pre, x0. cbn [xs xi]. split; [apply pack_bytes_ok|]. split; [lia|].
    unfold wire. fold T. rewrite pack_length, Hlen. lia. }
  assert (Hseg : seg (xs x0) (xi x0) (nbits T) = Z_of_bits (enc_bits T v)).
  { unfold seg, x0, wire. cbn [xs xi]. fold T. rewrite bufZ_pack. change (2 ^ 0) with 1. rewrite Z.div_1_r.
    apply Z.mod_small. rewrite <- Hlen. apply Z_of_bits_range. }
  pose proof (dec_ok_all B E HBE T v x0 Hw Hc Ht Hpre Hseg) as H.
  rewrite HT at 1 2. rewrite top_core, <- HT. rewrite H. reflexivity.
Qed.
