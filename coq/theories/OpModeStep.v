(* OpModeStep.v — byte-local facts about the TRANSLATED op-mode helpers (BPGen.GenOpMode,
   regenerated from the compiler's formatters on every run), proved by exhaustive sweeps of
   their genuinely finite domains, plus the unbounded bit-vector lemmas the statement
   proofs use.  Bounds are stated in every lemma. *)
From Coq Require Import ZArith List Bool Lia ZifyBool.
From BP Require Import Bits Schema OpMode.
From BPGen Require Import GenOpMode.
Import ListNotations.
Open Scope Z_scope.

(* ---------- generic helpers (kept local: no dependency on the Python runtime files) ---------- *)

Definition zrange (n : Z) : list Z := map Z.of_nat (seq 0 (Z.to_nat n)).

Lemma in_zrange n x : 0 <= x < n -> In x (zrange n).
Proof.
  intros H. unfold zrange. apply in_map_iff. exists (Z.to_nat x). split; [lia|].
  apply in_seq. lia.
Qed.

Lemma forallb_zrange (f : Z -> bool) n x : forallb f (zrange n) = true -> 0 <= x < n -> f x = true.
Proof. intros H Hx. rewrite forallb_forall in H. apply H, in_zrange, Hx. Qed.

(* generic nested sweeps.  The [..._ok] lemmas below are stated as [sweepN f ... = true] with f a
   named function, so that lifting them needs no conversion the kernel could mistake for an
   invitation to evaluate the sweep a second time with its lazy machine *)
Definition sweep2 (f : Z -> Z -> bool) (n1 n2 : Z) : bool :=
  forallb (fun a => forallb (fun b => f a b) (zrange n2)) (zrange n1).
Lemma sweep2_spec f n1 n2 :
  sweep2 f n1 n2 = true -> forall a b, 0 <= a < n1 -> 0 <= b < n2 -> f a b = true.
Proof.
  intros H a b Ha Hb. unfold sweep2 in H.
  pose proof (forallb_zrange _ _ a H Ha) as A. cbv beta in A.
  exact (forallb_zrange _ _ b A Hb).
Qed.

Definition sweep4 (f : Z -> Z -> Z -> Z -> bool) (n1 n2 n3 n4 : Z) : bool :=
  forallb (fun a => forallb (fun b => forallb (fun c => forallb (fun d => f a b c d)
    (zrange n4)) (zrange n3)) (zrange n2)) (zrange n1).
Lemma sweep4_spec f n1 n2 n3 n4 :
  sweep4 f n1 n2 n3 n4 = true ->
  forall a b c d, 0 <= a < n1 -> 0 <= b < n2 -> 0 <= c < n3 -> 0 <= d < n4 -> f a b c d = true.
Proof.
  intros H a b c d Ha Hb Hc Hd. unfold sweep4 in H.
  pose proof (forallb_zrange _ _ a H Ha) as A. cbv beta in A.
  pose proof (forallb_zrange _ _ b A Hb) as B. cbv beta in B.
  pose proof (forallb_zrange _ _ c B Hc) as C. cbv beta in C.
  exact (forallb_zrange _ _ d C Hd).
Qed.

Lemma pow2_pos k : 0 <= k -> 0 < 2 ^ k.
Proof. intros; apply Z.pow_pos_nonneg; lia. Qed.

Lemma pow256 k : 0 <= k -> 256 ^ k = 2 ^ (8 * k).
Proof. intros. change 256 with (2 ^ 8). rewrite <- Z.pow_mul_r by lia. reflexivity. Qed.

Definition chunk (u j c : Z) : Z := (u / 2 ^ j) mod 2 ^ c.

Lemma chunk_range u j c : 0 <= c -> 0 <= chunk u j c < 2 ^ c.
Proof. intros. unfold chunk. apply Z.mod_pos_bound, pow2_pos; lia. Qed.

(* or-ing a multiple of 2^j onto something below 2^j is addition (unbounded) *)
Lemma testbit_small a j k : 0 <= a < 2 ^ j -> j <= k -> Z.testbit a k = false.
Proof.
  intros Ha Hk.
  destruct (Z.eq_dec a 0) as [->|Hne]; [apply Z.bits_0|].
  apply Z.bits_above_log2; [lia|].
  assert (Z.log2 a < j) by (apply Z.log2_lt_pow2; lia). lia.
Qed.

Lemma land_disjoint a m j : 0 <= a < 2 ^ j -> 0 <= j -> Z.land a (Z.shiftl m j) = 0.
Proof.
  intros Ha Hj. apply Z.bits_inj'; intros k Hk. rewrite Z.land_spec, Z.bits_0.
  destruct (Z.lt_ge_cases k j) as [Hlt|Hge].
  - rewrite Z.shiftl_spec_low by lia. apply andb_false_r.
  - rewrite (testbit_small a j k) by lia. reflexivity.
Qed.

Lemma lor_disjoint a m j :
  0 <= a < 2 ^ j -> 0 <= j -> Z.lor a (m * 2 ^ j) = a + m * 2 ^ j.
Proof.
  intros Ha Hj.
  rewrite <- Z.shiftl_mul_pow2 by lia.
  pose proof (land_disjoint a m j Ha Hj) as Hd.
  rewrite <- Z.lxor_lor by exact Hd.
  symmetry. apply Z.add_nocarry_lxor. exact Hd.
Qed.

(* the byte under the cursor has nothing at or above the cursor's bit position *)
Lemma cursor_byte_small s ci :
  bytes_ok s -> 0 <= ci -> 0 <= bufZ s < 2 ^ ci ->
  0 <= nth (Z.to_nat (ci / 8)) s 0 < 2 ^ (ci mod 8).
Proof.
  intros Hs Hci Hb.
  pose proof (Z.mod_pos_bound ci 8 ltac:(lia)) as Hm.
  pose proof (Z.div_mod ci 8 ltac:(lia)) as Hdm.
  assert (Hq : 0 <= ci / 8) by (apply Z.div_pos; lia).
  rewrite bufZ_nth by assumption.
  rewrite Z2Nat.id by assumption. rewrite pow256 by assumption.
  set (q := ci / 8) in *. set (r := ci mod 8) in *.
  assert (Hp : 0 < 2 ^ (8 * q)) by (apply pow2_pos; lia).
  assert (Hr : 0 < 2 ^ r) by (apply pow2_pos; lia).
  assert (Hsplit : 2 ^ ci = 2 ^ (8 * q) * 2 ^ r).
  { rewrite <- Z.pow_add_r by lia. f_equal. lia. }
  assert (Hd : 0 <= bufZ s / 2 ^ (8 * q) < 2 ^ r).
  { split; [apply Z.div_pos; lia|]. apply Z.div_lt_upper_bound; [lia|]. lia. }
  assert (H8 : 2 ^ r <= 256).
  { change 256 with (2 ^ 8). apply Z.pow_le_mono_r; lia. }
  rewrite Z.mod_small by lia. exact Hd.
Qed.

(* ---------- chunks of bytes are chunks of the whole ---------- *)

Lemma chunk_chunk u a w j c :
  0 <= a -> 0 <= j -> 0 <= c -> j + c <= w ->
  chunk (chunk u a w) j c = chunk u (a + j) c.
Proof.
  intros Ha Hj Hc Hw. unfold chunk.
  rewrite <- !Z.shiftr_div_pow2 by lia.
  rewrite <- !Z.land_ones by lia.
  apply Z.bits_inj'. intros k Hk.
  rewrite !Z.land_spec, !Z.shiftr_spec, Z.land_spec, Z.shiftr_spec by lia.
  destruct (Z.lt_ge_cases k c) as [Hlt|Hge].
  - rewrite !Z.ones_spec_low by lia. rewrite !andb_true_r. f_equal. lia.
  - rewrite (Z.ones_spec_high c) by lia. rewrite !andb_false_r. reflexivity.
Qed.

Lemma get_byte_chunk u fi : get_byte u fi = chunk u (8 * fi) 8.
Proof. reflexivity. Qed.

(* bits [j, j+c) of u read through byte j/8 *)
Lemma byte_chunk u j c :
  0 <= j -> 0 <= c -> c <= 8 - j mod 8 ->
  chunk (get_byte u (j / 8)) (j mod 8) c = chunk u j c.
Proof.
  intros Hj Hc Hle.
  pose proof (Z.mod_pos_bound j 8 ltac:(lia)) as Hm.
  pose proof (Z.div_mod j 8 ltac:(lia)) as Hdm.
  assert (0 <= j / 8) by (apply Z.div_pos; lia).
  rewrite get_byte_chunk, chunk_chunk by lia. f_equal. lia.
Qed.

Lemma get_byte_range u fi : 0 <= get_byte u fi < 256.
Proof. unfold get_byte. apply Z.mod_pos_bound. lia. Qed.

(* the chunk at a cursor inside a buffer, read through the byte under the cursor *)
Lemma buf_byte_chunk s i c :
  bytes_ok s -> 0 <= i -> 0 <= c -> c <= 8 - i mod 8 ->
  chunk (nth (Z.to_nat (i / 8)) s 0) (i mod 8) c = chunk (bufZ s) i c.
Proof.
  intros Hs Hi Hc Hle.
  assert (Hq : 0 <= i / 8) by (apply Z.div_pos; lia).
  rewrite bufZ_nth by assumption. rewrite Z2Nat.id, pow256 by assumption.
  change ((bufZ s / 2 ^ (8 * (i / 8))) mod 256) with (get_byte (bufZ s) (i / 8)).
  apply byte_chunk; assumption.
Qed.

(* ---------- the value-based expression: shift then mask ---------- *)

(* Z.shiftr with a negative count is a left shift, exactly like smart_shift *)
Lemma land_shift_mask u s i8 c :
  0 <= i8 -> 0 <= c -> 0 <= s + i8 ->
  Z.land (Z.shiftr u s) ((2 ^ c - 1) * 2 ^ i8) = chunk u (s + i8) c * 2 ^ i8.
Proof.
  intros Hi Hc Hj. unfold chunk.
  rewrite <- Z.shiftr_div_pow2 by lia.
  rewrite <- Z.land_ones by lia.
  rewrite <- !Z.shiftl_mul_pow2 by lia.
  replace (2 ^ c - 1) with (Z.ones c) by (rewrite Z.ones_equiv; lia).
  apply Z.bits_inj'. intros k Hk.
  rewrite Z.land_spec, Z.shiftr_spec by lia.
  destruct (Z.lt_ge_cases k i8) as [Hlt|Hge].
  - rewrite !Z.shiftl_spec_low by lia. apply andb_false_r.
  - rewrite !Z.shiftl_spec by lia. rewrite Z.land_spec, Z.shiftr_spec by lia.
    f_equal. f_equal. lia.
Qed.

Lemma land_mod_mask y w m :
  0 <= w -> 0 <= m < 2 ^ w -> Z.land (y mod 2 ^ w) m = Z.land y m.
Proof.
  intros Hw Hm.
  rewrite <- Z.land_ones by lia. rewrite <- Z.land_assoc. f_equal.
  rewrite Z.land_comm, Z.land_ones by lia. apply Z.mod_small. lia.
Qed.

(* ---------- sweeps over the translated helpers ---------- *)

(* op_mode_get_mask on byte positions: domain 8 x 9 *)
Definition mask_f (k c : Z) : bool := op_mode_get_mask k c =? (2 ^ c - 1) * 2 ^ k.
Lemma sweep_mask_ok : sweep2 mask_f 8 9 = true.
Proof. vm_compute. reflexivity. Qed.

Lemma mask_spec k c : 0 <= k < 8 -> 0 <= c <= 8 -> op_mode_get_mask k c = (2 ^ c - 1) * 2 ^ k.
Proof.
  intros Hk Hc. pose proof (sweep2_spec _ _ _ sweep_mask_ok k c Hk ltac:(lia)) as H.
  unfold mask_f in H. apply Z.eqb_eq in H. exact H.
Qed.

(* the per-item numbers depend on i, j only through i mod 8, j mod 8 (shift, mask, r) *)
Lemma enc_shift_mod i j c : enc_shift i j c = enc_shift (i mod 8) (j mod 8) c.
Proof. unfold enc_shift. now rewrite !Z.mod_mod by lia. Qed.
Lemma enc_mask_mod i j c : enc_mask i j c = enc_mask (i mod 8) (j mod 8) c.
Proof. unfold enc_mask. now rewrite !Z.mod_mod by lia. Qed.
Lemma dec_shift_mod i j c : dec_shift i j c = dec_shift (i mod 8) (j mod 8) c.
Proof. unfold dec_shift. now rewrite !Z.mod_mod by lia. Qed.
Lemma dec_mask_mod i j c : dec_mask i j c = dec_mask (i mod 8) (j mod 8) c.
Proof. unfold dec_mask. now rewrite !Z.mod_mod by lia. Qed.

Definition guard (i8 j8 c : Z) : bool := (1 <=? c) && (c <=? 8 - i8) && (c <=? 8 - j8).

Lemma guard_true i8 j8 c : 1 <= c -> c <= 8 - i8 -> c <= 8 - j8 -> guard i8 j8 c = true.
Proof. intros. unfold guard. rewrite !andb_true_iff. repeat split; apply Z.leb_le; lia. Qed.

(* all sweeps below: byte value 0..255 x i mod 8 x j mod 8 x c in 0..8 = 147 456 cases *)

(* C little-endian encoder item: (B sh) & mask with B an unsigned char *)
Definition c_le_enc_f (b i8 j8 c : Z) : bool :=
  implb (guard i8 j8 c)
    match c_shift (CU 8) b (enc_shift i8 j8 c) with
    | Some e1 => Z.land e1 (enc_mask i8 j8 c) =? chunk b j8 c * 2 ^ i8
    | None => false
    end.
Lemma sweep_c_le_enc_ok : sweep4 c_le_enc_f 256 8 8 9 = true.
Proof. vm_compute. reflexivity. Qed.

Lemma c_le_enc_expr b i j c :
  0 <= b < 256 -> 0 <= i -> 0 <= j -> 1 <= c -> c <= 8 - i mod 8 -> c <= 8 - j mod 8 ->
  exists e1, c_shift (CU 8) b (enc_shift i j c) = Some e1 /\
             Z.land e1 (enc_mask i j c) = chunk b (j mod 8) c * 2 ^ (i mod 8).
Proof.
  intros Hb Hi Hj Hc1 Hc2 Hc3.
  pose proof (Z.mod_pos_bound i 8 ltac:(lia)) as Hmi.
  pose proof (Z.mod_pos_bound j 8 ltac:(lia)) as Hmj.
  rewrite enc_shift_mod, enc_mask_mod.
  pose proof (sweep4_spec _ _ _ _ _ sweep_c_le_enc_ok b (i mod 8) (j mod 8) c Hb Hmi Hmj ltac:(lia)) as H.
  unfold c_le_enc_f in H. rewrite guard_true in H by lia. cbn [implb] in H.
  destruct (c_shift (CU 8) b (enc_shift (i mod 8) (j mod 8) c)) as [e1|]; [|discriminate].
  exists e1. split; [reflexivity|]. apply Z.eqb_eq. exact H.
Qed.

(* Go encoder item: (byte sh) & mask with 8-bit shifts; the mask fits a byte *)
Definition go_enc_f (b i8 j8 c : Z) : bool :=
  implb (guard i8 j8 c)
    ((Z.land (go_shift8 b (enc_shift i8 j8 c)) (enc_mask i8 j8 c) =? chunk b j8 c * 2 ^ i8) &&
     (0 <=? enc_mask i8 j8 c) && (enc_mask i8 j8 c <? 256)).
Lemma sweep_go_enc_ok : sweep4 go_enc_f 256 8 8 9 = true.
Proof. vm_compute. reflexivity. Qed.

Lemma go_enc_expr b i j c :
  0 <= b < 256 -> 0 <= i -> 0 <= j -> 1 <= c -> c <= 8 - i mod 8 -> c <= 8 - j mod 8 ->
  Z.land (go_shift8 b (enc_shift i j c)) (enc_mask i j c) = chunk b (j mod 8) c * 2 ^ (i mod 8) /\
  0 <= enc_mask i j c < 256.
Proof.
  intros Hb Hi Hj Hc1 Hc2 Hc3.
  pose proof (Z.mod_pos_bound i 8 ltac:(lia)) as Hmi.
  pose proof (Z.mod_pos_bound j 8 ltac:(lia)) as Hmj.
  rewrite enc_shift_mod, enc_mask_mod.
  pose proof (sweep4_spec _ _ _ _ _ sweep_go_enc_ok b (i mod 8) (j mod 8) c Hb Hmi Hmj ltac:(lia)) as H.
  unfold go_enc_f in H. rewrite guard_true in H by lia. cbn [implb] in H.
  rewrite !andb_true_iff in H. destruct H as [[H1 H2] H3].
  apply Z.eqb_eq in H1. lia.
Qed.

(* decoder items: (s[si] sh) & mask; the C operand is unsigned char (LE) or (unsigned) (BE) *)
Definition c_dec_f (T : cty) (b i8 j8 c : Z) : bool :=
  implb (guard i8 j8 c)
    match c_shift T b (dec_shift i8 j8 c) with
    | Some e1 => Z.land e1 (dec_mask i8 j8 c) =? chunk b i8 c * 2 ^ j8
    | None => false
    end.
Lemma sweep_c_le_dec_ok : sweep4 (c_dec_f (CU 8)) 256 8 8 9 = true.
Proof. vm_compute. reflexivity. Qed.
Lemma sweep_c_be_dec_ok : sweep4 (c_dec_f (CU 32)) 256 8 8 9 = true.
Proof. vm_compute. reflexivity. Qed.

Lemma c_dec_expr T b i j c :
  sweep4 (c_dec_f T) 256 8 8 9 = true ->
  0 <= b < 256 -> 0 <= i -> 0 <= j -> 1 <= c -> c <= 8 - i mod 8 -> c <= 8 - j mod 8 ->
  exists e1, c_shift T b (dec_shift i j c) = Some e1 /\
             Z.land e1 (dec_mask i j c) = chunk b (i mod 8) c * 2 ^ (j mod 8).
Proof.
  intros H0 Hb Hi Hj Hc1 Hc2 Hc3.
  pose proof (Z.mod_pos_bound i 8 ltac:(lia)) as Hmi.
  pose proof (Z.mod_pos_bound j 8 ltac:(lia)) as Hmj.
  rewrite dec_shift_mod, dec_mask_mod.
  pose proof (sweep4_spec _ _ _ _ _ H0 b (i mod 8) (j mod 8) c Hb Hmi Hmj ltac:(lia)) as H.
  unfold c_dec_f in H. rewrite guard_true in H by lia. cbn [implb] in H.
  destruct (c_shift T b (dec_shift (i mod 8) (j mod 8) c)) as [e1|]; [|discriminate].
  exists e1. split; [reflexivity|]. apply Z.eqb_eq. exact H.
Qed.

Definition go_dec_f (b i8 j8 c : Z) : bool :=
  implb (guard i8 j8 c)
    ((Z.land (go_shift8 b (dec_shift i8 j8 c)) (dec_mask i8 j8 c) =? chunk b i8 c * 2 ^ j8) &&
     (0 <=? dec_mask i8 j8 c) && (dec_mask i8 j8 c <? 256)).
Lemma sweep_go_dec_ok : sweep4 go_dec_f 256 8 8 9 = true.
Proof. vm_compute. reflexivity. Qed.

Lemma go_dec_expr b i j c :
  0 <= b < 256 -> 0 <= i -> 0 <= j -> 1 <= c -> c <= 8 - i mod 8 -> c <= 8 - j mod 8 ->
  Z.land (go_shift8 b (dec_shift i j c)) (dec_mask i j c) = chunk b (i mod 8) c * 2 ^ (j mod 8) /\
  0 <= dec_mask i j c < 256.
Proof.
  intros Hb Hi Hj Hc1 Hc2 Hc3.
  pose proof (Z.mod_pos_bound i 8 ltac:(lia)) as Hmi.
  pose proof (Z.mod_pos_bound j 8 ltac:(lia)) as Hmj.
  rewrite dec_shift_mod, dec_mask_mod.
  pose proof (sweep4_spec _ _ _ _ _ sweep_go_dec_ok b (i mod 8) (j mod 8) c Hb Hmi Hmj ltac:(lia)) as H.
  unfold go_dec_f in H. rewrite guard_true in H by lia. cbn [implb] in H.
  rewrite !andb_true_iff in H. destruct H as [[H1 H2] H3].
  apply Z.eqb_eq in H1. lia.
Qed.

(* ---------- storage widths and sign constants: domain n in 1..64 ---------- *)

Definition width_ok (n : Z) : bool :=
  implb (1 <=? n)
  (let sb := storage_bits n in
   ((sb =? 8) || (sb =? 16) || (sb =? 32) || (sb =? 64)) && (n <=? sb) &&
   (if c_no_sign_stmt n then sb =? n else n <? sb) &&
   (Bool.eqb (c_no_sign_stmt n) (go_no_sign_stmt n)) &&
   (c_sign_mask n =? - 2 ^ n) && (go_sign_d sb n =? sb - n)).

Lemma sweep_width_ok : forallb width_ok (zrange 65) = true.
Proof. vm_compute. reflexivity. Qed.

Lemma width_spec n :
  1 <= n <= 64 ->
  (storage_bits n = 8 \/ storage_bits n = 16 \/ storage_bits n = 32 \/ storage_bits n = 64) /\
  n <= storage_bits n /\
  (c_no_sign_stmt n = true -> storage_bits n = n) /\ (c_no_sign_stmt n = false -> n < storage_bits n) /\
  go_no_sign_stmt n = c_no_sign_stmt n /\ c_sign_mask n = - 2 ^ n /\
  go_sign_d (storage_bits n) n = storage_bits n - n.
Proof.
  intros Hn. pose proof (forallb_zrange _ _ n sweep_width_ok ltac:(lia)) as H.
  unfold width_ok in H.
  replace (1 <=? n) with true in H by (symmetry; apply Z.leb_le; lia).
  cbn [implb] in H. cbv zeta in H.
  rewrite !andb_true_iff in H. destruct H as [[[[[H1 H2] H3] H4] H5] H6].
  rewrite !orb_true_iff in H1.
  apply eqb_prop in H4.
  split; [lia|]. split; [lia|].
  split; [intros E; rewrite E in H3; lia|].
  split; [intros E; rewrite E in H3; lia|].
  split; [congruence|]. split; lia.
Qed.

Lemma bool_byte_bits : bool_nbits = 1 /\ byte_nbits = 8.
Proof. split; reflexivity. Qed.

(* ---------- the loop's step ---------- *)

Lemma plan_step_range i j n :
  0 <= j < n ->
  1 <= plan_step i j n /\ plan_step i j n <= n - j /\
  plan_step i j n <= 8 - j mod 8 /\ plan_step i j n <= 8 - i mod 8.
Proof.
  intros H. unfold plan_step.
  pose proof (Z.mod_pos_bound j 8 ltac:(lia)). pose proof (Z.mod_pos_bound i 8 ltac:(lia)).
  lia.
Qed.

Lemma plan_continue_spec j n : plan_continue j n = (j <? n).
Proof. reflexivity. Qed.

(* positions *)
Lemma enc_pos i j c :
  enc_si i j c = i / 8 /\ enc_fi i j c = j / 8 /\ enc_r i j c = i mod 8.
Proof. repeat split; reflexivity. Qed.
Lemma dec_pos i j c :
  dec_si i j c = i / 8 /\ dec_fi i j c = j / 8 /\ dec_r i j c = j mod 8.
Proof. repeat split; reflexivity. Qed.
Lemma assign_spec r :
  c_le_enc_assign r = (r =? 0) /\ c_be_enc_assign r = (r =? 0) /\ c_le_dec_assign r = (r =? 0).
Proof. repeat split; reflexivity. Qed.
Lemma be_shift_spec fi sh :
  c_be_total_shift fi sh = 8 * fi + sh /\ c_be_fi_shift fi = 8 * fi /\
  c_be_has_fi_shift (8 * fi) = (0 <? fi).
Proof. unfold c_be_total_shift, c_be_fi_shift, c_be_has_fi_shift. repeat split; lia. Qed.
Lemma go_bshift_spec fi :
  go_enc_has_bshift fi = (0 <? fi) /\ go_enc_bshift fi = 8 * fi /\
  go_dec_has_bshift fi = (0 <? fi) /\ go_dec_bshift fi = 8 * fi.
Proof. unfold go_enc_has_bshift, go_enc_bshift, go_dec_has_bshift, go_dec_bshift. repeat split; lia. Qed.
