(* LRExprC13.v — link between C13's expression model (ConstExpr.v: precedence-climbing evaluator
   driven by the translated precedence table, proved equal to [denote] on [pretty e]) and the REAL
   LALR tables: what ConstExpr.pretty prints for a tree is exactly the token sequence LRFacts
   feeds to the tables, which parse it back to that tree.  Bounded (LRFacts.expr_domain, 4141
   trees of depth <= 3): PARTIAL — not a proof for all expressions. *)
From Coq Require Import ZArith NArith List Arith Bool String.
From BP Require Import LR LRConcrete LRFacts ConstExpr.
From BPGen Require Import GenLR.
Import ListNotations.

Definition op_of (o : nat) : ConstExpr.op :=
  match o with 0 => OPlus | 1 => OMinus | 2 => OTimes | _ => ODivide end.

Fixpoint embed (e : ex) : ConstExpr.expr :=
  match e with
  | XInt => EDec 1%N
  | XBin o a b => EBin (op_of o) (embed a) (embed b)
  end.

Definition tok_id (t : ConstExpr.token) : nat :=
  match t with
  | TInt _ => term_id "INT_LITERAL"
  | THex _ => term_id "HEX_LITERAL"
  | TIdent _ => term_id "IDENTIFIER"
  | TOp OPlus => term_id "PLUS"
  | TOp OMinus => term_id "MINUS"
  | TOp OTimes => term_id "TIMES"
  | TOp ODivide => term_id "DIVIDE"
  | TLParen => term_id "("
  | TRParen => term_id ")"
  end%string.

Definition lr_tr : ex -> list nat * list nat :=
  ex_tr p_binop p_calc_bin p_grp p_calc_grp p_intl p_calc_int (term_id "(") (term_id ")")
        (term_id "INT_LITERAL") (map op_tok [0; 1; 2; 3]).

(* C13's printer and the LR-side printer agree; the tables parse the print back to the tree *)
Definition c13_expr_ok (e : ex) : bool :=
  list_nat_eqb (map tok_id (ConstExpr.pretty (embed e))) (fst (lr_tr e))
  && match parse (ctx_pre_t ++ map tok_id (ConstExpr.pretty (embed e)) ++ ctx_post_t) with
     | Accept rs => list_nat_eqb rs (fst ctx_reds ++ snd (lr_tr e) ++ snd ctx_reds)
     | _ => false
     end.

Definition c13_expr_facts : bool := forallb c13_expr_ok expr_domain.

Lemma c13_expr_facts_ok : c13_expr_facts = true.
Proof. vm_cast_no_check (eq_refl true). Qed.

Lemma c13_expr_pointwise : forall e, In e expr_domain ->
  exists rs, parse (ctx_pre_t ++ map tok_id (ConstExpr.pretty (embed e)) ++ ctx_post_t) = Accept rs /\
             rs = (fst ctx_reds ++ snd (lr_tr e) ++ snd ctx_reds)%list.
Proof.
  intros e I. pose proof c13_expr_facts_ok as F. unfold c13_expr_facts in F.
  rewrite forallb_forall in F. specialize (F e I). unfold c13_expr_ok in F.
  apply andb_true_iff in F. destruct F as [_ F].
  destruct (parse (ctx_pre_t ++ map tok_id (pretty (embed e)) ++ ctx_post_t)) as [rs| | |]; try discriminate.
  exists rs. split; [reflexivity|].
  revert F. generalize (fst ctx_reds ++ snd (lr_tr e) ++ snd ctx_reds)%list. revert rs.
  induction rs as [|x rs IH]; intros [|y l] E; cbn in E; try discriminate; [reflexivity|].
  apply andb_true_iff in E. destruct E as [E1 E2]. apply Nat.eqb_eq in E1. subst. f_equal. apply IH. exact E2.
Qed.
