(* OpModeLeafDec.v — one scalar field at an arbitrary bit offset, decode direction: the
   statements of every target (C byte-pointer, C value-based, Go) rebuild exactly the field's
   bits in a zeroed object, then the sign statements extend them; for every width 1..64,
   every offset, every buffer content. *)
From Coq Require Import ZArith List Bool Lia ZifyBool.
From BP Require Import Bits Schema OpMode OpModeStep OpModeLeaf.
From BPGen Require Import GenOpMode.
Import ListNotations.
Open Scope Z_scope.

(* what the decoder leaves in the object for stream bits X = (buffer >> offset) *)
Definition dec_pat (lf : leaf) (X : Z) : Z :=
  match lk lf with
  | KInt n => let p := X mod 2 ^ n in
              (if p <? 2 ^ (n - 1) then p else p - 2 ^ n) mod 2 ^ storage_bits n
  | _ => X mod 2 ^ leaf_bits lf
  end.

Definition DecInv (S : list Z) (M0 : mem) (ch : chain) (X : Z) (j : Z) (st : state) : Prop :=
  buf st = S /\ objs st = mem_set M0 ch (X mod 2 ^ j).

(* ---------- reading the chunk under the cursor ---------- *)

Lemma dec_read S i0 j c X :
  bytes_ok S -> 0 <= i0 -> 0 <= j -> 1 <= c -> c <= 8 - (i0 + j) mod 8 ->
  i0 + j + c <= 8 * Z.of_nat (length S) -> X = bufZ S / 2 ^ i0 ->
  exists b, rd S ((i0 + j) / 8) = Some b /\ 0 <= b < 256 /\
            chunk b ((i0 + j) mod 8) c = chunk X j c.
Proof.
  intros Hs Hi0 Hj Hc1 Hc2 Hlen HX.
  pose proof (Z.mod_pos_bound (i0 + j) 8 ltac:(lia)) as Hm.
  pose proof (Z.div_mod (i0 + j) 8 ltac:(lia)) as Hdm.
  assert (Hq : 0 <= (i0 + j) / 8) by (apply Z.div_pos; lia).
  assert (Hidx : (i0 + j) / 8 < Z.of_nat (length S)) by (apply Z.div_lt_upper_bound; lia).
  exists (nth (Z.to_nat ((i0 + j) / 8)) S 0).
  split; [apply rd_nth; lia|]. split; [apply nth_bytes_ok; assumption|].
  rewrite buf_byte_chunk by (try assumption; lia).
  apply chunk_div; assumption.
Qed.

(* ---------- C little-endian: or-ing a chunk into byte j/8 of the object ---------- *)

Lemma set_byte_add p j m c asg :
  0 <= j -> 0 <= p < 2 ^ j -> 0 <= m < 2 ^ c -> 0 <= c -> c <= 8 - j mod 8 ->
  (asg = true -> j mod 8 = 0) ->
  set_byte p (j / 8) (store_byte asg (get_byte p (j / 8)) (m * 2 ^ (j mod 8))) = p + m * 2 ^ j.
Proof.
  intros Hj Hp Hm Hc Hc8 Ha.
  pose proof (Z.mod_pos_bound j 8 ltac:(lia)) as Hr.
  pose proof (Z.div_mod j 8 ltac:(lia)) as Hdm.
  assert (Hq : 0 <= j / 8) by (apply Z.div_pos; lia).
  set (q := j / 8) in *. set (r := j mod 8) in *.
  assert (Hpq : 0 < 2 ^ (8 * q)) by (apply pow2_pos; lia).
  assert (Hpr : 0 < 2 ^ r) by (apply pow2_pos; lia).
  assert (Hsplit : 2 ^ j = 2 ^ r * 2 ^ (8 * q)).
  { rewrite <- Z.pow_add_r by lia. f_equal. lia. }
  assert (Hob : 0 <= p / 2 ^ (8 * q) < 2 ^ r).
  { split; [apply Z.div_pos; lia|]. apply Z.div_lt_upper_bound; [lia|]. lia. }
  assert (H8 : 2 ^ r <= 128).
  { change 128 with (2 ^ 7). apply Z.pow_le_mono_r; lia. }
  assert (Hgb : get_byte p q = p / 2 ^ (8 * q)).
  { unfold get_byte. apply Z.mod_small. lia. }
  set (ob := p / 2 ^ (8 * q)) in *.
  assert (Hcp : 2 ^ c * 2 ^ r <= 256).
  { rewrite <- Z.pow_add_r by lia. change 256 with (2 ^ 8). apply Z.pow_le_mono_r; lia. }
  assert (Hsum : 0 <= ob + m * 2 ^ r < 256) by nia.
  assert (Hsb : store_byte asg ob (m * 2 ^ r) = ob + m * 2 ^ r).
  { unfold store_byte. destruct asg.
    - rewrite (Ha eq_refl) in *. change (2 ^ 0) with 1 in *. assert (ob = 0) by lia.
      rewrite Z.mod_small; lia.
    - rewrite lor_disjoint by lia. apply Z.mod_small. lia. }
  unfold set_byte. rewrite Hgb, Hsb, Hsplit. ring.
Qed.

(* ---------- patterns under |= ---------- *)

Lemma csz_pos_or T : (csz T = 8 \/ csz T = 16 \/ csz T = 32 \/ csz T = 64) -> 1 <= csz T.
Proof. lia. Qed.

Lemma upat_mod T z : is_cbool T = false -> upat T z = z mod 2 ^ csz T.
Proof. destruct T; cbn; intros; try discriminate; reflexivity. Qed.

Lemma or_pat T p y :
  is_cbool T = false -> 1 <= csz T -> 0 <= p < 2 ^ csz T -> 0 <= y < 2 ^ csz T ->
  upat T (Z.lor (sval T p) (sval T y)) = Z.lor p y.
Proof.
  intros Hb Hsz Hp Hy. rewrite upat_mod by assumption.
  rewrite <- Z.land_ones by lia. rewrite Z.land_lor_distr_l.
  rewrite !Z.land_ones by lia. rewrite !sval_mod by assumption. reflexivity.
Qed.

Lemma conv_small T y : is_cbool T = false -> 0 <= y < 2 ^ csz T -> conv T y = sval T y.
Proof.
  intros Hb Hy. unfold conv. rewrite upat_mod by assumption. now rewrite Z.mod_small.
Qed.

(* ---------- C little-endian decoder item ---------- *)

Section DecStep.
  Variables (lf : leaf) (ch : chain) (M0 : mem) (S : list Z) (i0 X : Z).
  Hypothesis Hok : leaf_ok lf.
  Hypothesis Hget : mem_get M0 ch = Some (mkcell (leaf_cty lf) 0).
  Hypothesis Hi0 : 0 <= i0.
  Hypothesis HS : bytes_ok S.
  Hypothesis Hlen : i0 + leaf_bits lf <= 8 * Z.of_nat (length S).
  Hypothesis HX : X = bufZ S / 2 ^ i0.

  Lemma dec_cell p : mem_get (mem_set M0 ch p) ch = Some (mkcell (leaf_cty lf) p).
  Proof. now rewrite (mem_get_set _ _ _ _ Hget). Qed.

  Lemma dec_next j c :
    0 <= j -> 0 <= c -> X mod 2 ^ j + chunk X j c * 2 ^ j = X mod 2 ^ (j + c).
  Proof. intros. rewrite mod_pow_split by lia. ring. Qed.

  Lemma dec_step_cle j st :
    0 <= j < leaf_bits lf -> DecInv S M0 ch X j st ->
    exists st', exec st (item CLE false lf ch (i0 + j, j, plan_step (i0 + j) j (leaf_bits lf))) = Some st' /\
                DecInv S M0 ch X (j + plan_step (i0 + j) j (leaf_bits lf)) st'.
  Proof.
    intros Hj (Hb & Ho).
    destruct (leaf_facts lf Hok) as (Hn & Hsz & Hut). cbv zeta in *.
    set (n := leaf_bits lf) in *. set (sz := csz (leaf_cty lf)) in *.
    pose proof (plan_step_range (i0 + j) j n ltac:(lia)) as (Hc1 & Hc2 & Hc3 & Hc4).
    set (c := plan_step (i0 + j) j n) in *.
    destruct (dec_read S i0 j c X HS Hi0 ltac:(lia) Hc1 Hc4 ltac:(lia) HX) as (b & Hrd & Hbr & Hch).
    destruct (c_dec_expr (CU 8) b (i0 + j) j c sweep_c_le_dec_ok Hbr ltac:(lia) ltac:(lia) Hc1 Hc4 Hc3)
      as (e1 & E1 & E2).
    rewrite Hch in E2.
    pose proof (Z.mod_pos_bound j 8 ltac:(lia)) as Hmj.
    pose proof (Z.div_mod j 8 ltac:(lia)) as Hdj.
    assert (Hfi : 0 <= j / 8) by (apply Z.div_pos; lia).
    cbn [item exec]. rewrite Hb, Ho.
    destruct (dec_pos (i0 + j) j c) as (-> & -> & ->).
    rewrite Hrd. cbn [bind]. rewrite E1. cbn [bind]. rewrite dec_cell. cbn [bind cty_of pat].
    fold sz. replace ((0 <=? j / 8) && (8 * (j / 8) <? sz)) with true by lia.
    rewrite E2. destruct (assign_spec (j mod 8)) as (_ & _ & ->).
    pose proof (chunk_range X j c ltac:(lia)) as Hm.
    assert (Hpj : 0 <= X mod 2 ^ j < 2 ^ j) by (apply Z.mod_pos_bound, pow2_pos; lia).
    rewrite (set_byte_add (X mod 2 ^ j) j (chunk X j c) c) by
      (try lia; intros A; apply Z.eqb_eq in A; exact A).
    rewrite dec_next by lia. rewrite mem_set_set.
    eexists. split; [reflexivity|]. split; reflexivity.
  Qed.

  (* ---------- C big-endian (value based) decoder item ---------- *)

  Lemma be_position sz bv fi :
    (sz = 8 \/ sz = 16 \/ sz = 32 \/ sz = 64) -> 0 <= bv < 256 -> 0 < fi -> 8 * fi + 8 <= sz ->
    c_shift (CU sz) (upat (CU sz) bv) (- (8 * fi)) = Some (bv * 2 ^ (8 * fi)).
  Proof.
    intros Hsz Hbv Hfi Hfit.
    assert (H256 : 256 <= 2 ^ sz) by (change 256 with (2 ^ 8); apply Z.pow_le_mono_r; lia).
    cbn [upat]. rewrite Z.mod_small by lia.
    unfold c_shift. cbn [csz].
    replace (- (8 * fi) =? 0) with false by lia. replace (0 <? - (8 * fi)) with false by lia.
    replace (Z.max 32 sz <=? - - (8 * fi)) with false by lia.
    replace (- - (8 * fi)) with (8 * fi) by lia.
    assert (Hp : 0 < 2 ^ (8 * fi)) by (apply pow2_pos; lia).
    assert (Hb : bv * 2 ^ (8 * fi) < 2 ^ sz).
    { replace (2 ^ sz) with (2 ^ (sz - 8 * fi) * 2 ^ (8 * fi)).
      2:{ rewrite <- Z.pow_add_r by lia. f_equal. lia. }
      assert (256 <= 2 ^ (sz - 8 * fi)) by (change 256 with (2 ^ 8); apply Z.pow_le_mono_r; lia).
      nia. }
    destruct (sz <? 32) eqn:E32.
    - apply Z.ltb_lt in E32.
      assert (2 ^ sz <= 2 ^ 31) by (apply Z.pow_le_mono_r; lia).
      replace (bv * 2 ^ (8 * fi) <? 2 ^ 31) with true by lia. reflexivity.
    - rewrite Z.mod_small by nia. reflexivity.
  Qed.

  Lemma dec_step_cbe j st :
    0 <= j < leaf_bits lf -> DecInv S M0 ch X j st ->
    exists st', exec st (item CBE false lf ch (i0 + j, j, plan_step (i0 + j) j (leaf_bits lf))) = Some st' /\
                DecInv S M0 ch X (j + plan_step (i0 + j) j (leaf_bits lf)) st'.
  Proof.
    intros Hj (Hb & Ho).
    destruct (leaf_facts lf Hok) as (Hn & Hsz & Hut). cbv zeta in *.
    set (n := leaf_bits lf) in *. set (sz := csz (leaf_cty lf)) in *.
    pose proof (plan_step_range (i0 + j) j n ltac:(lia)) as (Hc1 & Hc2 & Hc3 & Hc4).
    set (c := plan_step (i0 + j) j n) in *.
    destruct (dec_read S i0 j c X HS Hi0 ltac:(lia) Hc1 Hc4 ltac:(lia) HX) as (b & Hrd & Hbr & Hch).
    destruct (c_dec_expr (CU 32) b (i0 + j) j c sweep_c_be_dec_ok Hbr ltac:(lia) ltac:(lia) Hc1 Hc4 Hc3)
      as (e1 & E1 & E2).
    rewrite Hch in E2.
    pose proof (Z.mod_pos_bound j 8 ltac:(lia)) as Hmj.
    pose proof (Z.div_mod j 8 ltac:(lia)) as Hdj.
    assert (Hfi : 0 <= j / 8) by (apply Z.div_pos; lia).
    pose proof (chunk_range X j c ltac:(lia)) as Hm. set (m := chunk X j c) in *.
    assert (Hpj : 0 <= X mod 2 ^ j < 2 ^ j) by (apply Z.mod_pos_bound, pow2_pos; lia).
    assert (Hpr : 0 < 2 ^ (j mod 8)) by (apply pow2_pos; lia).
    assert (Hjs : 2 ^ j <= 2 ^ sz) by (apply Z.pow_le_mono_r; lia).
    assert (Hcp : 2 ^ c * 2 ^ (j mod 8) <= 256).
    { rewrite <- Z.pow_add_r by lia. change 256 with (2 ^ 8). apply Z.pow_le_mono_r; lia. }
    assert (Hbv : 0 <= m * 2 ^ (j mod 8) < 256) by nia.
    (* the positioned value *)
    assert (Hy : m * 2 ^ (j mod 8) * 2 ^ (8 * (j / 8)) = m * 2 ^ j).
    { rewrite <- Z.mul_assoc, <- Z.pow_add_r by lia. do 2 f_equal. lia. }
    assert (Hyr : 0 <= m * 2 ^ j < 2 ^ sz).
    { assert (0 < 2 ^ j) by (apply pow2_pos; lia).
      assert (2 ^ c * 2 ^ j <= 2 ^ sz).
      { rewrite <- Z.pow_add_r by lia. apply Z.pow_le_mono_r; lia. }
      nia. }
    cbn [item exec]. rewrite Hb, Ho.
    destruct (dec_pos (i0 + j) j c) as (-> & -> & _).
    destruct (be_shift_spec (j / 8) 0) as (_ & -> & ->).
    rewrite Hrd. cbn [bind]. rewrite E1. cbn [bind]. rewrite E2.
    assert (Hx3 :
      match (if 0 <? j / 8 then Some (leaf_uty lf) else None) with
      | Some uT => if is_unsigned uT && (0 <? (if 0 <? j / 8 then 8 * (j / 8) else 0))
                   then c_shift uT (upat uT (m * 2 ^ (j mod 8))) (- (if 0 <? j / 8 then 8 * (j / 8) else 0))
                   else None
      | None => if (if 0 <? j / 8 then 8 * (j / 8) else 0) =? 0 then Some (m * 2 ^ (j mod 8)) else None
      end = Some (m * 2 ^ j)).
    { destruct (0 <? j / 8) eqn:Efi.
      - apply Z.ltb_lt in Efi. rewrite Hut. cbn [is_unsigned andb].
        replace (0 <? 8 * (j / 8)) with true by lia.
        rewrite be_position by (try assumption; lia). now rewrite Hy.
      - apply Z.ltb_ge in Efi. assert (E0 : j / 8 = 0) by lia. cbn [Z.eqb].
        rewrite E0 in Hy. change (2 ^ (8 * 0)) with 1 in Hy. rewrite Z.mul_1_r in Hy. now rewrite Hy. }
    rewrite Hx3. cbn [bind]. rewrite dec_cell. cbn [bind cty_of pat].
    eexists. split; [reflexivity|]. split; [reflexivity|]. cbn [objs].
    rewrite mem_set_set. f_equal.
    destruct (is_cbool (leaf_cty lf)) eqn:Ebool.
    - (* bool: n = 1, j = 0, c = 1 *)
      assert (Hlk : lk lf = KBool).
      { unfold leaf_cty in Ebool. destruct (lk lf); cbn in Ebool; try discriminate. reflexivity. }
      unfold n, leaf_bits in Hj, Hc2. rewrite Hlk in Hj, Hc2. change bool_nbits with 1 in Hj, Hc2.
      assert (j = 0) by lia. subst j. assert (c = 1) by lia.
      unfold leaf_cty. rewrite Hlk.
      replace (0 + c) with 1 by lia. change (2 ^ 0) with 1 in *. rewrite Z.mod_1_r.
      rewrite Z.mul_1_r in *. unfold m, chunk. rewrite Z.div_1_r. replace c with 1 by lia.
      change (2 ^ 1) with 2. cbn [sval upat conv].
      pose proof (Z.mod_pos_bound X 2 ltac:(lia)).
      destruct (X mod 2 =? 0) eqn:E; [apply Z.eqb_eq in E; rewrite E; reflexivity|].
      apply Z.eqb_neq in E. assert (E1' : X mod 2 = 1) by lia. rewrite E1'. reflexivity.
    - rewrite conv_small by (try assumption; fold sz; lia).
      rewrite or_pat by (try assumption; fold sz; lia).
      rewrite lor_disjoint by lia. apply dec_next; lia.
  Qed.

  (* ---------- Go decoder item ---------- *)

  Lemma dec_step_go j st :
    0 <= j < leaf_bits lf -> DecInv S M0 ch X j st ->
    exists st', exec st (item GO false lf ch (i0 + j, j, plan_step (i0 + j) j (leaf_bits lf))) = Some st' /\
                DecInv S M0 ch X (j + plan_step (i0 + j) j (leaf_bits lf)) st'.
  Proof.
    intros Hj (Hb & Ho).
    destruct (leaf_facts lf Hok) as (Hn & Hsz & Hut). cbv zeta in *.
    set (n := leaf_bits lf) in *. set (sz := csz (leaf_cty lf)) in *.
    pose proof (plan_step_range (i0 + j) j n ltac:(lia)) as (Hc1 & Hc2 & Hc3 & Hc4).
    set (c := plan_step (i0 + j) j n) in *.
    destruct (dec_read S i0 j c X HS Hi0 ltac:(lia) Hc1 Hc4 ltac:(lia) HX) as (b & Hrd & Hbr & Hch).
    destruct (go_dec_expr b (i0 + j) j c Hbr ltac:(lia) ltac:(lia) Hc1 Hc4 Hc3) as (E2 & Hmask).
    rewrite Hch in E2.
    pose proof (Z.mod_pos_bound j 8 ltac:(lia)) as Hmj.
    pose proof (Z.div_mod j 8 ltac:(lia)) as Hdj.
    assert (Hfi : 0 <= j / 8) by (apply Z.div_pos; lia).
    pose proof (chunk_range X j c ltac:(lia)) as Hm. set (m := chunk X j c) in *.
    assert (Hpj : 0 <= X mod 2 ^ j < 2 ^ j) by (apply Z.mod_pos_bound, pow2_pos; lia).
    assert (Hpr : 0 < 2 ^ (j mod 8)) by (apply pow2_pos; lia).
    assert (Hjs : 2 ^ j <= 2 ^ sz) by (apply Z.pow_le_mono_r; lia).
    assert (Hcp : 2 ^ c * 2 ^ (j mod 8) <= 256).
    { rewrite <- Z.pow_add_r by lia. change 256 with (2 ^ 8). apply Z.pow_le_mono_r; lia. }
    assert (Hbv : 0 <= m * 2 ^ (j mod 8) < 256) by nia.
    assert (Hy : m * 2 ^ (j mod 8) * 2 ^ (8 * (j / 8)) = m * 2 ^ j).
    { rewrite <- Z.mul_assoc, <- Z.pow_add_r by lia. do 2 f_equal. lia. }
    assert (Hyr : 0 <= m * 2 ^ j < 2 ^ sz).
    { assert (0 < 2 ^ j) by (apply pow2_pos; lia).
      assert (2 ^ c * 2 ^ j <= 2 ^ sz).
      { rewrite <- Z.pow_add_r by lia. apply Z.pow_le_mono_r; lia. }
      nia. }
    assert (H256 : 256 <= 2 ^ sz) by (change 256 with (2 ^ 8); apply Z.pow_le_mono_r; lia).
    cbn [item exec]. rewrite Hb, Ho.
    destruct (dec_pos (i0 + j) j c) as (-> & -> & _).
    destruct (go_bshift_spec (j / 8)) as (_ & _ & -> & ->).
    replace (if 0 <? j / 8 then 8 * (j / 8) else 0) with (8 * (j / 8))
      by (destruct (Z.ltb_spec 0 (j / 8)); lia).
    rewrite Hrd. cbn [bind]. rewrite dec_cell. cbn [bind cty_of pat].
    rewrite cty_eqb_refl.
    replace ((0 <=? 8 * (j / 8)) && (0 <=? dec_mask (i0 + j) j c) && (dec_mask (i0 + j) j c <? 256) && true)
      with true by lia.
    rewrite E2.
    destruct (is_cbool (leaf_cty lf)) eqn:Ebool.
    - assert (Hlk : lk lf = KBool).
      { unfold leaf_cty in Ebool. destruct (lk lf); cbn in Ebool; try discriminate. reflexivity. }
      unfold n, leaf_bits in Hj, Hc2. rewrite Hlk in Hj, Hc2. change bool_nbits with 1 in Hj, Hc2.
      assert (j = 0) by lia. subst j. assert (c = 1) by lia.
      unfold go_conv_of, is_kbool. rewrite Hlk.
      change (0 / 8) with 0. change (8 * 0) with 0. change (0 mod 8) with 0.
      change (2 ^ 0) with 1 in *. cbn [andb Z.eqb].
      assert (Hres : (if 0 <? m * 1 then 1 else 0) = X mod 2 ^ (0 + c)).
      { replace (0 + c) with 1 by lia. unfold m, chunk. rewrite Z.div_1_r. replace c with 1 by lia.
        change (2 ^ 1) with 2. pose proof (Z.mod_pos_bound X 2 ltac:(lia)).
        destruct (Z.ltb_spec 0 (X mod 2 * 1)); lia. }
      destruct (lalias lf); rewrite Hres, mem_set_set;
        (eexists; split; [reflexivity|]; split; reflexivity).
    - assert (Hasg : is_kbool lf = false).
      { unfold is_kbool. unfold leaf_cty in Ebool. destruct (lk lf); cbn in Ebool; try discriminate; reflexivity. }
      assert (Hcv : go_conv_of lf = GPlain).
      { unfold go_conv_of. unfold leaf_cty in Ebool. destruct (lk lf); cbn in Ebool; try discriminate; reflexivity. }
      rewrite Hasg, Hcv.
      eexists. split; [reflexivity|]. split; [reflexivity|]. cbn [objs].
      rewrite mem_set_set. f_equal.
      assert (Hinner : upat (leaf_cty lf) (conv (leaf_cty lf) (m * 2 ^ (j mod 8)) * 2 ^ (8 * (j / 8))) = m * 2 ^ j).
      { rewrite conv_small by (try assumption; fold sz; lia).
        rewrite upat_mod by assumption. fold sz.
        pose proof (sval_mod (leaf_cty lf) (m * 2 ^ (j mod 8)) ltac:(fold sz; lia) ltac:(fold sz; lia)) as Hsv.
        fold sz in Hsv.
        rewrite <- Z.mul_mod_idemp_l by (apply Z.pow_nonzero; lia). rewrite Hsv.
        rewrite Hy. apply Z.mod_small. lia. }
      unfold conv at 1. rewrite Hinner.
      rewrite or_pat by (try assumption; fold sz; lia).
      rewrite lor_disjoint by lia. apply dec_next; lia.
  Qed.
End DecStep.

(* ---------- sign statements ---------- *)

Lemma sign_bit p n :
  1 <= n -> 0 <= p < 2 ^ n -> Z.land (Z.shiftr p (n - 1)) 1 = if p <? 2 ^ (n - 1) then 0 else 1.
Proof.
  intros Hn Hp. rewrite Z.shiftr_div_pow2 by lia.
  change 1 with (Z.ones 1) at 2. rewrite Z.land_ones by lia. change (2 ^ 1) with 2.
  assert (Hh : 0 < 2 ^ (n - 1)) by (apply pow2_pos; lia).
  assert (H2 : 2 ^ n = 2 * 2 ^ (n - 1)).
  { replace n with (1 + (n - 1)) at 1 by lia. rewrite Z.pow_add_r by lia. reflexivity. }
  destruct (Z.ltb_spec p (2 ^ (n - 1))) as [Hlt|Hge].
  - rewrite Z.div_small by lia. reflexivity.
  - assert (1 <= p / 2 ^ (n - 1)) by (apply Z.div_le_lower_bound; lia).
    assert (p / 2 ^ (n - 1) < 2) by (apply Z.div_lt_upper_bound; lia).
    now replace (p / 2 ^ (n - 1)) with 1 by lia.
Qed.

Lemma sext_same n p :
  1 <= n -> 0 <= p < 2 ^ n -> (if p <? 2 ^ (n - 1) then p else p - 2 ^ n) mod 2 ^ n = p.
Proof.
  intros Hn Hp. destruct (p <? 2 ^ (n - 1)); [apply Z.mod_small; lia|].
  replace (p - 2 ^ n) with (p + (-1) * 2 ^ n) by ring.
  rewrite Z.mod_add by (apply Z.pow_nonzero; lia). apply Z.mod_small; lia.
Qed.

Section Sign.
  Variables (ch : chain) (M0 : mem) (S : list Z) (n : Z) (u0 p : Z).
  Hypothesis Hn : 1 <= n <= 64.
  Hypothesis Hns : c_no_sign_stmt n = false.
  Hypothesis Hget : mem_get M0 ch = Some (mkcell (CS (storage_bits n)) u0).
  Hypothesis Hp : 0 <= p < 2 ^ n.

  Let sb := storage_bits n.

  Lemma sign_facts : n < sb /\ sb <= 64 /\ 2 ^ n <= 2 ^ (sb - 1) /\ c_sign_mask n = - 2 ^ n /\
                     go_sign_d sb n = sb - n /\ go_no_sign_stmt n = false.
  Proof.
    destruct (width_spec n Hn) as (A & B & C & D & E & F & G). fold sb in A, B, C, D, G |- *.
    specialize (D Hns). repeat split; try lia; try congruence.
    apply Z.pow_le_mono_r; lia.
  Qed.

  Lemma sign_cell q : mem_get (mem_set M0 ch q) ch = Some (mkcell (CS sb) q).
  Proof. now rewrite (mem_get_set _ _ _ _ Hget). Qed.

  Lemma sign_c sp :
    exec (mkst S (mem_set M0 ch p)) (SSignC ch (n - 1) (c_sign_mask n) sp) =
    Some (mkst S (mem_set M0 ch ((if p <? 2 ^ (n - 1) then p else p - 2 ^ n) mod 2 ^ sb))).
  Proof.
    destruct sign_facts as (Hlt & H64 & Hpow & Hmask & _ & _).
    assert (Hsbp : 2 ^ n < 2 ^ sb) by (apply Z.pow_lt_mono_r; lia).
    cbn [exec objs buf]. rewrite sign_cell. cbn [bind cty_of pat csz].
    replace ((0 <=? n - 1) && (n - 1 <? Z.max 32 sb)) with true by lia.
    cbn [sval]. replace (p <? 2 ^ (sb - 1)) with true by lia.
    rewrite sign_bit by lia.
    destruct (Z.ltb_spec p (2 ^ (n - 1))) as [Hl|Hg]; cbn [Z.eqb].
    - rewrite Z.mod_small by lia. reflexivity.
    - rewrite mem_set_set. cbn [upat]. rewrite Hmask.
      replace (- 2 ^ n) with ((-1) * 2 ^ n) by ring.
      rewrite lor_disjoint by lia.
      replace (p + -1 * 2 ^ n) with (p - 2 ^ n) by ring. reflexivity.
  Qed.

  Lemma shl_go q d : 0 <= d ->
    exec (mkst S (mem_set M0 ch q)) (SShlGo ch d) =
    Some (mkst S (mem_set M0 ch (upat (CS sb) (sval (CS sb) q * 2 ^ d)))).
  Proof.
    intros Hd. cbn [exec objs buf]. rewrite sign_cell. cbn [bind cty_of pat is_cbool orb].
    replace (d <? 0) with false by lia. now rewrite mem_set_set.
  Qed.

  Lemma shr_go q d : 0 <= d ->
    exec (mkst S (mem_set M0 ch q)) (SShrGo ch d) =
    Some (mkst S (mem_set M0 ch (upat (CS sb) (Z.shiftr (sval (CS sb) q) d)))).
  Proof.
    intros Hd. cbn [exec objs buf]. rewrite sign_cell. cbn [bind cty_of pat is_cbool orb].
    replace (d <? 0) with false by lia. now rewrite mem_set_set.
  Qed.

  Lemma sign_go :
    run [SShlGo ch (go_sign_d sb n); SShrGo ch (go_sign_d sb n)] (mkst S (mem_set M0 ch p)) =
    Some (mkst S (mem_set M0 ch ((if p <? 2 ^ (n - 1) then p else p - 2 ^ n) mod 2 ^ sb))).
  Proof.
    destruct sign_facts as (Hlt & H64 & Hpow & _ & Hd & _). rewrite Hd.
    set (d := sb - n).
    assert (Hpd : 0 < 2 ^ d) by (apply pow2_pos; lia).
    assert (Hsplit : 2 ^ sb = 2 ^ n * 2 ^ d).
    { rewrite <- Z.pow_add_r by lia. f_equal. lia. }
    assert (Hhalf : 2 ^ (sb - 1) = 2 ^ (n - 1) * 2 ^ d).
    { rewrite <- Z.pow_add_r by lia. f_equal. lia. }
    assert (H2n : 2 ^ n = 2 * 2 ^ (n - 1)).
    { replace n with (1 + (n - 1)) at 1 by lia. rewrite Z.pow_add_r by lia. reflexivity. }
    assert (Hh : 0 < 2 ^ (n - 1)) by (apply pow2_pos; lia).
    cbn [run]. rewrite shl_go by lia. cbn [bind]. rewrite shr_go by lia. cbn [bind].
    do 3 f_equal.
    cbn [sval upat]. replace (p <? 2 ^ (sb - 1)) with true by lia.
    rewrite (Z.mod_small (p * 2 ^ d)) by nia.
    rewrite Z.shiftr_div_pow2 by lia.
    destruct (Z.ltb_spec p (2 ^ (n - 1))) as [Hl|Hg].
    - replace (p * 2 ^ d <? 2 ^ (sb - 1)) with true by nia.
      now rewrite Z.div_mul by lia.
    - replace (p * 2 ^ d <? 2 ^ (sb - 1)) with false by nia.
      replace (p * 2 ^ d - 2 ^ sb) with ((p - 2 ^ n) * 2 ^ d) by (rewrite Hsplit; ring).
      now rewrite Z.div_mul by lia.
  Qed.
End Sign.

Lemma post_dec L lf ch M0 S X :
  leaf_ok lf -> mem_get M0 ch = Some (mkcell (leaf_cty lf) 0) ->
  run (post L false lf ch) (mkst S (mem_set M0 ch (X mod 2 ^ leaf_bits lf))) =
  Some (mkst S (mem_set M0 ch (dec_pat lf X))).
Proof.
  intros Hok Hget. unfold post, dec_pat, leaf_bits, leaf_ok, leaf_cty in *.
  destruct (lk lf) as [| |n|n|n]; try reflexivity. cbv zeta.
  assert (Hp : 0 <= X mod 2 ^ n < 2 ^ n) by (apply Z.mod_pos_bound, pow2_pos; lia).
  destruct (width_spec n Hok) as (A & B & C & D & E & F & G).
  destruct (c_no_sign_stmt n) eqn:Ens.
  - rewrite (C eq_refl). rewrite sext_same by lia.
    destruct L; try rewrite E; reflexivity.
  - destruct L.
    + cbn [run]. rewrite (sign_c ch M0 S n 0 (X mod 2 ^ n) Hok Ens Hget Hp). reflexivity.
    + cbn [run]. rewrite (sign_c ch M0 S n 0 (X mod 2 ^ n) Hok Ens Hget Hp). reflexivity.
    + rewrite E. apply (sign_go ch M0 S n 0 (X mod 2 ^ n) Hok Ens Hget Hp).
Qed.

(* ---------- one field, decode: every language ---------- *)

Theorem leaf_decode L lf ch M0 S i0 :
  leaf_ok lf -> mem_get M0 ch = Some (mkcell (leaf_cty lf) 0) ->
  0 <= i0 -> bytes_ok S -> i0 + leaf_bits lf <= 8 * Z.of_nat (length S) ->
  run (leaf_stmts L false (ch, lf) i0) (mkst S M0) =
  Some (mkst S (mem_set M0 ch (dec_pat lf (bufZ S / 2 ^ i0)))).
Proof.
  intros Hok Hget Hi0 HS Hlen.
  destruct (leaf_facts lf Hok) as (Hn & _ & _). cbv zeta in Hn.
  unfold leaf_stmts. cbn [fst snd]. rewrite run_app. unfold leaf_plan.
  set (X := bufZ S / 2 ^ i0).
  destruct (plan_loop_inv (item L false lf ch) (DecInv S M0 ch X) i0 (leaf_bits lf))
    with (fuel := Z.to_nat (leaf_bits lf)) (j := 0) (st := mkst S M0) as (st' & Hrun & HI).
  - intros j st Hj HI. destruct L.
    + eapply dec_step_cle; eauto.
    + eapply dec_step_cbe; eauto.
    + eapply dec_step_go; eauto.
  - lia.
  - lia.
  - split; [reflexivity|]. cbn [objs]. change (2 ^ 0) with 1. rewrite Z.mod_1_r.
    symmetry. eapply mem_set_same. exact Hget.
  - rewrite Z.add_0_r in Hrun. rewrite Hrun. cbn [bind].
    destruct HI as (Hb & Ho). destruct st' as [b o]. cbn [buf objs] in *. subst b o.
    apply post_dec; assumption.
Qed.
