(* FrontValidProofs.v — Front.check accepts exactly the schemas that satisfy the documented
   constraints (FrontValid.Valid). *)
From Coq Require Import ZArith List Bool String Lia ZifyBool.
From BP Require Import Schema FrontBase Front FrontProofs FrontValid.
From BPGen Require GenFront.
Import ListNotations.
Open Scope Z_scope.

Ltac Zify.zify_post_hook ::= Z.div_mod_to_equations.

(* ------------------------------------------------------------------------------------ *)
(* the validators of _ast.py (translated: GenFront) against the documented bounds         *)
(* ------------------------------------------------------------------------------------ *)

Lemma uint_cap_bridge n : GenFront.uint_cap_raises n = false <-> width_ok n.
Proof. unfold GenFront.uint_cap_raises, width_ok. lia. Qed.

Lemma int_cap_bridge n : GenFront.int_cap_raises n = false <-> width_ok n.
Proof. unfold GenFront.int_cap_raises, width_ok. lia. Qed.

Lemma array_cap_bridge n : GenFront.array_cap_raises n = false <-> cap_ok n.
Proof. unfold GenFront.array_cap_raises, cap_ok. lia. Qed.

Lemma field_number_bridge n : GenFront.field_number_raises n = false <-> number_ok n.
Proof. unfold GenFront.field_number_raises, number_ok. lia. Qed.

Lemma enum_value_sign_bridge v : GenFront.enum_value_raises v = false <-> 0 <= v.
Proof. unfold GenFront.enum_value_raises. lia. Qed.

Lemma message_size_bridge nb : GenFront.message_size_raises nb = false <-> msg_bits_ok nb.
Proof. unfold GenFront.message_size_raises, msg_bits_ok. lia. Qed.

Lemma nbytes_bridge nb : GenFront.nbytes nb = (nb + 7) / 8.
Proof. unfold GenFront.nbytes. destruct (Z.eqb_spec (nb mod 8) 0); lia. Qed.

Lemma max_bytes_bridge mb nb :
  GenFront.message_max_bytes_raises mb (GenFront.nbytes nb) = false <-> msg_bytes_ok mb nb.
Proof. rewrite nbytes_bridge. unfold GenFront.message_max_bytes_raises, msg_bytes_ok. lia. Qed.

(* bit_length(v) > n  <->  v >= 2^n   (v >= 0, n >= 0) *)
Lemma enum_overflow_bridge v n :
  0 <= v -> 0 <= n -> (GenFront.enum_value_overflows v n = false <-> v < 2 ^ n).
Proof.
  intros Hv Hn. unfold GenFront.enum_value_overflows.
  assert (H : Z.log2_up (v + 1) <= n <-> v + 1 <= 2 ^ n) by (symmetry; apply Z.log2_up_le_pow2; lia).
  split; intros E.
  - assert (Z.log2_up (v + 1) <= n) by lia. lia.
  - assert (Z.log2_up (v + 1) <= n) by (apply H; lia). lia.
Qed.

(* the sizes the validators see are the sizes of the specification *)
Lemma ty_nbits_eq t : ty_nbits t = nbits t.
Proof.
  induction t as [| | n | n | n ms | t IH | x c e IH | x fs IH] using ty_ind'; try reflexivity.
  - cbn [ty_nbits nbits]. exact IH.
  - cbn [ty_nbits nbits]. rewrite IH. unfold GenFront.array_nbits, ext_bits. destruct x; cbn [negb]; lia.
  - cbn [ty_nbits nbits]. unfold GenFront.message_nbits, ext_bits.
    assert (E : (fix go (l : list (Z * ty)) : Z :=
                   match l with [] => 0 | kf :: r => ty_nbits (snd kf) + go r end) fs =
                (fix go (l : list (Z * ty)) : Z :=
                   match l with [] => 0 | kf :: r => nbits (snd kf) + go r end) fs).
    { induction fs as [|kf r IHr]; [reflexivity|]. inversion IH as [|? ? Hk Hr]; subst.
      rewrite Hk. f_equal. apply IHr, Hr. }
    rewrite E. destruct x; cbn [negb]; lia.
Qed.

(* ------------------------------------------------------------------------------------ *)
(* references, types, constants                                                           *)
(* ------------------------------------------------------------------------------------ *)

Lemma mem_s_false s l : mem_s s l = false <-> ~ In s l.
Proof.
  unfold mem_s. induction l as [|h r IH]; cbn [existsb In]; [intuition|].
  destruct (String.eqb_spec s h) as [->|N]; cbn [orb].
  - split; [discriminate|]. intros H. exfalso. apply H. now left.
  - rewrite IH. split; [intros H [E|E]; [congruence|contradiction]|intros H E; apply H; now right].
Qed.

Lemma mem_z_false z l : mem_z z l = false <-> ~ In z l.
Proof.
  unfold mem_z. induction l as [|h r IH]; cbn [existsb In]; [intuition|].
  destruct (Z.eqb_spec z h) as [->|N]; cbn [orb].
  - split; [discriminate|]. intros H. exfalso. apply H. now left.
  - rewrite IH. split; [intros H [E|E]; [congruence|contradiction]|intros H E; apply H; now right].
Qed.

Section ResolveSpec.
  Variable file : string.
  Variable trad : bool.
  Variable st : list frame.
  Variable l : Z.

  Lemma resolve_const_ref_spec p v :
    resolve_const_ref file st l p = Ok v <-> const_ref st p v.
  Proof.
    unfold resolve_const_ref, const_ref. destruct (lookup st p) as [d|].
    - destruct (def_const d) as [v0|] eqn:E.
      + split; [intros H; inversion H; subst; now exists d|].
        intros [d' [H1 H2]]. inversion H1; subst. congruence.
      + split; [discriminate|]. intros [d' [H1 H2]]. inversion H1; subst. congruence.
    - split; [discriminate|]. intros [d' [H1 _]]. discriminate.
  Qed.

  Lemma resolve_sty_spec s t r : resolve_sty file st l s = Ok (t, r) <-> sty_ok st s t r.
  Proof.
    destruct s as [| |n|n|p]; cbn [resolve_sty].
    - split; [intros H; inversion H; constructor|intros H; now inversion H].
    - split; [intros H; inversion H; constructor|intros H; now inversion H].
    - destruct (GenFront.uint_cap_raises n) eqn:E.
      + split; [discriminate|]. intros H. inversion H; subst. apply uint_cap_bridge in H1. congruence.
      + split; [intros H; inversion H; constructor; now apply uint_cap_bridge|intros H; now inversion H].
    - destruct (GenFront.int_cap_raises n) eqn:E.
      + split; [discriminate|]. intros H. inversion H; subst. apply int_cap_bridge in H1. congruence.
      + split; [intros H; inversion H; constructor; now apply int_cap_bridge|intros H; now inversion H].
    - rewrite resolve_type_ref_spec. split.
      + intros [d [H1 [H2 ->]]]. now apply SORef.
      + intros H. inversion H; subst. exists d. now repeat split.
  Qed.

  Lemma resolve_cap_spec c n : resolve_cap file st l c = Ok n <-> capx_ok st c n.
  Proof.
    destruct c as [z|p]; cbn [resolve_cap].
    - split; [intros H; inversion H; constructor|intros H; now inversion H].
    - destruct (resolve_const_ref file st l p) as [v|] eqn:E; cbn [bind].
      + apply resolve_const_ref_spec in E. split.
        * destruct v; intros H; inversion H; subst. now constructor.
        * intros H. inversion H as [|? ? [d [H1 H2]]]; subst. destruct E as [d' [H3 H4]].
          rewrite H1 in H3. inversion H3; subst. rewrite H2 in H4. now inversion H4.
      + split; [discriminate|]. intros H. inversion H as [|? ? Hc]; subst.
        apply resolve_const_ref_spec in Hc. congruence.
  Qed.

  Lemma resolve_tyx_spec t ty r : resolve_tyx file trad st l t = Ok (ty, r) <-> tyx_ok trad st t ty r.
  Proof.
    destruct t as [s|s c ext]; cbn [resolve_tyx].
    - rewrite resolve_sty_spec. split; [now constructor|intros H; now inversion H].
    - destruct (resolve_sty file st l s) as [[t0 r0]|] eqn:Es; cbn [bind].
      2:{ split; [discriminate|]. intros H. inversion H; subst.
          match goal with H : sty_ok _ _ _ _ |- _ => apply resolve_sty_spec in H; congruence end. }
      destruct (resolve_cap file st l c) as [n|] eqn:Ec; cbn [bind].
      2:{ split; [discriminate|]. intros H. inversion H; subst.
          match goal with H : capx_ok _ _ _ |- _ => apply resolve_cap_spec in H; congruence end. }
      apply resolve_sty_spec in Es. apply resolve_cap_spec in Ec.
      destruct (ext && trad) eqn:Ex.
      { split; [discriminate|]. intros H. inversion H; subst.
        destruct ext; [|discriminate]. cbn in Ex. match goal with H : true = true -> _ |- _ => rewrite (H eq_refl) in Ex end. discriminate. }
      destruct (GenFront.array_cap_raises n) eqn:Ea.
      { split; [discriminate|]. intros H. inversion H; subst.
        assert (n0 = n).
        { match goal with H : capx_ok _ _ n0 |- _ => apply resolve_cap_spec in H end.
          apply resolve_cap_spec in Ec. congruence. }
        subst. match goal with H : cap_ok _ |- _ => apply array_cap_bridge in H end. congruence. }
      cbn [fst snd]. split.
      + intros H. inversion H; subst. apply TOArr; try assumption; [now apply array_cap_bridge|].
        intros ->. destruct trad; [discriminate|reflexivity].
      + intros H. inversion H; subst.
        assert (n0 = n).
        { match goal with H : capx_ok _ _ n0 |- _ => apply resolve_cap_spec in H end.
          apply resolve_cap_spec in Ec. congruence. }
        assert (HH : t = t0 /\ r = r0).
        { match goal with H : sty_ok _ _ t r |- _ => apply resolve_sty_spec in H end.
          apply resolve_sty_spec in Es. split; congruence. }
        destruct HH; subst. reflexivity.
  Qed.

  Lemma eval_cexpr_sound div0 e z : eval_cexpr file st l e = Ok z -> cexpr_ok div0 st e z.
  Proof.
    revert z. induction e as [z0|p|a IHa b IHb|a IHa b IHb|a IHa b IHb|a IHa b IHb]; intros z; cbn [eval_cexpr].
    - intros H. inversion H. constructor.
    - destruct (resolve_const_ref file st l p) as [v|] eqn:E; cbn [bind]; [|discriminate].
      apply resolve_const_ref_spec in E. destruct v; intros H; inversion H; subst. now constructor.
    - destruct (eval_cexpr file st l a); cbn [bind]; [|discriminate].
      destruct (eval_cexpr file st l b); cbn [bind]; [|discriminate].
      intros H. inversion H. constructor; auto.
    - destruct (eval_cexpr file st l a); cbn [bind]; [|discriminate].
      destruct (eval_cexpr file st l b); cbn [bind]; [|discriminate].
      intros H. inversion H. constructor; auto.
    - destruct (eval_cexpr file st l a); cbn [bind]; [|discriminate].
      destruct (eval_cexpr file st l b); cbn [bind]; [|discriminate].
      intros H. inversion H. constructor; auto.
    - destruct (eval_cexpr file st l a); cbn [bind]; [|discriminate].
      destruct (eval_cexpr file st l b) as [y|]; cbn [bind]; [|discriminate].
      destruct (Z.eqb_spec y 0); [discriminate|].
      intros H. inversion H. constructor; auto.
  Qed.

  Lemma const_ref_fun p v v' : const_ref st p v -> const_ref st p v' -> v = v'.
  Proof. intros [d [H1 H2]] [d' [H3 H4]]. congruence. Qed.

  Lemma eval_cexpr_complete e z : cexpr_ok false st e z -> eval_cexpr file st l e = Ok z.
  Proof.
    induction 1 as [z|p z Hc|a b x y _ IHa _ IHb|a b x y _ IHa _ IHb|a b x y _ IHa _ IHb|a b x y _ IHa _ IHb Hd];
      cbn [eval_cexpr]; try (rewrite IHa, IHb; reflexivity); try reflexivity.
    - apply resolve_const_ref_spec in Hc. now rewrite Hc.
    - rewrite IHa, IHb. cbn [bind]. destruct Hd as [Hd|Hd]; [|discriminate].
      destruct (Z.eqb_spec y 0); [contradiction|reflexivity].
  Qed.

  Lemma eval_cvalx_sound div0 v cv : eval_cvalx file st l v = Ok cv -> cvalx_ok div0 st v cv.
  Proof.
    destruct v as [b|s|p|e]; cbn [eval_cvalx].
    - intros H; inversion H; constructor.
    - intros H; inversion H; constructor.
    - intros H. constructor. now apply resolve_const_ref_spec.
    - destruct (eval_cexpr file st l e) as [z|] eqn:E; cbn [bind]; [|discriminate].
      intros H; inversion H. constructor. now apply eval_cexpr_sound.
  Qed.

  Lemma eval_cvalx_complete v cv : cvalx_ok false st v cv -> eval_cvalx file st l v = Ok cv.
  Proof.
    intros H. inversion H; subst; cbn [eval_cvalx]; try reflexivity.
    - now apply resolve_const_ref_spec.
    - now rewrite (eval_cexpr_complete _ _ H0).
  Qed.

  Lemma eval_optx_spec v cv : eval_optx file st l v = Ok cv <-> optx_ok st v cv.
  Proof.
    destruct v as [v|p]; cbn [eval_optx].
    - split; [intros H; inversion H; constructor|intros H; now inversion H].
    - rewrite resolve_const_ref_spec. split; [now constructor|intros H; now inversion H].
  Qed.
End ResolveSpec.

(* ------------------------------------------------------------------------------------ *)
(* pushing members                                                                        *)
(* ------------------------------------------------------------------------------------ *)

Lemma vclass_eqb_eq a b : vclass_eqb a b = true <-> a = b.
Proof. destruct a, b; cbn; split; congruence. Qed.

Lemma validate_option_spec table a name v :
  validate_option table a name v = Ok tt <-> option_ok table name v.
Proof.
  unfold validate_option, option_ok. destruct (find_odesc name table) as [d|].
  2:{ split; [discriminate|]. intros [d [H _]]. discriminate. }
  destruct (vclass_eqb (class_of v) (class_of (od_default d))) eqn:Ec; cbn [negb].
  2:{ split; [discriminate|]. intros [d' [H [Hc _]]]. inversion H; subst.
      apply vclass_eqb_eq in Hc. congruence. }
  apply vclass_eqb_eq in Ec.
  destruct (od_validator d) as [f|] eqn:Ev.
  - destruct v as [b|z|s].
    + split; [intros _; exists d; repeat split; [exact Ec|intros ? ? _ H; discriminate]|reflexivity].
    + destruct (f z) eqn:Ef.
      * split; [intros _; exists d; repeat split; [exact Ec|]|reflexivity].
        intros f' z' Hf Hz. rewrite Ev in Hf. inversion Hf; inversion Hz; subst. exact Ef.
      * split; [discriminate|]. intros [d' [H [_ Hv]]]. inversion H; subst.
        rewrite (Hv f z Ev eq_refl) in Ef. discriminate.
    + split; [intros _; exists d; repeat split; [exact Ec|intros ? ? _ H; discriminate]|reflexivity].
  - split; [intros _; exists d; repeat split; [exact Ec|intros ? ? H; congruence]|].
    intros _. destruct v; reflexivity.
Qed.

Lemma push_member_spec f name d f' :
  push_member f name d = Ok f' <->
  fresh name f /\ validate_on_push f name d = Ok tt /\ f' = add_member f name d.
Proof.
  unfold push_member, fresh, add_member. destruct (has_name name (fmem f)).
  - split; [discriminate|]. intros [H _]. discriminate.
  - destruct (validate_on_push f name d) as [[]|]; cbn [bind].
    + split; [intros H; inversion H; now repeat split|intros [_ [_ ->]]; reflexivity].
    + split; [discriminate|]. intros [_ [H _]]. discriminate.
Qed.

Lemma push_then_spec f ik name d f' :
  push_then f ik name d = Ok f' <->
  fresh name f /\ validate_on_push f name d = Ok tt /\ unsupported f ik (def_loc d) = Ok tt /\
  f' = add_member f name d.
Proof.
  unfold push_then. destruct (push_member f name d) as [f0|] eqn:E; cbn [bind].
  - apply push_member_spec in E. destruct E as [Hf [Hv ->]].
    destruct (unsupported f ik (def_loc d)) as [[]|]; cbn [bind].
    + split; [intros H; inversion H; now repeat split|intros [_ [_ [_ ->]]]; reflexivity].
    + split; [discriminate|]. intros [_ [_ [H _]]]. discriminate.
  - split; [discriminate|]. intros [Hf [Hv [_ ->]]].
    assert (push_member f name d = Ok (add_member f name d)) by (apply push_member_spec; now repeat split).
    congruence.
Qed.

Lemma frame_kind_cases f :
  in_file_scope f \/ in_message_scope f \/ exists a n, fk f = FEnum a n.
Proof.
  unfold in_file_scope, in_message_scope. destruct (fk f) as [n|a x|a n]; eauto.
Qed.

(* ------------------------------------------------------------------------------------ *)
(* statements: proc_item succeeds exactly on the statements that meet the clauses         *)
(* ------------------------------------------------------------------------------------ *)

Section ItemEquiv.
  Variable pc : list string -> string -> res def.
  Variable vc : list string -> string -> def -> Prop.
  Variable kf : string -> bool.
  Variable trad : bool.
  Variable file : string.
  Variable fstack : list string.

  Notation PI := (proc_item pc kf trad file fstack).
  Notation PIS := (proc_items pc kf trad file fstack).

  Lemma item_sound div0 :
    (forall stk g d, pc stk g = Ok d -> vc stk g d) ->
    forall it outer cur cur',
      PI outer cur it = Ok cur' -> item_ok vc kf trad div0 file fstack outer cur it cur'.
  Proof.
    intros Hpc. induction it as [l nm|l a g|l nm v|l nm v|l nm t|l nm b body IH|l nm x body IH|l t nm k|l nm v]
      using item_ind'; intros outer cur cur' H.
    - (* proto *)
      cbn [proc_item] in H. cbn [item_ok]. unfold in_file_scope.
      destruct (fk cur) eqn:E; inversion H; subst. split; [eauto|reflexivity].
    - (* import *)
      cbn [proc_item] in H. cbn [item_ok].
      destruct (kf g) eqn:Ek; cbn [negb] in H; [|discriminate].
      destruct (mem_s g fstack) eqn:Ec; [discriminate|].
      destruct (mem_s g (imported_files (fmem (last_frame cur outer)))) eqn:Ed; [discriminate|].
      destruct (pc fstack g) as [child|] eqn:Ep; cbn [bind] in H; [|discriminate].
      match type of H with (if has_name ?n _ then _ else _) = _ => set (name := n) in * end.
      destruct (has_name name (fmem (last_frame cur outer))) eqn:En; [discriminate|].
      destruct (push_member cur name child) as [f'|] eqn:Em; cbn [bind] in H; [|discriminate].
      apply push_member_spec in Em. destruct Em as [Hf [_ ->]].
      destruct (fk cur) as [pn|a0 x0|a0 n0] eqn:Efk; try discriminate. inversion H; subst cur'.
      split; [unfold in_file_scope; eauto|]. split; [reflexivity|].
      split; [now apply mem_s_false|]. split; [now apply mem_s_false|].
      exists child, name. split; [now apply Hpc|]. split; [reflexivity|]. now repeat split.
    - (* option *)
      cbn [proc_item] in H. cbn [item_ok].
      destruct (eval_optx file (cur :: outer) l v) as [cv|] eqn:Ev; cbn [bind] in H; [|discriminate].
      apply eval_optx_spec in Ev. apply push_then_spec in H. destruct H as [Hf [Hv [Hu ->]]].
      unfold unsupported, validate_on_push, scope_options, in_file_or_message, in_file_scope, in_message_scope in *.
      cbn [def_loc] in *.
      destruct (fk cur) as [pn|a0 x0|a0 n0] eqn:Efk; try discriminate.
      + split; [left; eauto|]. exists cv. repeat split; try assumption. now apply validate_option_spec in Hv.
      + split; [right; eauto|]. exists cv. repeat split; try assumption. now apply validate_option_spec in Hv.
    - (* const *)
      cbn [proc_item] in H. cbn [item_ok].
      destruct (eval_cvalx file (cur :: outer) l v) as [cv|] eqn:Ev; cbn [bind] in H; [|discriminate].
      apply (eval_cvalx_sound _ _ _ div0) in Ev. apply push_then_spec in H. destruct H as [Hf [_ [Hu ->]]].
      unfold unsupported, in_file_scope in *. cbn [def_loc] in *.
      destruct (fk cur) as [pn|a0 x0|a0 n0] eqn:Efk; try discriminate.
      split; [eauto|]. exists cv. now repeat split.
    - (* alias *)
      cbn [proc_item] in H. cbn [item_ok].
      destruct (resolve_tyx file trad (cur :: outer) l t) as [[ty r]|] eqn:Et; cbn [bind] in H; [|discriminate].
      apply resolve_tyx_spec in Et.
      assert (Hp : push_then cur IKAlias nm (DAlias (mkloc file l) ty r) = Ok cur' /\ alias_target_unnamed t).
      { destruct t as [[| | | |p]|]; cbn [alias_target_unnamed fst snd] in *; try (split; [exact H|exact I]). discriminate. }
      destruct Hp as [Hp Ha]. apply push_then_spec in Hp. destruct Hp as [Hf [_ [Hu ->]]].
      unfold unsupported, in_file_scope in *. cbn [def_loc] in *.
      destruct (fk cur) as [pn|a0 x0|a0 n0] eqn:Efk; try discriminate.
      split; [eauto|]. exists ty, r. now repeat split.
    - (* enum *)
      destruct b as [| |w|w|p];
        try (cbn in H; repeat match type of H with (if ?c then _ else _) = _ => destruct c end; discriminate).
      rewrite proc_item_enum in H. cbn [item_ok].
      destruct (GenFront.uint_cap_raises w) eqn:Ew; [discriminate|].
      destruct (PIS (cur :: outer) (mkframe (FEnum (mkloc file l) w) []) body) as [fr|] eqn:Eb; cbn [bind] in H; [|discriminate].
      apply push_then_spec in H. destruct H as [Hf [_ [Hu ->]]].
      assert (Hin : in_file_or_message cur).
      { unfold unsupported, in_file_or_message, in_file_scope, in_message_scope in *.
        destruct (fk cur); try discriminate; eauto. }
      split; [exact Hin|]. exists w, fr. split; [reflexivity|]. split; [now apply uint_cap_bridge|].
      split; [|now split].
      clear Hf Hu Hin. revert Eb. generalize (mkframe (FEnum (mkloc file l) w) []).
      induction body as [|i r IHr]; intros f0 Eb.
      + cbn [proc_items] in Eb. now inversion Eb.
      + inversion IH as [|? ? Hi Hr]; subst.
        cbn [proc_items] in Eb. destruct (PI (cur :: outer) f0 i) as [fm|] eqn:Ei; cbn [bind] in Eb; [|discriminate].
        exists fm. split; [now apply Hi|]. now apply IHr.
    - (* message *)
      rewrite proc_item_msg in H. cbn [item_ok].
      destruct (x && trad) eqn:Ex; [discriminate|].
      destruct (PIS (cur :: outer) (mkframe (FMsg (mkloc file l) x) []) body) as [fr|] eqn:Eb; cbn [bind] in H; [|discriminate].
      destruct (close_msg (mkloc file l) x fr) as [d|] eqn:Ecl; cbn [bind] in H; [|discriminate].
      apply push_then_spec in H. destruct H as [Hf [_ [Hu ->]]].
      assert (Hin : in_file_or_message cur).
      { unfold unsupported, in_file_or_message, in_file_scope, in_message_scope in *.
        destruct (fk cur); try discriminate; eauto. }
      split; [exact Hin|]. split; [intros ->; destruct trad; [discriminate|reflexivity]|].
      exists fr. split.
      + clear Hf Hu Hin Ecl. revert Eb. generalize (mkframe (FMsg (mkloc file l) x) []).
        induction body as [|i r IHr]; intros f0 Eb.
        * cbn [proc_items] in Eb. now inversion Eb.
        * inversion IH as [|? ? Hi Hr]; subst.
          cbn [proc_items] in Eb. destruct (PI (cur :: outer) f0 i) as [fm|] eqn:Ei; cbn [bind] in Eb; [|discriminate].
          exists fm. split; [now apply Hi|]. now apply IHr.
      + unfold close_msg in Ecl. rewrite ty_nbits_eq in Ecl.
        destruct (GenFront.message_size_raises _) eqn:E1; [discriminate|].
        destruct (GenFront.message_max_bytes_raises _ _) eqn:E2; [discriminate|].
        inversion Ecl; subst d. cbv zeta.
        split; [now apply message_size_bridge|]. split; [now apply max_bytes_bridge|]. now split.
    - (* field *)
      cbn [proc_item] in H. cbn [item_ok].
      destruct (is_proto_frame cur) eqn:Ep.
      { unfold lex_then_grammar in H. destruct (tyx_head t); try discriminate;
          match type of H with (if ?c then _ else _) = _ => destruct c end; discriminate. }
      destruct (resolve_tyx file trad (cur :: outer) l t) as [[ty r]|] eqn:Et; cbn [bind] in H; [|discriminate].
      apply resolve_tyx_spec in Et.
      destruct (GenFront.field_number_raises k) eqn:En; [discriminate|].
      apply push_then_spec in H. cbn [fst snd] in H. destruct H as [Hf [Hv [Hu ->]]].
      unfold unsupported, validate_on_push, in_message_scope, is_proto_frame in *. cbn [def_loc] in *.
      destruct (fk cur) as [pn|a0 x0|a0 n0] eqn:Efk; try discriminate.
      split; [eauto|]. exists ty, r. split; [exact Et|]. split; [now apply field_number_bridge|].
      split; [|now split].
      destruct (mem_z k (field_numbers (fmem cur))) eqn:Em; [discriminate|]. now apply mem_z_false.
    - (* enum member *)
      cbn [proc_item] in H. cbn [item_ok].
      destruct (is_enum_frame cur) eqn:Ee; cbn [negb] in H; [|discriminate].
      destruct (GenFront.enum_value_raises v) eqn:Es; [discriminate|].
      apply push_member_spec in H. destruct H as [Hf [Hv ->]].
      unfold validate_on_push, is_enum_frame in *. cbn [def_loc] in *.
      destruct (fk cur) as [pn|a0 x0|a0 n0] eqn:Efk; try discriminate.
      exists a0, n0. split; [reflexivity|].
      destruct (GenFront.enum_value_overflows v n0) eqn:Eo; [discriminate|].
      destruct (mem_z v (enum_values (fmem cur))) eqn:Em; [discriminate|].
      apply enum_value_sign_bridge in Es.
      assert (Hn0 : 0 <= n0 \/ n0 < 0) by lia.
      split; [|split; [now apply mem_z_false|now split]].
      unfold enum_value_fits. split; [exact Es|].
      destruct Hn0 as [Hn0|Hn0]; [now apply enum_overflow_bridge|].
      (* a negative width cannot be reached: bit_length >= 0 > n0 would overflow *)
      exfalso. unfold GenFront.enum_value_overflows in Eo.
      assert (0 <= Z.log2_up (v + 1)) by apply Z.log2_up_nonneg. lia.
  Qed.

  Lemma unsupported_file f ik a : in_file_scope f -> unsupported f ik a = Ok tt.
  Proof. intros [n E]. unfold unsupported. rewrite E. destruct ik; reflexivity. Qed.

  Lemma item_complete :
    (forall stk g d, vc stk g d -> pc stk g = Ok d) ->
    (forall stk g d, vc stk g d -> exists f n m, d = DProto f n m) ->
    forall it outer cur cur',
      item_ok vc kf trad false file fstack outer cur it cur' -> PI outer cur it = Ok cur'.
  Proof.
    intros Hvc Hpr. induction it as [l nm|l a g|l nm v|l nm v|l nm t|l nm b body IH|l nm x body IH|l t nm k|l nm v]
      using item_ind'; intros outer cur cur' H.
    - (* proto *)
      cbn [item_ok] in H. destruct H as [[n E] ->]. cbn [proc_item]. now rewrite E.
    - (* import *)
      cbn [item_ok] in H. destruct H as [[pn E] [Hk [Hc [Hd [child [name [Hv [Hn [Hf1 [Hf2 ->]]]]]]]]]].
      cbn [proc_item]. rewrite Hk. cbn [negb].
      apply mem_s_false in Hc. rewrite Hc. apply mem_s_false in Hd. rewrite Hd.
      rewrite (Hvc _ _ _ Hv). cbn [bind]. rewrite <- Hn. unfold fresh in Hf1. rewrite Hf1.
      assert (Hp : push_member cur name child = Ok (add_member cur name child)).
      { apply push_member_spec. repeat split; [exact Hf2|].
        unfold validate_on_push. rewrite E. destruct (Hpr _ _ _ Hv) as [f0 [n0 [m0 ->]]]. reflexivity. }
      rewrite Hp. cbn [bind]. rewrite E. reflexivity.
    - (* option *)
      cbn [item_ok] in H. destruct H as [Hin [cv [Hv [Ho [Hf ->]]]]].
      cbn [proc_item]. apply eval_optx_spec with (file := file) (l := l) in Hv. rewrite Hv. cbn [bind].
      apply push_then_spec. repeat split; [exact Hf| |].
      + unfold validate_on_push, scope_options in *. cbn [def_loc].
        destruct Hin as [[n E]|[a0 [x0 E]]]; rewrite E in *; now apply validate_option_spec.
      + unfold unsupported. destruct Hin as [[n E]|[a0 [x0 E]]]; rewrite E; reflexivity.
    - (* const *)
      cbn [item_ok] in H. destruct H as [Hin [cv [Hv [Hf ->]]]].
      cbn [proc_item]. rewrite (eval_cvalx_complete file _ l _ _ Hv). cbn [bind].
      apply push_then_spec. repeat split; [exact Hf| |now apply unsupported_file].
      unfold validate_on_push. destruct Hin as [n E]. rewrite E. reflexivity.
    - (* alias *)
      cbn [item_ok] in H. destruct H as [Hin [ty [r [Ht [Ha [Hf ->]]]]]].
      cbn [proc_item]. apply resolve_tyx_spec with (file := file) (l := l) in Ht. rewrite Ht. cbn [bind fst snd].
      assert (Hp : push_then cur IKAlias nm (DAlias (mkloc file l) ty r) =
                   Ok (add_member cur nm (DAlias (mkloc file l) ty r))).
      { apply push_then_spec. repeat split; [exact Hf| |now apply unsupported_file].
        unfold validate_on_push. destruct Hin as [n E]. rewrite E. reflexivity. }
      destruct t as [[| | | |p]|]; cbn [alias_target_unnamed] in Ha; try exact Hp. contradiction.
    - (* enum *)
      cbn [item_ok] in H. destruct H as [Hin [w [fr [-> [Hw [Hb [Hf ->]]]]]]].
      rewrite proc_item_enum. apply uint_cap_bridge in Hw. rewrite Hw.
      assert (Eb : PIS (cur :: outer) (mkframe (FEnum (mkloc file l) w) []) body = Ok fr).
      { clear Hf Hin. revert Hb. generalize (mkframe (FEnum (mkloc file l) w) []).
        induction body as [|i r IHr]; intros f0 Hb.
        - cbn [proc_items]. now subst.
        - inversion IH as [|? ? Hi Hr]; subst. destruct Hb as [fm [H1 H2]].
          cbn [proc_items]. rewrite (Hi _ _ _ H1). cbn [bind]. now apply IHr. }
      rewrite Eb. cbn [bind]. apply push_then_spec. repeat split; [exact Hf| |].
      + unfold validate_on_push, close_enum. destruct (fk cur); reflexivity.
      + unfold unsupported. destruct Hin as [[n E]|[a0 [x0 E]]]; rewrite E; reflexivity.
    - (* message *)
      cbn [item_ok] in H. destruct H as [Hin [Hx [fr [Hb Hrest]]]]. cbv zeta in Hrest.
      destruct Hrest as [Hs1 [Hs2 [Hf ->]]].
      rewrite proc_item_msg.
      assert (Ex : x && trad = false) by (destruct x; [rewrite (Hx eq_refl)|]; reflexivity).
      rewrite Ex.
      assert (Eb : PIS (cur :: outer) (mkframe (FMsg (mkloc file l) x) []) body = Ok fr).
      { clear Hf Hin Hs1 Hs2. revert Hb. generalize (mkframe (FMsg (mkloc file l) x) []).
        induction body as [|i r IHr]; intros f0 Hb.
        - cbn [proc_items]. now subst.
        - inversion IH as [|? ? Hi Hr]; subst. destruct Hb as [fm [H1 H2]].
          cbn [proc_items]. rewrite (Hi _ _ _ H1). cbn [bind]. now apply IHr. }
      rewrite Eb. cbn [bind]. unfold close_msg. rewrite ty_nbits_eq.
      apply message_size_bridge in Hs1. rewrite Hs1. apply max_bytes_bridge in Hs2. rewrite Hs2. cbn [bind].
      apply push_then_spec. repeat split; [exact Hf| |].
      + unfold validate_on_push. destruct (fk cur); reflexivity.
      + unfold unsupported. destruct Hin as [[n E]|[a0 [x0 E]]]; rewrite E; reflexivity.
    - (* field *)
      cbn [item_ok] in H. destruct H as [[a0 [x0 E]] [ty [r [Ht [Hn [Hu [Hf ->]]]]]]].
      cbn [proc_item]. unfold is_proto_frame. rewrite E.
      apply resolve_tyx_spec with (file := file) (l := l) in Ht. rewrite Ht. cbn [bind fst snd].
      apply field_number_bridge in Hn. rewrite Hn.
      apply push_then_spec. repeat split; [exact Hf| |].
      + unfold validate_on_push. rewrite E. apply mem_z_false in Hu. now rewrite Hu.
      + unfold unsupported. now rewrite E.
    - (* enum member *)
      cbn [item_ok] in H. destruct H as [a0 [n0 [E [[Hv0 Hv1] [Hu [Hf ->]]]]]].
      cbn [proc_item]. unfold is_enum_frame. rewrite E. cbn [negb].
      apply enum_value_sign_bridge in Hv0 as Hs. rewrite Hs.
      apply push_member_spec. repeat split; [exact Hf|].
      unfold validate_on_push. rewrite E.
      assert (Hn0 : 0 <= n0).
      { destruct (Z.leb_spec 0 n0) as [Hle|Hlt]; [exact Hle|]. rewrite Z.pow_neg_r in Hv1 by lia. lia. }
      apply (enum_overflow_bridge v n0 Hv0 Hn0) in Hv1. rewrite Hv1.
      apply mem_z_false in Hu. now rewrite Hu.
  Qed.
End ItemEquiv.

(* ------------------------------------------------------------------------------------ *)
(* statement lists and files                                                              *)
(* ------------------------------------------------------------------------------------ *)

Section ItemsEquiv.
  Variable pc : list string -> string -> res def.
  Variable vc : list string -> string -> def -> Prop.
  Variable kf : string -> bool.
  Variable trad : bool.
  Variable file : string.
  Variable fstack : list string.

  Lemma items_sound div0 :
    (forall stk g d, pc stk g = Ok d -> vc stk g d) ->
    forall its outer cur cur',
      proc_items pc kf trad file fstack outer cur its = Ok cur' ->
      items_ok vc kf trad div0 file fstack outer cur its cur'.
  Proof.
    intros Hpc. induction its as [|i r IH]; intros outer cur cur' H.
    - cbn [proc_items] in H. inversion H. reflexivity.
    - cbn [proc_items] in H.
      destruct (proc_item pc kf trad file fstack outer cur i) as [fm|] eqn:Ei; cbn [bind] in H; [|discriminate].
      exists fm. split; [now apply (item_sound pc vc)|now apply IH].
  Qed.

  Lemma items_complete :
    (forall stk g d, vc stk g d -> pc stk g = Ok d) ->
    (forall stk g d, vc stk g d -> exists f n m, d = DProto f n m) ->
    forall its outer cur cur',
      items_ok vc kf trad false file fstack outer cur its cur' ->
      proc_items pc kf trad file fstack outer cur its = Ok cur'.
  Proof.
    intros Hvc Hpr. induction its as [|i r IH]; intros outer cur cur' H.
    - cbn [items_ok] in H. now subst.
    - destruct H as [fm [H1 H2]]. cbn [proc_items].
      rewrite (item_complete pc vc kf trad file fstack Hvc Hpr _ _ _ _ H1). cbn [bind]. now apply IH.
  Qed.
End ItemsEquiv.

Lemma file_ok_proto n fs trad div0 stk g d :
  file_ok n fs trad div0 stk g d -> exists f nm m, d = DProto f nm m.
Proof. destruct n; [contradiction|]. intros [its [fr [name [_ [_ [_ ->]]]]]]. eauto. Qed.

Lemma file_sound div0 fs trad : forall n fstack f d,
  parse_file n fs trad fstack f = Ok d -> file_ok n fs trad div0 fstack f d.
Proof.
  induction n as [|n IH]; intros fstack f d H; [discriminate|].
  cbn [parse_file] in H. cbn [file_ok].
  destruct (assoc f fs) as [its|] eqn:Ea; [|discriminate].
  destruct (proc_items _ _ _ _ _ _ _ its) as [fr|] eqn:Ep; cbn [bind] in H; [|discriminate].
  destruct (fk fr) as [[name|]| |] eqn:Ek; try discriminate. inversion H; subst d.
  exists its, fr, name. repeat split; try assumption.
  apply (items_sound (parse_file n fs trad) (file_ok n fs trad div0)); [|exact Ep].
  intros stk g d. apply IH.
Qed.

Lemma file_complete fs trad : forall n fstack f d,
  file_ok n fs trad false fstack f d -> parse_file n fs trad fstack f = Ok d.
Proof.
  induction n as [|n IH]; intros fstack f d H; [contradiction|].
  cbn [file_ok] in H. destruct H as [its [fr [name [Ha [Hi [Hk ->]]]]]].
  cbn [parse_file]. rewrite Ha.
  rewrite (items_complete (parse_file n fs trad) (file_ok n fs trad false) (known fs) trad f (f :: fstack)
             (fun stk g d => IH stk g d) (file_ok_proto n fs trad false) _ _ _ _ Hi).
  cbn [bind]. now rewrite Hk.
Qed.

(* ------------------------------------------------------------------------------------ *)
(* fuel: S (length fs) import levels always suffice                                       *)
(* ------------------------------------------------------------------------------------ *)

Definition is_fuel {A} (r : res A) : bool :=
  match r with Err KFuel _ _ => true | _ => false end.

Lemma bind_fuel {A B} (r : res A) (f : A -> res B) :
  is_fuel (bind r f) = false -> is_fuel r = false.
Proof. destruct r as [a|k x y]; [reflexivity|]. cbn [bind]. destruct k; cbn; congruence. Qed.

Lemma is_fuel_err_inv {A} (r : res A) : is_fuel r = false -> forall f l, r <> Err KFuel f l.
Proof. intros H f l E. subst. discriminate. Qed.

Section Fuel.
  Variable pc1 pc2 : list string -> string -> res def.
  Variable kf : string -> bool.
  Variable trad : bool.
  Variable file : string.
  Variable fstack : list string.

  (* the only calls of parse_child are on [fstack] and a known file not on the stack *)
  Definition called (g : string) : Prop := kf g = true /\ mem_s g fstack = false.

  (* if pc2 agrees with pc1 wherever pc1 does not run out of fuel, so do the runs *)
  Hypothesis Hmono : forall g, called g -> is_fuel (pc1 fstack g) = false -> pc2 fstack g = pc1 fstack g.

  Lemma proc_item_mono : forall it outer cur,
    is_fuel (proc_item pc1 kf trad file fstack outer cur it) = false ->
    proc_item pc2 kf trad file fstack outer cur it = proc_item pc1 kf trad file fstack outer cur it.
  Proof.
    induction it as [l nm|l a g|l nm v|l nm v|l nm t|l nm b body IH|l nm x body IH|l t nm k|l nm v]
      using item_ind'; intros outer cur H; try reflexivity.
    - (* import *)
      cbn [proc_item] in *.
      destruct (kf g) eqn:Ek; cbn [negb] in *; [|reflexivity].
      destruct (mem_s g fstack) eqn:Ec; [reflexivity|].
      destruct (mem_s g (imported_files _)); [reflexivity|].
      apply bind_fuel in H. rewrite (Hmono g (conj Ek Ec) H). reflexivity.
    - (* enum *)
      destruct b as [| |w|w|p]; try reflexivity.
      rewrite !proc_item_enum in *. destruct (GenFront.uint_cap_raises w); [reflexivity|].
      apply bind_fuel in H.
      assert (E : proc_items pc2 kf trad file fstack (cur :: outer) (mkframe (FEnum (mkloc file l) w) []) body =
                  proc_items pc1 kf trad file fstack (cur :: outer) (mkframe (FEnum (mkloc file l) w) []) body).
      { revert H. generalize (mkframe (FEnum (mkloc file l) w) []).
        induction body as [|i r IHr]; intros f0 H; [reflexivity|].
        inversion IH as [|? ? Hi Hr]; subst. cbn [proc_items] in *.
        rewrite (Hi _ _ (bind_fuel _ _ H)).
        destruct (proc_item pc1 kf trad file fstack (cur :: outer) f0 i); cbn [bind] in *; [|reflexivity].
        now apply IHr. }
      now rewrite E.
    - (* message *)
      rewrite !proc_item_msg in *. destruct (x && trad); [reflexivity|].
      apply bind_fuel in H.
      assert (E : proc_items pc2 kf trad file fstack (cur :: outer) (mkframe (FMsg (mkloc file l) x) []) body =
                  proc_items pc1 kf trad file fstack (cur :: outer) (mkframe (FMsg (mkloc file l) x) []) body).
      { revert H. generalize (mkframe (FMsg (mkloc file l) x) []).
        induction body as [|i r IHr]; intros f0 H; [reflexivity|].
        inversion IH as [|? ? Hi Hr]; subst. cbn [proc_items] in *.
        rewrite (Hi _ _ (bind_fuel _ _ H)).
        destruct (proc_item pc1 kf trad file fstack (cur :: outer) f0 i); cbn [bind] in *; [|reflexivity].
        now apply IHr. }
      now rewrite E.
  Qed.

  Lemma proc_items_mono : forall its outer cur,
    is_fuel (proc_items pc1 kf trad file fstack outer cur its) = false ->
    proc_items pc2 kf trad file fstack outer cur its = proc_items pc1 kf trad file fstack outer cur its.
  Proof.
    induction its as [|i r IH]; intros outer cur H; [reflexivity|].
    cbn [proc_items] in *. rewrite (proc_item_mono _ _ _ (bind_fuel _ _ H)).
    destruct (proc_item pc1 kf trad file fstack outer cur i); cbn [bind] in *; [|reflexivity].
    now apply IH.
  Qed.
End Fuel.

Section NoFuel.
  Variable pc : list string -> string -> res def.
  Variable kf : string -> bool.
  Variable trad : bool.
  Variable file : string.
  Variable fstack : list string.
  Hypothesis Hnf : forall g, called kf fstack g -> is_fuel (pc fstack g) = false.

  Lemma push_then_nofuel f ik n d : is_fuel (push_then f ik n d) = false.
  Proof.
    unfold push_then, push_member. destruct (has_name n (fmem f)); [reflexivity|].
    destruct (validate_on_push f n d) as [[]|k a b] eqn:E; cbn [bind].
    - destruct (unsupported f ik (def_loc d)) as [[]|k a b] eqn:E2; cbn [bind]; [reflexivity|].
      unfold unsupported in E2. destruct (fk f), ik; inversion E2; reflexivity.
    - unfold validate_on_push, validate_option in E.
      repeat match type of E with
             | match ?x with _ => _ end = _ => destruct x
             | (if ?c then _ else _) = _ => destruct c
             end; inversion E; reflexivity.
  Qed.

  Lemma resolve_const_nofuel st l p : is_fuel (resolve_const_ref file st l p) = false.
  Proof. unfold resolve_const_ref. destruct (lookup st p) as [d|]; [destruct (def_const d)|]; reflexivity. Qed.

  Lemma resolve_sty_nofuel st l s : is_fuel (resolve_sty file st l s) = false.
  Proof.
    destruct s; cbn [resolve_sty]; try reflexivity.
    - destruct (GenFront.uint_cap_raises n); reflexivity.
    - destruct (GenFront.int_cap_raises n); reflexivity.
    - unfold resolve_type_ref. destruct (lookup st p) as [d|]; [destruct (def_type d)|]; reflexivity.
  Qed.

  Lemma resolve_tyx_nofuel st l t : is_fuel (resolve_tyx file trad st l t) = false.
  Proof.
    destruct t as [s|s c ext]; cbn [resolve_tyx]; [apply resolve_sty_nofuel|].
    pose proof (resolve_sty_nofuel st l s) as Hs.
    destruct (resolve_sty file st l s) as [er|k a b]; cbn [bind]; [|exact Hs].
    assert (Hc : is_fuel (resolve_cap file st l c) = false).
    { destruct c as [z|p]; cbn [resolve_cap]; [reflexivity|].
      pose proof (resolve_const_nofuel st l p) as Hp.
      destruct (resolve_const_ref file st l p) as [v|k a b]; cbn [bind]; [destruct v; reflexivity|exact Hp]. }
    destruct (resolve_cap file st l c) as [n|k a b]; cbn [bind]; [|exact Hc].
    destruct (ext && trad); [reflexivity|]. destruct (GenFront.array_cap_raises n); reflexivity.
  Qed.

  Lemma eval_cexpr_nofuel st l e : is_fuel (eval_cexpr file st l e) = false.
  Proof.
    induction e as [z|p|a IHa b IHb|a IHa b IHb|a IHa b IHb|a IHa b IHb]; cbn [eval_cexpr]; try reflexivity.
    - pose proof (resolve_const_nofuel st l p) as Hp.
      destruct (resolve_const_ref file st l p) as [v|k x y]; cbn [bind]; [destruct v; reflexivity|exact Hp].
    - destruct (eval_cexpr file st l a); cbn [bind]; [|exact IHa].
      destruct (eval_cexpr file st l b); cbn [bind]; [reflexivity|exact IHb].
    - destruct (eval_cexpr file st l a); cbn [bind]; [|exact IHa].
      destruct (eval_cexpr file st l b); cbn [bind]; [reflexivity|exact IHb].
    - destruct (eval_cexpr file st l a); cbn [bind]; [|exact IHa].
      destruct (eval_cexpr file st l b); cbn [bind]; [reflexivity|exact IHb].
    - destruct (eval_cexpr file st l a); cbn [bind]; [|exact IHa].
      destruct (eval_cexpr file st l b) as [y|]; cbn [bind]; [|exact IHb].
      destruct (y =? 0); reflexivity.
  Qed.

  Lemma proc_item_nofuel : forall it outer cur,
    is_fuel (proc_item pc kf trad file fstack outer cur it) = false.
  Proof.
    induction it as [l nm|l a g|l nm v|l nm v|l nm t|l nm b body IH|l nm x body IH|l t nm k|l nm v]
      using item_ind'; intros outer cur.
    - cbn [proc_item]. destruct (fk cur); reflexivity.
    - cbn [proc_item].
      destruct (kf g) eqn:Ek; cbn [negb]; [|reflexivity].
      destruct (mem_s g fstack) eqn:Ec; [reflexivity|].
      destruct (mem_s g (imported_files _)); [reflexivity|].
      pose proof (Hnf g (conj Ek Ec)) as Hg.
      destruct (pc fstack g) as [child|k x y]; cbn [bind]; [|exact Hg].
      match goal with |- is_fuel (if has_name ?n _ then _ else _) = _ => set (name := n) end.
      destruct (has_name name _); [reflexivity|].
      unfold push_member. destruct (has_name name (fmem cur)); [reflexivity|].
      assert (Hv : forall k a b, validate_on_push cur name child = Err k a b -> k <> KFuel).
      { intros k0 a0 b0 E. unfold validate_on_push, validate_option in E.
        repeat match type of E with
               | match ?x with _ => _ end = _ => destruct x
               | (if ?c then _ else _) = _ => destruct c
               end; inversion E; discriminate. }
      destruct (validate_on_push cur name child) as [[]|k0 a0 b0] eqn:E; cbn [bind].
      + destruct (fk cur); reflexivity.
      + specialize (Hv k0 a0 b0 eq_refl). destruct k0; try reflexivity. contradiction.
    - cbn [proc_item]. destruct v as [cv|p]; cbn [eval_optx bind]; [apply push_then_nofuel|].
      pose proof (resolve_const_nofuel (cur :: outer) l p) as Hp.
      destruct (resolve_const_ref file (cur :: outer) l p); cbn [bind]; [apply push_then_nofuel|exact Hp].
    - cbn [proc_item].
      assert (Hv : is_fuel (eval_cvalx file (cur :: outer) l v) = false).
      { destruct v as [b|s|p|e]; cbn [eval_cvalx]; try reflexivity; [apply resolve_const_nofuel|].
        pose proof (eval_cexpr_nofuel (cur :: outer) l e) as He.
        destruct (eval_cexpr file (cur :: outer) l e); cbn [bind]; [reflexivity|exact He]. }
      destruct (eval_cvalx file (cur :: outer) l v); cbn [bind]; [apply push_then_nofuel|exact Hv].
    - cbn [proc_item]. pose proof (resolve_tyx_nofuel (cur :: outer) l t) as Ht.
      destruct (resolve_tyx file trad (cur :: outer) l t); cbn [bind]; [|exact Ht].
      destruct t as [[| | | |p]|]; try apply push_then_nofuel. reflexivity.
    - destruct b as [| |w|w|p]; try (cbn; repeat match goal with |- context [if ?c then _ else _] => destruct c end; reflexivity).
      rewrite proc_item_enum. destruct (GenFront.uint_cap_raises w); [reflexivity|].
      assert (Hb : forall f0, is_fuel (proc_items pc kf trad file fstack (cur :: outer) f0 body) = false).
      { induction body as [|i r IHr]; intros f0; [reflexivity|].
        inversion IH as [|? ? Hi Hr]; subst. cbn [proc_items].
        pose proof (Hi (cur :: outer) f0) as H0.
        destruct (proc_item pc kf trad file fstack (cur :: outer) f0 i); cbn [bind]; [now apply IHr|exact H0]. }
      specialize (Hb (mkframe (FEnum (mkloc file l) w) [])).
      destruct (proc_items _ _ _ _ _ _ _ body); cbn [bind]; [apply push_then_nofuel|exact Hb].
    - rewrite proc_item_msg. destruct (x && trad); [reflexivity|].
      assert (Hb : forall f0, is_fuel (proc_items pc kf trad file fstack (cur :: outer) f0 body) = false).
      { induction body as [|i r IHr]; intros f0; [reflexivity|].
        inversion IH as [|? ? Hi Hr]; subst. cbn [proc_items].
        pose proof (Hi (cur :: outer) f0) as H0.
        destruct (proc_item pc kf trad file fstack (cur :: outer) f0 i); cbn [bind]; [now apply IHr|exact H0]. }
      specialize (Hb (mkframe (FMsg (mkloc file l) x) [])).
      destruct (proc_items _ _ _ _ _ _ _ body) as [fr|]; cbn [bind]; [|exact Hb].
      unfold close_msg. destruct (GenFront.message_size_raises _); [reflexivity|].
      destruct (GenFront.message_max_bytes_raises _ _); [reflexivity|]. cbn [bind]. apply push_then_nofuel.
    - cbn [proc_item]. destruct (is_proto_frame cur).
      { unfold lex_then_grammar. destruct (tyx_head t); try reflexivity;
          match goal with |- context [if ?c then _ else _] => destruct c end; reflexivity. }
      pose proof (resolve_tyx_nofuel (cur :: outer) l t) as Ht.
      destruct (resolve_tyx file trad (cur :: outer) l t); cbn [bind]; [|exact Ht].
      destruct (GenFront.field_number_raises k); [reflexivity|apply push_then_nofuel].
    - cbn [proc_item]. destruct (negb (is_enum_frame cur)); [reflexivity|].
      destruct (GenFront.enum_value_raises v); [reflexivity|].
      unfold push_member. destruct (has_name nm (fmem cur)); [reflexivity|].
      unfold validate_on_push. cbn [def_loc]. destruct (fk cur); cbn [bind]; try reflexivity.
      destruct (GenFront.enum_value_overflows v n); [reflexivity|].
      destruct (mem_z v _); reflexivity.
  Qed.

  Lemma proc_items_nofuel : forall its outer cur,
    is_fuel (proc_items pc kf trad file fstack outer cur its) = false.
  Proof.
    induction its as [|i r IH]; intros outer cur; [reflexivity|].
    cbn [proc_items]. pose proof (proc_item_nofuel i outer cur) as Hi.
    destruct (proc_item pc kf trad file fstack outer cur i); cbn [bind]; [apply IH|exact Hi].
  Qed.
End NoFuel.

Lemma parse_file_mono fs trad : forall n fstack f,
  is_fuel (parse_file n fs trad fstack f) = false ->
  parse_file (S n) fs trad fstack f = parse_file n fs trad fstack f.
Proof.
  induction n as [|n IH]; intros fstack f H; [discriminate|].
  change (parse_file (S (S n)) fs trad fstack f) with
    (match assoc f fs with
     | None => Err KIOError f 0
     | Some its =>
         do fr <- proc_items (parse_file (S n) fs trad) (known fs) trad f (f :: fstack) []
                             (mkframe (FProto None) []) its;
         match fk fr with
         | FProto (Some name) => Ok (DProto f name (rev (fmem fr)))
         | _ => Err KProtoNameUndefined f 0
         end
     end).
  cbn [parse_file] in H |- *. destruct (assoc f fs) as [its|]; [|reflexivity].
  apply bind_fuel in H.
  rewrite (proc_items_mono (parse_file n fs trad) (parse_file (S n) fs trad) (known fs) trad f (f :: fstack)); [reflexivity| |exact H].
  intros g _ Hg. now apply IH.
Qed.

Lemma parse_file_mono_le fs trad fstack f : forall m n,
  (n <= m)%nat -> is_fuel (parse_file n fs trad fstack f) = false ->
  parse_file m fs trad fstack f = parse_file n fs trad fstack f.
Proof.
  induction m as [|m IH]; intros n Hle H.
  - assert (n = O) by lia. now subst.
  - destruct (Nat.eq_dec n (S m)) as [->|N]; [reflexivity|].
    assert (Hle' : (n <= m)%nat) by lia.
    rewrite <- (IH n Hle' H). apply parse_file_mono. now rewrite (IH n Hle' H).
Qed.

Lemma known_in fs g : known fs g = true -> In g (map fst fs).
Proof.
  unfold known. induction fs as [|h r IH]; cbn [assoc map In]; [discriminate|].
  destruct (String.eqb_spec (fst h) g) as [->|N]; [now left|]. intros H. right. now apply IH.
Qed.

Lemma stack_bounded fs (l : list string) :
  NoDup l -> (forall g, In g l -> known fs g = true) -> (List.length l <= List.length fs)%nat.
Proof.
  intros ND Hk. rewrite <- (map_length fst fs). apply NoDup_incl_length; [exact ND|].
  intros g Hg. apply known_in. now apply Hk.
Qed.

Lemma parse_file_nofuel fs trad : forall n fstack f,
  NoDup fstack -> (forall g, In g fstack -> known fs g = true) ->
  (List.length fs < n + List.length fstack)%nat ->
  ~ In f fstack -> known fs f = true ->
  is_fuel (parse_file n fs trad fstack f) = false.
Proof.
  induction n as [|n IH]; intros fstack f ND Hk Hlen Hnf Hf.
  - exfalso.
    assert (H : (List.length (f :: fstack) <= List.length fs)%nat).
    { apply stack_bounded; [now constructor|]. intros g [<-|Hg]; [exact Hf|now apply Hk]. }
    cbn [List.length] in H. lia.
  - cbn [parse_file]. destruct (assoc f fs) as [its|]; [|reflexivity].
    pose proof (proc_items_nofuel (parse_file n fs trad) (known fs) trad f (f :: fstack)) as Hp.
    assert (Hcalls : forall g, called (known fs) (f :: fstack) g ->
                               is_fuel (parse_file n fs trad (f :: fstack) g) = false).
    { intros g [Hg1 Hg2]. apply IH.
      - now constructor.
      - intros g' [<-|Hg']; [exact Hf|now apply Hk].
      - cbn [List.length]. lia.
      - now apply mem_s_false.
      - exact Hg1. }
    specialize (Hp Hcalls its [] (mkframe (FProto None) [])).
    destruct (proc_items _ _ _ _ _ _ _ its) as [fr|]; cbn [bind]; [|exact Hp].
    destruct (fk fr) as [[nm|]| |]; reflexivity.
Qed.

(* Front.check never runs out of fuel *)
Theorem check_fuel_enough fs root trad : is_fuel (check fs root trad) = false.
Proof.
  unfold check. destruct (known fs root) eqn:Ek.
  - apply parse_file_nofuel; try assumption; [constructor|intros g []|cbn [List.length]; lia|intros []].
  - cbn [parse_file]. unfold known in Ek. destruct (assoc root fs); [discriminate|reflexivity].
Qed.

Theorem check_not_fuel fs root trad f l : check fs root trad <> Err KFuel f l.
Proof. apply is_fuel_err_inv, check_fuel_enough. Qed.

(* ------------------------------------------------------------------------------------ *)
(* C08                                                                                    *)
(* ------------------------------------------------------------------------------------ *)

Theorem check_ok_iff_file_ok fs root trad e :
  check fs root trad = Ok e <-> exists n, file_ok n fs trad false [] root e.
Proof.
  split.
  - intros H. exists (S (List.length fs)). now apply file_sound.
  - intros [n H]. apply file_complete in H. unfold check.
    destruct (Nat.le_gt_cases n (S (List.length fs))) as [Hle|Hgt].
    + rewrite (parse_file_mono_le fs trad [] root _ n Hle); [exact H|now rewrite H].
    + pose proof (check_fuel_enough fs root trad) as Hc. unfold check in Hc.
      rewrite <- (parse_file_mono_le fs trad [] root n (S (List.length fs))); [exact H|lia|exact Hc].
Qed.

Theorem check_sound fs root trad e : check fs root trad = Ok e -> Valid fs root trad.
Proof. intros H. apply check_ok_iff_file_ok in H. destruct H as [n H]. now exists n, e. Qed.

Theorem check_sound_text fs root trad e : check fs root trad = Ok e -> ValidText fs root trad.
Proof. intros H. exists (S (List.length fs)), e. now apply file_sound. Qed.

Theorem check_complete fs root trad : Valid fs root trad -> exists e, check fs root trad = Ok e.
Proof. intros [n [e H]]. exists e. apply check_ok_iff_file_ok. now exists n. Qed.

(* the elaboration is the one the specification describes *)
Theorem check_elaborates fs root trad e :
  check fs root trad = Ok e <-> exists n, file_ok n fs trad false [] root e.
Proof. exact (check_ok_iff_file_ok fs root trad e). Qed.

(* ------------------------------------------------------------------------------------ *)
(* what a rejection cites                                                                 *)
(* ------------------------------------------------------------------------------------ *)

Definition item_line (it : item) : Z :=
  match it with
  | IProto l _ | IImport l _ _ | IOption l _ _ | IConst l _ _ | IAlias l _ _ | IEnum l _ _ _
  | IMsg l _ _ _ | IField l _ _ _ | IEnumField l _ _ => l
  end.

(* [sub it0 it]: statement it0 is it or occurs (at any depth) in the body of it *)
Inductive sub : item -> item -> Prop :=
| sub_refl it : sub it it
| sub_msg it0 l n x body i : In i body -> sub it0 i -> sub it0 (IMsg l n x body)
| sub_enum it0 l n b body i : In i body -> sub it0 i -> sub it0 (IEnum l n b body).

(* the first token of the statement's type is uintN / intN *)
Definition mentions_sty (it : item) (s : sty) : Prop :=
  match it with
  | IField _ t _ _ | IAlias _ _ t => tyx_head t = s
  | IEnum _ _ b _ => b = s
  | _ => False
  end.

(* for the kinds of the numeric rules: the cited statement breaks the documented bound *)
Definition rule_broken (k : kind) (it : item) : Prop :=
  match k with
  | KInvalidUintCap => exists n, mentions_sty it (SUint n) /\ ~ width_ok n
  | KInvalidIntCap => exists n, mentions_sty it (SInt n) /\ ~ width_ok n
  | KInvalidFieldNumber => exists l t nm num, it = IField l t nm num /\ ~ number_ok num
  | KInvalidArrayCap => exists s c x, (exists l nm num, it = IField l (XArr s c x) nm num) \/
                                      (exists l nm, it = IAlias l nm (XArr s c x))
  | KEnumValueOverflow | KDupEnumValue | KInvalidEnumFieldValue => exists l nm v, it = IEnumField l nm v
  | KDupFieldNumber => exists l t nm num, it = IField l t nm num
  | KMessageSizeOverflows => exists l nm x body, it = IMsg l nm x body
  | KInvalidAliasedType => exists l nm p, it = IAlias l nm (XSingle (SRef p))
  | _ => True
  end.

Definition file_level (k : kind) : Prop :=
  k = KIOError \/ k = KProtoNameUndefined \/ k = KDuplicatedDefinition \/ k = KFuel.

Definition rule_kind_ok (k : kind) (d : def) : Prop :=
  match k with
  | KDupFieldNumber => exists a n t r, d = DField a n t r
  | KEnumValueOverflow | KDupEnumValue => exists a v, d = DEnumField a v
  | KUnsupportedOption | KInvalidOptionValue => exists a v, d = DOption a v
  | KDuplicatedDefinition | KAliasInMessage | KConstInMessage | KAliasInEnum | KConstInEnum | KOptionInEnum
  | KEnumInEnum | KMessageInEnum | KFieldInEnum => True
  | _ => False
  end.

Definition member_kind_ok (k : kind) (d : def) : Prop :=
  match k with
  | KDupFieldNumber => exists a n t r, d = DField a n t r
  | KEnumValueOverflow | KDupEnumValue => exists a v, d = DEnumField a v
  | KUnsupportedOption | KInvalidOptionValue => exists a v, d = DOption a v
  | KDuplicatedDefinition => True
  | _ => False
  end.

Lemma member_rule_kind k d : member_kind_ok k d -> rule_kind_ok k d.
Proof. destruct k; cbn; tauto. Qed.

Section Cites.
  Variable pc : list string -> string -> res def.
  Variable kf : string -> bool.
  Variable trad : bool.
  Variable file : string.
  Variable fstack : list string.
  Hypothesis Hpc_proto : forall stk g d, pc stk g = Ok d -> exists f n m, d = DProto f n m.

  Notation PI := (proc_item pc kf trad file fstack).
  Notation PIS := (proc_items pc kf trad file fstack).

  (* the error was produced while parsing an imported file, or is one of the file-level ones *)
  Definition from_import (k : kind) (f : string) (l : Z) : Prop :=
    (exists g, pc fstack g = Err k f l) \/ (l = 0 /\ file_level k).

  Definition cites_here (it : item) (k : kind) (f : string) (l : Z) : Prop :=
    exists it0, sub it0 it /\ f = file /\ l = item_line it0 /\ rule_broken k it0.

  Lemma validate_err cur nm d k f l :
    validate_on_push cur nm d = Err k f l ->
    f = lfile (def_loc d) /\ l = lline (def_loc d) /\ member_kind_ok k d.
  Proof.
    intros E. unfold validate_on_push, validate_option in E.
    repeat match type of E with
           | match ?x with _ => _ end = _ => destruct x
           | (if ?c then _ else _) = _ => destruct c
           end; inversion E; subst; cbn [member_kind_ok]; repeat split; eauto.
  Qed.

  Lemma push_member_err cur nm d k f l :
    push_member cur nm d = Err k f l ->
    f = lfile (def_loc d) /\ l = lline (def_loc d) /\ member_kind_ok k d.
  Proof.
    unfold push_member. destruct (has_name nm (fmem cur)).
    { intros H; inversion H; subst. cbn. now repeat split. }
    destruct (validate_on_push cur nm d) as [[]|k0 a0 b0] eqn:E; cbn [bind]; [discriminate|].
    intros H; inversion H; subst. now apply validate_err in E.
  Qed.

  Lemma push_then_err cur ik nm d k f l :
    push_then cur ik nm d = Err k f l ->
    f = lfile (def_loc d) /\ l = lline (def_loc d) /\ rule_kind_ok k d.
  Proof.
    unfold push_then. destruct (push_member cur nm d) as [f'|k0 a0 b0] eqn:E; cbn [bind].
    - destruct (unsupported cur ik (def_loc d)) as [[]|k1 a1 b1] eqn:E2; cbn [bind]; [discriminate|].
      intros H; inversion H; subst. unfold unsupported in E2.
      destruct (fk cur), ik; inversion E2; subst; cbn; now repeat split.
    - intros H; inversion H; subst. apply push_member_err in E. destruct E as [E1 [E2 E3]].
      repeat split; try assumption. now apply member_rule_kind.
  Qed.

  Lemma resolve_sty_err st l s k f l' :
    resolve_sty file st l s = Err k f l' ->
    f = file /\ l' = l /\
    ((k = KInvalidUintCap /\ exists n, s = SUint n /\ ~ width_ok n) \/
     (k = KInvalidIntCap /\ exists n, s = SInt n /\ ~ width_ok n) \/
     k = KRefTypeNotDefined \/ k = KRefNotType).
  Proof.
    destruct s as [| |n|n|p]; cbn [resolve_sty]; try discriminate.
    - destruct (GenFront.uint_cap_raises n) eqn:E; [|discriminate]. intros H; inversion H; subst.
      repeat split. left. split; [reflexivity|]. exists n. split; [reflexivity|].
      intros Hw. apply uint_cap_bridge in Hw. congruence.
    - destruct (GenFront.int_cap_raises n) eqn:E; [|discriminate]. intros H; inversion H; subst.
      repeat split. right; left. split; [reflexivity|]. exists n. split; [reflexivity|].
      intros Hw. apply int_cap_bridge in Hw. congruence.
    - unfold resolve_type_ref. destruct (lookup st p) as [d|]; [destruct (def_type d)|]; try discriminate;
        intros H; inversion H; subst; repeat split; tauto.
  Qed.

  Lemma resolve_const_err st l p k f l' :
    resolve_const_ref file st l p = Err k f l' ->
    f = file /\ l' = l /\ (k = KRefConstNotDefined \/ k = KRefNotConst).
  Proof.
    unfold resolve_const_ref. destruct (lookup st p) as [d|]; [destruct (def_const d)|]; try discriminate;
      intros H; inversion H; subst; repeat split; tauto.
  Qed.

  Lemma resolve_tyx_err st l t k f l' :
    resolve_tyx file trad st l t = Err k f l' ->
    f = file /\ l' = l /\
    ((k = KInvalidUintCap /\ exists n, tyx_head t = SUint n /\ ~ width_ok n) \/
     (k = KInvalidIntCap /\ exists n, tyx_head t = SInt n /\ ~ width_ok n) \/
     (k = KInvalidArrayCap /\ exists s c x, t = XArr s c x) \/
     k = KRefTypeNotDefined \/ k = KRefNotType \/ k = KRefConstNotDefined \/ k = KRefNotConst \/
     k = KExtensibleInTraditional).
  Proof.
    destruct t as [s|s c ext]; cbn [resolve_tyx tyx_head].
    - intros H. apply resolve_sty_err in H. destruct H as [-> [-> H]]. repeat split. tauto.
    - destruct (resolve_sty file st l s) as [er|k0 a0 b0] eqn:Es; cbn [bind].
      2:{ intros H; inversion H; subst. apply resolve_sty_err in Es. destruct Es as [-> [-> Es]]. repeat split. tauto. }
      destruct (resolve_cap file st l c) as [n|k0 a0 b0] eqn:Ec; cbn [bind].
      2:{ intros H; inversion H; subst. destruct c as [z|p]; cbn [resolve_cap] in Ec; [discriminate|].
          destruct (resolve_const_ref file st l p) as [v|k1 a1 b1] eqn:Er; cbn [bind] in Ec.
          - destruct v; inversion Ec; subst; repeat split; right; right; left; split; eauto.
          - inversion Ec; subst. apply resolve_const_err in Er. destruct Er as [-> [-> Er]]. repeat split. tauto. }
      destruct (ext && trad); [intros H; inversion H; subst; repeat split; tauto|].
      destruct (GenFront.array_cap_raises n); [|discriminate].
      intros H; inversion H; subst. repeat split. right; right; left. split; eauto.
  Qed.

  Lemma eval_cexpr_err st l e k f l' :
    eval_cexpr file st l e = Err k f l' ->
    f = file /\ l' = l /\ (k = KRefConstNotDefined \/ k = KRefNotConst \/ k = KCalcExpr).
  Proof.
    induction e as [z|p|a IHa b IHb|a IHa b IHb|a IHa b IHb|a IHa b IHb]; cbn [eval_cexpr]; try discriminate.
    - destruct (resolve_const_ref file st l p) as [v|k1 a1 b1] eqn:Er; cbn [bind].
      + destruct v; intros H; inversion H; subst; repeat split; tauto.
      + intros H; inversion H; subst. apply resolve_const_err in Er. tauto.
    - destruct (eval_cexpr file st l a); cbn [bind]; [|exact IHa].
      destruct (eval_cexpr file st l b); cbn [bind]; [discriminate|exact IHb].
    - destruct (eval_cexpr file st l a); cbn [bind]; [|exact IHa].
      destruct (eval_cexpr file st l b); cbn [bind]; [discriminate|exact IHb].
    - destruct (eval_cexpr file st l a); cbn [bind]; [|exact IHa].
      destruct (eval_cexpr file st l b); cbn [bind]; [discriminate|exact IHb].
    - destruct (eval_cexpr file st l a); cbn [bind]; [|exact IHa].
      destruct (eval_cexpr file st l b) as [y|]; cbn [bind]; [|exact IHb].
      destruct (y =? 0); [|discriminate]. intros H; inversion H; subst; repeat split; tauto.
  Qed.

  Ltac mine := right; eexists; split; [apply sub_refl|]; split; [reflexivity|]; split; [reflexivity|].
  Ltac solve_rb k :=
    destruct k; cbn [rule_broken rule_kind_ok mentions_sty] in *; try exact I; try contradiction;
    try (repeat match goal with H : exists _, _ |- _ => destruct H end; discriminate); eauto 12.

  Lemma body_error st body : forall f0 k f l,
    Forall (fun i => forall outer cur k f l, PI outer cur i = Err k f l ->
                                             from_import k f l \/ cites_here i k f l) body ->
    PIS st f0 body = Err k f l ->
    from_import k f l \/ exists i it0, In i body /\ sub it0 i /\ f = file /\ l = item_line it0 /\ rule_broken k it0.
  Proof.
    induction body as [|i r IHr]; intros f0 k f l HF H; [discriminate|].
    inversion HF as [|? ? Hi Hr]; subst. cbn [proc_items] in H.
    destruct (PI st f0 i) as [fm|k0 a0 b0] eqn:Ei; cbn [bind] in H.
    - destruct (IHr fm k f l Hr H) as [Hc|[i' [it0 [Hin Hrest]]]]; [now left|].
      right. exists i', it0. split; [now right|exact Hrest].
    - inversion H; subst. destruct (Hi _ _ _ _ _ Ei) as [Hc|[it0 [Hs Hrest]]]; [now left|].
      right. exists i, it0. split; [now left|]. now split.
  Qed.

  Theorem proc_item_error_cites : forall it outer cur k f l,
    PI outer cur it = Err k f l -> from_import k f l \/ cites_here it k f l.
  Proof.
    induction it as [l0 nm|l0 a g|l0 nm v|l0 nm v|l0 nm t|l0 nm b body IH|l0 nm x body IH|l0 t nm num|l0 nm v]
      using item_ind'; intros outer cur k f l H.
    - (* proto *)
      cbn [proc_item] in H. destruct (fk cur); inversion H; subst; mine; exact I.
    - (* import *)
      cbn [proc_item] in H.
      destruct (negb (kf g)). { inversion H; subst. left. right. split; [reflexivity|]. unfold file_level. tauto. }
      destruct (mem_s g fstack). { inversion H; subst. mine. exact I. }
      destruct (mem_s g (imported_files _)). { inversion H; subst. mine. exact I. }
      destruct (pc fstack g) as [child|k0 a0 b0] eqn:Ep; cbn [bind] in H.
      2:{ inversion H; subst. left. left. now exists g. }
      destruct (Hpc_proto _ _ _ Ep) as [cf [cn [cm ->]]].
      match type of H with (if has_name ?n _ then _ else _) = _ => set (name := n) in * end.
      destruct (has_name name _). { inversion H; subst. mine. exact I. }
      destruct (push_member cur name (DProto cf cn cm)) as [f'|k0 a0 b0] eqn:Em; cbn [bind] in H.
      + destruct (fk cur); inversion H; subst; mine; exact I.
      + inversion H; subst. apply push_member_err in Em. cbn [def_loc lfile lline] in Em.
        destruct Em as [-> [-> Hk]]. left. right. split; [reflexivity|].
        unfold file_level. destruct k; cbn [member_kind_ok] in Hk; try contradiction;
          try (repeat match goal with H : exists _, _ |- _ => destruct H end; discriminate); tauto.
    - (* option *)
      cbn [proc_item] in H. destruct v as [cv|p]; cbn [eval_optx bind] in H.
      + apply push_then_err in H. cbn [def_loc lfile lline] in H. destruct H as [-> [-> Hk]]. mine. solve_rb k.
      + destruct (resolve_const_ref file (cur :: outer) l0 p) as [cv|k0 a0 b0] eqn:Er; cbn [bind] in H.
        * apply push_then_err in H. cbn [def_loc lfile lline] in H. destruct H as [-> [-> Hk]]. mine. solve_rb k.
        * inversion H; subst. apply resolve_const_err in Er. destruct Er as [-> [-> [->| ->]]]; mine; exact I.
    - (* const *)
      cbn [proc_item] in H.
      destruct (eval_cvalx file (cur :: outer) l0 v) as [cv|k0 a0 b0] eqn:Ev; cbn [bind] in H.
      + apply push_then_err in H. cbn [def_loc lfile lline] in H. destruct H as [-> [-> Hk]]. mine. solve_rb k.
      + inversion H; subst. destruct v as [b|s|p|e]; cbn [eval_cvalx] in Ev; try discriminate.
        * apply resolve_const_err in Ev. destruct Ev as [-> [-> [->| ->]]]; mine; exact I.
        * destruct (eval_cexpr file (cur :: outer) l0 e) as [z|k1 a1 b1] eqn:Ee; cbn [bind] in Ev; [discriminate|].
          inversion Ev; subst. apply eval_cexpr_err in Ee. destruct Ee as [-> [-> [->|[->| ->]]]]; mine; exact I.
    - (* alias *)
      cbn [proc_item] in H.
      destruct (resolve_tyx file trad (cur :: outer) l0 t) as [tr|k0 a0 b0] eqn:Et; cbn [bind] in H.
      + assert (Hc : (k = KInvalidAliasedType /\ f = file /\ l = l0 /\ exists p, t = XSingle (SRef p)) \/
                     push_then cur IKAlias nm (DAlias (mkloc file l0) (fst tr) (snd tr)) = Err k f l).
        { destruct t as [[| | | |p]|]; try (right; exact H). left. inversion H; subst. repeat split. eauto. }
        destruct Hc as [[-> [-> [-> [p ->]]]]|Hc].
        * mine. cbn [rule_broken]. eauto.
        * apply push_then_err in Hc. cbn [def_loc lfile lline] in Hc. destruct Hc as [-> [-> Hk]]. mine. solve_rb k.
      + inversion H; subst. apply resolve_tyx_err in Et. destruct Et as [-> [-> Et]]. mine.
        destruct Et as [[-> [n [E Hn]]]|[[-> [n [E Hn]]]|[[-> [s [c [x ->]]]]|Et]]]; cbn [rule_broken mentions_sty]; eauto 10.
        destruct Et as [->|[->|[->|[->| ->]]]]; exact I.
    - (* enum *)
      destruct b as [| |w|w|p].
      1,2,5: cbn [proc_item lex_then_grammar] in H; inversion H; subst; mine; exact I.
      2:{ cbn [proc_item lex_then_grammar] in H. destruct (GenFront.int_cap_raises w) eqn:Ew; inversion H; subst; mine.
          - cbn [rule_broken mentions_sty]. exists w. split; [reflexivity|]. intros Hw. apply int_cap_bridge in Hw. congruence.
          - exact I. }
      rewrite proc_item_enum in H. destruct (GenFront.uint_cap_raises w) eqn:Ew.
      { inversion H; subst. mine. cbn [rule_broken mentions_sty]. exists w. split; [reflexivity|].
        intros Hw. apply uint_cap_bridge in Hw. congruence. }
      destruct (PIS (cur :: outer) (mkframe (FEnum (mkloc file l0) w) []) body) as [fr|k0 a0 b0] eqn:Eb; cbn [bind] in H.
      + apply push_then_err in H. unfold close_enum in H. cbn [def_loc lfile lline] in H.
        destruct H as [-> [-> Hk]]. mine. unfold close_enum in Hk. solve_rb k.
      + inversion H; subst. destruct (body_error _ _ _ _ _ _ IH Eb) as [Hc|[i [it0 [Hin [Hs Hrest]]]]]; [now left|].
        right. exists it0. split; [eapply sub_enum; eassumption|exact Hrest].
    - (* message *)
      rewrite proc_item_msg in H. destruct (x && trad).
      { inversion H; subst. mine. exact I. }
      destruct (PIS (cur :: outer) (mkframe (FMsg (mkloc file l0) x) []) body) as [fr|k0 a0 b0] eqn:Eb; cbn [bind] in H.
      + destruct (close_msg (mkloc file l0) x fr) as [d|k0 a0 b0] eqn:Ec; cbn [bind] in H.
        * apply close_msg_fields in Ec. subst d. apply push_then_err in H. cbn [def_loc lfile lline] in H.
          destruct H as [-> [-> Hk]]. mine. solve_rb k.
        * inversion H; subst. unfold close_msg in Ec.
          destruct (GenFront.message_size_raises _).
          { inversion Ec; subst. mine. cbn [rule_broken lfile lline]. eauto 10. }
          destruct (GenFront.message_max_bytes_raises _ _); [|discriminate].
          inversion Ec; subst. mine. cbn [rule_broken]. eauto 10.
      + inversion H; subst. destruct (body_error _ _ _ _ _ _ IH Eb) as [Hc|[i [it0 [Hin [Hs Hrest]]]]]; [now left|].
        right. exists it0. split; [eapply sub_msg; eassumption|exact Hrest].
    - (* field *)
      cbn [proc_item] in H. destruct (is_proto_frame cur).
      { unfold lex_then_grammar in H. destruct (tyx_head t) as [| |w|w|p] eqn:Eh; try (inversion H; subst; mine; exact I).
        - destruct (GenFront.uint_cap_raises w) eqn:Ew; inversion H; subst; mine; [|exact I].
          cbn [rule_broken mentions_sty]. exists w. split; [exact Eh|]. intros Hw. apply uint_cap_bridge in Hw. congruence.
        - destruct (GenFront.int_cap_raises w) eqn:Ew; inversion H; subst; mine; [|exact I].
          cbn [rule_broken mentions_sty]. exists w. split; [exact Eh|]. intros Hw. apply int_cap_bridge in Hw. congruence. }
      destruct (resolve_tyx file trad (cur :: outer) l0 t) as [tr|k0 a0 b0] eqn:Et; cbn [bind] in H.
      + destruct (GenFront.field_number_raises num) eqn:En.
        { inversion H; subst. mine. cbn [rule_broken]. do 4 eexists. split; [reflexivity|].
          intros Hn. apply field_number_bridge in Hn. congruence. }
        apply push_then_err in H. cbn [def_loc lfile lline] in H. destruct H as [-> [-> Hk]]. mine. solve_rb k.
      + inversion H; subst. apply resolve_tyx_err in Et. destruct Et as [-> [-> Et]]. mine.
        destruct Et as [[-> [n [E Hn]]]|[[-> [n [E Hn]]]|[[-> [s [c [xx ->]]]]|Et]]]; cbn [rule_broken mentions_sty]; eauto 12.
        destruct Et as [->|[->|[->|[->| ->]]]]; exact I.
    - (* enum member *)
      cbn [proc_item] in H. destruct (negb (is_enum_frame cur)). { inversion H; subst. mine. exact I. }
      destruct (GenFront.enum_value_raises v). { inversion H; subst. mine. cbn [rule_broken]. eauto. }
      apply push_member_err in H. cbn [def_loc lfile lline] in H. destruct H as [-> [-> Hk]].
      apply member_rule_kind in Hk. mine. solve_rb k.
  Qed.
End Cites.

Lemma parse_file_proto fs trad n stk g d :
  parse_file n fs trad stk g = Ok d -> exists f nm m, d = DProto f nm m.
Proof.
  destruct n; [discriminate|]. cbn [parse_file]. destruct (assoc g fs); [|discriminate].
  destruct (proc_items _ _ _ _ _ _ _ _) as [fr|]; cbn [bind]; [|discriminate].
  destruct (fk fr) as [[nm|]| |]; try discriminate. intros H; inversion H. eauto.
Qed.

(* what a rejection cites: either one of the file-level conditions (no line), or the line of a
   statement of the cited file, and for the numeric rules that statement breaks the bound *)
Definition cited (fs : files) (k : kind) (f : string) (l : Z) : Prop :=
  (l = 0 /\ file_level k) \/
  exists its it it0, assoc f fs = Some its /\ In it its /\ sub it0 it /\ item_line it0 = l /\ rule_broken k it0.

Theorem parse_file_error_cites fs trad : forall n fstack file k f l,
  parse_file n fs trad fstack file = Err k f l -> cited fs k f l.
Proof.
  induction n as [|n IH]; intros fstack file k f l H.
  - inversion H; subst. left. split; [reflexivity|]. unfold file_level. tauto.
  - cbn [parse_file] in H. destruct (assoc file fs) as [its|] eqn:Ea.
    2:{ inversion H; subst. left. split; [reflexivity|]. unfold file_level. tauto. }
    destruct (proc_items _ _ _ _ _ _ _ its) as [fr|k0 a0 b0] eqn:Ep; cbn [bind] in H.
    + destruct (fk fr) as [[nm|]| |]; inversion H; subst; left; (split; [reflexivity|]); unfold file_level; tauto.
    + inversion H; subst.
      destruct (body_error (parse_file n fs trad) (known fs) trad file (file :: fstack) [] its _ _ _ _
                  (proj2 (Forall_forall _ _)
                     (fun i _ => proc_item_error_cites (parse_file n fs trad) (known fs) trad file (file :: fstack)
                                   (parse_file_proto fs trad n) i)) Ep)
        as [[[g Hg]|Hl]|[i [it0 [Hin [Hs [-> [-> Hr]]]]]]].
      * now apply IH in Hg.
      * now left.
      * right. exists its, i, it0. now repeat split.
Qed.

Theorem check_error_cites fs root trad k f l :
  check fs root trad = Err k f l -> cited fs k f l.
Proof. apply parse_file_error_cites. Qed.

(* the property TEXT has no clause about division by zero: a schema that meets every listed
   clause is nevertheless rejected (since fix ba6c9a1 as an ordinary CalculationExpressionError
   at the line of the expression) *)
Theorem text_has_no_division_clause :
  exists fs root, ValidText fs root false /\ check fs root false = Err KCalcExpr root 2.
Proof.
  exists [("r"%string, [IProto 1 "r"; IConst 2 "A" (CExpr (EDiv (EInt 1) (EInt 0)))]%string)], "r"%string.
  split.
  - exists 1%nat. eexists. cbn [file_ok]. do 3 eexists. split; [reflexivity|]. split.
    + cbn [items_ok]. eexists. split.
      * cbn [item_ok]. split; [eexists; reflexivity|reflexivity].
      * eexists. split; [|reflexivity]. cbn [item_ok]. split; [eexists; reflexivity|].
        eexists. split; [|split; [reflexivity|reflexivity]].
        apply VOExpr. apply EODiv; [apply EOInt|apply EOInt|now right].
    + split; reflexivity.
  - vm_compute. reflexivity.
Qed.
