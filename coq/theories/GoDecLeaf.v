(* GoDecLeaf.v — byte-local facts about the Go DECODER's typed accessor statement
   `m.F |= (T(b) << lshift)`: converting the byte to T before shifting loses nothing, and the
   operand equals the one the Python accessor ORs in (bp.intW(int(b) << lshift) for signed,
   int(b) << lshift for unsigned).  Domain: T in {u}int8/16/32/64, b in 0..255,
   lshift in 0..W-8 (what dec_lshift j = 8*(j/8) yields for j < n <= W).  Finite sweep. *)
From Coq Require Import ZArith List Bool Lia.
From BP Require Import Bits Schema PyRt ByteStep GoRt.
From BPGen Require GenPy GenGo.
Import ListNotations.
Open Scope Z_scope.

Definition chunk_row (w : Z) : bool :=
  forallb (fun b => forallb (fun l =>
    implb (l + 8 <=? w)
      ((GenGo.wrap_s w (Z.shiftl (GenGo.wrap_s w b) l) =? cast_w w (Z.shiftl b l)) &&
       (GenGo.wrap_u w (Z.shiftl (GenGo.wrap_u w b) l) =? Z.shiftl b l)))
    (zrange 57)) (zrange 256).

Lemma chunk_sweep_ok : forallb chunk_row [8; 16; 32; 64] = true.
Proof. vm_compute. reflexivity. Qed.

Lemma implb_elim' a b : a = true -> implb a b = true -> b = true.
Proof. intros -> H. exact H. Qed.

Theorem go_chunk_eq_py w b l :
  In w [8; 16; 32; 64] -> 0 <= b < 256 -> 0 <= l -> l + 8 <= w ->
  conv_to (GInt w) (Z.shiftl (GenGo.wrap_s w b) l) = Ok (cast_w w (Z.shiftl b l)) /\
  conv_to (GUint w) (Z.shiftl (GenGo.wrap_u w b) l) = Ok (Z.shiftl b l).
Proof.
  intros Hw Hb Hl Hlw. pose proof chunk_sweep_ok as H.
  rewrite forallb_forall in H. specialize (H w Hw). unfold chunk_row in H.
  rewrite forallb_forall in H. specialize (H b (in_zrange _ _ Hb)).
  rewrite forallb_forall in H.
  assert (Hl57 : 0 <= l < 57) by (cbn in Hw; lia).
  specialize (H l (in_zrange _ _ Hl57)). cbv beta in H.
  apply implb_elim' in H; [|apply Z.leb_le; lia].
  apply andb_true_iff in H. destruct H as [H1 H2].
  apply Z.eqb_eq in H1. apply Z.eqb_eq in H2.
  unfold conv_to. cbn [under]. rewrite H1, H2. split; reflexivity.
Qed.
