(* EmitBase.v — vocabulary shared by the generated tables (gen/GenC10.v) and the emission
   model (Emit.v): languages, definition classes, case styles, and one tag per renderer
   block class of /repo (compiler/bitproto/renderer/impls/{c,py,go}).  The translator maps
   class names to these tags and fails closed on a class it does not know. *)
From Coq Require Import String List ZArith Bool.
Import ListNotations.

Inductive lang := LC | LPy | LGo.

(* classes of bitproto._ast that the case-style mappings and dispatchers test *)
Inductive dclass := KConstant | KAlias | KEnum | KEnumField | KMessage | KMessageField.
Inductive cstyle := SKeep | SSnake | SUpper | SPascal.

(* BoundDefinition kinds a dispatcher can meet (isinstance chain) *)
Inductive dkind := DkAlias | DkConstant | DkEnum | DkMessage.

(* H_ = impls/c/renderer_h.py, C_ = impls/c/renderer_c.py, P_ = impls/py/renderer.py,
   G_ = impls/go/renderer.py; the name after the prefix is the class name without "Block" *)
Inductive blk :=
| X_AheadNotice
(* C header *)
| H_ProtoDocstring | H_IncludeGuard | H_IncludeHeaders | H_IncludeGeneralHeaders | H_ExternCPlusPlus
| H_ImportList | H_DefineMacroOpMode
| H_DataStructuresList | H_FunctionDeclarationsForUserList | H_FunctionDeclarationsForInternalList
| H_FunctionDeclarationsForUserListOpMode
| H_AliasDef | H_Constant | H_EnumDefs | H_EnumDef | H_EnumFieldList
| H_MessageDef | H_MessageLengthMacro | H_MessageStruct
| H_MessageFunctionDeclarationsForUser | H_MessageFunctionDeclarationsForUserOpMode
| H_MessageEncoderFunctionDeclaration | H_MessageDecoderFunctionDeclaration
| H_MessageJsonFormatterFunctionDeclaration
| H_AliasFunctionDeclarationsForInternal | H_AliasProcessorDeclaration | H_AliasJsonFormatterDeclaration
| H_MessageFunctionDeclarationsForInternal | H_MessageProcessorDeclaration
| H_MessageBpJsonFormatterDeclaration
(* C source *)
| C_Include | C_IncludeOpMode | C_BoundDefinitionList | C_BoundDefinitionListOpMode
| C_AliasFunctions | C_ArrayProcessorForAlias | C_ArrayJsonFormatterForAlias
| C_AliasProcessor | C_AliasJsonFormatter
| C_MessageFunctions | C_ArrayProcessorForMessageFieldList | C_ArrayJsonFormatterForMessageFieldList
| C_MessageFieldDescriptorsIniter | C_MessageProcessor | C_MessageBpJsonFormatter
| C_MessageEncoder | C_MessageDecoder | C_MessageJsonFormatter
| C_MessageFunctionsOpMode | C_MessageEncoderOpMode | C_MessageDecoderOpMode
(* Python *)
| P_ProtoDocstring | P_ImportList | P_GeneralImports | P_ImportChildProtoList | P_BoundDefinitionList
| P_Alias | P_AliasDef | P_AliasMethodProcessor | P_AliasMethodDefaultFactory
| P_Constant
| P_Enum | P_IntEnumFieldListWrapper | P_EnumFieldListWrapper | P_EnumValueToNameMap
| P_EnumMethodProcessor
| P_Message
(* Go *)
| G_PackageName | G_GeneralImports | G_ImportChildProtoList | G_AvoidGeneralImportsNotUsed
| G_BoundDefinitionList
| G_Alias | G_AliasDef | G_AliasMethodBpProcessor
| G_Constant
| G_Enum | G_EnumType | G_EnumFieldListWrapped | G_EnumMethodBpProcessor | G_EnumMethodString
| G_Message | G_MessageStruct | G_MessageSizeConst | G_MessageMethodSize | G_MessageMethodString
| G_MessageMethodEncode | G_MessageMethodDecode | G_MessageMethodBpProcessor
| G_MessageMethodBpGetAccessor | G_MessageMethodBpSetByte | G_MessageMethodBpGetByte
| G_MessageMethodBpProcessInt.
