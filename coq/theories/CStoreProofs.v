(* CStoreProofs.v — the storage layout [store E t v] of an in-range value: it has the shape
   the encoder theorem needs, and reading it back ([abs_val]) gives a value with the same wire
   bits. *)
From Coq Require Import ZArith List Bool Lia ZifyBool.
From BP Require Import Bits Schema Spec CMem CMemProofs CRt ByteStep PyEncStep PyEncProofs PyEncTop CCopyProofs CBaseProofs CEncProofs.
From BPGen Require Import GenC.
Import ListNotations.
Open Scope Z_scope.

Definition store_fields (E : endian) (v : val) :=
  fix go (l : list (Z * ty)) : list (Z * obj) :=
    match l with
    | [] => []
    | kf :: r => (fst kf, store E (snd kf) (vfield (fst kf) v)) :: go r
    end.

Lemma store_msg E x fs v : store E (TMsg x fs) v = OS (store_fields E v fs).
Proof. reflexivity. Qed.

Lemma lookup_store_fields E v fs k ft :
  keys_distinct (map fst fs) = true -> In (k, ft) fs ->
  lookup k (store_fields E v fs) = Some (store E ft (vfield k v)).
Proof.
  induction fs as [|h r IH]; intros Hd Hin; [destruct Hin|].
  cbn [map keys_distinct] in Hd. apply andb_true_iff in Hd. destruct Hd as [Hh Hr].
  cbn [store_fields lookup fst snd]. destruct Hin as [->|Hin].
  - cbn [fst snd]. now rewrite Z.eqb_refl.
  - destruct (fst h =? k) eqn:Ek.
    + exfalso. apply Z.eqb_eq in Ek. apply negb_true_iff in Hh.
      assert (existsb (Z.eqb (fst h)) (map fst r) = true); [|congruence].
      apply existsb_exists. exists k. split; [|now apply Z.eqb_eq].
      apply in_map_iff. exists (k, ft). split; [reflexivity|exact Hin].
    + apply IH; assumption.
Qed.

Lemma bits_of_mod n m z : (n <= m)%nat -> bits_of n (z mod 2 ^ Z.of_nat m) = bits_of n z.
Proof.
  intros H. apply (f_equal (fun l => l)). 
  assert (Hl : length (bits_of n (z mod 2 ^ Z.of_nat m)) = length (bits_of n z)) by now rewrite !bits_of_length.
  apply (nth_ext _ _ false false Hl). intros k Hk. rewrite bits_of_length in Hk.
  rewrite !bits_of_testbit by lia. apply Z.mod_pow2_bits_low. lia.
Qed.

Lemma chunks_flat_map {A} (f : A -> list Z) (sz : nat) (l : list A) :
  (forall a, In a l -> length (f a) = sz) ->
  chunks (length l) sz (flat_map f l) = map f l.
Proof.
  induction l as [|a r IH]; intros H; [reflexivity|].
  cbn [length chunks flat_map map].
  assert (Ha : length (f a) = sz) by (apply H; now left).
  rewrite firstn_app, <- Ha, Nat.sub_diag, firstn_all, firstn_O, app_nil_r.
  rewrite skipn_app, Nat.sub_diag, skipn_all, skipn_O. cbn [app].
  rewrite Ha. f_equal. apply IH. intros b Hb. apply H. now right.
Qed.

Section Store.
  Variable E : endian.

  Definition store_ok (t : ty) : Prop :=
    forall v, wf t = true -> has_ty t v = true ->
      shape_ok t (store E t v) /\
      enc_bits t (abs_val E t (store E t v)) = enc_bits t v.

  Lemma store_int_ok n z :
    1 <= n <= 64 ->
    bytes_shape (store_int E n z) (int_size n) /\
    bits_of (Z.to_nat n) (native_val E (obytes (store_int E n z))) = bits_of (Z.to_nat n) z.
  Proof.
    intros Hn. destruct (width_facts n Hn) as (_ & Hc & Hle & _).
    unfold store_int. cbn [obytes]. split.
    - exists (native_bytes E (Z.to_nat (int_size n)) z). split; [reflexivity|].
      split; [apply native_bytes_ok|]. rewrite native_bytes_length. lia.
    - rewrite native_val_bytes, pow256_2 by lia.
      replace (8 * Z.of_nat (Z.to_nat (int_size n))) with (Z.of_nat (Z.to_nat (8 * int_size n))) by lia.
      apply bits_of_mod. lia.
  Qed.

  Lemma flat_store_bytes t v : flat t = true -> store E t v = OB (obytes (store E t v)).
  Proof.
    revert v. induction t as [| | n | n | n ms | t IH | x c e IH | x fs IH] using ty_ind'; intros v Hf;
      try reflexivity.
    - cbn [store flat] in *. apply IH, Hf.
    - cbn [store flat] in *. rewrite Hf. reflexivity.
    - discriminate.
  Qed.

  Theorem store_ok_all t : store_ok t.
  Proof.
    induction t as [| | n | n | n ms | t IH | x c e IH | x fs IH] using ty_ind'; intros v Hw Ht.
    - cbn [has_ty] in Ht. destruct v as [b| | |]; try discriminate. cbn [store abs_val enc_bits obytes hd shape_ok csize].
      split; [exists [Z.b2z b]; split; [reflexivity|]; split; [|reflexivity]; constructor; [destruct b; cbv; intuition congruence|constructor]|].
      destruct b; reflexivity.
    - cbn [has_ty] in Ht. destruct v as [|z| |]; try discriminate. cbn [store abs_val enc_bits obytes hd shape_ok csize zof].
      assert (Hz : 0 <= z < 256) by lia. rewrite Z.mod_small by lia.
      split; [exists [z]; split; [reflexivity|]; split; [|reflexivity]; constructor; [exact Hz|constructor]|reflexivity].
    - cbn [wf has_ty] in *. destruct v as [|z| |]; try discriminate.
      destruct (store_int_ok n z ltac:(lia)) as [Hs Hb]. cbn [store abs_val enc_bits shape_ok csize zof]. split; assumption.
    - cbn [wf has_ty] in *. destruct v as [|z| |]; try discriminate.
      destruct (store_int_ok n z ltac:(lia)) as [Hs Hb]. cbn [store abs_val enc_bits shape_ok csize zof]. split; assumption.
    - cbn [wf has_ty] in *. rewrite !andb_true_iff in Hw. destruct v as [|z| |]; try discriminate.
      destruct (store_int_ok n z ltac:(lia)) as [Hs Hb]. cbn [store abs_val enc_bits shape_ok csize zof]. split; assumption.
    - cbn [wf has_ty store abs_val enc_bits shape_ok] in *. apply IH; assumption.
    - cbn [wf has_ty] in *. rewrite !andb_true_iff in Hw. destruct Hw as [[Hc1 Hc2] Hwe].
      destruct v as [| |l|]; try discriminate. rewrite andb_true_iff in Ht. destruct Ht as [Hlen Hall].
      apply Nat.eqb_eq in Hlen. rewrite forallb_forall in Hall.
      pose proof (csize_nonneg e Hwe) as Hcs.
      cbn [store abs_val enc_bits shape_ok vlist]. destruct (flat e) eqn:Hfl.
      + set (f := fun x => obytes (store E e x)).
        assert (Hfl' : forall a, In a l -> length (f a) = Z.to_nat (csize e) /\ bytes_ok (f a)).
        { intros a Ha. destruct (IH a Hwe (Hall a Ha)) as [Hs _].
          apply (flat_shape e _ Hfl) in Hs. destruct Hs as (bs & Eb & Hb & Hl).
          unfold f. rewrite Eb. cbn [obytes]. split; [lia|exact Hb]. }
        split.
        * exists (flat_map f l). split; [reflexivity|]. split.
          -- unfold bytes_ok. apply Forall_forall. intros b Hb. apply in_flat_map in Hb.
             destruct Hb as (a & Ha & Hb). destruct (Hfl' a Ha) as [_ Ho].
             unfold bytes_ok in Ho. rewrite Forall_forall in Ho. now apply Ho.
          -- rewrite (flat_map_length_const f l (Z.to_nat (csize e))) by (intros a Ha; apply Hfl', Ha). lia.
        * f_equal. cbn [obytes vlist]. subst c.
          rewrite (chunks_flat_map f (Z.to_nat (csize e)) l) by (intros a Ha; apply Hfl', Ha).
          rewrite map_map, !flat_map_concat_map, map_map. f_equal. apply map_ext_in. intros a Ha.
          unfold f. rewrite <- (flat_store_bytes e a Hfl). apply IH; [assumption|apply Hall, Ha].
      + split.
        * exists (map (store E e) l). split; [reflexivity|]. split; [rewrite map_length; exact Hlen|].
          apply Forall_forall. intros o Ho. apply in_map_iff in Ho. destruct Ho as (a & <- & Ha).
          apply IH; [assumption|apply Hall, Ha].
        * f_equal. cbn [vlist]. rewrite !flat_map_concat_map, !map_map. f_equal. apply map_ext_in. intros a Ha.
          apply IH; [assumption|apply Hall, Ha].
    - rewrite wf_msg in Hw. rewrite !andb_true_iff in Hw. destruct Hw as [[Hkd Hnb] Hwf].
      destruct v as [| | |vs]; try discriminate. rewrite has_ty_msg in Ht.
      rewrite store_msg. set (v := VM vs) in *.
      assert (Hall : forall k ft, In (k, ft) fs ->
                shape_ok ft (store E ft (vfield k v)) /\
                enc_bits ft (abs_val E ft (store E ft (vfield k v))) = enc_bits ft (vfield k v)).
      { clear Hkd Hnb. induction fs as [|h r IHr]; intros k ft Hin; [destruct Hin|].
        inversion IH as [|? ? Hh Hrest]; subst.
        cbn [fields_wf fields_has_ty] in Hwf, Ht. rewrite !andb_true_iff in Hwf. rewrite !andb_true_iff in Ht.
        destruct Hwf as [[[_ _] Hwh] Hwr]. destruct Ht as [Hth Htr].
        destruct Hin as [->|Hin]; [|apply IHr; assumption].
        cbn [fst snd] in *. unfold v, vfield. destruct (lookup k vs) as [fv|]; [|discriminate].
        apply Hh; assumption. }
      split.
      + rewrite shape_msg. exists (store_fields E v fs). split; [reflexivity|].
        assert (Hsub : forall l, (forall kf, In kf l -> In kf fs) -> shape_fields (store_fields E v fs) l).
        { induction l as [|[k ft] r IHl]; intros Hin; [exact I|]. cbn [shape_fields fst snd]. split.
          - exists (store E ft (vfield k v)). split.
            + apply lookup_store_fields; [exact Hkd|apply Hin; now left].
            + apply Hall. apply Hin. now left.
          - apply IHl. intros kf Hk. apply Hin. now right. }
        apply Hsub. auto.
      + rewrite abs_val_msg, !enc_bits_msg. f_equal.
        assert (Hsub : forall l, (forall kf, In kf l -> In kf fs) ->
                  fields_bits (VM (abs_fields E (OS (store_fields E v fs)) fs)) l = fields_bits v l).
        { induction l as [|[k ft] r IHl]; intros Hin; [reflexivity|]. cbn [fields_bits fst snd]. f_equal.
          - unfold vfield at 1.
            rewrite (lookup_abs_fields E (store_fields E v fs) fs k ft (store E ft (vfield k v)) Hkd).
            + apply Hall. apply Hin. now left.
            + apply Hin. now left.
            + apply lookup_store_fields; [exact Hkd|apply Hin; now left].
          - apply IHl. intros kf Hk. apply Hin. now right. }
        apply Hsub. auto.
  Qed.
End Store.
