(* CMem.v — byte memory for the model of the C runtime (lib/c/bitproto.c).

   A memory OBJECT is a [list Z] of bytes (each in [0,256)).  Every access is bounds
   checked against the object it addresses: reading or writing a byte outside the object
   yields [MemErr].  Stores truncate to the byte ([mod 256]) exactly as a C store to an
   [unsigned char] lvalue does.  Native multi-byte loads/stores ([uint16_t], [uint32_t],
   [uint64_t] lvalues reached through pointer casts) are parameterised by the HOST byte
   order [E]; they are modelled as plain byte-wise accesses (no alignment requirement —
   true on the x86-64 host on which the implementation is executed; see DESIGN §3/§6). *)
From Coq Require Import ZArith List Bool.
From BP Require Import Bits.
Import ListNotations.
Open Scope Z_scope.

Inductive endian := LE | BE.

Definition endian_eqb (a b : endian) : bool :=
  match a, b with LE, LE => true | BE, BE => true | _, _ => false end.

(* outcomes of running modelled C code *)
Inductive cres (A : Type) : Type :=
| COk (a : A)
| MemErr          (* an access outside the addressed object / the stream buffer *)
| CStuck          (* the model cannot follow: NULL processor called, data of the wrong shape *)
| CFuel.          (* loop fuel exhausted (excluded in the theorems: fuel = n suffices) *)
Arguments COk {A} a.
Arguments MemErr {A}.
Arguments CStuck {A}.
Arguments CFuel {A}.

Definition cbind {A B} (r : cres A) (f : A -> cres B) : cres B :=
  match r with COk a => f a | MemErr => MemErr | CStuck => CStuck | CFuel => CFuel end.
Notation "x <-- e ;; k" := (cbind e (fun x => k)) (at level 61, e at next level, right associativity).

(* ---------- single bytes ---------- *)

Definition in_obj (m : list Z) (p : Z) : bool := (0 <=? p) && (p <? Z.of_nat (length m)).

Definition rd (m : list Z) (p : Z) : cres Z :=
  if in_obj m p then COk (nth (Z.to_nat p) m 0) else MemErr.

Definition wr (m : list Z) (p v : Z) : cres (list Z) :=
  if in_obj m p then COk (upd m (Z.to_nat p) (v mod 256)) else MemErr.

(* ---------- native multi-byte loads and stores, [w] bytes at byte offset [p] ---------- *)

Fixpoint ld_le (w : nat) (m : list Z) (p : Z) : cres Z :=
  match w with
  | O => COk 0
  | S k => b <-- rd m p ;; r <-- ld_le k m (p + 1) ;; COk (b + 256 * r)
  end.

Fixpoint ld_be (w : nat) (m : list Z) (p acc : Z) : cres Z :=
  match w with
  | O => COk acc
  | S k => b <-- rd m p ;; ld_be k m (p + 1) (acc * 256 + b)
  end.

Definition ld (E : endian) (w : nat) (m : list Z) (p : Z) : cres Z :=
  match E with LE => ld_le w m p | BE => ld_be w m p 0 end.

(* the value is truncated to w bytes by construction: only its low w bytes are written *)
Fixpoint st_le (w : nat) (m : list Z) (p v : Z) : cres (list Z) :=
  match w with
  | O => COk m
  | S k => m' <-- wr m p v ;; st_le k m' (p + 1) (v / 256)
  end.

Fixpoint st_be (w : nat) (m : list Z) (p v : Z) : cres (list Z) :=
  match w with
  | O => COk m
  | S k => m' <-- wr m p (v / 256 ^ Z.of_nat k) ;; st_be k m' (p + 1) v
  end.

Definition st (E : endian) (w : nat) (m : list Z) (p v : Z) : cres (list Z) :=
  match E with LE => st_le w m p v | BE => st_be w m p v end.

(* ---------- pure layout: the bytes of a w-byte native integer holding v (two's complement) ---------- *)

Definition bytes_le (w : nat) (v : Z) : list Z := bytes_of w v.
Definition native_bytes (E : endian) (w : nat) (v : Z) : list Z :=
  match E with LE => bytes_le w v | BE => rev (bytes_le w v) end.

(* value of a native integer object *)
Definition native_val (E : endian) (bs : list Z) : Z :=
  match E with LE => bufZ bs | BE => bufZ (rev bs) end.

(* ---------- slices (element k of a contiguous C array) ---------- *)

Definition slice (m : list Z) (off len : Z) : cres (list Z) :=
  if (0 <=? off) && (0 <=? len) && (off + len <=? Z.of_nat (length m))
  then COk (firstn (Z.to_nat len) (skipn (Z.to_nat off) m))
  else MemErr.

Definition splice (m : list Z) (off : Z) (part : list Z) : cres (list Z) :=
  if (0 <=? off) && (off + Z.of_nat (length part) <=? Z.of_nat (length m))
  then COk (firstn (Z.to_nat off) m ++ part ++ skipn (Z.to_nat off + length part) m)
  else MemErr.
