(* EmitDbuPy.v — C10_declared_before_use for the Python module and the Go file: names of other
   files are reached through the member name the import statement binds. *)
From Coq Require Import String Ascii List ZArith Bool Arith Lia.
From BP Require Import EmitBase EmitNames Emit EmitSpec EmitCheck EmitProofs EmitDbu EmitDbuMain.
From BPGen Require Import GenC10.
Import ListNotations.
Open Scope string_scope.
Open Scope list_scope.
Open Scope nat_scope.

Ltac split_and := apply andb_true_iff; split.

Section PyGo.
Variables (s : schema) (i : nat) (flt : list string).
Hypothesis Hwf : wf s = true.
Hypothesis Hi : i < length s.
Variable t : target.
Hypothesis Ht : t = TgPy \/ t = TgGo.

Let L := lang_of t.
Let fl := flat_file (getf s i).
Let B := base_disp t.

Lemma L_member : import_as_member L = true.
Proof. unfold L. destruct Ht as [-> | ->]; reflexivity. Qed.
Lemma L_notC : L <> LC.
Proof. unfold L. destruct Ht as [-> | ->]; discriminate. Qed.
Lemma header_self : header_of t = t.
Proof. destruct Ht as [-> | ->]; reflexivity. Qed.

Lemma member_nonempty m j : In (m, j) (f_imports (getf s i)) -> m <> "".
Proof.
  intros Hin. pose proof (wf_file s i Hwf Hi) as Hf. unfold file_wf in Hf.
  apply andb_true_iff in Hf. destruct Hf as [Hf _]. apply andb_true_iff in Hf. destruct Hf as [Hf _].
  rewrite forallb_forall in Hf. specialize (Hf (m, j) Hin). cbn [fst snd] in Hf.
  apply andb_true_iff in Hf. destruct Hf as [_ Hf]. apply negb_true_iff in Hf. intros ->. discriminate.
Qed.

(* the module / file of an imported schema file declares the block of each of its definitions *)
Lemma module_exports j fd k :
  In fd (flat_file (getf s j)) -> In k (map dkey (dispatch_one s j flt B fd)) ->
  In k (exports (fuel_of s) s t flt j).
Proof.
  intros Hfd Hk. pose proof (in_dispatcher s j flt _ fd k Hfd Hk) as H.
  apply in_map_iff in H. destruct H as [d [<- Hd]]. unfold fuel_of. apply exports_direct. rewrite header_self.
  unfold B in Hd. destruct Ht as [-> | ->]; cbn [base_disp] in Hd; [rewrite items_TgPy | rewrite items_TgGo]; unfold disp.
  - apply in_or_app. right. apply in_map. exact Hd.
  - apply in_or_app. right. right. right. apply in_map. exact Hd.
Qed.

(* ---- the uses a reference gives rise to ---- *)
Inductive from_ref (r : ref) : use -> Prop :=
| FrType e : from_ref r (mkUse NsMod (ref_qual L r) (ref_name s L r) e)
| FrFactory e : r_k r = RkAlias -> from_ref r (mkUse NsMod (rel_qual L r) (py_default_factory_name (ref_name s L r)) e)
| FrProcEnum : r_k r = RkEnum -> from_ref r (mkUse NsMod (rel_qual L r) (py_processor_name_enum (ref_name s L r)) false)
| FrProcAlias : r_k r = RkAlias -> from_ref r (mkUse NsMod (rel_qual L r) (py_processor_name_alias (ref_name s L r)) false).

Lemma target_declares_py r fd :
  t = TgPy -> targets r fd = true ->
  (r_k r = RkAlias ->
     In (NsMod, py_default_factory_name (ref_name s LPy r)) (map dkey (dispatch_one s (r_file r) flt P_BoundDefinitionList fd)) /\
     In (NsMod, py_processor_name_alias (ref_name s LPy r)) (map dkey (dispatch_one s (r_file r) flt P_BoundDefinitionList fd))) /\
  (r_k r = RkEnum ->
     In (NsMod, py_processor_name_enum (ref_name s LPy r)) (map dkey (dispatch_one s (r_file r) flt P_BoundDefinitionList fd))).
Proof.
  intros _. destruct fd as [pth d]. unfold targets, fdef_is. cbn [fd_path fd_def]. intros H.
  apply andb_true_iff in H. destruct H as [H Hk]. apply andb_true_iff in H. destruct H as [Hp Hn].
  apply strs_eqb_eq in Hp. apply String.eqb_eq in Hn. unfold ref_name, ref_px.
  destruct (r_k r) eqn:Ek, d as [n v | n ty | n w ms | n x nested fs]; try discriminate;
    cbn [def_name] in Hn; subst pth n; cbn [class_of_rk]; (split; intros E); try (discriminate E);
    unfold dispatch_one; cbn [fd_def dkind_of dispatch dispatch_filtered andb def_blocks expand blocks_of flat_map app];
    unfold own_px; cbn [leaf fd_path fd_def map dkey d_ns d_name mk mkm app].
  - right. rewrite map_app. apply in_or_app. right. cbn. auto.
  - split; cbn; auto.
Qed.

Section Resolve.
Variables (seen all : list key) (imps : list (string * nat)) (fl1 : list fdef) (fd : fdef) (fl2 : list fdef).
Hypothesis E : fl = fl1 ++ fd :: fl2.
Hypothesis Hq : g_qualify L s i = true.
Hypothesis Hseen : incl (dkeys (flat_map (dispatch_one s i flt B) fl1)) seen.
Hypothesis Hall : incl seen all.
Hypothesis Himps : forall m j, In (m, j) (f_imports (getf s i)) -> In (m, j) imps.

(* any name the block of the referenced definition declares can be used, with the qualifier the
   formatter computes (both qualifiers coincide for a top-level definition of a direct import) *)
Lemma ref_resolve r :
  In r (def_refs (fd_def fd)) ->
  exists fd', targets r fd' = true /\
    forall x e, In (NsMod, x) (map dkey (dispatch_one s (r_file r) flt B fd')) ->
      use_ok s t flt seen all imps (mkUse NsMod (ref_qual L r) x e) = true /\
      use_ok s t flt seen all imps (mkUse NsMod (rel_qual L r) x e) = true.
Proof.
  intros Hr.
  assert (Hdirect : direct_ref r = true).
  { unfold g_qualify in Hq. pose proof L_notC as HnC.
    destruct L eqn:EL; try (exfalso; apply HnC; reflexivity); rewrite forallb_forall in Hq; apply Hq;
      apply (ref_in_file_refs s i fl1 fd fl2 r E Hr). }
  pose proof (refs_here s i Hwf Hi fl1 fd fl2 r E Hr) as Hrw.
  destruct (ref_wf_cases s i fl1 r Hrw) as [[Hv [Hf [fd' [Hin Htg]]]] | [Hv [Hfo [Hne [fd' [Hin Htg]]]]]].
  - exists fd'. split; [exact Htg|]. intros x e Hx.
    assert (Hq1 : ref_qual L r = ""). { unfold ref_qual. rewrite L_member, Hv. reflexivity. }
    assert (Hq2 : rel_qual L r = ""). { unfold rel_qual. rewrite L_member, Hv. reflexivity. }
    rewrite Hq1, Hq2. rewrite Hf in Hx.
    assert (Hk : In (NsMod, x) seen).
    { apply Hseen. unfold dkeys. rewrite flat_map_concat_map, concat_map, map_map. apply in_concat.
      exists (map dkey (dispatch_one s i flt B fd')). split; [|exact Hx].
      apply in_map_iff. exists fd'. split; [reflexivity | exact Hin]. }
    split; apply use_ok_unq; auto.
  - unfold direct_ref in Hdirect. destruct (r_via r) as [|m [|m2 via]] eqn:Ev; try contradiction; [|discriminate].
    destruct (r_path r) as [|p0 pth0] eqn:Ep; [|discriminate].
    apply follow_one in Hfo. exists fd'. split; [exact Htg|]. intros x e Hx.
    assert (Hq1 : ref_qual L r = m). { unfold ref_qual. rewrite L_member, Ev, Ep. reflexivity. }
    assert (Hq2 : rel_qual L r = m). { unfold rel_qual. rewrite L_member, Ev. reflexivity. }
    rewrite Hq1, Hq2. pose proof (member_nonempty m (r_file r) Hfo) as Hm.
    assert (Hx' : In (NsMod, x) (exports (fuel_of s) s t flt (r_file r))) by (apply (module_exports (r_file r) fd' _ Hin Hx)).
    split; apply (use_ok_qual s t flt seen all imps NsMod m x e (r_file r) Hm (Himps _ _ Hfo) Hx').
Qed.

Lemma type_use_ok r e :
  In r (def_refs (fd_def fd)) -> use_ok s t flt seen all imps (mkUse NsMod (ref_qual L r) (ref_name s L r) e) = true.
Proof.
  intros Hr. destruct (ref_resolve r Hr) as [fd' [Htg H]].
  pose proof (target_declares s flt t r fd' Htg) as Hbase. fold L B in Hbase.
  assert (HnsL : ns_of_rk L (r_k r) = NsMod). { unfold L. destruct Ht as [-> | ->]; reflexivity. }
  rewrite HnsL in Hbase. apply (H _ e Hbase).
Qed.

Lemma py_related_use_ok r e :
  t = TgPy -> In r (def_refs (fd_def fd)) ->
  (r_k r = RkAlias -> use_ok s t flt seen all imps (mkUse NsMod (rel_qual L r) (py_default_factory_name (ref_name s L r)) e) = true /\
                      use_ok s t flt seen all imps (mkUse NsMod (rel_qual L r) (py_processor_name_alias (ref_name s L r)) e) = true) /\
  (r_k r = RkEnum -> use_ok s t flt seen all imps (mkUse NsMod (rel_qual L r) (py_processor_name_enum (ref_name s L r)) e) = true).
Proof.
  intros Hpy Hr. destruct (ref_resolve r Hr) as [fd' [Htg H]].
  destruct (target_declares_py r fd' Hpy Htg) as [HA HB].
  assert (EL : L = LPy) by (unfold L; rewrite Hpy; reflexivity). assert (EB : B = P_BoundDefinitionList) by (unfold B; rewrite Hpy; reflexivity).
  rewrite EL in *. rewrite EB in H. split.
  - intros Hk. destruct (HA Hk) as [H1 H2]. split; [apply (H _ e H1) | apply (H _ e H2)].
  - intros Hk. apply (H _ e (HB Hk)).
Qed.

End Resolve.
End PyGo.

(* ---------- shared facts for the two theorems ---------- *)

Lemma use_ok_mono_seen s t flt seen seen' all imps u :
  incl seen seen' -> use_ok s t flt seen all imps u = true -> use_ok s t flt seen' all imps u = true.
Proof.
  intros Hi. unfold use_ok. destruct (String.eqb (u_qual u) ""); [|auto]. destruct (u_eager u); [|auto].
  rewrite !mem_key_in. apply Hi.
Qed.

Lemma forallb_use_mono s t flt seen seen' all imps us :
  incl seen seen' -> forallb (use_ok s t flt seen all imps) us = true -> forallb (use_ok s t flt seen' all imps) us = true.
Proof. intros Hi. apply forallb_impl. intros u _. apply use_ok_mono_seen. exact Hi. Qed.

Lemma dkeys_flat_map_incl (blkf : fdef -> list decl) fl fl1 fd fl2 :
  fl = fl1 ++ fd :: fl2 ->
  incl (dkeys (flat_map blkf fl1)) (dkeys (flat_map blkf fl)) /\ incl (dkeys (blkf fd)) (dkeys (flat_map blkf fl)).
Proof.
  intros ->. unfold dkeys. rewrite flat_map_app. cbn [flat_map]. rewrite !map_app. split.
  - apply incl_appl. apply incl_refl.
  - apply incl_appr. apply incl_appl. apply incl_refl.
Qed.

Lemma keys_of_imports_nonC s t flt (l : list (string * nat)) (tg : string * nat -> string) :
  lang_of t <> LC -> keys_of s t flt (map (fun mj => IImport (fst mj) (tg mj) (snd mj)) l) = [].
Proof.
  intros H. unfold keys_of, all_keys. induction l as [|x r IH]; [reflexivity|]. cbn [map flat_map].
  rewrite IH. destruct (lang_of t); [contradiction | reflexivity | reflexivity].
Qed.

Lemma imps_acc_imports t (l : list (string * nat)) (tg : string * nat -> string) : forall acc m j,
  lang_of t <> LC -> In (m, j) l -> In (m, j) (imps_acc t (map (fun mj => IImport (fst mj) (tg mj) (snd mj)) l) acc).
Proof.
  induction l as [|x r IH]; intros acc m j HL Hin; [contradiction|]. cbn [map imps_acc].
  destruct (lang_of t) eqn:EL; [contradiction | |].
  - destruct Hin as [-> | Hin]; [apply imps_acc_keeps; left; reflexivity | apply IH; [first [exact HL | discriminate | rewrite EL; discriminate] | exact Hin]].
  - destruct Hin as [-> | Hin]; [apply imps_acc_keeps; left; reflexivity | apply IH; [first [exact HL | discriminate | rewrite EL; discriminate] | exact Hin]].
Qed.

Lemma imports_only_map s t flt all (l : list (string * nat)) (tg : string * nat -> string) seen imps :
  dbu_go s t flt all seen imps (map (fun mj => IImport (fst mj) (tg mj) (snd mj)) l) = true.
Proof.
  apply dbu_go_imports_only. intros it Hit. apply in_map_iff in Hit. destruct Hit as [mj [<- _]]. eauto.
Qed.

(* ---------- Python ---------- *)

Section Py.
Variables (s : schema) (i : nat) (flt : list string).
Hypothesis Hwf : wf s = true.
Hypothesis Hi : i < length s.
Hypothesis Hq : g_qualify LPy s i = true.

Let fl := flat_file (getf s i).
Let HtPy : TgPy = TgPy \/ TgPy = TgGo := or_introl eq_refl.

Section Block.
Variables (seen all : list key) (imps : list (string * nat)) (fl1 : list fdef) (fd : fdef) (fl2 : list fdef).
Hypothesis E : fl = fl1 ++ fd :: fl2.
Hypothesis Hseen : incl (dkeys (flat_map (dispatch_one s i flt P_BoundDefinitionList) fl1)) seen.
Hypothesis Hall : incl seen all.
Hypothesis Himps : forall m j, In (m, j) (f_imports (getf s i)) -> In (m, j) imps.

Let tuse : forall r e, In r (def_refs (fd_def fd)) ->
    use_ok s TgPy flt seen all imps (mkUse NsMod (ref_qual LPy r) (ref_name s LPy r) e) = true :=
  type_use_ok s i flt Hwf Hi TgPy HtPy seen all imps fl1 fd fl2 E Hq Hseen Hall Himps.
Let ruse : forall r e, TgPy = TgPy -> In r (def_refs (fd_def fd)) ->
    (r_k r = RkAlias ->
       use_ok s TgPy flt seen all imps (mkUse NsMod (rel_qual LPy r) (py_default_factory_name (ref_name s LPy r)) e) = true /\
       use_ok s TgPy flt seen all imps (mkUse NsMod (rel_qual LPy r) (py_processor_name_alias (ref_name s LPy r)) e) = true) /\
    (r_k r = RkEnum ->
       use_ok s TgPy flt seen all imps (mkUse NsMod (rel_qual LPy r) (py_processor_name_enum (ref_name s LPy r)) e) = true) :=
  py_related_use_ok s i flt Hwf Hi TgPy HtPy seen all imps fl1 fd fl2 E Hq Hseen Hall Himps.

Lemma py_type_uses_ok e ty :
  incl (ty_refs ty) (def_refs (fd_def fd)) -> forallb (use_ok s TgPy flt seen all imps) (py_type_uses s e ty) = true.
Proof.
  induction ty as [b | r | el IH cap x]; intros Hsub; [reflexivity | |].
  - cbn [py_type_uses forallb]. rewrite (tuse r e); [reflexivity|]. apply Hsub. left. reflexivity.
  - cbn [py_type_uses]. destruct (is_byte el); [reflexivity|]. apply IH. exact Hsub.
Qed.

Lemma py_defval_ok e ty :
  incl (ty_refs ty) (def_refs (fd_def fd)) ->
  forallb (use_ok s TgPy flt seen all imps) (opt_uses (py_defval s e ty)) = true.
Proof.
  induction ty as [b | r | el IH cap x]; intros Hsub; [reflexivity | |].
  - assert (Hr : In r (def_refs (fd_def fd))) by (apply Hsub; left; reflexivity).
    cbn [py_defval]. destruct (r_k r) eqn:Ek.
    + destruct (enum_members s r) as [[|m ms]|]; try reflexivity. cbn [opt_uses forallb]. rewrite (tuse r e Hr). reflexivity.
    + cbn [opt_uses forallb]. rewrite (tuse r e Hr). reflexivity.
    + cbn [opt_uses forallb]. unfold py_factory_use. destruct (ruse r e eq_refl Hr) as [HA _]. destruct (HA Ek) as [H1 _].
      rewrite H1. reflexivity.
  - cbn [py_defval]. destruct (is_byte el); [reflexivity|]. apply IH. exact Hsub.
Qed.

Lemma py_proc_uses_ok ty :
  incl (ty_refs ty) (def_refs (fd_def fd)) -> forallb (use_ok s TgPy flt seen all imps) (py_proc_uses s ty) = true.
Proof.
  induction ty as [b | r | el IH cap x]; intros Hsub; [reflexivity | | apply IH; exact Hsub].
  assert (Hr : In r (def_refs (fd_def fd))) by (apply Hsub; left; reflexivity).
  cbn [py_proc_uses]. destruct (r_k r) eqn:Ek; cbn [forallb].
  - destruct (ruse r false eq_refl Hr) as [_ HB]. rewrite (HB Ek). reflexivity.
  - rewrite (tuse r false Hr). reflexivity.
  - destruct (ruse r false eq_refl Hr) as [HA _]. destruct (HA Ek) as [_ H2]. rewrite H2. reflexivity.
Qed.

End Block.

Lemma py_block seen all imps fl1 fd fl2 :
  fl = fl1 ++ fd :: fl2 ->
  incl (dkeys (flat_map (dispatch_one s i flt P_BoundDefinitionList) fl1)) seen ->
  incl seen all ->
  (forall m j, In (m, j) (f_imports (getf s i)) -> In (m, j) imps) ->
  dbu_go s TgPy flt all seen imps (map IDecl (dispatch_one s i flt P_BoundDefinitionList fd)) = true.
Proof.
  intros E Hseen Hall Himps.
  pose proof (py_type_uses_ok seen all imps fl1 fd fl2 E Hseen Hall Himps) as py_type_uses_ok'.
  pose proof (py_defval_ok seen all imps fl1 fd fl2 E Hseen Hall Himps) as py_defval_ok'.
  pose proof (py_proc_uses_ok seen all imps fl1 fd fl2 E Hseen Hall Himps) as py_proc_uses_ok'.
  clear E. destruct fd as [pth d]. cbn [fd_def] in *.
  destruct d as [n v | n ty | n w ms | n x nested fs]; unfold dispatch_one;
    cbn [fd_def dkind_of dispatch dispatch_filtered andb def_blocks expand blocks_of flat_map app leaf fd_path].
  - reflexivity.
  - cbn [map dbu_go mk d_uses forallb].
    assert (Hsub : incl (ty_refs ty) (def_refs (DAlias n ty))) by (cbn [def_refs]; apply incl_refl).
    repeat split_and; try reflexivity.
    + apply py_type_uses_ok'. exact Hsub.
    + apply (forallb_use_mono s TgPy flt seen); [apply incl_appl; apply incl_refl | apply py_proc_uses_ok'; exact Hsub].
    + apply use_ok_eager. apply in_or_app. left. apply in_or_app. right. left. reflexivity.
    + apply (forallb_use_mono s TgPy flt seen); [apply incl_appl; apply incl_appl; apply incl_refl | apply py_defval_ok'; exact Hsub].
  - rewrite dbu_go_decls_cons. cbn [mk d_uses forallb andb].
    rewrite map_app, dbu_go_app. rewrite imps_acc_decls. split_and.
    + apply dbu_go_all. intros d Hdm S HS. apply in_map_iff in Hdm. destruct Hdm as [m [<- _]].
      cbn [mk d_uses forallb]. rewrite use_ok_eager; [reflexivity|]. apply HS. apply in_or_app. right. left. reflexivity.
    + cbn [map dbu_go mk d_uses forallb]. rewrite use_ok_eager; [reflexivity|].
      apply in_or_app. left. apply in_or_app. right. left. reflexivity.
  - cbn [map dbu_go mk mkm d_uses]. rewrite andb_true_r.
    assert (Hsf : forall fld, In fld (sort_fl fs) -> incl (ty_refs (fl_ty fld)) (def_refs (DMsg n x nested fs))).
    { intros fld Hfld r Hr. cbn [def_refs]. apply in_flat_map. exists fld. split; [apply in_sort_fl; exact Hfld | exact Hr]. }
    apply forallb_use_app; [|apply forallb_use_app]; apply forallb_flat_map_intro; intros fld Hfld.
    + apply py_type_uses_ok'. apply Hsf. exact Hfld.
    + unfold py_field_default. destruct (is_arr (fl_ty fld)); apply py_defval_ok'; apply Hsf; exact Hfld.
    + apply py_proc_uses_ok'. apply Hsf. exact Hfld.
Qed.



Theorem dbu_TgPy : dbu_b s TgPy flt (render_items s i TgPy flt) = true.
Proof.
  unfold dbu_b. rewrite items_TgPy. set (all := all_keys s TgPy flt _).
  rewrite dbu_go_app. split_and; [apply imports_only_map|].
  unfold disp, dispatcher. apply dbu_go_flat_map. intros fl1 fd fl2 E.
  assert (Hall : incl (dkeys (flat_map (dispatch_one s i flt P_BoundDefinitionList) (flat_file (getf s i)))) all).
  { unfold all. change (all_keys s TgPy flt ?l) with (keys_of s TgPy flt l). rewrite keys_of_app. unfold disp, dispatcher.
    rewrite keys_of_decls. apply incl_appr. apply incl_refl. }
  destruct (dkeys_flat_map_incl (dispatch_one s i flt P_BoundDefinitionList) _ fl1 fd fl2 E) as [Hpre _].
  apply (py_block _ all _ fl1 fd fl2 E).
  - apply incl_appr. apply incl_refl.
  - unfold p_imports. rewrite keys_of_imports_nonC by discriminate. cbn [app].
    intros k Hk. apply Hall. apply Hpre. exact Hk.
  - intros m j Hin. unfold p_imports. apply imps_acc_imports; [discriminate | exact Hin].
Qed.

End Py.

(* ---------- Go (package-level declarations are visible anywhere in the file) ---------- *)

Section Go.
Variables (s : schema) (i : nat) (flt : list string).
Hypothesis Hwf : wf s = true.
Hypothesis Hi : i < length s.
Hypothesis Hq : g_qualify LGo s i = true.

Let fl := flat_file (getf s i).
Let HtGo : TgGo = TgPy \/ TgGo = TgGo := or_intror eq_refl.

Lemma go_type_uses_ok seen all imps fl1 fd fl2 ty :
  fl = fl1 ++ fd :: fl2 ->
  incl (dkeys (flat_map (dispatch_one s i flt G_BoundDefinitionList) fl1)) seen -> incl seen all ->
  (forall m j, In (m, j) (f_imports (getf s i)) -> In (m, j) imps) ->
  incl (ty_refs ty) (def_refs (fd_def fd)) ->
  forallb (use_ok s TgGo flt seen all imps) (go_type_uses s ty) = true.
Proof.
  intros E Hseen Hall Himps.
  pose proof (type_use_ok s i flt Hwf Hi TgGo HtGo seen all imps fl1 fd fl2 E Hq Hseen Hall Himps) as tuse.
  induction ty as [b | r | el IH cap x]; intros Hsub; [reflexivity | | apply IH; exact Hsub].
  cbn [go_type_uses forallb]. rewrite andb_true_r. apply (tuse r false). apply Hsub. left. reflexivity.
Qed.

Lemma go_block seen all imps fl1 fd fl2 :
  fl = fl1 ++ fd :: fl2 ->
  incl (dkeys (flat_map (dispatch_one s i flt G_BoundDefinitionList) fl1)) seen -> incl seen all ->
  incl (dkeys (dispatch_one s i flt G_BoundDefinitionList fd)) all ->
  (forall m j, In (m, j) (f_imports (getf s i)) -> In (m, j) imps) ->
  dbu_go s TgGo flt all seen imps (map IDecl (dispatch_one s i flt G_BoundDefinitionList fd)) = true.
Proof.
  intros E Hseen Hall Hown Himps.
  pose proof (fun ty => go_type_uses_ok seen all imps fl1 fd fl2 ty E Hseen Hall Himps) as tyok.
  clear E. destruct fd as [pth d]. cbn [fd_def] in *.
  destruct d as [n v | n ty | n w ms | n x nested fs]; unfold dispatch_one in *;
    cbn [fd_def dkind_of dispatch dispatch_filtered andb def_blocks expand blocks_of flat_map app leaf fd_path] in *.
  - reflexivity.
  - apply dbu_go_all. intros d Hd S HS. cbn [In] in Hd. destruct Hd as [<- | [<- | []]]; cbn [mk d_uses].
    + apply (forallb_use_mono s TgGo flt seen _ _ _ _ HS). apply tyok. cbn [def_refs]. apply incl_refl.
    + cbn [forallb]. rewrite use_ok_deferred; [reflexivity|]. apply Hown. left. reflexivity.
  - apply dbu_go_all. intros d Hd S HS.
    assert (Hgn : In (NsMod, dname LGo KEnum "" pth n) all) by (apply Hown; left; reflexivity).
    cbn [In] in Hd. destruct Hd as [<- | Hd]; [reflexivity|].
    apply in_app_or in Hd. destruct Hd as [Hd | Hd].
    + apply in_map_iff in Hd. destruct Hd as [m [<- _]]. cbn [mk d_uses forallb].
      rewrite use_ok_deferred; [reflexivity | exact Hgn].
    + cbn [In] in Hd. destruct Hd as [<- | [<- | []]]; cbn [mk d_uses forallb]; rewrite use_ok_deferred; auto.
  - apply dbu_go_all. intros d Hd S HS.
    assert (Hgn : In (NsMod, dname LGo KMessage "" pth n) all) by (apply Hown; left; reflexivity).
    cbn [In] in Hd. destruct Hd as [<- | Hd].
    + cbn [mkm d_uses]. apply (forallb_use_mono s TgGo flt seen _ _ _ _ HS).
      apply forallb_flat_map_intro. intros fld Hfld. apply tyok. intros r Hr. cbn [def_refs]. apply in_flat_map.
      exists fld. split; [apply in_sort_fl; exact Hfld | exact Hr].
    + repeat (destruct Hd as [<- | Hd]; [cbn [mk d_uses forallb]; try reflexivity; rewrite use_ok_deferred; auto|]).
      contradiction.
Qed.

Theorem dbu_TgGo : dbu_b s TgGo flt (render_items s i TgGo flt) = true.
Proof.
  unfold dbu_b. rewrite items_TgGo.
  change (g_imports s i ++ ?a :: ?b :: ?l) with (g_imports s i ++ [a; b] ++ l).
  set (all := all_keys s TgGo flt _).
  rewrite !dbu_go_app. split_and; [apply imports_only_map|]. split_and; [reflexivity|].
  unfold disp, dispatcher. apply dbu_go_flat_map. intros fl1 fd fl2 E.
  assert (Hall : incl (dkeys (flat_map (dispatch_one s i flt G_BoundDefinitionList) (flat_file (getf s i)))) all).
  { unfold all. change (all_keys s TgGo flt ?l) with (keys_of s TgGo flt l). rewrite !keys_of_app. unfold disp, dispatcher.
    rewrite keys_of_decls. apply incl_appr. apply incl_appr. apply incl_refl. }
  destruct (dkeys_flat_map_incl (dispatch_one s i flt G_BoundDefinitionList) _ fl1 fd fl2 E) as [Hpre Hown].
  apply (go_block _ all _ fl1 fd fl2 E).
  - apply incl_appr. apply incl_refl.
  - unfold g_imports. rewrite keys_of_imports_nonC by discriminate. cbn [app].
    intros k Hk. apply in_app_or in Hk. destruct Hk as [Hk | Hk].
    + unfold all. change (all_keys s TgGo flt ?l) with (keys_of s TgGo flt l). rewrite !keys_of_app.
      apply in_or_app. right. apply in_or_app. left. exact Hk.
    + apply Hall. apply Hpre. exact Hk.
  - intros k Hk. apply Hall. apply Hown. exact Hk.
  - intros m j Hin. apply imps_acc_keeps. unfold g_imports. apply imps_acc_imports; [discriminate | exact Hin].
Qed.

End Go.
