(* LexActions.v — the rule bodies are total on every lexeme their regex admits, under exact guards:
     * int() of more than py_int_max_str_digits (4300) DECIMAL digits raises ValueError
       (t_INT_LITERAL, the width of t_UINT_TYPE / t_INT_TYPE) — known finding huge-literal;
       base 16 has no limit;
     * the only ParserErrors raised inside the tokenizer are InvalidUintCap, InvalidIntCap
       (width outside 1..64) and InvalidEscapingChar;
     * the escape loop never indexes outside the string body and never misses a table key.
   Consequence for the whole loop: the end of a run is LDone, the LexerError of t_error, one of
   those three ParserErrors, or ValueError exactly at a decimal run of more than 4300 digits. *)
From Coq Require Import String NArith ZArith List Bool Lia.
From BP Require Import TotalBase LexBase Lex LexSpec LexCase LexProofs.
From BPGen Require Import GenLexer.
Import ListNotations.

Definition is_some {A} (o : option A) : bool := match o with Some _ => true | None => false end.
Definition dig10 (c : N) : bool := is_some (ndigit_of 10 c).
Definition dig16 (c : N) : bool := is_some (ndigit_of 16 c).

Lemma ndigits_total base : forall ds acc,
  forallb (fun c => is_some (ndigit_of base c)) ds = true -> exists z, ndigits_value base acc ds = Some z.
Proof.
  induction ds as [|c ds IH]; intros acc H; cbn [ndigits_value]; [eauto|].
  cbn [forallb] in H. apply andb_true_iff in H. destruct H as [H1 H2].
  destruct (ndigit_of base c) as [d|]; [|discriminate]. apply IH. exact H2.
Qed.

Lemma nstrip_10 s : nstrip_0x 10 s = s.
Proof. destruct s as [|z [|x r]]; reflexivity. Qed.

(* int(ds) for a non-empty run of decimal digits *)
Lemma npy_int_dec maxd ds :
  ds <> [] -> forallb dig10 ds = true ->
  (npy_int 10 maxd ds = Crash ValueError /\ (maxd < zlen ds)%Z) \/ exists z, npy_int 10 maxd ds = Ok z.
Proof.
  intros Hne Hd. unfold npy_int. rewrite nstrip_10. destruct ds as [|c r]; [contradiction|].
  change (negb (is_pow2_base 10)) with true. cbn [andb].
  destruct (maxd <? zlen (c :: r))%Z eqn:E.
  - left. split; [reflexivity|]. apply Z.ltb_lt. exact E.
  - right. destruct (ndigits_total 10 (c :: r) 0%Z Hd) as (z & Hz). rewrite Hz. eauto.
Qed.

(* int("0x" + hs, 16) for a non-empty run of hex digits: never raises *)
Lemma npy_int_hex maxd hs :
  hs <> [] -> forallb dig16 hs = true -> exists z, npy_int 16 maxd (48 :: 120 :: hs)%N = Ok z.
Proof.
  intros Hne Hd. unfold npy_int. cbn [nstrip_0x]. change ((16 =? 16)%Z && (48 =? 48)%N && ((120 =? 120)%N || (120 =? 88)%N)) with true.
  cbv iota. destruct hs as [|c r]; [contradiction|].
  change (negb (is_pow2_base 16)) with false. cbn [andb].
  destruct (ndigits_total 16 (c :: r) 0%Z Hd) as (z & Hz). rewrite Hz. eauto.
Qed.

(* ---------- the escape loop ---------------------------------------------------------------- *)
Definition loop_good (o : outcome (list N)) : Prop :=
  (exists v, o = Ok v) \/ o = ParserError "InvalidEscapingChar"%string.

Lemma py_idx_at {A} (pre : list A) x rest : py_idx (pre ++ x :: rest) (zlen pre) = Ok x.
Proof.
  unfold py_idx. pose proof (zlen_nonneg' pre) as Hn.
  destruct (zlen pre <? 0)%Z eqn:E; [apply Z.ltb_lt in E; lia|]. rewrite E.
  unfold zlen. rewrite Nat2Z.id. rewrite nth_error_app2 by lia. rewrite Nat.sub_diag. reflexivity.
Qed.

Lemma py_idx_at1 {A} (pre : list A) x y rest : py_idx (pre ++ x :: y :: rest) (zlen pre + 1) = Ok y.
Proof.
  replace (pre ++ x :: y :: rest) with ((pre ++ [x]) ++ y :: rest) by (rewrite <- app_assoc; reflexivity).
  replace (zlen pre + 1)%Z with (zlen (pre ++ [x])) by (rewrite zlen_app'; unfold zlen; cbn [length]; lia).
  apply py_idx_at.
Qed.

Lemma ntable_mem_get {V} (d : list (N * V)) c : ntable_mem d c = true -> exists v, npy_dict_get d c = Ok v.
Proof. unfold ntable_mem, npy_dict_get. destruct (ntable_get d c); [eauto|discriminate]. Qed.

Section Act.
Variable uw : N -> bool.

Lemma dm_star_ind g a (P : option N -> list N -> list N -> Prop) :
  (forall p post, P p [] post) ->
  (forall p w1 w2 post, dm uw a p w1 (w2 ++ post) -> dm uw (XStar g a) (lastc p w1) w2 post ->
                        P (lastc p w1) w2 post -> P p (w1 ++ w2) post) ->
  forall p w post, dm uw (XStar g a) p w post -> P p w post.
Proof.
  intros H0 HS p w post H. remember (XStar g a) as r eqn:Er.
  induction H as [| | | | | | g0 a0 p0 post0 | g0 a0 p0 w1 w2 post0 H1 _ H2 IH2]; try discriminate.
  - subst. discriminate.
  - apply H0.
  - inversion Er; subst g0 a0. apply HS; auto.
Qed.

Definition str_unit : rx := XAlt (XIn true [(92, 92); (10, 10)]%N) (XSeq (XChar 92) XAny).

Lemma escape_loop_body_total g p body post :
  dm uw (XStar g str_unit) p body post ->
  forall pre val fuel, (length body < fuel)%nat ->
  loop_good (escape_loop fuel (pre ++ body) (zlen pre) val).
Proof.
  intro H. pattern p, body, post. eapply dm_star_ind; [| |exact H]; clear H p body post.
  - intros _ _ pre val fuel Hf. destruct fuel as [|f]; [lia|]. cbn [escape_loop]. rewrite app_nil_r.
    rewrite Z.ltb_irrefl. left. eauto.
  - intros p w1 w2 post H1 _ IH pre val fuel Hf. unfold str_unit in H1. apply dm_alt_inv in H1.
    destruct fuel as [|f]; [lia|]. destruct H1 as [H1|H1].
    + apply dm_atom_inv in H1; [|reflexivity]. destruct H1 as (c & -> & Hok).
      cbn [atom_ok in_ranges existsb fst snd] in Hok.
      assert (Hc : N.eqb c 92 = false).
      { destruct (N.eqb_spec c 92) as [E|E]; [|reflexivity]. subst c. discriminate Hok. }
      cbn [escape_loop app].
      assert (Hlt : (zlen pre <? zlen (pre ++ c :: w2))%Z = true).
      { apply Z.ltb_lt. rewrite zlen_app', zlen_cons'. pose proof (zlen_nonneg' w2). lia. }
      rewrite Hlt. rewrite (py_idx_at pre c w2). cbn [bind]. rewrite Hc. cbn [bind].
      replace (pre ++ c :: w2) with ((pre ++ [c]) ++ w2) by (rewrite <- app_assoc; reflexivity).
      replace (zlen pre + 1)%Z with (zlen (pre ++ [c])) by (rewrite zlen_app'; unfold zlen; cbn [length]; lia).
      apply IH. rewrite app_length in Hf. cbn [length] in Hf. lia.
    + apply dm_seq_inv in H1. destruct H1 as (a & b & -> & Ha & Hb).
      apply dm_char_inv in Ha. subst a. apply dm_atom_inv in Hb; [|reflexivity]. destruct Hb as (d & -> & Hd).
      cbn [escape_loop app].
      assert (Hlt : (zlen pre <? zlen (pre ++ 92%N :: d :: w2))%Z = true).
      { apply Z.ltb_lt. rewrite zlen_app', !zlen_cons'. pose proof (zlen_nonneg' w2). lia. }
      rewrite Hlt. rewrite (py_idx_at pre 92%N (d :: w2)). cbn [bind]. change (N.eqb 92 92) with true. cbv iota.
      rewrite (py_idx_at1 pre 92%N d w2). cbn [bind].
      destruct (ntable_mem escaping_chars d) eqn:Hm.
      * cbn [bind]. destruct (ntable_mem_get _ _ Hm) as (v & Hv). rewrite Hv. cbn [bind].
        replace (pre ++ 92%N :: d :: w2) with ((pre ++ [92%N; d]) ++ w2) by (rewrite <- app_assoc; reflexivity).
        replace (zlen pre + 1 + 1)%Z with (zlen (pre ++ [92%N; d])) by (rewrite zlen_app'; unfold zlen; cbn [length]; lia).
        apply IH. cbn [app length] in Hf. lia.
      * right. reflexivity.
Qed.

Lemma token_body_quoted (q1 q2 : N) body : token_body (q1 :: body ++ [q2]) = body.
Proof.
  unfold token_body, py_slice. cbn [skipn length]. rewrite app_length. cbn [length].
  replace (S (length body + 1) - 1 - 1)%nat with (length body) by lia.
  rewrite firstn_app, Nat.sub_diag, firstn_all. cbn [firstn]. apply app_nil_r.
Qed.

Lemma unescape_total p w post : dm uw rx_t_STRING_LITERAL p w post -> loop_good (unescape_token w).
Proof.
  unfold rx_t_STRING_LITERAL. intro H.
  apply dm_seq_inv in H. destruct H as (q1 & r1 & -> & Hq1 & H). apply dm_char_inv in Hq1. subst q1.
  apply dm_seq_inv in H. destruct H as (body & q2 & -> & Hb & Hq2). apply dm_char_inv in Hq2. subst q2.
  cbn [app]. unfold unescape_token. rewrite token_body_quoted. cbv zeta.
  apply (escape_loop_body_total _ _ _ _ Hb [] [] (S (length body))). lia.
Qed.

(* ---------- every rule body ------------------------------------------------------------------ *)
Definition crash_guard (rem : list N) : Prop :=
  exists pre ds post, rem = pre ++ ds ++ post /\ (pre = [] \/ pre = W_uint \/ pre = W_int)
                      /\ forallb dig10 ds = true /\ (py_int_max_str_digits < zlen ds)%Z.

Definition lexer_error_kinds : list string := ["InvalidUintCap"; "InvalidIntCap"; "InvalidEscapingChar"]%string.

Definition act_good (o : outcome (list N * tvalue * Z)) (w post : list N) : Prop :=
  match o with
  | Ok _ => True
  | ParserError k => In k lexer_error_kinds
  | Crash e => e = ValueError /\ crash_guard (w ++ post)
  end.

Ltac dm_inv :=
  repeat match goal with
  | H : dm _ (XSeq _ _) _ _ _ |- _ => apply dm_seq_inv in H; destruct H as (? & ? & -> & ? & ?)
  | H : dm _ (XChar _) _ _ _ |- _ => apply dm_char_inv in H; subst
  | H : dm _ XBound _ _ _ |- _ => apply dm_bound_inv in H; destruct H as [-> ?]
  end.

Lemma digits_of_plus p w post :
  dm uw (XPlus true (XIn false [(48, 57)]%N)) p w post -> w <> [] /\ forallb dig10 w = true.
Proof.
  intro H. split.
  - eapply dm_consumes; [exact H|reflexivity].
  - eapply dm_atoms_sat; [exact H|vm_compute; reflexivity].
Qed.

Lemma cap_node_good cls k pre ds post line name :
  ds <> [] -> forallb dig10 ds = true -> length pre = k -> (pre = W_uint \/ pre = W_int) ->
  (cls = "Uint" \/ cls = "Int")%string ->
  act_good (run_action name (Some (mkAct 0 None (CvCapNode cls k) false)) (pre ++ ds) line) (pre ++ ds) post.
Proof.
  intros Hne Hd Hk Hpre Hcls. unfold run_action. cbn [a_settype a_kw a_conv a_lineinc andb run_conv].
  unfold py_slice_from. rewrite <- Hk, skipn_app, Nat.sub_diag, skipn_all. cbn [skipn app].
  destruct (npy_int_dec py_int_max_str_digits ds Hne Hd) as [[E G]|[z E]]; rewrite E; cbn [bind act_good].
  - split; [reflexivity|]. exists pre, ds, post. rewrite <- app_assoc. repeat split; auto.
  - unfold node_cap_check, uint_cap_check, int_cap_check.
    destruct Hcls as [-> | ->]; cbn [String.eqb Ascii.eqb Bool.eqb];
      match goal with |- context [if ?c then Ok _ else ParserError _] => destruct c end; cbn [bind act_good lexer_error_kinds In]; auto.
Qed.

Lemma action_good r p w post line :
  In r lex_rules -> dm uw (r_rx r) p w post -> act_good (run_action (r_name r) (r_act r) w line) w post.
Proof.
  intros Hin Hd. unfold lex_rules in Hin. cbn [In] in Hin.
  repeat (destruct Hin as [<-|Hin]; [cbn [r_rx r_name r_act] in *|]); try contradiction;
    try (unfold run_action; cbn [a_settype a_kw a_conv a_lineinc andb run_conv bind act_good]; exact I).
  - (* t_UINT_TYPE *)
    unfold rx_t_UINT_TYPE in Hd. dm_inv.
    match goal with H : dm _ (XPlus _ _) _ _ _ |- _ => apply digits_of_plus in H; destruct H as [Hne Hdg] end.
    cbn [app]. rewrite app_nil_r.
    match goal with |- context [117%N :: 105%N :: 110%N :: 116%N :: ?ds] =>
      change (117%N :: 105%N :: 110%N :: 116%N :: ds) with (W_uint ++ ds) end.
    apply cap_node_good; auto.
  - (* t_INT_TYPE *)
    unfold rx_t_INT_TYPE in Hd. dm_inv.
    match goal with H : dm _ (XPlus _ _) _ _ _ |- _ => apply digits_of_plus in H; destruct H as [Hne Hdg] end.
    cbn [app]. rewrite app_nil_r.
    match goal with |- context [105%N :: 110%N :: 116%N :: ?ds] =>
      change (105%N :: 110%N :: 116%N :: ds) with (W_int ++ ds) end.
    apply cap_node_good; auto.
  - (* t_HEX_LITERAL *)
    unfold rx_t_HEX_LITERAL in Hd. dm_inv. cbn [app].
    match goal with H : dm _ (XPlus _ _) _ _ _ |- _ =>
      pose proof (dm_consumes _ _ _ _ _ H eq_refl) as Hne;
      pose proof (dm_atoms_sat uw dig16 _ _ _ _ H ltac:(vm_compute; reflexivity)) as Hdg end.
    unfold run_action. cbn [a_settype a_kw a_conv a_lineinc andb run_conv].
    match goal with |- context [npy_int 16 ?m (48%N :: 120%N :: ?hs)] =>
      destruct (npy_int_hex m hs Hne Hdg) as (z & Hz); rewrite Hz end.
    cbn [bind act_good]. exact I.
  - (* t_INT_LITERAL *)
    unfold rx_t_INT_LITERAL in Hd. apply digits_of_plus in Hd. destruct Hd as [Hne Hdg].
    unfold run_action. cbn [a_settype a_kw a_conv a_lineinc andb run_conv].
    destruct (npy_int_dec py_int_max_str_digits w Hne Hdg) as [[E G]|[z E]]; rewrite E; cbn [bind act_good]; [|exact I].
    split; [reflexivity|]. exists [], w, post. cbn [app]. repeat split; auto.
  - (* t_STRING_LITERAL *)
    apply unescape_total in Hd. unfold run_action. cbn [a_settype a_kw a_conv a_lineinc andb run_conv].
    destruct Hd as [[v Hv]|Hv]; rewrite Hv; cbn [bind act_good lexer_error_kinds In]; auto.
Qed.

(* ---------- the whole loop --------------------------------------------------------------------- *)
Definition end_good (e : lexend) (rem : list N) : Prop :=
  match e with
  | LDone | LError _ _ _ => True
  | LActErr k _ => In k lexer_error_kinds
  | LCrash ex => ex = ValueError /\ crash_guard rem
  | LFuel => False
  end.

Lemma lex_items_end : forall fuel prev rest pos line its e rem,
  lex_items uw fuel prev rest pos line = (its, e, rem) -> (length rest < fuel)%nat -> end_good e rem.
Proof.
  induction fuel as [|f IH]; intros prev rest pos line its e rem Heq Hlen; [lia|].
  cbn [lex_items] in Heq. destruct rest as [|c rest'].
  - inversion Heq; subst. exact I.
  - destruct (cp_mem c lex_ignore).
    + destruct (lex_items uw f (Some c) rest' (pos + 1)%Z line) as [[its' e'] rem'] eqn:Er.
      inversion Heq; subst. eapply IH; [exact Er|cbn [length] in Hlen; lia].
    + destruct (first_rule uw f lex_rules (prev, c :: rest')) as [[r [prev' rest'']]|] eqn:Efr.
      * apply first_rule_sound in Efr. destruct Efr as [Hin (w & Ew & Lw & Dw)]. cbn [fst snd] in *.
        assert (Hw : w <> []).
        { eapply dm_consumes; [exact Dw|]. pose proof rules_consume as HC. rewrite forallb_forall in HC. apply HC. exact Hin. }
        rewrite Ew in Heq. rewrite firstn_app_exact in Heq.
        pose proof (action_good r prev w rest'' line Hin Dw) as HA.
        destruct (run_action (r_name r) (r_act r) w line) as [[[ty v] line']|k|ex] eqn:Eact.
        -- destruct (lex_items uw f prev' rest'' (pos + Z.of_nat (length (w ++ rest'') - length rest''))%Z line')
             as [[its' e'] rem'] eqn:Er.
           inversion Heq; subst. eapply IH; [exact Er|].
           assert (length (c :: rest') = length (w ++ rest'')) by (rewrite Ew; reflexivity).
           rewrite app_length in H. destruct w; [contradiction|]. cbn [length] in *. lia.
        -- inversion Heq; subst. exact HA.
        -- inversion Heq; subst. exact HA.
      * destruct (cp_mem c lex_literals).
        -- destruct (lex_items uw f (Some c) rest' (pos + 1)%Z line) as [[its' e'] rem'] eqn:Er.
           inversion Heq; subst. eapply IH; [exact Er|cbn [length] in Hlen; lia].
        -- inversion Heq; subst. exact I.
Qed.

(* C09: how a run of the tokenizer can end *)
Theorem lex_end_good s its e rem : lex_run uw s = (its, e, rem) -> end_good e rem.
Proof. unfold lex_run. intro H. eapply lex_items_end; [exact H|lia]. Qed.

End Act.

(* the guard is exact: a run of 4301 digits does crash the decimal conversion (the witness is replayed on
   the implementation on every run: boundary catalogue `long-digits-4301`) *)
Lemma huge_literal_witness uw :
  snd (lex uw (repeat 49%N 4301)) = LCrash ValueError /\ snd (lex uw (repeat 49%N 4300)) = LDone.
Proof. split; vm_compute; reflexivity. Qed.
