(* GoEqb.v — boolean equalities used by the C19 correspondence (T1) case files. *)
From Coq Require Import ZArith List Bool.
From BP Require Import Bits Schema PyRt Eqb GoRt.
Import ListNotations.
Open Scope Z_scope.

Fixpoint gty_eqb (a b : gty) : bool :=
  match a, b with
  | GBool, GBool => true
  | GByte, GByte => true
  | GUint x, GUint y => x =? y
  | GInt x, GInt y => x =? y
  | GNamed x, GNamed y => gty_eqb x y
  | GArr c1 e1, GArr c2 e2 => Nat.eqb c1 c2 && gty_eqb e1 e2
  | GStruct, GStruct => true
  | _, _ => false
  end.

Definition gskind_eqb (a b : gskind) :=
  match a, b with GSOr, GSOr => true | GSBool, GSBool => true | _, _ => false end.
Definition ggkind_eqb (a b : ggkind) :=
  match a, b with GGInt, GGInt => true | GGBool x, GGBool y => Bool.eqb x y | _, _ => false end.
Definition gsent_eqb (a b : gsent) :=
  Nat.eqb (gs_depth a) (gs_depth b) && gty_eqb (gs_conv a) (gs_conv b) && gskind_eqb (gs_kind a) (gs_kind b).
Definition ggent_eqb (a b : ggent) :=
  Nat.eqb (gg_depth a) (gg_depth b) && ggkind_eqb (gg_kind a) (gg_kind b).
Definition gient_eqb (a b : gient) := Nat.eqb (gi_depth a) (gi_depth b) && (gi_d a =? gi_d b).

(* result codes, so that a mismatch names the table that differs *)
Definition gcls_diff (a b : gcls) : Z :=
  if negb (list_eqb (pair_eqb gty_eqb) (gc_struct a) (gc_struct b)) then 1      (* struct types / order *)
  else if negb (gc_size a =? gc_size b) then 2                                   (* size constant *)
  else if negb (list_eqb (pair_eqb ggent_eqb) (gc_get a) (gc_get b)) then 3      (* BpGetByte *)
  else if negb (list_eqb (pair_eqb gsent_eqb) (gc_set a) (gc_set b)) then 4      (* BpSetByte *)
  else if negb (list_eqb (pair_eqb gient_eqb) (gc_int a) (gc_int b)) then 5      (* BpProcessInt *)
  else if negb (list_eqb (pair_eqb Nat.eqb) (gc_acc a) (gc_acc b)) then 6        (* BpGetAccessor *)
  else 0.

Definition gcls_eqb (a b : gcls) : bool := gcls_diff a b =? 0.

(* 0 = equal; 1..6 = first differing table of some message; 7 = processor tree shape *)
Fixpoint gproc_diff (a b : gproc) : Z :=
  match a, b with
  | GPBool, GPBool => 0
  | GPByte, GPByte => 0
  | GPInt x, GPInt y => if x =? y then 0 else 7
  | GPUint x, GPUint y => if x =? y then 0 else 7
  | GPArray x1 c1 e1, GPArray x2 c2 e2 =>
      if Bool.eqb x1 x2 && Nat.eqb c1 c2 then gproc_diff e1 e2 else 7
  | GPEnum x, GPEnum y => gproc_diff x y
  | GPAlias x, GPAlias y => gproc_diff x y
  | GPMsg x1 n1 f1 c1, GPMsg x2 n2 f2 c2 =>
      if negb (Bool.eqb x1 x2 && (n1 =? n2)) then 7
      else
        let d := (fix go (l1 l2 : list (Z * gproc)) : Z :=
                    match l1, l2 with
                    | [], [] => 0
                    | p :: r1, q :: r2 =>
                        if fst p =? fst q then
                          let d := gproc_diff (snd p) (snd q) in
                          if d =? 0 then go r1 r2 else d
                        else 7
                    | _, _ => 7
                    end) f1 f2 in
        if d =? 0 then gcls_diff c1 c2 else d
  | _, _ => 7
  end.

Definition gproc_eqb (a b : gproc) : bool := gproc_diff a b =? 0.

Fixpoint sk_eqb (a b : sk) : bool :=
  match a, b with
  | KBool, KBool => true
  | KByte, KByte => true
  | KInt x, KInt y => x =? y
  | KUint x, KUint y => x =? y
  | KArray x1 c1 e1, KArray x2 c2 e2 => Bool.eqb x1 x2 && Nat.eqb c1 c2 && sk_eqb e1 e2
  | KEnum x, KEnum y => sk_eqb x y
  | KAlias x, KAlias y => sk_eqb x y
  | KMsg x1 n1 f1, KMsg x2 n2 f2 =>
      Bool.eqb x1 x2 && (n1 =? n2) &&
      (fix go (l1 l2 : list (Z * sk)) : bool :=
         match l1, l2 with
         | [], [] => true
         | p :: r1, q :: r2 => (fst p =? fst q) && sk_eqb (snd p) (snd q) && go r1 r2
         | _, _ => false
         end) f1 f2
  | _, _ => false
  end.

Definition triple_eqb (a b : Z * nat * bool) : bool :=
  (fst (fst a) =? fst (fst b)) && Nat.eqb (snd (fst a)) (snd (fst b)) && Bool.eqb (snd a) (snd b).
Definition triple_z_eqb (a b : Z * nat * Z) : bool :=
  (fst (fst a) =? fst (fst b)) && Nat.eqb (snd (fst a)) (snd (fst b)) && (snd a =? snd b).

Definition tables_agree (c : cls) (g : gcls) : bool :=
  list_eqb triple_eqb (depths_get c) (gdepths_get g) &&
  list_eqb triple_eqb (depths_set c) (gdepths_set g) &&
  list_eqb triple_z_eqb (depths_int c) (gdepths_int g) &&
  list_eqb (pair_eqb Nat.eqb) (c_acc c) (gc_acc g).

(* Python output (parsed by t1_py) vs Go output (parsed by t1_go) of the SAME schema:
   0 = agree; 1 = processor trees differ; 2 = accessor tables of some message differ *)
Fixpoint py_go_diff (p : proc) (g : gproc) : Z :=
  match p, g with
  | PArray _ _ e1, GPArray _ _ e2 => py_go_diff e1 e2
  | PEnum x, GPEnum y => py_go_diff x y
  | PAlias x, GPAlias y => py_go_diff x y
  | PMsg _ _ f1 c1, GPMsg _ _ f2 c2 =>
      if tables_agree c1 c2 then
        (fix go (l1 : list (Z * proc)) (l2 : list (Z * gproc)) : Z :=
           match l1, l2 with
           | p :: r1, q :: r2 =>
               let d := py_go_diff (snd p) (snd q) in if d =? 0 then go r1 r2 else d
           | _, _ => 0
           end) f1 f2
      else 2
  | _, _ => 0
  end.

Definition py_go_agree (p : proc) (g : gproc) : Z :=
  if sk_eqb (pskel p) (gskel g) then py_go_diff p g else 1.
