(* PyDecStep.v — process_base_type in the decode direction: the leaf addressed by
   (field number, index stack) ends up holding exactly the n stream bits under the cursor,
   combined chunk by chunk as the generated bp_set_byte does (|=, with the bp.intN caster
   for signed fields), for every n, cursor and buffer (no bound). *)
From Coq Require Import ZArith List Bool Lia ZifyBool.
From BP Require Import Bits Schema Spec PyRt ByteStep PyEncStep PyEncProofs.
From BPGen Require Import GenPy.
Import ListNotations.
Open Scope Z_scope.

(* ---------- pure path updates and their algebra ---------- *)

Fixpoint set_idx (v : val) (idx : list nat) (nv : val) : val :=
  match idx with
  | [] => nv
  | k :: r => match v with
              | VL l => VL (upd l k (set_idx (nth k l (VZ 0)) r nv))
              | _ => v
              end
  end.

Lemma nth_error_upd_same {A} (l : list A) k x :
  (k < length l)%nat -> nth_error (upd l k x) k = Some x.
Proof. revert k; induction l as [|a r IH]; intros [|k] H; cbn in *; try lia; auto. apply IH. lia. Qed.

Lemma upd_twice {A} (l : list A) k x y : upd (upd l k x) k y = upd l k y.
Proof. revert k; induction l as [|a r IH]; intros [|k]; cbn; auto. now rewrite IH. Qed.

Lemma nth_upd_same (l : list val) k x d : (k < length l)%nat -> nth k (upd l k x) d = x.
Proof. revert k; induction l as [|a r IH]; intros [|k] H; cbn in *; try lia; auto. apply IH. lia. Qed.

Lemma nth_error_some_lt {A} (l : list A) k x : nth_error l k = Some x -> (k < length l)%nat.
Proof. intros H. apply nth_error_Some. congruence. Qed.

Lemma update_val_set_idx v idx nv cur :
  index_val v idx = Ok cur -> update_val v idx nv = Ok (set_idx v idx nv).
Proof.
  revert v; induction idx as [|k r IH]; intros v H; [reflexivity|].
  cbn [index_val update_val set_idx] in *. destruct v as [?|?|l|?]; try discriminate.
  destruct (nth_error l k) as [x|] eqn:E; [|discriminate].
  rewrite (IH x H). cbn [bind]. now rewrite (nth_error_nth _ _ (VZ 0) E).
Qed.

Lemma index_set_idx v idx nv cur :
  index_val v idx = Ok cur -> index_val (set_idx v idx nv) idx = Ok nv.
Proof.
  revert v; induction idx as [|k r IH]; intros v H; [reflexivity|].
  cbn [index_val set_idx] in *. destruct v as [?|?|l|?]; try discriminate.
  destruct (nth_error l k) as [x|] eqn:E; [|discriminate].
  rewrite nth_error_upd_same by (eapply nth_error_some_lt; eassumption).
  rewrite (nth_error_nth _ _ (VZ 0) E). now apply IH.
Qed.

Lemma set_idx_twice v idx x y cur :
  index_val v idx = Ok cur -> set_idx (set_idx v idx x) idx y = set_idx v idx y.
Proof.
  revert v; induction idx as [|k r IH]; intros v H; [reflexivity|].
  cbn [index_val set_idx] in *. destruct v as [?|?|l|?]; try discriminate.
  destruct (nth_error l k) as [e|] eqn:E; [|discriminate].
  pose proof (nth_error_some_lt _ _ _ E) as Hk.
  rewrite upd_twice, nth_upd_same by assumption.
  rewrite (nth_error_nth _ _ (VZ 0) E). now rewrite (IH e H).
Qed.

Lemma upd_nth_id (l : list val) k : (k < length l)%nat -> upd l k (nth k l (VZ 0)) = l.
Proof. revert k; induction l as [|a r IH]; intros [|k] H; cbn in *; try lia; auto. now rewrite IH by lia. Qed.

Lemma set_idx_id v idx cur : index_val v idx = Ok cur -> set_idx v idx cur = v.
Proof.
  revert v; induction idx as [|k r IH]; intros v H.
  - cbn in *. congruence.
  - cbn [index_val set_idx] in *. destruct v as [?|?|l|?]; try discriminate.
    destruct (nth_error l k) as [e|] eqn:E; [|discriminate].
    rewrite (nth_error_nth _ _ (VZ 0) E), (IH e H).
    rewrite <- (nth_error_nth _ _ (VZ 0) E) at 1.
    now rewrite upd_nth_id by (eapply nth_error_some_lt; eassumption).
Qed.

Lemma lookup_set_field_same k x (vs : list (Z * val)) a :
  lookup k vs = Some a -> lookup k (set_field k x vs) = Some x.
Proof.
  induction vs as [|h r IH]; cbn [lookup set_field]; intros H; [discriminate|].
  destruct (fst h =? k) eqn:E; cbn [lookup fst snd].
  - now rewrite Z.eqb_refl.
  - rewrite E. now apply IH.
Qed.

Lemma set_field_twice k x y (vs : list (Z * val)) :
  set_field k y (set_field k x vs) = set_field k y vs.
Proof.
  induction vs as [|h r IH]; cbn [set_field]; [reflexivity|].
  destruct (fst h =? k) eqn:E; cbn [set_field fst].
  - now rewrite Z.eqb_refl.
  - rewrite E. now rewrite IH.
Qed.

Lemma set_field_id k (vs : list (Z * val)) a : lookup k vs = Some a -> set_field k a vs = vs.
Proof.
  induction vs as [|h r IH]; cbn [lookup set_field]; intros H; [reflexivity|].
  destruct (fst h =? k) eqn:E.
  - apply Z.eqb_eq in E. destruct h as [k' v']. cbn in *. subst. congruence.
  - now rewrite IH.
Qed.

(* ---------- arithmetic ---------- *)

Lemma lor_disjoint_low z j m :
  0 <= j -> 0 <= z < 2 ^ j -> Z.lor z (m * 2 ^ j) = z + m * 2 ^ j.
Proof.
  intros Hj Hz.
  assert (Hland : Z.land z (m * 2 ^ j) = 0).
  { apply Z.bits_inj'. intros i Hi. rewrite Z.land_spec, Z.bits_0.
    destruct (Z.lt_ge_cases i j) as [Hlt|Hge].
    - rewrite Z.mul_pow2_bits_low by lia. apply andb_false_r.
    - replace z with (z mod 2 ^ j) by (apply Z.mod_small; lia).
      rewrite Z.mod_pow2_bits_high by lia. reflexivity. }
  rewrite <- Z.lxor_lor by exact Hland. symmetry. now apply Z.add_nocarry_lxor.
Qed.

Definition slice (s : list Z) (i n : Z) : Z := (bufZ s / 2 ^ i) mod 2 ^ n.

(* bits [ci, ci+c) of the buffer, read through the byte under the cursor *)
Lemma cursor_slice s ci c :
  bytes_ok s -> 0 <= ci -> 0 <= c -> c <= 8 - ci mod 8 ->
  Z.shiftr (nth (Z.to_nat (ci / 8)) s 0) (ci mod 8) mod 2 ^ c = slice s ci c.
Proof.
  intros Hs Hci Hc Hle. unfold slice.
  pose proof (Z.mod_pos_bound ci 8 ltac:(lia)) as Hm.
  pose proof (Z.div_mod ci 8 ltac:(lia)) as Hdm.
  assert (Hq : 0 <= ci / 8) by (apply Z.div_pos; lia).
  rewrite bufZ_nth by assumption. rewrite Z2Nat.id, pow256 by assumption.
  rewrite <- !Z.shiftr_div_pow2 by lia.
  apply Z.bits_inj'. intros i Hi.
  destruct (Z.lt_ge_cases i c) as [Hlt|Hge].
  - rewrite !Z.mod_pow2_bits_low by lia. rewrite !Z.shiftr_spec by lia.
    change 256 with (2 ^ 8). rewrite Z.mod_pow2_bits_low by lia.
    rewrite Z.shiftr_spec by lia. f_equal. lia.
  - rewrite !Z.mod_pow2_bits_high by lia. reflexivity.
Qed.

Lemma slice_split s i n m :
  0 <= i -> 0 <= n -> 0 <= m ->
  slice s i (n + m) = slice s i n + 2 ^ n * slice s (i + n) m.
Proof.
  intros Hi Hn Hm. unfold slice.
  rewrite (Z.pow_add_r 2 n m), Z.rem_mul_r by (try apply Z.pow_nonzero; try apply pow2_pos; lia).
  rewrite (Z.pow_add_r 2 i n), Z.div_div by (try apply pow2_pos; lia). reflexivity.
Qed.

Lemma slice_range s i n : 0 <= n -> 0 <= slice s i n < 2 ^ n.
Proof. intros. unfold slice. apply Z.mod_pos_bound, pow2_pos. lia. Qed.

Lemma mod_div_mod u n j c X :
  0 <= j -> 0 <= c -> j + c <= n -> u = X mod 2 ^ n ->
  (u / 2 ^ j) mod 2 ^ c = (X / 2 ^ j) mod 2 ^ c.
Proof.
  intros Hj Hc Hle ->.
  rewrite <- !Z.shiftr_div_pow2 by lia.
  apply Z.bits_inj'. intros i Hi.
  destruct (Z.lt_ge_cases i c) as [Hlt|Hge].
  - rewrite !Z.mod_pow2_bits_low by lia. rewrite !Z.shiftr_spec by lia.
    rewrite Z.mod_pow2_bits_low by lia. reflexivity.
  - rewrite !Z.mod_pow2_bits_high by lia. reflexivity.
Qed.

(* ---------- one leaf ---------- *)

Section Leaf.
  Variables (c : cls) (vs : list (Z * val)) (fn : Z) (stk : list nat) (a : val).
  Hypothesis Hl : lookup fn vs = Some a.
  Variable cur0 : val.
  Hypothesis Hidx : index_val a stk = Ok cur0.

  Definition at_leaf (x : val) : val := VM (set_field fn (set_idx a stk x) vs).

  Lemma at_leaf_id : at_leaf cur0 = VM vs.
  Proof. unfold at_leaf. rewrite (set_idx_id _ _ _ Hidx). now rewrite (set_field_id _ _ _ Hl). Qed.

  Lemma lookup_at_leaf x : lookup fn (set_field fn (set_idx a stk x) vs) = Some (set_idx a stk x).
  Proof. eapply lookup_set_field_same; eassumption. Qed.

  Lemma read_attr_raw_at x : stk = [] -> read_attr_raw (at_leaf x) fn = Ok x.
  Proof. intros E. unfold at_leaf, read_attr_raw. rewrite lookup_at_leaf. rewrite E. reflexivity. Qed.

  Lemma write_attr_at x y : stk = [] -> write_attr (at_leaf x) fn y = Ok (at_leaf y).
  Proof. intros E. unfold at_leaf, write_attr. rewrite set_field_twice. rewrite E. reflexivity. Qed.

  Section NoProxy.
    Hypothesis Hnp : lookup fn (c_proxy c) = None.

    Lemma read_ref_at x : read_ref c (at_leaf x) fn stk (length stk) = Ok x.
    Proof.
      unfold read_ref. rewrite stack_prefix_full. cbn [bind].
      unfold read_attr, at_leaf. rewrite lookup_at_leaf, Hnp. cbn [bind].
      eapply index_set_idx; eassumption.
    Qed.

    Lemma write_ref_at x y : write_ref c (at_leaf x) fn stk (length stk) y = Ok (at_leaf y).
    Proof.
      unfold write_ref. rewrite stack_prefix_full. cbn [bind].
      assert (Hgen : (a' <- read_attr c (at_leaf x) fn ;; a'' <- update_val a' stk y ;; write_attr (at_leaf x) fn a'')
                     = Ok (at_leaf y)).
      { unfold read_attr, at_leaf. rewrite lookup_at_leaf, Hnp. cbn [bind].
        rewrite (update_val_set_idx _ _ y x) by (eapply index_set_idx; eassumption). cbn [bind].
        unfold write_attr. rewrite set_field_twice.
        now rewrite (set_idx_twice _ _ _ _ _ Hidx). }
      destruct stk as [|k r] eqn:Es.
      - exact (write_attr_at x y Es).
      - exact Hgen.
    Qed.
  End NoProxy.

  (* the chunk loop, generic in how a chunk is combined into the leaf *)
  Section Loop.
    Variable comb : Z -> Z -> Z.
    Hypothesis Hset : forall z lshift d,
      set_byte c (at_leaf (VZ z)) fn stk lshift d = Ok (at_leaf (VZ (comb z (Z.shiftl d lshift)))).
    Variables (n i0 : Z) (s : list Z).
    Variable F : Z -> Z.
    Hypothesis Hstep : forall j cnt,
      0 <= j -> 1 <= cnt -> j + cnt <= n ->
      comb (F j) (slice s (i0 + j) cnt * 2 ^ j) = F (j + cnt).

    Lemma pbt_dec_loop :
      forall fuel j,
        (Z.to_nat (n - j) <= fuel)%nat ->
        0 <= j <= n -> 0 <= i0 -> bytes_ok s ->
        i0 + n <= 8 * Z.of_nat (length s) ->
        pbt_dec fuel n c (at_leaf (VZ (F j))) fn stk j {| cs := s; ci := i0 + j |} =
        Ok (at_leaf (VZ (F n)), {| cs := s; ci := i0 + n |}).
    Proof.
      induction fuel as [|f IH]; intros j Hfuel Hj Hi0 Hs Hlen.
      - assert (j = n) by lia. subst j. cbn [pbt_dec]. now rewrite Z.ltb_irrefl.
      - cbn [pbt_dec]. destruct (j <? n) eqn:Hjn.
        2:{ apply Z.ltb_ge in Hjn. assert (j = n) by lia. now subst j. }
        apply Z.ltb_lt in Hjn. cbn [cs ci].
        pose proof (nbits_to_copy_range (i0 + j) j n ltac:(lia)) as (Hc1 & Hc2 & Hc3 & Hc4).
        set (cnt := get_nbits_to_copy (i0 + j) j n) in *.
        pose proof (Z.mod_pos_bound (i0 + j) 8 ltac:(lia)) as Hmi.
        pose proof (Z.mod_pos_bound j 8 ltac:(lia)) as Hmj.
        pose proof (Z.div_mod j 8 ltac:(lia)) as Hdmj.
        assert (Hq : 0 <= (i0 + j) / 8) by (apply Z.div_pos; lia).
        assert (Hqj : 0 <= j / 8) by (apply Z.div_pos; lia).
        unfold dec_single_byte. cbn [cs ci]. unfold dec_index.
        assert (Hk : (Z.to_nat ((i0 + j) / 8) < length s)%nat).
        { assert ((i0 + j) / 8 < Z.of_nat (length s)) by (apply Z.div_lt_upper_bound; lia). lia. }
        destruct (nth_error s (Z.to_nat ((i0 + j) / 8))) as [b|] eqn:Hnth.
        2:{ apply nth_error_None in Hnth. lia. }
        assert (Hb : b = nth (Z.to_nat ((i0 + j) / 8)) s 0) by (symmetry; now apply nth_error_nth).
        assert (Hbr : 0 <= b < 256) by (rewrite Hb; apply nth_bytes_ok; assumption).
        rewrite Hset. cbn [bind].
        assert (Hd : Z.shiftl (dec_d b (i0 + j) j cnt) (dec_lshift j) = slice s (i0 + j) cnt * 2 ^ j).
        { rewrite dec_d_mod, dec_d_small by lia. unfold dec_lshift.
          rewrite Z.shiftl_mul_pow2 by lia. rewrite Hb, cursor_slice by (try assumption; lia).
          rewrite <- Z.mul_assoc, <- Z.pow_add_r by lia. do 2 f_equal. lia. }
        rewrite Hd, Hstep by lia.
        replace (i0 + j + cnt) with (i0 + (j + cnt)) by lia.
        apply IH; try assumption; lia.
    Qed.
  End Loop.
End Leaf.
