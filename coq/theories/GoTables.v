(* GoTables.v — facts about the model of the Go renderer (GoRt.go_cls_of / go_proc_of /
   go_type_of): which Go types it declares, which field each accessor table entry addresses
   (array depth, conversion type, sign extension), and that its processor tree and table
   addressing coincide with the Python renderer model (PyRt.proc_of / cls_of).
   T1 (tools/t1_go.py) ties the model to the emitted text on every run. *)
From Coq Require Import ZArith List Bool Lia.
From BP Require Import Bits Schema PyRt PyEncProofs GoRt GoHelpers.
From BPGen Require GenGo.
Import ListNotations.
Open Scope Z_scope.

(* ---------- independent description of a field type ---------- *)

(* number of array layers down to the element, through aliases *)
Fixpoint arr_layers (t : ty) : nat :=
  match t with
  | TAlias t' => arr_layers t'
  | TArr _ _ e => S (arr_layers e)
  | _ => O
  end.

(* the innermost non-array, non-alias type *)
Fixpoint innermost (t : ty) : ty :=
  match t with
  | TAlias t' => innermost t'
  | TArr _ _ e => innermost e
  | _ => t
  end.

Definition is_msgb (t : ty) : bool := match t with TMsg _ _ => true | _ => false end.
Definition is_boolb (t : ty) : bool := match t with TBool => true | _ => false end.

Lemma innermost_kind t : is_single (innermost t) = true \/ is_msgb (innermost t) = true.
Proof.
  induction t as [| | n | n | n ms | t IH | x c e IH | x fs IH] using ty_ind'; cbn; auto.
Qed.

(* ---------- struct field types ---------- *)

Lemma go_type_uint n : 1 <= n <= 64 -> go_type_of (TUint n) = GUint (smallest_cover n).
Proof. intros H. cbn [go_type_of]. now rewrite get_nbits_of_integer_eq. Qed.

Lemma go_type_int n : 1 <= n <= 64 -> go_type_of (TInt n) = GInt (smallest_cover n).
Proof. intros H. cbn [go_type_of]. now rewrite get_nbits_of_integer_eq. Qed.

Lemma go_type_enum n ms : 1 <= n <= 64 -> go_type_of (TEnum n ms) = GNamed (GUint (smallest_cover n)).
Proof. intros H. cbn [go_type_of]. now rewrite get_nbits_of_integer_eq. Qed.

(* the declared type of a field: arr_layers array layers (with their capacities, through named
   alias types) around the type of the innermost type *)
Fixpoint strip_arrays (g : gty) (d : nat) {struct d} : option gty :=
  match d with
  | O => Some g
  | S d' => match under g with GArr _ e => strip_arrays e d' | _ => None end
  end.

Lemma elem_gty_strip g d : elem_gty g d = strip_arrays g d.
Proof. revert g; induction d as [|d IH]; intros g; [reflexivity|]. cbn. destruct (under g); auto. Qed.

Lemma go_type_layers t :
  shape_ok t = true ->
  exists g, strip_arrays (go_type_of t) (arr_layers t) = Some g /\
            under g = under (go_type_of (innermost t)).
Proof.
  induction t as [| | n | n | n ms | t IH | x c e IH | x fs IH] using ty_ind'; intros Hs;
    try (eexists; split; [reflexivity|reflexivity]).
  - (* alias *)
    cbn [shape_ok] in Hs.
    assert (Hs' : shape_ok t = true) by (destruct t; try discriminate; exact Hs).
    destruct (IH Hs') as (g & E & U). cbn [arr_layers innermost go_type_of].
    revert E. destruct (arr_layers t) as [|d]; intros E.
    + cbn [strip_arrays] in *. injection E as <-.
      eexists; split; [reflexivity|]. exact U.
    + cbn [strip_arrays] in *. cbn [under]. exists g. split; [exact E|exact U].
  - (* array *)
    cbn [shape_ok] in Hs.
    assert (Hs' : shape_ok e = true) by (destruct e; try discriminate; exact Hs).
    destruct (IH Hs') as (g & E & U). cbn [arr_layers innermost go_type_of strip_arrays under].
    exists g. split; assumption.
Qed.

(* ---------- what gleaf_of / gmsg_depth_of compute on accepted shapes ---------- *)

Lemma gleaf_single t :
  shape_ok t = true -> is_single (innermost t) = true -> forall d,
  (exists ct, gleaf_of t d = Some ((d + arr_layers t)%nat, ct, innermost t) /\
              under (go_type_of ct) = under (go_type_of (innermost t)) /\
              (ct = innermost t \/ ct = TAlias (innermost t))) /\
  gmsg_depth_of t d = None.
Proof.
  induction t as [| | n | n | n ms | t IH | x c e IH | x fs IH] using ty_ind'; intros Hs Hi d;
    try (cbn [arr_layers innermost gleaf_of gmsg_depth_of]; rewrite Nat.add_0_r;
         split; [eexists; split; [reflexivity|split; [reflexivity|left; reflexivity]]|reflexivity]).
  - (* alias *)
    cbn [shape_ok] in Hs. cbn [innermost arr_layers] in *.
    destruct t as [| | n | n | n ms | t' | x c e | x fs]; try discriminate;
      try (cbn [arr_layers innermost gleaf_of gmsg_depth_of]; rewrite Nat.add_0_r;
           split; [eexists; split; [reflexivity|split; [reflexivity|right; reflexivity]]|reflexivity]).
    (* alias of array *)
    exact (IH Hs Hi d).
  - (* array *)
    cbn [shape_ok] in Hs. cbn [innermost arr_layers] in *.
    assert (Hs' : shape_ok e = true) by (destruct e; try discriminate; exact Hs).
    specialize (IH Hs' Hi (S d)).
    replace (d + S (arr_layers e))%nat with (S d + arr_layers e)%nat by lia.
    destruct e; try discriminate; exact IH.
  - discriminate.
Qed.

Lemma gleaf_msg t :
  shape_ok t = true -> is_msgb (innermost t) = true -> forall d,
  gleaf_of t d = None /\ gmsg_depth_of t d = Some (d + arr_layers t)%nat.
Proof.
  induction t as [| | n | n | n ms | t IH | x c e IH | x fs IH] using ty_ind'; intros Hs Hi d;
    try discriminate.
  - cbn [shape_ok] in Hs. cbn [innermost arr_layers] in *.
    destruct t as [| | n | n | n ms | t' | x c e | x fs]; try discriminate.
    exact (IH Hs Hi d).
  - cbn [shape_ok] in Hs. cbn [innermost arr_layers] in *.
    assert (Hs' : shape_ok e = true) by (destruct e; try discriminate; exact Hs).
    specialize (IH Hs' Hi (S d)).
    replace (d + S (arr_layers e))%nat with (S d + arr_layers e)%nat by lia.
    destruct e; try discriminate; exact IH.
  - cbn [arr_layers]. rewrite Nat.add_0_r. split; reflexivity.
Qed.

(* the Python renderer model computes the same address (no shape hypothesis needed there) *)
Lemma leaf_of_spec t : forall d,
  leaf_of t d = if is_single (innermost t) then Some ((d + arr_layers t)%nat, innermost t) else None.
Proof.
  induction t as [| | n | n | n ms | t IH | x c e IH | x fs IH] using ty_ind'; intros d;
    cbn [leaf_of innermost arr_layers is_single]; rewrite ?Nat.add_0_r; try reflexivity.
  - apply IH.
  - rewrite IH. replace (S d + arr_layers e)%nat with (d + S (arr_layers e))%nat by lia. reflexivity.
Qed.

Lemma msg_depth_of_spec t : forall d,
  msg_depth_of t d = if is_msgb (innermost t) then Some (d + arr_layers t)%nat else None.
Proof.
  induction t as [| | n | n | n ms | t IH | x c e IH | x fs IH] using ty_ind'; intros d;
    cbn [msg_depth_of innermost arr_layers is_msgb]; rewrite ?Nat.add_0_r; try reflexivity.
  - apply IH.
  - rewrite IH. replace (S d + arr_layers e)%nat with (d + S (arr_layers e))%nat by lia. reflexivity.
Qed.

(* ---------- lookups in the tables of go_cls_of ---------- *)

Lemma lookup_map_fields {B} (g : ty -> B) (fs : list (Z * ty)) k ft :
  keys_distinct (map fst fs) = true -> In (k, ft) fs ->
  lookup k (map (fun kf => (fst kf, g (snd kf))) fs) = Some (g ft).
Proof.
  intros Hd Hin.
  assert (E : map (fun kf : Z * ty => (fst kf, g (snd kf))) fs =
              filter_map (fun kf => Some (fst kf, g (snd kf))) fs).
  { clear. induction fs as [|h r IH]; [reflexivity|]. cbn [map filter_map]. now rewrite IH. }
  rewrite E, (lookup_filter_map _ fs k ft); [reflexivity| |assumption|assumption].
  intros kf b Hb. inversion Hb. reflexivity.
Qed.

Definition sign_entry (d : nat) (n : Z) : option gient :=
  let dd := GenGo.get_nbits_of_integer n - n in
  if dd <=? 0 then None else Some {| gi_depth := d; gi_d := dd |}.

Theorem tables_single x fs k ft :
  keys_distinct (map fst fs) = true -> In (k, ft) fs ->
  shape_ok ft = true -> is_single (innermost ft) = true ->
  let c := go_cls_of x fs in
  let s := innermost ft in
  let d := arr_layers ft in
  (exists e, lookup k (gc_set c) = Some e /\ gs_depth e = d /\
             under (gs_conv e) = under (go_type_of s) /\
             gs_kind e = (if is_boolb s then GSBool else GSOr)) /\
  (exists e, lookup k (gc_get c) = Some e /\ gg_depth e = d /\
             (if is_boolb s then exists cv, gg_kind e = GGBool cv else gg_kind e = GGInt)) /\
  lookup k (gc_int c) = (match s with TInt n => sign_entry d n | _ => None end) /\
  lookup k (gc_acc c) = None /\
  lookup k (gc_struct c) = Some (go_type_of ft).
Proof.
  intros Hd Hin Hs Hi c s d.
  destruct (gleaf_single ft Hs Hi 0%nat) as ((ct & El & Eu & Ect) & Em). cbn [Nat.add] in El.
  fold d in El. fold s in El, Eu, Ect.
  repeat split.
  - unfold c, go_cls_of. cbn [gc_set].
    rewrite (lookup_filter_map _ fs k ft); try assumption.
    2:{ intros kf b Hb. destruct (gleaf_of (snd kf) 0) as [[[? ?] ?]|]; inversion Hb; reflexivity. }
    cbn [fst snd]. rewrite El. cbn [option_map snd]. eexists. split; [reflexivity|].
    cbn [gs_depth gs_conv gs_kind]. repeat split; try assumption.
    destruct s; reflexivity.
  - unfold c, go_cls_of. cbn [gc_get].
    rewrite (lookup_filter_map _ fs k ft); try assumption.
    2:{ intros kf b Hb. destruct (gleaf_of (snd kf) 0) as [[[? ?] ?]|]; inversion Hb; reflexivity. }
    cbn [fst snd]. rewrite El. cbn [option_map snd]. eexists. split; [reflexivity|].
    cbn [gg_depth gg_kind]. split; [reflexivity|].
    destruct s; cbn [is_boolb]; try reflexivity. eexists; reflexivity.
  - unfold c, go_cls_of. cbn [gc_int].
    rewrite (lookup_filter_map _ fs k ft); try assumption.
    2:{ intros kf b Hb. destruct (gleaf_of (snd kf) 0) as [[[? ?] t0]|]; try discriminate.
        destruct t0; try discriminate.
        revert Hb. cbv zeta. destruct (_ <=? 0); intros Hb; inversion Hb; reflexivity. }
    cbn [fst snd]. rewrite El. destruct s; try reflexivity.
    unfold sign_entry. destruct (GenGo.get_nbits_of_integer n - n <=? 0); reflexivity.
  - unfold c, go_cls_of. cbn [gc_acc].
    rewrite (lookup_filter_map _ fs k ft); try assumption.
    2:{ intros kf b Hb. destruct (gmsg_depth_of (snd kf) 0); inversion Hb; reflexivity. }
    cbn [fst snd]. rewrite Em. reflexivity.
  - unfold c, go_cls_of. cbn [gc_struct]. apply lookup_map_fields; assumption.
Qed.

Theorem tables_msg x fs k ft :
  keys_distinct (map fst fs) = true -> In (k, ft) fs ->
  shape_ok ft = true -> is_msgb (innermost ft) = true ->
  let c := go_cls_of x fs in
  lookup k (gc_acc c) = Some (arr_layers ft) /\
  lookup k (gc_set c) = None /\ lookup k (gc_get c) = None /\ lookup k (gc_int c) = None /\
  lookup k (gc_struct c) = Some (go_type_of ft).
Proof.
  intros Hd Hin Hs Hi c.
  destruct (gleaf_msg ft Hs Hi 0%nat) as (El & Em). cbn [Nat.add] in Em.
  repeat split; unfold c, go_cls_of.
  - cbn [gc_acc]. rewrite (lookup_filter_map _ fs k ft); try assumption.
    2:{ intros kf b Hb. destruct (gmsg_depth_of (snd kf) 0); inversion Hb; reflexivity. }
    cbn [fst snd]. rewrite Em. reflexivity.
  - cbn [gc_set]. rewrite (lookup_filter_map _ fs k ft); try assumption.
    2:{ intros kf b Hb. destruct (gleaf_of (snd kf) 0) as [[[? ?] ?]|]; inversion Hb; reflexivity. }
    cbn [fst snd]. rewrite El. reflexivity.
  - cbn [gc_get]. rewrite (lookup_filter_map _ fs k ft); try assumption.
    2:{ intros kf b Hb. destruct (gleaf_of (snd kf) 0) as [[[? ?] ?]|]; inversion Hb; reflexivity. }
    cbn [fst snd]. rewrite El. reflexivity.
  - cbn [gc_int]. rewrite (lookup_filter_map _ fs k ft); try assumption.
    2:{ intros kf b Hb. destruct (gleaf_of (snd kf) 0) as [[[? ?] t0]|]; try discriminate.
        destruct t0; try discriminate.
        revert Hb. cbv zeta. destruct (_ <=? 0); intros Hb; inversion Hb; reflexivity. }
    cbn [fst snd]. rewrite El. reflexivity.
  - cbn [gc_struct]. apply lookup_map_fields; assumption.
Qed.

(* sign extension exactly for the signed widths that are not 8/16/32/64, by the distance to
   the storage width *)
Lemma cover_std n : 1 <= n <= 64 -> (smallest_cover n - n <=? 0) = is_std_width n.
Proof.
  intros H. unfold smallest_cover, is_std_width.
  destruct (n <=? 8) eqn:E8; [|destruct (n <=? 16) eqn:E16; [|destruct (n <=? 32) eqn:E32]];
    destruct (n =? 8) eqn:F8; destruct (n =? 16) eqn:F16; destruct (n =? 32) eqn:F32;
    destruct (n =? 64) eqn:F64; cbn [orb]; lia.
Qed.

Lemma sign_entry_spec d n :
  1 <= n <= 64 ->
  sign_entry d n = if is_std_width n then None
                   else Some {| gi_depth := d; gi_d := smallest_cover n - n |}.
Proof.
  intros H. unfold sign_entry. cbv zeta. rewrite get_nbits_of_integer_eq, cover_std by assumption.
  reflexivity.
Qed.

(* ---------- processor tree = Python's ---------- *)

Definition gskel_fields :=
  fix go (l : list (Z * gproc)) : list (Z * sk) :=
    match l with [] => [] | kf :: r => (fst kf, gskel (snd kf)) :: go r end.
Definition pskel_fields :=
  fix go (l : list (Z * proc)) : list (Z * sk) :=
    match l with [] => [] | kf :: r => (fst kf, pskel (snd kf)) :: go r end.
Definition go_proc_fields :=
  fix go (l : list (Z * ty)) : list (Z * gproc) :=
    match l with [] => [] | kf :: r => (fst kf, go_proc_of (snd kf)) :: go r end.
Definition proc_fields :=
  fix go (l : list (Z * ty)) : list (Z * proc) :=
    match l with [] => [] | kf :: r => (fst kf, proc_of (snd kf)) :: go r end.

Theorem tree_eq_py t : gskel (go_proc_of t) = pskel (proc_of t).
Proof.
  induction t as [| | n | n | n ms | t IH | x c e IH | x fs IH] using ty_ind'; try reflexivity.
  - cbn [go_proc_of proc_of gskel pskel]. now rewrite IH.
  - cbn [go_proc_of proc_of gskel pskel]. now rewrite IH.
  - change (gskel (go_proc_of (TMsg x fs)))
      with (KMsg x (nbits (TMsg x fs)) (gskel_fields (go_proc_fields fs))).
    change (pskel (proc_of (TMsg x fs)))
      with (KMsg x (nbits (TMsg x fs)) (pskel_fields (proc_fields fs))).
    f_equal. induction fs as [|kf r IHr]; [reflexivity|].
    inversion IH as [|? ? Hk Hr]; subst.
    cbn [go_proc_fields proc_fields gskel_fields pskel_fields fst snd]. rewrite Hk. f_equal. apply IHr, Hr.
Qed.

(* ---------- accessor tables address the same fields as Python's ---------- *)

Definition widths_ok (t : ty) : bool :=
  match innermost t with TInt n => (1 <=? n) && (n <=? 64) | _ => true end.

Definition fields_ok (fs : list (Z * ty)) : Prop :=
  forall k ft, In (k, ft) fs -> shape_ok ft = true /\ widths_ok ft = true.

Lemma agree_get x fs : fields_ok fs -> depths_get (cls_of fs) = gdepths_get (go_cls_of x fs).
  Proof.
    unfold depths_get, gdepths_get, cls_of, go_cls_of. cbn [c_get gc_get].
    induction fs as [|[k ft] r IH]; intros Hok; [reflexivity|].
    assert (Hr : fields_ok r) by (intros k' ft' H'; apply (Hok k' ft'); right; exact H').
    destruct (Hok k ft (or_introl eq_refl)) as [Hs _].
    cbn [filter_map fst snd]. rewrite leaf_of_spec. cbn [Nat.add].
    destruct (innermost_kind ft) as [Hi|Hi].
    - rewrite Hi. destruct (gleaf_single ft Hs Hi 0%nat) as ((ct & El & _ & _) & _).
      cbn [Nat.add] in El. rewrite El. cbn [map fst snd g_depth g_bool gg_depth gg_kind].
      f_equal; [|apply IH; exact Hr].
      destruct (innermost ft); reflexivity.
    - destruct (gleaf_msg ft Hs Hi 0%nat) as (El & _). rewrite El.
      replace (is_single (innermost ft)) with false by (destruct (innermost ft); try discriminate; reflexivity).
      apply IH; exact Hr.
  Qed.

Lemma agree_set x fs : fields_ok fs -> depths_set (cls_of fs) = gdepths_set (go_cls_of x fs).
  Proof.
    unfold depths_set, gdepths_set, cls_of, go_cls_of. cbn [c_set gc_set].
    induction fs as [|[k ft] r IH]; intros Hok; [reflexivity|].
    assert (Hr : fields_ok r) by (intros k' ft' H'; apply (Hok k' ft'); right; exact H').
    destruct (Hok k ft (or_introl eq_refl)) as [Hs _].
    cbn [filter_map fst snd]. rewrite leaf_of_spec. cbn [Nat.add].
    destruct (innermost_kind ft) as [Hi|Hi].
    - rewrite Hi. destruct (gleaf_single ft Hs Hi 0%nat) as ((ct & El & _ & _) & _).
      cbn [Nat.add] in El. rewrite El. cbn [map fst snd s_depth s_kind gs_depth gs_kind].
      f_equal; [|apply IH; exact Hr].
      destruct (innermost ft); try reflexivity. destruct (arr_layers ft); reflexivity.
    - destruct (gleaf_msg ft Hs Hi 0%nat) as (El & _). rewrite El.
      replace (is_single (innermost ft)) with false by (destruct (innermost ft); try discriminate; reflexivity).
      apply IH; exact Hr.
  Qed.

Lemma agree_acc x fs : fields_ok fs -> c_acc (cls_of fs) = gc_acc (go_cls_of x fs).
  Proof.
    unfold cls_of, go_cls_of. cbn [c_acc gc_acc].
    induction fs as [|[k ft] r IH]; intros Hok; [reflexivity|].
    assert (Hr : fields_ok r) by (intros k' ft' H'; apply (Hok k' ft'); right; exact H').
    destruct (Hok k ft (or_introl eq_refl)) as [Hs _].
    cbn [filter_map fst snd]. rewrite msg_depth_of_spec. cbn [Nat.add].
    destruct (innermost_kind ft) as [Hi|Hi].
    - destruct (gleaf_single ft Hs Hi 0%nat) as (_ & Em). rewrite Em.
      replace (is_msgb (innermost ft)) with false by (destruct (innermost ft); try discriminate; reflexivity).
      apply IH; exact Hr.
    - rewrite Hi. destruct (gleaf_msg ft Hs Hi 0%nat) as (_ & Em). cbn [Nat.add] in Em. rewrite Em.
      f_equal. apply IH; exact Hr.
  Qed.

  (* sign handling: the same fields, the same depth, and Python's tested bit n-1 and Go's
     shift distance d = W - n describe the same width n *)
Lemma agree_int x fs : keys_distinct (map fst fs) = true -> fields_ok fs -> depths_int (cls_of fs) = gdepths_int (go_cls_of x fs).
  Proof.
    intros Hd Hok. set (g := go_cls_of x fs). unfold depths_int, gdepths_int.
    assert (G : forall l, incl l fs ->
      map (fun e => (fst e, i_depth (snd e), i_shift (snd e) + 1))
          (filter_map (fun kf =>
             match leaf_of (snd kf) 0 with
             | Some (d, TInt n) =>
                 if is_std_width n then None
                 else Some (fst kf, {| i_depth := d; i_shift := n - 1; i_mask := Z.lnot (Z.shiftl 1 n - 1) |})
             | _ => None end) l) =
      map (fun e => (fst e, gi_depth (snd e),
                     match lookup (fst e) (gc_set g) with
                     | Some s => match under (gs_conv s) with GInt w => w - gi_d (snd e) | _ => -1 end
                     | None => -1
                     end))
          (filter_map (fun kf =>
             match gleaf_of (snd kf) 0 with
             | Some (d, _, TInt n) =>
                 let dd := GenGo.get_nbits_of_integer n - n in
                 if dd <=? 0 then None else Some (fst kf, {| gi_depth := d; gi_d := dd |})
             | _ => None end) l)).
    { induction l as [|[k ft] r IH]; intros Hin; [reflexivity|].
      assert (Hk : In (k, ft) fs) by (apply Hin; left; reflexivity).
      assert (Hr : incl r fs) by (intros a Ha; apply Hin; right; assumption).
      destruct (Hok k ft Hk) as [Hs Hw].
      cbn [filter_map fst snd]. rewrite leaf_of_spec. cbn [Nat.add].
      destruct (innermost_kind ft) as [Hi|Hi].
      - rewrite Hi.
        destruct (tables_single x fs k ft Hd Hk Hs Hi) as ((e & Ee & _ & Eu & _) & _).
        destruct (gleaf_single ft Hs Hi 0%nat) as ((ct & El & _ & _) & _).
        cbn [Nat.add] in El. rewrite El.
        destruct (innermost ft) as [| | n | n | n ms | t' | x' c' e' | x' fs'] eqn:Ei; try (apply IH; exact Hr).
        unfold widths_ok in Hw. rewrite Ei in Hw.
        assert (Hn : 1 <= n <= 64) by lia.
        cbv zeta. rewrite get_nbits_of_integer_eq, cover_std by assumption.
        destruct (is_std_width n); [apply IH; exact Hr|].
        cbn [map fst snd i_depth i_shift gi_depth gi_d]. f_equal; [|apply IH; exact Hr].
        fold g in Ee. rewrite Ee, Eu. cbn [go_type_of under].
        rewrite get_nbits_of_integer_eq by assumption. f_equal. lia.
      - destruct (gleaf_msg ft Hs Hi 0%nat) as (El & _). rewrite El.
        replace (is_single (innermost ft)) with false by (destruct (innermost ft); try discriminate; reflexivity).
        apply IH; exact Hr. }
    apply (G fs). intros a Ha; exact Ha.
  Qed.
