(* MemoCase — evaluation of one observed history of the REAL decorators (tools/run_memo.py)
   against the model: used by the generated case files of tools/props/c18.py.

   memo_case h io alive = sum of
      1   the implementation machine's outputs differ from the observed ones        (tie)
      4   hit / miss / direct / reclaimed differ from what was observed             (tie)
      8   the objects alive at the end differ, or the model holds an unreachable one (tie)
     16   the allocator returned an address the model considers live                 (tie)
      2   PROPERTY: a disciplined history whose observed outputs differ from the uncached
          reference semantics (the reference machine knows no addresses: this does not depend on
          the model's view of the allocator)
     32   (information) observed outputs differ from the reference semantics at all *)
From Coq Require Import ZArith List Bool Arith.
From BPGen Require Import GenMemo.
From BP Require Import Memo.
Import ListNotations.
Open Scope Z_scope.

Definition D_case : nat := 64.

(* model vs observed: an observation AExec matches a miss or a direct call *)
Definition aux_match (m o : aux) : bool :=
  match o with
  | AExec => match m with AMiss | ADirect => true | _ => false end
  | _ => aux_eqb m o
  end.
Fixpoint auxs_eqb (l l' : list aux) : bool :=
  match l, l' with
  | [], [] => true
  | x :: t, y :: t' => aux_match x y && auxs_eqb t t'
  | _, _ => false
  end.

Definition zmem (a : Z) (l : list Z) : bool := existsb (Z.eqb a) l.
Definition same_set (l l' : list Z) : bool :=
  forallb (fun a => zmem a l') l && forallb (fun a => zmem a l) l'.

Definition memo_case (h : list op) (io : list (out * aux)) (alive : list Z) : Z :=
  let cr := crun F_test always_test real_cond real_pin D_case c0 h in
  let fin := cfinal F_test always_test real_cond real_pin D_case c0 h in
  let envok := env_ok F_test always_test real_cond real_pin D_case c0 h in
  let ref := rrun F_test D_case r0 h in
  let disc := disciplined F_test D_case r0 h in
  let same_ref := outs_eqb (map fst io) ref in
  (if outs_eqb (map fst cr) (map fst io) then 0 else 1) +
  (if auxs_eqb (map snd cr) (map snd io) then 0 else 4) +
  (if same_set (live_addrs fin) alive && match leftovers fin with [] => true | _ => false end then 0 else 8) +
  (if envok then 0 else 16) +
  (if negb disc || same_ref then 0 else 2) +
  (if same_ref then 0 else 32).

(* truth-table rows observed on the real functions *)
Definition cond_row (e a t n f observed : bool) : Z :=
  if Bool.eqb (cache_if_frozen_condition e a t n f) observed then 0 else 1.
Definition decision_row (which : Z) (fr observed : bool) : Z :=
  let m := match which with
           | 0 => frozen_setattr_raises fr
           | 1 => frozen_delattr_raises fr
           | 2 => frozen_freeze_raises fr
           | _ => push_member_raises fr
           end in
  if Bool.eqb m observed then 0 else 1.
