(* PyEncShapeTop.v (derived from PyEncTop.v by s/has_ty/shape_ty/)
   PyEncTop.v — top-level statements for C01: the model of Msg.encode() returns exactly
   Spec.wire, plus the layout facts the property text lists. *)
From Coq Require Import ZArith List Bool Lia ZifyBool.
From BP Require Import Bits Schema Spec PyRt ByteStep PyEncStep PyEncShape.
From BPGen Require Import GenPy.
Import ListNotations.
Open Scope Z_scope.

(* ---------- norm preserves sizes ---------- *)

Lemma fields_nbits_insert kf l :
  fields_nbits (insert_field kf l) = nbits (snd kf) + fields_nbits l.
Proof.
  induction l as [|h r IH]; [reflexivity|].
  cbn [insert_field]. unfold fields_nbits in *. destruct (fst kf <? fst h); cbn [fold_right] in *; lia.
Qed.

Lemma fields_nbits_sort l : fields_nbits (sort_fields l) = fields_nbits l.
Proof.
  induction l as [|h r IH]; [reflexivity|].
  cbn [sort_fields]. rewrite fields_nbits_insert. unfold fields_nbits in *. cbn [fold_right]. lia.
Qed.

Definition norm_fields :=
  fix go (l : list (Z * ty)) : list (Z * ty) :=
    match l with
    | [] => []
    | kf :: r => (fst kf, norm (snd kf)) :: go r
    end.

Lemma norm_msg x fs : norm (TMsg x fs) = TMsg x (sort_fields (norm_fields fs)).
Proof. reflexivity. Qed.

Lemma nbits_norm t : nbits (norm t) = nbits t.
Proof.
  induction t as [| | n | n | n ms | t IH | x c e IH | x fs IH] using ty_ind'; try reflexivity.
  - cbn [norm nbits]. exact IH.
  - cbn [norm nbits]. now rewrite IH.
  - rewrite norm_msg, !nbits_msg, fields_nbits_sort. f_equal.
    induction fs as [|kf r IHr]; [reflexivity|].
    inversion IH as [|? ? Hk Hr]; subst.
    cbn [norm_fields fields_nbits fold_right snd]. rewrite Hk. f_equal. apply IHr, Hr.
Qed.

Lemma nbytes_norm t : nbytes (norm t) = nbytes t.
Proof. unfold nbytes. now rewrite nbits_norm. Qed.

(* ---------- Msg.encode() = wire ---------- *)

Definition is_msg (t : ty) : bool := match t with TMsg _ _ => true | _ => false end.

Theorem py_encode_is_wire t v :
  is_msg t = true -> wf (norm t) = true -> shape_ty (norm t) v = true ->
  py_encode t v = Ok (wire t v).
Proof.
  intros Hm Hw Ht. unfold py_encode, py_encode_proc, wire.
  set (T := norm t) in *.
  assert (HT : is_msg T = true) by (subst T; destruct t; try discriminate; reflexivity).
  pose proof (nbits_nonneg T Hw) as Hnn.
  assert (Hnb : nbytes t = (nbits T + 7) / 8) by (subst T; rewrite nbits_norm; reflexivity).
  set (x0 := {| cs := zeros (Z.to_nat (nbytes t)); ci := 0 |}).
  assert (Hpre : enc_pre x0 (nbits T)).
  { unfold enc_pre, x0. cbn [cs ci]. rewrite zeros_length, bufZ_zeros.
    split; [apply zeros_bytes_ok|]. change (2 ^ 0) with 1.
    rewrite Z2Nat.id by (rewrite Hnb; apply Z.div_pos; lia). rewrite Hnb.
    repeat split; try lia. }
  assert (Hreach : reach T nil_cls v (-1) [] v).
  { destruct T; try discriminate. reflexivity. }
  destruct (enc_ok_all T nil_cls v (-1) [] v x0 Hw Ht Hreach Hpre) as (s' & E & L & O & B).
  rewrite E. cbn [bind cs]. f_equal.
  apply bufZ_inj; try assumption.
  - apply pack_bytes_ok.
  - unfold x0 in L. cbn [cs] in L. rewrite zeros_length in L.
    apply Nat2Z.inj. rewrite pack_length, (enc_bits_length T v Hw Ht), L.
    rewrite Z2Nat.id by (rewrite Hnb; apply Z.div_pos; lia). exact Hnb.
  - rewrite B, bufZ_pack. unfold x0. cbn [cs ci]. rewrite bufZ_zeros. change (2 ^ 0) with 1. lia.
Qed.

(* ---------- layout facts about wire ---------- *)

Theorem wire_length t v :
  wf (norm t) = true -> shape_ty (norm t) v = true ->
  Z.of_nat (length (wire t v)) = (nbits t + 7) / 8.
Proof.
  intros Hw Ht. unfold wire. rewrite pack_length, (enc_bits_length _ v Hw Ht), nbits_norm.
  reflexivity.
Qed.

(* stream bit k is stored in byte k/8 at bit position k mod 8; everything past the last
   stream bit is zero *)
Theorem pack_bit l k :
  0 <= k ->
  Z.testbit (nth (Z.to_nat (k / 8)) (pack l) 0) (k mod 8) = nth (Z.to_nat k) l false.
Proof.
  intros Hk.
  pose proof (Z.mod_pos_bound k 8 ltac:(lia)) as Hm.
  pose proof (Z.div_mod k 8 ltac:(lia)) as Hdm.
  assert (Hq : 0 <= k / 8) by (apply Z.div_pos; lia).
  rewrite bufZ_nth by apply pack_bytes_ok.
  rewrite bufZ_pack, Z2Nat.id, pow256 by assumption.
  change 256 with (2 ^ 8). rewrite Z.mod_pow2_bits_low by lia.
  rewrite <- Z.shiftr_div_pow2, Z.shiftr_spec by lia.
  replace (k mod 8 + 8 * (k / 8)) with (Z.of_nat (Z.to_nat k)) by lia.
  apply Z_of_bits_testbit.
Qed.

Theorem wire_bit t v k :
  0 <= k ->
  Z.testbit (nth (Z.to_nat (k / 8)) (wire t v) 0) (k mod 8) =
  nth (Z.to_nat k) (enc_bits (norm t) v) false.
Proof. intros. unfold wire. now apply pack_bit. Qed.

Theorem wire_padding_zero t v k :
  wf (norm t) = true -> shape_ty (norm t) v = true -> nbits t <= k ->
  Z.testbit (nth (Z.to_nat (k / 8)) (wire t v) 0) (k mod 8) = false.
Proof.
  intros Hw Ht Hk. pose proof (nbits_nonneg _ Hw). rewrite nbits_norm in *.
  rewrite wire_bit by lia. apply nth_overflow.
  pose proof (enc_bits_length _ v Hw Ht). rewrite nbits_norm in *. lia.
Qed.

(* N = sum of declared widths + 16 per extensible node (this is just [nbits], stated
   against [enc_bits]) *)
Theorem enc_bits_nbits t v :
  wf (norm t) = true -> shape_ty (norm t) v = true ->
  Z.of_nat (length (enc_bits (norm t) v)) = nbits t.
Proof. intros Hw Ht. rewrite (enc_bits_length _ v Hw Ht). apply nbits_norm. Qed.

(* fields are laid out in ascending field-number order, no gap: sort_fields is sorted *)
Fixpoint sorted_keys {A} (l : list (Z * A)) : Prop :=
  match l with
  | [] => True
  | h :: r => (forall x, In x r -> fst h <= fst x) /\ sorted_keys r
  end.

Lemma insert_field_in {A} (kf : Z * A) l x : In x (insert_field kf l) -> x = kf \/ In x l.
Proof.
  induction l as [|h r IH]; cbn [insert_field]; intros H.
  - destruct H as [<-|[]]. now left.
  - destruct (fst kf <? fst h).
    + destruct H as [<-|H]; [now left|now right].
    + destruct H as [<-|H]; [right; now left|]. destruct (IH H); [now left|right; now right].
Qed.

Lemma insert_field_sorted {A} (kf : Z * A) l : sorted_keys l -> sorted_keys (insert_field kf l).
Proof.
  induction l as [|h r IH]; cbn [insert_field sorted_keys]; intros H.
  - split; [intros ? []|exact I].
  - destruct H as [Hh Hr]. destruct (fst kf <? fst h) eqn:E.
    + cbn [sorted_keys]. repeat split; try assumption.
      intros x [<-|Hx]; [lia|]. specialize (Hh x Hx). lia.
    + cbn [sorted_keys]. split; [|apply IH, Hr].
      intros x Hx. destruct (insert_field_in _ _ _ Hx) as [->|Hx']; [lia|now apply Hh].
Qed.

Theorem sort_fields_sorted {A} (l : list (Z * A)) : sorted_keys (sort_fields l).
Proof. induction l as [|h r IH]; [exact I|]. cbn [sort_fields]. now apply insert_field_sorted. Qed.

Theorem norm_msg_sorted x fs fs' : norm (TMsg x fs) = TMsg x fs' -> sorted_keys fs'.
Proof. rewrite norm_msg. intros E. inversion E. apply sort_fields_sorted. Qed.
