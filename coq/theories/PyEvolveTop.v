(* PyEvolveTop.v — top-level statements for C05 (Python runtime). *)
From Coq Require Import ZArith List Bool Lia ZifyBool.
From BP Require Import Bits Schema Spec PyRt Eqb ByteStep PyEncStep PyEncProofs PyEncTop
                       PyDecStep PyDecLeaf PyDecProofs PyDecTop Evolve PyEvolve.
From BPGen Require Import GenPy.
Import ListNotations.
Open Scope Z_scope.

(* an evolved schema is never smaller *)
Lemma evolves_fields_nbits_le x fs : 
  Forall (fun kf => forall t2, evolvesb (snd kf) t2 = true -> wf t2 = true -> nbits (snd kf) <= nbits t2) fs ->
  forall gs, evolves_fields x fs gs = true -> fields_wf gs = true -> fields_nbits fs <= fields_nbits gs.
Proof.
  induction 1 as [|a r Ha Hr IH]; intros [|b s] He Hw; cbn [evolves_fields] in He; try discriminate;
    try (unfold fields_nbits; cbn [fold_right]; lia).
  - pose proof (fields_nbits_nonneg _ Hw). unfold fields_nbits in *. cbn [fold_right] in *. lia.
  - rewrite !andb_true_iff in He. destruct He as [[_ Hab] Hrs].
    cbn [fields_wf] in Hw. rewrite !andb_true_iff in Hw. destruct Hw as [[[_ _] Hwb] Hws].
    specialize (IH s Hrs Hws). specialize (Ha (snd b) Hab Hwb).
    unfold fields_nbits in *. cbn [fold_right]. lia.
Qed.

Lemma evolvesb_nbits_le t1 : forall t2,
  evolvesb t1 t2 = true -> wf t2 = true -> nbits t1 <= nbits t2.
Proof.
  induction t1 as [| | n | n | n ms | t IH | x c e IH | x fs IH] using ty_ind'; intros t2 He Hw;
    try (match type of He with evolvesb ?a _ = true => rewrite (evolvesb_leaf a t2 eq_refl He) end; lia).
  - destruct t2; try discriminate. cbn [evolvesb nbits wf] in *. now apply IH.
  - destruct t2 as [| | | | |?|y d f|]; try discriminate.
    cbn [evolvesb] in He. rewrite !andb_true_iff in He. destruct He as [[Exy Hee] Hcap].
    apply eqb_prop in Exy. subst y.
    cbn [wf] in Hw. rewrite !andb_true_iff in Hw. destruct Hw as [[_ _] Hwf].
    specialize (IH f Hee Hwf). pose proof (nbits_nonneg f Hwf).
    cbn [nbits]. assert (c <= d)%nat by (destruct x; [apply Nat.leb_le in Hcap|apply Nat.eqb_eq in Hcap]; lia).
    (* nbits e may be negative only for ill-formed e; bound through f *)
    destruct (Z.le_gt_cases 0 (nbits e)); nia.
  - destruct t2 as [| | | | |?|? ? ?|y gs]; try discriminate.
    rewrite evolvesb_msg in He. rewrite andb_true_iff in He. destruct He as [Exy Hef].
    apply eqb_prop in Exy. subst y.
    rewrite wf_msg in Hw. rewrite !andb_true_iff in Hw. destruct Hw as [[_ _] Hfw].
    rewrite !nbits_msg. pose proof (evolves_fields_nbits_le x fs IH gs Hef Hfw). lia.
Qed.

(* S1-generated decoder on an S2-encoded buffer *)
Theorem py_forward_compat t1 t2 v2 :
  PyEncTop.is_msg t1 = true ->
  evolvesb (norm t1) (norm t2) = true ->
  wf (norm t1) = true -> wf (norm t2) = true -> dec_guard (norm t1) = true ->
  has_ty (norm t2) v2 = true ->
  py_decode t1 (wire t2 v2) = Ok (proj (norm t1) v2).
Proof.
  intros Hm He Hw1 Hw2 Hg Ht. unfold py_decode, py_decode_proc.
  set (T1 := norm t1) in *. set (T2 := norm t2) in *.
  assert (HT : exists x fs, T1 = TMsg x fs).
  { subst T1. destruct t1; try discriminate. cbn [norm]. eauto. }
  destruct HT as (x & fs & ET).
  pose proof (nbits_nonneg T1 Hw1) as Hnn1. pose proof (nbits_nonneg T2 Hw2) as Hnn2.
  pose proof (evolvesb_nbits_le T1 T2 He Hw2) as Hle.
  pose proof (wire_length t2 v2 Hw2 Ht) as Hlen. fold T2 in Hlen.
  assert (Hnb1 : nbits T1 = nbits t1) by apply nbits_norm.
  assert (Hnb2 : nbits T2 = nbits t2) by apply nbits_norm.
  replace (Z.of_nat (length (wire t2 v2)) <? nbytes t1) with false.
  2:{ symmetry. apply Z.ltb_ge. rewrite Hlen. unfold nbytes. apply Z.div_le_mono; lia. }
  assert (Hlen8 : nbits T2 <= 8 * Z.of_nat (length (wire t2 v2))).
  { rewrite Hlen, Hnb2. pose proof (Z.div_mod (nbits t2 + 7) 8 ltac:(lia)).
    pose proof (Z.mod_pos_bound (nbits t2 + 7) 8 ltac:(lia)). lia. }
  assert (Hslice : slice (wire t2 v2) 0 (nbits T2) = Z_of_bits (enc_bits T2 v2)).
  { unfold slice, wire. fold T2. rewrite bufZ_pack. change (2 ^ 0) with 1. rewrite Z.div_1_r.
    apply Z.mod_small. pose proof (Z_of_bits_range (enc_bits T2 v2)) as Hr.
    rewrite (enc_bits_length T2 v2 Hw2 Ht) in Hr. exact Hr. }
  pose proof (ev_ok_all T1 T2 (cls_of [(1, T1)]) [(1, py_default T1)] 1 [] (py_default T1) v2
                        (wire t2 v2) 0 He Hw1 Hw2 Hg Ht) as H.
  rewrite ET in *.
  rewrite (top_from_nested x fs (proj (TMsg x fs) v2) (wire t2 v2)
             {| cs := wire t2 v2; ci := 0 + nbits T2 |}).
  - reflexivity.
  - apply H; try lia; try reflexivity; try apply pack_bytes_ok; try exact Hslice.
    apply (dreach_field [(1, TMsg x fs)] 1 (TMsg x fs)); [reflexivity|now left].
Qed.

(* chains of versions collapse: evolution is reflexive and transitive *)
Lemma zlist_eqb_refl l : zlist_eqb l l = true.
Proof. induction l as [|a r IH]; [reflexivity|]. cbn. now rewrite Z.eqb_refl, IH. Qed.

Lemma evolves_fields_refl x fs :
  Forall (fun kf => evolvesb (snd kf) (snd kf) = true) fs -> evolves_fields x fs fs = true.
Proof.
  induction 1 as [|a r Ha Hr IH]; [reflexivity|]. cbn [evolves_fields].
  now rewrite Z.eqb_refl, Ha, IH.
Qed.

Theorem evolvesb_refl t : evolvesb t t = true.
Proof.
  induction t as [| | n | n | n ms | t IH | x c e IH | x fs IH] using ty_ind'; cbn [evolvesb];
    try reflexivity; try apply Z.eqb_refl.
  - now rewrite Z.eqb_refl, zlist_eqb_refl.
  - exact IH.
  - rewrite eqb_reflx, IH. destruct x; [apply Nat.leb_refl|apply Nat.eqb_refl].
  - fold (evolves_fields x fs fs). rewrite eqb_reflx. now apply evolves_fields_refl.
Qed.

Lemma evolves_fields_trans x fs :
  Forall (fun kf => forall b c, evolvesb (snd kf) b = true -> evolvesb b c = true ->
                                evolvesb (snd kf) c = true) fs ->
  forall gs hs, evolves_fields x fs gs = true -> evolves_fields x gs hs = true ->
                evolves_fields x fs hs = true.
Proof.
  induction 1 as [|a r Ha Hr IH]; intros gs hs H1 H2.
  - destruct gs as [|g gs'], hs as [|h hs']; cbn [evolves_fields] in *; try reflexivity; try discriminate;
      assumption.
  - destruct gs as [|g gs']; [discriminate|]. destruct hs as [|h hs']; [cbn in H2; discriminate|].
    cbn [evolves_fields] in *. rewrite !andb_true_iff in *.
    destruct H1 as [[E1 A1] R1]. destruct H2 as [[E2 A2] R2].
    repeat split; [lia|eapply Ha; eassumption|eapply IH; eassumption].
Qed.

Theorem evolvesb_trans a : forall b c,
  evolvesb a b = true -> evolvesb b c = true -> evolvesb a c = true.
Proof.
  induction a as [| | n | n | n ms | t IH | x c0 e IH | x fs IH] using ty_ind'; intros b c H1 H2;
    try (match type of H1 with evolvesb ?a0 _ = true => rewrite (evolvesb_leaf a0 b eq_refl H1) in H2 end; exact H2).
  - destruct b; try discriminate. destruct c; try discriminate. cbn [evolvesb] in *. eapply IH; eassumption.
  - destruct b as [| | | | |?|y d f|]; try discriminate.
    destruct c as [| | | | |?|z d' f'|]; try discriminate.
    cbn [evolvesb] in *. rewrite !andb_true_iff in *.
    destruct H1 as [[E1 A1] C1]. destruct H2 as [[E2 A2] C2].
    apply eqb_prop in E1. apply eqb_prop in E2. subst y z.
    repeat split; [apply eqb_reflx|eapply IH; eassumption|].
    destruct x; [apply Nat.leb_le in C1; apply Nat.leb_le in C2; apply Nat.leb_le; lia|
                 apply Nat.eqb_eq in C1; apply Nat.eqb_eq in C2; apply Nat.eqb_eq; lia].
  - destruct b as [| | | | |?|? ? ?|y gs]; try discriminate.
    destruct c as [| | | | |?|? ? ?|z hs]; try discriminate.
    rewrite evolvesb_msg in *. rewrite !andb_true_iff in *.
    destruct H1 as [E1 F1]. destruct H2 as [E2 F2].
    apply eqb_prop in E1. apply eqb_prop in E2. subst y z.
    split; [apply eqb_reflx|]. eapply evolves_fields_trans; eassumption.
Qed.
