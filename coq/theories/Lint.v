(* Lint.v — model of compiler/bitproto/linter.py (rules, dispatch order), of the naming
   helpers pascal_case / snake_case of utils.py on ASCII strings, and of the position
   arithmetic of parser.py (_get_col, current_indent) and lexer.py (lineno).

   GENERATED (gen/GenCli.v): lint_supported_types, lint_rules (rule order, target class,
   recognised test, warning class), indent_expect / indent_warns, get_col, current_indent,
   last_newline_pos_init, lexer_rules (regex + "can match a newline"), lexer_lineno_writers,
   the regex constants re_* of snake_case.
   HAND-WRITTEN: the bodies of pascal_case / snake_case (pinned by digest, tied by T2 on an
   exhaustive set of short names), Python's str methods on ASCII, re.sub for the four
   substitution patterns, str.rfind. *)
From Coq Require Import ZArith List String Ascii Bool.
From BP Require Import CliBase.
From BPGen Require Import GenCli.
Import ListNotations.
Open Scope string_scope.

(* ---- characters -------------------------------------------------------------------- *)
Definition code (c : ascii) : nat := nat_of_ascii c.
Definition is_upper (c : ascii) : bool := Nat.leb 65 (code c) && Nat.leb (code c) 90.
Definition is_lower (c : ascii) : bool := Nat.leb 97 (code c) && Nat.leb (code c) 122.
Definition is_digit (c : ascii) : bool := Nat.leb 48 (code c) && Nat.leb (code c) 57.
Definition is_alpha (c : ascii) : bool := is_upper c || is_lower c.
Definition is_us (c : ascii) : bool := Ascii.eqb c "_"%char.
Definition is_nl (c : ascii) : bool := Ascii.eqb c "010"%char.
Definition to_upper (c : ascii) : ascii := if is_lower c then ascii_of_nat (code c - 32) else c.
Definition to_lower (c : ascii) : ascii := if is_upper c then ascii_of_nat (code c + 32) else c.

(* ---- strings ----------------------------------------------------------------------- *)
Fixpoint smap (f : ascii -> ascii) (s : string) : string :=
  match s with EmptyString => EmptyString | String c r => String (f c) (smap f r) end.
Fixpoint sall (p : ascii -> bool) (s : string) : bool :=
  match s with EmptyString => true | String c r => p c && sall p r end.
Fixpoint sany (p : ascii -> bool) (s : string) : bool :=
  match s with EmptyString => false | String c r => p c || sany p r end.
Definition nonempty (s : string) : bool := match s with EmptyString => false | _ => true end.

(* str.isupper / upper / lower on ASCII: cased characters are the letters *)
Definition py_isupper (s : string) : bool := sany is_upper s && negb (sany is_lower s).
Definition py_upper (s : string) : string := smap to_upper s.
Definition py_lower (s : string) : string := smap to_lower s.

(* s.split("_") : always at least one part *)
Fixpoint split_us (s : string) : list string :=
  match s with
  | EmptyString => [EmptyString]
  | String c r => if is_us c then EmptyString :: split_us r
                  else match split_us r with
                       | p :: ps => String c p :: ps
                       | [] => [String c EmptyString]
                       end
  end.
Fixpoint sconcat (l : list string) : string :=
  match l with [] => EmptyString | p :: r => p ++ sconcat r end.
Fixpoint join_us (l : list string) : string :=
  match l with
  | [] => EmptyString
  | [p] => p
  | p :: r => p ++ String "_"%char (join_us r)
  end.

(* ---- pascal_case (utils.py) --------------------------------------------------------- *)
Definition pascal_part (part : string) : string :=
  match part with
  | EmptyString => EmptyString
  | String c rest => if nonempty rest && py_isupper rest
                     then String (to_upper c) (py_lower rest)
                     else String (to_upper c) rest
  end.
Definition pascal_case (w : string) : string :=
  sconcat (map pascal_part (filter nonempty (split_us w))).

(* ---- snake_case (utils.py) ---------------------------------------------------------- *)
(* re.sub(r"(.)([A-Z][a-z]+)", r"\1_\2"): leftmost non-overlapping matches; `inrun` = we are
   inside the greedy [a-z]+ of the previous match *)
Fixpoint sub_b1 (inrun : bool) (s : string) : string :=
  match s with
  | EmptyString => EmptyString
  | String x r =>
      if inrun && is_lower x then String x (sub_b1 true r)
      else match r with
           | String u (String l r') =>
               if negb (is_nl x) && is_upper u && is_lower l
               then String x (String "_"%char (String u (String l (sub_b1 true r'))))
               else String x (sub_b1 false r)
           | _ => String x (sub_b1 false r)
           end
  end.
(* re.sub(r"([p1])([p2])", r"\1_\2") for two single-character classes *)
Fixpoint sub2 (p1 p2 : ascii -> bool) (s : string) : string :=
  match s with
  | EmptyString => EmptyString
  | String x r =>
      match r with
      | String y r' => if p1 x && p2 y then String x (String "_"%char (String y (sub2 p1 p2 r')))
                       else String x (sub2 p1 p2 r)
      | EmptyString => String x EmptyString
      end
  end.
Definition lower_or_digit (c : ascii) : bool := is_lower c || is_digit c.
Definition upper_or_digit (c : ascii) : bool := is_upper c || is_digit c.

Fixpoint take_us (s : string) : string :=
  match s with String c r => if is_us c then String c (take_us r) else EmptyString | EmptyString => EmptyString end.
Fixpoint drop_us (s : string) : string :=
  match s with String c r => if is_us c then drop_us r else s | EmptyString => EmptyString end.
Fixpoint strip_trailing_us (s : string) : string :=
  match s with
  | EmptyString => EmptyString
  | String c r => match strip_trailing_us r with
                  | EmptyString => if is_us c then EmptyString else String c EmptyString
                  | r' => String c r'
                  end
  end.
Fixpoint us_run (n : nat) : string :=
  match n with O => EmptyString | S k => String "_"%char (us_run k) end.
Definition strip_us (s : string) : string := strip_trailing_us (drop_us s).
(* re.sub(r"__+", "_") *)
Fixpoint collapse_us (prev_us : bool) (s : string) : string :=
  match s with
  | EmptyString => EmptyString
  | String c r => if is_us c then (if prev_us then collapse_us true r else String c (collapse_us true r))
                  else String c (collapse_us false r)
  end.

Definition snake_part (respect : bool) (t : string) : string :=
  let t1 := sub_b1 false t in
  let t2 := sub2 lower_or_digit is_upper t1 in
  if negb respect && negb (nonempty t2 && sall upper_or_digit t2)
  then sub2 is_digit is_alpha (sub2 is_alpha is_digit t2)
  else t2.

Definition snake_case (word : string) : string :=
  match word with
  | EmptyString => EmptyString
  | _ =>
    let s := smap (fun c => if Ascii.eqb c "-"%char then "_"%char else c) word in
    let pre := take_us s in
    let rest := drop_us s in
    let core := strip_trailing_us rest in
    let suf := us_run (String.length rest - String.length core) in
    let respect := sany is_us word && (sany is_upper word && sany is_lower word) in
    let parts := map (snake_part respect) (filter nonempty (split_us core)) in
    let cs := py_lower (strip_us (collapse_us false (join_us parts))) in
    pre ++ cs ++ suf
  end.

(* ---- the rules ---------------------------------------------------------------------- *)
Open Scope Z_scope.

Record ldef := mkL {
  l_kind : defkind;
  l_name : string;          (* name under which it is declared in its scope *)
  l_line : Z;               (* definition.lineno *)
  l_indent : Z;             (* definition.indent *)
  l_depth : Z;              (* len(definition.scope_stack) *)
  l_values : list Z }.      (* enum: the values of its fields *)

Definition test_fires (t : lint_test) (d : ldef) : bool :=
  match t with
  | TIndent => indent_warns (l_indent d) (l_depth d)
  | TPascalNe => negb (String.eqb (l_name d) (pascal_case (l_name d)))
  | TSnakeNe => negb (String.eqb (snake_case (l_name d)) (l_name d))
  | TNotUpper => negb (py_isupper (l_name d))
  | TNoZeroField => negb (existsb (Z.eqb 0) (l_values d))
  end.

(* isinstance(definition, <class named ty>) for the classes of SUPPORTED_TYPES *)
Definition class_of_kind (k : defkind) : string :=
  match k with
  | KAlias => "Alias" | KConstant => "Constant" | KEnum => "Enum" | KEnumField => "EnumField"
  | KMessage => "Message" | KMessageField => "MessageField" | KOption => "Option" | KProto => "Proto"
  end.
Definition kind_matches (ty : string) (k : defkind) : bool :=
  if String.eqb ty "Definition" then true
  else if String.eqb ty "BoundDefinition" then negb (defkind_eqb k KProto)
  else String.eqb ty (class_of_kind k).

Definition warning := (string * Z)%type.     (* warning class, cited line *)

Definition rule_row := (string * string * lint_test * string)%type.
Definition r_target (r : rule_row) : string := snd (fst (fst r)).
Definition r_test (r : rule_row) : lint_test := snd (fst r).
Definition r_warning (r : rule_row) : string := snd r.

(* Linter.lint: for each supported type, for each item of that type (in filter order), for
   each rule whose target_class IS that type *)
Definition lint1 (ty : string) (d : ldef) : list warning :=
  flat_map (fun r => if String.eqb (r_target r) ty && test_fires (r_test r) d
                     then [(r_warning r, l_line d)] else []) lint_rules.
Definition lint (defs : list ldef) : list warning :=
  flat_map (fun ty => flat_map (lint1 ty) (filter (fun d => kind_matches ty (l_kind d)) defs))
           lint_supported_types.

(* ---- positions ---------------------------------------------------------------------- *)
(* text.rfind("\n", 0, pos) *)
Fixpoint rfind_from (s : string) (i : Z) (pos : nat) (acc : Z) : Z :=
  match pos, s with
  | S p, String c r => rfind_from r (i + 1) p (if is_nl c then i else acc)
  | _, _ => acc
  end.
Definition rfind_nl (text : string) (pos : nat) : Z := rfind_from text 0 pos (-1).

(* Parser._get_col(p, k) for a token at offset pos of the file text *)
Definition col_of (text : string) (pos : nat) : Z := get_col (Z.of_nat pos) (rfind_nl text pos).

(* Parser.last_newline_pos when the token at pos is reduced: the offset of the last NEWLINE
   token before it, or the initial value *)
Definition last_newline_pos (text : string) (pos : nat) : Z :=
  let r := rfind_nl text pos in if r <? 0 then last_newline_pos_init else r.
Definition indent_of (text : string) (pos : nat) : Z :=
  current_indent (Z.of_nat pos) (last_newline_pos text pos).

(* the reference notion: (line, column), both 1-based, of offset pos *)
Fixpoint linecol_from (s : string) (pos : nat) (line col : Z) : Z * Z :=
  match pos, s with
  | S p, String c r => if is_nl c then linecol_from r p (line + 1) 1 else linecol_from r p line (col + 1)
  | _, _ => (line, col)
  end.
Definition linecol (text : string) (pos : nat) : Z * Z := linecol_from text pos 1 1.

(* ---- lexer: lineno bookkeeping -------------------------------------------------------- *)
(* a lexed piece of the input: the rule that matched it (or "ignore"/"literal") and its text *)
Record piece := mkPiece { p_rule : string; p_text : string }.

Definition writes_lineno (rule : string) : bool := existsb (String.eqb rule) lexer_lineno_writers.

(* ply: a token gets lexer.lineno as it is BEFORE its rule function runs *)
Fixpoint lex_linenos (ps : list piece) (lineno : Z) : list Z :=
  match ps with
  | [] => []
  | p :: r => lineno :: lex_linenos r (if writes_lineno (p_rule p) then lineno + lexer_newline_increment else lineno)
  end.

Fixpoint count_nl (s : string) : Z :=
  match s with EmptyString => 0 | String c r => (if is_nl c then 1 else 0) + count_nl r end.

Definition rule_may_match_newline (rule : string) : bool :=
  existsb (fun row => String.eqb (fst (fst row)) rule && snd row) lexer_rules.

(* a piece stream is consistent with the structural facts the translator established *)
Definition piece_ok (p : piece) : bool :=
  if writes_lineno (p_rule p) then String.eqb (p_text p) (String "010"%char EmptyString)
  else Z.eqb (count_nl (p_text p)) 0.
